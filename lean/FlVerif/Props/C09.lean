import FlVerif.Spec.Defuzz
import FlVerif.Op.Integral
import FlVerif.Lemmas.Integral
import FlVerif.Lemmas.CodeIntegral
import FlVerif.Lemmas.CodeIntegralMembership

/-! # C09 — Integral defuzzifiers return the defined point of the sampled fuzzy set

`Op.Integral.*` follows the array code of `Bisector/Centroid/…/SmallestOfMaximum.defuzzify`, `Op.midpoints`,
`Aggregated.membership` and `Activated.membership` (it is the model the driver runs against the implementation);
`Spec.*` is the property as it is read.  A sampled fuzzy set is a list `ps` of pairs (sample point, membership);
all statements hold over every linearly ordered field, for lists of **any** length and any memberships `≥ 0`.
`nan` is the "no result" value.  What only the correspondence carries: float summation order and float ties. -/

set_option linter.unusedSectionVars false

namespace C09
variable {α : Type} [Field α] [LinearOrder α] [IsStrictOrderedRing α]
open X Spec Lemmas.Integral

/-! ## the sample points -/

/-- `Op.midpoints` computes the documented points -/
theorem midpoints_op_eq_spec (lo hi : α) (r : Nat) :
    Op.Integral.midpoints (fin lo) (fin hi) r = (midpoints lo hi r).map fin := midpoints_fin lo hi r

theorem midpoints_length (lo hi : α) (r : Nat) : (midpoints lo hi r).length = r := by simp [midpoints]

/-- the `i`-th point is the midpoint of the `i`-th of `r` equal cells -/
theorem midpoints_formula (lo hi : α) (r i : Nat) (h : i < r) :
    (midpoints lo hi r)[i]? = some (lo + ((i : α) + 1 / 2) * ((hi - lo) / r)) := by
  simp [midpoints, h]

/-- every sample point lies strictly inside the range -/
theorem midpoints_mem (lo hi : α) (h : lo < hi) (r : Nat) {x : α} (hx : x ∈ midpoints lo hi r) : lo < x ∧ x < hi := by
  obtain ⟨i, hi', rfl⟩ := List.mem_map.1 hx
  exact midpoint_bounds lo hi h r i (List.mem_range.1 hi')

/-- translating the range translates the sample points -/
theorem midpoints_translate (lo hi c : α) (r : Nat) :
    midpoints (lo + c) (hi + c) r = (midpoints lo hi r).map (· + c) := by
  unfold midpoints
  rw [List.map_map]
  apply List.map_congr_left
  intro i _
  simp only [Function.comp]
  ring

/-- sampling the translated set over the translated range = translating the sample points -/
theorem sample_translate (μ : α → α) (lo hi c : α) (r : Nat) :
    sample (fun x => μ (x - c)) (lo + c) (hi + c) r = (sample μ lo hi r).map (fun p => (p.1 + c, p.2)) := by
  unfold sample
  rw [midpoints_translate, List.map_map, List.map_map]
  apply List.map_congr_left
  intro x _
  simp [Function.comp]

/-! ## the array code computes the defined point (`op_eq_spec`, 5×) -/

theorem centroid_op_eq_spec (ps : List (α × α)) (hy : ∀ p ∈ ps, 0 ≤ p.2) :
    Op.Integral.centroid (ps.map (fun p => fin p.1)) (ps.map (fun p => fin p.2)) = centroid ps :=
  centroid_eq ps hy
theorem bisector_op_eq_spec (ps : List (α × α)) (hy : ∀ p ∈ ps, 0 ≤ p.2) :
    Op.Integral.bisector (ps.map (fun p => fin p.1)) (ps.map (fun p => fin p.2)) = bisector ps :=
  bisector_eq ps hy
theorem som_op_eq_spec (ps : List (α × α)) :
    Op.Integral.som (ps.map (fun p => fin p.1)) (ps.map (fun p => fin p.2)) = som ps := (maxima_eq ps).2.1
theorem mom_op_eq_spec (ps : List (α × α)) :
    Op.Integral.mom (ps.map (fun p => fin p.1)) (ps.map (fun p => fin p.2)) = mom ps := (maxima_eq ps).1
theorem lom_op_eq_spec (ps : List (α × α)) :
    Op.Integral.lom (ps.map (fun p => fin p.1)) (ps.map (fun p => fin p.2)) = lom ps := (maxima_eq ps).2.2

/-- an aggregated term without activations (membership array `[[0.0]]`, broadcast) has no result -/
theorem no_activation_nan (x : List (X α)) :
    Op.Integral.centroid x [fin 0] = nan ∧ Op.Integral.bisector x [fin 0] = nan ∧ Op.Integral.som x [fin 0] = nan ∧
    Op.Integral.mom x [fin 0] = nan ∧ Op.Integral.lom x [fin 0] = nan := no_activation x

/-! ## every result lies in the range (`result_in_range`, 5×) -/

theorem centroid_in_range (lo hi : α) (ps : List (α × α)) (hy : ∀ p ∈ ps, 0 ≤ p.2)
    (hx : ∀ p ∈ ps, lo ≤ p.1 ∧ p.1 ≤ hi) (z : α) (hz : centroid ps = fin z) : lo ≤ z ∧ z ≤ hi := by
  unfold centroid at hz
  split_ifs at hz with h0
  have hpos : 0 < sumY ps := lt_of_le_of_ne (sumY_nonneg ps hy) (Ne.symm h0)
  obtain ⟨b1, b2⟩ := sumXY_bounds lo hi ps hy hx
  cases hz
  exact ⟨by rw [le_div_iff₀ hpos]; exact b1, by rw [div_le_iff₀ hpos]; exact b2⟩

theorem bisector_in_range (lo hi : α) (ps : List (α × α)) (hx : ∀ p ∈ ps, lo ≤ p.1 ∧ p.1 ≤ hi) (z : α)
    (hz : bisector ps = fin z) : lo ≤ z ∧ z ≤ hi := by
  unfold bisector at hz
  split_ifs at hz with h0
  refine mean_in_range _ lo hi ?_ z hz
  intro x hx'
  obtain ⟨p, hp, rfl⟩ := mem_bisectorPoints ps hx'
  exact hx p hp

theorem mom_in_range (lo hi : α) (ps : List (α × α)) (hx : ∀ p ∈ ps, lo ≤ p.1 ∧ p.1 ≤ hi) (z : α)
    (hz : mom ps = fin z) : lo ≤ z ∧ z ≤ hi := by
  refine mean_in_range _ lo hi ?_ z hz
  intro x hx'
  obtain ⟨p, hp, rfl⟩ := mem_maxPoints ps hx'
  exact hx p hp

/-- SOM and LOM are sample points of positive maximal membership (in particular they lie in the range) -/
theorem som_is_max_point (ps : List (α × α)) (z : α) (hz : som ps = fin z) : z ∈ maxPoints ps := smallest_mem _ z hz
theorem lom_is_max_point (ps : List (α × α)) (z : α) (hz : lom ps = fin z) : z ∈ maxPoints ps := largest_mem _ z hz

theorem som_in_range (lo hi : α) (ps : List (α × α)) (hx : ∀ p ∈ ps, lo ≤ p.1 ∧ p.1 ≤ hi) (z : α)
    (hz : som ps = fin z) : lo ≤ z ∧ z ≤ hi := by
  obtain ⟨p, hp, rfl⟩ := mem_maxPoints ps (som_is_max_point ps z hz)
  exact hx p hp
theorem lom_in_range (lo hi : α) (ps : List (α × α)) (hx : ∀ p ∈ ps, lo ≤ p.1 ∧ p.1 ≤ hi) (z : α)
    (hz : lom ps = fin z) : lo ≤ z ∧ z ≤ hi := by
  obtain ⟨p, hp, rfl⟩ := mem_maxPoints ps (lom_is_max_point ps z hz)
  exact hx p hp

/-- for a set sampled at the midpoints of `[lo, hi]` all five results lie in `[lo, hi]` -/
theorem sampled_result_in_range (μ : α → α) (hμ : ∀ x, 0 ≤ μ x) (lo hi : α) (h : lo < hi) (r : Nat) (z : α)
    (hz : centroid (sample μ lo hi r) = fin z ∨ bisector (sample μ lo hi r) = fin z ∨
      som (sample μ lo hi r) = fin z ∨ mom (sample μ lo hi r) = fin z ∨ lom (sample μ lo hi r) = fin z) :
    lo ≤ z ∧ z ≤ hi := by
  have hx : ∀ p ∈ sample μ lo hi r, lo ≤ p.1 ∧ p.1 ≤ hi := by
    intro p hp
    obtain ⟨x, hx, rfl⟩ := List.mem_map.1 hp
    have := midpoints_mem lo hi h r hx
    exact ⟨this.1.le, this.2.le⟩
  have hy : ∀ p ∈ sample μ lo hi r, 0 ≤ p.2 := by
    intro p hp
    obtain ⟨x, _, rfl⟩ := List.mem_map.1 hp
    exact hμ x
  rcases hz with hz | hz | hz | hz | hz
  · exact centroid_in_range lo hi _ hy hx z hz
  · exact bisector_in_range lo hi _ hx z hz
  · exact som_in_range lo hi _ hx z hz
  · exact mom_in_range lo hi _ hx z hz
  · exact lom_in_range lo hi _ hx z hz

/-! ## SOM ≤ MOM ≤ LOM -/

theorem som_le_mom_le_lom (ps : List (α × α)) (s m l : α)
    (hs : som ps = fin s) (hm : mom ps = fin m) (hl : lom ps = fin l) : s ≤ m ∧ m ≤ l := by
  unfold som mom lom at *
  cases hpts : maxPoints ps with
  | nil => rw [hpts] at hs; cases hs
  | cons x xs =>
    rw [hpts] at hs hm hl
    simp only [smallest, largest, fin.injEq] at hs hl
    subst hs hl
    have hmin := foldl_min_le xs x
    have hmax := le_foldl_max xs x
    refine mean_in_range (x :: xs) _ _ ?_ m hm
    intro y hy
    rcases List.mem_cons.1 hy with rfl | hy
    · exact ⟨hmin.1, hmax.1⟩
    · exact ⟨hmin.2 y hy, hmax.2 y hy⟩

/-! ## NaN exactly when the membership is zero at every sample point (5×) -/

theorem centroid_nan_iff (ps : List (α × α)) (hy : ∀ p ∈ ps, 0 ≤ p.2) :
    centroid ps = nan ↔ ∀ p ∈ ps, p.2 = 0 := by
  unfold centroid
  rw [← sumY_eq_zero_iff ps hy]
  by_cases h : sumY ps = 0 <;> simp [h]

theorem bisector_nan_iff (ps : List (α × α)) (hy : ∀ p ∈ ps, 0 ≤ p.2) :
    bisector ps = nan ↔ ∀ p ∈ ps, p.2 = 0 := by
  unfold bisector
  rw [← sumY_eq_zero_iff ps hy]
  by_cases h : sumY ps = 0
  · simp [h]
  · simp only [h, if_false, iff_false]
    rw [mean_eq_nan_iff]
    apply bisectorPoints_ne_nil
    intro e; subst e; exact h rfl

theorem som_nan_iff (ps : List (α × α)) (hy : ∀ p ∈ ps, 0 ≤ p.2) : som ps = nan ↔ ∀ p ∈ ps, p.2 = 0 := by
  unfold som; rw [smallest_eq_nan_iff, maxPoints_eq_nil_iff ps hy]
theorem mom_nan_iff (ps : List (α × α)) (hy : ∀ p ∈ ps, 0 ≤ p.2) : mom ps = nan ↔ ∀ p ∈ ps, p.2 = 0 := by
  unfold mom; rw [mean_eq_nan_iff, maxPoints_eq_nil_iff ps hy]
theorem lom_nan_iff (ps : List (α × α)) (hy : ∀ p ∈ ps, 0 ≤ p.2) : lom ps = nan ↔ ∀ p ∈ ps, p.2 = 0 := by
  unfold lom; rw [largest_eq_nan_iff, maxPoints_eq_nil_iff ps hy]

/-- no defuzzifier ever returns an infinity -/
theorem results_not_infinite (ps : List (α × α)) :
    (∀ D ∈ [centroid ps, bisector ps, som ps, mom ps, lom ps], D ≠ pinf ∧ D ≠ ninf) := by
  intro D hD
  simp only [List.mem_cons, List.not_mem_nil, or_false] at hD
  have hmean : ∀ l : List α, mean l ≠ pinf ∧ mean l ≠ ninf := by
    intro l; unfold mean; split_ifs <;> simp
  have hsm : ∀ l : List α, smallest l ≠ pinf ∧ smallest l ≠ ninf := by intro l; cases l <;> simp [smallest]
  have hlg : ∀ l : List α, largest l ≠ pinf ∧ largest l ≠ ninf := by intro l; cases l <;> simp [largest]
  rcases hD with rfl | rfl | rfl | rfl | rfl
  · unfold centroid; split_ifs <;> simp
  · unfold bisector; split_ifs
    · simp
    · exact hmean _
  · exact hsm _
  · exact hmean _
  · exact hlg _

/-! ## translation -/

/-- the centroid moves by `c` when the sample points are translated by `c` -/
theorem centroid_translate (c : α) (ps : List (α × α)) :
    centroid (ps.map (fun p => (p.1 + c, p.2))) = X.add (centroid ps) (fin c) := by
  have hY : sumY (ps.map (fun p => (p.1 + c, p.2))) = sumY ps := by
    unfold sumY; rw [List.map_map]; rfl
  have hXY : sumXY (ps.map (fun p => (p.1 + c, p.2))) = sumXY ps + c * sumY ps := by
    clear hY
    induction ps with
    | nil => simp [sumXY, sumY]
    | cons p ps ih =>
      simp only [sumXY, sumY, List.map, List.sum_cons] at *
      rw [ih]; ring
  unfold centroid
  rw [hY, hXY]
  split_ifs with h0
  · rfl
  · simp only [add_fin]; congr 1; field_simp

/-- … hence when set and range are translated by `c` -/
theorem centroid_translate_sampled (μ : α → α) (lo hi c : α) (r : Nat) :
    centroid (sample (fun x => μ (x - c)) (lo + c) (hi + c) r) = X.add (centroid (sample μ lo hi r)) (fin c) := by
  rw [sample_translate, centroid_translate]

/-! ## Bisector: the chosen points minimise `|cum_i / total − ½|` -/

/-- the score of the `i`-th sample point is `|Σ_{j ≤ i} μ_j / Σ_j μ_j − ½|` -/
theorem scores_formula (ps : List (α × α)) (i : Nat) (h : i < ps.length) :
    (scores ps)[i]? = some |((ps.map Prod.snd).take (i + 1)).sum / sumY ps - 1 / 2| := by
  unfold scores
  rw [List.getElem?_map, cums_getElem?]
  simp [h]

/-- a point is chosen exactly when its score is minimal among all scores -/
theorem bisector_balances (ps : List (α × α)) (x : α) :
    x ∈ bisectorPoints ps ↔
      ∃ s, (x, s) ∈ (ps.map Prod.fst).zip (scores ps) ∧ ∀ s' ∈ scores ps, s ≤ s' := by
  unfold bisectorPoints
  simp only [List.mem_map, List.mem_filter, List.all_eq_true, decide_eq_true_eq]
  constructor
  · rintro ⟨z, ⟨hz, hmin⟩, rfl⟩
    exact ⟨z.2, hz, hmin⟩
  · rintro ⟨s, hz, hmin⟩
    exact ⟨(x, s), ⟨hz, hmin⟩, rfl⟩

/-- with positive total membership some point is chosen, and the result is the mean of the chosen points -/
theorem bisector_is_mean_of_tied (ps : List (α × α)) (h0 : sumY ps ≠ 0) :
    bisectorPoints ps ≠ [] ∧ bisector ps = mean (bisectorPoints ps) := by
  refine ⟨bisectorPoints_ne_nil ps ?_, by simp [bisector, h0]⟩
  intro e; subst e; exact h0 rfl

/-! ## a batch of sets gives the per-set results -/

/-- `Aggregated.membership` on a batch of `B` degree rows followed by an `axis=1` defuzzifier = the defuzzifier on
    each of the `B` fuzzy sets built from the `b`-th degrees (`D` is any of the five row functions) -/
theorem batch_rows (D : List (X α) → List (X α) → X α) (agg : X α → X α → X α)
    (acts : List (Op.Integral.Activated α)) (hne : acts ≠ []) (B : Nat) (x : List (X α))
    (hU : ∀ a ∈ acts, a.degrees.length = 1 ∨ a.degrees.length = B) :
    Op.Integral.defuzzifyBatch D x (Op.Integral.aggregatedMat agg acts B x) =
      (List.range B).map (fun b =>
        D x (Op.Integral.aggregatedRow agg (acts.map (fun a => (a, (a.column B).getD b nan))) x)) := by
  unfold Op.Integral.defuzzifyBatch Op.Integral.aggregatedMat Op.Integral.aggregatedRow
  have h1 : acts.isEmpty = false := by cases acts <;> simp_all
  have h2 : ∀ b, (acts.map (fun a => (a, (a.column B).getD b (nan : X α)))).isEmpty = false := by
    intro b; cases acts <;> simp_all
  simp only [h1, h2, Bool.false_eq_true, if_false]
  have e : List.replicate B (x.map (fun _ => (fin 0 : X α))) =
      (List.range B).map (fun _ => x.map (fun _ => (fin 0 : X α))) := by
    apply List.ext_getElem <;> simp
  rw [e, foldl_rows agg x B acts hU, List.map_map]
  apply List.map_congr_left
  intro b _
  simp only [Function.comp, List.foldl_map]

/-! ## the array code of the source is the model (Tie A for algorithms, DESIGN.md section 0.7)

`Gen.Code.*` (`Gen/CodeIntegral.lean`) is regenerated from the sources of `Op.midpoints`, the five `defuzzify` methods,
`Activated.membership` and `Aggregated.membership` on every run (`fv/pylean.py`); every NumPy call is an external of
`Op/PyExtIntegral.lean` (`Py.Np`: a 2-D array is the list of its rows, broadcasting stretches an axis of length 1 and is
a `ValueError` otherwise).  In the five defuzzifier theorems `mem` is `term.membership` - *any* function that returns a
NumPy value or raises; `Py.Np.memShape r Y` says that its result, seen through `np.atleast_2d`, has one column per
sample point or a single column (what the code relies on when it multiplies by `x`).  The result is the model's row
function on every row of the batch (`defuzzifyBatch`), squeezed. -/

/-- **Tie A (code → model).**  `Op.midpoints` returns the model's list; resolution 0 is Python's `ZeroDivisionError`
    (`float / int`; the model has the empty list there - no defuzzifier is constructed with resolution 0). -/
theorem code_midpoints (lo hi : X ℚ) (r : Nat) :
    Gen.Code.Op_midpoints.run lo hi r {} =
      if r = 0 then .error .internal else .ok { ret := some (Op.Integral.midpoints lo hi r) } :=
  Op.Integral.code_midpoints lo hi r

/-- **Tie A (code → model).**  `Centroid.defuzzify`: the exception of `term.membership` is passed on; otherwise the
    result is `Op.Integral.centroid` on every row. -/
theorem code_centroid (mem : Py.Np.Mat → Py.M Py.Np.Nd) (lo hi : X ℚ) (r : Nat) :
    if r = 0 then Gen.Code.Centroid_defuzzify.run mem lo hi r {} = .error .internal else
    match mem [Op.Integral.midpoints lo hi r] with
    | .error e => Gen.Code.Centroid_defuzzify.run mem lo hi r {} = .error e
    | .ok y0 => Py.Np.memShape r (Py.Np.atleast2d y0) = true →
        ∃ σ, Gen.Code.Centroid_defuzzify.run mem lo hi r {} = .ok σ ∧
          σ.ret = some (Py.Np.squeeze1 (Op.Integral.defuzzifyBatch Op.Integral.centroid
            (Op.Integral.midpoints lo hi r) (Py.Np.atleast2d y0))) :=
  Op.Integral.code_centroid mem lo hi r

/-- **Tie A (code → model).**  `Bisector.defuzzify` is `Op.Integral.bisector` on every row. -/
theorem code_bisector (mem : Py.Np.Mat → Py.M Py.Np.Nd) (lo hi : X ℚ) (r : Nat) :
    if r = 0 then Gen.Code.Bisector_defuzzify.run mem lo hi r {} = .error .internal else
    match mem [Op.Integral.midpoints lo hi r] with
    | .error e => Gen.Code.Bisector_defuzzify.run mem lo hi r {} = .error e
    | .ok y0 => Py.Np.memShape r (Py.Np.atleast2d y0) = true →
        ∃ σ, Gen.Code.Bisector_defuzzify.run mem lo hi r {} = .ok σ ∧
          σ.ret = some (Py.Np.squeeze1 (Op.Integral.defuzzifyBatch Op.Integral.bisector
            (Op.Integral.midpoints lo hi r) (Py.Np.atleast2d y0))) :=
  Op.Integral.code_bisector mem lo hi r

/-- **Tie A (code → model).**  `SmallestOfMaximum.defuzzify` is `Op.Integral.som` on every row. -/
theorem code_som (mem : Py.Np.Mat → Py.M Py.Np.Nd) (lo hi : X ℚ) (r : Nat) :
    if r = 0 then Gen.Code.SmallestOfMaximum_defuzzify.run mem lo hi r {} = .error .internal else
    match mem [Op.Integral.midpoints lo hi r] with
    | .error e => Gen.Code.SmallestOfMaximum_defuzzify.run mem lo hi r {} = .error e
    | .ok y0 => Py.Np.memShape r (Py.Np.atleast2d y0) = true →
        ∃ σ, Gen.Code.SmallestOfMaximum_defuzzify.run mem lo hi r {} = .ok σ ∧
          σ.ret = some (Py.Np.squeeze1 (Op.Integral.defuzzifyBatch Op.Integral.som
            (Op.Integral.midpoints lo hi r) (Py.Np.atleast2d y0))) :=
  Op.Integral.code_som mem lo hi r

/-- **Tie A (code → model).**  `MeanOfMaximum.defuzzify` is `Op.Integral.mom` on every row. -/
theorem code_mom (mem : Py.Np.Mat → Py.M Py.Np.Nd) (lo hi : X ℚ) (r : Nat) :
    if r = 0 then Gen.Code.MeanOfMaximum_defuzzify.run mem lo hi r {} = .error .internal else
    match mem [Op.Integral.midpoints lo hi r] with
    | .error e => Gen.Code.MeanOfMaximum_defuzzify.run mem lo hi r {} = .error e
    | .ok y0 => Py.Np.memShape r (Py.Np.atleast2d y0) = true →
        ∃ σ, Gen.Code.MeanOfMaximum_defuzzify.run mem lo hi r {} = .ok σ ∧
          σ.ret = some (Py.Np.squeeze1 (Op.Integral.defuzzifyBatch Op.Integral.mom
            (Op.Integral.midpoints lo hi r) (Py.Np.atleast2d y0))) :=
  Op.Integral.code_mom mem lo hi r

/-- **Tie A (code → model).**  `LargestOfMaximum.defuzzify` is `Op.Integral.lom` on every row. -/
theorem code_lom (mem : Py.Np.Mat → Py.M Py.Np.Nd) (lo hi : X ℚ) (r : Nat) :
    if r = 0 then Gen.Code.LargestOfMaximum_defuzzify.run mem lo hi r {} = .error .internal else
    match mem [Op.Integral.midpoints lo hi r] with
    | .error e => Gen.Code.LargestOfMaximum_defuzzify.run mem lo hi r {} = .error e
    | .ok y0 => Py.Np.memShape r (Py.Np.atleast2d y0) = true →
        ∃ σ, Gen.Code.LargestOfMaximum_defuzzify.run mem lo hi r {} = .ok σ ∧
          σ.ret = some (Py.Np.squeeze1 (Op.Integral.defuzzifyBatch Op.Integral.lom
            (Op.Integral.midpoints lo hi r) (Py.Np.atleast2d y0))) :=
  Op.Integral.code_lom mem lo hi r

/-- **Tie A (code → model).**  `Activated.membership` on the row of sample points (`x = [xr]`, shape `(1, n)`):
    `ValueError` without implication operator; otherwise the model's matrix `activatedMat` with one row per degree
    (`degrees`: the degrees given to the constructor, stored through `nan_to_num`) - returned as a matrix for a
    batch of degrees, squeezed otherwise. -/
theorem code_activatedMembership (mu : X ℚ → X ℚ) (degrees : List (X ℚ)) (impl : Option (X ℚ → X ℚ → X ℚ))
    (xr : List (X ℚ)) :
    match impl with
    | none => Gen.Code.Activated_membership.run mu degrees none [xr] {} = .error .value
    | some f => ∃ σ, Gen.Code.Activated_membership.run mu degrees (some f) [xr] {} = .ok σ ∧
        σ.ret = some (if 1 < degrees.length then .mat (Op.Integral.activatedMat ⟨mu, degrees, f⟩ degrees.length xr)
                      else Py.Np.squeeze2 (Op.Integral.activatedMat ⟨mu, degrees, f⟩ degrees.length xr)) :=
  Op.Integral.code_activatedMembership mu degrees impl xr

/-- **Tie A (code → model).**  `Aggregated.membership` on the row of sample points: `ValueError` when terms lack
    the aggregation operator or a term lacks its implication operator; otherwise the value, seen through
    `np.atleast_2d` as the defuzzifiers see it, is the model's matrix `aggregatedMat` (`[[0.0]]` without terms).
    `B` is the batch size: every term has one degree or `B` degrees, and `B = 1` unless some term has `B` degrees.
    (`Activated.membership` enters as the value `code_activatedMembership` gives it: `Py.Np.activatedMembership`.) -/
theorem code_aggregatedMembership (agg : Option (X ℚ → X ℚ → X ℚ)) (terms : List Py.Np.Act) (xr : List (X ℚ))
    (B : Nat) :
    match agg with
    | none =>
      if terms.isEmpty then
        ∃ σ, Gen.Code.Aggregated_membership.run none terms xr {} = .ok σ ∧ σ.ret = some (.scalar (.fin 0))
      else Gen.Code.Aggregated_membership.run none terms xr {} = .error .value
    | some g =>
      if terms.all (fun a => a.impl.isSome) then
        1 ≤ B → (∀ a ∈ terms, a.degrees.length = 1 ∨ a.degrees.length = B) →
        (B = 1 ∨ ∃ a ∈ terms, a.degrees.length = B) →
        ∃ σ v, Gen.Code.Aggregated_membership.run (some g) terms xr {} = .ok σ ∧ σ.ret = some v ∧
          Py.Np.atleast2d v = Op.Integral.aggregatedMat g (terms.map Py.Np.Act.model) B xr
      else Gen.Code.Aggregated_membership.run (some g) terms xr {} = .error .value :=
  Op.Integral.code_aggregatedMembership agg terms xr B

/-- the value `Aggregated.membership` uses for `term.membership(x)` is what the translated `Activated.membership`
    returns (or the exception it raises) -/
theorem code_activatedMembership_callee (a : Py.Np.Act) (xr : List (X ℚ)) :
    match Py.Np.activatedMembership a xr with
    | .error e => Gen.Code.Activated_membership.run a.mu a.degrees a.impl [xr] {} = .error e
    | .ok v => ∃ σ, Gen.Code.Activated_membership.run a.mu a.degrees a.impl [xr] {} = .ok σ ∧ σ.ret = some v :=
  Op.Integral.code_activatedMembership_callee a xr

/-- the list `Op.midpoints` the defuzzifiers call is what the translated `Op.midpoints` returns -/
theorem code_midpoints_callee (lo hi : X ℚ) (r : Nat) :
    Gen.Code.Op_midpoints.run lo hi r {} = (Py.Np.midpoints lo hi r >>= fun v => .ok { ret := some v }) :=
  Op.Integral.code_midpoints_callee lo hi r

/-- the shape hypothesis of the defuzzifier ties holds for what `Aggregated.membership` returns: the model's matrix
    has one column per sample point (a single column without terms) -/
theorem aggregatedMat_shape (g : X ℚ → X ℚ → X ℚ) (acts : List (Op.Integral.Activated ℚ)) (B : Nat)
    (xr : List (X ℚ)) :
    Py.Np.memShape xr.length (Op.Integral.aggregatedMat g acts B xr) = true :=
  Op.Integral.aggregatedMat_shape g acts B xr

/-! ## non-vacuity -/

example : midpoints (0 : ℚ) 2 2 = [1 / 2, 3 / 2] := by decide +kernel
example : centroid [((1 : ℚ) / 2, (1 : ℚ) / 4), (3 / 2, 3 / 4)] = fin (5 / 4) := by decide +kernel
/-- a plateau of two maximal points and a lower third: SOM, MOM, LOM are 2, 5/2, 3 -/
example : som [((1 : ℚ), (1 : ℚ) / 2), (2, 1), (3, 1), (4, 1 / 4)] = fin 2 ∧
    mom [((1 : ℚ), (1 : ℚ) / 2), (2, 1), (3, 1), (4, 1 / 4)] = fin (5 / 2) ∧
    lom [((1 : ℚ), (1 : ℚ) / 2), (2, 1), (3, 1), (4, 1 / 4)] = fin 3 := by decide +kernel
/-- two equal lumps separated by a gap: both sides of the gap halve the set, the bisector is their mean -/
example : bisectorPoints [((1 : ℚ), (1 : ℚ)), (2, 0), (3, 1)] = [1, 2] ∧
    bisector [((1 : ℚ), (1 : ℚ)), (2, 0), (3, 1)] = fin (3 / 2) := by decide +kernel
example : Op.Integral.bisector [fin (1 : ℚ), fin 2, fin 3] [fin 1, fin 0, fin 1] = fin (3 / 2) := by decide +kernel
example : bisector [((1 : ℚ), (0 : ℚ)), (2, 0)] = nan := by decide +kernel

end C09
