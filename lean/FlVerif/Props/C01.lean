import FlVerif.Spec.Pipeline
import FlVerif.Op.Engine
import FlVerif.Lemmas.CodeEngine
import FlVerif.Lemmas.CodeBlockActInfer   -- `Engine.infer_type`, `Variable.highest_membership`, `Variable.fuzzify`
import FlVerif.Lemmas.CodeBlockActInferLaws
import FlVerif.Lemmas.CodeDegree   -- `Antecedent.activation_degree` = `Op.degree` (theorem `C06.code_activationDegree`)

/-! # C01 — Engine output equals the documented inference pipeline

Part 1: laws of the documented pipeline (`Spec.Pipeline`) for rule lists and block lists of ANY length.
Part 2: the executable model `Op.Engine` (the one the driver runs against `Engine.process`) refines it. -/

namespace C01
open Spec.Pipeline

/-- **Tie A (code → model).**  `Gen.Code.Engine_process` is regenerated from the source of `Engine.process` on every run
    (`fv/pylean.py`): three loops – `variable.fuzzy.clear()` for every output variable, `block.activate()` for every
    *enabled* rule block in order (the external `Op.Engine.activateBlock` on the fuzzy outputs accumulated so far),
    `variable.defuzzify()` for every output variable in order (the external `Py.Eng.defuzzifyVar`: the raw value
    `Op.Engine.defuzzRaw` of an enabled variable; the cascade after it is `C12.code_defuzzify`).  `fz i` is the fuzzy
    output of the `i`-th output variable before the call (it does not matter: the first loop clears it).
    For every engine: the code raises exactly when the model `Op.Engine.processRow` fails; otherwise the fuzzy outputs
    and the raw values are those of the model, and the per-block rule observations are those the model records for the
    enabled blocks (`enabledObs`: the model records `[]` for a disabled block, the code does not touch it). -/
theorem code_process (F : Fn Rat) (e : Op.Engine.EngineD Rat) (fz : Nat → List (Op.Engine.Act Rat)) :
    match Op.Engine.processRow F e with
    | none => ∃ err, Gen.Code.Engine_process.run F e fz {} = .error err
    | some r => ∃ σ, Gen.Code.Engine_process.run F e fz {} = .ok σ ∧ σ.fuzzy = r.fuzzy ∧ σ.raw = r.raw ∧
        σ.rules = Op.Engine.enabledObs e.blocks r.rules :=
  Op.Engine.code_process F e fz

section wiring
variable {S D : Type}

theorem rules_append (xs ys : List (ARule S D)) (s : S) :
    rules (xs ++ ys) s = (rules xs s).bind (rules ys) := by
  induction xs generalizing s with
  | nil => simp [rules]
  | cons r xs ih =>
    simp only [List.cons_append, rules]
    cases r.loaded <;> simp only [Bool.false_eq_true, if_false, if_true, ih]
    cases r.deg s with
    | none => simp
    | some d =>
      cases r.enabled <;> simp only [Bool.false_eq_true, if_false, if_true, ih]
      cases r.concl d s <;> simp [ih]

theorem blocks_append (xs ys : List (ABlock S D)) (s : S) :
    blocks (xs ++ ys) s = (blocks xs s).bind (blocks ys) := by
  induction xs generalizing s with
  | nil => simp [blocks]
  | cons b xs ih =>
    simp only [List.cons_append, blocks]
    cases b.enabled <;> simp only [Bool.false_eq_true, if_false, if_true, ih]
    cases rules b.rules s <;> simp [ih]

/-- "an output variable used in an antecedent sees exactly the contributions accumulated so far": the k-th rule is
    evaluated on the state produced by the rules before it, and the rules after it see its contribution -/
theorem antecedent_sees_prefix (pre post : List (ARule S D)) (r : ARule S D) (s : S)
    (hl : r.loaded = true) (he : r.enabled = true) :
    rules (pre ++ r :: post) s =
      (rules pre s).bind (fun s1 => (r.deg s1).bind (fun d => (r.concl d s1).bind (rules post))) := by
  rw [rules_append]
  congr 1; funext s1
  simp only [rules, hl, he, if_true]
  cases r.deg s1 with
  | none => rfl
  | some d => cases h : r.concl d s1 <;> simp [Option.bind, h]

/-- a disabled rule contributes nothing and influences nothing (its degree is still computed, so it must not raise) -/
theorem disabled_rule_noop (pre post : List (ARule S D)) (r : ARule S D) (s : S)
    (hr : r.enabled = false) (hd : ∀ s', (r.deg s').isSome = true) :
    rules (pre ++ r :: post) s = rules (pre ++ post) s := by
  rw [rules_append, rules_append]
  congr 1; funext s1
  simp only [rules, hr]
  cases r.loaded
  · simp
  · have := hd s1
    cases h : r.deg s1 with
    | none => simp [h] at this
    | some d => simp

/-- an unloaded rule is skipped altogether -/
theorem unloaded_rule_noop (pre post : List (ARule S D)) (r : ARule S D) (s : S) (hr : r.loaded = false) :
    rules (pre ++ r :: post) s = rules (pre ++ post) s := by
  rw [rules_append, rules_append]
  congr 1; funext s1
  simp [rules, hr]

theorem disabled_block_noop (pre post : List (ABlock S D)) (b : ABlock S D) (s : S) (hb : b.enabled = false) :
    blocks (pre ++ b :: post) s = blocks (pre ++ post) s := by
  rw [blocks_append, blocks_append]
  congr 1; funext s1
  simp [blocks, hb]

/-- rule blocks act in order: the second block starts from the fuzzy outputs the first one left -/
theorem blocks_in_order (b1 b2 : ABlock S D) (s : S) (h1 : b1.enabled = true) (h2 : b2.enabled = true) :
    blocks [b1, b2] s = (rules b1.rules s).bind (rules b2.rules) := by
  simp only [blocks, h1, h2, if_true]
  cases rules b1.rules s with
  | none => rfl
  | some s' => simp only [Option.bind]; cases rules b2.rules s' <;> rfl

/-- `process` clears the fuzzy outputs first: earlier steps leave no trace in them (used by C13) -/
theorem process_history_free (clear : S → S) (hc : ∀ a b, clear a = clear b) (bs : List (ABlock S D)) (s s' : S) :
    process clear bs s = process clear bs s' := by
  unfold process; rw [hc s s']

/-- General: every loaded, enabled rule whose degree and conclusions evaluate fires (changes the state through its
    conclusions) – the last rule of any list -/
theorem general_fires_all_enabled (pre : List (ARule S D)) (r : ARule S D) (s s1 : S) (d : D)
    (hl : r.loaded = true) (he : r.enabled = true) (hp : rules pre s = some s1) (hd : r.deg s1 = some d) :
    rules (pre ++ [r]) s = r.concl d s1 := by
  rw [rules_append, hp]
  simp only [Option.bind, rules, hl, he, if_true, hd]
  cases r.concl d s1 <;> rfl

end wiring

/-! ## the executable engine model refines the pipeline -/

section refinement
variable {α : Type} [Field α] [LinearOrder α] [IsStrictOrderedRing α]
open Op.Engine

/-- the abstract rule of a concrete rule inside a block -/
def toARule (F : Fn α) (ins : List (InVar α)) (outs : List (OutVar α)) (b : Block α) (r : RuleD α) :
    ARule (Fuzzy α) (X α) :=
  { enabled := r.enabled, loaded := r.loaded,
    deg := fun fz => activateWith F ins outs b r fz,
    concl := fun d fz => (trigger F outs b.implication r d fz).map (·.1) }

/-- C01 `process_eq_pipeline` (rule level): under General activation the fuzzy outputs computed by the code-shaped
    loop of `Op.Engine` (the model the driver runs against `RuleBlock.activate`) are exactly the documented pipeline
    over the rules of the block, for rule lists of any length and any starting state -/
theorem generalPass_eq_pipeline (F : Fn α) (ins : List (InVar α)) (outs : List (OutVar α)) (b : Block α)
    (rs : List (RuleD α × Nat)) (c : Nat) (fz : Fuzzy α) (obs : List (RuleObs α)) :
    (loopPass F ins outs b (fun _ _ => some true) rs c (fz, obs)).map (·.1) =
      rules (rs.map (fun p => toARule F ins outs b p.1)) fz := by
  induction rs generalizing c fz obs with
  | nil => simp [loopPass, rules]
  | cons p rs ih =>
    obtain ⟨r, i⟩ := p
    simp only [loopPass, List.map_cons, rules, toARule]
    cases hl : r.loaded
    · simp only [Bool.false_eq_true, if_false]; exact ih _ _ _
    · simp only [if_true]
      cases hd : activateWith F ins outs b r fz with
      | none => simp [Option.bind, bind]
      | some d =>
        simp only [Option.bind_eq_bind, Option.bind_some, Option.pure_def]
        cases he : r.enabled
        · have ht : trigger F outs b.implication r d fz = some (fz, false) := by simp [trigger, he]
          simp only [ht, Option.bind_some, Bool.false_eq_true, if_false]
          exact ih _ _ _
        · simp only [if_true]
          cases ht : trigger F outs b.implication r d fz with
          | none => simp
          | some q =>
            obtain ⟨fz', tr⟩ := q
            simp only [Option.bind_some, Option.map_some]
            exact ih _ _ _

/-- the same refinement for every sequential method (General, First, Last, Threshold – `eligible` is the method's
    test on (degree, number selected so far)), with feedback through output variables: the interleaved loop of the
    executable model is the documented selection pipeline -/
theorem loopPass_eq_rulesSel (F : Fn α) (ins : List (InVar α)) (outs : List (OutVar α)) (b : Block α)
    (eligible : X α → Nat → Option Bool)
    (rs : List (RuleD α × Nat)) (c : Nat) (fz : Fuzzy α) (obs : List (RuleObs α)) :
    (loopPass F ins outs b eligible rs c (fz, obs)).map (·.1) =
      rulesSel eligible (rs.map (fun p => toARule F ins outs b p.1)) c fz := by
  induction rs generalizing c fz obs with
  | nil => simp [loopPass, rulesSel]
  | cons p rs ih =>
    obtain ⟨r, i⟩ := p
    simp only [loopPass, List.map_cons, rulesSel, toARule]
    cases hl : r.loaded
    · simp only [Bool.false_eq_true, if_false]; exact ih _ _ _
    · simp only [if_true]
      cases hd : activateWith F ins outs b r fz with
      | none => simp [Option.bind, bind]
      | some d =>
        simp only [Option.bind_eq_bind, Option.bind_some, Option.pure_def]
        cases hs : eligible d c with
        | none => simp
        | some sel =>
          cases sel
          · simp only [Option.bind_some, Bool.false_eq_true, if_false]; exact ih _ _ _
          · simp only [Option.bind_some, if_true]
            cases he : r.enabled
            · have ht : trigger F outs b.implication r d fz = some (fz, false) := by simp [trigger, he]
              simp only [ht, Option.bind_some, Bool.false_eq_true, if_false]
              exact ih _ _ _
            · simp only [if_true]
              cases ht : trigger F outs b.implication r d fz with
              | none => simp
              | some q =>
                obtain ⟨fz', tr⟩ := q
                simp only [Option.bind_some, Option.map_some]
                exact ih _ _ _

/-- General is the selection pipeline that selects everything -/
theorem rulesSel_general {S D : Type} (rs : List (ARule S D)) (c : Nat) (s : S) :
    rulesSel (fun _ _ => some true) rs c s = rules rs s := by
  induction rs generalizing c s with
  | nil => rfl
  | cons r rs ih =>
    simp only [rulesSel, rules]
    cases hl : r.loaded
    · simp [ih]
    · simp only [if_true]
      cases r.deg s with
      | none => rfl
      | some d =>
        cases he : r.enabled
        · simp [ih]
        · simp only [if_true]
          cases r.concl d s <;> simp [ih]

/-- First(n, t): a rule visited when `n` rules have already been selected is never selected (and leaves the state
    untouched), whatever its degree -/
theorem first_stops_at_n {S D : Type} (n : Nat) (p : D → Bool) (r : ARule S D) (rs : List (ARule S D)) (c : Nat) (s : S)
    (hc : n ≤ c) (hd : (r.deg s).isSome = true) :
    rulesSel (fun d k => some (decide (k < n) && p d)) (r :: rs) c s =
      rulesSel (fun d k => some (decide (k < n) && p d)) rs c s := by
  simp only [rulesSel]
  cases r.loaded
  · simp
  · cases h : r.deg s with
    | none => simp [h] at hd
    | some d =>
      have : decide (c < n) = false := by simp; omega
      simp [this]

/-- activation degree = weight × antecedent -/
theorem degree_weight (F : Fn α) (ins : List (InVar α)) (outs : List (OutVar α)) (b : Block α) (r : RuleD α)
    (fz : Fuzzy α) :
    activateWith F ins outs b r fz =
      (degree F { inputs := ins, outputs := outs, fuzzy := fz } b.conjunction b.disjunction r.ante).map
        (fun a => X.mul r.weight a) := by
  unfold activateWith
  cases degree F { inputs := ins, outputs := outs, fuzzy := fz } b.conjunction b.disjunction r.ante <;> rfl

/-- a disabled rule adds nothing to any fuzzy output and is not marked triggered -/
theorem disabled_rule_adds_nothing (F : Fn α) (outs : List (OutVar α)) (impl : Option String) (r : RuleD α)
    (d : X α) (fz : Fuzzy α) (h : r.enabled = false) : trigger F outs impl r d fz = some (fz, false) := by
  simp [trigger, h]

/-- a rule is marked triggered only if its degree is positive -/
theorem triggered_pos (F : Fn α) (outs : List (OutVar α)) (impl : Option String) (r : RuleD α)
    (d : X α) (fz fz' : Fuzzy α) (h : trigger F outs impl r d fz = some (fz', true)) : X.lt (.fin 0) d = true := by
  unfold trigger at h
  cases he : r.enabled
  · simp [he] at h
  · simp only [he, if_true] at h
    cases hm : Op.Engine.modify F outs impl r.concls d fz with
    | none => simp [hm] at h
    | some q => simp [hm] at h; exact h.2

/-! ### the engine model is composed of the component models of C09 / C10 / C12

These statements hold by unfolding: the executable engine model calls the very functions the component properties
are proved about, so `C09.*`, `C10.*` and `C12.*` speak about the values `processRow` computes. -/

/-- defuzzification of an integral output: the C09 defuzzifier applied to the membership of the aggregated set at the
    midpoints of the variable's range -/
theorem defuzz_integral_is_component (F : Fn α) (inputs : List (X α)) (ov : OutVar α) (acts : List (Act α))
    (kind : String) (r : Nat) (h : ov.defuzz = .integral kind r) :
    defuzzRaw F inputs ov acts =
      ((Op.Integral.midpoints ov.lo ov.hi r).mapM (aggMembership F inputs ov.aggregation acts)).bind
        (fun ys => integral kind (Op.Integral.midpoints ov.lo ov.hi r) ys) := by
  simp only [defuzzRaw, h]
  cases (Op.Integral.midpoints ov.lo ov.hi r).mapM (aggMembership F inputs ov.aggregation acts) <;> rfl

theorem integral_is_component (xs ys : List (X α)) :
    integral "Centroid" xs ys = some (Op.Integral.centroid xs ys) ∧
    integral "Bisector" xs ys = some (Op.Integral.bisector xs ys) ∧
    integral "SmallestOfMaximum" xs ys = some (Op.Integral.som xs ys) ∧
    integral "MeanOfMaximum" xs ys = some (Op.Integral.mom xs ys) ∧
    integral "LargestOfMaximum" xs ys = some (Op.Integral.lom xs ys) := ⟨rfl, rfl, rfl, rfl, rfl⟩

/-- an output without activations: the aggregated membership is 0 at every sample point -/
theorem no_activation_membership (F : Fn α) (inputs : List (X α)) (agg : Option String) (x : X α) :
    aggMembership F inputs agg [] x = some (.fin 0) := rfl

/-- the conclusions of a triggered rule: the C07 loop (`Op.Consequent.modifyPinned`, the code as written) produces the
    activations, which are appended to the fuzzy outputs of their variables -/
theorem modify_is_component (F : Fn α) (outs : List (OutVar α)) (impl : Option String) (cs : List Concl) (d : X α)
    (fz : Fuzzy α) :
    Op.Engine.modify F outs impl cs d fz =
      (toConcls F outs cs).bind (fun concls =>
        (Op.Consequent.modifyPinned X.nanToNum01 impl d concls).foldlM (appendAct outs) fz) := by
  simp only [Op.Engine.modify]
  cases toConcls F outs cs <;> rfl

/-- rule selection: whenever no antecedent of the block reads an output variable – and always for Highest, Lowest and
    Proportional – the block is activated through the C08 model `Op.Activation.activate` -/
theorem activate_is_component (F : Fn α) (ins : List (InVar α)) (outs : List (OutVar α)) (b : Block α) (fz : Fuzzy α)
    (h : feedbackFree outs b = true ∨ (∃ n, b.activation = .highest n) ∨ (∃ n, b.activation = .lowest n) ∨
      b.activation = .proportional) :
    activateBlock F ins outs b fz = activateViaComponent F ins outs b fz := by
  unfold activateBlock
  cases hf : feedbackFree outs b
  · rcases h with h | ⟨n, h⟩ | ⟨n, h⟩ | h
    · simp [hf] at h
    all_goals simp [h]
  · simp

/-- a block without an activation method cannot be activated: the model of `RuleBlock.activate` fails, as the code
    raises (`C08.code_blockActivate`: the `ValueError` of the translated method) -/
theorem activateBlock_missing (F : Fn α) (ins : List (InVar α)) (outs : List (OutVar α)) (b : Block α) (fz : Fuzzy α)
    (h : b.activation = .missing) : activateBlock F ins outs b fz = none := by
  have hv : activateViaComponent F ins outs b fz = none := by simp [activateViaComponent, h, toMethod]
  unfold activateBlock
  cases hf : feedbackFree outs b
  · simp [h]
  · simpa using hv

/-- antecedents: the C06 evaluator `Op.degree` on the engine's environment -/
theorem degree_is_component (F : Fn α) (e : Env α) (conj disj : Option String) (a : Ante)
    (h : resolves F e conj disj a = true) :
    degree F e conj disj a = (Op.degree (degCtx F e conj disj) (toANode a)).toOption := by
  simp [degree, h]

/-- the value an output variable takes after a step is the C12 cascade applied to the raw defuzzified value -/
theorem value_is_cascade (ov : OutVar α) (raw : X α) (st : Op.OutState α) :
    (Op.defuzzify (cascadeCfg ov) (some [raw]) st).1 =
      if ov.enabled then Op.commit (cascadeCfg ov) [raw] st else st := by
  cases h : ov.enabled <;> simp [Op.defuzzify, cascadeCfg, h]

end refinement

/-! ## `Engine.infer_type`, `Variable.highest_membership`, `Variable.fuzzify`

Models: `Op/Infer.lean`.  An output variable is seen through its defuzzifier (`Op.Infer.Defuzz`: none, integral, or
weighted with the result of `defuzzifier.infer_type(variable)` - a type, or `TypeError` for terms of several types), a
rule block through "its implication is the AlgebraicProduct". -/

open Op.Infer in
/-- **Tie A (code → model).**  `Gen.Code.Engine_infer_type` is regenerated from the source of `Engine.infer_type` on
    every run (the list `reasons` is not translated).  For every engine it raises where the decision table
    `Op.Infer.inferType` does (`TypeError`) and otherwise returns the model's type. -/
theorem code_inferType (e : Op.Infer.Engine) :
    match inferType e with
    | .error err => Gen.Code.Engine_infer_type.run e {} = .error err
    | .ok t => ∃ σ, Gen.Code.Engine_infer_type.run e {} = .ok σ ∧ σ.ret = some t :=
  Op.Infer.code_inferType e

open Op.Infer in
/-- `Unknown` exactly for an engine without output variables or with an output variable without defuzzifier (engines
    whose weighted output variables have terms of one type each; `Unknown` implies the right-hand side for every engine:
    `Op.Infer.inferType_unknown_only`) -/
theorem inferType_unknown_iff (e : Op.Infer.Engine) (hw : WellTyped e) :
    inferType e = .ok .unknown ↔ e.outputs = [] ∨ Defuzz.none ∈ e.outputs :=
  Op.Infer.inferType_unknown_iff e hw

open Op.Infer in
/-- `Mamdani` or `Larsen` exactly when there is an output variable and every output variable has an integral defuzzifier -/
theorem inferType_integral_iff (e : Op.Infer.Engine) :
    (inferType e = .ok .mamdani ∨ inferType e = .ok .larsen) ↔
      (e.outputs ≠ [] ∧ ∀ d ∈ e.outputs, d = Defuzz.integral) :=
  Op.Infer.inferType_integral_iff e

open Op.Infer in
/-- … and then `Larsen` exactly when there is a rule block and every rule block's implication is the AlgebraicProduct -/
theorem inferType_larsen_iff (e : Op.Infer.Engine) (hne : e.outputs ≠ []) (hall : ∀ d ∈ e.outputs, d = Defuzz.integral) :
    inferType e = .ok .larsen ↔ (e.blocks ≠ [] ∧ ∀ b ∈ e.blocks, b.product = true) :=
  Op.Infer.inferType_larsen_iff e hne hall

open Op.Infer in
/-- a type is returned for every engine whose weighted output variables have terms of one type each -/
theorem inferType_total (e : Op.Infer.Engine) (h : WellTyped e) : ∃ t, inferType e = .ok t :=
  Op.Infer.inferType_total e h

open Op.Infer in
/-- the `TypeError` of a weighted output variable with terms of several types depends on the order of the output
    variables (observed on the implementation: output variables [weighted with Constant + Triangle terms, no
    defuzzifier] raise `TypeError`, in the other order the result is `Unknown`; after an integral one `Hybrid`) -/
theorem inferType_order_dependent :
    inferType ⟨[.weighted none, .none], []⟩ = .error .internal ∧
    inferType ⟨[.none, .weighted none], []⟩ = .ok .unknown ∧
    inferType ⟨[.integral, .weighted none], []⟩ = .ok .hybrid :=
  Op.Infer.inferType_order_dependent

open Op.Infer in
/-- **Tie A (code → model).**  `Variable.highest_membership` (terms of any type `T`; `mu t` is what
    `term.membership(x)` returns or raises; an `Activated` is the pair of the term and the degree its constructor
    stores, `nan_to_num(degree, nan=0, neginf=0, posinf=1)`): the exception of
    the model `Op.Infer.highestMembership` (any exception of a membership function but `ValueError`) or its result. -/
theorem code_highestMembership {T : Type} [Inhabited T] (mu : T → Py.M (X Rat)) (terms : List T) :
    match highestMembership mu terms with
    | .error err => Gen.Code.Variable_highest_membership.run mu terms {} = .error err
    | .ok r => ∃ σ, Gen.Code.Variable_highest_membership.run mu terms {} = .ok σ ∧ σ.ret = r :=
  Op.Infer.code_highestMembership mu terms

open Op.Infer in
/-- the result of `highest_membership` for membership functions that do not raise and do not return `+inf`: `None` iff
    no term has a positive degree; otherwise a term of the variable with its degree, positive, and exceeded by no term
    of the variable -/
theorem highestMembership_spec {τ : Type} (f : τ → X Rat) (terms : List τ) (hfin : ∀ t ∈ terms, f t ≠ .pinf) :
    ∃ r, highestMembership (fun t => .ok (f t)) terms = .ok r ∧ HighestOf f terms r :=
  Op.Infer.highestMembership_spec f terms hfin

open Op.Infer in
/-- why `+inf` is excluded: `Activated(term, degree)` stores `nan_to_num(degree, posinf=1)`, so a term of degree `+inf`
    is held with degree 1 – a later term of degree 5 replaces it, and alone it is returned with degree 1 (the model
    compared with `+inf` until the differential stream of this property showed the implementation's answer) -/
theorem highestMembership_inf :
    highestMembership (fun (t : Nat) => .ok (if t = 0 then X.pinf else X.fin 5)) [0, 1] = .ok (some (1, X.fin 5)) ∧
    highestMembership (fun (_ : Nat) => .ok X.pinf) [0] = .ok (some (0, X.fin 1)) :=
  Op.Infer.highestMembership_inf

open Op.Infer in
/-- **Tie A (code → model).**  `Variable.fuzzify` for a scalar `x` (`fv a padding` is the text
    `Activated.fuzzy_value(padding)`): the texts of the activated terms concatenated, the first without padding. -/
theorem code_fuzzify {T : Type} [Inhabited T] (mu : T → Py.M (X Rat)) (fv : T × X Rat → Bool → String) (terms : List T) :
    match fuzzify mu fv terms with
    | .error err => Gen.Code.Variable_fuzzify.run mu fv terms {} = .error err
    | .ok r => ∃ σ, Gen.Code.Variable_fuzzify.run mu fv terms {} = .ok σ ∧ σ.ret = some r :=
  Op.Infer.code_fuzzify mu fv terms

/-! ## non-vacuity -/
example : rules (S := List Nat) (D := Nat)
    [{ enabled := true, loaded := true, deg := fun s => some s.length, concl := fun d s => some (s ++ [d]) },
     { enabled := false, loaded := true, deg := fun s => some (s.length + 5), concl := fun d s => some (s ++ [d]) },
     { enabled := true, loaded := true, deg := fun s => some (s.length + 10), concl := fun d s => some (s ++ [d]) }] []
    = some [0, 11] := by decide

end C01
