import FlVerif.Spec.Defuzz
import FlVerif.Op.Weighted
import FlVerif.Lemmas.Weighted
import FlVerif.Lemmas.Norm
import FlVerif.Props.C04
import FlVerif.Gen.TermGen
import FlVerif.Lemmas.CodeWeighted
import FlVerif.Lemmas.CodeDiscrete
import FlVerif.Lemmas.CodeDiscreteHighest
import FlVerif.Lemmas.CodeWave5X

/-! # C10 — Weighted defuzzifiers compute the grouped weighted average / sum

`Op.Weighted.*` follows `Aggregated.grouped_terms`, `WeightedDefuzzifier.infer_type` and the loops of
`WeightedAverage.defuzzify` / `WeightedSum.defuzzify` (with the product of the repaired tree, F4: a zero weight
contributes zero; the pinned product is kept as `prodPinned`).  An activation is a pair (term, degree); a term is
its name, its `infer_type` class, `membership` and – when overridden – `tsukamoto`.  Everything holds over every
linearly ordered field and for activation lists of any length.

Reading fixed by the design (DESIGN.md section 7): "an activation with degree 0 never changes the result" is stated
for an activation whose term has the kind the defuzzifier works with (`Supported`, and the resolved type is the
one of the enlarged list); a zero-degree activation of another kind makes `infer_type` fail (`mixed_types_raise`). -/

set_option linter.unusedSectionVars false

namespace C10
variable {α : Type} [Field α] [LinearOrder α] [IsStrictOrderedRing α]
variable {ν : Type} [DecidableEq ν]
open X Op.Weighted Lemmas.Weighted
open Spec (I snorm SNorm grouped sumW sumWZ)

/-! ## the models are the code

`Gen.Code.Aggregated_grouped_terms`, `Gen.Code.WeightedAverage_defuzzify`, `Gen.Code.WeightedSum_defuzzify` are
regenerated from the sources of `Aggregated.grouped_terms`, `WeightedAverage.defuzzify`, `WeightedSum.defuzzify` on
every run (`fv/pylean.py`), at the rationals with strings as term names. -/

/-- **Tie A (code → model).**  The dictionary `grouped_terms()` returns holds exactly the groups of
    `Op.Weighted.groupedTerms`, in their order, each under the name of its term - for every aggregation operator (or
    none) and every list of activations. -/
theorem code_groupedTerms (agg : Option (X ℚ → X ℚ → X ℚ)) (acts : List (Act String ℚ)) :
    ∃ σ, Gen.Code.Aggregated_grouped_terms.run agg acts {} = .ok σ ∧
      σ.ret = some ((groupedTerms agg acts).map (fun g => (g.1.name, g))) :=
  Op.Weighted.code_groupedTerms agg acts

/-- **Tie A (code → model).**  `WeightedAverage.defuzzify` on an `Aggregated` term raises the exception the model
    `Op.Weighted.weightedAverage` predicts (`TypeError` of `infer_type`, `RuntimeError` of `Term.tsukamoto`) and
    otherwise returns the value of the model - for every type setting, aggregation operator and list of
    activations; on a term that is not `Aggregated` it raises `ValueError`. -/
theorem code_weightedAverage (ty : WType) (agg : Option (X ℚ → X ℚ → X ℚ)) (acts : List (Act String ℚ)) :
    (match weightedAverage ty agg acts with
     | .error e => Gen.Code.WeightedAverage_defuzzify.run ty (some ⟨agg, acts⟩) {} = .error (Py.W.errToPy e)
     | .ok y => ∃ σ, Gen.Code.WeightedAverage_defuzzify.run ty (some ⟨agg, acts⟩) {} = .ok σ ∧ σ.ret = some y) ∧
    Gen.Code.WeightedAverage_defuzzify.run ty none {} = .error .value :=
  Op.Weighted.code_weightedAverage ty agg acts

/-- **Tie A (code → model).**  The same for `WeightedSum.defuzzify` and `Op.Weighted.weightedSum`. -/
theorem code_weightedSum (ty : WType) (agg : Option (X ℚ → X ℚ → X ℚ)) (acts : List (Act String ℚ)) :
    (match weightedSum ty agg acts with
     | .error e => Gen.Code.WeightedSum_defuzzify.run ty (some ⟨agg, acts⟩) {} = .error (Py.W.errToPy e)
     | .ok y => ∃ σ, Gen.Code.WeightedSum_defuzzify.run ty (some ⟨agg, acts⟩) {} = .ok σ ∧ σ.ret = some y) ∧
    Gen.Code.WeightedSum_defuzzify.run ty none {} = .error .value :=
  Op.Weighted.code_weightedSum ty agg acts

/-! ## the Takagi-Sugeno terms and two more methods of `Aggregated`

`Gen.Code.Term_update_reference`, `Linear_update_reference`, `Aggregated_range`, `Aggregated_highest_activated_term` are
regenerated from `term.py` on every run.  The membership functions of the Takagi-Sugeno terms the defuzzifiers call -
`Linear.membership` = `Op.Weighted.linear` row by row of the input values, `Constant.membership` = the value - are tied
by `C03.code_linearMembership` and `C03.code_constantMembership` (Props/C03.lean). -/

/-- **Tie A (code → model).**  `Term.update_reference` does nothing. -/
theorem code_termUpdateReference (engine : Option Py.Disc.Engine) (σ : Gen.Code.Term_update_reference.S) :
    Gen.Code.Term_update_reference.run engine σ = .ok σ :=
  (Py.Disc.code_updateReference engine σ {}).1

/-- **Tie A (code → model).**  `Linear.update_reference` stores the engine (or `None`) in the term. -/
theorem code_linearUpdateReference (engine : Option Py.Disc.Engine) (τ : Gen.Code.Linear_update_reference.S) :
    Gen.Code.Linear_update_reference.run engine τ = .ok { τ with self_engine := engine } :=
  (Py.Disc.code_updateReference engine {} τ).2

/-- **Tie A (code → model).**  `Aggregated.range()` is `maximum - minimum`. -/
theorem code_aggregatedRange (minimum maximum : X ℚ) :
    ∃ σ, Gen.Code.Aggregated_range.run minimum maximum {} = .ok σ ∧ σ.ret = some (X.sub maximum minimum) :=
  Py.Disc.code_aggregatedRange minimum maximum

/-- **Tie A (code → model).**  `Aggregated.highest_activated_term()` raises `ValueError` when the degree of some group
    of `grouped_terms()` is a vector (`np.size` of it exceeds one) and otherwise returns what the model
    `Op.Weighted.highestActivated` says: the first group with the strictly largest positive aggregated degree, `None`
    when no group has a positive degree. -/
theorem code_highestActivatedTerm (size_of : X ℚ → Nat) (agg : Option (X ℚ → X ℚ → X ℚ)) (acts : List (Act String ℚ)) :
    match highestActivated size_of agg acts with
    | none => Gen.Code.Aggregated_highest_activated_term.run size_of agg acts {} = .error .value
    | some h => ∃ σ, Gen.Code.Aggregated_highest_activated_term.run size_of agg acts {} = .ok σ ∧ σ.ret = some h :=
  Op.Weighted.code_highestActivatedTerm size_of agg acts

/-! ## `WeightedDefuzzifier.infer_type` itself

Until the fifth wave the call `self.infer_type(fuzzy_output)` of the two defuzzifiers was a trusted external
(`Py.W.inferType`, i.e. the model `Op.Weighted.inferType` by fiat).  `Gen.Code.WeightedDefuzzifier_infer_type` is the
recursive classmethod regenerated from `defuzzifier.py`; its argument is a tree of components (`Py.W5.Comp`: an
`Aggregated` term or a `Variable` with its terms, an `Activated` term with the term it wraps, a plain term). -/

/-- **Tie A (code → model).**  `WeightedDefuzzifier.infer_type` on the `Aggregated` term of the weighted model (a list of
    `Activated` terms over plain terms) raises `TypeError` exactly when `Op.Weighted.inferType` fails (terms of several
    types) and otherwise returns its type (`Automatic` for no term at all); on a plain term it returns the
    classification `Op.Weighted.inferTerm` (TakagiSugeno for `Constant` / `Linear` / `Function`, Tsukamoto for a
    monotonic term, Automatic otherwise).  The bound on the recursion depth is never exhausted. -/
theorem code_inferType (acts : List (Act String ℚ)) (t : WTerm String ℚ) :
    (match inferType acts with
     | .error e => Gen.Code.WeightedDefuzzifier_infer_type.run (Py.W5.ofActs acts) {} = .error (Py.W.errToPy e)
     | .ok ty => ∃ σ, Gen.Code.WeightedDefuzzifier_infer_type.run (Py.W5.ofActs acts) {} = .ok σ ∧ σ.ret = some ty) ∧
    (∃ σ, Gen.Code.WeightedDefuzzifier_infer_type.run (.plain t) {} = .ok σ ∧ σ.ret = some (inferTerm t)) :=
  ⟨Op.Weighted.code_inferType acts, Op.Weighted.code_inferType_plain t⟩

/-- **Tie A (code → model), every component.**  On every tree of components - nested `Aggregated` terms, `Activated`
    terms of `Activated` terms, variables - the translated function is the recursive model `Op.Weighted.inferComp`
    (`Lemmas/CodeWave5X.lean`): the type of a plain term, of the wrapped term, or the single element of the set of the
    types of the terms (`Automatic` for none, `TypeError` for several; a `TypeError` of a part goes through). -/
theorem code_inferType_tree (c : Py.W5.Comp) :
    match inferComp c with
    | .error e => Gen.Code.WeightedDefuzzifier_infer_type.run c {} = .error (Py.W.errToPy e)
    | .ok ty => ∃ σ, Gen.Code.WeightedDefuzzifier_infer_type.run c {} = .ok σ ∧ σ.ret = some ty :=
  Op.Weighted.code_inferType_tree c

/-- **The external `Py.W.inferType`** - the call `self.infer_type(fuzzy_output)` inside the translated
    `WeightedAverage.defuzzify` / `WeightedSum.defuzzify` (`code_weightedAverage`, `code_weightedSum` above) - **is the
    translated `infer_type`** applied to the fuzzy output as a component: same value, same exception class. -/
theorem inferType_external_is_code (a : Py.W.Aggregated) :
    match Py.W.inferType a with
    | .ok ty => ∃ σ, Gen.Code.WeightedDefuzzifier_infer_type.run (Py.W5.ofActs a.terms) {} = .ok σ ∧ σ.ret = some ty
    | .error e => Gen.Code.WeightedDefuzzifier_infer_type.run (Py.W5.ofActs a.terms) {} = .error e :=
  Op.Weighted.inferType_external_is_code a

/-- **The external `Op.Infer.Defuzz.weightedType`** - the call `variable.defuzzifier.infer_type(variable)` inside the
    translated `Engine.infer_type` (`C01.code_inferType`) - **is the translated `infer_type`** applied to the variable as
    a component, when the model's output variable carries what the tree model makes of its terms
    (`weightedOfTerms ts`: the common type, or `none` = `TypeError`). -/
theorem inferType_engine_external_is_code (ts : List Py.W5.Comp) :
    match Op.Infer.Defuzz.weightedType (.weighted (weightedOfTerms ts)) with
    | .ok ty => ∃ σ, Gen.Code.WeightedDefuzzifier_infer_type.run (.group ts) {} = .ok σ ∧ σ.ret = some ty
    | .error e => Gen.Code.WeightedDefuzzifier_infer_type.run (.group ts) {} = .error e :=
  Op.Weighted.inferType_engine_external_is_code ts

/-- `infer_type` looks through `Activated`: wrapping a component changes nothing -/
theorem inferType_activated (c : Py.W5.Comp) : inferComp (.activated c) = inferComp c := by
  rw [inferComp]

/-! ## grouping -/

/-- `grouped_terms()` = one group per term name in first-occurrence order; the group keeps the first term object
    and folds the aggregation operator (each result stored through the `degree` setter) over the degrees of all
    activations of that name, in order -/
theorem grouped_spec (agg : Option (X α → X α → X α)) (acts : List (Act ν α)) :
    groupedTerms agg acts =
      grouped (fun t : WTerm ν α => t.name) setDegree (fun v d => setDegree (aggregationOr agg v d)) acts :=
  groupedTerms_eq agg acts

/-- the operator is the aggregation operator, or the plain sum when there is none -/
theorem aggregation_or_sum (f : X α → X α → X α) (a b : X α) :
    aggregationOr (some f) a b = f a b ∧ aggregationOr none a b = X.add a b := ⟨rfl, rfl⟩

/-- a single activation of a name keeps its degree; a repeated name folds from the left -/
theorem grouped_two (agg : Option (X α → X α → X α)) (t : WTerm ν α) (d1 d2 : α) :
    groupedTerms agg [(t, fin d1), (t, fin d2)] = [(t, setDegree (aggregationOr agg (fin d1) (fin d2)))] := by
  simp [groupedTerms, insertGroup, setDegree]

/-! ## the kind of defuzzifier: inferred unless fixed -/

theorem inferTerm_table (t : WTerm ν α) :
    (t.kind = .sugeno → inferTerm t = .takagiSugeno) ∧ (t.kind = .monotonic → inferTerm t = .tsukamoto) ∧
    (t.kind = .other → inferTerm t = .automatic) := by
  refine ⟨?_, ?_, ?_⟩ <;> intro h <;> simp [inferTerm, h]

/-- decision table of `infer_type`: `Automatic` for no activation, the common type of the terms otherwise -/
theorem inferType_spec (acts : List (Act ν α)) (t : WType) :
    inferType acts = .ok t ↔ (acts = [] ∧ t = .automatic) ∨ (acts ≠ [] ∧ ∀ a ∈ acts, inferTerm a.1 = t) := by
  constructor
  · intro h
    rcases trichotomy acts with rfl | ⟨hne, t0, ht0⟩ | ⟨a, ha, b, hb, hne⟩
    · left; rw [inferType_empty] at h; cases h; exact ⟨rfl, rfl⟩
    · right
      rw [inferType_uniform acts hne t0 ht0] at h
      cases h
      exact ⟨hne, ht0⟩
    · rw [inferType_mixed acts a b ha hb hne] at h; cases h
  · rintro (⟨rfl, rfl⟩ | ⟨hne, h⟩)
    · exact inferType_empty
    · exact inferType_uniform acts hne t h

/-- … and `TypeError` exactly when two activated terms have different types -/
theorem inferType_error_iff (acts : List (Act ν α)) :
    inferType acts = .error .typeError ↔ ∃ a ∈ acts, ∃ b ∈ acts, inferTerm a.1 ≠ inferTerm b.1 := by
  constructor
  · intro h
    rcases trichotomy acts with rfl | ⟨hne, t0, ht0⟩ | hmix
    · rw [inferType_empty] at h; cases h
    · rw [inferType_uniform acts hne t0 ht0] at h; cases h
    · exact hmix
  · rintro ⟨a, ha, b, hb, hne⟩
    exact inferType_mixed acts a b ha hb hne

/-- an explicitly fixed type is used whatever the terms are (even a mixture that inference rejects) -/
theorem fixed_type_overrides (ty : WType) (h : ty ≠ .automatic) (acts : List (Act ν α)) :
    resolveType ty acts = .ok ty := by simp [resolveType, h]
theorem automatic_infers (acts : List (Act ν α)) : resolveType .automatic acts = inferType acts := rfl

/-- which function of the term gives `z`: `membership` for Takagi-Sugeno and for the inverse Tsukamoto
    (`Automatic`), `tsukamoto` for Tsukamoto – `RuntimeError` when the class does not provide it -/
theorem z_table (t : WTerm ν α) (w : X α) :
    zOf .takagiSugeno t w = .ok (t.mu w) ∧ zOf .automatic t w = .ok (t.mu w) ∧
    (∀ f, t.tsk = some f → zOf .tsukamoto t w = .ok (f w)) ∧
    (t.tsk = none → zOf .tsukamoto t w = .error .runtimeError) := by
  refine ⟨rfl, rfl, ?_, ?_⟩
  · intro f h; simp [zOf, h]
  · intro h; simp [zOf, h]

/-! ## evaluation of the two defuzzifiers -/

theorem supported_groups (agg : Option (X α → X α → X α)) (acts : List (Act ν α)) (t : WType)
    (hs : ∀ a ∈ acts, Supported t a.1) : ∀ g ∈ groupedTerms agg acts, Supported t g.1 := by
  intro g hg
  rw [groupedTerms_eq] at hg
  obtain ⟨a, ha, e⟩ := grouped_terms_mem _ acts g hg
  rw [← e]; exact hs a ha

/-- both defuzzifiers as functions of the two accumulated sums (any product `P`) -/
theorem eval_with (P : X α → X α → X α) (ty : WType) (agg : Option (X α → X α → X α)) (acts : List (Act ν α))
    (t : WType) (ht : resolveType ty acts = .ok t) (hs : ∀ a ∈ acts, Supported t a.1) :
    let S1 := X.add (start acts).1 (xsum ((groupedTerms agg acts).map (fun g => P g.2 (zTot t g.1 g.2))))
    let S2 := X.add (start acts).2 (xsum ((groupedTerms agg acts).map Prod.snd))
    weightedAverageWith P ty agg acts = .ok (div S1 S2) ∧
    weightedSumWith P ty agg acts = .ok (mul (div S1 S2) S2) := by
  intro S1 S2
  have hl := loop_ok P t (groupedTerms agg acts) (supported_groups agg acts t hs) (start acts)
  unfold weightedAverageWith weightedSumWith
  simp only [ht, bind, Except.bind, hl, pure, Except.pure]
  exact ⟨rfl, rfl⟩

/-- a term outside the kind the defuzzifier works with (Tsukamoto type, no `tsukamoto`) raises `RuntimeError` -/
theorem unsupported_raises (ty : WType) (agg : Option (X α → X α → X α)) (acts : List (Act ν α)) (t : WType)
    (ht : resolveType ty acts = .ok t) (h : ∃ g ∈ groupedTerms agg acts, ¬ Supported t g.1) :
    weightedAverage ty agg acts = .error .runtimeError ∧ weightedSum ty agg acts = .error .runtimeError := by
  have hl := loop_error prod t (groupedTerms agg acts) h (start acts)
  unfold weightedAverage weightedSum weightedAverageWith weightedSumWith
  constructor <;> simp [ht, bind, Except.bind, hl]

/-- mixtures that make type inference fail raise `TypeError` in both defuzzifiers -/
theorem mixed_types_raise (agg : Option (X α → X α → X α)) (acts : List (Act ν α))
    (h : ∃ a ∈ acts, ∃ b ∈ acts, inferTerm a.1 ≠ inferTerm b.1) :
    weightedAverage .automatic agg acts = .error .typeError ∧ weightedSum .automatic agg acts = .error .typeError := by
  have := (inferType_error_iff acts).2 h
  unfold weightedAverage weightedSum weightedAverageWith weightedSumWith
  constructor <;> simp [automatic_infers, this, bind, Except.bind]

/-! ## `op_eq_spec`: Σwz/Σw and Σwz over the groups

`t` is the type the defuzzifier works with (`resolveType`): the fixed one, or the inferred one for `Automatic`;
`ζ g` is the (finite) value of the term of group `g` at its degree – it only matters where the degree is not 0. -/

theorem op_eq_spec (ty : WType) (agg : Option (X α → X α → X α)) (acts : List (Act ν α)) (t : WType)
    (ht : resolveType ty acts = .ok t) (hs : ∀ a ∈ acts, Supported t a.1) (ζ : Act ν α → α)
    (hz : ∀ g ∈ groupedTerms agg acts, degOf g.2 ≠ 0 → zTot t g.1 g.2 = fin (ζ g))
    (hw : ∀ g ∈ groupedTerms agg acts, 0 ≤ degOf g.2) :
    weightedAverage ty agg acts =
      .ok (Spec.weightedAverage ((groupedTerms agg acts).map (fun g => (degOf g.2, ζ g)))) ∧
    weightedSum ty agg acts =
      .ok (Spec.weightedSum ((groupedTerms agg acts).map (fun g => (degOf g.2, ζ g)))) := by
  obtain ⟨e1, e2⟩ := eval_with prod ty agg acts t ht hs
  have hfin : ∀ g ∈ groupedTerms agg acts, g.2 = fin (degOf g.2) := by
    intro g hg; rw [groupedTerms_eq] at hg; exact grouped_degrees_fin _ acts g hg
  obtain ⟨x1, x2⟩ := xsum_prod_fin t (groupedTerms agg acts) ζ hfin hz
  have m1 : ((groupedTerms agg acts).map (fun g => (degOf g.2, ζ g))).map Prod.fst =
      (groupedTerms agg acts).map (fun g => degOf g.2) := by rw [List.map_map]; rfl
  have m2 : ((groupedTerms agg acts).map (fun g => (degOf g.2, ζ g))).map (fun g => g.1 * g.2) =
      (groupedTerms agg acts).map (fun g => degOf g.2 * ζ g) := by rw [List.map_map]; rfl
  unfold weightedAverage weightedSum
  rw [e1, e2, x1, x2]
  unfold Spec.weightedAverage Spec.weightedSum sumW sumWZ
  rw [m1, m2, List.length_map]
  cases hacts : acts with
  | nil => simp [groupedTerms, start]
  | cons a rest =>
    have hne : groupedTerms agg (a :: rest) ≠ [] := by
      rw [groupedTerms_eq]; exact grouped_ne_nil _ _ _ _ (by simp)
    have hlen : (groupedTerms agg (a :: rest)).length ≠ 0 := by
      intro h; exact hne (List.length_eq_zero_iff.1 h)
    rw [← hacts] at hne hlen ⊢
    have hst : start acts = (fin 0, fin 0) := by rw [hacts]; rfl
    simp only [hst, add_fin, zero_add, hlen, false_or]
    by_cases h0 : ((groupedTerms agg acts).map (fun g => degOf g.2)).sum = 0
    · have hz0 := sum_mul_eq_zero ((groupedTerms agg acts).map (fun g => (degOf g.2, ζ g)))
        (by intro g hg; obtain ⟨g', hg', rfl⟩ := List.mem_map.1 hg; exact hw g' hg')
        (by rw [m1]; exact h0)
      rw [m2] at hz0
      simp [h0, hz0, div, mulInf]
    · simp only [h0, if_false, div_fin _ _ h0, mul_fin, true_and]
      congr 2
      field_simp

/-- the three type settings -/
theorem op_eq_spec_takagiSugeno (agg : Option (X α → X α → X α)) (acts : List (Act ν α)) (ζ : Act ν α → α)
    (hz : ∀ g ∈ groupedTerms agg acts, degOf g.2 ≠ 0 → g.1.mu g.2 = fin (ζ g))
    (hw : ∀ g ∈ groupedTerms agg acts, 0 ≤ degOf g.2) :
    weightedAverage .takagiSugeno agg acts =
      .ok (Spec.weightedAverage ((groupedTerms agg acts).map (fun g => (degOf g.2, ζ g)))) ∧
    weightedSum .takagiSugeno agg acts =
      .ok (Spec.weightedSum ((groupedTerms agg acts).map (fun g => (degOf g.2, ζ g)))) :=
  op_eq_spec .takagiSugeno agg acts .takagiSugeno rfl (fun _ _ h => by cases h) ζ hz hw

theorem op_eq_spec_tsukamoto (agg : Option (X α → X α → X α)) (acts : List (Act ν α)) (ζ : Act ν α → α)
    (hs : ∀ a ∈ acts, a.1.tsk.isSome = true)
    (hz : ∀ g ∈ groupedTerms agg acts, degOf g.2 ≠ 0 → ∀ f, g.1.tsk = some f → f g.2 = fin (ζ g))
    (hw : ∀ g ∈ groupedTerms agg acts, 0 ≤ degOf g.2) :
    weightedAverage .tsukamoto agg acts =
      .ok (Spec.weightedAverage ((groupedTerms agg acts).map (fun g => (degOf g.2, ζ g)))) ∧
    weightedSum .tsukamoto agg acts =
      .ok (Spec.weightedSum ((groupedTerms agg acts).map (fun g => (degOf g.2, ζ g)))) := by
  refine op_eq_spec .tsukamoto agg acts .tsukamoto rfl (fun a ha _ => hs a ha) ζ ?_ hw
  intro g hg h0
  have hsg := supported_groups agg acts .tsukamoto (fun a ha _ => hs a ha) g hg rfl
  cases htsk : g.1.tsk with
  | none => rw [htsk] at hsg; cases hsg
  | some f => simp only [zTot, htsk, if_true]; exact hz g hg h0 f htsk

theorem op_eq_spec_automatic (agg : Option (X α → X α → X α)) (acts : List (Act ν α)) (t : WType)
    (ht : inferType acts = .ok t) (hs : ∀ a ∈ acts, Supported t a.1) (ζ : Act ν α → α)
    (hz : ∀ g ∈ groupedTerms agg acts, degOf g.2 ≠ 0 → zTot t g.1 g.2 = fin (ζ g))
    (hw : ∀ g ∈ groupedTerms agg acts, 0 ≤ degOf g.2) :
    weightedAverage .automatic agg acts =
      .ok (Spec.weightedAverage ((groupedTerms agg acts).map (fun g => (degOf g.2, ζ g)))) ∧
    weightedSum .automatic agg acts =
      .ok (Spec.weightedSum ((groupedTerms agg acts).map (fun g => (degOf g.2, ζ g)))) :=
  op_eq_spec .automatic agg acts t ht hs ζ hz hw

/-! ## NaN exactly when there are no activations or all weights are zero -/

theorem spec_nan_iff (gs : List (α × α)) (hw : ∀ g ∈ gs, 0 ≤ g.1) :
    (Spec.weightedAverage gs = nan ↔ gs = [] ∨ ∀ g ∈ gs, g.1 = 0) ∧
    (Spec.weightedSum gs = nan ↔ gs = [] ∨ ∀ g ∈ gs, g.1 = 0) := by
  have hsum : sumW gs = 0 ↔ ∀ g ∈ gs, g.1 = 0 := by
    unfold sumW
    induction gs with
    | nil => simp
    | cons g gs ih =>
      have h1 := hw g (by simp)
      have hl : ∀ q ∈ gs, 0 ≤ q.1 := fun q hq => hw q (by simp [hq])
      have ih' := ih hl
      have h2 : 0 ≤ (gs.map Prod.fst).sum := by
        clear ih ih' hw
        induction gs with
        | nil => simp
        | cons q l ih2 =>
          have := hl q (by simp)
          have := ih2 (fun r hr => hl r (by simp [hr]))
          simp only [List.map_cons, List.sum_cons]; linarith
      simp only [List.map_cons, List.sum_cons, List.mem_cons, forall_eq_or_imp]
      constructor
      · intro h
        have e1 : g.1 = 0 := by linarith
        exact ⟨e1, ih'.1 (by linarith)⟩
      · rintro ⟨e1, e2⟩
        rw [e1, ih'.2 e2]; simp
  unfold Spec.weightedAverage Spec.weightedSum
  rw [← hsum]
  have hl : gs.length = 0 ↔ gs = [] := List.length_eq_zero_iff
  by_cases h : gs.length = 0 ∨ sumW gs = 0
  · simp only [if_pos h, true_iff]
    exact ⟨h.imp_left hl.1, h.imp_left hl.1⟩
  · simp only [if_neg h, reduceCtorEq, false_iff]
    exact ⟨fun h' => h (h'.imp_left hl.2), fun h' => h (h'.imp_left hl.2)⟩

/-- the results of both defuzzifiers are NaN exactly when there is no activation or every group has weight 0 -/
theorem nan_iff (ty : WType) (agg : Option (X α → X α → X α)) (acts : List (Act ν α)) (t : WType)
    (ht : resolveType ty acts = .ok t) (hs : ∀ a ∈ acts, Supported t a.1) (ζ : Act ν α → α)
    (hz : ∀ g ∈ groupedTerms agg acts, degOf g.2 ≠ 0 → zTot t g.1 g.2 = fin (ζ g))
    (hw : ∀ g ∈ groupedTerms agg acts, 0 ≤ degOf g.2) :
    (weightedAverage ty agg acts = .ok nan ↔ acts = [] ∨ ∀ g ∈ groupedTerms agg acts, degOf g.2 = 0) ∧
    (weightedSum ty agg acts = .ok nan ↔ acts = [] ∨ ∀ g ∈ groupedTerms agg acts, degOf g.2 = 0) := by
  obtain ⟨e1, e2⟩ := op_eq_spec ty agg acts t ht hs ζ hz hw
  obtain ⟨n1, n2⟩ := spec_nan_iff ((groupedTerms agg acts).map (fun g => (degOf g.2, ζ g)))
    (by intro g hg; obtain ⟨g', hg', rfl⟩ := List.mem_map.1 hg; exact hw g' hg')
  have hnil : (groupedTerms agg acts).map (fun g => (degOf g.2, ζ g)) = [] ↔ acts = [] := by
    rw [List.map_eq_nil_iff]
    constructor
    · intro h
      by_contra hne
      rw [groupedTerms_eq] at h
      exact grouped_ne_nil _ _ _ acts hne h
    · rintro rfl; rfl
  have hall : (∀ g ∈ (groupedTerms agg acts).map (fun g => (degOf g.2, ζ g)), g.1 = 0) ↔
      ∀ g ∈ groupedTerms agg acts, degOf g.2 = 0 := by
    constructor
    · intro h g hg
      exact h (degOf g.2, ζ g) (List.mem_map.2 ⟨g, hg, rfl⟩)
    · intro h g hg
      obtain ⟨g', hg', rfl⟩ := List.mem_map.1 hg
      exact h g' hg'
  rw [e1, e2]
  constructor
  · rw [← hnil, ← hall, ← n1]
    constructor
    · intro h; injection h
    · intro h; rw [h]
  · rw [← hnil, ← hall, ← n2]
    constructor
    · intro h; injection h
    · intro h; rw [h]

/-! ## a weighted average of constants lies between the smallest and largest activated constant -/

theorem average_bounds (gs : List (α × α)) (lo hi : α) (hw : ∀ g ∈ gs, 0 ≤ g.1)
    (hk : ∀ g ∈ gs, g.1 ≠ 0 → lo ≤ g.2 ∧ g.2 ≤ hi) (y : α) (hy : Spec.weightedAverage gs = fin y) :
    lo ≤ y ∧ y ≤ hi := by
  have hb : lo * sumW gs ≤ sumWZ gs ∧ sumWZ gs ≤ hi * sumW gs ∧ 0 ≤ sumW gs := by
    clear hy
    unfold sumW sumWZ
    induction gs with
    | nil => simp
    | cons g gs ih =>
      have h1 := hw g (by simp)
      have ih' := ih (fun q hq => hw q (by simp [hq])) (fun q hq => hk q (by simp [hq]))
      simp only [List.map_cons, List.sum_cons] at *
      by_cases h0 : g.1 = 0
      · rw [h0]; simp only [zero_mul, zero_add]; exact ih'
      · have h2 := hk g (by simp) h0
        refine ⟨?_, ?_, by linarith⟩
        · nlinarith [mul_nonneg h1 (sub_nonneg.2 h2.1)]
        · nlinarith [mul_nonneg h1 (sub_nonneg.2 h2.2)]
  unfold Spec.weightedAverage at hy
  split_ifs at hy with h0
  cases hy
  simp only [not_or] at h0
  have hpos : 0 < sumW gs := lt_of_le_of_ne hb.2.2 (Ne.symm h0.2)
  exact ⟨by rw [le_div_iff₀ hpos]; exact hb.1, by rw [div_le_iff₀ hpos]; exact hb.2.1⟩

/-- for constant terms (`z` does not depend on `w`): the average lies between the smallest and the largest constant
    whose group has a non-zero degree -/
theorem average_of_constants_bounds (ty : WType) (agg : Option (X α → X α → X α)) (acts : List (Act ν α))
    (t : WType) (ht : resolveType ty acts = .ok t) (hs : ∀ a ∈ acts, Supported t a.1) (k : Act ν α → α)
    (hz : ∀ g ∈ groupedTerms agg acts, ∀ w, zTot t g.1 w = fin (k g))
    (hw : ∀ g ∈ groupedTerms agg acts, 0 ≤ degOf g.2) (lo hi : α)
    (hk : ∀ g ∈ groupedTerms agg acts, degOf g.2 ≠ 0 → lo ≤ k g ∧ k g ≤ hi) (y : α)
    (hy : weightedAverage ty agg acts = .ok (fin y)) : lo ≤ y ∧ y ≤ hi := by
  obtain ⟨e1, _⟩ := op_eq_spec ty agg acts t ht hs k (fun g hg _ => hz g hg g.2) hw
  rw [e1] at hy
  injection hy with hy
  refine average_bounds _ lo hi ?_ ?_ y hy
  · intro g hg; obtain ⟨g', hg', rfl⟩ := List.mem_map.1 hg; exact hw g' hg'
  · intro g hg; obtain ⟨g', hg', rfl⟩ := List.mem_map.1 hg; exact hk g' hg'

/-! ## an activation with degree 0 never changes the result -/

/-- Inserting, anywhere, an activation of degree 0 whose term has the kind the defuzzifier works with changes
    neither result – whatever the term's value at 0 is (finite, infinite or NaN).
    `hP`: 0 is an identity of the aggregation operator on a set `P` of degrees closed under it (`snorm_agg_ok`:
    every registered S-norm on [0,1]; `sum_agg_ok`: the plain sum); `hcons`: activations of one name refer to one
    term object (they are the terms of one output variable). -/
theorem zero_degree_noop (ty : WType) (agg : Option (X α → X α → X α)) (P : α → Prop)
    (hP : AggOk (aggregationOr agg) P) (l1 l2 : List (Act ν α)) (a0 : WTerm ν α)
    (hdeg : ∀ a ∈ l1 ++ l2, ∃ d, a.2 = fin d ∧ P d)
    (hcons : ∀ a ∈ l1 ++ l2, a.1.name = a0.name → a.1 = a0)
    (t : WType) (ht : resolveType ty (l1 ++ (a0, fin 0) :: l2) = .ok t)
    (hs : ∀ a ∈ l1 ++ (a0, fin 0) :: l2, Supported t a.1) :
    weightedAverage ty agg (l1 ++ (a0, fin 0) :: l2) = weightedAverage ty agg (l1 ++ l2) ∧
    weightedSum ty agg (l1 ++ (a0, fin 0) :: l2) = weightedSum ty agg (l1 ++ l2) := by
  have hs' : ∀ a ∈ l1 ++ l2, Supported t a.1 := by
    intro a ha
    apply hs
    rcases List.mem_append.1 ha with h | h
    · exact List.mem_append_left _ h
    · exact List.mem_append_right _ (List.mem_cons_of_mem _ h)
  by_cases hL : l1 ++ l2 = []
  · -- no other activation: both sides are NaN
    have h1 : l1 = [] := (List.append_eq_nil_iff.1 hL).1
    have h2 : l2 = [] := (List.append_eq_nil_iff.1 hL).2
    subst h1 h2
    obtain ⟨e1, e2⟩ := eval_with prod ty agg [(a0, fin 0)] t ht hs
    have hr : ∃ t', resolveType ty ([] : List (Act ν α)) = .ok t' := by
      unfold resolveType; split_ifs
      · exact ⟨_, inferType_empty⟩
      · exact ⟨_, rfl⟩
    obtain ⟨t', ht'⟩ := hr
    obtain ⟨f1, f2⟩ := eval_with prod ty agg ([] : List (Act ν α)) t' ht' (by simp)
    simp only [List.nil_append] at *
    unfold weightedAverage weightedSum
    rw [e1, e2, f1, f2]
    simp [groupedTerms, insertGroup, start, setDegree, prod_zero, X.add, div, mulInf, X.mul]
  · -- the resolved type is the same with and without the zero-degree activation
    have ht0 : resolveType ty (l1 ++ l2) = .ok t := by
      unfold resolveType at ht ⊢
      by_cases hty : ty = .automatic
      · simp only [hty, if_true] at ht ⊢
        rcases (inferType_spec _ t).1 ht with ⟨h, _⟩ | ⟨_, h⟩
        · simp at h
        · exact inferType_uniform _ hL t (fun a ha => h a (by
            rcases List.mem_append.1 ha with h' | h'
            · exact List.mem_append_left _ h'
            · exact List.mem_append_right _ (List.mem_cons_of_mem _ h')))
      · simpa [hty] using ht
    obtain ⟨e1, e2⟩ := eval_with prod ty agg _ t ht hs
    obtain ⟨f1, f2⟩ := eval_with prod ty agg _ t ht0 hs'
    have hst : start (l1 ++ (a0, fin 0) :: l2) = start (l1 ++ l2) := by
      unfold start
      have : (l1 ++ l2).isEmpty = false := by
        cases h : l1 ++ l2 with
        | nil => exact absurd h hL
        | cons _ _ => rfl
      rw [this]
      cases l1 <;> rfl
    have x1 := xsum_insert_zero hP l1 l2 a0 hdeg hcons (fun g => prod g.2 (zTot t g.1 g.2))
      (fun t' => prod_zero _)
    have x2 := xsum_insert_zero hP l1 l2 a0 hdeg hcons Prod.snd (fun _ => rfl)
    unfold weightedAverage weightedSum
    rw [e1, e2, f1, f2, hst]
    simp only [groupedTerms_eq]
    rw [x1, x2]
    exact ⟨rfl, rfl⟩

/-- the plain sum (no aggregation operator) satisfies the hypothesis of `zero_degree_noop` on every degree -/
theorem sum_agg_ok : AggOk (aggregationOr (none : Option (X α → X α → X α))) (fun _ => True) :=
  ⟨fun a b _ _ => ⟨a + b, rfl, trivial⟩, fun a _ => by simp [aggregationOr, Gen.Norm.UnboundedSum],
   fun a _ => by simp [aggregationOr, Gen.Norm.UnboundedSum]⟩

/-- every bounded S-norm satisfies it on [0,1], through the regenerated definitions (C04): shown here for the
    division-free ones and Einstein / Hamacher / Normalized sums via their `gen_*` ties -/
theorem snorm_agg_ok (S : SNorm) (hS : S ≠ .unboundedSum) (f : X α → X α → X α)
    (hf : ∀ a b : α, I a → I b → f (fin a) (fin b) = fin (snorm S a b)) :
    AggOk (aggregationOr (some f)) (fun a => I a) := by
  refine ⟨?_, ?_, ?_⟩
  · intro a b ha hb
    exact ⟨snorm S a b, hf a b ha hb, Spec.snorm_range S hS ha hb⟩
  · intro a ha
    have h0 : I (0 : α) := ⟨le_refl _, zero_le_one⟩
    show f (fin a) (fin 0) = fin a
    rw [hf a 0 ha h0, (C04.snorm_identity S hS ha).1]
  · intro a ha
    have h0 : I (0 : α) := ⟨le_refl _, zero_le_one⟩
    show f (fin 0) (fin a) = fin a
    rw [hf 0 a h0 ha, (C04.snorm_identity S hS ha).2]

/-- the eight bounded S-norms of the library, as regenerated from `norm.py` -/
theorem registered_snorms_agg_ok :
    AggOk (aggregationOr (some (Gen.Norm.AlgebraicSum (α := α)))) (fun a => I a) ∧
    AggOk (aggregationOr (some (Gen.Norm.BoundedSum (α := α)))) (fun a => I a) ∧
    AggOk (aggregationOr (some (Gen.Norm.DrasticSum (α := α)))) (fun a => I a) ∧
    AggOk (aggregationOr (some (Gen.Norm.EinsteinSum (α := α)))) (fun a => I a) ∧
    AggOk (aggregationOr (some (Gen.Norm.HamacherSum (α := α)))) (fun a => I a) ∧
    AggOk (aggregationOr (some (Gen.Norm.Maximum (α := α)))) (fun a => I a) ∧
    AggOk (aggregationOr (some (Gen.Norm.NilpotentMaximum (α := α)))) (fun a => I a) ∧
    AggOk (aggregationOr (some (Gen.Norm.NormalizedSum (α := α)))) (fun a => I a) :=
  ⟨snorm_agg_ok .algebraicSum (by decide) _ (fun a b _ _ => C04.gen_AlgebraicSum a b),
   snorm_agg_ok .boundedSum (by decide) _ (fun a b _ _ => C04.gen_BoundedSum a b),
   snorm_agg_ok .drasticSum (by decide) _ (fun a b _ _ => C04.gen_DrasticSum a b),
   snorm_agg_ok .einsteinSum (by decide) _ (fun _ _ ha hb => C04.gen_EinsteinSum ha hb),
   snorm_agg_ok .hamacherSum (by decide) _ (fun _ _ ha hb => C04.gen_HamacherSum ha hb),
   snorm_agg_ok .maximum (by decide) _ (fun a b _ _ => C04.gen_Maximum a b),
   snorm_agg_ok .nilpotentMaximum (by decide) _ (fun a b _ _ => C04.gen_NilpotentMaximum a b),
   snorm_agg_ok .normalizedSum (by decide) _ (fun _ _ ha hb => C04.gen_NormalizedSum ha hb)⟩

/-! ## F4: the pinned product `w * z` forms `0 × ±inf = NaN`

`Concave.tsukamoto` (regenerated from `term.py`) is `h(i − e)/y + 2e − i`: at degree 0 it is `±inf`. -/

/-- a Concave term (inflection 0, end 1, height 1) as the weighted defuzzifiers see it -/
def concave (n : Nat) : WTerm Nat ℚ :=
  let F : Fn ℚ := ⟨id, id, id, id, id, fun a _ => a, 0⟩
  { name := n, kind := .monotonic,
    mu := Gen.Term.Concave.membership F (fin 0) (fin 1) (fin 1),
    tsk := some (Gen.Term.Concave.tsukamoto F (fin 0) (fin 1) (fin 1)) }

theorem concave_tsukamoto_at_zero : ∀ f, (concave 0).tsk = some f → f (fin 0) = ninf := by
  intro f h
  simp only [concave, Option.some.injEq] at h
  subst h
  decide +kernel

/-- in the X algebra, as in IEEE arithmetic, `0 × ±inf` is NaN … -/
theorem zero_times_inf : X.mul (fin (0 : α)) pinf = nan ∧ X.mul (fin (0 : α)) ninf = nan := by
  simp [X.mul, mulInf]

/-- … so on the pinned tree one rule with degree exactly 0 turns a Tsukamoto output into NaN, while the repaired
    product leaves the result of the other activation (tsukamoto(1/4) = −2, weighted sum −1/2) unchanged -/
theorem counterexample_pinned :
    weightedAveragePinned .tsukamoto none [(concave 0, fin 0), (concave 1, fin (1 / 4))] = .ok nan ∧
    weightedAveragePinned .tsukamoto none [(concave 1, fin (1 / 4))] = .ok (fin (-2)) ∧
    weightedAverage .tsukamoto none [(concave 0, fin 0), (concave 1, fin (1 / 4))] = .ok (fin (-2)) ∧
    weightedSumPinned .automatic none [(concave 0, fin 0), (concave 1, fin (1 / 4))] = .ok nan ∧
    weightedSum .automatic none [(concave 0, fin 0), (concave 1, fin (1 / 4))] = .ok (fin (-1 / 2)) := by
  refine ⟨?_, ?_, ?_, ?_, ?_⟩ <;> decide +kernel

/-! ## non-vacuity -/

/-- constants 10 and 20 with degrees 1/4 and 3/4 (one repeated under Maximum): average 35/2, sum 35/2 -/
def const (n : Nat) (v : ℚ) : WTerm Nat ℚ := { name := n, kind := .sugeno, mu := fun _ => fin v, tsk := none }
example : weightedAverage .automatic (some Gen.Norm.Maximum)
    [(const 0 10, fin (1 / 4)), (const 1 20, fin (1 / 2)), (const 1 20, fin (3 / 4))] = .ok (fin (35 / 2)) := by
  decide +kernel
example : groupedTerms (some Gen.Norm.Maximum)
    [(const 0 10, fin (1 / 4 : ℚ)), (const 1 20, fin (1 / 2)), (const 1 20, fin (3 / 4))] =
    grouped (fun t : WTerm Nat ℚ => t.name) setDegree (fun v d => setDegree (Gen.Norm.Maximum v d))
      [(const 0 10, fin (1 / 4 : ℚ)), (const 1 20, fin (1 / 2)), (const 1 20, fin (3 / 4))] := grouped_spec _ _
example : weightedAverage .automatic none [(const 0 10, fin (1 / 4)), (concave 1, fin (1 / 2))] =
    .error .typeError := by decide +kernel
example : weightedAverage .tsukamoto none [(const 0 10, fin (1 / 4))] = .error .runtimeError := by decide +kernel
example : weightedAverage .takagiSugeno none [(const 0 10, fin 0)] = .ok nan := by decide +kernel
example : I (1 / 2 : ℚ) := by unfold I; norm_num

end C10
