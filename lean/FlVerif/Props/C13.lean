import FlVerif.Op.Session
import FlVerif.Props.C12
import FlVerif.Lemmas.CodeSessionRestart
import FlVerif.Lemmas.CodeEngineIOVar
import FlVerif.Lemmas.CodeWave5YCtor

/-! # C13 — Processing is history-free; restart and copy give clean independent engines -/

namespace C13
open Op.Engine Op.Session X
open Op (CascadeCfg OutState commit defuzzify lastOr)
variable {α : Type} [Field α] [LinearOrder α] [IsStrictOrderedRing α]

/-- committing one row without lock-previous does not read the state -/
theorem commit_nolock_value (c : CascadeCfg α) (h : c.lockPrev = false) (raw : X α) (st st' : OutState α) :
    (commit c [raw] st).value = (commit c [raw] st').value := by
  simp [commit, h]

theorem defuzzify_nolock_last (c : CascadeCfg α) (h : c.lockPrev = false) (he : c.enabled = true)
    (raw : X α) (st st' : OutState α) :
    lastOr nan (defuzzify c (some [raw]) st).1.value = lastOr nan (defuzzify c (some [raw]) st').1.value := by
  simp [defuzzify, he, commit, h]

/-- one output: without lock-previous the value the step commits does not depend on what the variable held -/
theorem outObs_history_free (ov : OutVar α) (hl : ov.lockPrev = false) (raw : Option (X α)) (st st' : OutState α) :
    outObs ov st raw = outObs ov st' raw := by
  cases raw with
  | none => rfl
  | some v =>
    simp only [outObs, outStep]
    cases he : ov.enabled
    · simp
    · simp only [if_true, Option.some.injEq]
      exact defuzzify_nolock_last (cascadeCfg ov) hl he v st st'

theorem obs_congr (outs : List (OutVar α)) (raws : List (Option (X α)))
    (hl : ∀ ov ∈ outs, ov.lockPrev = false) (sts sts' : List (OutState α)) (hlen : sts.length = sts'.length) :
    (outs.zip (sts.zip raws)).map (fun (ov, (st, raw)) => outObs ov st raw) =
    (outs.zip (sts'.zip raws)).map (fun (ov, (st, raw)) => outObs ov st raw) := by
  induction outs generalizing raws sts sts' with
  | nil => simp
  | cons ov outs ih =>
    cases sts with
    | nil => cases sts' with
      | nil => simp
      | cons _ _ => simp at hlen
    | cons st sts =>
      cases sts' with
      | nil => simp at hlen
      | cons st' sts' =>
        cases raws with
        | nil => simp
        | cons raw raws =>
          simp only [List.zip_cons_cons, List.map_cons, List.cons.injEq]
          exact ⟨outObs_history_free ov (hl ov (List.mem_cons_self ..)) raw st st',
                 ih raws (fun o ho => hl o (List.mem_cons_of_mem _ ho)) sts sts' (by simpa using hlen)⟩

/-- C13 `process_history_free`: with lock-previous off on every output variable, what a processing step yields
    (the values of the enabled output variables, or the exception) depends only on the configuration and the input
    values of that step – whatever values / previous values / fuzzy outputs earlier steps left behind -/
theorem process_history_free (F : Fn α) (e : EngineD α) (hl : ∀ ov ∈ e.outputs, ov.lockPrev = false)
    (outs outs' : List (OutState α)) (hlen : outs.length = outs'.length) :
    (process F { engine := e, outs := outs }).2 = (process F { engine := e, outs := outs' }).2 := by
  simp only [process]
  cases processRow F e with
  | none => rfl
  | some rr => simp only [Option.some.injEq]; exact obs_congr e.outputs rr.raw hl outs outs' hlen

theorem mapM_length {β γ : Type} (f : β → Option γ) (l : List β) (r : List γ) (h : l.mapM f = some r) :
    r.length = l.length := by
  induction l generalizing r with
  | nil => simp at h; subst h; rfl
  | cons x xs ih =>
    simp only [List.mapM_cons, Option.bind_eq_bind, Option.bind_eq_some_iff, Option.pure_def, Option.some.injEq] at h
    obtain ⟨y, _, ys, hys, rfl⟩ := h
    simp [ih ys hys]

/-- the number of output states is an invariant of every command -/
theorem step_outs_length (F : Fn α) (s : Sess α) (c : Cmd α)
    (h : s.outs.length = s.engine.outputs.length) (hc : ∀ e, c = .reconfig e → e.outputs.length = s.engine.outputs.length) :
    (Op.Session.step F s c).1.outs.length = (Op.Session.step F s c).1.engine.outputs.length := by
  cases c with
  | setInputs row => simpa [Op.Session.step, setInputs] using h
  | restart => simp [Op.Session.step, restart, clearedOuts, setInputs]
  | reconfig e => simp [Op.Session.step, setInputs, h, hc e rfl]
  | process =>
    simp only [Op.Session.step, process]
    cases hr : processRow F s.engine with
    | none => simpa using h
    | some rr =>
      simp only [List.length_map, List.length_zip, h]
      have : rr.raw.length = s.engine.outputs.length := by
        unfold processRow at hr
        simp only [Option.bind_eq_bind, Option.bind_eq_some_iff, Option.pure_def, Option.some.injEq] at hr
        obtain ⟨q, _, raw, hraw, hrr⟩ := hr
        subst hrr
        have := mapM_length _ _ _ hraw
        simpa using this
      omega

/-- processing twice with the same inputs gives the same result (lock-previous off) -/
theorem process_twice (F : Fn α) (s : Sess α) (hl : ∀ ov ∈ s.engine.outputs, ov.lockPrev = false)
    (h : s.outs.length = s.engine.outputs.length) :
    (process F (process F s).1).2 = (process F s).2 := by
  have he : (process F s).1.engine = s.engine := by
    simp only [process]; cases processRow F s.engine <;> rfl
  have hlen : (process F s).1.outs.length = s.outs.length := by
    have := step_outs_length F s .process h (by intro e he; cases he)
    simp only [Op.Session.step] at this; rw [this, he, h]
  have := process_history_free F s.engine hl (process F s).1.outs s.outs hlen
  have e1 : (process F s).1 = { engine := s.engine, outs := (process F s).1.outs } := by
    rw [← he]
  rw [e1]; exact this

/-- restart: the state no longer depends on anything that happened before (inputs NaN, outputs cleared) -/
theorem restart_eq_fresh (s : Sess α) : restart s = fresh s.engine := rfl

/-- … in particular after ANY history of set-inputs / process / restart commands a restart gives the state of a
    freshly built engine of the same configuration up to the (overwritten) input values -/
theorem restart_forgets_history (F : Fn α) (e : EngineD α) (outs outs' : List (OutState α)) :
    restart { engine := e, outs := outs } = restart { engine := e, outs := outs' } := rfl

theorem restart_idempotent (s : Sess α) : (restart (restart s)).outs = (restart s).outs := by
  simp [restart, clearedOuts, setInputs]

/-- restarted outputs hold NaN and a NaN previous value -/
theorem restart_outputs_cleared (s : Sess α) (o : OutState α) (ho : o ∈ (restart s).outs) :
    o.previous = nan ∧ o.value.length = 1 := by
  simp only [restart, clearedOuts, List.mem_map] at ho
  obtain ⟨ov, _, rfl⟩ := ho
  exact ⟨rfl, rfl⟩

/-- toggling a flag (or editing a parameter) and restoring it leaves the engine exactly as it was -/
theorem toggle_restore_noop (F : Fn α) (s : Sess α) (e' : EngineD α) :
    (Op.Session.step F (Op.Session.step F s (.reconfig e')).1 (.reconfig s.engine)).1.outs = s.outs := rfl

/-! ## Tie A (code → model) for `Engine.restart` and `OutputVariable.clear`

`restart` above is total: it leaves out `rule_block.reload_rules(self)`, which raises `RuntimeError` when a rule of
the engine does not load – the restart then stops with the input values NaN and the output variables *not* cleared.
`Op.Session.restartR` is the model with that step (`reload b`: what `reload_rules` does to the block `b`, tied on the
rule objects by `C16.code_reloadRules`); `restart` is the case in which every block reloads to itself. -/

/-- `restartR` with a `reload_rules` that returns and leaves every block as it is, is `restart` -/
theorem restartR_eq_restart (reload : Block α → Except (Block α) (Block α)) (s : Sess α)
    (h : ∀ b ∈ s.engine.blocks, reload b = .ok b) : restartR reload s = .ok (restart s) := by
  unfold restartR restart
  have hb : (setInputs s.engine (s.engine.inputs.map (fun _ => nan))).blocks = s.engine.blocks := rfl
  simp only [hb]
  rw [reloadBlocks_id reload s.engine.blocks [] h]
  rfl

/-- `OutputVariable.clear` as translated from the source = the model `Op.clear` (the value goes through the clipping
    setter), and the fuzzy output is emptied; from any state of the variable -/
theorem code_clear (c : CascadeCfg Rat) (σ0 : Gen.Code.OutputVariable_clear.S) :
    ∃ σ, Gen.Code.OutputVariable_clear.run c σ0 = .ok σ ∧
      (⟨σ.self_value, σ.self_previous_value⟩ : OutState Rat) = Op.clear c ⟨σ0.self_value, σ0.self_previous_value⟩ ∧
      σ.self_fuzzy = [] :=
  Op.Session.code_clear c σ0

/-- **Tie A (code → model).**  `Gen.Code.Engine_restart` is regenerated from the source of `Engine.restart` on every
    run (translated with the state at a raise; `output_variable.clear()` is the generated definition above,
    `input_variable.value = nan` the clipping setter `InVar.setValue`).  For every behaviour `reload` of
    `reload_rules`, every list of input variables, rule blocks and output variables with their value / previous value:
    when every `reload_rules` returns, the code returns with the inputs, blocks and output states of the model
    `restartR`; when one raises, the code raises with the inputs NaN already, the blocks before the failing one
    reloaded (the failing one as `reload_rules` left it), and no output variable cleared. -/
theorem code_restart (reload : Block Rat → Except (Py.Err × Block Rat) (Block Rat)) (ins : List (InVar Rat))
    (bls : List (Block Rat)) (ovs : List (OutVar Rat × OutState Rat)) :
    match restartR (reloadModel reload) (sessOf ins bls ovs) with
    | .ok s' => ∃ σ, Gen.Code.Engine_restart.run reload ins bls ovs {} = .ok σ ∧ σ.inputs = s'.engine.inputs ∧
        σ.blocks = s'.engine.blocks ∧ σ.outs = s'.outs
    | .error s' => ∃ err σ rest, Gen.Code.Engine_restart.run reload ins bls ovs {} = .error (err, σ) ∧
        σ.inputs = s'.engine.inputs ∧ σ.blocks ++ σ.rule_block :: rest = s'.engine.blocks ∧ σ.outs = [] ∧
        s'.outs = ovs.map (·.2) :=
  Op.Session.code_restart reload ins bls ovs

/-- the failure case exists: a block whose `reload_rules` raises leaves the output variables as they were -/
example : ∃ s', restartR (α := ℚ) (fun b => .error b)
    { engine := { inputs := [], outputs := [], blocks := [⟨true, none, none, none, .general, []⟩] },
      outs := [⟨[.fin 1], .fin 2⟩] } = .error s' ∧ s'.outs = [⟨[.fin 1], .fin 2⟩] := ⟨_, rfl, rfl⟩

/-- **Tie A (code → model).**  `Gen.Code.Engine_copy` is regenerated from the source of `Engine.copy` on every run:
    the function is one `copy.deepcopy(self)` whose result is returned as it is (`copy.deepcopy` is the external
    `Py.EIO.deepcopy`: an equal value; the translated values are immutable, so it shares nothing with the original).
    The copy is the model's `Op.Session.copy` – the same configuration, input values, output values and previous values;
    there is no restart, no reloading of the rules and no re-binding step in the function (a statement added to it
    changes the generated definition).  That the Python objects of the copy are independent of the original is carried
    by the correspondence run, as before. -/
theorem code_copy (s : Sess Rat) :
    ∃ σ, Gen.Code.Engine_copy.run s {} = .ok σ ∧ σ.ret = some (Op.Session.copy s) :=
  Op.code_copy s

/-- a copy behaves like the original: every command sequence gives the same states and observations -/
theorem copy_same_behaviour (F : Fn α) (s : Sess α) (cmds : List (Cmd α)) :
    Op.Session.run F (Op.Session.copy s) cmds = Op.Session.run F s cmds := rfl

/-! ## Tie A: constructors

The constructors of the component classes, regenerated from the current source as record builders
(`Gen/CodeWave5YCtor.lean`): every argument is stored in the attribute of the same name; a list argument
(`Iterable | None`) is stored as a **new** list with the same items (`Py.W5Y.Stored.isNew = true`: `list(x or [])`, or a
list literal that is then extended – the field has the type `Stored`, so storing the caller's own list would not
type-check), `None` as no items.  What a constructor computes besides is stated field by field.  The defaults of the
signatures are regenerated with the code (`*.dflt_*`; the `*_defaults` theorems state the documented values).  The copy
of an engine (`code_copy`), the FLL round trip (C14) and the Python export (C15) rest on these laws. -/

section constructors
open Gen.Code Py.W5Y

theorem code_variableInit {T : Type} [Inhabited T] (name description : String) (enabled : Bool) (minimum maximum : X Rat)
    (lock_range : Bool) (terms : Option (List T)) (σ0 : Variable_init.S T) :
    ∃ σ, Variable_init.run name description enabled minimum maximum lock_range terms σ0 = .ok σ ∧
      σ.self_name = name ∧ σ.self_description = description ∧ σ.self_enabled = enabled ∧ σ.self_minimum = minimum ∧
      σ.self_maximum = maximum ∧ σ.self_lock_range = lock_range ∧ σ.self_terms = ⟨terms.getD [], true⟩ ∧
      σ.self__value = .nan :=
  Py.W5Y.code_variableInit name description enabled minimum maximum lock_range terms σ0

theorem code_inputVariableInit {T : Type} [Inhabited T] (name description : String) (enabled : Bool) (minimum maximum : X Rat)
    (lock_range : Bool) (terms : Option (List T)) (σ0 : InputVariable_init.S T) :
    ∃ σ, InputVariable_init.run name description enabled minimum maximum lock_range terms σ0 = .ok σ ∧
      σ.self_name = name ∧ σ.self_description = description ∧ σ.self_enabled = enabled ∧ σ.self_minimum = minimum ∧
      σ.self_maximum = maximum ∧ σ.self_lock_range = lock_range ∧ σ.self_terms = ⟨terms.getD [], true⟩ ∧
      σ.self__value = .nan :=
  Py.W5Y.code_inputVariableInit name description enabled minimum maximum lock_range terms σ0

theorem code_aggregatedInit {N A : Type} [Inhabited N] [Inhabited A] (name : String) (minimum maximum : X Rat)
    (aggregation : Option N) (terms : Option (List A)) (σ0 : Aggregated_init.S N A) :
    ∃ σ, Aggregated_init.run name minimum maximum aggregation terms σ0 = .ok σ ∧
      σ.self_name = name ∧ σ.self_height = .fin 1 ∧ σ.self_minimum = minimum ∧ σ.self_maximum = maximum ∧
      σ.self_aggregation = aggregation ∧ σ.self_terms = ⟨terms.getD [], true⟩ :=
  Py.W5Y.code_aggregatedInit name minimum maximum aggregation terms σ0

theorem code_outputVariableInit {T D : Type} [Inhabited T] [Inhabited D] (name description : String) (enabled : Bool)
    (minimum maximum : X Rat) (lock_range lock_previous : Bool) (default_value : X Rat) (aggregation : Option String)
    (defuzzifier : Option D) (terms : Option (List T)) (σ0 : OutputVariable_init.S T D) :
    ∃ σ, OutputVariable_init.run name description enabled minimum maximum lock_range lock_previous default_value
        aggregation defuzzifier terms σ0 = .ok σ ∧
      σ.self_name = name ∧ σ.self_description = description ∧ σ.self_enabled = enabled ∧
      σ.self_lock_range = lock_range ∧ σ.self_lock_previous = lock_previous ∧ σ.self_default_value = default_value ∧
      σ.self_defuzzifier = defuzzifier ∧ σ.self_terms = ⟨terms.getD [], true⟩ ∧
      σ.self__value = .nan ∧ σ.self_previous_value = .nan ∧
      σ.self_fuzzy = { self_name := name, self_height := .fin 1, self_minimum := minimum, self_maximum := maximum,
                       self_aggregation := aggregation, self_terms := ⟨[], true⟩ } :=
  Py.W5Y.code_outputVariableInit name description enabled minimum maximum lock_range lock_previous default_value aggregation defuzzifier terms σ0

theorem code_termInit5 (name : String) (height : X Rat) (σ0 : Term_init5.S) :
    ∃ σ, Term_init5.run name height σ0 = .ok σ ∧ σ.self_name = name ∧ σ.self_height = height :=
  Py.W5Y.code_termInit5 name height σ0

theorem code_activatedSetDegree (value : X Rat) (σ0 : Activated_set_degree.S) :
    ∃ σ, Activated_set_degree.run value σ0 = .ok σ ∧ σ.self__degree = X.nanToNum01 value :=
  Py.W5Y.code_activatedSetDegree value σ0

theorem code_activatedInit {T N : Type} [Inhabited T] [Inhabited N] (tm : T) (degree : X Rat) (implication : Option N)
    (σ0 : Activated_init.S T N) :
    ∃ σ, Activated_init.run tm degree implication σ0 = .ok σ ∧ σ.self_name = "_" ∧ σ.self_height = .fin 1 ∧
      σ.self_term = tm ∧ σ.self__degree = X.nanToNum01 degree ∧ σ.self_implication = implication :=
  Py.W5Y.code_activatedInit tm degree implication σ0

theorem code_propositionInit {V H T : Type} [Inhabited V] [Inhabited H] [Inhabited T] (var : Option V)
    (hedges : Option (List H)) (tm : Option T) (σ0 : Proposition_init.S V H T) :
    ∃ σ, Proposition_init.run var hedges tm σ0 = .ok σ ∧ σ.self_variable = var ∧
      σ.self_hedges = ⟨hedges.getD [], true⟩ ∧ σ.self_term = tm :=
  Py.W5Y.code_propositionInit var hedges tm σ0

theorem code_operatorInit {E : Type} [Inhabited E] (name : String) (right left : Option E) (σ0 : Operator_init.S E) :
    ∃ σ, Operator_init.run name right left σ0 = .ok σ ∧ σ.self_name = name ∧ σ.self_right = right ∧ σ.self_left = left :=
  Py.W5Y.code_operatorInit name right left σ0

theorem code_antecedentInit {E : Type} [Inhabited E] (text : String) (σ0 : Antecedent_init.S E) :
    ∃ σ, Antecedent_init.run text σ0 = .ok σ ∧ σ.self_text = text ∧ σ.self_expression = none :=
  Py.W5Y.code_antecedentInit text σ0

theorem code_consequentInit {P : Type} [Inhabited P] (text : String) (σ0 : Consequent_init.S P) :
    ∃ σ, Consequent_init.run text σ0 = .ok σ ∧ σ.self_text = text ∧ σ.self_conclusions = ⟨[], true⟩ :=
  Py.W5Y.code_consequentInit text σ0

theorem code_ruleInit {E P : Type} [Inhabited E] [Inhabited P] (enabled : Bool) (weight : X Rat)
    (antecedent : Option (Antecedent_init.S E)) (consequent : Option (Consequent_init.S P)) (σ0 : Rule_init.S E P) :
    ∃ σ, Rule_init.run enabled weight antecedent consequent σ0 = .ok σ ∧ σ.self_enabled = enabled ∧
      σ.self_weight = weight ∧ σ.self_activation_degree = .fin 0 ∧ σ.self_triggered = false ∧
      σ.self_antecedent = antecedent.getD { self_text := "", self_expression := none } ∧
      σ.self_consequent = consequent.getD { self_text := "", self_conclusions := ⟨[], true⟩ } :=
  Py.W5Y.code_ruleInit enabled weight antecedent consequent σ0

theorem code_ruleCreate {E P G : Type} [Inhabited E] [Inhabited P] [Inhabited G]
    (parse : String → Rule_init.S E P → Py.M (Rule_init.S E P)) (load : G → Rule_init.S E P → Py.M (Rule_init.S E P))
    (text : String) (engine : Option G) :
    match parse text (freshRule E P) >>= fun r => (match engine with | some g => load g r | none => .ok r) with
    | .error e => Rule_create.run parse load text engine {} = .error e
    | .ok r => ∃ σ, Rule_create.run parse load text engine {} = .ok σ ∧ σ.ret = some r :=
  Py.W5Y.code_ruleCreate parse load text engine

theorem code_ruleBlockInit {N M A R : Type} [Inhabited N] [Inhabited M] [Inhabited A] [Inhabited R]
    (name description : String) (enabled : Bool) (conjunction : Option N) (disjunction : Option M) (implication : Option N)
    (activation : Option A) (rules : Option (List R)) (σ0 : RuleBlock_init.S N M A R) :
    ∃ σ, RuleBlock_init.run name description enabled conjunction disjunction implication activation rules σ0 = .ok σ ∧
      σ.self_name = name ∧ σ.self_description = description ∧ σ.self_enabled = enabled ∧
      σ.self_conjunction = conjunction ∧ σ.self_disjunction = disjunction ∧ σ.self_implication = implication ∧
      σ.self_activation = activation ∧ σ.self_rules = ⟨rules.getD [], true⟩ :=
  Py.W5Y.code_ruleBlockInit name description enabled conjunction disjunction implication activation rules σ0

theorem variable_defaults :
    Variable_init.dflt_name = "" ∧ Variable_init.dflt_description = "" ∧ Variable_init.dflt_enabled = true ∧
    Variable_init.dflt_minimum = .ninf ∧ Variable_init.dflt_maximum = .pinf ∧ Variable_init.dflt_lock_range = false ∧
    (Variable_init.dflt_terms : Option (List Unit)) = none ∧
    InputVariable_init.dflt_name = "" ∧ InputVariable_init.dflt_description = "" ∧ InputVariable_init.dflt_enabled = true ∧
    InputVariable_init.dflt_minimum = .ninf ∧ InputVariable_init.dflt_maximum = .pinf ∧
    InputVariable_init.dflt_lock_range = false ∧ (InputVariable_init.dflt_terms : Option (List Unit)) = none :=
  Py.W5Y.variable_defaults 

theorem outputVariable_defaults :
    OutputVariable_init.dflt_name = "" ∧ OutputVariable_init.dflt_description = "" ∧ OutputVariable_init.dflt_enabled = true ∧
    OutputVariable_init.dflt_minimum = .ninf ∧ OutputVariable_init.dflt_maximum = .pinf ∧
    OutputVariable_init.dflt_lock_range = false ∧ OutputVariable_init.dflt_lock_previous = false ∧
    OutputVariable_init.dflt_default_value = .nan ∧ OutputVariable_init.dflt_aggregation = none ∧
    (OutputVariable_init.dflt_defuzzifier : Option Unit) = none ∧ (OutputVariable_init.dflt_terms : Option (List Unit)) = none :=
  Py.W5Y.outputVariable_defaults 

theorem rule_defaults :
    Rule_init.dflt_enabled = true ∧ Rule_init.dflt_weight = .fin 1 ∧
    (Rule_init.dflt_antecedent : Option (Antecedent_init.S Unit)) = none ∧
    (Rule_init.dflt_consequent : Option (Consequent_init.S Unit)) = none ∧
    Antecedent_init.dflt_text = "" ∧ Consequent_init.dflt_text = "" ∧ (Rule_create.dflt_engine : Option Unit) = none ∧
    RuleBlock_init.dflt_name = "" ∧ RuleBlock_init.dflt_description = "" ∧ RuleBlock_init.dflt_enabled = true ∧
    (RuleBlock_init.dflt_conjunction : Option Unit) = none ∧ (RuleBlock_init.dflt_disjunction : Option Unit) = none ∧
    (RuleBlock_init.dflt_implication : Option Unit) = none ∧ (RuleBlock_init.dflt_activation : Option Unit) = none ∧
    (RuleBlock_init.dflt_rules : Option (List Unit)) = none :=
  Py.W5Y.rule_defaults 

theorem engine_defaults :
    Engine_init.dflt_name = "" ∧ Engine_init.dflt_description = "" ∧
    (Engine_init.dflt_input_variables : Option (List Unit)) = none ∧
    (Engine_init.dflt_output_variables : Option (List Unit)) = none ∧
    (Engine_init.dflt_rule_blocks : Option (List Unit)) = none ∧ Engine_init.dflt_load = true :=
  Py.W5Y.engine_defaults 

theorem term_defaults :
    Term_init5.dflt_name = "" ∧ Term_init5.dflt_height = .fin 1 ∧ Activated_init.dflt_degree = .fin 1 ∧
    (Activated_init.dflt_implication : Option Unit) = none ∧ Aggregated_init.dflt_name = "" ∧
    Aggregated_init.dflt_minimum = .nan ∧ Aggregated_init.dflt_maximum = .nan ∧
    (Aggregated_init.dflt_aggregation : Option Unit) = none ∧ (Aggregated_init.dflt_terms : Option (List Unit)) = none ∧
    (Proposition_init.dflt_variable_ : Option Unit) = none ∧ (Proposition_init.dflt_hedges : Option (List Unit)) = none ∧
    (Proposition_init.dflt_term_ : Option Unit) = none ∧ Operator_init.dflt_name = "" ∧
    (Operator_init.dflt_right : Option Unit) = none ∧ (Operator_init.dflt_left : Option Unit) = none :=
  Py.W5Y.term_defaults 

/-- `Engine.__init__`: name, description and new lists of the three kinds of components; with `load` (the default) the
    references of all terms are updated – input variables first, then output variables, each variable's terms in order
    (`σ.updated`: the terms `update_reference(self)` was called on) – and then the rule blocks are loaded in order
    (`σ.loaded`: the blocks as `load_rules(self)` left them; `loadRules` is what `RuleBlock.load_rules` does or raises,
    `C16.code_loadRules`): the first block that raises ends the construction with its exception.  Without `load`
    nothing else happens. -/
theorem code_engineInit {V T B : Type} [Inhabited V] [Inhabited T] [Inhabited B] (termsOf : V → List T)
    (loadRules : B → Py.M B) (name description : String) (ivs ovs : Option (List V)) (rbs : Option (List B)) (load : Bool) :
    match (if load then (rbs.getD []).mapM loadRules else .ok []) with
    | .error e => Engine_init.run termsOf loadRules name description ivs ovs rbs load {} = .error e
    | .ok bs' => ∃ σ, Engine_init.run termsOf loadRules name description ivs ovs rbs load {} = .ok σ ∧
        σ.self_name = name ∧ σ.self_description = description ∧
        σ.self_input_variables = ⟨ivs.getD [], true⟩ ∧ σ.self_output_variables = ⟨ovs.getD [], true⟩ ∧
        σ.self_rule_blocks = ⟨rbs.getD [], true⟩ ∧
        σ.updated = (if load then (ivs.getD [] ++ ovs.getD []).flatMap termsOf else []) ∧ σ.loaded = bs' :=
  Py.W5Y.code_engineInit termsOf loadRules name description ivs ovs rbs load

end constructors

/-! ## non-vacuity -/
example : (restart ({ engine := { inputs := [], outputs := [], blocks := [] }, outs := [] } : Sess ℚ)).outs = [] := rfl

end C13
