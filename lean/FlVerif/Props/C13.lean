import FlVerif.Op.Session
import FlVerif.Props.C12
import FlVerif.Lemmas.CodeSessionRestart
import FlVerif.Lemmas.CodeEngineIOVar

/-! # C13 — Processing is history-free; restart and copy give clean independent engines -/

namespace C13
open Op.Engine Op.Session X
open Op (CascadeCfg OutState commit defuzzify lastOr)
variable {α : Type} [Field α] [LinearOrder α] [IsStrictOrderedRing α]

/-- committing one row without lock-previous does not read the state -/
theorem commit_nolock_value (c : CascadeCfg α) (h : c.lockPrev = false) (raw : X α) (st st' : OutState α) :
    (commit c [raw] st).value = (commit c [raw] st').value := by
  simp [commit, h]

theorem defuzzify_nolock_last (c : CascadeCfg α) (h : c.lockPrev = false) (he : c.enabled = true)
    (raw : X α) (st st' : OutState α) :
    lastOr nan (defuzzify c (some [raw]) st).1.value = lastOr nan (defuzzify c (some [raw]) st').1.value := by
  simp [defuzzify, he, commit, h]

/-- one output: without lock-previous the value the step commits does not depend on what the variable held -/
theorem outObs_history_free (ov : OutVar α) (hl : ov.lockPrev = false) (raw : Option (X α)) (st st' : OutState α) :
    outObs ov st raw = outObs ov st' raw := by
  cases raw with
  | none => rfl
  | some v =>
    simp only [outObs, outStep]
    cases he : ov.enabled
    · simp
    · simp only [if_true, Option.some.injEq]
      exact defuzzify_nolock_last (cascadeCfg ov) hl he v st st'

theorem obs_congr (outs : List (OutVar α)) (raws : List (Option (X α)))
    (hl : ∀ ov ∈ outs, ov.lockPrev = false) (sts sts' : List (OutState α)) (hlen : sts.length = sts'.length) :
    (outs.zip (sts.zip raws)).map (fun (ov, (st, raw)) => outObs ov st raw) =
    (outs.zip (sts'.zip raws)).map (fun (ov, (st, raw)) => outObs ov st raw) := by
  induction outs generalizing raws sts sts' with
  | nil => simp
  | cons ov outs ih =>
    cases sts with
    | nil => cases sts' with
      | nil => simp
      | cons _ _ => simp at hlen
    | cons st sts =>
      cases sts' with
      | nil => simp at hlen
      | cons st' sts' =>
        cases raws with
        | nil => simp
        | cons raw raws =>
          simp only [List.zip_cons_cons, List.map_cons, List.cons.injEq]
          exact ⟨outObs_history_free ov (hl ov (List.mem_cons_self ..)) raw st st',
                 ih raws (fun o ho => hl o (List.mem_cons_of_mem _ ho)) sts sts' (by simpa using hlen)⟩

/-- C13 `process_history_free`: with lock-previous off on every output variable, what a processing step yields
    (the values of the enabled output variables, or the exception) depends only on the configuration and the input
    values of that step – whatever values / previous values / fuzzy outputs earlier steps left behind -/
theorem process_history_free (F : Fn α) (e : EngineD α) (hl : ∀ ov ∈ e.outputs, ov.lockPrev = false)
    (outs outs' : List (OutState α)) (hlen : outs.length = outs'.length) :
    (process F { engine := e, outs := outs }).2 = (process F { engine := e, outs := outs' }).2 := by
  simp only [process]
  cases processRow F e with
  | none => rfl
  | some rr => simp only [Option.some.injEq]; exact obs_congr e.outputs rr.raw hl outs outs' hlen

theorem mapM_length {β γ : Type} (f : β → Option γ) (l : List β) (r : List γ) (h : l.mapM f = some r) :
    r.length = l.length := by
  induction l generalizing r with
  | nil => simp at h; subst h; rfl
  | cons x xs ih =>
    simp only [List.mapM_cons, Option.bind_eq_bind, Option.bind_eq_some_iff, Option.pure_def, Option.some.injEq] at h
    obtain ⟨y, _, ys, hys, rfl⟩ := h
    simp [ih ys hys]

/-- the number of output states is an invariant of every command -/
theorem step_outs_length (F : Fn α) (s : Sess α) (c : Cmd α)
    (h : s.outs.length = s.engine.outputs.length) (hc : ∀ e, c = .reconfig e → e.outputs.length = s.engine.outputs.length) :
    (Op.Session.step F s c).1.outs.length = (Op.Session.step F s c).1.engine.outputs.length := by
  cases c with
  | setInputs row => simpa [Op.Session.step, setInputs] using h
  | restart => simp [Op.Session.step, restart, clearedOuts, setInputs]
  | reconfig e => simp [Op.Session.step, setInputs, h, hc e rfl]
  | process =>
    simp only [Op.Session.step, process]
    cases hr : processRow F s.engine with
    | none => simpa using h
    | some rr =>
      simp only [List.length_map, List.length_zip, h]
      have : rr.raw.length = s.engine.outputs.length := by
        unfold processRow at hr
        simp only [Option.bind_eq_bind, Option.bind_eq_some_iff, Option.pure_def, Option.some.injEq] at hr
        obtain ⟨q, _, raw, hraw, hrr⟩ := hr
        subst hrr
        have := mapM_length _ _ _ hraw
        simpa using this
      omega

/-- processing twice with the same inputs gives the same result (lock-previous off) -/
theorem process_twice (F : Fn α) (s : Sess α) (hl : ∀ ov ∈ s.engine.outputs, ov.lockPrev = false)
    (h : s.outs.length = s.engine.outputs.length) :
    (process F (process F s).1).2 = (process F s).2 := by
  have he : (process F s).1.engine = s.engine := by
    simp only [process]; cases processRow F s.engine <;> rfl
  have hlen : (process F s).1.outs.length = s.outs.length := by
    have := step_outs_length F s .process h (by intro e he; cases he)
    simp only [Op.Session.step] at this; rw [this, he, h]
  have := process_history_free F s.engine hl (process F s).1.outs s.outs hlen
  have e1 : (process F s).1 = { engine := s.engine, outs := (process F s).1.outs } := by
    rw [← he]
  rw [e1]; exact this

/-- restart: the state no longer depends on anything that happened before (inputs NaN, outputs cleared) -/
theorem restart_eq_fresh (s : Sess α) : restart s = fresh s.engine := rfl

/-- … in particular after ANY history of set-inputs / process / restart commands a restart gives the state of a
    freshly built engine of the same configuration up to the (overwritten) input values -/
theorem restart_forgets_history (F : Fn α) (e : EngineD α) (outs outs' : List (OutState α)) :
    restart { engine := e, outs := outs } = restart { engine := e, outs := outs' } := rfl

theorem restart_idempotent (s : Sess α) : (restart (restart s)).outs = (restart s).outs := by
  simp [restart, clearedOuts, setInputs]

/-- restarted outputs hold NaN and a NaN previous value -/
theorem restart_outputs_cleared (s : Sess α) (o : OutState α) (ho : o ∈ (restart s).outs) :
    o.previous = nan ∧ o.value.length = 1 := by
  simp only [restart, clearedOuts, List.mem_map] at ho
  obtain ⟨ov, _, rfl⟩ := ho
  exact ⟨rfl, rfl⟩

/-- toggling a flag (or editing a parameter) and restoring it leaves the engine exactly as it was -/
theorem toggle_restore_noop (F : Fn α) (s : Sess α) (e' : EngineD α) :
    (Op.Session.step F (Op.Session.step F s (.reconfig e')).1 (.reconfig s.engine)).1.outs = s.outs := rfl

/-! ## Tie A (code → model) for `Engine.restart` and `OutputVariable.clear`

`restart` above is total: it leaves out `rule_block.reload_rules(self)`, which raises `RuntimeError` when a rule of
the engine does not load – the restart then stops with the input values NaN and the output variables *not* cleared.
`Op.Session.restartR` is the model with that step (`reload b`: what `reload_rules` does to the block `b`, tied on the
rule objects by `C16.code_reloadRules`); `restart` is the case in which every block reloads to itself. -/

/-- `restartR` with a `reload_rules` that returns and leaves every block as it is, is `restart` -/
theorem restartR_eq_restart (reload : Block α → Except (Block α) (Block α)) (s : Sess α)
    (h : ∀ b ∈ s.engine.blocks, reload b = .ok b) : restartR reload s = .ok (restart s) := by
  unfold restartR restart
  have hb : (setInputs s.engine (s.engine.inputs.map (fun _ => nan))).blocks = s.engine.blocks := rfl
  simp only [hb]
  rw [reloadBlocks_id reload s.engine.blocks [] h]
  rfl

/-- `OutputVariable.clear` as translated from the source = the model `Op.clear` (the value goes through the clipping
    setter), and the fuzzy output is emptied; from any state of the variable -/
theorem code_clear (c : CascadeCfg Rat) (σ0 : Gen.Code.OutputVariable_clear.S) :
    ∃ σ, Gen.Code.OutputVariable_clear.run c σ0 = .ok σ ∧
      (⟨σ.self_value, σ.self_previous_value⟩ : OutState Rat) = Op.clear c ⟨σ0.self_value, σ0.self_previous_value⟩ ∧
      σ.self_fuzzy = [] :=
  Op.Session.code_clear c σ0

/-- **Tie A (code → model).**  `Gen.Code.Engine_restart` is regenerated from the source of `Engine.restart` on every
    run (translated with the state at a raise; `output_variable.clear()` is the generated definition above,
    `input_variable.value = nan` the clipping setter `InVar.setValue`).  For every behaviour `reload` of
    `reload_rules`, every list of input variables, rule blocks and output variables with their value / previous value:
    when every `reload_rules` returns, the code returns with the inputs, blocks and output states of the model
    `restartR`; when one raises, the code raises with the inputs NaN already, the blocks before the failing one
    reloaded (the failing one as `reload_rules` left it), and no output variable cleared. -/
theorem code_restart (reload : Block Rat → Except (Py.Err × Block Rat) (Block Rat)) (ins : List (InVar Rat))
    (bls : List (Block Rat)) (ovs : List (OutVar Rat × OutState Rat)) :
    match restartR (reloadModel reload) (sessOf ins bls ovs) with
    | .ok s' => ∃ σ, Gen.Code.Engine_restart.run reload ins bls ovs {} = .ok σ ∧ σ.inputs = s'.engine.inputs ∧
        σ.blocks = s'.engine.blocks ∧ σ.outs = s'.outs
    | .error s' => ∃ err σ rest, Gen.Code.Engine_restart.run reload ins bls ovs {} = .error (err, σ) ∧
        σ.inputs = s'.engine.inputs ∧ σ.blocks ++ σ.rule_block :: rest = s'.engine.blocks ∧ σ.outs = [] ∧
        s'.outs = ovs.map (·.2) :=
  Op.Session.code_restart reload ins bls ovs

/-- the failure case exists: a block whose `reload_rules` raises leaves the output variables as they were -/
example : ∃ s', restartR (α := ℚ) (fun b => .error b)
    { engine := { inputs := [], outputs := [], blocks := [⟨true, none, none, none, .general, []⟩] },
      outs := [⟨[.fin 1], .fin 2⟩] } = .error s' ∧ s'.outs = [⟨[.fin 1], .fin 2⟩] := ⟨_, rfl, rfl⟩

/-- **Tie A (code → model).**  `Gen.Code.Engine_copy` is regenerated from the source of `Engine.copy` on every run:
    the function is one `copy.deepcopy(self)` whose result is returned as it is (`copy.deepcopy` is the external
    `Py.EIO.deepcopy`: an equal value; the translated values are immutable, so it shares nothing with the original).
    The copy is the model's `Op.Session.copy` – the same configuration, input values, output values and previous values;
    there is no restart, no reloading of the rules and no re-binding step in the function (a statement added to it
    changes the generated definition).  That the Python objects of the copy are independent of the original is carried
    by the correspondence run, as before. -/
theorem code_copy (s : Sess Rat) :
    ∃ σ, Gen.Code.Engine_copy.run s {} = .ok σ ∧ σ.ret = some (Op.Session.copy s) :=
  Op.code_copy s

/-- a copy behaves like the original: every command sequence gives the same states and observations -/
theorem copy_same_behaviour (F : Fn α) (s : Sess α) (cmds : List (Cmd α)) :
    Op.Session.run F (Op.Session.copy s) cmds = Op.Session.run F s cmds := rfl

/-! ## non-vacuity -/
example : (restart ({ engine := { inputs := [], outputs := [], blocks := [] }, outs := [] } : Sess ℚ)).outs = [] := rfl

end C13
