import FlVerif.Gen.Tables
import FlVerif.Lemmas.ShuntingYard
import FlVerif.Lemmas.ParsePostfix
import FlVerif.Lemmas.Reject
import FlVerif.Op.FunctionTerm
import FlVerif.Lemmas.CodeFunction
import FlVerif.Lemmas.CodeFunctionParse
import FlVerif.Lemmas.FormatInfix
import FlVerif.Lemmas.CodeFunEval
import FlVerif.Lemmas.CodeFunEvalParse
import FlVerif.Lemmas.CodeBlockActFactory   -- the factories (`construct`, `copy`, `operators`, `functions`, `_precedence`)
import FlVerif.Lemmas.CodeWave5Z            -- `format_infix`
import FlVerif.Lemmas.CodeWave5ZLaw         -- `Node.value / prefix / infix / postfix`, `postfix_of_parse`

/-! # C17 — Function formulas follow the documented precedence and associativity

Model: `Op.formatInfix` (character level), `Op.toPostfix` (the shunting-yard loop of `Function.infix_to_postfix`),
`Op.parsePostfix` (the stack machine of `Function.parse`), `Op.evalTree` (`Node.evaluate`) with the documented
meaning of the elements (`Lang.sem0/1/2`), `Op.functionMembership` (variable resolution and name-clash checks) –
all parametric in the element table; the table is `Gen.Tables.elements`, regenerated from `FunctionFactory` on
every run (Tie A), and the executable definitions are the ones the driver runs against the implementation (Tie B).

Reading of "parsing the postfix form of a loaded formula's tree yields the same values" (DESIGN.md section 7):
the stack machine rebuilds the tree from its postfix form, and the tree's value is the value of the postfix form
read as a reverse-Polish program. -/

namespace C17
open Lang Op

/-! ## the table (Tie A) -/

/-- the regenerated table satisfies what the general theorems require -/
theorem table_wellFormed : Table.WellFormed Gen.Tables.elements := by decide +kernel

/-- the precedence levels and associativities the property lists: `! ~` tightest; then `^ ** .- .+`
    (right-associative); then `* / %`; then `+ -`; then `and`; then `or` (left-associative); the unary operators are
    `! ~ .- .+`; the other 34 elements are functions (call syntax), `pi` of arity 0 -/
theorem precedence_table :
    let t : Table := Gen.Tables.elements
    t.operators = ["!", "%", "*", "**", "+", "-", ".+", ".-", "/", "^", "and", "or", "~"] ∧
    t.functions.length = 34 ∧
    (t.prec "!" = t.prec "~") ∧
    (t.prec "^" = t.prec "**" ∧ t.prec "^" = t.prec ".-" ∧ t.prec "^" = t.prec ".+") ∧
    (t.prec "*" = t.prec "/" ∧ t.prec "*" = t.prec "%") ∧
    (t.prec "+" = t.prec "-") ∧
    (t.prec "or" < t.prec "and" ∧ t.prec "and" < t.prec "+" ∧ t.prec "+" < t.prec "*" ∧
      t.prec "*" < t.prec "^" ∧ t.prec "^" < t.prec "!") ∧
    (∀ o ∈ ["!", "~", "^", "**", ".-", ".+"], 0 < t.assoc o) ∧
    (∀ o ∈ ["*", "/", "%", "+", "-", "and", "or"], t.assoc o < 0) ∧
    (∀ o ∈ ["!", "~", ".-", ".+"], t.arity o = 1) ∧
    (∀ o ∈ ["^", "**", "*", "/", "%", "+", "-", "and", "or"], t.arity o = 2) ∧
    (∀ f ∈ t.functions, t.prec "!" ≤ t.prec f) ∧
    t.arity "pi" = 0 := by
  decide +kernel

/-! ## `format_infix(...).split()`: spacing does not matter -/

/-- the alternation of the regular expression of `format_infix`: the symbolic operators and the punctuation -/
def opsOf (tbl : Table) : List (List Char) := (symbolOps tbl).map String.toList

/-- **Spacing independence.**  `format_infix(text).split()` gives back the tokens of EVERY writing of a token list in
    which each token is recognisable where it stands (`Op.Valid`): any number of blanks before each token and at the
    end, none needed next to a symbolic operator, a parenthesis or a comma.  Any number of tokens. -/
theorem format_split_render (tbl : Table) (ts : List (Nat × Tk)) (tr : Nat) (hsp : NoSpaceOp (opsOf tbl))
    (hv : Valid (opsOf tbl) ts tr) :
    formatInfix tbl (String.ofList (render ts tr)) = ts.map (fun p => p.2.str) := by
  unfold formatInfix
  rw [String.toList_ofList]
  exact scan_render (opsOf tbl) hsp ts tr hv

/-- the characters of names and numbers (letters, digits, underscore) -/
def wordChar (c : Char) : Bool := c.isAlphanum || c == '_'

/-- on the regenerated table: no symbolic operator begins with a blank … -/
theorem table_noSpaceOp : NoSpaceOp (opsOf Gen.Tables.elements) :=
  noSpaceOp_of_heads _ (by decide +kernel)

/-- … nor with a letter, a digit or an underscore: no operator is recognised inside a name or an integer -/
theorem table_wordChars (c : Char) (hc : wordChar c = true) (r : List Char) :
    firstMatch (opsOf Gen.Tables.elements) (c :: r) = none := by
  apply noMatch_of_heads
  have h : ∀ o ∈ opsOf Gen.Tables.elements, ∀ a, o.head? = some a → wordChar a = false := by decide +kernel
  intro o ho e
  have := h o ho c e
  rw [hc] at this; exact absurd this (by simp)

/-- a word of such characters is valid wherever it stands -/
theorem word_valid (w r : List Char) (hw : ∀ c ∈ w, wordChar c = true) :
    NoMatchInside (opsOf Gen.Tables.elements) w r :=
  noMatchInside_of_chars _ wordChar table_wordChars w r hw

/-- the hypotheses are met by a writing with glued parentheses and operators: `sin( x+1 )*2` -/
example : Valid (opsOf Gen.Tables.elements)
    [(0, .word "sin".toList), (0, .sym "(".toList), (1, .word "x".toList), (0, .sym "+".toList), (0, .word "1".toList),
     (1, .sym ")".toList), (0, .sym "*".toList), (0, .word "2".toList)] 0 := by
  decide +kernel

/-- … and this is what the scan returns for it -/
example : formatInfix Gen.Tables.elements "sin( x+1 )*2" = ["sin", "(", "x", "+", "1", ")", "*", "2"] := by
  decide +kernel

/-! ## Tie A (code → model) -/

/-- "(", ")" and "," are not element names of the regenerated table (the hypothesis of the code ties) -/
theorem table_noPunct : Table.NoPunct Gen.Tables.elements := by decide +kernel

/-- **Tie A (code → model).**  `Gen.Code.infix_to_postfix` is regenerated from the source of
    `Function.infix_to_postfix` on every run (`fv/pylean.py`; the element table is the parameter `tbl`, `format_infix`
    is the model `Op.formatInfix`).  For every table in which "(", ")" and "," are not element names and every
    formula it raises the exception class the model `Op.toPostfix` predicts and otherwise returns the model's postfix
    tokens joined by single spaces. -/
theorem code_toPostfix (tbl : Table) (hT : tbl.NoPunct) (formula : String) :
    match toPostfix tbl (formatInfix tbl formula) with
    | .error e => Gen.Code.infix_to_postfix.run tbl formula {} = .error e.toPy
    | .ok r => ∃ σ, Gen.Code.infix_to_postfix.run tbl formula {} = .ok σ ∧ σ.ret = some (Py.joinSp r) :=
  CodeFn.code_toPostfix hT formula

/-- **Tie A (code → model).**  `Gen.Code.Function_parse` is regenerated from the source of `Function.parse` on every
    run; its call `cls.infix_to_postfix(formula)` followed by `.split()` is the token list of the function tied
    above (`Py.infixToPostfix`), `factory.objects.get` / `factory.copy` are look-ups in the table `tbl`, and
    `Function.Node` is the record `Py.Node`.  For every table and every formula it raises the exception class the
    model `Op.parseFormula` (`Op.toPostfix` then the stack machine `Op.parsePostfix`) predicts and otherwise returns
    the `Function.Node` tree of the model's expression tree (`Lang.Expr.toNode`: the operand of a unary element on
    the right, a leaf is a constant node when `float(token)` succeeds and a variable node otherwise). -/
theorem code_parsePostfix (tbl : Table) (formula : String) :
    match parseFormula tbl (formatInfix tbl formula) with
    | .error e => Gen.Code.Function_parse.run tbl formula {} = .error e.toPy
    | .ok r => ∃ σ, Gen.Code.Function_parse.run tbl formula {} = .ok σ ∧ σ.ret = some r.toNode :=
  CodeFn.code_parsePostfix tbl formula

/-! ### `Function.format_infix` (the external of `code_toPostfix`) -/

/-- what `format_infix` relies on in the operator names of the regenerated table: no name twice (they are the keys of a
    dictionary), none empty (an empty alternative of the regular expression would match at every position), none with a
    white-space character (the second substitution and `split()` would cut it in two) -/
theorem table_symbolsPlain : Table.SymbolsPlain Gen.Tables.elements := by decide +kernel

/-- **Tie A (code → model).**  `Gen.Code.Function_format_infix` is regenerated from the source of
    `Function.format_infix` on every run: the set of the keys of the translated `FunctionFactory.operators()` with "(",
    ")", ",", without `and` / `or`, sorted in descending order (all translated), then the two regular-expression
    substitutions, whose meaning is written down independently of the model in `Op/PyExtWave5Z.lean` (alternation of
    literals *in the given order*, first alternative that matches at the leftmost position; collapse of white-space runs
    and `strip`).  For every table in which "(", ")", "," are not element names (`table_noPunct`) and the operator names
    are plain (`table_symbolsPlain`) and every text, the function returns the tokens of the character-level model
    `Op.formatInfix` joined by single blanks. -/
theorem code_formatInfix (tbl : Table) (hT : tbl.NoPunct) (hS : tbl.SymbolsPlain) (formula : String) :
    ∃ σ, Gen.Code.Function_format_infix.run tbl formula {} = .ok σ ∧
      σ.ret = some (Py.joinSp (formatInfix tbl formula)) :=
  CodeW5Z.code_formatInfix tbl hT hS formula

/-- the external `cls.format_infix(_0)` ↦ `Op.formatInfix tbl _0` of `code_toPostfix` (a token list: the call followed
    by `.split()`, `Op.splitWords`) **is the translated function** -/
theorem formatInfix_external_is_code (tbl : Table) (hT : tbl.NoPunct) (hS : tbl.SymbolsPlain) (formula : String) :
    ∃ σ s, Gen.Code.Function_format_infix.run tbl formula {} = .ok σ ∧ σ.ret = some s ∧
      splitWords s = formatInfix tbl formula :=
  CodeW5Z.formatInfix_external_is_code tbl hT hS formula

/-- the order of the alternatives matters, so `reverse=True` does: with `**` before `*` the text `a**b` becomes
    `a ** b`; in ascending order `*` comes first and cuts `**` in two -/
theorem reverse_order_needed :
    Py.W5Z.subAlt (Py.sortedDesc ["*", "**"]) "a**b" = "a ** b" ∧
    Py.W5Z.subAlt (Py.sortedAsc ["*", "**"]) "a**b" = "a *  * b" ∧
    Py.W5Z.collapseStrip (Py.W5Z.subAlt (Py.sortedAsc ["*", "**"]) "a**b") = "a * * b" :=
  CodeW5Z.reverse_order_needed

/-! ### the renderings of a tree: `Function.Node.value`, `prefix`, `infix`, `postfix`

`str` is the text of a float (`Op.str`, tied in `C14.code_opStr`); the models `Op.NodeText.*` are defined on the node
record itself, so the ties hold for every tree, also one that `Function.parse` cannot build; `node = none` is the call
without argument (the method restarts on `self`). -/

/-- **Tie A (code → model).**  `Node.value()`: the element's name, else the variable name unless it is empty, else the
    number. -/
theorem code_nodeValue (str : X Rat → String) (n : Py.Node) :
    ∃ σ, Gen.Code.Node_value.run str n {} = .ok σ ∧ σ.ret = some (NodeText.value str n) :=
  CodeW5Z.code_nodeValue str n

/-- **Tie A (code → model).**  `Node.prefix(node)` (recursive; the bound on the depth is never exhausted). -/
theorem code_nodePrefix (str : X Rat → String) (self : Py.Node) (node : Option Py.Node) :
    ∃ σ, Gen.Code.Node_prefix.run str self node {} = .ok σ ∧ σ.ret = some (NodeText.pfxText str (node.getD self)) :=
  CodeW5Z.code_nodePrefix str self node

/-- **Tie A (code → model).**  `Node.infix(node)`: a function element is written `name ( children )` (no comma between
    two children), an operator before its only child or between its two children. -/
theorem code_nodeInfix (str : X Rat → String) (self : Py.Node) (node : Option Py.Node) :
    ∃ σ, Gen.Code.Node_infix.run str self node {} = .ok σ ∧ σ.ret = some (NodeText.infText str (node.getD self)) :=
  CodeW5Z.code_nodeInfix str self node

/-- **Tie A (code → model).**  `Node.postfix(node)`. -/
theorem code_nodePostfix (str : X Rat → String) (self : Py.Node) (node : Option Py.Node) :
    ∃ σ, Gen.Code.Node_postfix.run str self node {} = .ok σ ∧ σ.ret = some (NodeText.postText str (node.getD self)) :=
  CodeW5Z.code_nodePostfix str self node

/-- **The tree keeps the formula.**  For every tree `e` that the stack machine of `Function.parse` builds from a postfix
    token list `q` (no empty token: the tokens of a `split()`; a table without elements of arity 3 or more,
    `table_wellFormed`), `Node.postfix` of the tree is `" ".join(q)` token for token - where a token that `float()`
    accepts is printed as a number (`1` comes back as `Op.str(1.0)`) and parentheses / commas (never emitted by
    `infix_to_postfix`, skipped by the stack machine) are left out (`CodeW5Z.postToken`). -/
theorem postfix_of_parse (tbl : Table) (hT : ∀ r ∈ tbl, r.2.2.1 ≤ 2) (str : X Rat → String) (q : List String)
    (hq : ∀ s ∈ q, s ≠ "") (e : Expr) (h : parsePostfix tbl q = .ok e) :
    NodeText.postText str e.toNode = Py.joinSp (q.filterMap (CodeW5Z.postToken tbl str)) :=
  CodeW5Z.postfix_of_parse tbl hT str q hq e h

/-- … and with the translated `Node.postfix`: the text the code returns for the tree of `Function.parse` -/
theorem code_postfix_of_parse (tbl : Table) (hT : ∀ r ∈ tbl, r.2.2.1 ≤ 2) (str : X Rat → String) (q : List String)
    (hq : ∀ s ∈ q, s ≠ "") (e : Expr) (h : parsePostfix tbl q = .ok e) :
    ∃ σ, Gen.Code.Node_postfix.run str e.toNode none {} = .ok σ ∧
      σ.ret = some (Py.joinSp (q.filterMap (CodeW5Z.postToken tbl str))) := by
  obtain ⟨σ, h1, h2⟩ := CodeW5Z.code_nodePostfix str e.toNode none
  exact ⟨σ, h1, by rw [h2, Option.getD_none, CodeW5Z.postfix_of_parse tbl hT str q hq e h]⟩

/-! ### the factories (`fuzzylite/factory.py`, `Gen/CodeFactory.lean`)

The translations above read the element table through `factory.objects.get` / `factory.objects[…]` / `factory.copy` as
look-ups `Lang.Table.lookup`; `Op.formatInfix` reads `factory.operators()`.  The methods of the factories themselves: -/

/-- **Tie A (code → model).**  `ConstructionFactory.construct(key)` on any dictionary of constructors `cs` (a list of
    items; `call c` is what `c(**kwargs)` returns or raises): the constructor registered under the key is called, an
    unregistered key is a `ValueError` (`Py.BlockAct.construct`).  For a factory that registers every class under its
    own name (`Py.BlockAct.registered keys`, the lists `Gen.Tables.*Keys`) this is the membership test of the importer
    model: `construct_registered` below. -/
theorem code_factoryConstruct {C T : Type} [Inhabited C] [Inhabited T] (cs : List (String × C)) (call : C → Py.M T)
    (key : String) :
    match Py.BlockAct.construct cs call key with
    | .error e => Gen.Code.ConstructionFactory_construct.run cs call key {} = .error e
    | .ok v => ∃ σ, Gen.Code.ConstructionFactory_construct.run cs call key {} = .ok σ ∧ σ.ret = some v :=
  Py.BlockAct.code_factoryConstruct cs call key

theorem construct_registered {T : Type} (keys : List String) (call : String → Py.M T) (key : String) :
    Py.BlockAct.construct (Py.BlockAct.registered keys) call key = if key ∈ keys then call key else .error .value :=
  Py.BlockAct.construct_registered keys call key

/-- **Tie A (code → model).**  `CloningFactory.copy(key)` on the element table is `Py.copyElem` - the element
    `Lang.Table.lookup` finds, `ValueError` for an unregistered name -, the external of `code_parsePostfix`. -/
theorem code_factoryCopy (tbl : Table) (key : String) :
    match Py.copyElem tbl key with
    | .error e => Gen.Code.CloningFactory_copy.run tbl key {} = .error e
    | .ok v => ∃ σ, Gen.Code.CloningFactory_copy.run tbl key {} = .ok σ ∧ σ.ret = some v :=
  Py.BlockAct.code_factoryCopy tbl key

/-- **Tie A (code → model).**  `FunctionFactory.operators()`: the items of the rows with the operator flag, in the
    order of the table; its keys are `Lang.Table.operators` (what `Op.formatInfix` reads). -/
theorem code_operators (tbl : Table) :
    ∃ σ r, Gen.Code.FunctionFactory_operators.run tbl {} = .ok σ ∧ σ.ret = some r ∧
      r = (tbl.filter (·.2.1)).map (fun row => (row.1, Elem.ofRow row)) ∧ r.map (·.1) = tbl.operators :=
  Py.BlockAct.code_operators tbl

/-- **Tie A (code → model).**  `FunctionFactory.functions()`: the rows without the operator flag. -/
theorem code_functions (tbl : Table) :
    ∃ σ r, Gen.Code.FunctionFactory_functions.run tbl {} = .ok σ ∧ σ.ret = some r ∧
      r = (tbl.filter (!·.2.1)).map (fun row => (row.1, Elem.ofRow row)) ∧ r.map (·.1) = tbl.functions :=
  Py.BlockAct.code_functions tbl

/-- **Tie A (code → model).**  `FunctionFactory._precedence(importance)` = `100 - 10 * importance`. -/
theorem code_precedence (importance : Nat) :
    ∃ σ, Gen.Code.FunctionFactory_precedence.run importance {} = .ok σ ∧
      σ.ret = some (100 - 10 * (importance : Int)) :=
  Py.BlockAct.code_precedence importance

/-- every precedence of the regenerated table is a value of the helper at an importance 0 … 10 -/
theorem table_precedences : Py.BlockAct.precedencesFromHelper Gen.Tables.elements = true :=
  Py.BlockAct.table_precedences

/-- **Tie A (code → model).**  `Gen.Code.Node_evaluate` is regenerated from the source of `Function.Node.evaluate`
    on every run (the recursion over the tree with a bound on its depth, which is never exhausted; values are any
    type `V`; `sem.ap0/ap1/ap2` are the meanings of `element.method(*args)`, `const` the scalar of a float, `lv` the
    map of variables or `None`).  For every tree `e` that `Function.parse` can build – the arity of every element is
    the number of its operands (`Op.Arities`; the table has no element of arity 3 or more, `table_wellFormed`) and a
    leaf is a token, not the empty string – the function called on the node tree `e.toNode` raises `ValueError`
    where `Op.evalTree` has no value (a variable without substitution) and otherwise returns the model's value. -/
theorem code_nodeEvaluate {V : Type} [Inhabited V] (sem : Sem V) (const : X Rat → V) (lv : Option (List (String × V)))
    (e : Expr) (ha : Arities e) (hl : e.LeavesNonempty) :
    match evalTree (nodeSem sem const lv) e with
    | none => Gen.Code.Node_evaluate.run sem const e.toNode lv {} = .error .value
    | some v => ∃ σ, Gen.Code.Node_evaluate.run sem const e.toNode lv {} = .ok σ ∧ σ.ret = some v :=
  CodeFunEval.code_nodeEvaluate sem const lv e ha hl

/-- **Tie A (code → model).**  `Gen.Code.Function_evaluate` (regenerated from `Function.evaluate`): `RuntimeError` when
    no tree is loaded, else `Node.evaluate` of the root (`Op.evaluateOf`). -/
theorem code_functionEvaluate {V : Type} [Inhabited V] (sem : Sem V) (const : X Rat → V) (lv : Option (List (String × V)))
    (root : Option Expr) (hr : ∀ e, root = some e → Arities e ∧ e.LeavesNonempty) :
    match evaluateOf (nodeSem sem const lv) root with
    | .error k => Gen.Code.Function_evaluate.run sem const (root.map Expr.toNode) lv {} = .error k.toPy
    | .ok v => ∃ σ, Gen.Code.Function_evaluate.run sem const (root.map Expr.toNode) lv {} = .ok σ ∧ σ.ret = some v :=
  CodeFunEval.code_functionEvaluate sem const lv root hr

/-- **Tie A (code → model).**  `Gen.Code.Function_membership` is regenerated from the source of `Function.membership`
    (`fvars` = the term's own variables, `engine` = the name / value pairs of the engine's variables or `None`; a
    dictionary is the list of its assignments, a look-up takes the last one).  It raises the exception class the model
    `Op.membershipOf` predicts – `ValueError` for a term variable `x`, an engine variable `x`, a term variable with the
    name of an engine variable (`Op.membershipEnv`), `RuntimeError` for a term that is not loaded, `ValueError` for a
    variable without substitution – and otherwise returns the model's value: the tree evaluated with the engine's
    variables in order, then `x`, then the term's variables. -/
theorem code_functionMembership {V : Type} [Inhabited V] (sem : Sem V) (const : X Rat → V) (root : Option Expr)
    (hr : ∀ e, root = some e → Arities e ∧ e.LeavesNonempty) (fvars : List (String × V))
    (engine : Option (List (String × V))) (x : V) :
    match membershipOf sem const root fvars (engine.getD []) x with
    | .error k => Gen.Code.Function_membership.run sem const (root.map Expr.toNode) fvars engine x {} = .error k.toPy
    | .ok v => ∃ σ, Gen.Code.Function_membership.run sem const (root.map Expr.toNode) fvars engine x {} = .ok σ ∧
        σ.ret = some v :=
  CodeFunEval.code_functionMembership sem const root hr fvars engine x

/-- every tree `Function.parse` builds (over a well-formed table: no element of arity 3 or more) satisfies the two
    side conditions of `code_nodeEvaluate` / `code_functionMembership`: arities agree with the node kinds, and the
    leaves are tokens of `format_infix(formula).split()`, hence not empty -/
theorem parse_built (tbl : Table) (hT : tbl.WellFormed) (formula : String) (e : Expr)
    (h : parseFormula tbl (formatInfix tbl formula) = .ok e) : Arities e ∧ e.LeavesNonempty :=
  parseFormula_built tbl hT formula e h

/-- the model of the property theorems (`Op.functionMembership`, values `Val α`, the documented meaning of the
    elements) is `Op.parseFormula` followed by `Op.membershipOf` -/
theorem functionMembership_as_membershipOf {α : Type} [Field α] [LinearOrder α] [IsStrictOrderedRing α] [FloorRing α]
    (F : Fn α) (tbl : Table) (formula : String) (fvars evars : List (String × X α)) (x : X α) :
    functionMembership F tbl formula fvars evars x =
      match parseFormula tbl (formatInfix tbl formula) with
      | .error k => .error k
      | .ok e => (membershipOf (valSem F (fun _ => none)) numConst (some e) (liftEnv fvars) (liftEnv evars) (Val.num x)).map
          (fun v => (e, v)) :=
  functionMembership_eq F tbl formula fvars evars x

/-- **Tie A, end to end.**  `Function.create(name, formula, engine)` followed by `.membership(x)`: the translated
    `Function.parse` and then the translated `Function.membership` on the node it returns raise the exception class
    `Op.functionMembership` predicts and otherwise return its tree (as a `Function.Node`) and its value – for every
    well-formed table (`table_wellFormed` for the regenerated one), formula, map of term variables, engine variables
    (`none`: no engine) and `x`; the elements mean what `Lang.sem0/1/2` document. -/
theorem code_createMembership {α : Type} [Field α] [LinearOrder α] [IsStrictOrderedRing α] [FloorRing α]
    (F : Fn α) (tbl : Table) (hT : tbl.WellFormed) (formula : String)
    (fvars : List (String × X α)) (engine : Option (List (String × X α))) (x : X α) :
    match functionMembership F tbl formula fvars (engine.getD []) x with
    | .error k => (Gen.Code.Function_parse.run tbl formula {} >>= fun p =>
        Gen.Code.Function_membership.run (valSem F (fun _ => none)) numConst p.ret (liftEnv fvars) (engine.map liftEnv)
          (Val.num x) {}) = .error k.toPy
    | .ok r => ∃ p σ, Gen.Code.Function_parse.run tbl formula {} = .ok p ∧ p.ret = some r.1.toNode ∧
        Gen.Code.Function_membership.run (valSem F (fun _ => none)) numConst p.ret (liftEnv fvars) (engine.map liftEnv)
          (Val.num x) {} = .ok σ ∧ σ.ret = some r.2 :=
  CodeFunEval.code_createMembership F tbl hT formula fvars engine x

/-! ## infix → postfix: the shunting-yard loop is correct for every writing of every tree -/

/-- **Correctness of `infix_to_postfix`.**  For every table that is well formed, every expression tree `e` over the
    table (no bound on depth or size; `OverW`: formula trees and, for C06, antecedent trees whose leaves are runs of
    plain words) and every token list `ts` that writes `e` with at least the parentheses that
    precedence and associativity require – and any number of redundant ones (`Lang.Prints`) –, the loop returns the
    postfix form of `e`. -/
theorem sy_correct (tbl : Table) (hT : tbl.WellFormed) (e : Expr) (he : e.OverW tbl) (ts : List Tok)
    (hp : Prints e ts) : toPostfix tbl (ts.map Tok.str) = .ok (e.pfx.map Tok.str) := by
  unfold toPostfix
  rw [map_fix (Pr.fix hT hp he), sy_prints (Expr.shape_of_over hT he) hp]
  rfl

/-- the writing with exactly the necessary parentheses is one of the writings … -/
theorem minimal_writing (tbl : Table) (hT : tbl.WellFormed) (e : Expr) (he : e.Over tbl) :
    Prints e (e.prMin 0 0) := Expr.prMin_pr e (Expr.shape_of_over hT he.toW) 0 0

/-- … and so is the fully parenthesised one (redundant parentheses are harmless) -/
theorem full_writing (tbl : Table) (hT : tbl.WellFormed) (e : Expr) (he : e.Over tbl) :
    Prints e e.prFull := Expr.prFull_pr e (Expr.shape_of_over hT he.toW) 0 0

/-- any sub-expression may be wrapped in parentheses -/
theorem redundant_parentheses (e : Expr) (ts : List Tok) (h : Prints e ts) : Prints e (.lp :: ts ++ [.rp]) :=
  Pr.paren 0 0 e ts h

/-! ## postfix → tree -/

/-- the stack machine of `Function.parse` rebuilds every tree from its postfix form -/
theorem parsePostfix_postfix (tbl : Table) (e : Expr) (he : e.Over tbl) :
    parsePostfix tbl (e.pfx.map Tok.str) = .ok e := by
  unfold parsePostfix
  rw [map_fix (Expr.pfx_fix he.toW), parsePostfixTok_pfx e (arities_of_over he)]

/-- `Function.parse` of any writing of a tree is that tree -/
theorem parse_print (tbl : Table) (hT : tbl.WellFormed) (e : Expr) (he : e.Over tbl) (ts : List Tok)
    (hp : Prints e ts) : parseFormula tbl (ts.map Tok.str) = .ok e := by
  unfold parseFormula
  rw [sy_correct tbl hT e he.toW ts hp]
  exact parsePostfix_postfix tbl e he

/-- **From characters to the tree.**  For every expression tree `e`, every way `ts` to write it as tokens (minimal,
    redundant or full parentheses: `Prints e ts`) and every way to lay these tokens out as characters (`ws`: any
    blanks, none needed next to symbolic operators / parentheses / commas, `Valid`), `Function.parse` of the text is
    `e`: `format_infix` + `split` recover the tokens (`format_split_render`), the shunting-yard loop and the stack
    machine rebuild the tree (`parse_print`).  No bound on the size of the tree or of the text. -/
theorem parse_any_layout (tbl : Table) (hT : tbl.WellFormed) (e : Expr) (he : e.Over tbl) (ts : List Tok)
    (hp : Prints e ts) (ws : List (Nat × Tk)) (tr : Nat) (hts : ws.map (fun p => p.2.str) = ts.map Tok.str)
    (hsp : NoSpaceOp (opsOf tbl)) (hv : Valid (opsOf tbl) ws tr) :
    parseFormula tbl (formatInfix tbl (String.ofList (render ws tr))) = .ok e := by
  rw [format_split_render tbl ws tr hsp hv, hts]
  exact parse_print tbl hT e he ts hp

/-- **Postfix round trip.**  The tree of a loaded formula prints to a postfix form from which the stack machine
    rebuilds the same tree, and – for any meaning of leaves and elements – the value of the tree is the value of that
    postfix form as a reverse-Polish program. -/
theorem postfix_roundtrip {V : Type} (S : Sem V) (tbl : Table) (e : Expr) (he : e.Over tbl) :
    parsePostfix tbl (e.pfx.map Tok.str) = .ok e ∧ rpn S e.pfx [] = (evalTree S e).map (fun v => [v]) := by
  refine ⟨parsePostfix_postfix tbl e he, ?_⟩
  have := rpn_pfx S e (arities_of_over he) [] []
  simp only [List.append_nil] at this
  rw [this]; cases evalTree S e <;> simp [rpn]

/-- the same for **every loaded formula**, whatever text it was loaded from: if `Function.parse` accepts a token list
    and builds `e`, then parsing the postfix form of `e` gives `e` again, and the value of `e` is the value of that
    postfix form read as a reverse-Polish program (for any meaning of leaves and elements) -/
theorem loaded_postfix_roundtrip (tbl : Table) (hT : tbl.WellFormed) (toks : List String) (e : Expr)
    (h : parseFormula tbl toks = .ok e) :
    parsePostfix tbl (e.pfx.map Tok.str) = .ok e ∧
    ∀ {V : Type} (S : Sem V), rpn S e.pfx [] = (evalTree S e).map (fun v => [v]) := by
  unfold parseFormula at h
  cases hp : toPostfix tbl toks with
  | error k => rw [hp] at h; cases h
  | ok p =>
    rw [hp] at h
    unfold toPostfix at hp
    cases hs : sy (toks.map (classify tbl)) [] [] with
    | error k => rw [hs] at hp; cases hp
    | ok out =>
      rw [hs] at hp
      simp only [Except.map, Except.ok.injEq] at hp; subst hp
      have hfix : ∀ t ∈ out, Tok.Fix tbl t ∧ ∀ f, t = .el f → f.arity ≤ 2 := by
        refine Op.sy_mem _ _ _ _ hs _ ?_ (by simp) (by simp)
        intro t ht
        obtain ⟨s, _, rfl⟩ := List.mem_map.1 ht
        refine ⟨classify_fix tbl s, fun f hf => ?_⟩
        obtain ⟨r, hm, he⟩ := classify_el hf
        rw [← he]; exact hT.2.2.2.2.2 r hm
      simp only [parsePostfix] at h
      rw [map_fix (fun t ht => (hfix t ht).1)] at h
      unfold parsePostfixTok at h
      cases hb : build out [] with
      | error k => rw [hb] at h; cases h
      | ok stk =>
        rw [hb] at h
        have hinv := build_inv (Tok.Fix tbl) out [] stk (fun f hf => (hfix _ hf).2 f rfl)
          (fun t ht => (hfix t ht).1) (by simp) hb
        match stk, h, hinv with
        | [e'], h, hinv =>
          simp only [Except.ok.injEq] at h; subst h
          obtain ⟨har, hpf⟩ := hinv e' (by simp)
          refine ⟨?_, fun S => ?_⟩
          · unfold parsePostfix
            rw [map_fix hpf, parsePostfixTok_pfx e' har]
          · have := rpn_pfx S e' har [] []
            simp only [List.append_nil] at this
            rw [this]; cases evalTree S e' <;> simp [rpn]

/-! ## ill-formed formulas are rejected (for every token list, not only mutated writings) -/

/-- a formula is loaded only if its operands and arities balance: `Σ (1 − arity) = 1` -/
theorem accepted_balance (tbl : Table) (hT : tbl.WellFormed) (toks : List String) (e : Expr)
    (h : parseFormula tbl toks = .ok e) : wsum (toks.map (classify tbl)) = 1 := by
  unfold parseFormula at h
  cases hp : toPostfix tbl toks with
  | error k => rw [hp] at h; cases h
  | ok p =>
    rw [hp] at h
    unfold toPostfix at hp
    cases hs : sy (toks.map (classify tbl)) [] [] with
    | error k => rw [hs] at hp; cases hp
    | ok out =>
      rw [hs] at hp
      simp only [Except.map, Except.ok.injEq] at hp; subst hp
      have hw := sy_wsum _ _ _ _ hs
      simp only [parsePostfix] at h
      -- the postfix tokens are classified tokens, hence fixed points of the classification
      have hfix : ∀ t ∈ out, Tok.Fix tbl t ∧ ∀ f, t = .el f → f.arity ≤ 2 := by
        have hsub : ∀ (ts q st out : List Tok), sy ts q st = .ok out →
            ∀ P : Tok → Prop, (∀ t ∈ ts, P t) → (∀ t ∈ q, P t) → (∀ t ∈ st, P t) → ∀ t ∈ out, P t :=
          Op.sy_mem
        refine hsub _ _ _ _ hs _ ?_ (by simp) (by simp)
        intro t ht
        obtain ⟨s, _, rfl⟩ := List.mem_map.1 ht
        refine ⟨classify_fix tbl s, fun f hf => ?_⟩
        obtain ⟨r, hm, he⟩ := classify_el hf
        rw [← he]; exact hT.2.2.2.2.2 r hm
      rw [map_fix (fun t ht => (hfix t ht).1)] at h
      unfold parsePostfixTok at h
      cases hb : build out [] with
      | error k => rw [hb] at h; cases h
      | ok stk =>
        rw [hb] at h
        have hl := build_length out [] stk (fun f hf => (hfix _ hf).2 f rfl) hb
        match stk, h with
        | [e'], _ =>
          simp only [List.length_cons, List.length_nil, wsum] at hl hw
          omega

/-- whatever is rejected is rejected with a `SyntaxError` -/
theorem reject_is_syntax_error (tbl : Table) (toks : List String) (k : ErrKind)
    (h : parseFormula tbl toks = .error k) : k = .syntax := parseFormula_error h

/-- **missing / extra operand, wrong arity**: a token list whose operand balance is not 1 is rejected -/
theorem reject_operand_balance (tbl : Table) (hT : tbl.WellFormed) (toks : List String)
    (h : wsum (toks.map (classify tbl)) ≠ 1) : parseFormula tbl toks = .error .syntax := by
  cases hp : parseFormula tbl toks with
  | ok e => exact absurd (accepted_balance tbl hT toks e hp) h
  | error k => rw [reject_is_syntax_error tbl toks k hp]

/-- deleting one operand from any accepted formula gives a rejected one -/
theorem reject_missing_operand (tbl : Table) (hT : tbl.WellFormed) (a b : List String) (s : String) (e : Expr)
    (hs : classify tbl s = .operand s) (h : parseFormula tbl (a ++ s :: b) = .ok e) :
    parseFormula tbl (a ++ b) = .error .syntax := by
  apply reject_operand_balance tbl hT
  have := accepted_balance tbl hT _ e h
  simp only [List.map_append, List.map_cons, wsum_append, wsum, hs, wt] at this ⊢
  omega

/-- replacing an element by one of a different arity in any accepted formula gives a rejected one
    (`f(a)` for a binary `f`, `f(a, b)` for a unary `f`, a binary operator used as a prefix operator, …) -/
theorem reject_wrong_arity (tbl : Table) (hT : tbl.WellFormed) (a b : List String) (f g : String) (F G : Elem)
    (e : Expr) (hf : classify tbl f = .el F) (hg : classify tbl g = .el G) (hne : F.arity ≠ G.arity)
    (h : parseFormula tbl (a ++ f :: b) = .ok e) : parseFormula tbl (a ++ g :: b) = .error .syntax := by
  apply reject_operand_balance tbl hT
  have := accepted_balance tbl hT _ e h
  simp only [List.map_append, List.map_cons, wsum_append, wsum, hf, hg, wt] at this ⊢
  omega

/-- **unbalanced parentheses**: a token list with different numbers of `(` and `)` is rejected -/
theorem reject_unbalanced_parenthesis (tbl : Table) (toks : List String)
    (h : nlp (toks.map (classify tbl)) ≠ nrp (toks.map (classify tbl))) :
    toPostfix tbl toks = .error .syntax ∧ parseFormula tbl toks = .error .syntax := by
  have h1 : toPostfix tbl toks = .error .syntax := by
    unfold toPostfix
    cases hs : sy (toks.map (classify tbl)) [] [] with
    | ok out =>
      have := sy_parens _ _ _ _ hs
      simp only [nlp, Nat.zero_add] at this
      exact absurd this h
    | error k => rw [sy_error _ _ _ _ hs]; rfl
  exact ⟨h1, by unfold parseFormula; rw [h1]⟩

/-! ## variables -/

/-- a term variable named `x`, an engine variable named `x`, or a term variable with the name of an engine
    variable make `membership` raise `ValueError` -/
theorem membership_rejects_name_clash {β : Type} (fvars evars : List (String × β)) (x : β)
    (h : (∃ v, ("x", v) ∈ fvars) ∨ (∃ v, ("x", v) ∈ evars) ∨ (∃ n v w, (n, v) ∈ fvars ∧ (n, w) ∈ evars)) :
    membershipEnv fvars evars x = .error .value := by
  unfold membershipEnv
  by_cases h1 : fvars.any (·.1 == "x") = true
  · simp [h1]
  · by_cases h2 : evars.any (·.1 == "x") = true
    · simp [h1, h2]
    · simp only [h1, h2, Bool.false_eq_true, if_false]
      rcases h with ⟨v, hv⟩ | ⟨v, hv⟩ | ⟨n, v, w, hv, hw⟩
      · exact absurd (List.any_eq_true.2 ⟨_, hv, by simp⟩) h1
      · exact absurd (List.any_eq_true.2 ⟨_, hv, by simp⟩) h2
      · have : fvars.any (fun kv => (evars ++ [("x", x)]).any (·.1 == kv.1)) = true :=
          List.any_eq_true.2 ⟨_, hv, List.any_eq_true.2 ⟨(n, w), by simp [hw], by simp⟩⟩
        simp only [this, if_true]

/-- without a clash the map is: engine variables, then `x`, then the term's variables -/
theorem membership_env {β : Type} (fvars evars : List (String × β)) (x : β)
    (h1 : ∀ kv ∈ fvars, kv.1 ≠ "x") (h2 : ∀ kv ∈ evars, kv.1 ≠ "x")
    (h3 : ∀ kv ∈ fvars, ∀ kw ∈ evars, kw.1 ≠ kv.1) :
    membershipEnv fvars evars x = .ok (evars ++ [("x", x)] ++ fvars) := by
  unfold membershipEnv
  have a1 : fvars.any (·.1 == "x") = false := by
    simp only [List.any_eq_false, beq_iff_eq]; exact fun kv hk => h1 kv hk
  have a2 : evars.any (·.1 == "x") = false := by
    simp only [List.any_eq_false, beq_iff_eq]; exact fun kv hk => h2 kv hk
  have a3 : fvars.any (fun kv => (evars ++ [("x", x)]).any (·.1 == kv.1)) = false := by
    simp only [List.any_eq_false, List.any_eq_true, not_exists, not_and, beq_iff_eq]
    intro kv hk kw hw
    rcases List.mem_append.1 hw with hw | hw
    · exact h3 kv hk kw hw
    · simp only [List.mem_singleton] at hw; subst hw; exact fun hh => h1 kv hk hh.symm
  simp only [a1, a2, a3, Bool.false_eq_true, if_false]

/-! ## the conventional readings, on the regenerated table -/

private abbrev T : Table := Gen.Tables.elements
private def rd (ts : List String) : Option (List String) :=
  match toPostfix T ts with | .ok p => some p | .error _ => none

/-- `+ - * / %` associate to the left, `^ **` to the right; `*` binds tighter than `+`, `^` tighter than `*` and
    than the unary minus to its left; `and` tighter than `or`; arithmetic tighter than logic; parentheses override -/
theorem conventional_readings :
    rd ["a", "-", "b", "-", "c"] = some ["a", "b", "-", "c", "-"] ∧
    rd ["a", "/", "b", "*", "c", "%", "d"] = some ["a", "b", "/", "c", "*", "d", "%"] ∧
    rd ["a", "^", "b", "^", "c"] = some ["a", "b", "c", "^", "^"] ∧
    rd ["a", "**", "b", "^", "c"] = some ["a", "b", "c", "^", "**"] ∧
    rd ["a", "+", "b", "*", "c"] = some ["a", "b", "c", "*", "+"] ∧
    rd ["a", "*", "b", "^", "c"] = some ["a", "b", "c", "^", "*"] ∧
    rd [".-", "a", "^", "b"] = some ["a", "b", "^", ".-"] ∧
    rd ["a", "^", ".-", "b"] = some ["a", "b", ".-", "^"] ∧
    rd [".-", "a", "*", "b"] = some ["a", ".-", "b", "*"] ∧
    rd ["!", "a", "and", "b"] = some ["a", "!", "b", "and"] ∧
    rd ["a", "or", "b", "and", "c"] = some ["a", "b", "c", "and", "or"] ∧
    rd ["a", "+", "b", "and", "c", "*", "d"] = some ["a", "b", "+", "c", "d", "*", "and"] ∧
    rd ["(", "a", "+", "b", ")", "*", "c"] = some ["a", "b", "+", "c", "*"] ∧
    rd ["a", "-", "(", "b", "-", "c", ")"] = some ["a", "b", "c", "-", "-"] ∧
    rd ["2", "^", "pi", "*", "sin", "(", "pi", ")"] = some ["2", "pi", "^", "pi", "sin", "*"] ∧
    rd ["pow", "(", "a", "+", "1", ",", "max", "(", "b", ",", "c", ")", ")"]
      = some ["a", "1", "+", "b", "c", "max", "pow"] := by
  decide +kernel

/-! ## the hypotheses are satisfiable: a non-trivial tree over the regenerated table -/

private def eAdd : Elem := ⟨"+", true, 2, 70, -1⟩
private def ePow : Elem := ⟨"^", true, 2, 90, 1⟩
private def eNeg : Elem := ⟨".-", true, 1, 90, 1⟩
private def eMin : Elem := ⟨"min", false, 2, 100, -1⟩
private def ePi : Elem := ⟨"pi", false, 0, 100, -1⟩
/-- `.- a ^ (b + pi) + min(c, 2)` -/
private def sample : Expr :=
  .app2 eAdd (.app1 eNeg (.app2 ePow (.leaf "a") (.app2 eAdd (.leaf "b") (.app0 ePi))))
    (.app2 eMin (.leaf "c") (.leaf "2"))

example : sample.Over T := by decide +kernel
example : (sample.prMin 0 0).map Tok.str
    = [".-", "a", "^", "(", "b", "+", "pi", ")", "+", "min", "(", "c", ",", "2", ")"] := by decide +kernel
example : parseFormula T ((sample.prMin 0 0).map Tok.str) = .ok sample :=
  parse_print T table_wellFormed sample (by decide +kernel) _ (minimal_writing T table_wellFormed sample (by decide +kernel))
example : parseFormula T (sample.prFull.map Tok.str) = .ok sample :=
  parse_print T table_wellFormed sample (by decide +kernel) _ (full_writing T table_wellFormed sample (by decide +kernel))
example : parseFormula T ["a", "+"] = .error .syntax := by decide +kernel
example : parseFormula T ["sin", "(", "a", ",", "b", ")"] = .error .syntax := by decide +kernel
example : parseFormula T ["(", "a", "+", "b"] = .error .syntax := by decide +kernel

end C17
