import FlVerif.Spec.Activation
import FlVerif.Op.Activation
import FlVerif.Lemmas.Activation
import FlVerif.Lemmas.ActivationLoops
import FlVerif.Gen.Tables

/-! # C08 — activation methods trigger exactly the rules their definition selects

`Op.Activation.activate` follows the loops of `fuzzylite/activation.py` (and is what the driver runs against
`RuleBlock.activate`); `Spec.Activation.activate` is the definition a user reads: `selected m rs` lists the
rules a method selects, in trigger order; a selected rule is marked triggered iff it is enabled and its degree
is positive, and contributes (one `consequent.modify` call) iff it is enabled.

All statements are for rule lists of any length, degrees in the special-value algebra `X α` over any ordered
field.  `Scalar rs` = no loaded rule carries a batch degree. -/

namespace C08
open Spec.Activation Op.Activation

variable {α : Type} [Field α] [LinearOrder α] [IsStrictOrderedRing α]

/-! ## the loops compute the specified selection -/

theorem scalarV_enum {rs : List (Rule α)} (h : Scalar rs) : ScalarV (enum 0 rs) := by
  intro p hp hl
  obtain ⟨i, r⟩ := p
  exact h r (List.mem_of_getElem? (mem_enum hp).2) hl

theorem snds_map (l : List (Visit α)) (f : Visit α → Rule α) : snds (l.map (fun p => (p.1, f p))) = l.map f := by
  simp [snds, List.map_map, Function.comp_def]

/-- General: every loaded rule is activated and triggered (no restriction on the degrees) -/
theorem op_eq_spec_general (rs : List (Rule α)) :
    Op.Activation.activate .general rs = .ok (Spec.Activation.activate .general rs) := by
  simp only [Op.Activation.activate, generalLoop_spec, snds_map, Spec.Activation.activate, selected, outcome]
  congr 2
  · apply List.map_congr_left
    intro p hp
    simp only [isSelected_filter (enum_nodup 0 rs) _ hp]
    rcases Bool.eq_false_or_eq_true p.2.loaded with h | h <;> simp [h, settle, stored]

/-- Threshold: the rules whose degree satisfies the comparison -/
theorem op_eq_spec_threshold (c : Comparator) (t : X α) (rs : List (Rule α)) (h : Scalar rs) :
    Op.Activation.activate (.threshold c t) rs = .ok (Spec.Activation.activate (.threshold c t) rs) := by
  simp only [Op.Activation.activate, thresholdLoop_spec c t _ (scalarV_enum h), Except.map, snds_map,
    Spec.Activation.activate, selected, outcome]
  congr 2
  · apply List.map_congr_left
    intro p hp
    simp only [isSelected_filter (enum_nodup 0 rs) _ hp]
    rcases Bool.eq_false_or_eq_true (p.2.loaded && c.eval p.2.degree t) with h | h <;> simp [h, stored]

/-- First: the first `n` eligible rules in insertion order -/
theorem op_eq_spec_first (n : Nat) (t : X α) (rs : List (Rule α)) (h : Scalar rs) :
    Op.Activation.activate (.first n t) rs = .ok (Spec.Activation.activate (.first n t) rs) := by
  simp only [Op.Activation.activate, countLoop_spec n t _ 0 (enum_nodup 0 rs) (scalarV_enum h), Except.map, snds_map,
    Nat.sub_zero, Spec.Activation.activate, selected, outcome]
  rfl

/-- Last: the first `n` eligible rules in reverse insertion order -/
theorem op_eq_spec_last (n : Nat) (t : X α) (rs : List (Rule α)) (h : Scalar rs) :
    Op.Activation.activate (.last n t) rs = .ok (Spec.Activation.activate (.last n t) rs) := by
  have hnd : (((enum 0 rs).reverse).map (·.1)).Nodup := by
    rw [List.map_reverse]; exact (List.reverse_perm _).nodup_iff.2 (enum_nodup 0 rs)
  have hsv : ScalarV (enum 0 rs).reverse := fun p hp => scalarV_enum h p (List.mem_reverse.1 hp)
  simp only [Op.Activation.activate, countLoop_spec n t _ 0 hnd hsv, Except.map, Nat.sub_zero,
    Spec.Activation.activate, selected, outcome]
  congr 2
  rw [← List.map_reverse, List.reverse_reverse, snds_map]
  rfl

theorem keyLt_neg (a b : Visit α) :
    keyLt (X.neg a.2.degree, a.1) (X.neg b.2.degree, b.1) = betterHigh a b := by
  simp only [keyLt, betterHigh, X.eq_neg_neg, X.lt_neg_neg]
  rcases Bool.eq_false_or_eq_true (X.eq a.2.degree b.2.degree) with he | he
  · have := X.eq_true_imp he
    simp [he, this, X.lt_irrefl']
  · simp [he]

theorem keyLt_id (a b : Visit α) :
    keyLt (id a.2.degree, a.1) (id b.2.degree, b.1) = betterLow a b := by
  simp only [keyLt, betterLow, id]
  rcases Bool.eq_false_or_eq_true (X.eq a.2.degree b.2.degree) with he | he
  · have := X.eq_true_imp he
    simp [he, this, X.lt_irrefl']
  · simp [he]

/-- the heap loop + `n` pops = `take n` of the stable sort (`key = neg` with `betterHigh`, `key = id` with `betterLow`) -/
theorem heap_spec (key : X α → X α) (better : Visit α → Visit α → Bool)
    (hk : ∀ a b : Visit α, keyLt (key a.2.degree, a.1) (key b.2.degree, b.1) = better a b)
    (hst : ∀ l : List (Visit α), (l.map (·.1)).Nodup → (∀ p ∈ l, positive p = true) → StrictOn better l)
    (n : Nat) (rs : List (Rule α)) (h : Scalar rs) :
    (pushLoop key [] (enum 0 rs)).map (fun q => let z := popLoop n 0 q.2 (snds q.1); (⟨z.1, z.2⟩ : Outcome α)) =
      .ok (outcome ((sortBy better ((enum 0 rs).filter positive)).take n) (fun r => r.degree) rs) := by
  have hE := filter_nodup_fst (enum_nodup 0 rs) positive
  have hpos : ∀ p ∈ (enum 0 rs).filter positive, positive p = true := fun p hp => (List.mem_filter.1 hp).2
  have hstE := hst _ hE hpos
  have hperm := sortBy_perm better ((enum 0 rs).filter positive)
  -- the heap after the first loop
  have hheap : pushAll keyLt (((enum 0 rs).filter positive).map (fun p => (key p.2.degree, p.1))) [] =
      (sortBy better ((enum 0 rs).filter positive)).map (fun p => (key p.2.degree, p.1)) := by
    rw [pushAll_eq_sortBy (hstE.map hk), sortBy_map better keyLt _ hk]
  simp only [pushLoop_spec key _ _ (scalarV_enum h), Except.map, snds_map, popLoop_eq, Nat.sub_zero, hheap]
  rw [← List.map_take, List.map_map]
  have hsel_sub : ∀ p ∈ (sortBy better ((enum 0 rs).filter positive)).take n, p ∈ (enum 0 rs).filter positive :=
    fun p hp => hperm.subset (List.mem_of_mem_take hp)
  have := trigAll_spec id rs ((sortBy better ((enum 0 rs).filter positive)).take n)
    (fun p hp => (List.mem_filter.1 (hsel_sub p hp)).1)
    (((hperm.map _).nodup_iff.2 hE).sublist ((List.take_sublist _ _).map _))
    (fun p hp => by
      have := (List.mem_filter.1 (hsel_sub p hp)).2
      simp only [positive, Bool.and_eq_true] at this; exact this.1)
  simp only [Function.comp_def, id] at this ⊢
  rw [this]
  rfl

/-- Highest: `take n` of the stable sort by (degree descending, index ascending) of the positive degrees -/
theorem op_eq_spec_highest (n : Nat) (rs : List (Rule α)) (h : Scalar rs) :
    Op.Activation.activate (.highest n) rs = .ok (Spec.Activation.activate (.highest n) rs) :=
  heap_spec X.neg betterHigh keyLt_neg (fun _ hnd hpos => strictOn_betterHigh hnd hpos) n rs h

/-- Lowest: `take n` of the stable sort by (degree ascending, index ascending) of the positive degrees -/
theorem op_eq_spec_lowest (n : Nat) (rs : List (Rule α)) (h : Scalar rs) :
    Op.Activation.activate (.lowest n) rs = .ok (Spec.Activation.activate (.lowest n) rs) :=
  heap_spec id betterLow keyLt_id (fun _ hnd hpos => strictOn_betterLow hnd hpos) n rs h

/-- Proportional: every rule with a positive degree, triggered with its degree divided by the sum -/
theorem op_eq_spec_proportional (rs : List (Rule α)) (h : Scalar rs) :
    Op.Activation.activate .proportional rs = .ok (Spec.Activation.activate .proportional rs) := by
  have hE := filter_nodup_fst (enum_nodup 0 rs) positive
  simp only [Op.Activation.activate, sumLoop_spec _ _ (scalarV_enum h), Except.map, snds_map, divLoop_eq]
  have := trigAll_spec (fun d => X.div d (degreeSum ((enum 0 rs).filter positive))) rs ((enum 0 rs).filter positive)
    (fun p hp => (List.mem_filter.1 hp).1) hE
    (fun p hp => by
      have := (List.mem_filter.1 hp).2
      simp only [positive, Bool.and_eq_true] at this; exact this.1)
  simp only [degreeSum] at this
  rw [this]
  rfl

/-- **Refinement.**  For scalar degrees every method's loop computes the specified outcome. -/
theorem op_eq_spec (m : Method α) (rs : List (Rule α)) (h : Scalar rs) :
    Op.Activation.activate m rs = .ok (Spec.Activation.activate m rs) := by
  cases m with
  | general => exact op_eq_spec_general rs
  | first n t => exact op_eq_spec_first n t rs h
  | last n t => exact op_eq_spec_last n t rs h
  | highest n => exact op_eq_spec_highest n rs h
  | lowest n => exact op_eq_spec_lowest n rs h
  | proportional => exact op_eq_spec_proportional rs h
  | threshold c t => exact op_eq_spec_threshold c t rs h

end C08
