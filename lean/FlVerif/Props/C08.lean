import FlVerif.Spec.Activation
import FlVerif.Op.Activation
import FlVerif.Lemmas.Activation
import FlVerif.Lemmas.ActivationLoops
import FlVerif.Lemmas.ActivationLaws
import FlVerif.Gen.Tables
import FlVerif.Lemmas.CodeActivation
import FlVerif.Lemmas.CodeBlockAct     -- `RuleBlock.activate`, `assert_is_not_vector`, `Comparator.operator`
import FlVerif.Lemmas.CodeDegreeRule   -- the methods of `Rule` the loops call (theorems `C07.code_deactivate / code_activateWith / code_trigger`)

/-! # C08 — activation methods trigger exactly the rules their definition selects

`Op.Activation.activate` follows the loops of `fuzzylite/activation.py` (and is what the driver runs against
`RuleBlock.activate`); `Spec.Activation.activate` is the definition a user reads: `selected m rs` lists the
rules a method selects, in trigger order; a selected rule is marked triggered iff it is enabled and its degree
is positive, and contributes (one `consequent.modify` call) iff it is enabled.

All statements are for rule lists of any length, degrees in the special-value algebra `X α` over any ordered
field.  `Scalar rs` = no loaded rule carries a batch degree. -/

namespace C08
open Spec.Activation Op.Activation

variable {α : Type} [Field α] [LinearOrder α] [IsStrictOrderedRing α]

/-! ## Tie A (code → model): the loops translated from the source are the loops of the model

`Gen.Code.<Cls>_activate` is regenerated from the source of `<Cls>.activate` (`fuzzylite/activation.py`) on every run
(`fv/pylean.py`).  Run on the rules of a block paired with their positions (`enum 0 rs`), it raises the exception class
that `Op.Activation.activate` predicts, and otherwise leaves the rule states (`visited`, in visiting order) and makes the
contributions (`fires`) that the model returns - for every rule list and every parameter. -/

theorem code_general (rs : List (Rule Rat)) :
    match Op.Activation.activate .general rs with
    | .error e => Gen.Code.General_activate.run (enum 0 rs) {} = .error e.toPy
    | .ok o => ∃ σ, Gen.Code.General_activate.run (enum 0 rs) {} = .ok σ ∧ σ.visited.map (·.2) = o.rules ∧
        σ.fires = o.fires :=
  Op.Activation.code_general rs

theorem code_first (n : Nat) (t : X Rat) (rs : List (Rule Rat)) :
    match Op.Activation.activate (.first n t) rs with
    | .error e => Gen.Code.First_activate.run (enum 0 rs) n t {} = .error e.toPy
    | .ok o => ∃ σ, Gen.Code.First_activate.run (enum 0 rs) n t {} = .ok σ ∧ σ.visited.map (·.2) = o.rules ∧
        σ.fires = o.fires :=
  Op.Activation.code_first n t rs

/-- Last visits the rules in reverse: `visited` is the block in reverse order -/
theorem code_last (n : Nat) (t : X Rat) (rs : List (Rule Rat)) :
    match Op.Activation.activate (.last n t) rs with
    | .error e => Gen.Code.Last_activate.run (enum 0 rs) n t {} = .error e.toPy
    | .ok o => ∃ σ, Gen.Code.Last_activate.run (enum 0 rs) n t {} = .ok σ ∧ (σ.visited.map (·.2)).reverse = o.rules ∧
        σ.fires = o.fires :=
  Op.Activation.code_last n t rs

/-- Highest: first loop with the heap of `(-degree, index)`, then the `while` loop (its fuel never runs out) -/
theorem code_highest (n : Nat) (rs : List (Rule Rat)) :
    match Op.Activation.activate (.highest n) rs with
    | .error e => Gen.Code.Highest_activate.run (enum 0 rs) n {} = .error e.toPy
    | .ok o => ∃ σ, Gen.Code.Highest_activate.run (enum 0 rs) n {} = .ok σ ∧ σ.visited.map (·.2) = o.rules ∧
        σ.fires = o.fires :=
  Op.Activation.code_highest n rs

theorem code_lowest (n : Nat) (rs : List (Rule Rat)) :
    match Op.Activation.activate (.lowest n) rs with
    | .error e => Gen.Code.Lowest_activate.run (enum 0 rs) n {} = .error e.toPy
    | .ok o => ∃ σ, Gen.Code.Lowest_activate.run (enum 0 rs) n {} = .ok σ ∧ σ.visited.map (·.2) = o.rules ∧
        σ.fires = o.fires :=
  Op.Activation.code_lowest n rs

theorem code_proportional (rs : List (Rule Rat)) :
    match Op.Activation.activate .proportional rs with
    | .error e => Gen.Code.Proportional_activate.run (enum 0 rs) {} = .error e.toPy
    | .ok o => ∃ σ, Gen.Code.Proportional_activate.run (enum 0 rs) {} = .ok σ ∧ σ.visited.map (·.2) = o.rules ∧
        σ.fires = o.fires :=
  Op.Activation.code_proportional rs

theorem code_threshold (c : Comparator) (t : X Rat) (rs : List (Rule Rat)) :
    match Op.Activation.activate (.threshold c t) rs with
    | .error e => Gen.Code.Threshold_activate.run (enum 0 rs) c t {} = .error e.toPy
    | .ok o => ∃ σ, Gen.Code.Threshold_activate.run (enum 0 rs) c t {} = .ok σ ∧ σ.visited.map (·.2) = o.rules ∧
        σ.fires = o.fires :=
  Op.Activation.code_threshold c t rs

/-- all seven at once: the translated method that `m` names returns the rule states (in block order) and the
    contributions of `Op.Activation.activate m`, or raises the same exception (`ValueError`) -/
theorem code_activate (m : Method Rat) (rs : List (Rule Rat)) :
    (match m with
      | .general => (Gen.Code.General_activate.run (enum 0 rs) {}).map
          (fun σ : Gen.Code.General_activate.S => (σ.visited.map (·.2), σ.fires))
      | .first n t => (Gen.Code.First_activate.run (enum 0 rs) n t {}).map
          (fun σ : Gen.Code.First_activate.S => (σ.visited.map (·.2), σ.fires))
      | .last n t => (Gen.Code.Last_activate.run (enum 0 rs) n t {}).map
          (fun σ : Gen.Code.Last_activate.S => ((σ.visited.map (·.2)).reverse, σ.fires))
      | .highest n => (Gen.Code.Highest_activate.run (enum 0 rs) n {}).map
          (fun σ : Gen.Code.Highest_activate.S => (σ.visited.map (·.2), σ.fires))
      | .lowest n => (Gen.Code.Lowest_activate.run (enum 0 rs) n {}).map
          (fun σ : Gen.Code.Lowest_activate.S => (σ.visited.map (·.2), σ.fires))
      | .proportional => (Gen.Code.Proportional_activate.run (enum 0 rs) {}).map
          (fun σ : Gen.Code.Proportional_activate.S => (σ.visited.map (·.2), σ.fires))
      | .threshold c t => (Gen.Code.Threshold_activate.run (enum 0 rs) c t {}).map
          (fun σ : Gen.Code.Threshold_activate.S => (σ.visited.map (·.2), σ.fires))
      : Py.M (List (Rule Rat) × List (Fire Rat)))
    = match Op.Activation.activate m rs with
      | .error e => .error e.toPy
      | .ok o => .ok (o.rules, o.fires) :=
  Op.Activation.code_activate m rs

/-! ### the caller of the loops and their two helpers

In the translations above `self.assert_is_not_vector(d)` is the test of the flag `vector` of the rule and
`self.comparator.operator(d, t)` is `cmp.eval d t`; the call `RuleBlock.activate` is what the engine makes.  The three
functions are translated themselves (`Gen/CodeBlockAct.lean`). -/

/-- **Tie A (code → model).**  `RuleBlock.activate` raises `ValueError` when the block has no activation method, and
    otherwise returns what `self.activation.activate(self)` does - the translated `activate` of the method's class,
    which by `code_activate` is `Op.Activation.activate`: its exception, or the rule states and contributions. -/
theorem code_blockActivate (a : Option (Method Rat)) (rs : List (Rule Rat)) :
    match a with
    | none => Gen.Code.RuleBlock_activate.run none rs {} = .error Err.value.toPy
    | some m =>
      match Op.Activation.activate m rs with
      | .error e => Gen.Code.RuleBlock_activate.run (some m) rs {} = .error e.toPy
      | .ok o => ∃ σ, Gen.Code.RuleBlock_activate.run (some m) rs {} = .ok σ ∧ σ.ret = some (o.rules, o.fires) :=
  Op.Activation.code_blockActivate a rs

/-- **Tie A (code → model).**  `Activation.assert_is_not_vector(d)` with `n = np.size(d)`: `ValueError` exactly when
    `n > 1` - the flag `vector` of `Spec.Activation.Rule` (`vectorOfSize n = decide (1 < n)`) -, no effect otherwise. -/
theorem code_assertNotVector (n : Nat) :
    (Gen.Code.Activation_assert_is_not_vector.run n {}).map (fun _ => ()) =
      if vectorOfSize n then .error Err.value.toPy else .ok () :=
  Op.Activation.code_assertNotVector n

/-- **Tie A (code → model).**  `Threshold.Comparator.operator` is the look-up of `self.value` in the class table
    `__operator__` (six `operator.*` functions, read from the live class when the definition is regenerated).  For a
    symbol of the enumeration the function returned is `Spec.Activation.Comparator.eval` of that comparator (on scalar
    degrees, NumPy semantics for NaN); for any other string the look-up is a `KeyError`. -/
theorem code_comparator (s : String) :
    match Comparator.ofSymbol s with
    | none => Gen.Code.Comparator_operator.run s {} = .error .lookup
    | some c => ∃ σ f, Gen.Code.Comparator_operator.run s {} = .ok σ ∧ σ.ret = some f ∧
        ∀ d t : X Rat, f d t = c.eval d t :=
  Op.Activation.code_comparator s

/-- the symbols of the regenerated enumeration table are exactly the symbols `Comparator.ofSymbol` knows, so
    `code_comparator` covers every member (and `ofName` / `ofSymbol` agree on each) -/
theorem comparator_members :
    Gen.Tables.comparators.map (fun p => (Comparator.ofName p.1, Comparator.ofSymbol p.2)) =
      [(some .lt, some .lt), (some .le, some .le), (some .eq, some .eq), (some .ne, some .ne), (some .ge, some .ge),
       (some .gt, some .gt)] := by decide

/-! ## the loops compute the specified selection -/

/-- General: every loaded rule is activated and triggered (no restriction on the degrees) -/
theorem op_eq_spec_general (rs : List (Rule α)) :
    Op.Activation.activate .general rs = .ok (Spec.Activation.activate .general rs) := by
  simp only [Op.Activation.activate, generalLoop_spec, snds_map, Spec.Activation.activate, selected, outcome]
  congr 2
  · apply List.map_congr_left
    intro p hp
    simp only [isSelected_filter (enum_nodup 0 rs) _ hp]
    rcases Bool.eq_false_or_eq_true p.2.loaded with h | h <;> simp [h, settle, stored]

/-- Threshold: the rules whose degree satisfies the comparison -/
theorem op_eq_spec_threshold (c : Comparator) (t : X α) (rs : List (Rule α)) (h : Scalar rs) :
    Op.Activation.activate (.threshold c t) rs = .ok (Spec.Activation.activate (.threshold c t) rs) := by
  simp only [Op.Activation.activate, thresholdLoop_spec c t _ (scalarV_enum h), Except.map, snds_map,
    Spec.Activation.activate, selected, outcome]
  congr 2
  · apply List.map_congr_left
    intro p hp
    simp only [isSelected_filter (enum_nodup 0 rs) _ hp]
    rcases Bool.eq_false_or_eq_true (p.2.loaded && c.eval p.2.degree t) with h | h <;> simp [h, stored]

/-- First: the first `n` eligible rules in insertion order -/
theorem op_eq_spec_first (n : Nat) (t : X α) (rs : List (Rule α)) (h : Scalar rs) :
    Op.Activation.activate (.first n t) rs = .ok (Spec.Activation.activate (.first n t) rs) := by
  simp only [Op.Activation.activate, countLoop_spec n t _ 0 (enum_nodup 0 rs) (scalarV_enum h), Except.map, snds_map,
    Nat.sub_zero, Spec.Activation.activate, selected, outcome]
  rfl

/-- Last: the first `n` eligible rules in reverse insertion order -/
theorem op_eq_spec_last (n : Nat) (t : X α) (rs : List (Rule α)) (h : Scalar rs) :
    Op.Activation.activate (.last n t) rs = .ok (Spec.Activation.activate (.last n t) rs) := by
  have hnd : (((enum 0 rs).reverse).map (·.1)).Nodup := by
    rw [List.map_reverse]; exact (List.reverse_perm _).nodup_iff.2 (enum_nodup 0 rs)
  have hsv : ScalarV (enum 0 rs).reverse := fun p hp => scalarV_enum h p (List.mem_reverse.1 hp)
  simp only [Op.Activation.activate, countLoop_spec n t _ 0 hnd hsv, Except.map, Nat.sub_zero,
    Spec.Activation.activate, selected, outcome]
  congr 2
  rw [← List.map_reverse, List.reverse_reverse, snds_map]
  rfl

/-- Highest: `take n` of the stable sort by (degree descending, index ascending) of the positive degrees -/
theorem op_eq_spec_highest (n : Nat) (rs : List (Rule α)) (h : Scalar rs) :
    Op.Activation.activate (.highest n) rs = .ok (Spec.Activation.activate (.highest n) rs) :=
  heap_spec X.neg betterHigh keyLt_neg (fun _ hnd hpos => strictOn_betterHigh hnd hpos) n rs h

/-- Lowest: `take n` of the stable sort by (degree ascending, index ascending) of the positive degrees -/
theorem op_eq_spec_lowest (n : Nat) (rs : List (Rule α)) (h : Scalar rs) :
    Op.Activation.activate (.lowest n) rs = .ok (Spec.Activation.activate (.lowest n) rs) :=
  heap_spec id betterLow keyLt_id (fun _ hnd hpos => strictOn_betterLow hnd hpos) n rs h

/-- Proportional: every rule with a positive degree, triggered with its degree divided by the sum -/
theorem op_eq_spec_proportional (rs : List (Rule α)) (h : Scalar rs) :
    Op.Activation.activate .proportional rs = .ok (Spec.Activation.activate .proportional rs) := by
  have hE := filter_nodup_fst (enum_nodup 0 rs) positive
  simp only [Op.Activation.activate, sumLoop_spec _ _ (scalarV_enum h), Except.map, snds_map, divLoop_eq]
  have := trigAll_spec (fun d => X.div d (degreeSum ((enum 0 rs).filter positive))) rs ((enum 0 rs).filter positive)
    (fun p hp => (List.mem_filter.1 hp).1) hE
    (fun p hp => by
      have := (List.mem_filter.1 hp).2
      simp only [positive, Bool.and_eq_true] at this; exact this.1)
  simp only [degreeSum] at this
  rw [this]
  rfl

/-- **Refinement.**  For scalar degrees every method's loop computes the specified outcome. -/
theorem op_eq_spec (m : Method α) (rs : List (Rule α)) (h : Scalar rs) :
    Op.Activation.activate m rs = .ok (Spec.Activation.activate m rs) := by
  cases m with
  | general => exact op_eq_spec_general rs
  | first n t => exact op_eq_spec_first n t rs h
  | last n t => exact op_eq_spec_last n t rs h
  | highest n => exact op_eq_spec_highest n rs h
  | lowest n => exact op_eq_spec_lowest n rs h
  | proportional => exact op_eq_spec_proportional rs h
  | threshold c t => exact op_eq_spec_threshold c t rs h

/-! ## batches are rejected by the vector-incapable methods -/

/-- any method other than General raises the value error as soon as one loaded rule has a vector degree -/
theorem vector_rejected (m : Method α) (hm : m ≠ .general) (rs : List (Rule α))
    (h : ∃ r ∈ rs, r.loaded = true ∧ r.vector = true) : Op.Activation.activate m rs = .error .value := by
  obtain ⟨r, hr, hl, hv⟩ := h
  obtain ⟨i, hi⟩ := exists_enum 0 hr
  have hex : ∃ p ∈ enum 0 rs, p.2.loaded = true ∧ p.2.vector = true := ⟨(i, r), hi, hl, hv⟩
  have hexr : ∃ p ∈ (enum 0 rs).reverse, p.2.loaded = true ∧ p.2.vector = true := ⟨(i, r), List.mem_reverse.2 hi, hl, hv⟩
  cases m with
  | general => exact absurd rfl hm
  | first n t => simp [Op.Activation.activate, countLoop_vector n t _ 0 hex, Except.map]
  | last n t => simp [Op.Activation.activate, countLoop_vector n t _ 0 hexr, Except.map]
  | highest n => simp [Op.Activation.activate, pushLoop_vector X.neg _ [] hex, Except.map]
  | lowest n => simp [Op.Activation.activate, pushLoop_vector id _ [] hex, Except.map]
  | proportional => simp [Op.Activation.activate, sumLoop_vector _ (.fin 0) hex, Except.map]
  | threshold c t => simp [Op.Activation.activate, thresholdLoop_vector c t _ hex, Except.map]

/-- General never raises it -/
theorem general_accepts_vectors (rs : List (Rule α)) : ∃ o, Op.Activation.activate .general rs = .ok o := ⟨_, rfl⟩

/-! ## laws of the specified outcome -/

/-- only loaded rules of the block are ever selected -/
theorem selected_sub (m : Method α) (rs : List (Rule α)) :
    ∀ p ∈ selected m rs, p ∈ enum 0 rs ∧ p.2.loaded = true := by
  have hpos : ∀ p : Visit α, positive p = true → p.2.loaded = true := by
    intro p hp; simp only [positive, Bool.and_eq_true] at hp; exact hp.1
  have hel : ∀ (t : X α) (p : Visit α), eligible t p = true → p.2.loaded = true := by
    intro t p hp; simp only [eligible, Bool.and_eq_true] at hp; exact hp.1.1
  intro p hp
  cases m with
  | general =>
    have := List.mem_filter.1 hp
    exact ⟨this.1, by simpa using this.2⟩
  | first n t =>
    have := List.mem_filter.1 (List.mem_of_mem_take hp)
    exact ⟨this.1, hel t p this.2⟩
  | last n t =>
    have := List.mem_filter.1 (List.mem_of_mem_take hp)
    exact ⟨List.mem_reverse.1 this.1, hel t p this.2⟩
  | highest n =>
    have := List.mem_filter.1 ((sortBy_perm betterHigh _).subset (List.mem_of_mem_take hp))
    exact ⟨this.1, hpos p this.2⟩
  | lowest n =>
    have := List.mem_filter.1 ((sortBy_perm betterLow _).subset (List.mem_of_mem_take hp))
    exact ⟨this.1, hpos p this.2⟩
  | proportional =>
    have := List.mem_filter.1 hp
    exact ⟨this.1, hpos p this.2⟩
  | threshold c t =>
    have := List.mem_filter.1 hp
    simp only [Bool.and_eq_true] at this
    exact ⟨this.1, this.2.1⟩

/-- **No other rule contributes.**  Every contribution to a fuzzy output stems from a rule of the block that is
    selected by the method, loaded and enabled, with the degree the method stores for it. -/
theorem contributions_subset (m : Method α) (rs : List (Rule α)) :
    ∀ f ∈ (Spec.Activation.activate m rs).fires, ∃ p ∈ selected m rs, p ∈ enum 0 rs ∧ p.2.loaded = true ∧
      p.2.enabled = true ∧ f = (p.1, stored m rs p.2) := by
  intro f hf
  simp only [Spec.Activation.activate, outcome, List.mem_map, List.mem_filter] at hf
  obtain ⟨p, ⟨hp, he⟩, rfl⟩ := hf
  exact ⟨p, hp, (selected_sub m rs p hp).1, (selected_sub m rs p hp).2, he, rfl⟩

/-- the state of the rule at position `i` after the activation -/
theorem state_at (m : Method α) (rs : List (Rule α)) (i : Nat) (r : Rule α) (h : rs[i]? = some r) :
    (Spec.Activation.activate m rs).rules[i]? =
      some (if isSelected (selected m rs) i then settle true (stored m rs r) r else settle false r.degree r) := by
  simp [Spec.Activation.activate, outcome, getElem?_enum, h]

/-- **Triggered only with a positive degree** – and only if selected, loaded and enabled. -/
theorem triggered_pos (m : Method α) (rs : List (Rule α)) (i : Nat) (r r' : Rule α) (h : rs[i]? = some r)
    (h' : (Spec.Activation.activate m rs).rules[i]? = some r') (ht : r'.triggered = true) :
    X.lt (.fin 0) r'.actDegree = true ∧ isSelected (selected m rs) i = true ∧ r.loaded = true ∧ r.enabled = true := by
  rw [state_at m rs i r h] at h'
  have h' := Option.some.inj h'
  subst h'
  rcases Bool.eq_false_or_eq_true r.loaded with hl | hl
  · rcases Bool.eq_false_or_eq_true (isSelected (selected m rs) i) with hs | hs
    · simp only [hs, if_true, settle, hl, Bool.true_and, Bool.and_eq_true] at ht ⊢
      exact ⟨ht.2, trivial, trivial, ht.1⟩
    · simp [hs, settle, hl] at ht
  · split at ht <;> simp [settle, hl, reset] at ht

/-- a selected, enabled rule is triggered exactly when its stored degree is positive; an unloaded rule is only
    deactivated; a loaded rule that is not selected keeps its degree and is not triggered -/
theorem state_cases (m : Method α) (rs : List (Rule α)) (i : Nat) (r : Rule α) (h : rs[i]? = some r) :
    (r.loaded = false → (Spec.Activation.activate m rs).rules[i]? = some (reset r)) ∧
    (r.loaded = true → isSelected (selected m rs) i = false →
      (Spec.Activation.activate m rs).rules[i]? = some { r with actDegree := r.degree, triggered := false }) ∧
    (r.loaded = true → isSelected (selected m rs) i = true →
      (Spec.Activation.activate m rs).rules[i]? =
        some { r with actDegree := stored m rs r, triggered := r.enabled && X.lt (.fin 0) (stored m rs r) }) := by
  rw [state_at m rs i r h]
  refine ⟨fun hl => ?_, fun hl hs => ?_, fun hl hs => ?_⟩
  · split <;> simp [settle, hl]
  · simp [hs, settle, hl]
  · simp [hs, settle, hl]

/-! ## corner cases of `n` -/

/-- `n = 0` selects nothing -/
theorem n_zero (t : X α) (rs : List (Rule α)) :
    selected (.first 0 t) rs = [] ∧ selected (.last 0 t) rs = [] ∧
    selected (.highest 0) rs = [] ∧ selected (.lowest 0 : Method α) rs = [] := by
  simp [selected]

/-- `n ≥` number of rules: every eligible rule is selected -/
theorem n_ge_len (n : Nat) (t : X α) (rs : List (Rule α)) (h : rs.length ≤ n) :
    selected (.first n t) rs = (enum 0 rs).filter (eligible t) ∧
    selected (.last n t) rs = (enum 0 rs).reverse.filter (eligible t) ∧
    selected (.highest n) rs = sortBy betterHigh ((enum 0 rs).filter positive) ∧
    selected (.lowest n) rs = sortBy betterLow ((enum 0 rs).filter positive) := by
  have hlen : ∀ f : Visit α → Bool, ((enum 0 rs).filter f).length ≤ n :=
    fun f => le_trans (List.length_filter_le _ _) (by rw [enum_length]; exact h)
  have hlenr : ((enum 0 rs).reverse.filter (eligible t)).length ≤ n :=
    le_trans (List.length_filter_le _ _) (by rw [List.length_reverse, enum_length]; exact h)
  refine ⟨List.take_of_length_le (hlen _), List.take_of_length_le hlenr, List.take_of_length_le ?_, List.take_of_length_le ?_⟩
  · rw [(sortBy_perm betterHigh _).length_eq]; exact hlen _
  · rw [(sortBy_perm betterLow _).length_eq]; exact hlen _

/-! ## First / Last: "the first n eligible rules" -/

/-- First(n, t) selects a rule iff it is loaded with degree `> 0` and `≥ t` and fewer than `n` such rules
    precede it in insertion order -/
theorem first_selected_iff (n : Nat) (t : X α) (rs : List (Rule α)) (p : Visit α) (hp : p ∈ enum 0 rs) :
    p ∈ selected (.first n t) rs ↔
      eligible t p = true ∧ (((enum 0 rs).take p.1).filter (eligible t)).length < n := by
  have hs := split_at (enum_at hp)
  have hnd : ((enum 0 rs).take p.1 ++ p :: (enum 0 rs).drop (p.1 + 1)).Nodup := by
    rw [← hs]; exact nodup_of_fst (enum_nodup 0 rs)
  have := mem_take_filter (eligible t) n _ _ p hnd
  rw [← hs] at this
  exact this

/-- Last(n, t): the same, counting the rules that follow it -/
theorem last_selected_iff (n : Nat) (t : X α) (rs : List (Rule α)) (p : Visit α) (hp : p ∈ enum 0 rs) :
    p ∈ selected (.last n t) rs ↔
      eligible t p = true ∧ (((enum 0 rs).drop (p.1 + 1)).filter (eligible t)).length < n := by
  have hs := split_at (enum_at hp)
  have hrev : (enum 0 rs).reverse = ((enum 0 rs).drop (p.1 + 1)).reverse ++ p :: ((enum 0 rs).take p.1).reverse := by
    conv_lhs => rw [hs]
    simp
  have hnd : (((enum 0 rs).drop (p.1 + 1)).reverse ++ p :: ((enum 0 rs).take p.1).reverse).Nodup := by
    rw [← hrev]; exact (List.reverse_perm _).nodup_iff.2 (nodup_of_fst (enum_nodup 0 rs))
  have := mem_take_filter (eligible t) n _ _ p hnd
  rw [← hrev] at this
  simp only [selected]
  rw [this, List.filter_reverse, List.length_reverse]

/-- at most `n` rules are selected by First / Last / Highest / Lowest -/
theorem at_most_n (n : Nat) (t : X α) (rs : List (Rule α)) :
    (selected (.first n t) rs).length ≤ n ∧ (selected (.last n t) rs).length ≤ n ∧
    (selected (.highest n) rs).length ≤ n ∧ (selected (.lowest n) rs).length ≤ n := by
  simp only [selected, List.length_take]
  exact ⟨Nat.min_le_left _ _, Nat.min_le_left _ _, Nat.min_le_left _ _, Nat.min_le_left _ _⟩

/-! ## Highest / Lowest: "the n best" -/

/-- Highest(n): the `n` rules with the largest positive degrees, ties broken by insertion order -/
theorem nbest_highest (n : Nat) (rs : List (Rule α)) :
    let E := (enum 0 rs).filter positive
    (selected (.highest n) rs ++ (sortBy betterHigh E).drop n).Perm E ∧
    (selected (.highest n) rs).Pairwise (fun a b => betterHigh a b = true) ∧
    (∀ a ∈ selected (.highest n) rs, ∀ b ∈ (sortBy betterHigh E).drop n, betterHigh a b = true) ∧
    (selected (.highest n) rs).length = min n E.length :=
  nbest betterHigh (fun _ hnd hpos => strictOn_betterHigh hnd hpos) n rs

/-- Lowest(n): the `n` rules with the smallest positive degrees, ties broken by insertion order -/
theorem nbest_lowest (n : Nat) (rs : List (Rule α)) :
    let E := (enum 0 rs).filter positive
    (selected (.lowest n) rs ++ (sortBy betterLow E).drop n).Perm E ∧
    (selected (.lowest n) rs).Pairwise (fun a b => betterLow a b = true) ∧
    (∀ a ∈ selected (.lowest n) rs, ∀ b ∈ (sortBy betterLow E).drop n, betterLow a b = true) ∧
    (selected (.lowest n) rs).length = min n E.length :=
  nbest betterLow (fun _ hnd hpos => strictOn_betterLow hnd hpos) n rs

/-! ## General, Threshold, Proportional -/

/-- General: every loaded enabled rule contributes once with its own degree (a zero degree included) -/
theorem general_all (rs : List (Rule α)) (p : Visit α) (hp : p ∈ enum 0 rs) :
    (p ∈ selected .general rs ↔ p.2.loaded = true) ∧
    (p.2.loaded = true → p.2.enabled = true → (p.1, p.2.degree) ∈ (Spec.Activation.activate .general rs).fires) := by
  refine ⟨by simp [selected, hp], fun hl he => ?_⟩
  simp only [Spec.Activation.activate, outcome, selected, stored, List.mem_map, List.mem_filter]
  exact ⟨p, ⟨⟨hp, hl⟩, he⟩, rfl⟩

/-- Threshold: exactly the loaded rules whose degree satisfies the comparison (degree 0 and NaN included:
    `0 <= t`, `NaN != t`) -/
theorem threshold_selected_iff (c : Comparator) (t : X α) (rs : List (Rule α)) (p : Visit α) (hp : p ∈ enum 0 rs) :
    p ∈ selected (.threshold c t) rs ↔ p.2.loaded = true ∧ c.eval p.2.degree t = true := by
  simp [selected, hp]

/-- Proportional selects exactly the loaded rules with a positive degree -/
theorem proportional_selected_iff (rs : List (Rule α)) (p : Visit α) (hp : p ∈ enum 0 rs) :
    p ∈ selected .proportional rs ↔ p.2.loaded = true ∧ X.lt (.fin 0) p.2.degree = true := by
  simp [selected, hp, positive]

/-- Proportional with finite degrees: every selected rule is triggered with `degree / Σ positive degrees`, and
    these normalised degrees sum to 1 -/
theorem proportional_sum_one (rs : List (Rule α)) (val : Visit α → α)
    (hfin : ∀ p ∈ selected .proportional rs, p.2.degree = .fin (val p)) (hne : selected .proportional rs ≠ []) :
    (∀ p ∈ selected .proportional rs,
      stored .proportional rs p.2 = .fin (val p / ((selected .proportional rs).map val).sum)) ∧
    ((selected .proportional rs).map (fun p => stored .proportional rs p.2)).foldl X.add (.fin 0) = .fin 1 := by
  simp only [selected] at hfin hne ⊢
  have hvpos : ∀ a ∈ ((enum 0 rs).filter positive).map val, 0 < a := by
    intro a ha
    obtain ⟨p, hp, rfl⟩ := List.mem_map.1 ha
    have h1 := (List.mem_filter.1 hp).2
    simp only [positive, Bool.and_eq_true, hfin p hp, X.lt_fin, decide_eq_true_eq] at h1
    exact h1.2
  have hS : 0 < (((enum 0 rs).filter positive).map val).sum := sum_pos_of_pos _ hvpos (by simpa using hne)
  have hsum : degreeSum ((enum 0 rs).filter positive) = .fin ((((enum 0 rs).filter positive).map val).sum) := by
    simp only [degreeSum]
    rw [foldl_add_fin _ val hfin 0]; simp
  have hst : ∀ p ∈ (enum 0 rs).filter positive,
      stored .proportional rs p.2 = .fin (val p / (((enum 0 rs).filter positive).map val).sum) := by
    intro p hp
    simp only [stored, hsum, hfin p hp]
    exact X.div_fin _ _ hS.ne'
  refine ⟨hst, ?_⟩
  have key : ∀ (l : List (Visit α)) (s : α), (∀ p ∈ l, p ∈ (enum 0 rs).filter positive) →
      (l.map (fun p => stored .proportional rs p.2)).foldl X.add (.fin s) =
        .fin (s + (l.map (fun p => val p / (((enum 0 rs).filter positive).map val).sum)).sum) := by
    intro l
    induction l with
    | nil => intro s _; simp
    | cons p ps ih =>
      intro s hsub
      simp only [List.map_cons, List.foldl_cons, hst p (hsub p (by simp)), X.add_fin, List.sum_cons]
      rw [ih _ (fun q hq => hsub q (by simp [hq]))]
      congr 1; exact add_assoc _ _ _
  rw [key _ 0 (fun p hp => hp)]
  have := sum_div (((enum 0 rs).filter positive).map val) ((((enum 0 rs).filter positive).map val).sum)
  simp only [List.map_map, Function.comp_def] at this
  rw [this, zero_add, div_self hS.ne']

/-! ## the comparator table of `Threshold` (regenerated from the code) -/

/-- every member of `Threshold.Comparator` in the live table is known to the model under its name and its
    symbol, consistently, and the six comparators are all there -/
theorem comparator_table :
    Gen.Tables.comparators.map (fun p => Comparator.ofName p.1) = Gen.Tables.comparators.map (fun p => Comparator.ofSymbol p.2) ∧
    Gen.Tables.comparators.map (fun p => Comparator.ofSymbol p.2) =
      [some .lt, some .le, some .eq, some .ne, some .ge, some .gt] := by decide

/-- the operator behind every symbol of the live table (evaluated by the tracer on the probes (0,1), (1,1), (1,0),
    (NaN,1)) agrees with the model's `Comparator.eval` -/
theorem comparator_semantics :
    Gen.Tables.comparatorTruth.map (fun p => (Comparator.ofSymbol p.1).map (fun c =>
      [c.eval (X.fin (0 : ℚ)) (.fin 1), c.eval (X.fin (1 : ℚ)) (.fin 1), c.eval (X.fin (1 : ℚ)) (.fin 0),
       c.eval (X.nan : X ℚ) (.fin 1)])) = Gen.Tables.comparatorTruth.map (fun p => some p.2) := by
  decide +kernel

/-! ## the outcome does not depend on what an earlier activation left in the rules -/

/-- **Stale state is irrelevant.**  Whatever `activation_degree` / `triggered` the rules carry from an earlier
    activation (also of rules that meanwhile were unloaded or disabled), the contributions and the new rule states
    are those of freshly deactivated rules. -/
theorem state_independent (m : Method α) (rs : List (Rule α)) :
    (Spec.Activation.activate m (rs.map reset)).fires = (Spec.Activation.activate m rs).fires ∧
    (Spec.Activation.activate m (rs.map reset)).rules = (Spec.Activation.activate m rs).rules := by
  simp only [Spec.Activation.activate, outcome, selected_reset, enum_map, List.map_map, List.filter_map]
  constructor
  · apply List.map_congr_left
    intro p _
    simp only [Function.comp_def, stored_reset]
  · apply List.map_congr_left
    intro p _
    have hsel : isSelected ((selected m rs).map (fun p => (p.1, reset p.2))) p.1 = isSelected (selected m rs) p.1 := by
      simp [isSelected, List.any_map, Function.comp_def]
    simp only [Function.comp_def, hsel, stored_reset, settle_reset]
    rfl

/-! ## the hypotheses are satisfiable by non-trivial blocks -/

/-- three loaded scalar rules with degrees 1/2, 0, 1/2 (a tie): First(1) takes rule 0 and leaves the eligible rule
    2 out; Highest(1) takes rule 0 (tie broken by insertion order); Lowest(2) triggers 0 then 2 -/
def demoBlock : List (Rule ℚ) :=
  [⟨true, true, false, .fin (1/2), .fin 0, false⟩, ⟨true, true, false, .fin 0, .fin 1, true⟩,
   ⟨true, false, false, .fin (1/2), .fin 0, false⟩]

example : Scalar demoBlock ∧ ((enum 0 demoBlock).filter (eligible (.fin 0))).length = 2 ∧
    (selected (.first 1 (.fin 0)) demoBlock).map (·.1) = [0] ∧ (selected (.last 1 (.fin 0)) demoBlock).map (·.1) = [2] ∧
    (selected (.highest 1) demoBlock).map (·.1) = [0] ∧ (selected (.lowest 2) demoBlock).map (·.1) = [0, 2] ∧
    (Spec.Activation.activate (.last 1 (.fin 0)) demoBlock).fires = [] ∧
    (Spec.Activation.activate .proportional demoBlock).fires = [(0, .fin (1/2))] := by
  refine ⟨by unfold Scalar; decide +kernel, by decide +kernel, by decide +kernel, by decide +kernel, by decide +kernel, by decide +kernel,
    by decide +kernel, by decide +kernel⟩

/-- the hypotheses of `proportional_sum_one` hold for it -/
example : ∃ val : Visit ℚ → ℚ, (∀ p ∈ selected .proportional demoBlock, p.2.degree = .fin (val p)) ∧
    selected .proportional demoBlock ≠ [] :=
  ⟨fun p => match p.2.degree with | .fin a => a | _ => 0, by decide +kernel, by decide +kernel⟩

/-- … and the hypothesis of `vector_rejected` -/
example : ∃ r ∈ ([⟨true, true, true, .fin 0, .fin 0, false⟩] : List (Rule ℚ)), r.loaded = true ∧ r.vector = true :=
  ⟨_, List.mem_singleton.2 rfl, rfl, rfl⟩

end C08
