import FlVerif.Op.Settings
import FlVerif.Gen.Tables
import FlVerif.Lemmas.CodeSettings
import FlVerif.Lemmas.CodeWave5XSet

/-! # C20 — Temporary settings are always restored

Theorems about `Op.Settings.run`, the model of nested `with fl.settings.context(...)` blocks with direct
assignments and exceptions at any point – for programs of ANY size and nesting depth. -/

namespace C20
open Op.Settings

/-- the settings a context can name are exactly the seven the property lists (regenerated from the signature of
    `Settings.context`) -/
theorem keys_table : Gen.Tables.settingsContextKeys =
    ["float_type", "decimals", "atol", "rtol", "alias", "logger", "factory_manager"] := by decide

/-- **Tie A (code → model).**  `Gen.Code.Settings_context_enter` / `Settings_context_exit` are regenerated from the
    source of `Settings.context` on every run (`fv/pylean.py`: the statements before the `yield` and the `finally`
    block; keys are parameter / attribute indices, `lift` embeds a store of the model, where no value is `None`).
    Entering from the store `s` leaves `setAll s (contextSettings kwargs)`; when the body of the `with` block ends -
    normally or by an exception - with the store `s'`, the `finally` block leaves
    `restore s' s (contextSettings kwargs)`: exactly the `ctx` case of `Op.Settings.run`. -/
theorem code_context (kwargs : List (Key × Option Val)) (s s' : Store) :
    ∃ σ, Gen.Code.Settings_context_enter.run kwargs (lift s) {} = .ok σ ∧
      σ.store = lift (setAll s (contextSettings kwargs)) ∧
      ∃ τ, Gen.Code.Settings_context_exit.run
          { context_settings := σ.context_settings, rollback_settings := σ.rollback_settings,
            key := σ.key, value := σ.value, store := lift s' } = .ok τ ∧
        τ.store = lift (restore s' s (contextSettings kwargs)) :=
  Op.Settings.code_context kwargs s s'

/-! ### the constructor and the lazy factory manager (fifth wave)

`Gen.Code.Settings_init`, `Settings_factory_manager_get` / `_set` are regenerated from `Settings.__init__` and the property
`Settings.factory_manager` of `library.py`.  An object is the map from attribute index to value, where - unlike in the
stores of `Op.Settings.run` - a value may be `None`: the field `_factory_manager` is `None` until the first access. -/

/-- **Tie A (code → model).**  `Settings.__init__` stores its seven arguments in the seven attributes (`init`): as they
    are given - also a `None` factory manager -, except that a `None` logger becomes the logger of the library. -/
theorem code_settingsInit (s0 args : OStore) (defaultLogger : Val) :
    ∃ σ, Gen.Code.Settings_init.run args defaultLogger s0 {} = .ok σ ∧ σ.store = init s0 args defaultLogger :=
  Op.Settings.code_settingsInit s0 args defaultLogger

/-- **Tie A (code → model).**  The getter of `settings.factory_manager` = `getManager`; the setter stores its argument.
    Hence: the first access of an object whose field is `None` creates the manager `fresh` and stores it
    (`getManager_first`), and every later access returns that same object and leaves the object as it is, whatever a
    new `FactoryManager()` would be (`getManager_again`). -/
theorem code_factoryManager (s : OStore) (fresh fresh' : Val) (v : Option Val) :
    (∃ σ, Gen.Code.Settings_factory_manager_get.run s fresh {} = .ok σ ∧
      σ.ret = some (some (getManager fresh s).1) ∧ σ.store = (getManager fresh s).2) ∧
    (∃ σ, Gen.Code.Settings_factory_manager_set.run s v {} = .ok σ ∧ σ.store = Py.Settings.setattr s fmKey v) ∧
    (s fmKey = none → getManager fresh s = (fresh, Py.Settings.setattr s fmKey (some fresh))) ∧
    getManager fresh' (getManager fresh s).2 = ((getManager fresh s).1, (getManager fresh s).2) :=
  ⟨Op.Settings.code_factoryManager s fresh, Op.Settings.code_setFactoryManager s v,
   Op.Settings.getManager_first fresh s, Op.Settings.getManager_again fresh fresh' s⟩

/-- **Tie A, `Settings.context` on any object.**  `code_context` above is stated for the stores of the model, where no
    attribute is `None`.  On an object whose attributes may be `None` the regenerated `enter` assigns the arguments that
    are not `None`, in order, and the regenerated `finally` block assigns to the same attributes what they held at entry. -/
theorem code_context_optional (kwargs : List (Nat × Option Nat)) (s s' : OStore) :
    ∃ σ, Gen.Code.Settings_context_enter.run kwargs s {} = .ok σ ∧
      σ.store = (namedO kwargs).foldl (fun t p => Py.Settings.setattr t p.1 p.2) s ∧
      ∃ τ, Gen.Code.Settings_context_exit.run
          { context_settings := σ.context_settings, rollback_settings := σ.rollback_settings,
            key := σ.key, value := σ.value, store := s' } = .ok τ ∧
        τ.store = (namedO kwargs).foldl (fun t p => Py.Settings.setattr t p.1 (s p.1)) s' :=
  Op.Settings.code_contextO kwargs s s'

/-- **A context that sets `factory_manager`** (the last keyword parameter; `pre` = the arguments before it) replaces the
    field while the body of the `with` block runs and **restores the previous FIELD on exit** - not the previous manager:
    when the manager had not been created at entry (`s fmKey = none`) the field is `None` again afterwards, and the next
    access creates a new manager (`code_factoryManager`). -/
theorem context_factoryManager (pre : List (Nat × Option Nat)) (m : Val) (s s' : OStore) :
    ∃ σ, Gen.Code.Settings_context_enter.run (pre ++ [(fmKey, some m)]) s {} = .ok σ ∧ σ.store fmKey = some m ∧
      ∃ τ, Gen.Code.Settings_context_exit.run
          { context_settings := σ.context_settings, rollback_settings := σ.rollback_settings,
            key := σ.key, value := σ.value, store := s' } = .ok τ ∧
        τ.store fmKey = s fmKey :=
  Op.Settings.context_factoryManager pre m s s'

theorem namedB_iff (kvs : List (Key × Val)) (k : Key) : namedB kvs k = true ↔ named kvs k := by
  unfold namedB named
  simp only [List.any_eq_true, beq_iff_eq]
  constructor
  · rintro ⟨⟨k', v⟩, hm, rfl⟩; exact ⟨v, hm⟩
  · rintro ⟨v, hm⟩; exact ⟨(k, v), hm, rfl⟩

theorem setAll_frame (s : Store) (kvs : List (Key × Val)) (k : Key) (h : ¬ named kvs k) :
    setAll s kvs k = s k := by
  induction kvs generalizing s with
  | nil => rfl
  | cons kv kvs ih =>
    obtain ⟨k', v'⟩ := kv
    have hne : k ≠ k' := by intro e; exact h ⟨v', by simp [e]⟩
    simp only [setAll]
    rw [ih _ (fun ⟨v, hv⟩ => h ⟨v, by simp [hv]⟩)]
    simp [upd, hne]

theorem restore_frame (s snap : Store) (kvs : List (Key × Val)) (k : Key) (h : ¬ named kvs k) :
    restore s snap kvs k = s k := by
  induction kvs generalizing s with
  | nil => rfl
  | cons kv kvs ih =>
    obtain ⟨k', v'⟩ := kv
    have hne : k ≠ k' := by intro e; exact h ⟨v', by simp [e]⟩
    simp only [restore]
    rw [ih _ (fun ⟨v, hv⟩ => h ⟨v, by simp [hv]⟩)]
    simp [upd, hne]

theorem restore_named (s snap : Store) (kvs : List (Key × Val)) (k : Key) (h : named kvs k) :
    restore s snap kvs k = snap k := by
  induction kvs generalizing s with
  | nil => obtain ⟨v, hv⟩ := h; cases hv
  | cons kv kvs ih =>
    obtain ⟨k', v'⟩ := kv
    simp only [restore]
    by_cases hk : named kvs k
    · exact ih _ hk
    · obtain ⟨v, hv⟩ := h
      rcases List.mem_cons.1 hv with heq | hmem
      · cases heq
        rw [restore_frame _ snap kvs k hk]; simp [upd]
      · exact absurd ⟨v, hmem⟩ hk

/-- inside the context every named setting has the requested value (distinct keyword arguments) -/
theorem setAll_named (s : Store) (kvs : List (Key × Val)) (k : Key) (v : Val) (h : (k, v) ∈ kvs)
    (hd : (kvs.map (·.1)).Nodup) : setAll s kvs k = v := by
  induction kvs generalizing s with
  | nil => cases h
  | cons kv kvs ih =>
    obtain ⟨k', v'⟩ := kv
    simp only [List.map_cons, List.nodup_cons] at hd
    simp only [setAll]
    rcases List.mem_cons.1 h with heq | hmem
    · cases heq
      rw [setAll_frame _ kvs k (fun ⟨w, hw⟩ => hd.1 (List.mem_map.2 ⟨(k, w), hw, rfl⟩))]
      simp [upd]
    · exact ih _ hmem hd.2

/-- a `None` argument names nothing -/
theorem none_not_named (kwargs : List (Key × Option Val)) (k : Key)
    (h : ∀ v, (k, some v) ∉ kwargs) : ¬ named (contextSettings kwargs) k := by
  rintro ⟨v, hv⟩
  simp only [contextSettings, List.mem_filterMap] at hv
  obtain ⟨⟨k', ov⟩, hm, he⟩ := hv
  cases ov with
  | none => simp at he
  | some w =>
    simp only [Option.map_some, Option.some.injEq, Prod.mk.injEq] at he
    obtain ⟨rfl, rfl⟩ := he
    exact h _ hm

/-- C20: a named setting has its previous value again when the context is left – normally or by an exception,
    whatever the body does (nested contexts, direct assignments, raise at any depth) -/
theorem ctx_restores_named (kwargs : List (Key × Option Val)) (body : Prog) (s : Store) (k : Key)
    (h : named (contextSettings kwargs) k) :
    (run (.ctx kwargs body .done) s).s k = s k := by
  simp only [run]
  split <;> exact restore_named _ s _ k h

/-- a setting that is not named is exactly what the body left in it -/
theorem ctx_frame (kwargs : List (Key × Option Val)) (body : Prog) (s : Store) (k : Key)
    (h : ¬ named (contextSettings kwargs) k) :
    (run (.ctx kwargs body .done) s).s k = (run body (setAll s (contextSettings kwargs))).s k := by
  simp only [run]
  split <;> exact restore_frame _ s _ k h

/-- an exception raised in the body keeps propagating after the rollback, and nothing after the block runs -/
theorem ctx_exception (kwargs : List (Key × Option Val)) (body rest : Prog) (s : Store)
    (h : (run body (setAll s (contextSettings kwargs))).exc = true) :
    (run (.ctx kwargs body rest) s).exc = true ∧
    (run (.ctx kwargs body rest) s).s = restore (run body (setAll s (contextSettings kwargs))).s s (contextSettings kwargs) := by
  simp only [run, h, if_true, and_self]

/-- general frame theorem: a key that the program never assigns outside a context naming it is unchanged at the
    end, for every nesting and whether or not an exception escapes -/
theorem frame_general (p : Prog) (s : Store) (k : Key) (h : k ∉ mods p) : (run p s).s k = s k := by
  induction p generalizing s with
  | done => rfl
  | raise => rfl
  | probe rest ih => simp only [run]; exact ih s (by simpa [mods] using h)
  | assign k' v rest ih =>
    simp only [mods, List.mem_cons, not_or] at h
    simp only [run]
    rw [ih _ h.2]; simp [upd, h.1]
  | ctx kwargs body rest ihb ihr =>
    simp only [mods, List.mem_append, List.mem_filter, not_or, not_and, Bool.not_eq_true', Bool.not_eq_false] at h
    have hs' : restore (run body (setAll s (contextSettings kwargs))).s s (contextSettings kwargs) k = s k := by
      by_cases hn : named (contextSettings kwargs) k
      · exact restore_named _ s _ k hn
      · rw [restore_frame _ s _ k hn]
        have hb : k ∉ mods body := by
          intro hm
          have := h.1 hm
          exact hn ((namedB_iff _ k).1 (by simpa using this))
        rw [ihb _ hb]; exact setAll_frame s _ k hn
    simp only [run]
    split
    · exact hs'
    · show (run rest _).s k = s k
      rw [ihr _ h.2]; exact hs'

/-- corollary ("for any nesting of contexts"): a program all of whose assignments happen inside contexts that name
    the assigned setting leaves EVERY setting as it found it -/
theorem closed_program_restores_everything (p : Prog) (s : Store) (h : mods p = []) (k : Key) :
    (run p s).s k = s k := frame_general p s k (by simp [h])

/-- helpers read the settings at call time: what a probe inside a context sees is the temporary store -/
theorem probe_sees_temporaries (kwargs : List (Key × Option Val)) (rest : Prog) (s : Store) :
    (run (.ctx kwargs (.probe .done) rest) s).log.head? = some (snapshot (setAll s (contextSettings kwargs))) := by
  simp [run]

/-! ## non-vacuity -/
example : (run (.ctx [(1, some 9), (4, none)] (.assign 1 5 (.ctx [(2, some 7)] .raise .done)) (.assign 3 1 .done))
    (fun _ => 0)).exc = true := by decide
example : mods (.ctx [(1, some 9)] (.assign 1 5 (.assign 2 6 .done)) .done) = [2] := by decide

end C20
