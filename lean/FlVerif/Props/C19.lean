import FlVerif.Op.IsReady
import FlVerif.Lemmas.Ready
import FlVerif.Lemmas.CodeReady

/-! # C19 — an engine reported ready can be processed

`Op.Ready.isReady` is `Engine.is_ready` as the code reads after the repair of F9 (three independent operator
tests per rule block); `Op.Ready.isReadyPinned` is the pinned nesting, kept for the record.
`Op.Ready.processError` is the first missing-operator `ValueError` on the path of `Engine.process()`.
Both run against the implementation in the correspondence (`fv/props/c19.py`).

Engines, blocks, rules and outputs are arbitrary lists – no bound on their number. -/

namespace C19
open Op.Ready

/-- **Tie A (code → model).**  `Gen.Code.Engine_is_ready` is regenerated from the source of `Engine.is_ready` on every
    run (`fv/pylean.py`; an attribute the check reads is the field of the abstract configuration, every
    `errors.append(f"…")` is the constructor of `Err` for that message, a component is named by its position).
    For every configuration and every list passed in (`none` = no list): the call succeeds, it appends exactly the
    errors of the model `isReady` in the same order, and it returns "the list is empty". -/
theorem code_isReady (e : Engine) (errors0 : Option (List Err)) :
    ∃ σ, Gen.Code.Engine_is_ready.run e errors0 {} = .ok σ ∧ σ.errors = errors0.getD [] ++ isReady e ∧
      σ.ret = some (errors0.getD [] ++ isReady e).isEmpty :=
  Op.Ready.code_isReady e errors0

/-- **Soundness.**  If the readiness check reports no error, every rule block has an activation method and the
    operators of the loaded rules are visible in their text (tokens separated by single blanks), then
    `process()` raises none of its configuration errors. -/
theorem ready_sound (e : Engine) (hr : isReady e = []) (ha : HasActivation e) (hs : Spaced e) :
    processError e = none := by
  unfold isReady isReadyWith at hr
  simp only [List.append_eq_nil_iff, List.flatMap_eq_nil_iff] at hr
  obtain ⟨⟨⟨⟨_, _⟩, hout⟩, _⟩, hblk⟩ := hr
  -- no block raises
  have hb : (enumFrom 0 e.blocks).findSome? (fun p => blockError p.1 p.2) = none := by
    rw [List.findSome?_eq_none_iff]
    rintro ⟨i, b⟩ hp
    have hbm : b ∈ e.blocks := mem_enumFrom_snd hp
    have hbe := hblk (i, b) hp
    simp only [blockErrors, List.append_eq_nil_iff] at hbe
    obtain ⟨⟨⟨_, hc⟩, hd⟩, _⟩ := hbe
    simp only [blockError]
    split
    · rfl
    · rw [if_neg (by simp [ha b hbm])]
      rw [List.findSome?_eq_none_iff]
      intro r hrm
      simp only [ruleError]
      split
      · rename_i hl
        obtain ⟨hsa, hso⟩ := hs b hbm r hrm hl
        have h1 : ¬ (r.treeAnd && !b.conj) = true := by
          intro h
          simp only [Bool.and_eq_true, Bool.not_eq_true'] at h
          have : conjNeeded b = true := List.any_eq_true.2 ⟨r, hrm, hsa h.1⟩
          simp [this, h.2] at hc
        have h2 : ¬ (r.treeOr && !b.disj) = true := by
          intro h
          simp only [Bool.and_eq_true, Bool.not_eq_true'] at h
          have : disjNeeded b = true := List.any_eq_true.2 ⟨r, hrm, hso h.1⟩
          simp [this, h.2] at hd
        rw [if_neg h1, if_neg h2]
      · rfl
  -- no output raises
  have ho : (enumFrom 0 e.outputs).findSome? (fun p => outputError e p.1 p.2) = none := by
    rw [List.findSome?_eq_none_iff]
    rintro ⟨i, o⟩ hp
    have hoi : e.outputs[i]? = some o := mem_enumFrom_zero hp
    have hoe := hout (i, o) hp
    simp only [outputErrors, List.append_eq_nil_iff] at hoe
    obtain ⟨⟨_, hdf⟩, hag⟩ := hoe
    simp only [outputError]
    split
    · rfl
    · split
      · rename_i hn; simp [hn] at hdf
      · rfl
      · rename_i hint
        have hag' : o.aggr = true := by
          cases h : o.aggr
          · simp [h, hint] at hag
          · rfl
        rw [if_neg (by simp [hag'])]
        split
        · rename_i ht
          exfalso
          simp only [termWithoutImplication, List.any_eq_true, Bool.and_eq_true, Bool.not_eq_true',
            contributes] at ht
          obtain ⟨b, hbm, hbi, r, hrm, ⟨⟨⟨_, hl⟩, _⟩, hc⟩⟩ := ht
          obtain ⟨j, hj⟩ := exists_enumFrom 0 hbm
          have hbe := hblk (j, b) hj
          simp only [blockErrors, List.append_eq_nil_iff] at hbe
          have hm : mamdani e.outputs r = true := by
            simp only [mamdani, List.any_eq_true]
            refine ⟨i, by simpa using hc, ?_⟩
            simp [isIntegral, hoi, hint]
          have : implNeeded e.outputs b = true := List.any_eq_true.2 ⟨r, hrm, by simp [hl, hm]⟩
          simp [this, hbi] at hbe
        · rfl
  simp only [processError, hb, ho]

/-- **Completeness.**  Every operator that a rule or an output variable needs and that is missing is in the
    error list: conjunction / disjunction for every rule whose text uses `and` / `or`, the implication for every
    loaded rule concluding on an output with an integral defuzzifier, the defuzzifier of every output, the
    aggregation of every output with an integral defuzzifier. -/
theorem ready_complete (e : Engine) :
    (∀ i b, (i, b) ∈ enumFrom 0 e.blocks → ∀ r ∈ b.rules,
      (r.textAnd = true → b.conj = false → Err.noConjunction i ∈ isReady e) ∧
      (r.textOr = true → b.disj = false → Err.noDisjunction i ∈ isReady e) ∧
      (r.loaded = true → mamdani e.outputs r = true → b.impl = false → Err.noImplication i ∈ isReady e)) ∧
    (∀ i o, (i, o) ∈ enumFrom 0 e.outputs →
      (o.defuzz = .none → Err.noDefuzzifier i ∈ isReady e) ∧
      (o.defuzz = .integral → o.aggr = false → Err.noAggregation i ∈ isReady e)) := by
  constructor
  · intro i b hp r hrm
    have key : ∀ x, x ∈ blockErrors e.outputs i b → x ∈ isReady e := by
      intro x hx
      simp only [isReady, isReadyWith, List.mem_append, List.mem_flatMap]
      exact Or.inr ⟨(i, b), hp, hx⟩
    refine ⟨fun ha hc => key _ ?_, fun ho hd => key _ ?_, fun hl hm hi => key _ ?_⟩
    · have : conjNeeded b = true := List.any_eq_true.2 ⟨r, hrm, ha⟩
      simp [blockErrors, this, hc]
    · have : disjNeeded b = true := List.any_eq_true.2 ⟨r, hrm, ho⟩
      simp [blockErrors, this, hd]
    · have : implNeeded e.outputs b = true := List.any_eq_true.2 ⟨r, hrm, by simp [hl, hm]⟩
      simp [blockErrors, this, hi]
  · intro i o hp
    have key : ∀ x, x ∈ outputErrors i o → x ∈ isReady e := by
      intro x hx
      simp only [isReady, isReadyWith, List.mem_append, List.mem_flatMap]
      exact Or.inl (Or.inl (Or.inr ⟨(i, o), hp, hx⟩))
    refine ⟨fun hn => key _ ?_, fun hint ha => key _ ?_⟩
    · simp [outputErrors, hn]
    · simp [outputErrors, hint, ha]

/-- completeness in terms of what `process()` trips over: under `Spaced`, every operator missing at a node of a
    loaded tree is reported -/
theorem ready_complete_tree (e : Engine) (hs : Spaced e) (i : Nat) (b : Block) (hp : (i, b) ∈ enumFrom 0 e.blocks)
    (r : Rule) (hrm : r ∈ b.rules) (hl : r.loaded = true) :
    (r.treeAnd = true → b.conj = false → Err.noConjunction i ∈ isReady e) ∧
    (r.treeOr = true → b.disj = false → Err.noDisjunction i ∈ isReady e) := by
  obtain ⟨h1, h2⟩ := hs b (mem_enumFrom_snd hp) r hrm hl
  obtain ⟨hc, hd, _⟩ := (ready_complete e).1 i b hp r hrm
  exact ⟨fun ha => hc (h1 ha), fun ho => hd (h2 ho)⟩

/-- the repaired check reports everything the pinned one reports -/
theorem pinned_subset (e : Engine) : ∀ x ∈ isReadyPinned e, x ∈ isReady e := by
  intro x hx
  simp only [isReadyPinned, isReady, isReadyWith, List.mem_append, List.mem_flatMap] at hx ⊢
  rcases hx with hx | ⟨p, hp, hx⟩
  · exact Or.inl hx
  · refine Or.inr ⟨p, hp, ?_⟩
    simp only [blockErrorsPinned, blockErrors, List.mem_append] at hx ⊢
    rcases hx with ((hx | hx) | hx)
    · exact Or.inl (Or.inl (Or.inl hx))
    · by_cases hc : (conjNeeded p.2 && !p.2.conj) = true
      · simp only [hc, if_true, List.mem_append] at hx
        rcases hx with hx | hx
        · exact Or.inl (Or.inl (Or.inr (by simpa [hc] using hx)))
        · exact Or.inl (Or.inr hx)
      · simp [hc] at hx
    · exact Or.inr hx

/-- F9: the witness – one loaded rule `if a is x or b is y then o is t`, conjunction present, disjunction missing -/
def f9Witness : Engine :=
  { inputs := 2,
    outputs := [{ enabled := true, hasTerms := true, defuzz := .integral, aggr := true }],
    blocks := [{ enabled := true, conj := true, disj := false, impl := true, act := true,
                 rules := [{ loaded := true, enabled := true, textAnd := false, textOr := true,
                             treeAnd := false, treeOr := true, concls := [0] }] }] }

/-- **F9.**  The pinned nesting is unsound: it reports the witness ready, `process()` raises for the missing
    disjunction; the repaired check reports it. -/
theorem pinned_unsound :
    isReadyPinned f9Witness = [] ∧ processError f9Witness = some (.disjunction 0) ∧
    isReady f9Witness = [Err.noDisjunction 0] := by decide

theorem f9Witness_hyps : HasActivation f9Witness ∧ Spaced f9Witness := by
  constructor
  · intro b hb; simp [f9Witness] at hb; subst hb; rfl
  · intro b hb r hr _
    simp [f9Witness] at hb; subst hb
    simp at hr; subst hr
    simp

/-- the hypotheses of `ready_sound` are satisfiable by a non-trivial engine (an `and` and an `or` rule, all
    operators present), and `Spaced` cannot be dropped: a tab-separated `and` hides the operator from the check -/
example : ∃ e : Engine, isReady e = [] ∧ (∀ b ∈ e.blocks, b.rules.length = 2) ∧ processError e = none :=
  ⟨{ inputs := 2, outputs := [{ enabled := true, hasTerms := true, defuzz := .integral, aggr := true }],
     blocks := [{ enabled := true, conj := true, disj := true, impl := true, act := true,
                  rules := [⟨true, true, true, false, true, false, [0]⟩, ⟨true, true, false, true, false, true, [0]⟩] }] },
   by decide, by decide, by decide⟩

example : ∃ e : Engine, isReady e = [] ∧ HasActivation e ∧ processError e = some (.conjunction 0) :=
  ⟨{ inputs := 2, outputs := [{ enabled := true, hasTerms := true, defuzz := .weighted, aggr := false }],
     blocks := [{ enabled := true, conj := false, disj := true, impl := false, act := true,
                  rules := [⟨true, true, false, false, true, false, [0]⟩] }] },
   by decide, by intro b hb; simp at hb; subst hb; rfl, by decide⟩

end C19
