import FlVerif.Op.Engine
import FlVerif.Props.C12
import FlVerif.Lemmas.CodeSessionInputs
import FlVerif.Lemmas.CodeEngineIOLookup
import FlVerif.Lemmas.CodeEngineIOValues
import FlVerif.Lemmas.CodeWave5XVar

/-! # C02 — Batch (vectorised) processing equals row-by-row float processing

Model: in batch mode every intermediate quantity of row `i` is the scalar computation on row `i`
(`Op.Engine.batchRows` – this is what NumPy's elementwise evaluation means; it is the part carried by the
correspondence run) and the only coupling between rows is the value cascade of `OutputVariable.defuzzify`, which
runs ONCE over the batch.  The theorems show that this single pass commits exactly what row-by-row calls commit,
for batches of ANY length and every lock-previous / default / lock-range setting. -/

namespace C02
variable {α : Type} [Field α] [LinearOrder α] [IsStrictOrderedRing α]
open Op Op.Engine X

/-- output values of a batch = output values of processing the rows one after another from the same starting state -/
theorem batch_eq_rows (ov : OutVar α) (hlo : isnan ov.lo = false) (hhi : isnan ov.hi = false)
    (col : List (X α)) (s : OutState α) : batchValues ov col s = rowsValues ov col s := by
  unfold batchValues rowsValues
  exact C12.batch_eq_rows (cascadeCfg ov) hlo hhi col s

/-- cutting a batch in two batches gives the same values (hence any way of cutting it) -/
theorem batch_split (ov : OutVar α) (hlo : isnan ov.lo = false) (hhi : isnan ov.hi = false)
    (xs ys : List (X α)) (hx : xs ≠ []) (s : OutState α) :
    batchValues ov (xs ++ ys) s = batchValues ov xs s ++ batchValues ov ys (commit (cascadeCfg ov) xs s) := by
  unfold batchValues
  exact C12.split_invariant (cascadeCfg ov) hlo hhi s xs ys hx

/-- fuzzy outputs, rule degrees and raw defuzzified values of row `i` of a batch are those of the scalar
    computation on row `i` – no other row is read -/
theorem batch_row_independent (F : Fn α) (e : EngineD α) (rows : List (List (X α))) (i : Nat) (h : i < rows.length) :
    (batchRows F e rows)[i]? = some (processRow F (setInputs e rows[i])) := by
  simp [batchRows, h]

/-- the batch has one result per row, in order -/
theorem batch_length (F : Fn α) (e : EngineD α) (rows : List (List (X α))) :
    (batchRows F e rows).length = rows.length := by simp [batchRows]

/-- a one-row batch is the scalar computation -/
theorem batch_singleton (F : Fn α) (e : EngineD α) (row : List (X α)) :
    batchRows F e [row] = [processRow F (setInputs e row)] := rfl

/-- row-by-row values have one value per row -/
theorem rows_length (ov : OutVar α) (col : List (X α)) (s : OutState α) : (rowsValues ov col s).length = col.length := by
  unfold rowsValues
  induction col generalizing s with
  | nil => rfl
  | cons x xs ih =>
    simp only [commitRows, List.length_append, List.length_cons]
    have h1 : (commit (cascadeCfg ov) [x] s).value.length = 1 := by
      unfold commit; cases (cascadeCfg ov).lockPrev <;> simp [fill] <;> split <;> simp
    rw [h1, ih]; omega

/-! ## Tie A (code → model) for the setter of `Engine.input_values` (way (ii) of feeding a batch) -/

/-- **Tie A (code → model).**  `Gen.Code.Engine_set_input_values` is regenerated from the source of the setter of
    `Engine.input_values` on every run (`fv/pylean.py`; the array is an `Op.Engine.NdArr`: 0-d, 1-D, 2-D with its
    entries, or a shape of three or more dimensions; `np.full`, `np.atleast_2d`, `.T`, `.shape[1]`, `[:, i]` are the
    operations of that type; `v.value = …` is the clipping setter).  For every list of input variables and every array
    it raises the exception class the model `Op.Engine.setInputValues` predicts (`RuntimeError` without input
    variables, `ValueError` for ≥ 3 dimensions or a wrong number of columns) and otherwise every input variable has
    received the batch of the model: a single value for all, a vector as one row (one column for a single variable),
    column `i` of a matrix. -/
theorem code_setInputValues (ins : List (InVar Rat)) (a : NdArr Rat) :
    match setInputValues ins a with
    | .error k => Gen.Code.Engine_set_input_values.run ins a {} = .error k.toPy
    | .ok cols => ∃ σ, Gen.Code.Engine_set_input_values.run ins a {} = .ok σ ∧ σ.cols = cols :=
  Op.Engine.code_setInputValues ins a

/-- a matrix with one column per input variable is accepted, and row `j` of what the input variables receive is the
    input vector of the scalar model on row `j` – the rows `batchRows` processes (`batch_row_independent`) -/
theorem input_values_rows (e : EngineD Rat) (rows : List (List (X Rat))) (hne : e.inputs ≠ [])
    (hwf : ∀ r ∈ rows, r.length = e.inputs.length) :
    ∃ cols, setInputValues e.inputs (.matrix e.inputs.length rows) = .ok cols ∧
      ∀ (j : Nat) (hj : j < rows.length),
        cols.map (fun col => col.getD j .nan) = (setInputs e rows[j]).inputs.map (·.value) :=
  Op.Engine.setInputValues_rows e rows hne hwf

/-! ## Tie A (code → model) for the getters `input_values`, `output_values`, `values` and the look-ups of `Engine`

The generated definitions `Gen.Code.Engine_*` are regenerated from the current source on every run.  A variable is the
pair of the variable and the value it holds (`VarValue`: a float / 0-d array or a 1-D array); the NumPy calls are the
operations of `Op/PyExtEngineIO.lean`.  Models: `Op/EngineIO.lean`. -/

/-- **Tie A.**  The getter of `Engine.input_values` (`tuple(v.value for v in …)`, `np.column_stack` – or `np.array` of
    the empty tuple): for every list of input variables with their values it raises `ValueError` exactly when the model
    `inputValues` does (values of different numbers of rows) and otherwise returns the model's array – the values side
    by side, the empty 1-D array without input variables. -/
theorem code_inputValues (ins : List (InVar Rat × VarValue Rat)) :
    match inputValues (ins.map (·.2)) with
    | .error e => Gen.Code.Engine_input_values.run ins {} = .error e.toPy
    | .ok a => ∃ σ, Gen.Code.Engine_input_values.run ins {} = .ok σ ∧ σ.ret = some a :=
  Op.Engine.code_inputValues ins

/-- **Tie A.**  The getter of `Engine.output_values` as repaired (F12, F17: `np.broadcast_arrays` of `np.atleast_1d` of
    the values of the input variables followed by those of the output variables, the output columns kept, then
    `np.column_stack`): `ValueError` exactly when the model `outputValues` says so (two values – of input or output
    variables – whose numbers of rows differ and are both other than 1), otherwise the model's array – every output
    value of a single row stretched to the rows of the batch. -/
theorem code_outputValues (ins : List (InVar Rat × VarValue Rat)) (outs : List (OutVar Rat × VarValue Rat)) :
    match outputValues (ins.map (·.2)) (outs.map (·.2)) with
    | .error e => Gen.Code.Engine_output_values.run ins outs {} = .error e.toPy
    | .ok a => ∃ σ, Gen.Code.Engine_output_values.run ins outs {} = .ok σ ∧ σ.ret = some a :=
  Op.Engine.code_outputValues ins outs

/-- the case F12 and F17 are about: every value – of an input variable or of an output variable – has the `n` rows of
    the batch (`batchValues` has one row per row of the batch) or a single row (an input given as a float; an output
    variable that is disabled or received no activations), and `n` is 1 or SOME value, of an input variable or of an
    output variable, has `n` rows: `output_values` is defined and has `n` rows, the single rows repeated -/
theorem outputValues_batch (ins outs : List (VarValue Rat)) (n : Nat) (hne : outs ≠ [])
    (hc : ∀ v ∈ ins ++ outs, v.rows.length = n ∨ v.rows.length = 1)
    (hn : n = 1 ∨ ∃ v ∈ ins ++ outs, v.rows.length = n) :
    outputValues ins outs = .ok (ofColumns n (outs.map (fun v => stretch n v.rows))) :=
  Op.Engine.outputValues_batch ins outs n hne hc hn

/-- **F17** (false before the repair, when the result had ONE row and `Engine.values` raised): NO output variable holds
    a value per row – all of them disabled, no rule block enabled, no rule concluding them – while the input variables
    hold the `n` rows of the batch: `output_values` has `n` rows, each made of the single values the output variables
    hold -/
theorem outputValues_no_activations (ins outs : List (VarValue Rat)) (n : Nat) (hne : outs ≠ []) (hi : ins ≠ [])
    (hins : ∀ v ∈ ins, v.rows.length = n) (houts : ∀ v ∈ outs, v.rows.length = 1) :
    outputValues ins outs = .ok (ofColumns n (outs.map (fun v => List.replicate n (v.rows.headD .nan)))) :=
  Op.Engine.outputValues_no_activations ins outs n hne hi hins houts

/-- … and then `Engine.values` does not raise either: the `n` rows of the inputs next to the `n` rows of the outputs -/
theorem allValues_no_activations (ins outs : List (VarValue Rat)) (n : Nat) (hne : outs ≠ []) (hi : ins ≠ [])
    (hins : ∀ v ∈ ins, v.rows.length = n) (houts : ∀ v ∈ outs, v.rows.length = 1) :
    ∃ rows, allValues ins outs = .ok (.matrix (ins.length + outs.length) rows) ∧ rows.length = n :=
  Op.Engine.allValues_no_activations ins outs n hne hi hins houts

/-- **Tie A.**  The getter of `Engine.values` (`np.hstack` of the two generated getters, input values first) = the
    model `allValues`; in particular it raises `ValueError` for an engine that has input variables but no output
    variables or the other way round (a 2-D array next to the empty 1-D array). -/
theorem code_values (ins : List (InVar Rat × VarValue Rat)) (outs : List (OutVar Rat × VarValue Rat)) :
    match allValues (ins.map (·.2)) (outs.map (·.2)) with
    | .error e => Gen.Code.Engine_values.run ins outs {} = .error e.toPy
    | .ok a => ∃ σ, Gen.Code.Engine_values.run ins outs {} = .ok σ ∧ σ.ret = some a :=
  Op.Engine.code_values ins outs

/-- **Tie A.**  The property `Engine.variables`: the input variables followed by the output variables. -/
theorem code_variables {V : Type} [Inhabited V] (ins outs : List V) :
    ∃ σ, Gen.Code.Engine_variables.run ins outs {} = .ok σ ∧ σ.ret = some (ins ++ outs) :=
  Op.Engine.code_variables ins outs

/-- **Tie A.**  `Engine.variable(name)`: the first variable of that name among the input variables followed by the
    output variables, `ValueError` when there is none (for every type of component and every `name` attribute). -/
theorem code_variable {V : Type} [Inhabited V] (nameOf : V → String) (ins outs : List V) (name : String) :
    match lookupVariable nameOf ins outs name with
    | .error e => Gen.Code.Engine_variable.run nameOf ins outs name {} = .error e.toPy
    | .ok x => ∃ σ, Gen.Code.Engine_variable.run nameOf ins outs name {} = .ok σ ∧ σ.ret = some x :=
  Op.Engine.code_variable nameOf ins outs name

/-- **Tie A.**  `Engine.input_variable(name_or_index)` = the model `lookup`: an `int` indexes the list like Python
    (negative from the end, `IndexError`), a name finds the first variable of that name (`ValueError`). -/
theorem code_inputVariable {V : Type} [Inhabited V] (nameOf : V → String) (comps : List V) (k : Key) :
    match lookup nameOf comps k with
    | .error e => Gen.Code.Engine_input_variable.run nameOf comps k {} = .error e.toPy
    | .ok x => ∃ σ, Gen.Code.Engine_input_variable.run nameOf comps k {} = .ok σ ∧ σ.ret = some x :=
  Op.Engine.code_inputVariable nameOf comps k

/-- **Tie A.**  `Variable.term(name_or_index)` (`variable.py`) = the same model `lookup` on the terms of the variable: an
    `int` (also a `bool`) indexes the list like Python - negative from the end, `IndexError` outside -, a name finds
    the FIRST term of that name, `ValueError` when there is none. -/
theorem code_variableTerm {V : Type} [Inhabited V] (nameOf : V → String) (terms : List V) (k : Key) :
    match lookup nameOf terms k with
    | .error e => Gen.Code.Variable_term.run nameOf terms k {} = .error e.toPy
    | .ok x => ∃ σ, Gen.Code.Variable_term.run nameOf terms k {} = .ok σ ∧ σ.ret = some x :=
  Op.Engine.code_variableTerm nameOf terms k

/-- **Tie A.**  `Engine.output_variable(name_or_index)` = the model `lookup`. -/
theorem code_outputVariable {V : Type} [Inhabited V] (nameOf : V → String) (comps : List V) (k : Key) :
    match lookup nameOf comps k with
    | .error e => Gen.Code.Engine_output_variable.run nameOf comps k {} = .error e.toPy
    | .ok x => ∃ σ, Gen.Code.Engine_output_variable.run nameOf comps k {} = .ok σ ∧ σ.ret = some x :=
  Op.Engine.code_outputVariable nameOf comps k

/-- **Tie A.**  `Engine.rule_block(name_or_index)` = the model `lookup`. -/
theorem code_ruleBlock {V : Type} [Inhabited V] (nameOf : V → String) (comps : List V) (k : Key) :
    match lookup nameOf comps k with
    | .error e => Gen.Code.Engine_rule_block.run nameOf comps k {} = .error e.toPy
    | .ok x => ∃ σ, Gen.Code.Engine_rule_block.run nameOf comps k {} = .ok σ ∧ σ.ret = some x :=
  Op.Engine.code_ruleBlock nameOf comps k

/-- **Tie A.**  `engine[item]` (`Engine.__getitem__`: the three generated look-ups in a list, `try: return
    component(item) except: pass`) = the model `getItem`: the first of input variable / output variable / rule block
    whose look-up does not raise – whatever it raises – and `ValueError` when all three raise. -/
theorem code_engineLookup (ins : List (InVar Rat)) (outs : List (OutVar Rat)) (bls : List (String × Block Rat)) (k : Key) :
    match getItem ins outs bls k with
    | .error e => Gen.Code.Engine_getitem.run ins outs bls k {} = .error e.toPy
    | .ok c => ∃ σ, Gen.Code.Engine_getitem.run ins outs bls k {} = .ok σ ∧ σ.ret = some c :=
  Op.Engine.code_getItem ins outs bls k

/-- an input variable shadows an output variable and a rule block of the same name; an index that the input variables
    do not have falls through to the output variables -/
example : getItem (α := ℚ) [⟨"a", true, .nan, [], .ninf, .pinf, false⟩] [] [("a", ⟨true, none, none, none, .general, []⟩)] (.name "a")
    = .ok (.input ⟨"a", true, .nan, [], .ninf, .pinf, false⟩) := rfl
example : getItem (α := ℚ) [] [] [("b", ⟨true, none, none, none, .general, []⟩)] (.index (-1))
    = .ok (.block ("b", ⟨true, none, none, none, .general, []⟩)) := rfl
example : (match getItem (α := ℚ) [] [] [] (.index 0) with | .error .value => true | _ => false) = true := rfl
/-- `Engine.values` of an engine with input variables and no output variables raises -/
example : (match allValues (α := ℚ) [.scalar .nan] [] with | .error .value => true | _ => false) = true := by decide

/-- F17, non-vacuity: a batch of three rows on one input variable, two output variables that hold a single NaN / a single
    default value: three rows -/
example : (match outputValues (α := ℚ) [.vector [.fin 1, .fin 2, .fin 3]] [.scalar .nan, .vector [.fin (1/2)]] with
    | .ok (.matrix c rows) => decide (c = 2 ∧ rows = [[.nan, .fin (1/2)], [.nan, .fin (1/2)], [.nan, .fin (1/2)]])
    | _ => false) = true := by decide +kernel
example : (match allValues (α := ℚ) [.vector [.fin 1, .fin 2, .fin 3]] [.scalar .nan] with
    | .ok (.matrix c rows) => decide (c = 2 ∧ rows = [[.fin 1, .nan], [.fin 2, .nan], [.fin 3, .nan]])
    | _ => false) = true := by decide +kernel
/-- the hypotheses of `outputValues_no_activations` can be met -/
example : outputValues (α := ℚ) [.vector [.fin 1, .fin 2, .fin 3]] [.scalar .nan, .vector [.fin (1/2)]]
    = .ok (ofColumns 3 [List.replicate 3 .nan, List.replicate 3 (.fin (1/2))]) :=
  outputValues_no_activations _ _ 3 (by simp) (by simp) (by simp [VarValue.rows]) (by simp [VarValue.rows])
/-- values that do not broadcast raise whichever kind of variable holds them: two rows on the input, three on the output -/
example : (match outputValues (α := ℚ) [.vector [.fin 1, .fin 2]] [.vector [.nan, .nan, .nan]] with
    | .error .value => true | _ => false) = true := by decide +kernel

/-! ## non-vacuity -/
def exampleOut : OutVar ℚ :=
  { name := "o", enabled := true, lo := .fin 0, hi := .fin 1, lockRange := true, lockPrev := true, dflt := .nan,
    aggregation := none, defuzz := .missing, terms := [] }
example : batchValues exampleOut [.fin (1/2), .nan, .fin 3, .nan] { value := [.nan], previous := .nan }
    = [.fin (1/2), .fin (1/2), .fin 1, .fin 1] := by decide +kernel

end C02
