import FlVerif.Op.Engine
import FlVerif.Props.C12
import FlVerif.Lemmas.CodeSessionInputs

/-! # C02 — Batch (vectorised) processing equals row-by-row float processing

Model: in batch mode every intermediate quantity of row `i` is the scalar computation on row `i`
(`Op.Engine.batchRows` – this is what NumPy's elementwise evaluation means; it is the part carried by the
correspondence run) and the only coupling between rows is the value cascade of `OutputVariable.defuzzify`, which
runs ONCE over the batch.  The theorems show that this single pass commits exactly what row-by-row calls commit,
for batches of ANY length and every lock-previous / default / lock-range setting. -/

namespace C02
variable {α : Type} [Field α] [LinearOrder α] [IsStrictOrderedRing α]
open Op Op.Engine X

/-- output values of a batch = output values of processing the rows one after another from the same starting state -/
theorem batch_eq_rows (ov : OutVar α) (hlo : isnan ov.lo = false) (hhi : isnan ov.hi = false)
    (col : List (X α)) (s : OutState α) : batchValues ov col s = rowsValues ov col s := by
  unfold batchValues rowsValues
  exact C12.batch_eq_rows (cascadeCfg ov) hlo hhi col s

/-- cutting a batch in two batches gives the same values (hence any way of cutting it) -/
theorem batch_split (ov : OutVar α) (hlo : isnan ov.lo = false) (hhi : isnan ov.hi = false)
    (xs ys : List (X α)) (hx : xs ≠ []) (s : OutState α) :
    batchValues ov (xs ++ ys) s = batchValues ov xs s ++ batchValues ov ys (commit (cascadeCfg ov) xs s) := by
  unfold batchValues
  exact C12.split_invariant (cascadeCfg ov) hlo hhi s xs ys hx

/-- fuzzy outputs, rule degrees and raw defuzzified values of row `i` of a batch are those of the scalar
    computation on row `i` – no other row is read -/
theorem batch_row_independent (F : Fn α) (e : EngineD α) (rows : List (List (X α))) (i : Nat) (h : i < rows.length) :
    (batchRows F e rows)[i]? = some (processRow F (setInputs e rows[i])) := by
  simp [batchRows, h]

/-- the batch has one result per row, in order -/
theorem batch_length (F : Fn α) (e : EngineD α) (rows : List (List (X α))) :
    (batchRows F e rows).length = rows.length := by simp [batchRows]

/-- a one-row batch is the scalar computation -/
theorem batch_singleton (F : Fn α) (e : EngineD α) (row : List (X α)) :
    batchRows F e [row] = [processRow F (setInputs e row)] := rfl

/-- row-by-row values have one value per row -/
theorem rows_length (ov : OutVar α) (col : List (X α)) (s : OutState α) : (rowsValues ov col s).length = col.length := by
  unfold rowsValues
  induction col generalizing s with
  | nil => rfl
  | cons x xs ih =>
    simp only [commitRows, List.length_append, List.length_cons]
    have h1 : (commit (cascadeCfg ov) [x] s).value.length = 1 := by
      unfold commit; cases (cascadeCfg ov).lockPrev <;> simp [fill] <;> split <;> simp
    rw [h1, ih]; omega

/-! ## Tie A (code → model) for the setter of `Engine.input_values` (way (ii) of feeding a batch) -/

/-- **Tie A (code → model).**  `Gen.Code.Engine_set_input_values` is regenerated from the source of the setter of
    `Engine.input_values` on every run (`fv/pylean.py`; the array is an `Op.Engine.NdArr`: 0-d, 1-D, 2-D with its
    entries, or a shape of three or more dimensions; `np.full`, `np.atleast_2d`, `.T`, `.shape[1]`, `[:, i]` are the
    operations of that type; `v.value = …` is the clipping setter).  For every list of input variables and every array
    it raises the exception class the model `Op.Engine.setInputValues` predicts (`RuntimeError` without input
    variables, `ValueError` for ≥ 3 dimensions or a wrong number of columns) and otherwise every input variable has
    received the batch of the model: a single value for all, a vector as one row (one column for a single variable),
    column `i` of a matrix. -/
theorem code_setInputValues (ins : List (InVar Rat)) (a : NdArr Rat) :
    match setInputValues ins a with
    | .error k => Gen.Code.Engine_set_input_values.run ins a {} = .error k.toPy
    | .ok cols => ∃ σ, Gen.Code.Engine_set_input_values.run ins a {} = .ok σ ∧ σ.cols = cols :=
  Op.Engine.code_setInputValues ins a

/-- a matrix with one column per input variable is accepted, and row `j` of what the input variables receive is the
    input vector of the scalar model on row `j` – the rows `batchRows` processes (`batch_row_independent`) -/
theorem input_values_rows (e : EngineD Rat) (rows : List (List (X Rat))) (hne : e.inputs ≠ [])
    (hwf : ∀ r ∈ rows, r.length = e.inputs.length) :
    ∃ cols, setInputValues e.inputs (.matrix e.inputs.length rows) = .ok cols ∧
      ∀ (j : Nat) (hj : j < rows.length),
        cols.map (fun col => col.getD j .nan) = (setInputs e rows[j]).inputs.map (·.value) :=
  Op.Engine.setInputValues_rows e rows hne hwf

/-! ## non-vacuity -/
def exampleOut : OutVar ℚ :=
  { name := "o", enabled := true, lo := .fin 0, hi := .fin 1, lockRange := true, lockPrev := true, dflt := .nan,
    aggregation := none, defuzz := .missing, terms := [] }
example : batchValues exampleOut [.fin (1/2), .nan, .fin 3, .nan] { value := [.nan], previous := .nan }
    = [.fin (1/2), .fin (1/2), .fin 1, .fin 1] := by decide +kernel

end C02
