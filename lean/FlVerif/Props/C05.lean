import FlVerif.Spec.Hedge
import FlVerif.Base.FnReal
import FlVerif.Lemmas.Tie
import FlVerif.Gen.HedgeGen
import Mathlib.Tactic.Positivity
import Mathlib.Tactic.NormNum

/-! # C05 — Hedges compute their formulas and keep degrees in [0,1]

`Gen.Hedge.*` is regenerated from `fuzzylite/hedge.py` on every run; `Spec.hedge` are the docstring equations.
`very / not / extremely / any` are treated over every linearly ordered field; `somewhat / seldom` (square roots)
over ℝ with `Fn.real`. -/

namespace C05
open X Spec

section generic
variable {α : Type} [Field α] [LinearOrder α] [IsStrictOrderedRing α]

/-! ## the code computes the documented formula (any finite x; square roots for x where they are defined) -/

theorem gen_any (F : Fn α) (x : α) : Gen.Hedge.any F (fin x) = fin (hedge F .any x) := by
  unfold Gen.Hedge.any hedge; rfl
theorem gen_very (F : Fn α) (x : α) : Gen.Hedge.very F (fin x) = fin (hedge F .very x) := by
  unfold Gen.Hedge.very hedge; tie_fin
theorem gen_not (F : Fn α) (x : α) : Gen.Hedge.not F (fin x) = fin (hedge F .not x) := by
  unfold Gen.Hedge.not hedge; tie_fin
theorem gen_extremely (F : Fn α) (x : α) : Gen.Hedge.extremely F (fin x) = fin (hedge F .extremely x) := by
  unfold Gen.Hedge.extremely hedge; tie_fin
theorem gen_somewhat (F : Fn α) {x : α} (hx : 0 ≤ x) : Gen.Hedge.somewhat F (fin x) = fin (hedge F .somewhat x) := by
  unfold Gen.Hedge.somewhat hedge; exact sqrt_fin F x hx
theorem gen_seldom (F : Fn α) {x : α} (hx : U x) : Gen.Hedge.seldom F (fin x) = fin (hedge F .seldom x) := by
  unfold Gen.Hedge.seldom hedge
  have h1 : (0 : α) ≤ 1 / 2 * x := mul_nonneg (by norm_num) hx.1
  have h2 : (0 : α) ≤ 1 / 2 * (1 - x) := mul_nonneg (by norm_num) (sub_nonneg.2 hx.2)
  simp only [mul_fin, sub_fin, le_fin, sqrt_fin F _ h1, sqrt_fin F _ h2, sel_decide]
  congr 1; split_ifs <;> congr 2 <;> ring

/-- NaN in, NaN out (every hedge except `any`, which maps everything to 1) -/
theorem gen_nan (F : Fn α) :
    Gen.Hedge.very F (nan : X α) = nan ∧ Gen.Hedge.not F (nan : X α) = nan ∧
    Gen.Hedge.extremely F (nan : X α) = nan ∧ Gen.Hedge.somewhat F (nan : X α) = nan ∧
    Gen.Hedge.seldom F (nan : X α) = nan ∧ Gen.Hedge.any F (nan : X α) = fin 1 := by
  refine ⟨rfl, rfl, ?_, rfl, ?_, rfl⟩
  · simp [Gen.Hedge.extremely, X.sel, X.sub, X.add, X.neg, X.sq, X.mul]
  · simp [Gen.Hedge.seldom, X.sel, X.sub, X.add, X.neg, X.mul, X.sqrt]

theorem registered_hedges : Gen.hedgeNames.map Hedge.ofName = Hedge.all.map some := by decide

/-! ## laws over every ordered field: any, not, very, extremely -/

theorem any_const (F : Fn α) (x : α) : hedge F .any x = 1 := rfl
theorem not_range (F : Fn α) {x : α} (h : U x) : U (hedge F .not x) :=
  ⟨sub_nonneg.2 h.2, by unfold hedge; linarith [h.1]⟩
theorem not_swaps (F : Fn α) : hedge F .not 0 = 1 ∧ hedge F .not 1 = 0 := by unfold hedge; constructor <;> ring
theorem not_involution (F : Fn α) (x : α) : hedge F .not (hedge F .not x) = x := by unfold hedge; ring
theorem not_antitone (F : Fn α) {x y : α} (h : x ≤ y) : hedge F .not y ≤ hedge F .not x := by
  unfold hedge; linarith

theorem very_range (F : Fn α) {x : α} (h : U x) : U (hedge F .very x) :=
  ⟨by unfold hedge; positivity, by unfold hedge; nlinarith [h.1, h.2]⟩
theorem very_fixes (F : Fn α) : hedge F .very 0 = 0 ∧ hedge F .very 1 = 1 := by unfold hedge; constructor <;> ring
theorem very_mono (F : Fn α) {x y : α} (hx : U x) (h : x ≤ y) : hedge F .very x ≤ hedge F .very y := by
  unfold hedge; nlinarith [hx.1]
theorem very_le_self (F : Fn α) {x : α} (h : U x) : hedge F .very x ≤ x := by unfold hedge; nlinarith [h.1, h.2]

theorem extremely_range (F : Fn α) {x : α} (h : U x) : U (hedge F .extremely x) := by
  simp only [hedge]
  split_ifs with hx
  · exact ⟨by positivity, by nlinarith [h.1]⟩
  · simp only [not_le] at hx
    exact ⟨by nlinarith [h.2], by nlinarith [sq_nonneg (1 - x)]⟩
theorem extremely_fixes (F : Fn α) : hedge F .extremely 0 = 0 ∧ hedge F .extremely 1 = 1 := by
  simp only [hedge]; constructor
  · norm_num
  · have : ¬ ((1 : α) ≤ 1 / 2) := by norm_num
    simp only [if_neg this]; ring
/-- the two pieces agree at the branch point -/
theorem extremely_half (F : Fn α) : hedge F .extremely (1/2) = 1/2 ∧ 1 - 2 * (1 - (1/2 : α)) ^ 2 = 1/2 := by
  unfold hedge; constructor <;> norm_num
theorem extremely_mono (F : Fn α) {x y : α} (hx : U x) (hy : U y) (h : x ≤ y) :
    hedge F .extremely x ≤ hedge F .extremely y := by
  simp only [hedge]
  split_ifs with h1 h2 h2
  · nlinarith [hx.1]
  · simp only [not_le] at h2; nlinarith [hx.1, hy.2]
  · exact absurd (le_trans h h2) h1
  · simp only [not_le] at h1 h2; nlinarith [hy.2]

end generic

/-! ## laws over ℝ: somewhat, seldom, and the inverse pairs -/

section real
open Real
local notation "F" => Fn.real

theorem somewhat_range {x : ℝ} (h : U x) : U (hedge F .somewhat x) :=
  ⟨Real.sqrt_nonneg x, by have := Real.sqrt_le_sqrt h.2; simpa [hedge, Fn.real] using this⟩
theorem somewhat_fixes : hedge F .somewhat 0 = 0 ∧ hedge F .somewhat 1 = 1 := by
  simp [hedge, Fn.real]
theorem somewhat_mono {x y : ℝ} (h : x ≤ y) : hedge F .somewhat x ≤ hedge F .somewhat y :=
  Real.sqrt_le_sqrt h
theorem self_le_somewhat {x : ℝ} (h : U x) : x ≤ hedge F .somewhat x := by
  simp only [hedge, Fn.real]
  have h1 : √x * √x = x := Real.mul_self_sqrt h.1
  have h2 : 0 ≤ √x := Real.sqrt_nonneg x
  have h3 : √x ≤ 1 := by have := Real.sqrt_le_sqrt h.2; simpa using this
  nlinarith
/-- `very x ≤ x ≤ somewhat x` -/
theorem very_le_self_le_somewhat {x : ℝ} (h : U x) : hedge F .very x ≤ x ∧ x ≤ hedge F .somewhat x :=
  ⟨very_le_self F h, self_le_somewhat h⟩
theorem somewhat_very {x : ℝ} (h : U x) : hedge F .somewhat (hedge F .very x) = x := by
  simp only [hedge, Fn.real]; exact Real.sqrt_sq h.1
theorem very_somewhat {x : ℝ} (h : U x) : hedge F .very (hedge F .somewhat x) = x := by
  simp only [hedge, Fn.real]; exact Real.sq_sqrt h.1

theorem sqrt_quarter : √(1/4 : ℝ) = 1/2 := by
  rw [show (1/4 : ℝ) = (1/2) ^ 2 by norm_num]; exact Real.sqrt_sq (by norm_num)

theorem seldom_range {x : ℝ} (h : U x) : U (hedge F .seldom x) := by
  simp only [hedge, Fn.real]
  split_ifs with hx
  · refine ⟨Real.sqrt_nonneg _, ?_⟩
    have : √(x / 2) ≤ √(1/4) := Real.sqrt_le_sqrt (by linarith)
    rw [sqrt_quarter] at this; linarith
  · simp only [not_le] at hx
    have h0 : 0 ≤ √((1 - x) / 2) := Real.sqrt_nonneg _
    have : √((1 - x) / 2) ≤ √(1/4) := Real.sqrt_le_sqrt (by linarith)
    rw [sqrt_quarter] at this
    exact ⟨by linarith, by linarith⟩
theorem seldom_fixes : hedge F .seldom 0 = 0 ∧ hedge F .seldom 1 = 1 := by
  simp only [hedge, Fn.real]; constructor
  · norm_num
  · have : ¬ ((1 : ℝ) ≤ 1 / 2) := by norm_num
    simp only [if_neg this]; norm_num
theorem seldom_mono {x y : ℝ} (hx : U x) (hy : U y) (h : x ≤ y) : hedge F .seldom x ≤ hedge F .seldom y := by
  simp only [hedge, Fn.real]
  split_ifs with h1 h2 h2
  · exact Real.sqrt_le_sqrt (by linarith)
  · simp only [not_le] at h2
    have a1 : √(x / 2) ≤ √(1/4) := Real.sqrt_le_sqrt (by linarith)
    have a2 : √((1 - y) / 2) ≤ √(1/4) := Real.sqrt_le_sqrt (by linarith)
    rw [sqrt_quarter] at a1 a2; linarith
  · exact absurd (le_trans h h2) h1
  · have : √((1 - y) / 2) ≤ √((1 - x) / 2) := Real.sqrt_le_sqrt (by linarith)
    linarith

theorem seldom_extremely {x : ℝ} (h : U x) : hedge F .seldom (hedge F .extremely x) = x := by
  simp only [hedge, Fn.real]
  by_cases hx : x ≤ 1/2
  · have h1 : 2 * x ^ 2 ≤ 1/2 := by nlinarith [h.1]
    simp only [if_pos hx, if_pos h1]
    have : 2 * x ^ 2 / 2 = x ^ 2 := by ring
    rw [this, Real.sqrt_sq h.1]
  · have hx' : 1/2 < x := not_le.mp hx
    have h1 : ¬ (1 - 2 * (1 - x) ^ 2 ≤ 1/2) := by
      intro hh; nlinarith [h.2]
    simp only [if_neg hx, if_neg h1]
    have : (1 - (1 - 2 * (1 - x) ^ 2)) / 2 = (1 - x) ^ 2 := by ring
    rw [this, Real.sqrt_sq (by linarith [h.2])]; ring

theorem extremely_seldom {x : ℝ} (h : U x) : hedge F .extremely (hedge F .seldom x) = x := by
  simp only [hedge, Fn.real]
  by_cases hx : x ≤ 1/2
  · have hnn : (0:ℝ) ≤ x / 2 := by linarith [h.1]
    have h1 : √(x / 2) ≤ 1/2 := by
      have : √(x / 2) ≤ √(1/4) := Real.sqrt_le_sqrt (by linarith)
      rw [sqrt_quarter] at this; exact this
    simp only [if_pos hx, if_pos h1, Real.sq_sqrt hnn]; ring
  · have hx' : 1/2 < x := not_le.mp hx
    have hnn : (0:ℝ) ≤ (1 - x) / 2 := by linarith [h.2]
    have hlt : √((1 - x) / 2) < 1/2 := by
      have : √((1 - x) / 2) < √(1/4) := Real.sqrt_lt_sqrt hnn (by linarith)
      rw [sqrt_quarter] at this; exact this
    have h1 : ¬ (1 - √((1 - x) / 2) ≤ 1/2) := by intro hh; linarith
    simp only [if_neg hx, if_neg h1]
    have : (1 - (1 - √((1 - x) / 2))) ^ 2 = (1 - x) / 2 := by
      have : 1 - (1 - √((1 - x) / 2)) = √((1 - x) / 2) := by ring
      rw [this, Real.sq_sqrt hnn]
    rw [this]; ring

/-- every hedge maps [0,1] into [0,1] -/
theorem hedge_range (H : Hedge) {x : ℝ} (h : U x) : U (hedge F H x) := by
  cases H
  · exact ⟨by simp [hedge], by simp [hedge]⟩
  · exact extremely_range F h
  · exact not_range F h
  · exact seldom_range h
  · exact somewhat_range h
  · exact very_range F h

/-- every hedge except `not` (antitone) and `any` (constant) is monotone on [0,1] -/
theorem hedge_mono (H : Hedge) (hH : H ≠ .not) {x y : ℝ} (hx : U x) (hy : U y) (h : x ≤ y) :
    hedge F H x ≤ hedge F H y := by
  cases H
  · simp [hedge]
  · exact extremely_mono F hx hy h
  · exact absurd rfl hH
  · exact seldom_mono hx hy h
  · exact somewhat_mono h
  · exact very_mono F hx h

/-! ## non-vacuity -/
example : U (1/4 : ℝ) := by unfold U; norm_num
example : hedge (α := ℚ) ⟨id, id, id, id, id, fun a _ => a, 0⟩ .extremely (3/4) = 7/8 := by
  unfold hedge; norm_num

end real
end C05
