import FlVerif.Spec.Term
import FlVerif.Base.FnReal
import FlVerif.Gen.TermGen
import FlVerif.Lemmas.TermTie
import FlVerif.Lemmas.TermSpecial
import FlVerif.Lemmas.TermRange
import FlVerif.Lemmas.Interp
import FlVerif.Lemmas.TermMono
import FlVerif.Lemmas.TermLimits
import FlVerif.Lemmas.CodeDiscrete
import FlVerif.Lemmas.CodeDiscreteCreate
import FlVerif.Lemmas.CodeDiscreteLinear
import FlVerif.Lemmas.CodeDiscreteEngine
import FlVerif.Lemmas.CodeRaisedTerm

/-! # C03 — Membership functions match their documented definitions

`Gen.Term.<Class>.membership` is regenerated from `fuzzylite/term.py` on every run (symbolic parameters, height and
argument); `Spec.Mu.<class>` are the docstring equations (`Spec/Term.lean`, with the readings listed there).
Every finite float is a rational, so the statements over an arbitrary ordered field cover every float input as an
exact value; the transcendental classes are generic in the function bundle `F` for the tie (only side conditions such
as `0 < exp`) and use `Fn.real` for ranges and monotonicity.  `Discrete` calls `numpy.interp`, which is modelled by
the hand-written `Op.interp` (tied by the correspondence run only); its laws are at the end. -/

set_option linter.unusedSectionVars false
set_option linter.unusedVariables false
set_option linter.unusedSimpArgs false

namespace C03
open X Spec

section generic
variable {α : Type} [Field α] [LinearOrder α] [IsStrictOrderedRing α]

/-! ## 1. the traced code equals the documented closed form × height (finite x, finite valid parameters) -/

theorem gen_binary (F : Fn α) (s : α) (d : X α) (h x : α) (hd : d = pinf ∨ d = ninf) :
    Gen.Term.Binary.membership F (fin s) d (fin h) (fin x) = fin (Mu.binary s d h x) := TermTie.binary_fin F s d h x hd
theorem gen_concave (F : Fn α) (i e h x : α) (hie : i ≠ e) :
    Gen.Term.Concave.membership F (fin i) (fin e) (fin h) (fin x) = fin (Mu.concave i e h x) :=
  TermTie.concave_fin F i e h x hie
/-- `Constant` ignores its argument altogether (also NaN and ±inf) -/
theorem gen_constant (F : Fn α) (k : α) (x : X α) : Gen.Term.Constant.membership F (fin k) x = fin k := rfl
theorem gen_piShape (F : Fn α) (a b c d h x : α) (hab : a < b) (hcd : c < d) :
    Gen.Term.PiShape.membership F (fin a) (fin b) (fin c) (fin d) (fin h) (fin x) = fin (Mu.piShape a b c d h x) :=
  TermTie.piShape_fin F a b c d h x hab hcd
theorem gen_ramp (F : Fn α) (s e h x : α) (hse : s ≠ e) :
    Gen.Term.Ramp.membership F (fin s) (fin e) (fin h) (fin x) = fin (Mu.ramp s e h x) := TermTie.ramp_fin F s e h x hse
/-- any order of the two parameters -/
theorem gen_rectangle (F : Fn α) (s e h x : α) :
    Gen.Term.Rectangle.membership F (fin s) (fin e) (fin h) (fin x) = fin (Mu.rectangle s e h x) :=
  TermTie.rectangle_fin F s e h x
theorem gen_sShape (F : Fn α) (s e h x : α) (hse : s < e) :
    Gen.Term.SShape.membership F (fin s) (fin e) (fin h) (fin x) = fin (Mu.sShape s e h x) :=
  TermTie.sShape_fin F s e h x hse
/-- vertices `a ≤ b ≤ c ≤ d`; `a = −∞` and / or `d = +∞` give the infinite shoulders; `a = b`, `c = d` vertical edges -/
theorem gen_trapezoid (F : Fn α) (a : X α) (b c : α) (d : X α) (h x : α) (ha : LeftEnd a b) (hbc : b ≤ c)
    (hd : RightEnd c d) :
    Gen.Term.Trapezoid.membership F a (fin b) (fin c) d (fin h) (fin x) = fin (Mu.trapezoid a b c d h x) :=
  TermTie.trapezoid_fin F a b c d h x ha hbc hd
theorem gen_triangle (F : Fn α) (a : X α) (b : α) (c : X α) (h x : α) (ha : LeftEnd a b) (hc : RightEnd b c) :
    Gen.Term.Triangle.membership F a (fin b) c (fin h) (fin x) = fin (Mu.triangle a b c h x) :=
  TermTie.triangle_fin F a b c h x ha hc
theorem gen_zShape (F : Fn α) (s e h x : α) (hse : s < e) :
    Gen.Term.ZShape.membership F (fin s) (fin e) (fin h) (fin x) = fin (Mu.zShape s e h x) :=
  TermTie.zShape_fin F s e h x hse

/-! classes with exp / sqrt / cos / pow: any function bundle; what is needed of it is a hypothesis -/

theorem gen_arc (F : Fn α) (s e h x : α) (hse : s ≠ e) :
    Gen.Term.Arc.membership F (fin s) (fin e) (fin h) (fin x) = fin (Mu.arc F s e h x) := TermTie.arc_fin F s e h x hse
theorem gen_bell (F : Fn α) (hpow : ∀ a b : α, 0 < a → 0 ≤ F.pow a b) (c w sl h x : α) (hw : 0 < w) (hsl : 0 ≤ sl) :
    Gen.Term.Bell.membership F (fin c) (fin w) (fin sl) (fin h) (fin x) = fin (Mu.bell F c w sl h x) :=
  TermTie.bell_fin F hpow c w sl h x hw hsl
theorem gen_cosine (F : Fn α) (c w h x : α) (hw : w ≠ 0) :
    Gen.Term.Cosine.membership F (fin c) (fin w) (fin h) (fin x) = fin (Mu.cosine F c w h x) :=
  TermTie.cosine_fin F c w h x hw
theorem gen_gaussian (F : Fn α) (m sd h x : α) (hsd : sd ≠ 0) :
    Gen.Term.Gaussian.membership F (fin m) (fin sd) (fin h) (fin x) = fin (Mu.gaussian F m sd h x) :=
  TermTie.gaussian_fin F m sd h x hsd
theorem gen_gaussianProduct (F : Fn α) (ma sa mb sb h x : α) (hsa : sa ≠ 0) (hsb : sb ≠ 0) :
    Gen.Term.GaussianProduct.membership F (fin ma) (fin sa) (fin mb) (fin sb) (fin h) (fin x) =
      fin (Mu.gaussianProduct F ma sa mb sb h x) := TermTie.gaussianProduct_fin F ma sa mb sb h x hsa hsb
theorem gen_semiEllipse (F : Fn α) (s e h x : α) (hse : s ≠ e) :
    Gen.Term.SemiEllipse.membership F (fin s) (fin e) (fin h) (fin x) = fin (Mu.semiEllipse F s e h x) :=
  TermTie.semiEllipse_fin F s e h x hse
theorem gen_sigmoid (F : Fn α) (hexp : ∀ a : α, 0 < F.exp a) (i sl h x : α) :
    Gen.Term.Sigmoid.membership F (fin i) (fin sl) (fin h) (fin x) = fin (Mu.sigmoid F i sl h x) :=
  TermTie.sigmoid_fin F hexp i sl h x
theorem gen_sigmoidDifference (F : Fn α) (hexp : ∀ a : α, 0 < F.exp a) (l r f rt h x : α) :
    Gen.Term.SigmoidDifference.membership F (fin l) (fin r) (fin f) (fin rt) (fin h) (fin x) =
      fin (Mu.sigmoidDifference F l r f rt h x) := TermTie.sigmoidDifference_fin F hexp l r f rt h x
theorem gen_sigmoidProduct (F : Fn α) (hexp : ∀ a : α, 0 < F.exp a) (l r f rt h x : α) :
    Gen.Term.SigmoidProduct.membership F (fin l) (fin r) (fin f) (fin rt) (fin h) (fin x) =
      fin (Mu.sigmoidProduct F l r f rt h x) := TermTie.sigmoidProduct_fin F hexp l r f rt h x
theorem gen_spike (F : Fn α) (c w h x : α) (hw : w ≠ 0) :
    Gen.Term.Spike.membership F (fin c) (fin w) (fin h) (fin x) = fin (Mu.spike F c w h x) :=
  TermTie.spike_fin F c w h x hw

/-! ## 2. NaN in, NaN out — whatever the parameters and the height are (even NaN / ±inf) -/

theorem nan_shapes (F : Fn α) (p q r s h : X α) :
    Gen.Term.Arc.membership F p q h nan = nan ∧ Gen.Term.Bell.membership F p q r h nan = nan ∧
    Gen.Term.Binary.membership F p q h nan = nan ∧ Gen.Term.Concave.membership F p q h nan = nan ∧
    Gen.Term.Cosine.membership F p q h nan = nan ∧ Gen.Term.Gaussian.membership F p q h nan = nan ∧
    Gen.Term.GaussianProduct.membership F p q r s h nan = nan ∧ Gen.Term.PiShape.membership F p q r s h nan = nan ∧
    Gen.Term.Ramp.membership F p q h nan = nan ∧ Gen.Term.Rectangle.membership F p q h nan = nan ∧
    Gen.Term.SemiEllipse.membership F p q h nan = nan ∧ Gen.Term.Sigmoid.membership F p q h nan = nan ∧
    Gen.Term.SigmoidDifference.membership F p q r s h nan = nan ∧
    Gen.Term.SigmoidProduct.membership F p q r s h nan = nan ∧ Gen.Term.Spike.membership F p q h nan = nan ∧
    Gen.Term.SShape.membership F p q h nan = nan ∧ Gen.Term.Trapezoid.membership F p q r s h nan = nan ∧
    Gen.Term.Triangle.membership F p q r h nan = nan ∧ Gen.Term.ZShape.membership F p q h nan = nan :=
  ⟨TermSpecial.arc_nan .., TermSpecial.bell_nan .., TermSpecial.binary_nan .., TermSpecial.concave_nan ..,
   TermSpecial.cosine_nan .., TermSpecial.gaussian_nan .., TermSpecial.gaussianProduct_nan ..,
   TermSpecial.piShape_nan .., TermSpecial.ramp_nan .., TermSpecial.rectangle_nan .., TermSpecial.semiEllipse_nan ..,
   TermSpecial.sigmoid_nan .., TermSpecial.sigmoidDifference_nan .., TermSpecial.sigmoidProduct_nan ..,
   TermSpecial.spike_nan .., TermSpecial.sShape_nan .., TermSpecial.trapezoid_nan .., TermSpecial.triangle_nan ..,
   TermSpecial.zShape_nan ..⟩

end generic

/-! ## the whole statement in one: for every valid term and EVERY extended argument (finite, NaN, ±inf) the function
the driver executes (`Gen.termMembership`, by class name and parameter list) returns the documented value `Spec.muX`:
the closed form at finite `x`, its limit at `±inf`, NaN exactly at NaN. -/

theorem real_exp_pos : ∀ a : ℝ, 0 < Fn.real.exp a := Real.exp_pos
theorem real_pow_nonneg : ∀ a b : ℝ, 0 < a → 0 ≤ Fn.real.pow a b := fun a b ha => Real.rpow_nonneg ha.le b

theorem gen_eq_spec (t : Term ℝ) (hv : t.Valid) (hnd : ∀ pts h, t ≠ .discrete pts h) (x : X ℝ) :
    Gen.termMembership Fn.real t.cls t.params (fin t.height) x = some (muX Fn.real t x) := by
  obtain ⟨hs, hh⟩ := hv
  cases t with
  | discrete pts h => exact absurd rfl (hnd pts h)
  | constant k => cases x <;> rfl
  | arc s e h =>
    cases x with
    | nan => exact congrArg some (TermSpecial.arc_nan ..)
    | pinf => exact congrArg some (TermSpecial.arc_pinf _ s e h hs)
    | ninf => exact congrArg some (TermSpecial.arc_ninf _ s e h hs)
    | fin x => exact congrArg some (TermTie.arc_fin _ s e h x hs)
  | bell c w sl h =>
    cases x with
    | nan => exact congrArg some (TermSpecial.bell_nan ..)
    | pinf => exact congrArg some (TermSpecial.bell_pinf _ c w sl h hs.1 hs.2)
    | ninf => exact congrArg some (TermSpecial.bell_ninf _ c w sl h hs.1 hs.2)
    | fin x => exact congrArg some (TermTie.bell_fin _ real_pow_nonneg c w sl h x hs.1 hs.2)
  | binary s d h =>
    cases x with
    | nan => exact congrArg some (TermSpecial.binary_nan ..)
    | pinf => exact congrArg some (TermSpecial.binary_pinf _ s d h hs)
    | ninf => exact congrArg some (TermSpecial.binary_ninf _ s d h hs)
    | fin x => exact congrArg some (TermTie.binary_fin _ s d h x hs)
  | concave i e h =>
    cases x with
    | nan => exact congrArg some (TermSpecial.concave_nan ..)
    | pinf => exact congrArg some (TermSpecial.concave_pinf _ i e h hs)
    | ninf => exact congrArg some (TermSpecial.concave_ninf _ i e h hs)
    | fin x => exact congrArg some (TermTie.concave_fin _ i e h x hs)
  | cosine c w h =>
    cases x with
    | nan => exact congrArg some (TermSpecial.cosine_nan ..)
    | pinf => exact congrArg some (TermSpecial.cosine_pinf _ c w h)
    | ninf => exact congrArg some (TermSpecial.cosine_ninf _ c w h)
    | fin x => exact congrArg some (TermTie.cosine_fin _ c w h x hs.ne')
  | gaussian m sd h =>
    cases x with
    | nan => exact congrArg some (TermSpecial.gaussian_nan ..)
    | pinf => exact congrArg some (TermSpecial.gaussian_pinf _ m sd h hs)
    | ninf => exact congrArg some (TermSpecial.gaussian_ninf _ m sd h hs)
    | fin x => exact congrArg some (TermTie.gaussian_fin _ m sd h x hs)
  | gaussianProduct ma sa mb sb h =>
    cases x with
    | nan => exact congrArg some (TermSpecial.gaussianProduct_nan ..)
    | pinf => exact congrArg some (TermSpecial.gaussianProduct_pinf _ ma sa mb sb h hs.2)
    | ninf => exact congrArg some (TermSpecial.gaussianProduct_ninf _ ma sa mb sb h hs.1)
    | fin x => exact congrArg some (TermTie.gaussianProduct_fin _ ma sa mb sb h x hs.1 hs.2)
  | piShape a b c d h =>
    cases x with
    | nan => exact congrArg some (TermSpecial.piShape_nan ..)
    | pinf => exact congrArg some (TermSpecial.piShape_pinf _ a b c d h)
    | ninf => exact congrArg some (TermSpecial.piShape_ninf _ a b c d h)
    | fin x => exact congrArg some (TermTie.piShape_fin _ a b c d h x hs.1 hs.2)
  | ramp s e h =>
    cases x with
    | nan => exact congrArg some (TermSpecial.ramp_nan ..)
    | pinf => exact congrArg some (TermSpecial.ramp_pinf _ s e h hs)
    | ninf => exact congrArg some (TermSpecial.ramp_ninf _ s e h hs)
    | fin x => exact congrArg some (TermTie.ramp_fin _ s e h x hs)
  | rectangle s e h =>
    cases x with
    | nan => exact congrArg some (TermSpecial.rectangle_nan ..)
    | pinf => exact congrArg some (TermSpecial.rectangle_pinf _ s e h)
    | ninf => exact congrArg some (TermSpecial.rectangle_ninf _ s e h)
    | fin x => exact congrArg some (TermTie.rectangle_fin _ s e h x)
  | semiEllipse s e h =>
    cases x with
    | nan => exact congrArg some (TermSpecial.semiEllipse_nan ..)
    | pinf => exact congrArg some (TermSpecial.semiEllipse_pinf _ s e h)
    | ninf => exact congrArg some (TermSpecial.semiEllipse_ninf _ s e h)
    | fin x => exact congrArg some (TermTie.semiEllipse_fin _ s e h x hs)
  | sigmoid i sl h =>
    cases x with
    | nan => exact congrArg some (TermSpecial.sigmoid_nan ..)
    | pinf => exact congrArg some (TermSpecial.sigmoid_pinf _ i sl h hs)
    | ninf => exact congrArg some (TermSpecial.sigmoid_ninf _ i sl h hs)
    | fin x => exact congrArg some (TermTie.sigmoid_fin _ real_exp_pos i sl h x)
  | sigmoidDifference l r f rt h =>
    cases x with
    | nan => exact congrArg some (TermSpecial.sigmoidDifference_nan ..)
    | pinf => exact congrArg some (TermSpecial.sigmoidDifference_pinf _ l r f rt h hs.1 hs.2)
    | ninf => exact congrArg some (TermSpecial.sigmoidDifference_ninf _ l r f rt h hs.1 hs.2)
    | fin x => exact congrArg some (TermTie.sigmoidDifference_fin _ real_exp_pos l r f rt h x)
  | sigmoidProduct l r f rt h =>
    cases x with
    | nan => exact congrArg some (TermSpecial.sigmoidProduct_nan ..)
    | pinf => exact congrArg some (TermSpecial.sigmoidProduct_pinf _ l r f rt h hs.1 hs.2)
    | ninf => exact congrArg some (TermSpecial.sigmoidProduct_ninf _ l r f rt h hs.1 hs.2)
    | fin x => exact congrArg some (TermTie.sigmoidProduct_fin _ real_exp_pos l r f rt h x)
  | spike c w h =>
    cases x with
    | nan => exact congrArg some (TermSpecial.spike_nan ..)
    | pinf => exact congrArg some (TermSpecial.spike_pinf _ c w h hs)
    | ninf => exact congrArg some (TermSpecial.spike_ninf _ c w h hs)
    | fin x => exact congrArg some (TermTie.spike_fin _ c w h x hs)
  | sShape s e h =>
    cases x with
    | nan => exact congrArg some (TermSpecial.sShape_nan ..)
    | pinf => exact congrArg some (TermSpecial.sShape_pinf _ s e h)
    | ninf => exact congrArg some (TermSpecial.sShape_ninf _ s e h)
    | fin x => exact congrArg some (TermTie.sShape_fin _ s e h x hs)
  | trapezoid a b c d h =>
    cases x with
    | nan => exact congrArg some (TermSpecial.trapezoid_nan ..)
    | pinf => exact congrArg some (TermSpecial.trapezoid_pinf _ a b c d h hs.1 hs.2.2)
    | ninf => exact congrArg some (TermSpecial.trapezoid_ninf _ a b c d h hs.1 hs.2.2)
    | fin x => exact congrArg some (TermTie.trapezoid_fin _ a b c d h x hs.1 hs.2.1 hs.2.2)
  | triangle a b c h =>
    cases x with
    | nan => exact congrArg some (TermSpecial.triangle_nan ..)
    | pinf => exact congrArg some (TermSpecial.triangle_pinf _ a b c h hs.1 hs.2)
    | ninf => exact congrArg some (TermSpecial.triangle_ninf _ a b c h hs.1 hs.2)
    | fin x => exact congrArg some (TermTie.triangle_fin _ a b c h x hs.1 hs.2)
  | zShape s e h =>
    cases x with
    | nan => exact congrArg some (TermSpecial.zShape_nan ..)
    | pinf => exact congrArg some (TermSpecial.zShape_pinf _ s e h)
    | ninf => exact congrArg some (TermSpecial.zShape_ninf _ s e h)
    | fin x => exact congrArg some (TermTie.zShape_fin _ s e h x hs)

/-- NaN exactly when `x` is NaN (every shape class; `Constant` is the degenerate case `gen_constant`) -/
theorem nan_iff (t : Term ℝ) (hv : t.Valid) (hnd : ∀ pts h, t ≠ .discrete pts h) (hnc : ∀ k, t ≠ .constant k)
    (x : X ℝ) : Gen.termMembership Fn.real t.cls t.params (fin t.height) x = some nan ↔ x = nan := by
  rw [gen_eq_spec t hv hnd x]
  cases x with
  | nan => cases t <;> first | exact absurd rfl (hnc _) | simp [muX]
  | pinf => simp [muX]
  | ninf => simp [muX]
  | fin x => simp [muX]

/-! ## 3. range: `0 ≤ μ(x) ≤ height` -/

section generic
variable {α : Type} [Field α] [LinearOrder α] [IsStrictOrderedRing α]

/-- the piecewise-polynomial classes, over every ordered field -/
theorem range_generic (F : Fn α) (t : Term α) (hv : t.Valid) (x : α)
    (hpoly : match t with
      | .binary .. | .concave .. | .discrete .. | .piShape .. | .ramp .. | .rectangle .. | .sShape .. | .trapezoid ..
      | .triangle .. | .zShape .. => True
      | _ => False) :
    0 ≤ mu F t x ∧ mu F t x ≤ t.height := by
  obtain ⟨hs, hh⟩ := hv
  cases t with
  | binary s d h => exact TermRange.binary_range s d h x hh.1.le
  | concave i e h => exact TermRange.concave_range i e h x hh.1.le
  | discrete pts h => exact TermRange.discrete_range pts h x hs hh.1.le
  | piShape a b c d h => exact TermRange.piShape_range a b c d h x hs.1 hs.2 hh.1.le
  | ramp s e h => exact TermRange.ramp_range s e h x hh.1.le
  | rectangle s e h => exact TermRange.rectangle_range s e h x hh.1.le
  | sShape s e h => exact TermRange.sShape_range s e h x hs hh.1.le
  | trapezoid a b c d h => exact TermRange.trapezoid_range a b c d h x hs.1 hs.2.2 hh.1.le
  | triangle a b c h => exact TermRange.triangle_range a b c h x hs.1 hs.2 hh.1.le
  | zShape s e h => exact TermRange.zShape_range s e h x hs hh.1.le
  | _ => exact absurd hpoly (by simp)

end generic

/-- every shape class (`Constant` has no height: its value is its parameter) -/
theorem range (t : Term ℝ) (hv : t.Valid) (hnc : ∀ k, t ≠ .constant k) (x : ℝ) :
    0 ≤ mu Fn.real t x ∧ mu Fn.real t x ≤ t.height := by
  obtain ⟨hs, hh⟩ := hv
  cases t with
  | constant k => exact absurd rfl (hnc k)
  | arc s e h => exact TermRange.arc_range s e h x hs hh.1.le
  | bell c w sl h => exact TermRange.bell_range c w sl h x hs.1 hh.1.le
  | binary s d h => exact TermRange.binary_range s d h x hh.1.le
  | concave i e h => exact TermRange.concave_range i e h x hh.1.le
  | cosine c w h => exact TermRange.cosine_range c w h x hh.1.le
  | discrete pts h => exact TermRange.discrete_range pts h x hs hh.1.le
  | gaussian m sd h => exact TermRange.gaussian_range m sd h x hh.1.le
  | gaussianProduct ma sa mb sb h => exact TermRange.gaussianProduct_range ma sa mb sb h x hh.1.le
  | piShape a b c d h => exact TermRange.piShape_range a b c d h x hs.1 hs.2 hh.1.le
  | ramp s e h => exact TermRange.ramp_range s e h x hh.1.le
  | rectangle s e h => exact TermRange.rectangle_range s e h x hh.1.le
  | semiEllipse s e h => exact TermRange.semiEllipse_range s e h x hs hh.1.le
  | sigmoid i sl h => exact TermRange.sigmoid_range i sl h x hh.1.le
  | sigmoidDifference l r f rt h => exact TermRange.sigmoidDifference_range l r f rt h x hh.1.le
  | sigmoidProduct l r f rt h => exact TermRange.sigmoidProduct_range l r f rt h x hh.1.le
  | spike c w h => exact TermRange.spike_range c w h x hh.1.le
  | sShape s e h => exact TermRange.sShape_range s e h x hs hh.1.le
  | trapezoid a b c d h => exact TermRange.trapezoid_range a b c d h x hs.1 hs.2.2 hh.1.le
  | triangle a b c h => exact TermRange.triangle_range a b c h x hs.1 hs.2 hh.1.le
  | zShape s e h => exact TermRange.zShape_range s e h x hs hh.1.le

theorem sigLim_unit (sl : ℝ) : 0 ≤ sigLim sl ∧ sigLim sl ≤ 1 := by
  unfold sigLim; split_ifs <;> norm_num

/-- the values at `±inf` are in range too -/
theorem range_at_inf (t : Term ℝ) (hv : t.Valid) (hnc : ∀ k, t ≠ .constant k) :
    (0 ≤ atPinf t ∧ atPinf t ≤ t.height) ∧ (0 ≤ atNinf t ∧ atNinf t ≤ t.height) := by
  obtain ⟨hs, hh⟩ := hv
  have key : ∀ h : ℝ, 0 < h → ∀ p : Prop, ∀ [Decidable p], (0 ≤ (if p then h else 0) ∧ (if p then h else 0) ≤ h) ∧
      (0 ≤ (if p then 0 else h) ∧ (if p then 0 else h) ≤ h) := by
    intro h hpos p _; split_ifs <;> exact ⟨⟨by linarith, by linarith⟩, ⟨by linarith, by linarith⟩⟩
  cases t with
  | constant k => exact absurd rfl (hnc k)
  | arc s e h => exact key h hh.1 _
  | concave i e h => exact key h hh.1 _
  | ramp s e h => exact key h hh.1 _
  | bell c w sl h =>
    have hpos : 0 < h := hh.1
    simp only [atPinf, atNinf, Term.height]; split_ifs <;> exact ⟨⟨by linarith, by linarith⟩, ⟨by linarith, by linarith⟩⟩
  | binary s d h =>
    have hpos : 0 < h := hh.1
    simp only [atPinf, atNinf, Term.height]
    split_ifs <;> exact ⟨⟨by linarith, by linarith⟩, ⟨by linarith, by linarith⟩⟩
  | trapezoid a b c d h =>
    have hpos : 0 < h := hh.1
    simp only [atPinf, atNinf, Term.height]
    split_ifs <;> exact ⟨⟨by linarith, by linarith⟩, ⟨by linarith, by linarith⟩⟩
  | triangle a b c h =>
    have hpos : 0 < h := hh.1
    simp only [atPinf, atNinf, Term.height]
    split_ifs <;> exact ⟨⟨by linarith, by linarith⟩, ⟨by linarith, by linarith⟩⟩
  | discrete pts h =>
    have hpos : 0 < h := hh.1
    obtain ⟨hi, hb⟩ := TermRange.discreteOk_incX pts hs
    have hl : ∀ (l : List (ℝ × ℝ)) (d : ℝ), (0 ≤ d ∧ d ≤ 1) → (∀ q ∈ l, 0 ≤ q.2 ∧ q.2 ≤ 1) →
        0 ≤ Op.lastY d l ∧ Op.lastY d l ≤ 1 := by
      intro l
      induction l with
      | nil => intro d hd _; exact hd
      | cons q l ih => intro d _ hq; exact ih q.2 (hq q (by simp)) (fun t ht => hq t (List.mem_cons_of_mem _ ht))
    have h1 := hl pts 0 ⟨le_refl _, zero_le_one⟩ hb
    simp only [atPinf, atNinf, Term.height]
    cases pts with
    | nil => exact absurd hs (by simp [Term.ValidShape, DiscreteOk])
    | cons p l =>
      have h2 := hb p (by simp)
      exact ⟨TermRange.in_mul hpos.le h1.1 h1.2, TermRange.in_mul hpos.le h2.1 h2.2⟩
  | sigmoid i sl h =>
    have hpos : 0 < h := hh.1
    have := sigLim_unit sl
    exact ⟨TermRange.in_mul hpos.le this.1 this.2, TermRange.in_mul hpos.le (by linarith) (by linarith)⟩
  | sigmoidDifference l r f rt h =>
    have hpos : 0 < h := hh.1
    have h1 := sigLim_unit r
    have h2 := sigLim_unit f
    exact ⟨TermRange.in_mul hpos.le (abs_nonneg _) (abs_le.2 ⟨by linarith, by linarith⟩),
      TermRange.in_mul hpos.le (abs_nonneg _) (abs_le.2 ⟨by linarith, by linarith⟩)⟩
  | sigmoidProduct l r f rt h =>
    have hpos : 0 < h := hh.1
    have h1 := sigLim_unit r
    have h2 := sigLim_unit f
    exact ⟨TermRange.in_mul hpos.le (mul_nonneg h1.1 h2.1) (by nlinarith),
      TermRange.in_mul hpos.le (mul_nonneg (by linarith) (by linarith)) (by nlinarith)⟩
  | sShape s e h => exact ⟨⟨hh.1.le, le_refl _⟩, ⟨le_refl _, hh.1.le⟩⟩
  | zShape s e h => exact ⟨⟨le_refl _, hh.1.le⟩, ⟨hh.1.le, le_refl _⟩⟩
  | cosine c w h => exact ⟨⟨le_refl _, hh.1.le⟩, ⟨le_refl _, hh.1.le⟩⟩
  | gaussian m sd h => exact ⟨⟨le_refl _, hh.1.le⟩, ⟨le_refl _, hh.1.le⟩⟩
  | gaussianProduct ma sa mb sb h => exact ⟨⟨le_refl _, hh.1.le⟩, ⟨le_refl _, hh.1.le⟩⟩
  | piShape a b c d h => exact ⟨⟨le_refl _, hh.1.le⟩, ⟨le_refl _, hh.1.le⟩⟩
  | rectangle s e h => exact ⟨⟨le_refl _, hh.1.le⟩, ⟨le_refl _, hh.1.le⟩⟩
  | semiEllipse s e h => exact ⟨⟨le_refl _, hh.1.le⟩, ⟨le_refl _, hh.1.le⟩⟩
  | spike c w h => exact ⟨⟨le_refl _, hh.1.le⟩, ⟨le_refl _, hh.1.le⟩⟩

/-! ## values at every breakpoint of the definitions -/

section generic
variable {α : Type} [Field α] [LinearOrder α] [IsStrictOrderedRing α]

/-- Triangle: `h` at the top; `0` at a finite foot that is not under the top (`h` on a vertical edge) -/
theorem at_triangle (a b c h : α) (hab : a ≤ b) (hbc : b ≤ c) :
    Mu.triangle (fin a) b (fin c) h b = h ∧
    Mu.triangle (fin a) b (fin c) h a = (if a = b then h else 0) ∧
    Mu.triangle (fin a) b (fin c) h c = (if c = b then h else 0) := by
  refine ⟨by simp [Mu.triangle, X.lt, not_lt.2 hab, not_lt.2 hbc], ?_, ?_⟩
  · by_cases h1 : a = b
    · subst h1; simp [Mu.triangle, X.lt, not_lt.2 hbc]
    · have : a < b := lt_of_le_of_ne hab h1
      have h2 : ¬ c < a := by intro h; linarith
      simp [Mu.triangle, X.lt, h1, this, h2]
  · by_cases h1 : c = b
    · subst h1; simp [Mu.triangle, X.lt, not_lt.2 hab]
    · have : b < c := lt_of_le_of_ne hbc (Ne.symm h1)
      have h2 : ¬ c < a := by intro h; linarith
      have h3 : ¬ c < b := by intro h; linarith
      simp [Mu.triangle, X.lt, h1, h2, h3]

/-- Trapezoid: `h` on the whole top `[b, c]`; `0` at a foot that is not under the top -/
theorem at_trapezoid (a b c d h : α) (hab : a ≤ b) (hbc : b ≤ c) (hcd : c ≤ d) :
    Mu.trapezoid (fin a) b c (fin d) h b = h ∧ Mu.trapezoid (fin a) b c (fin d) h c = h ∧
    Mu.trapezoid (fin a) b c (fin d) h a = (if a = b then h else 0) ∧
    Mu.trapezoid (fin a) b c (fin d) h d = (if d = c then h else 0) := by
  have n1 : ¬ b < a := not_lt.2 hab
  have n2 : ¬ d < b := by intro h; linarith
  have n3 : ¬ c < a := by intro h; linarith
  have n4 : ¬ d < c := not_lt.2 hcd
  have n5 : ¬ d < a := by intro h; linarith
  refine ⟨by simp [Mu.trapezoid, X.lt, n1, n2, hbc], by simp [Mu.trapezoid, X.lt, n3, n4, hbc], ?_, ?_⟩
  · by_cases h1 : a = b
    · subst h1; simp [Mu.trapezoid, X.lt, n5, hbc]
    · have : a < b := lt_of_le_of_ne hab h1
      simp [Mu.trapezoid, X.lt, h1, this, n5, not_le.2 this]
  · by_cases h1 : d = c
    · subst h1; simp [Mu.trapezoid, X.lt, n5, hbc]
    · have : c < d := lt_of_le_of_ne hcd (Ne.symm h1)
      have h3 : ¬ d < b := by intro h; linarith
      have h4 : ¬ d ≤ c := not_le.2 this
      simp [Mu.trapezoid, X.lt, h1, n5, h3, h4]

theorem at_ramp (s e h : α) (hse : s ≠ e) : Mu.ramp s e h s = 0 ∧ Mu.ramp s e h e = h := by
  rcases lt_or_gt_of_ne hse with h1 | h1
  · simp [Mu.ramp, h1, not_lt.2 h1.le, not_le.2 h1]
  · simp [Mu.ramp, h1, not_lt.2 h1.le, not_le.2 h1]

theorem at_rectangle (s e h : α) : Mu.rectangle s e h s = h ∧ Mu.rectangle s e h e = h := by
  simp [Mu.rectangle]

theorem at_binary (s h : α) : Mu.binary s pinf h s = h ∧ Mu.binary s ninf h s = h := by simp [Mu.binary]

/-- Concave: `h` from the end on, `h/2` at the inflection -/
theorem at_concave (i e h : α) (hie : i ≠ e) : Mu.concave i e h e = h ∧ Mu.concave i e h i = h / 2 := by
  rcases lt_or_gt_of_ne hie with h1 | h1
  · have hd : 2 * e - i - i ≠ 0 := by intro h0; linarith
    have q : (e - i) / (2 * e - i - i) = 1 / 2 := by rw [div_eq_iff hd]; ring
    refine ⟨by simp [Mu.concave], ?_⟩
    simp only [Mu.concave, h1.le, h1, and_self, if_true, q]; ring
  · have hd : -2 * e + i + i ≠ 0 := by intro h0; linarith
    have q : (i - e) / (-2 * e + i + i) = 1 / 2 := by rw [div_eq_iff hd]; ring
    refine ⟨by simp [Mu.concave], ?_⟩
    simp only [Mu.concave, not_le.2 h1, h1, and_self, false_and, if_true, if_false, q]; ring

/-- S-shape: `0` at the start, `h/2` at the midpoint (the two pieces agree there), `h` at the end -/
theorem at_sShape (s e h : α) (hse : s < e) :
    Mu.sShape s e h s = 0 ∧ Mu.sShape s e h ((s + e) / 2) = h / 2 ∧
    h - 2 * h * (((s + e) / 2 - e) / (e - s)) ^ 2 = h / 2 ∧ Mu.sShape s e h e = h := by
  have hd : e - s ≠ 0 := by intro h0; linarith
  have h1 : ¬ (s + e) / 2 ≤ s := by intro h; linarith
  have h2 : ¬ e ≤ s := not_le.2 hse
  have h3 : ¬ e ≤ (s + e) / 2 := by intro h; linarith
  refine ⟨by simp [Mu.sShape], ?_, ?_, by simp [Mu.sShape, h2, h3]⟩
  · simp only [Mu.sShape, h1, if_false, le_refl, if_true]; field_simp; ring
  · field_simp; ring

theorem at_zShape (s e h : α) (hse : s < e) :
    Mu.zShape s e h s = h ∧ Mu.zShape s e h ((s + e) / 2) = h / 2 ∧
    h - 2 * h * (((s + e) / 2 - s) / (e - s)) ^ 2 = h / 2 ∧ Mu.zShape s e h e = 0 := by
  have hd : e - s ≠ 0 := by intro h0; linarith
  have h1 : ¬ (s + e) / 2 ≤ s := by intro h; linarith
  have h2 : ¬ e ≤ s := not_le.2 hse
  have h3 : ¬ e < (s + e) / 2 := by intro h; linarith
  have h4 : (s + e) / 2 < e := by linarith
  refine ⟨by simp [Mu.zShape], ?_, ?_, by simp [Mu.zShape, h2, h3]⟩
  · simp only [Mu.zShape, h1, if_false, lt_irrefl, h4, if_true]; field_simp; ring
  · field_simp; ring

/-- Pi-shape with `b ≤ c`: `0` at both feet, `h` on the top -/
theorem at_piShape (a b c d h : α) (hab : a < b) (hbc : b ≤ c) (hcd : c < d) :
    Mu.piShape a b c d h a = 0 ∧ Mu.piShape a b c d h d = 0 ∧ Mu.piShape a b c d h b = h ∧
    Mu.piShape a b c d h c = h := by
  have s1 := at_sShape a b (1 : α) hab
  have z1 := at_zShape c d (1 : α) hcd
  have n1 : ¬ b ≤ a := not_le.2 hab
  have n2 : ¬ b ≤ (a + b) / 2 := by intro h; linarith
  have n3 : ¬ c ≤ a := by intro h; linarith
  have n4 : ¬ c ≤ (a + b) / 2 := by intro h; linarith
  have n5 : ¬ c < b := not_lt.2 hbc
  refine ⟨by simp [Mu.piShape, s1.1], by simp [Mu.piShape, z1.2.2.2], ?_, ?_⟩
  · simp [Mu.piShape, s1.2.2.2, Mu.zShape, hbc]
  · simp [Mu.piShape, z1.1, Mu.sShape, n3, n4, n5]

end generic

section real
open Real
local notation "F" => Fn.real

/-- Arc: `0` at the start, `h` at the end (both directions) -/
theorem at_arc (s e h : ℝ) (hse : s ≠ e) : Mu.arc F s e h s = 0 ∧ Mu.arc F s e h e = h := by
  have hr : |e - s| ≠ 0 := abs_ne_zero.2 (sub_ne_zero.2 (Ne.symm hse))
  have c1 : (s ≤ s ∧ s ≤ e) ∨ (e ≤ s ∧ s ≤ s) := by rcases le_total s e with h | h <;> simp [h]
  have c2 : (s ≤ e ∧ e ≤ e) ∨ (e ≤ e ∧ e ≤ s) := by rcases le_total s e with h | h <;> simp [h]
  constructor
  · simp only [Mu.arc, c1, if_true, Fn.real]
    have : (e - s) ^ 2 - (s - e) ^ 2 = 0 := by ring
    rw [this, Real.sqrt_zero]; simp
  · simp only [Mu.arc, c2, if_true, Fn.real]
    have : (e - s) ^ 2 - (e - e) ^ 2 = (e - s) ^ 2 := by ring
    rw [this, Real.sqrt_sq_eq_abs, div_self hr, mul_one]

/-- SemiEllipse: `0` at both ends, `h` in the middle -/
theorem at_semiEllipse (s e h : ℝ) (hse : s ≠ e) :
    Mu.semiEllipse F s e h s = 0 ∧ Mu.semiEllipse F s e h e = 0 ∧ Mu.semiEllipse F s e h ((s + e) / 2) = h := by
  rcases lt_or_gt_of_ne hse with h1 | h1
  · have hr : (e - s) / 2 ≠ 0 := by intro h0; linarith
    have hr' : 0 ≤ (e - s) / 2 := by linarith
    simp only [Mu.semiEllipse, min_eq_left h1.le, max_eq_right h1.le, Fn.real]
    refine ⟨?_, ?_, ?_⟩
    · have : ((e - s) / 2) ^ 2 - (s - (s + e) / 2) ^ 2 = 0 := by ring
      simp [h1.le, this]
    · have : ((e - s) / 2) ^ 2 - (e - (s + e) / 2) ^ 2 = 0 := by ring
      simp [h1.le, this]
    · have c : s ≤ (s + e) / 2 ∧ (s + e) / 2 ≤ e := ⟨by linarith, by linarith⟩
      have : ((e - s) / 2) ^ 2 - ((s + e) / 2 - (s + e) / 2) ^ 2 = ((e - s) / 2) ^ 2 := by ring
      rw [if_pos c, this, Real.sqrt_sq hr', div_self hr, mul_one]
  · have hr : (s - e) / 2 ≠ 0 := by intro h0; linarith
    have hr' : 0 ≤ (s - e) / 2 := by linarith
    simp only [Mu.semiEllipse, min_eq_right h1.le, max_eq_left h1.le, Fn.real]
    refine ⟨?_, ?_, ?_⟩
    · have : ((s - e) / 2) ^ 2 - (s - (e + s) / 2) ^ 2 = 0 := by ring
      simp [h1.le, this]
    · have : ((s - e) / 2) ^ 2 - (e - (e + s) / 2) ^ 2 = 0 := by ring
      simp [h1.le, this]
    · have c : e ≤ (s + e) / 2 ∧ (s + e) / 2 ≤ s := ⟨by linarith, by linarith⟩
      have : ((s - e) / 2) ^ 2 - ((s + e) / 2 - (e + s) / 2) ^ 2 = ((s - e) / 2) ^ 2 := by ring
      rw [if_pos c, this, Real.sqrt_sq hr', div_self hr, mul_one]

/-- Bell: `h` at the centre (positive slope), `h/2` at `c ± w` -/
theorem at_bell (c w sl h : ℝ) (hw : 0 < w) (hsl : 0 < sl) :
    Mu.bell F c w sl h c = h ∧ Mu.bell F c w sl h (c + w) = h / 2 ∧ Mu.bell F c w sl h (c - w) = h / 2 := by
  have h2 : 2 * sl ≠ 0 := by intro h0; linarith
  refine ⟨by simp [Mu.bell, powNN, h2], ?_, ?_⟩
  · have : |c + w - c| / w = 1 := by rw [add_sub_cancel_left, abs_of_pos hw, div_self hw.ne']
    simp only [Mu.bell, this, powNN, h2, if_false, one_ne_zero, Fn.real, Real.one_rpow]; norm_num
  · have : |c - w - c| / w = 1 := by
      rw [show c - w - c = -w by ring, abs_neg, abs_of_pos hw, div_self hw.ne']
    simp only [Mu.bell, this, powNN, h2, if_false, one_ne_zero, Fn.real, Real.one_rpow]; norm_num

/-- Cosine: `h` at the centre, `0` at both ends of the support -/
theorem at_cosine (c w h : ℝ) (hw : 0 < w) :
    Mu.cosine F c w h c = h ∧ Mu.cosine F c w h (c - w / 2) = 0 ∧ Mu.cosine F c w h (c + w / 2) = 0 := by
  have c0 : c - w / 2 ≤ c ∧ c ≤ c + w / 2 := ⟨by linarith, by linarith⟩
  have c1 : c - w / 2 ≤ c - w / 2 ∧ c - w / 2 ≤ c + w / 2 := ⟨le_refl _, by linarith⟩
  have c2 : c - w / 2 ≤ c + w / 2 ∧ c + w / 2 ≤ c + w / 2 := ⟨by linarith, le_refl _⟩
  refine ⟨?_, ?_, ?_⟩
  · simp only [Mu.cosine, c0, and_self, if_true, sub_self, mul_zero, Fn.real, Real.cos_zero]; ring
  · have : 2 / w * π * (c - w / 2 - c) = -π := by field_simp; ring
    simp only [Mu.cosine, c1, and_self, if_true, Fn.real, this, Real.cos_neg, Real.cos_pi]; ring
  · have : 2 / w * π * (c + w / 2 - c) = π := by field_simp; ring
    simp only [Mu.cosine, c2, and_self, if_true, Fn.real, this, Real.cos_pi]; ring

theorem at_gaussian (m sd h : ℝ) : Mu.gaussian F m sd h m = h := by simp [Mu.gaussian, Fn.real]
/-- GaussianProduct: `h` on the plateau between the two means -/
theorem at_gaussianProduct (ma sa mb sb h x : ℝ) (h1 : ma ≤ x) (h2 : x ≤ mb) :
    Mu.gaussianProduct F ma sa mb sb h x = h := by
  simp [Mu.gaussianProduct, not_lt.2 h1, not_lt.2 h2]
theorem at_sigmoid (i sl h : ℝ) : Mu.sigmoid F i sl h i = h / 2 := by
  simp [Mu.sigmoid, Fn.real]; norm_num
theorem at_spike (c w h : ℝ) : Mu.spike F c w h c = h := by simp [Mu.spike, Fn.real]

end real

/-- the values assigned at `±inf` (`Spec.atPinf`, `Spec.atNinf`, returned by the code by `gen_eq_spec`) are the limits
    of the documented closed form: `μ(x) → atPinf` as `x → +∞` and `μ(x) → atNinf` as `x → −∞`, for every class -/
theorem limits (t : Term ℝ) (hv : t.Valid) :
    Filter.Tendsto (mu Fn.real t) Filter.atTop (nhds (atPinf t)) ∧
    Filter.Tendsto (mu Fn.real t) Filter.atBot (nhds (atNinf t)) := by
  obtain ⟨hs, hh⟩ := hv
  cases t with
  | constant k => exact ⟨tendsto_const_nhds, tendsto_const_nhds⟩
  | arc s e h => exact TermLimits.arc_limits s e h hs
  | bell c w sl h => exact TermLimits.bell_limits c w sl h hs.1 hs.2
  | binary s d h => exact TermLimits.binary_limits s d h hs
  | concave i e h => exact TermLimits.concave_limits i e h hs
  | cosine c w h => exact TermLimits.cosine_limits c w h
  | discrete pts h => exact TermLimits.discrete_limits pts h hs
  | gaussian m sd h => exact TermLimits.gaussian_limits m sd h hs
  | gaussianProduct ma sa mb sb h => exact TermLimits.gaussianProduct_limits ma sa mb sb h hs.1 hs.2
  | piShape a b c d h => exact TermLimits.piShape_limits a b c d h hs.1 hs.2
  | ramp s e h => exact TermLimits.ramp_limits s e h hs
  | rectangle s e h => exact TermLimits.rectangle_limits s e h
  | semiEllipse s e h => exact TermLimits.semiEllipse_limits s e h
  | sigmoid i sl h => exact TermLimits.sigmoid_limits i sl h hs
  | sigmoidDifference l r f rt h => exact TermLimits.sigmoidDifference_limits l r f rt h hs.1 hs.2
  | sigmoidProduct l r f rt h => exact TermLimits.sigmoidProduct_limits l r f rt h hs.1 hs.2
  | spike c w h => exact TermLimits.spike_limits c w h hs
  | sShape s e h => exact TermLimits.sShape_limits s e h hs
  | trapezoid a b c d h => exact TermLimits.trapezoid_limits a b c d h hs.1 hs.2.1 hs.2.2
  | triangle a b c h => exact TermLimits.triangle_limits a b c h hs.1 hs.2
  | zShape s e h => exact TermLimits.zShape_limits s e h hs

/-! ## 4. terms that declare themselves monotonic are monotone in x, in the direction of their parameters -/

/-- the regenerated `is_monotonic()` flags are the documented ones -/
theorem isMonotonic_table : Gen.isMonotonicTable = Spec.isMonotonicTable := by decide

/-- **Tie A (code → table).**  `Gen.isMonotonicTable` is regenerated by calling `is_monotonic()` on an instance of every
    shape class; `Gen.Code.<T>_is_monotonic` is the *source* of the method the class `T` uses - its own override or the
    inherited `Term.is_monotonic`, looked up through the class at translation time - translated by `fv/pylean.py`.  The
    table is, class by class, what the translated methods return (so it also says which classes override the method). -/
theorem code_isMonotonic :
    Gen.isMonotonicTable.map (fun p => (p.1, some p.2)) =
      [("Arc", Py.retOf (Gen.Code.Arc_is_monotonic.run {}) (·.ret)),
       ("Bell", Py.retOf (Gen.Code.Bell_is_monotonic.run {}) (·.ret)),
       ("Binary", Py.retOf (Gen.Code.Binary_is_monotonic.run {}) (·.ret)),
       ("Concave", Py.retOf (Gen.Code.Concave_is_monotonic.run {}) (·.ret)),
       ("Cosine", Py.retOf (Gen.Code.Cosine_is_monotonic.run {}) (·.ret)),
       ("Gaussian", Py.retOf (Gen.Code.Gaussian_is_monotonic.run {}) (·.ret)),
       ("GaussianProduct", Py.retOf (Gen.Code.GaussianProduct_is_monotonic.run {}) (·.ret)),
       ("PiShape", Py.retOf (Gen.Code.PiShape_is_monotonic.run {}) (·.ret)),
       ("Ramp", Py.retOf (Gen.Code.Ramp_is_monotonic.run {}) (·.ret)),
       ("Rectangle", Py.retOf (Gen.Code.Rectangle_is_monotonic.run {}) (·.ret)),
       ("SemiEllipse", Py.retOf (Gen.Code.SemiEllipse_is_monotonic.run {}) (·.ret)),
       ("Sigmoid", Py.retOf (Gen.Code.Sigmoid_is_monotonic.run {}) (·.ret)),
       ("SigmoidDifference", Py.retOf (Gen.Code.SigmoidDifference_is_monotonic.run {}) (·.ret)),
       ("SigmoidProduct", Py.retOf (Gen.Code.SigmoidProduct_is_monotonic.run {}) (·.ret)),
       ("Spike", Py.retOf (Gen.Code.Spike_is_monotonic.run {}) (·.ret)),
       ("SShape", Py.retOf (Gen.Code.SShape_is_monotonic.run {}) (·.ret)),
       ("Trapezoid", Py.retOf (Gen.Code.Trapezoid_is_monotonic.run {}) (·.ret)),
       ("Triangle", Py.retOf (Gen.Code.Triangle_is_monotonic.run {}) (·.ret)),
       ("ZShape", Py.retOf (Gen.Code.ZShape_is_monotonic.run {}) (·.ret))] :=
  Op.code_isMonotonic

/-- `Term.__init__` as translated from the source: the constructor stores the name and the height it is given and does
    not raise (every shape class calls it first; the models read `name` / `height` as the arguments) -/
theorem code_termInit (name : String) (height : X Rat) (σ0 : Gen.Code.Term_init.S) :
    ∃ σ, Gen.Code.Term_init.run name height σ0 = .ok σ ∧ σ.self_name = name ∧ σ.self_height = height :=
  Op.code_termInit name height σ0

/-- the table entry of a term's class is `Spec.isMonotonic` -/
theorem isMonotonic_lookup (t : Term ℝ) (hnd : ∀ pts h, t ≠ .discrete pts h) (hnc : ∀ k, t ≠ .constant k) :
    Spec.isMonotonicTable.lookup t.cls = some (isMonotonic t) := by
  cases t <;> first | exact absurd rfl (hnd _ _) | exact absurd rfl (hnc _) | (simp only [Term.cls, isMonotonic]; decide)

theorem monotone_generic {α : Type} [Field α] [LinearOrder α] [IsStrictOrderedRing α] (s e h : α) (hh : 0 ≤ h) :
    (s < e → Monotone (Mu.ramp s e h)) ∧ (e < s → Antitone (Mu.ramp s e h)) ∧
    (s < e → Monotone (Mu.concave s e h)) ∧ (e < s → Antitone (Mu.concave s e h)) ∧
    (s < e → Monotone (Mu.sShape s e h)) ∧ (s < e → Antitone (Mu.zShape s e h)) :=
  ⟨fun h1 => TermMono.ramp_mono s e h h1 hh, fun h1 => TermMono.ramp_anti s e h h1 hh,
   fun h1 => TermMono.concave_mono s e h h1 hh, fun h1 => TermMono.concave_anti s e h h1 hh,
   fun h1 => TermMono.sShape_mono s e h h1 hh, fun h1 => TermMono.zShape_anti s e h h1 hh⟩

/-- every valid term of a monotonic class is monotone: non-decreasing when `Spec.increasing`, non-increasing otherwise -/
theorem monotone (t : Term ℝ) (hv : t.Valid) (hm : isMonotonic t = true) :
    if increasing t = true then Monotone (mu Fn.real t) else Antitone (mu Fn.real t) := by
  obtain ⟨hs, hh⟩ := hv
  cases t with
  | arc s e h =>
    have hpos : 0 < h := hh.1
    rcases lt_or_gt_of_ne hs with h1 | h1
    · simp only [increasing, h1, decide_true, if_true]; exact TermMono.arc_mono s e h h1 hpos.le
    · simp only [increasing, not_lt.2 h1.le, decide_false, Bool.false_eq_true, if_false]
      exact TermMono.arc_anti s e h h1 hpos.le
  | concave i e h =>
    have hpos : 0 < h := hh.1
    rcases lt_or_gt_of_ne hs with h1 | h1
    · simp only [increasing, h1, decide_true, if_true]; exact TermMono.concave_mono i e h h1 hpos.le
    · simp only [increasing, not_lt.2 h1.le, decide_false, Bool.false_eq_true, if_false]
      exact TermMono.concave_anti i e h h1 hpos.le
  | ramp s e h =>
    have hpos : 0 < h := hh.1
    rcases lt_or_gt_of_ne hs with h1 | h1
    · simp only [increasing, h1, decide_true, if_true]; exact TermMono.ramp_mono s e h h1 hpos.le
    · simp only [increasing, not_lt.2 h1.le, decide_false, Bool.false_eq_true, if_false]
      exact TermMono.ramp_anti s e h h1 hpos.le
  | sigmoid i sl h =>
    have hpos : 0 < h := hh.1
    rcases lt_or_gt_of_ne hs with h1 | h1
    · simp only [increasing, not_lt.2 h1.le, decide_false, Bool.false_eq_true, if_false]
      exact TermMono.sigmoid_anti i sl h h1 hpos.le
    · simp only [increasing, h1, decide_true, if_true]; exact TermMono.sigmoid_mono i sl h h1 hpos.le
  | sShape s e h =>
    have hpos : 0 < h := hh.1
    simp only [increasing, if_true]; exact TermMono.sShape_mono s e h hs hpos.le
  | zShape s e h =>
    have hpos : 0 < h := hh.1
    simp only [increasing, Bool.false_eq_true, if_false]; exact TermMono.zShape_anti s e h hs hpos.le
  | _ => simp [isMonotonic] at hm

/-! ## `Discrete`: laws of the interpolation model `Op.interp` (tied to `numpy.interp` by the correspondence) -/

section generic
variable {α : Type} [Field α] [LinearOrder α] [IsStrictOrderedRing α]

/-- passes through every listed point: `μ(x_i) = h · y_i` -/
theorem discrete_at_points (pts : List (α × α)) (h : α) (hp : DiscreteOk pts) (p : α × α) (hmem : p ∈ pts) :
    Mu.discrete pts h p.1 = h * p.2 := by
  unfold Mu.discrete; rw [Op.interp_at pts (TermRange.discreteOk_incX pts hp).1 p hmem]

/-- between two neighbouring points: the chord, hence between the two ordinates -/
theorem discrete_between (l r : List (α × α)) (a b : α × α) (x : α) (h : Op.IncX (l ++ a :: b :: r))
    (h1 : a.1 ≤ x) (h2 : x < b.1) :
    Op.interp (l ++ a :: b :: r) x = a.2 + (b.2 - a.2) / (b.1 - a.1) * (x - a.1) ∧
    min a.2 b.2 ≤ Op.interp (l ++ a :: b :: r) x ∧ Op.interp (l ++ a :: b :: r) x ≤ max a.2 b.2 :=
  ⟨Op.interp_seg l r a b x h h1 h2, Op.interp_between l r a b x h h1 h2⟩

/-- clamped at both ends -/
theorem discrete_clamped (l : List (α × α)) (a b : α × α) (x : α) :
    (x < a.1 → Op.interp (a :: l) x = a.2) ∧ (Op.IncX (l ++ [b]) → b.1 ≤ x → Op.interp (l ++ [b]) x = b.2) :=
  ⟨Op.interp_first a l x, Op.interp_last l b x⟩

/-- NaN in, NaN out; `−inf` / `+inf` give the first / last ordinate (times the height) -/
theorem discrete_special (pts : List (α × α)) (p : α × α) (h : α) :
    Op.discrete (p :: pts) (fin h) nan = nan ∧ Op.discrete (p :: pts) (fin h) ninf = fin (h * p.2) ∧
    Op.discrete (p :: pts) (fin h) pinf = fin (h * Op.lastY 0 (p :: pts)) ∧
    ∀ x : α, Op.discrete (p :: pts) (fin h) (fin x) = fin (Mu.discrete (p :: pts) h x) := by
  refine ⟨rfl, rfl, rfl, fun x => rfl⟩

end generic

/-! ## `Discrete`: the model is the code

`Gen.Code.Discrete_membership`, `Discrete_x`, `Discrete_y`, `Discrete_to_xy`, `Discrete_create`, `Term_discretize` are
regenerated from `term.py` on every run (`fv/pylean.py`).  `numpy.interp` is the external `Py.Disc.npInterp`: the
interpolation model `Op.interpX` on finite sample points, except that NumPy returns the ordinate of a *single* sample
point for every argument, NaN included (F13). -/

/-- **Tie A (code → model).**  `Discrete.membership` on the array of the finite coordinate pairs `pts` (at least one)
    returns `Op.discrete pts h x` = `h · interp(x)` for every height and every scalar argument (NaN, ±inf included; the
    factor `np.where(np.isnan(x), nan, 1.0)` makes the single-pair term NaN at NaN); it raises `ValueError` for an
    array without entries and for an array that is not two-dimensional. -/
theorem code_discreteMembership (nf : X ℚ → List (X ℚ) → List (X ℚ) → X ℚ) (values : Py.Disc.Values) (h x : X ℚ) :
    (values.size = 0 → Gen.Code.Discrete_membership.run nf values h x {} = .error .value) ∧
    (values.ndim ≠ 2 → Gen.Code.Discrete_membership.run nf values h x {} = .error .value) ∧
    (∀ pts : List (ℚ × ℚ), pts ≠ [] → values = Py.Disc.Values.ofPts pts →
      ∃ σ, Gen.Code.Discrete_membership.run nf values h x {} = .ok σ ∧ σ.ret = some (Op.discrete pts h x)) :=
  Py.Disc.code_discreteMembership nf values h x

/-- **Tie A (code → model).**  `Discrete.x()` is the first column of the array (`IndexError` below two dimensions or
    without columns): the abscissae of the pairs. -/
theorem code_discreteX (values : Py.Disc.Values) :
    (match values.column 0 with
     | .error e => Gen.Code.Discrete_x.run values {} = .error e
     | .ok c => ∃ σ, Gen.Code.Discrete_x.run values {} = .ok σ ∧ σ.ret = some c) ∧
    (∀ pts : List (X ℚ × X ℚ), (Py.Disc.Values.ofPairs pts).column 0 = .ok (.vec (pts.map (·.1)))) ∧
    (∀ v, (Py.Disc.Values.scalar v).column 0 = .error .lookup) ∧
    (∀ l, (Py.Disc.Values.vec l).column 0 = .error .lookup) :=
  Py.Disc.code_discreteX values

/-- **Tie A (code → model).**  `Discrete.y()` is the second column: the ordinates of the pairs. -/
theorem code_discreteY (values : Py.Disc.Values) :
    (match values.column 1 with
     | .error e => Gen.Code.Discrete_y.run values {} = .error e
     | .ok c => ∃ σ, Gen.Code.Discrete_y.run values {} = .ok σ ∧ σ.ret = some c) ∧
    (∀ pts : List (X ℚ × X ℚ), (Py.Disc.Values.ofPairs pts).column 1 = .ok (.vec (pts.map (·.2)))) ∧
    (∀ v, (Py.Disc.Values.scalar v).column 1 = .error .lookup) ∧
    (∀ l, (Py.Disc.Values.vec l).column 1 = .error .lookup) :=
  Py.Disc.code_discreteY values

/-- **Tie A (code → model).**  `Discrete.to_xy(x, y)` raises `ValueError` for coordinate arrays of different shapes
    and otherwise returns `array([x, y]).T`; for two vectors of the same length this is the array of the pairs. -/
theorem code_toXy (x y : Py.Disc.Coord) :
    (match Py.Disc.toXy x y with
     | .error e => Gen.Code.Discrete_to_xy.run x y {} = .error e
     | .ok v => ∃ σ, Gen.Code.Discrete_to_xy.run x y {} = .ok σ ∧ σ.ret = some v) ∧
    (∀ a b : List (X ℚ), Py.Disc.toXy (.vec a) (.vec b) =
      if a.length = b.length then .ok (Py.Disc.Values.ofPairs (List.zip a b)) else .error .value) :=
  ⟨Py.Disc.code_toXy x y, Py.Disc.toXy_vec⟩

/-- **Tie A (code → model).**  `Discrete.create(name, xy, height)` raises the exception / returns the term the model
    `Py.Disc.create` says, for every kind of `xy` (text, flat list, flat tuple, tuple of two lists, dictionary, anything
    else).  For a flat list of finite numbers the term holds the pairs `Op.pairs` makes of it, and an odd number of
    entries is a `ValueError`; a flat *tuple* of numbers is taken for a pair of sequences: the term holds the
    one-dimensional array of its first two entries (recorded behaviour of the source as it is). -/
theorem code_discreteCreate (parse : String → Py.M (X ℚ)) (name : String) (xy : Py.Disc.XY) (height : X ℚ) :
    (match Py.Disc.create parse name xy height with
     | .error e => Gen.Code.Discrete_create.run parse name xy height {} = .error e
     | .ok d => ∃ σ, Gen.Code.Discrete_create.run parse name xy height {} = .ok σ ∧ σ.ret = some d) ∧
    (∀ l : List ℚ, Py.Disc.create parse name (.seq false (l.map (fun v => Py.Disc.Item.num (X.fin v)))) height =
      match Op.pairs l with
      | some pts => .ok ⟨name, Py.Disc.Values.ofPts pts, height⟩
      | none => .error .value) ∧
    (∀ (a b : X ℚ) (l : List (X ℚ)),
      Py.Disc.create parse name (.seq true ((a :: b :: l).map Py.Disc.Item.num)) height =
        .ok ⟨name, .vec [a, b], height⟩) :=
  ⟨Py.Disc.code_discreteCreate parse name xy height, fun l => Py.Disc.create_flat parse name l height,
   fun a b l => Py.Disc.create_flat_tuple parse name a b l height⟩

/-- **Tie A (code → model).**  `Term.discretize(start, end, resolution, midpoints)` samples the membership function
    `mem` at `Op.midpoints` or at `np.linspace(start, end, resolution + 1)` and makes a `Discrete` term of height 1 of
    the pairs (model `Py.Disc.discretize`; exceptions of `Op.midpoints`, of the membership function and of `to_xy`
    are passed on). -/
theorem code_discretize (mem : List (X ℚ) → Py.M Py.Disc.Coord) (name : String) (lo hi : X ℚ) (resolution : Nat)
    (mid : Bool) :
    match Py.Disc.discretize mem name lo hi resolution mid with
    | .error e => Gen.Code.Term_discretize.run mem name lo hi resolution mid {} = .error e
    | .ok d => ∃ σ, Gen.Code.Term_discretize.run mem name lo hi resolution mid {} = .ok σ ∧ σ.ret = some d :=
  Py.Disc.code_discretize mem name lo hi resolution mid

/-! ## `Linear`, `Constant`: the terms of the Takagi-Sugeno controllers (no traced formula: they ignore `x`)

`Gen.Code.Linear_membership`, `Constant_membership` are regenerated from `term.py` on every run.  NumPy values are
`Py.Np.Nd` (0-d, vector, matrix as the list of its rows).  (Used by the weighted defuzzifiers of C10.) -/

/-- **Tie A (code → model).**  `Linear.membership` returns, for every row of `engine.input_values`, the value of the
    model `Op.Weighted.linear` (coefficients · row + optional constant) - an engine with `n` input variables whose
    value columns form the rows `rows` (each of `n` entries; an engine without input variables has the single row
    without entries); it raises `ValueError` without an engine and when the number of coefficients is neither `n` nor
    `n + 1`.  (`x` is not used.) -/
theorem code_linearMembership (cs : List (X ℚ)) (n : Nat) (rows : List (List (X ℚ)))
    (hrows : ∀ r ∈ rows, r.length = n) :
    Gen.Code.Linear_membership.run cs none {} = .error .value ∧
    (cs.length ≠ n → cs.length ≠ n + 1 →
      Gen.Code.Linear_membership.run cs (some (Py.Disc.Engine.ofRows n rows)) {} = .error .value) ∧
    (cs.length = n ∨ cs.length = n + 1 →
      ∃ σ, Gen.Code.Linear_membership.run cs (some (Py.Disc.Engine.ofRows n rows)) {} = .ok σ ∧
        σ.ret = some (.vec ((if n = 0 then [[]] else rows).map (Op.Weighted.linear cs)))) :=
  Py.Disc.code_linearMembership cs n rows hrows

/-- **Tie A (code → model).**  `Constant.membership` returns an array of the shape of its argument filled with the
    value (`np.full_like`); for a scalar argument the value - whatever the argument is, NaN included. -/
theorem code_constantMembership (value : X ℚ) (x : Py.Np.Nd) :
    (∃ σ, Gen.Code.Constant_membership.run value x {} = .ok σ ∧ σ.ret = some (Py.Disc.fullLike x value)) ∧
    (∀ v, Py.Disc.fullLike (.scalar v) value = .scalar value) :=
  Py.Disc.code_constantMembership value x

/-- the `Linear` and `Discrete` branches of the engine model (`Op.Engine.membership`, the model of C01 / C02 / C13) are
    these two component models: with `n` input values, `n` or `n + 1` coefficients give `Op.Weighted.linear` and any
    other number fails; finite coordinate pairs (at least one) give `Op.discrete` -/
theorem engine_model_linear_discrete {α : Type} [Field α] [LinearOrder α] [IsStrictOrderedRing α] (F : Fn α)
    (inputs : List (X α)) (name : String) (x : X α) :
    (∀ cs : List (X α), Op.Engine.membership F inputs (.linear name cs) x =
      if cs.length = inputs.length ∨ cs.length = inputs.length + 1 then some (Op.Weighted.linear cs inputs) else none) ∧
    (∀ (pts : List (α × α)) (h : X α), pts ≠ [] →
      Op.Engine.membership F inputs (.discrete name (pts.map (fun p => X.fin p.1)) (pts.map (fun p => X.fin p.2)) h) x =
        some (Op.discrete pts h x)) :=
  ⟨fun cs => Op.Engine.membership_linear F inputs name cs x,
   fun pts h hne => Op.Engine.membership_discrete F inputs name pts hne h x⟩

/-! ## non-vacuity: the hypotheses are met by concrete terms -/
example : (Term.triangle (.fin (0 : ℝ)) (1 / 2) (.fin 1) (9 / 10)).Valid := by
  refine ⟨⟨Or.inr ⟨0, rfl, by norm_num⟩, Or.inr ⟨1, rfl, by norm_num⟩⟩, ?_⟩
  constructor <;> norm_num [Term.height]
example : (Term.trapezoid (.ninf : X ℝ) 1 2 .pinf 1).Valid :=
  ⟨⟨Or.inl rfl, by norm_num, Or.inl rfl⟩, by constructor <;> norm_num [Term.height]⟩
example : DiscreteOk [((0 : ℚ), (0 : ℚ)), (1, 1), (2, 1 / 2)] := by
  simp only [DiscreteOk]; norm_num
example : Mu.triangle (.fin (0 : ℚ)) (1 / 2) (.fin 1) (9 / 10) (1 / 4) = 9 / 20 := by
  simp [Mu.triangle, X.lt]; norm_num

end C03
