import FlVerif.Spec.Term
import FlVerif.Base.FnReal
import FlVerif.Gen.TermGen
import FlVerif.Lemmas.Tsukamoto
import FlVerif.Props.C03

/-! # C11 — Tsukamoto values invert the monotonic membership functions

`Gen.Term.<Class>.tsukamoto` is regenerated from `fuzzylite/term.py` on every run; `Spec.Tsu.<class>` are the
documented inverse formulas (with the docstring typos listed in `Spec/Term.lean` corrected: the definitions there are
the algebraic inverses of the documented membership equations).  `z(y)` below is `Spec.tsukamoto`. -/

set_option linter.unusedSectionVars false
set_option linter.unusedVariables false
set_option linter.unusedSimpArgs false

namespace C11
open X Spec

section generic
variable {α : Type} [Field α] [LinearOrder α] [IsStrictOrderedRing α]

/-! ## the traced code computes the documented inverse (any ordered field, any function bundle) and is finite -/

theorem gen_arc (F : Fn α) (s e h y : α) (hh : 0 < h) (hy0 : 0 ≤ y) (hyh : y ≤ h) :
    Gen.Term.Arc.tsukamoto F (fin s) (fin e) (fin h) (fin y) = fin (Tsu.arc F s e h y) :=
  Tsukamoto.arc_fin F s e h y hh hy0 hyh
theorem gen_concave (F : Fn α) (i e h y : α) (hy : y ≠ 0) :
    Gen.Term.Concave.tsukamoto F (fin i) (fin e) (fin h) (fin y) = fin (Tsu.concave i e h y) :=
  Tsukamoto.concave_fin F i e h y hy
theorem gen_ramp (F : Fn α) (s e h y : α) (hh : h ≠ 0) :
    Gen.Term.Ramp.tsukamoto F (fin s) (fin e) (fin h) (fin y) = fin (Tsu.ramp s e h y) :=
  Tsukamoto.ramp_fin F s e h y hh
theorem gen_sigmoid (F : Fn α) (i sl h y : α) (hsl : sl ≠ 0) (hy0 : 0 < y) (hyh : y < h) :
    Gen.Term.Sigmoid.tsukamoto F (fin i) (fin sl) (fin h) (fin y) = fin (Tsu.sigmoid F i sl h y) :=
  Tsukamoto.sigmoid_fin F i sl h y hsl hy0 hyh
theorem gen_sShape (F : Fn α) (s e h y : α) (hh : 0 < h) (hy0 : 0 ≤ y) (hyh : y ≤ h) :
    Gen.Term.SShape.tsukamoto F (fin s) (fin e) (fin h) (fin y) = fin (Tsu.sShape F s e h y) :=
  Tsukamoto.sShape_fin F s e h y hh hy0 hyh
theorem gen_zShape (F : Fn α) (s e h y : α) (hh : 0 < h) (hy0 : 0 ≤ y) (hyh : y ≤ h) :
    Gen.Term.ZShape.tsukamoto F (fin s) (fin e) (fin h) (fin y) = fin (Tsu.zShape F s e h y) :=
  Tsukamoto.zShape_fin F s e h y hh hy0 hyh

/-! ## what the code returns at `y = 0`: `∓inf` for Sigmoid and Concave (not finite – the operand of F4 in C10) -/

theorem at_zero_sigmoid (F : Fn α) (i sl h : α) (hsl : sl ≠ 0) (hh : 0 < h) :
    Gen.Term.Sigmoid.tsukamoto F (fin i) (fin sl) (fin h) (fin 0) = if 0 < sl then ninf else pinf :=
  Tsukamoto.sigmoid_zero F i sl h hsl hh
theorem at_zero_concave (F : Fn α) (i e h : α) (hie : i ≠ e) (hh : 0 < h) :
    Gen.Term.Concave.tsukamoto F (fin i) (fin e) (fin h) (fin 0) = if i < e then ninf else pinf :=
  Tsukamoto.concave_zero F i e h hie hh
/-- Ramp at the ends of the range of degrees: the start at `0`, the end at the height -/
theorem at_zero_ramp (s e h : α) (hh : h ≠ 0) : Tsu.ramp s e h 0 = s ∧ Tsu.ramp s e h h = e := by
  unfold Tsu.ramp; constructor
  · simp
  · field_simp; ring

end generic

/-! ## classes that are not monotonic have no Tsukamoto value -/

/-- the classes that override `tsukamoto` are exactly the ones whose `is_monotonic()` is true -/
theorem overrides_table : Gen.tsukamotoOverrides = (Gen.isMonotonicTable.filter (·.2)).map (·.1) := by decide

/-- for any class outside that list the dispatcher has no entry (the implementation raises `RuntimeError`) -/
theorem nonmonotonic_none_gen (F : Fn ℝ) (cls : String) (ps : List (X ℝ)) (h y : X ℝ)
    (hc : cls ∉ Gen.tsukamotoOverrides) : Gen.termTsukamoto F cls ps h y = none := by
  unfold Gen.termTsukamoto
  split <;> first | rfl | (exfalso; apply hc; simp [Gen.tsukamotoOverrides])

theorem nonmonotonic_none (F : Fn ℝ) (t : Term ℝ) (y : ℝ) : isMonotonic t = false ↔ tsukamoto F t y = none := by
  cases t <;> simp [isMonotonic, tsukamoto]

section real
open Real
local notation "F" => Fn.real

/-! ## finite value and `μ(z(y)) = y` for every `0 < y < height`, both directions, both branches of S/Z -/

theorem inverse_ramp (s e h y : ℝ) (hse : s ≠ e) (hy : 0 < y) (hyh : y < h) : Mu.ramp s e h (Tsu.ramp s e h y) = y :=
  Tsukamoto.ramp_inv s e h y hse hy hyh
theorem inverse_concave (i e h y : ℝ) (hie : i ≠ e) (hy : 0 < y) (hyh : y < h) :
    Mu.concave i e h (Tsu.concave i e h y) = y := Tsukamoto.concave_inv i e h y hie hy hyh
theorem inverse_arc (s e h y : ℝ) (hse : s ≠ e) (hy : 0 < y) (hyh : y < h) : Mu.arc F s e h (Tsu.arc F s e h y) = y :=
  Tsukamoto.arc_inv s e h y hse hy hyh
theorem inverse_sigmoid (i sl h y : ℝ) (hs : sl ≠ 0) (hy : 0 < y) (hyh : y < h) :
    Mu.sigmoid F i sl h (Tsu.sigmoid F i sl h y) = y := Tsukamoto.sigmoid_inv i sl h y hs hy hyh
theorem inverse_sShape (s e h y : ℝ) (hse : s < e) (hy : 0 < y) (hyh : y < h) :
    Mu.sShape s e h (Tsu.sShape F s e h y) = y := Tsukamoto.sShape_inv s e h y hse hy hyh
theorem inverse_zShape (s e h y : ℝ) (hse : s < e) (hy : 0 < y) (hyh : y < h) :
    Mu.zShape s e h (Tsu.zShape F s e h y) = y := Tsukamoto.zShape_inv s e h y hse hy hyh

/-- at the branch point `y = h/2` the two pieces of the S / Z inverses agree: both give the midpoint -/
theorem branch_point (s e h : ℝ) (hh : 0 < h) :
    Tsu.sShape F s e h (h / 2) = (s + e) / 2 ∧ e - (e - s) * √((h - h / 2) / (2 * h)) = (s + e) / 2 ∧
    Tsu.zShape F s e h (h / 2) = (s + e) / 2 ∧ s + (e - s) * √((h - h / 2) / (2 * h)) = (s + e) / 2 := by
  have q1 : h / 2 / (2 * h) = 1 / 4 := by field_simp; norm_num
  have q2 : (h - h / 2) / (2 * h) = 1 / 4 := by field_simp; norm_num
  refine ⟨?_, ?_, ?_, ?_⟩
  · simp only [Tsu.sShape, le_refl, if_true, Fn.real, q1, Tsukamoto.sqrt_quarter]; ring
  · rw [q2, Tsukamoto.sqrt_quarter]; ring
  · simp only [Tsu.zShape, le_refl, if_true, Fn.real, q1, Tsukamoto.sqrt_quarter]; ring
  · rw [q2, Tsukamoto.sqrt_quarter]; ring

/-- the whole statement: for every valid term of a monotonic class and every `0 < y < height` the documented
    Tsukamoto value exists (a real number: finite) and the membership function maps it back to `y` -/
theorem inverse (t : Term ℝ) (hv : t.Valid) (hm : isMonotonic t = true) (y : ℝ) (hy : 0 < y) (hyh : y < t.height) :
    ∃ z : ℝ, tsukamoto F t y = some z ∧ mu F t z = y := by
  obtain ⟨hs, hh⟩ := hv
  cases t with
  | arc s e h => exact ⟨_, rfl, Tsukamoto.arc_inv s e h y hs hy hyh⟩
  | concave i e h => exact ⟨_, rfl, Tsukamoto.concave_inv i e h y hs hy hyh⟩
  | ramp s e h => exact ⟨_, rfl, Tsukamoto.ramp_inv s e h y hs hy hyh⟩
  | sigmoid i sl h => exact ⟨_, rfl, Tsukamoto.sigmoid_inv i sl h y hs hy hyh⟩
  | sShape s e h => exact ⟨_, rfl, Tsukamoto.sShape_inv s e h y hs hy hyh⟩
  | zShape s e h => exact ⟨_, rfl, Tsukamoto.zShape_inv s e h y hs hy hyh⟩
  | _ => simp [isMonotonic] at hm

/-- the function the driver executes returns that value, as a finite number -/
theorem gen_eq_spec (t : Term ℝ) (hv : t.Valid) (hm : isMonotonic t = true) (y : ℝ) (hy : 0 < y) (hyh : y < t.height) :
    Gen.termTsukamoto F t.cls t.params (fin t.height) (fin y) = (tsukamoto F t y).map fin := by
  obtain ⟨hs, hh⟩ := hv
  cases t with
  | arc s e h =>
    have hpos : 0 < h := hh.1
    exact congrArg some (Tsukamoto.arc_fin F s e h y hpos hy.le (le_of_lt hyh))
  | concave i e h => exact congrArg some (Tsukamoto.concave_fin F i e h y hy.ne')
  | ramp s e h =>
    have hpos : 0 < h := hh.1
    exact congrArg some (Tsukamoto.ramp_fin F s e h y hpos.ne')
  | sigmoid i sl h => exact congrArg some (Tsukamoto.sigmoid_fin F i sl h y hs hy hyh)
  | sShape s e h =>
    have hpos : 0 < h := hh.1
    exact congrArg some (Tsukamoto.sShape_fin F s e h y hpos hy.le (le_of_lt hyh))
  | zShape s e h =>
    have hpos : 0 < h := hh.1
    exact congrArg some (Tsukamoto.zShape_fin F s e h y hpos hy.le (le_of_lt hyh))
  | _ => simp [isMonotonic] at hm

/-- finiteness and the round trip at the level of the regenerated code: `membership(tsukamoto(y)) = y` -/
theorem code_round_trip (t : Term ℝ) (hv : t.Valid) (hm : isMonotonic t = true) (y : ℝ) (hy : 0 < y)
    (hyh : y < t.height) :
    ∃ z : ℝ, Gen.termTsukamoto F t.cls t.params (fin t.height) (fin y) = some (fin z) ∧
      Gen.termMembership F t.cls t.params (fin t.height) (fin z) = some (fin y) := by
  obtain ⟨z, hz, hmu⟩ := inverse t hv hm y hy hyh
  refine ⟨z, ?_, ?_⟩
  · rw [gen_eq_spec t hv hm y hy hyh, hz]; rfl
  · have hnd : ∀ pts h, t ≠ .discrete pts h := by intro pts h h0; rw [h0] at hm; simp [isMonotonic] at hm
    rw [C03.gen_eq_spec t hv hnd (fin z)]
    simp [muX, hmu]

/-! ## `z` is strictly monotone in `y`, in the direction of the term -/

theorem mono (t : Term ℝ) (hv : t.Valid) (hm : isMonotonic t = true) (z : ℝ → ℝ)
    (hz : ∀ y, tsukamoto F t y = some (z y)) {y1 y2 : ℝ} (h0 : 0 < y1) (h12 : y1 < y2) (h2 : y2 < t.height) :
    if increasing t = true then z y1 < z y2 else z y2 < z y1 := by
  have hinv : ∀ y, 0 < y → y < t.height → mu F t (z y) = y := by
    intro y hy hyh
    obtain ⟨w, hw, hmu⟩ := inverse t hv hm y hy hyh
    rw [hz y] at hw
    cases hw
    exact hmu
  have hmono := C03.monotone t hv hm
  split_ifs with hinc
  · rw [if_pos hinc] at hmono
    exact Tsukamoto.strictMono_of_inverse hmono hinv h0 h12 h2
  · rw [if_neg hinc] at hmono
    exact Tsukamoto.strictAnti_of_inverse hmono hinv h0 h12 h2

/-- at `y = 0` the other four classes return the point where the membership starts to rise / finishes falling -/
theorem at_zero_finite (s e h : ℝ) (hh : 0 < h) :
    Tsu.arc F s e h 0 = s ∧ Tsu.sShape F s e h 0 = s ∧ Tsu.zShape F s e h 0 = e := by
  have hle : (0 : ℝ) ≤ h / 2 := by linarith
  refine ⟨?_, ?_, ?_⟩
  · unfold Tsu.arc
    simp only [Fn.real, zero_mul, zero_div, ne_eq, OfNat.ofNat_ne_zero, not_false_eq_true, zero_pow, sub_zero,
      Real.sqrt_sq_eq_abs]
    split_ifs with h1
    · rw [abs_of_pos (by linarith)]; ring
    · rw [abs_of_nonpos (by linarith [not_lt.1 h1])]; ring
  · simp [Tsu.sShape, hle, Fn.real]
  · simp [Tsu.zShape, hle, Fn.real]

/-! ## non-vacuity -/
example : (Term.sShape (0 : ℝ) 1 (1 / 2)).Valid ∧ isMonotonic (Term.sShape (0 : ℝ) 1 (1 / 2)) = true := by
  refine ⟨⟨by norm_num [Term.ValidShape], ?_⟩, rfl⟩
  constructor <;> norm_num [Term.height]
example : Tsu.ramp (0 : ℚ) 2 (1 / 2) (1 / 4) = 1 := by norm_num [Tsu.ramp]

end real
end C11
