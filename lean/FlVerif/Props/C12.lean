import FlVerif.Op.Cascade
import FlVerif.Gen.SetterGen
import Mathlib.Tactic.Linarith
import FlVerif.Lemmas.CodeCascade
import FlVerif.Lemmas.CodeEngineIOVar
import FlVerif.Lemmas.CodeRaised

/-! # C12 — Output values follow the lock-previous / default / lock-range cascade

`Op.commit` follows `OutputVariable.defuzzify` statement by statement; the theorems hold for batches and histories
of ANY length and for all 12 settings at once (the flags and the default are universally quantified). -/

namespace C12
variable {α : Type} [Field α] [LinearOrder α] [IsStrictOrderedRing α]
open Op X

/-- **Tie A (code → model).**  `Gen.Code.OutputVariable_defuzzify` is regenerated from the source of
    `OutputVariable.defuzzify` on every run (`fv/pylean.py`; the array `value` is the list of its rows, the
    `np.nditer` block is the in-place loop over them, the masked assignment of the default and the clipping setter of
    `Variable.value` are the externals `Py.Cascade.maskNan` / `Py.Cascade.setValue`).  `r` is what the defuzzifier step
    yields: the raw batch, the exception the defuzzifier raises, or `ValueError` when there is no defuzzifier.  For
    every setting, raw batch and previous state: when the model `Op.defuzzify` says "raises", the code raises that
    exception (nothing was assigned); otherwise `self.value` / `self.previous_value` after the call are the state the
    model returns (`Op.commit` for an enabled variable, the unchanged state for a disabled one). -/
theorem code_defuzzify (c : CascadeCfg Rat) (hasDefuzzifier : Bool) (raw : Py.M (List (X Rat))) (s : OutState Rat) :
    let r : Py.M (List (X Rat)) := if hasDefuzzifier then raw else .error .value
    match defuzzify c r.toOption s with
    | (_, true) => ∃ err, r = .error err ∧ Gen.Code.OutputVariable_defuzzify.run c hasDefuzzifier raw s {} = .error err
    | (s', false) => ∃ σ, Gen.Code.OutputVariable_defuzzify.run c hasDefuzzifier raw s {} = .ok σ ∧
        σ.self_value = s'.value ∧ σ.self_previous_value = s'.previous :=
  Op.code_defuzzify c hasDefuzzifier raw s

/-- **Tie A, the state at a raise.**  `Gen.Code.OutputVariable_defuzzify_rs` is the same source translated with
    `raise_state` (an exception carries the record of the locals as it is at the raise; same profile, same externals;
    `fz` is the fuzzy output before the call).  For every setting, defuzzifier outcome and previous state: when the
    translated function raises - there is no defuzzifier (`ValueError`) or the defuzzifier raises - the record at the
    raise has `self.value`, `self.previous_value` and the fuzzy output **exactly as on entry** (nothing has been assigned;
    the source assigns `previous_value` only after the defuzzifier has returned), and the plain translation, which
    `code_defuzzify` ties to the model, raises the same class; on success both translations assign the same
    `self.value` / `self.previous_value` and the fuzzy output is untouched. -/
theorem code_defuzzify_raise_unchanged (c : CascadeCfg Rat) (hasDefuzzifier : Bool) (raw : Py.M (List (X Rat)))
    (s : OutState Rat) (fz : List (Op.Engine.Act Rat)) :
    match Gen.Code.OutputVariable_defuzzify_rs.run c hasDefuzzifier raw s fz {} with
    | .error (err, σ) => (σ.self_value = s.value ∧ σ.self_previous_value = s.previous ∧ σ.self_fuzzy = fz) ∧
        Gen.Code.OutputVariable_defuzzify.run c hasDefuzzifier raw s {} = .error err
    | .ok σ => σ.self_fuzzy = fz ∧ ∃ σ', Gen.Code.OutputVariable_defuzzify.run c hasDefuzzifier raw s {} = .ok σ' ∧
        σ.self_value = σ'.self_value ∧ σ.self_previous_value = σ'.self_previous_value :=
  Op.code_defuzzify_raise_unchanged c hasDefuzzifier raw s fz

/-! ## helper facts about clipping -/

/-- clipping to a range without NaN bounds keeps NaN-ness -/
theorem clip_isnan (v lo hi : X α) (hlo : isnan lo = false) (hhi : isnan hi = false) :
    isnan (clip v lo hi) = isnan v := by
  simp [clip, isnan_npmin, isnan_npmax, hlo, hhi]

theorem clip_idempotent (v lo hi : X α) : clip (clip v lo hi) lo hi = clip v lo hi := by
  cases v <;> cases lo <;> cases hi <;> simp [clip, npmin, npmax, le, isnan] <;> grind

/-! ## the row cascade is the documented one -/

theorem setter_idempotent (c : CascadeCfg α) (v : X α) : setter c (setter c v) = setter c v := by
  unfold setter; cases c.lockRange <;> simp [clip_idempotent]

/-- one committed row = the documented cascade applied to (most recent value, defuzzified value) -/
theorem row_spec (c : CascadeCfg α) (recent raw : X α) :
    post c (if c.lockPrev && isnan raw then recent else raw) = Spec.cascadeRow c recent raw := by
  unfold post substDefault setter Spec.cascadeRow
  cases c.lockPrev <;> cases hr : isnan raw <;> cases hd : isnan c.dflt <;> cases hq : isnan recent <;>
    cases c.lockRange <;> simp [hr, hd, hq]

/-- a single-row call: value = cascade(last value held, raw); previous = last value held -/
theorem single_row (c : CascadeCfg α) (s : OutState α) (raw : X α) :
    commit c [raw] s =
      { value := [Spec.cascadeRow c (lastOr nan s.value) raw], previous := lastOr nan s.value } := by
  unfold commit
  simp only [OutState.mk.injEq, and_true]
  rw [← row_spec]
  cases hl : c.lockPrev <;> cases hr : isnan raw <;> simp [fill, hr]

/-! ## closed form of every row of a batch -/

theorem fill_getElem (p : X α) (xs : List (X α)) (i : Nat) (h : i < xs.length) :
    (fill p xs)[i]? = some (carry p (xs.take (i+1))) := by
  induction xs generalizing p i with
  | nil => cases h
  | cons x xs ih =>
    cases i with
    | zero => simp only [fill, carry, List.take]; split <;> simp [carry, *]
    | succ i =>
      have h' : i < xs.length := by simpa using h
      simp only [fill, carry, List.take]
      split <;> simp [ih _ i h', carry, *]

/-- `carry p xs` is the last non-NaN element of `xs`, or `p` when there is none -/
theorem carry_spec (p : X α) (xs : List (X α)) :
    carry p xs = ((xs.reverse.find? (fun v => !isnan v)).getD p) := by
  induction xs generalizing p with
  | nil => rfl
  | cons x xs ih =>
    simp only [carry, List.reverse_cons, List.find?_append]
    cases hx : isnan x
    · simp only [Bool.false_eq_true, if_false, ih]
      cases h : xs.reverse.find? (fun v => !isnan v) <;> simp [hx]
    · simp only [if_true, ih]
      cases h : xs.reverse.find? (fun v => !isnan v) <;> simp [hx]

/-- C12 closed form: with lock-previous, row `i` of the committed batch is the post-processed last non-NaN
    defuzzified value among rows `≤ i`, or of the value held before the call when there is none -/
theorem closed_form_lock (c : CascadeCfg α) (hl : c.lockPrev = true) (s : OutState α) (raw : List (X α))
    (i : Nat) (h : i < raw.length) :
    (commit c raw s).value[i]? =
      some (post c ((((raw.take (i+1)).reverse.find? (fun v => !isnan v)).getD (lastOr nan s.value)))) := by
  unfold commit
  simp only [hl, if_true, List.getElem?_map, fill_getElem _ _ _ h, Option.map_some, carry_spec]

/-- without lock-previous every row is post-processed independently -/
theorem closed_form_nolock (c : CascadeCfg α) (hl : c.lockPrev = false) (s : OutState α) (raw : List (X α)) :
    (commit c raw s).value = raw.map (post c) := by
  unfold commit; simp [hl]

/-! ## invariance under every split into successive calls / batches -/

theorem fill_append (p : X α) (xs ys : List (X α)) :
    fill p (xs ++ ys) = fill p xs ++ fill (carry p xs) ys := by
  induction xs generalizing p with
  | nil => rfl
  | cons x xs ih => simp only [List.cons_append, fill, carry]; split <;> simp [ih]

theorem lastOr_fill (p d : X α) (xs : List (X α)) (h : xs ≠ []) :
    lastOr d (fill p xs) = carry p xs := by
  induction xs generalizing p d with
  | nil => exact absurd rfl h
  | cons x xs ih =>
    cases xs with
    | nil => simp only [fill, carry]; split <;> rfl
    | cons y ys =>
      simp only [fill, carry] at ih ⊢
      split
      · exact ih p p (by simp)
      · exact ih x x (by simp)

theorem lastOr_map (f : X α → X α) (d : X α) (xs : List (X α)) :
    lastOr (f d) (xs.map f) = f (lastOr d xs) := by
  induction xs generalizing d with
  | nil => rfl
  | cons x xs ih => exact ih x

theorem post_isnan_of (c : CascadeCfg α) (hlo : isnan c.lo = false) (hhi : isnan c.hi = false) (v : X α) :
    isnan (post c v) = (isnan v && isnan c.dflt) := by
  unfold post substDefault setter
  cases hr : c.lockRange <;> cases hd : isnan c.dflt <;> cases hv : isnan v <;>
    simp [hd, hv, clip_isnan _ _ _ hlo hhi]

theorem post_idempotent (c : CascadeCfg α) (hlo : isnan c.lo = false) (hhi : isnan c.hi = false) (v : X α) :
    post c (post c v) = post c v := by
  have h := post_isnan_of c hlo hhi v
  unfold post substDefault setter at *
  cases hr : c.lockRange <;> cases hd : isnan c.dflt <;> cases hv : isnan v <;>
    simp_all [clip_idempotent, clip_isnan _ _ _ hlo hhi]

theorem map_post_fill_post (c : CascadeCfg α) (hlo : isnan c.lo = false) (hhi : isnan c.hi = false)
    (p : X α) (ys : List (X α)) :
    (fill (post c p) ys).map (post c) = (fill p ys).map (post c) := by
  induction ys with
  | nil => rfl
  | cons y ys ih =>
    simp only [fill]
    split
    · simp [List.map, post_idempotent c hlo hhi, ih]
    · simp

/-- C12 `split_invariant`: one call on `xs ++ ys` commits the same rows as a call on `xs` followed by a call on
    `ys` – hence the committed values are the same under EVERY split of a sequence into calls / batches -/
theorem split_invariant (c : CascadeCfg α) (hlo : isnan c.lo = false) (hhi : isnan c.hi = false)
    (s : OutState α) (xs ys : List (X α)) (hx : xs ≠ []) :
    (commit c (xs ++ ys) s).value = (commit c xs s).value ++ (commit c ys (commit c xs s)).value := by
  unfold commit
  cases hl : c.lockPrev
  · simp
  · simp only [if_true, fill_append, List.map_append]
    congr 1
    have hlast : lastOr nan ((fill (lastOr nan s.value) xs).map (post c)) = post c (carry (lastOr nan s.value) xs) := by
      cases h : fill (lastOr nan s.value) xs with
      | nil =>
        cases xs with
        | nil => exact absurd rfl hx
        | cons x xs => simp only [fill] at h; split at h <;> cases h
      | cons a as =>
        have h1 := lastOr_fill (lastOr nan s.value) (lastOr nan s.value) xs hx
        rw [h] at h1
        show lastOr (post c a) (as.map (post c)) = _
        rw [lastOr_map]
        exact congrArg (post c) h1
    rw [hlast, map_post_fill_post c hlo hhi]

/-- a batch commits exactly the rows that row-by-row calls commit (used by C02) -/
theorem batch_eq_rows (c : CascadeCfg α) (hlo : isnan c.lo = false) (hhi : isnan c.hi = false)
    (xs : List (X α)) (s : OutState α) :
    (commit c xs s).value = (commitRows c xs s).1 := by
  induction xs generalizing s with
  | nil => unfold commit; cases c.lockPrev <;> simp [commitRows, fill]
  | cons x xs ih =>
    have h := split_invariant c hlo hhi s [x] xs (by simp)
    simp only [List.singleton_append] at h
    rw [h, ih]
    simp [commitRows]

/-! ## previous value, disabled variable, failing defuzzifier, clear -/

/-- the recorded previous value is the last value held before the call -/
theorem previous_is_last_before_call (c : CascadeCfg α) (raw : List (X α)) (s : OutState α) :
    (commit c raw s).previous = lastOr nan s.value := rfl

theorem disabled_untouched (c : CascadeCfg α) (h : c.enabled = false) (raw : Option (List (X α))) (s : OutState α) :
    defuzzify c raw s = (s, false) := by
  unfold defuzzify; simp [h]

/-- if defuzzification raises, value and previous value are unchanged and the exception propagates -/
theorem raise_unchanged (c : CascadeCfg α) (h : c.enabled = true) (s : OutState α) :
    defuzzify c none s = (s, true) := by
  unfold defuzzify; simp [h]

theorem clear_resets (c : CascadeCfg α) (s : OutState α) (hlo : isnan c.lo = false) (hhi : isnan c.hi = false) :
    (clear c s).previous = nan ∧ (clear c s).value.length = 1 ∧ ∀ v ∈ (clear c s).value, isnan v = true := by
  refine ⟨rfl, rfl, ?_⟩
  intro v hv
  simp only [clear, List.mem_singleton] at hv
  subst hv
  unfold setter
  cases c.lockRange <;> simp [clip_isnan _ _ _ hlo hhi]

/-- the committed value always lies in the range when lock-range is on (for non-NaN rows and an ordered range) -/
theorem locked_in_range (c : CascadeCfg α) (h : c.lockRange = true) (lo hi : α) (hlo : c.lo = fin lo)
    (hhi : c.hi = fin hi) (hle : lo ≤ hi) (v : α) :
    ∃ w, post c (fin v) = fin w ∧ lo ≤ w ∧ w ≤ hi := by
  unfold post substDefault setter
  simp only [isnan_fin, Bool.and_false, Bool.false_eq_true, if_false, h, if_true, hlo, hhi, clip,
    npmax_fin, npmin_fin]
  exact ⟨_, rfl, le_min (le_max_right _ _) hle, min_le_right _ _⟩

/-! ## Tie A: the clipping setter of the model is the traced `Variable.value` setter -/

/-- the `Variable.value` setter as traced from the code (`np.clip(value, minimum, maximum) if lock_range else value`)
    is the setter of the model, for every value, range and flag -/
theorem gen_value_setter (c : CascadeCfg α) (v : X α) :
    setter c v = if c.lockRange then Gen.Setter.valueLocked c.lo c.hi v else Gen.Setter.valueUnlocked c.lo c.hi v := by
  unfold setter Gen.Setter.valueLocked Gen.Setter.valueUnlocked X.clip
  cases c.lockRange <;> rfl

/-- **Tie A (code → model), from the AST.**  `Gen.Code.Variable_set_value` is the setter of `Variable.value` translated
    statement by statement from the current source (`fv/pylean.py`; the attributes `lock_range`, `minimum`, `maximum`
    are the fields of the configuration, `np.clip` is `X.clip`): what it stores in `_value` is `Op.setter` – for every
    configuration and every value.  (The symbolic trace `Gen.Setter.*` above runs the setter on symbolic values; this
    theorem reads its source.  `Py.Cascade.setValue`, `InVar.setValue` – the setter as the other translated functions
    call it – are this function row by row.) -/
theorem code_valueSetter (c : CascadeCfg Rat) (v : X Rat) :
    ∃ σ, Gen.Code.Variable_set_value.run c v {} = .ok σ ∧ σ.self__value = setter c v :=
  Op.code_valueSetter c v

/-- the two forms in which the translated callers use the setter are `Op.setter` -/
theorem setValue_is_setter (c : CascadeCfg Rat) (rows : List (X Rat)) :
    Py.Cascade.setValue c rows = rows.map (setter c) := rfl

/-- **Tie A.**  `Variable.drange` as translated from the source: `maximum - minimum` -/
theorem code_drange (c : CascadeCfg Rat) :
    ∃ σ, Gen.Code.Variable_drange.run c {} = .ok σ ∧ σ.ret = some (Op.drange c) :=
  Op.code_drange c

/-- **Tie A.**  The getter of `Variable.range` as translated from the source: `(minimum, maximum)` -/
theorem code_range (c : CascadeCfg Rat) :
    ∃ σ, Gen.Code.Variable_range.run c {} = .ok σ ∧ σ.ret = some (Op.range c) :=
  Op.code_range c

/-- **Tie A.**  The setter of `Variable.range` as translated from the source: the first component becomes the minimum,
    the second the maximum; nothing else is assigned (the value held is not clipped again, `lock_range` is untouched) -/
theorem code_setRange (c : CascadeCfg Rat) (p : X Rat × X Rat) :
    ∃ σ, Gen.Code.Variable_set_range.run p { self_minimum := c.lo, self_maximum := c.hi } = .ok σ ∧
      σ.self_minimum = (Op.setRange c p).lo ∧ σ.self_maximum = (Op.setRange c p).hi :=
  Op.code_setRange c p

/-- a value set under `lock_range` lies in the range that was set before it (`setRange` then `setter`) -/
example : setter (Op.setRange (α := ℚ) { lockPrev := false, lockRange := true, dflt := nan, lo := fin 0, hi := fin 1 }
    (fin 2, fin 3)) (fin 0) = fin 2 := by decide +kernel

/-! ## non-vacuity -/
example : (commit (α := ℚ) { lockPrev := true, lockRange := true, dflt := fin 5, lo := fin 0, hi := fin 1 }
    [nan, fin (1/2), nan, fin 3] { value := [nan], previous := nan }).value = [fin 1, fin (1/2), fin (1/2), fin 1] := by
  decide +kernel

end C12
