import FlVerif.Base.X
import FlVerif.Spec.Consequent
import FlVerif.Op.Consequent
import FlVerif.Lemmas.Consequent
import FlVerif.Gen.SetterGen
import FlVerif.Lemmas.CodeConsequent
import FlVerif.Lemmas.CodeDegreeRule

/-! # C07 — each conclusion of a triggered rule contributes exactly its own activation

`Spec.Consequent.contrib` is the property; `Op.Consequent.modifyPinned` is `Consequent.modify` **as written** (the
model the driver runs against the implementation); `Op.Consequent.modifyRepaired` is the loop with a
per-conclusion local.

**Finding F3 (known, not repairable without changing a golden data set).**  `modify_spec` – the full statement
of the property – holds for the repaired loop.  For the loop as written it is false (`modify_counterexample`);
what does hold is `modify_spec_partial` (no enabled conclusion before the last one carries a hedge),
`modify_leak_closed_form` (what the code computes instead) and every clause that does not involve the degree
(`one_activation_per_enabled_conclusion`, `disabled_variable_nothing`, `disabled_rule_nothing`,
`degree_sanitised`).

All statements are for consequents with any number of conclusions and any number of hedges, generic in the
degree type `V`, the hedge functions and the sanitiser. -/

namespace C07
open Spec.Consequent Op.Consequent

section generic
variable {V I : Type}

/-- `for hedge in reversed(hedges)` computes `h₁ (h₂ (… hₖ d))`: the hedge written next to the term is the
    innermost -/
theorem hedges_innermost_first (hs : List (V → V)) (d : V) :
    hedgeLoop hs d = applyHedges hs d ∧
    (∀ h, hedgeLoop (h :: hs) d = h (hedgeLoop hs d)) ∧
    (∀ h₁ h₂ : V → V, hedgeLoop [h₁, h₂] d = h₁ (h₂ d)) := by
  have key : ∀ l : List (V → V), hedgeLoop l d = applyHedges l d := by
    intro l; simp [hedgeLoop, applyHedges, List.foldl_reverse]
  refine ⟨key hs, fun h => ?_, fun h₁ h₂ => ?_⟩
  · rw [key, key]; rfl
  · rw [key]; rfl

/-- **The property (full statement).**  The repaired loop adds exactly the specified contributions: one per
    conclusion on an enabled variable, each computed from the rule's degree and the conclusion's own hedges. -/
theorem modify_spec (san : V → V) (impl : I) (d : V) (cs : List (Concl V)) :
    modifyRepaired san impl d cs = contrib san d impl cs := by
  induction cs with
  | nil => rfl
  | cons c cs ih =>
    simp only [modifyRepaired, contrib, List.filter]
    cases h : c.enabled
    · simpa [contrib] using ih
    · simp [activated, contribution, (hedges_innermost_first c.hedges d).1, ih, contrib]

/-- conclusions without hedges (or on disabled variables) do not disturb the loop-carried degree -/
theorem modify_prefix (san : V → V) (impl : I) (d : V) (pre rest : List (Concl V))
    (h : ∀ c ∈ pre, c.enabled = true → c.hedges = []) :
    modifyPinned san impl d (pre ++ rest) = contrib san d impl pre ++ modifyPinned san impl d rest := by
  induction pre with
  | nil => simp [contrib]
  | cons c pre ih =>
    have ih' := ih (fun x hx => h x (by simp [hx]))
    simp only [List.cons_append, modifyPinned, contrib, List.filter]
    cases he : c.enabled
    · simpa [contrib] using ih'
    · have hc : c.hedges = [] := h c (by simp) he
      simp [hc, hedgeLoop, applyHedges, ih', contrib, activated, contribution]

/-- **What holds for the code as written (F3).**  If no conclusion on an enabled variable before the last one
    carries a hedge, `Consequent.modify` adds exactly the specified contributions. -/
theorem modify_spec_partial (san : V → V) (impl : I) (d : V) (pre : List (Concl V)) (last : Concl V)
    (h : ∀ c ∈ pre, c.enabled = true → c.hedges = []) :
    modifyPinned san impl d (pre ++ [last]) = contrib san d impl (pre ++ [last]) := by
  rw [modify_prefix san impl d pre [last] h]
  simp only [contrib, List.filter_append, List.map_append]
  congr 1
  simp only [modifyPinned, List.filter]
  cases he : last.enabled
  · simp
  · simp [activated, contribution, (hedges_innermost_first last.hedges d).1]

/-- single-conclusion consequents are always right -/
theorem modify_single (san : V → V) (impl : I) (d : V) (c : Concl V) :
    modifyPinned san impl d [c] = contrib san d impl [c] := by
  simpa using modify_spec_partial san impl d [] c (by simp)

/-- what the code as written computes: the k-th conclusion sees the degree already modified by the hedges of
    all earlier conclusions on enabled variables -/
theorem modify_leak_closed_form (san : V → V) (impl : I) (d : V) (c : Concl V) (cs : List (Concl V)) :
    modifyPinned san impl d (c :: cs) =
      if c.enabled then contribution san d impl c :: modifyPinned san impl (applyHedges c.hedges d) cs
      else modifyPinned san impl d cs := by
  simp only [modifyPinned]
  split
  · simp [activated, contribution, (hedges_innermost_first c.hedges d).1]
  · rfl

/-- **Independence.**  Reordering the conclusions permutes the contributions and changes none of them
    (for the repaired loop through `modify_spec`). -/
theorem perm_independent (san : V → V) (impl : I) (d : V) (cs cs' : List (Concl V)) (h : cs.Perm cs') :
    (contrib san d impl cs).Perm (contrib san d impl cs') ∧
    (modifyRepaired san impl d cs).Perm (modifyRepaired san impl d cs') := by
  have : (contrib san d impl cs).Perm (contrib san d impl cs') := (h.filter _).map _
  exact ⟨this, by rw [modify_spec, modify_spec]; exact this⟩

/-- exactly one activated term per conclusion on an enabled variable, in text order, carrying the concluded
    term and the block's implication operator – true for the code as written -/
theorem one_activation_per_enabled_conclusion (san : V → V) (impl : I) (d : V) (cs : List (Concl V)) :
    (modifyPinned san impl d cs).map (fun a => (a.var, a.term)) = (cs.filter (·.enabled)).map (fun c => (c.var, c.term)) ∧
    (modifyPinned san impl d cs).length = (cs.filter (·.enabled)).length ∧
    (∀ a ∈ modifyPinned san impl d cs, a.impl = impl) := by
  induction cs generalizing d with
  | nil => simp [modifyPinned]
  | cons c cs ih =>
    simp only [modifyPinned, List.filter]
    cases he : c.enabled
    · simpa using ih d
    · obtain ⟨h1, h2, h3⟩ := ih (hedgeLoop c.hedges d)
      refine ⟨by simp [h1, activated], by simp [h2], ?_⟩
      intro a ha
      simp only [if_true, List.mem_cons] at ha
      rcases ha with rfl | ha
      · rfl
      · exact h3 a ha

/-- every stored degree went through the `Activated.degree` setter -/
theorem degree_sanitised (san : V → V) (impl : I) (d : V) (cs : List (Concl V)) :
    ∀ a ∈ modifyPinned san impl d cs, ∃ v, a.degree = san v := by
  induction cs generalizing d with
  | nil => simp [modifyPinned]
  | cons c cs ih =>
    intro a ha
    simp only [modifyPinned] at ha
    split at ha
    · simp only [List.mem_cons] at ha
      rcases ha with rfl | ha
      · exact ⟨_, rfl⟩
      · exact ih _ a ha
    · exact ih _ a ha

/-- nothing is added to a disabled output variable: every activation stems from a conclusion on an enabled one -/
theorem disabled_variable_nothing (san : V → V) (impl : I) (d : V) (cs : List (Concl V)) :
    (∀ a ∈ modifyPinned san impl d cs, ∃ c ∈ cs, c.enabled = true ∧ c.var = a.var ∧ c.term = a.term) ∧
    ((∀ c ∈ cs, c.enabled = false) → modifyPinned san impl d cs = []) := by
  constructor
  · intro a ha
    have h := (one_activation_per_enabled_conclusion san impl d cs).1
    have : (a.var, a.term) ∈ (modifyPinned san impl d cs).map (fun a => (a.var, a.term)) := List.mem_map.2 ⟨a, ha, rfl⟩
    rw [h, List.mem_map] at this
    obtain ⟨c, hc, hce⟩ := this
    rw [List.mem_filter] at hc
    simp only [Prod.mk.injEq] at hce
    exact ⟨c, hc.1, hc.2, hce.1, hce.2⟩
  · intro hall
    have h := (one_activation_per_enabled_conclusion san impl d cs).2.1
    have : cs.filter (·.enabled) = [] := by
      rw [List.filter_eq_nil_iff]; intro c hc; simp [hall c hc]
    rw [this] at h
    exact List.length_eq_zero_iff.1 h

/-- a disabled rule adds nothing and is not marked triggered; an enabled one is marked triggered iff its degree
    is positive -/
theorem disabled_rule_nothing (san : V → V) (pos : V → Bool) (d : V) (impl : I) (cs : List (Concl V)) :
    Op.Consequent.trigger san pos false d impl cs = (false, []) ∧
    (Op.Consequent.trigger san pos true d impl cs).1 = pos d ∧
    (Op.Consequent.trigger san pos true d impl cs).2 = modifyPinned san impl d cs := ⟨rfl, rfl, rfl⟩

/-- with the repaired loop, `Rule.trigger` is the specified `trigger` -/
theorem trigger_spec (san : V → V) (pos : V → Bool) (en : Bool) (d : V) (impl : I) (cs : List (Concl V)) :
    triggerRepaired san pos en d impl cs = Spec.Consequent.trigger san pos en d impl cs := by
  cases en <;> simp [triggerRepaired, Spec.Consequent.trigger, modify_spec]

end generic

/-! ## the model is the code -/

/-- **Tie A (code → model).**  `Gen.Code.Consequent_modify` is regenerated from the source of `Consequent.modify`
    on every run (`fv/pylean.py`).  For every list of `Proposition` objects, every degree, sanitiser and
    implication operator: an empty consequent raises `RuntimeError`; otherwise the first proposition that is not a
    loaded conclusion decides the exception (`Py.Cons.defect`: no variable / a variable without terms / no term on
    an enabled variable – `ValueError`, an enabled variable that is not an output variable – `RuntimeError`); and
    when there is none, the activated terms appended to the fuzzy outputs are exactly those of
    `Op.Consequent.modifyPinned` – the loop that carries the hedged degree into the following conclusions (F3).
    The second part says the same for the conclusions `Consequent.load` builds. -/
theorem code_modify (san : X ℚ → X ℚ) (impl : String) (d : X ℚ) :
    (∀ ps : List Py.Cons.Proposition,
      if ps = [] then Gen.Code.Consequent_modify.run san impl d ps {} = .error .runtime
      else match ps.findSome? Py.Cons.defect with
        | some e => Gen.Code.Consequent_modify.run san impl d ps {} = .error e
        | none => ∃ σ, Gen.Code.Consequent_modify.run san impl d ps {} = .ok σ ∧
            σ.out = modifyPinned san impl d (ps.map Py.Cons.toConcl)) ∧
    (∀ cs : List (Concl (X ℚ)), cs ≠ [] →
      ∃ σ, Gen.Code.Consequent_modify.run san impl d (cs.map Py.Cons.ofConcl) {} = .ok σ ∧
        σ.out = modifyPinned san impl d cs) :=
  ⟨Op.Consequent.code_modify san impl d, Op.Consequent.code_modify_loaded san impl d⟩

/-! ## the methods of `Rule` around it

`Gen.Code.Rule_is_loaded_flags / Rule_deactivate / Rule_activate_with / Rule_trigger` are regenerated from the source of the four
methods of `Rule` on every run.  The translated activation methods of C08 use `Op.Activation.deactivate / activateWith /
trigger` for these calls; the theorems below close that gap.  A rule object is what the method reads (`loaded` - the value of
`self.is_loaded()` -, `enabled`, `weight`, the field `activation_degree`) and the two fields it writes; the callees
`antecedent.activation_degree` and `consequent.modify` are their own translations (`C06.code_activationDegree`,
`code_modify`). -/

/-- `Rule.is_loaded` is the conjunction of `antecedent.is_loaded()` and `consequent.is_loaded()` -/
theorem code_isLoaded (a c : Bool) : ∃ σ, Gen.Code.Rule_is_loaded_flags.run a c {} = .ok σ ∧ σ.ret = some (a && c) :=
  Op.Activation.code_isLoaded a c

/-- **Tie A.**  `Rule.deactivate` = `Op.Activation.deactivate`: whatever the two fields held before (the state `σ₀`),
    degree 0, not triggered, nothing else written -/
theorem code_deactivate (r : Spec.Activation.Rule ℚ) (σ₀ : Gen.Code.Rule_deactivate.S) :
    ∃ σ, Gen.Code.Rule_deactivate.run σ₀ = .ok σ ∧
      { r with actDegree := σ.self_activation_degree, triggered := σ.self_triggered } = Op.Activation.deactivate r :=
  Op.Activation.code_deactivate r σ₀

/-- **Tie A.**  `Rule.activate_with` on a rule with weight `w` whose antecedent is the loaded tree `a` (evaluated by the
    translated `Antecedent.activation_degree`, `ante`): a rule that is not loaded raises `RuntimeError`; a loaded one raises
    what the model `Op.activateWith` predicts (`ValueError`: a missing operator or term, a variable that has lost its terms)
    and otherwise stores and returns the model's value `w × degree`, which is what `Op.Activation.activateWith` copies from
    the field `degree` of its rule. -/
theorem code_activateWith (c : Lang.DegCtx ℚ) (w : X ℚ) (a : Op.ANode) :
    -- what `self.antecedent.activation_degree(conjunction, disjunction)` returns or raises
    let ante : Py.M (X ℚ) :=
      Gen.Code.Antecedent_activation_degree.run c (Py.Deg.ofANode a) c.conj c.disj .none {} >>= fun s => Py.deref s.ret
    Gen.Code.Rule_activate_with.run false w ante {} = .error .runtime ∧
    match Op.activateWith c w a with
    | .error k => Gen.Code.Rule_activate_with.run true w ante {} = .error k.toPy
    | .ok d => ∃ σ, Gen.Code.Rule_activate_with.run true w ante {} = .ok σ ∧
        σ.ret = some d ∧ σ.self_activation_degree = d ∧
        ∀ r : Spec.Activation.Rule ℚ, r.degree = d →
          { r with actDegree := σ.self_activation_degree } = Op.Activation.activateWith r :=
  Op.Activation.code_activateWith c w a

/-- **Tie A.**  `Rule.trigger` (`triggered₀`: the value of the field `triggered` before the call): a rule that is not
    loaded raises `RuntimeError` (after resetting `triggered`); a loaded rule with the conclusions `cs` sets `triggered` and appends the activated terms exactly as `Op.Consequent.trigger`
    says (nothing for a disabled rule; `degree > 0` and the output of `Consequent.modify` for an enabled one), leaves the
    degree as it was, and calls `consequent.modify` with the degrees that `Op.Activation.trigger` lists. -/
theorem code_trigger (san : X ℚ → X ℚ) (impl : String) (enabled : Bool) (d : X ℚ) (triggered₀ : Bool) :
    (∀ ps : List Py.Cons.Proposition,
      Gen.Code.Rule_trigger.run san impl false enabled d ps { self_triggered := triggered₀ } = .error .runtime) ∧
    (∀ cs : List (Concl (X ℚ)), cs ≠ [] →
      ∃ σ, Gen.Code.Rule_trigger.run san impl true enabled d (cs.map Py.Cons.ofConcl) { self_triggered := triggered₀ }
          = .ok σ ∧
        (σ.self_triggered, σ.out) = Op.Consequent.trigger san (X.lt (.fin 0)) enabled d impl cs ∧
        σ.self_activation_degree = d ∧
        ∀ (i : Nat) (r : Spec.Activation.Rule ℚ), r.enabled = enabled → r.actDegree = d →
          ({ r with triggered := σ.self_triggered }, σ.calls.map (fun x => (i, x))) = Op.Activation.trigger i r) :=
  Op.Activation.code_trigger san impl enabled d triggered₀

/-! ## the sanitiser of `Activated.degree` and the F3 witness, at `X ℚ` -/

/-- `np.nan_to_num(value, nan=0, neginf=0, posinf=1)`: NaN and −inf are stored as 0, +inf as 1, finite values
    unchanged; the stored degree is always finite -/
theorem sanitise_table {α : Type} [Field α] [LinearOrder α] [IsStrictOrderedRing α] :
    X.nanToNum01 (X.nan : X α) = .fin 0 ∧ X.nanToNum01 (X.ninf : X α) = .fin 0 ∧
    X.nanToNum01 (X.pinf : X α) = .fin 1 ∧ (∀ a : α, X.nanToNum01 (.fin a) = .fin a) ∧
    (∀ x : X α, X.isfinite (X.nanToNum01 x) = true) := by
  refine ⟨rfl, rfl, rfl, fun _ => rfl, fun x => ?_⟩
  cases x <;> rfl

/-- Tie A: the sanitiser of the model is the `Activated.degree` setter as traced from the code -/
theorem gen_degree_setter {α : Type} [Field α] [LinearOrder α] [IsStrictOrderedRing α] (d : X α) :
    Gen.Setter.activatedDegree d = X.nanToNum01 d := by
  unfold Gen.Setter.activatedDegree; exact X.nanToNum_01 d

/-- `if … then o1 is very t and o2 is t`, degree 1/2 -/
def f3Consequent : List (Concl (X ℚ)) :=
  [{ var := "o1", enabled := true, hedges := [X.sq], term := "t" },
   { var := "o2", enabled := true, hedges := [], term := "t" }]

/-- **F3.**  The code as written stores 1/4 in both outputs; the property demands 1/4 and 1/2. -/
theorem modify_counterexample :
    (modifyPinned X.nanToNum01 () (.fin (1/2)) f3Consequent).map (·.degree) = [.fin (1/4), .fin (1/4)] ∧
    (contrib X.nanToNum01 (.fin (1/2)) () f3Consequent).map (·.degree) = [.fin (1/4), .fin (1/2)] := by
  decide +kernel

/-- … and swapping the two conclusions changes what `o2` receives (1/2 instead of 1/4): the conclusions are not
    independent in the code as written -/
theorem modify_order_dependent :
    (modifyPinned X.nanToNum01 () (.fin (1/2)) f3Consequent.reverse).map (fun a => (a.var, a.degree))
      = [("o2", .fin (1/2)), ("o1", .fin (1/4))] := by
  decide +kernel

/-- the hypothesis of `modify_spec_partial` is met by a non-trivial consequent (hedges on the last conclusion,
    a disabled hedged variable before it) -/
example : ∃ pre : List (Concl (X ℚ)), ∃ last : Concl (X ℚ), pre.length = 2 ∧ last.hedges.length = 2 ∧
    (∀ c ∈ pre, c.enabled = true → c.hedges = []) ∧ (∃ c ∈ pre, c.hedges ≠ []) :=
  ⟨[⟨"a", true, [], "t"⟩, ⟨"b", false, [X.sq], "t"⟩], ⟨"c", true, [X.sq, X.sq], "u"⟩, rfl, rfl,
   by intro c hc he; simp at hc; rcases hc with rfl | rfl <;> simp_all, ⟨⟨"b", false, [X.sq], "t"⟩, by simp, by simp⟩⟩

/-! ## `Consequent.load` rebuilds the conclusions from the text, hedges in text order -/

/-- **Round trip of `Consequent.load`.**  Every non-empty list of expressible conclusions is rebuilt from its
    text – same variables, same terms, hedges in the order written. -/
theorem load_render (outs : List (String × List String)) (hn : List String) (cs : List PConcl)
    (hne : cs ≠ []) (hwf : ∀ c ∈ cs, WF outs hn c) :
    load outs hn (render cs) = some cs := by
  have key : ∀ (cs : List PConcl) (hne : cs ≠ []), (∀ c ∈ cs, WF outs hn c) →
      ∀ (done : List PConcl) (cur : Option (PConcl × List String)),
      ∃ terms, run outs hn .variable done cur (render cs) = some (.andWith,
        (cs.dropLast.reverse ++ (flush done cur)), some (cs.getLast hne, terms)) := by
    intro cs
    induction cs with
    | nil => intro h; exact absurd rfl h
    | cons c rest ih =>
      intro _ hwf done cur
      obtain ⟨terms, hrun⟩ := run_one outs hn done cur c (hwf c (by simp))
      cases rest with
      | nil => exact ⟨terms, by simpa [render] using hrun⟩
      | cons c2 rest2 =>
        obtain ⟨terms2, hrun2⟩ := ih (by simp) (fun x hx => hwf x (by simp [hx]))
          (flush done cur) (some (c, terms))
        refine ⟨terms2, ?_⟩
        simp only [render]
        rw [List.append_assoc, run_append, hrun]
        simp only [List.cons_append, List.nil_append, run, step, beq_self_eq_true, if_true]
        rw [hrun2]
        simp [List.dropLast, flush]
  obtain ⟨terms, hrun⟩ := key cs hne hwf [] none
  have hr : render cs ≠ [] := by
    cases cs with
    | nil => exact absurd rfl hne
    | cons c rest => cases rest <;> simp [render, renderOne]
  simp only [load, List.isEmpty_iff, hr, if_false, hrun, flush, List.append_nil]
  congr 1
  have := List.dropLast_concat_getLast hne
  simpa using this

/-- `o1 is very somewhat t and o2 is u` loads with hedges `[very, somewhat]` on the first conclusion -/
example : load [("o1", ["t"]), ("o2", ["u"])] ["very", "somewhat"]
    ["o1", "is", "very", "somewhat", "t", "and", "o2", "is", "u"]
    = some [⟨"o1", ["very", "somewhat"], some "t"⟩, ⟨"o2", [], some "u"⟩] := by decide

/-- a dangling `and`, a missing `is`, an unknown term and a variable without terms are rejected -/
example : load [("o1", ["t"]), ("o2", [])] ["very"] ["o1", "is", "t", "and"] = none ∧
    load [("o1", ["t"])] ["very"] ["o1", "t"] = none ∧
    load [("o1", ["t"])] ["very"] ["o1", "is", "very", "x"] = none ∧
    load [("o1", ["t"]), ("o2", [])] ["very"] ["o2", "is", "t"] = none := by decide

end C07
