import FlVerif.Op.Fld
import FlVerif.Lemmas.CodeFld
import FlVerif.Lemmas.CodeFunEvalFld

/-! # C18 — FuzzyLite Dataset export is a faithful tabulation of the engine (grid part)

Theorems about the grid enumeration for ANY number of input variables and ANY requested size:
`Op.increment` is the lexicographic successor (last input fastest), the `while` loop emits every grid point exactly
once in lexicographic order, and `k` is the largest integer with `k ^ inputs ≤ v`. -/

namespace C18
open Op.Fld

theorem total_pos (ms : List Nat) : 0 < total ms := by
  induction ms with
  | nil => simp [total]
  | cons m ms ih => simp only [total]; exact Nat.mul_pos (Nat.succ_pos m) ih

theorem rank_lt (ds ms : List Nat) (h : Valid ds ms) : rank ds ms < total ms := by
  induction ds generalizing ms with
  | nil =>
    cases ms with
    | nil => simp [rank, total]
    | cons _ _ => exact absurd h (by simp [Valid])
  | cons d ds ih =>
    cases ms with
    | nil => exact absurd h (by simp [Valid])
    | cons m ms =>
      obtain ⟨hd, hv⟩ := h
      have := ih ms hv
      simp only [rank, total]
      calc d + (m + 1) * rank ds ms ≤ m + (m + 1) * rank ds ms := by omega
        _ < (m + 1) * (rank ds ms + 1) := by rw [Nat.mul_add]; omega
        _ ≤ (m + 1) * total ms := Nat.mul_le_mul_left _ this

/-- one step = lexicographic successor; reports `false` exactly at the last tuple (where it wraps to zeros) -/
theorem increment_lex_succ (ds ms : List Nat) (h : Valid ds ms) (hne : ds ≠ []) :
    Valid (incRev ds ms).1 ms ∧
    (if rank ds ms + 1 < total ms
      then (incRev ds ms).2 = true ∧ rank (incRev ds ms).1 ms = rank ds ms + 1
      else (incRev ds ms).2 = false ∧ rank (incRev ds ms).1 ms = 0) := by
  induction ds generalizing ms with
  | nil => exact absurd rfl hne
  | cons d ds ih =>
    cases ms with
    | nil => exact absurd h (by simp [Valid])
    | cons m ms =>
      obtain ⟨hd, hv⟩ := h
      have hr := rank_lt ds ms hv
      have htp := total_pos ms
      by_cases hlt : d < m
      · have hstep : rank (d :: ds) (m :: ms) + 1 < total (m :: ms) := by
          simp only [rank, total]
          calc d + (m + 1) * rank ds ms + 1 < (m + 1) + (m + 1) * rank ds ms := by omega
            _ = (m + 1) * (rank ds ms + 1) := by rw [Nat.mul_add]; omega
            _ ≤ (m + 1) * total ms := Nat.mul_le_mul_left _ hr
        simp only [incRev, hlt, if_true, hstep]
        exact ⟨⟨by omega, hv⟩, trivial, by simp only [rank]; omega⟩
      · have hdm : d = m := by omega
        subst hdm
        simp only [incRev, hlt, if_false]
        cases ds with
        | nil =>
          cases ms with
          | nil => simp [incRev, Valid, rank, total]
          | cons _ _ => exact absurd hv (by simp [Valid])
        | cons e es =>
          have ih' := ih ms hv (by simp)
          obtain ⟨hv', hcase⟩ := ih'
          refine ⟨⟨Nat.zero_le _, hv'⟩, ?_⟩
          simp only [List.isEmpty_cons, Bool.false_eq_true, if_false, rank, total]
          by_cases hin : rank (e :: es) ms + 1 < total ms
          · rw [if_pos hin] at hcase
            have : d + (d + 1) * rank (e :: es) ms + 1 < (d + 1) * total ms := by
              calc d + (d + 1) * rank (e :: es) ms + 1 = (d + 1) * (rank (e :: es) ms + 1) := by
                    rw [Nat.mul_add]; omega
                _ < (d + 1) * total ms := Nat.mul_lt_mul_of_pos_left hin (Nat.succ_pos d)
            rw [if_pos this]
            refine ⟨hcase.1, ?_⟩
            rw [hcase.2, Nat.mul_add]; omega
          · rw [if_neg hin] at hcase
            have heq : rank (e :: es) ms + 1 = total ms := by omega
            have : ¬ d + (d + 1) * rank (e :: es) ms + 1 < (d + 1) * total ms := by
              rw [← heq, Nat.mul_add]; omega
            rw [if_neg this]
            exact ⟨hcase.1, by rw [hcase.2]; simp⟩

/-- the rank determines the tuple (so "every rank once" means "every grid point once") -/
theorem rank_injective (ds es ms : List Nat) (hd : Valid ds ms) (he : Valid es ms)
    (h : rank ds ms = rank es ms) : ds = es := by
  induction ds generalizing es ms with
  | nil =>
    cases ms with
    | nil => cases es with
      | nil => rfl
      | cons _ _ => exact absurd he (by simp [Valid])
    | cons _ _ => exact absurd hd (by simp [Valid])
  | cons d ds ih =>
    cases ms with
    | nil => exact absurd hd (by simp [Valid])
    | cons m ms =>
      cases es with
      | nil => exact absurd he (by simp [Valid])
      | cons e es =>
        obtain ⟨hd1, hd2⟩ := hd
        obtain ⟨he1, he2⟩ := he
        simp only [rank] at h
        have h1 : d = e := by
          have := congrArg (· % (m + 1)) h
          simp only [Nat.add_mul_mod_self_left] at this
          rwa [Nat.mod_eq_of_lt (by omega), Nat.mod_eq_of_lt (by omega)] at this
        subst h1
        have h2 : rank ds ms = rank es ms := by
          have : (m + 1) * rank ds ms = (m + 1) * rank es ms := by omega
          exact Nat.eq_of_mul_eq_mul_left (Nat.succ_pos m) this
        rw [ih es ms hd2 he2 h2]

/-- the loop started at a valid tuple of rank `r` with enough fuel emits exactly the ranks `r, r+1, …, total-1` -/
theorem loop_ranks (ms : List Nat) (fuel : Nat) (ds : List Nat) (h : Valid ds ms) (hne : ds ≠ [])
    (hf : total ms ≤ rank ds ms + fuel) :
    (loop ms fuel ds).map (fun x => rank x ms) = (List.range' (rank ds ms) (total ms - rank ds ms)) ∧
    ∀ x ∈ loop ms fuel ds, Valid x ms := by
  induction fuel generalizing ds with
  | zero =>
    have := rank_lt ds ms h
    omega
  | succ fuel ih =>
    have hlt := rank_lt ds ms h
    obtain ⟨hv', hcase⟩ := increment_lex_succ ds ms h hne
    simp only [loop]
    by_cases hin : rank ds ms + 1 < total ms
    · rw [if_pos hin] at hcase
      have hne' : (incRev ds ms).1 ≠ [] := by
        intro he
        have := hcase.2
        rw [he] at this
        simp [rank] at this
      obtain ⟨ih1, ih2⟩ := ih (incRev ds ms).1 hv' hne' (by rw [hcase.2]; omega)
      simp only [hcase.1, if_true, List.map_cons, ih1, hcase.2]
      constructor
      · have : total ms - rank ds ms = (total ms - (rank ds ms + 1)) + 1 := by omega
        rw [this, List.range'_succ]
      · intro x hx
        rcases List.mem_cons.1 hx with rfl | hx
        · exact h
        · exact ih2 x hx
    · rw [if_neg hin] at hcase
      have : total ms - rank ds ms = 1 := by omega
      simp only [hcase.1, Bool.false_eq_true, if_false, List.map_cons, List.map_nil, this]
      exact ⟨by simp [List.range'], by intro x hx; simp at hx; subst hx; exact h⟩

theorem valid_zeros (ms : List Nat) : Valid (ms.map (fun _ => 0)) ms := by
  induction ms with
  | nil => trivial
  | cons m ms ih => exact ⟨Nat.zero_le _, ih⟩
theorem rank_zeros (ms : List Nat) : rank (ms.map (fun _ => 0)) ms = 0 := by
  induction ms with
  | nil => rfl
  | cons m ms ih => simp [rank, ih]

/-- C18 grid theorem: for at least one input variable, the rows are ALL grid points, each exactly once, in
    lexicographic order with the last input varying fastest (ranks 0, 1, …, total-1) -/
theorem grid_enumerates (ms : List Nat) (hne : ms ≠ []) :
    (gridRev ms).map (fun x => rank x ms) = List.range (total ms) ∧ ∀ x ∈ gridRev ms, Valid x ms := by
  have h := loop_ranks ms (total ms) (ms.map (fun _ => 0)) (valid_zeros ms)
    (by cases ms with | nil => exact absurd rfl hne | cons _ _ => simp) (by omega)
  rw [rank_zeros] at h
  simpa [gridRev, List.range_eq_range'] using h

theorem grid_length (ms : List Nat) (hne : ms ≠ []) : (gridRev ms).length = total ms := by
  have := congrArg List.length (grid_enumerates ms hne).1
  simpa using this

/-- an engine without input variables yields one (empty) row -/
theorem grid_no_inputs : gridRev [] = [[]] := by decide

/-- `all variables = v` over `n` inputs: `k ^ n` rows -/
theorem total_replicate (n r : Nat) : total (List.replicate n r) = (r + 1) ^ n := by
  induction n with
  | zero => rfl
  | succ n ih => simp [List.replicate, total, ih, Nat.pow_succ, Nat.mul_comm]

/-- an inactive variable has the single sample index 0 in every row -/
theorem inactive_variable_constant (ms : List Nat) (hne : ms ≠ []) (i : Nat) (hi : ms[i]? = some 0) :
    ∀ x ∈ gridRev ms, x[i]? = some 0 := by
  intro x hx
  have hv := (grid_enumerates ms hne).2 x hx
  clear hx hne
  induction ms generalizing x i with
  | nil => simp at hi
  | cons m ms ih =>
    cases x with
    | nil => exact absurd hv (by simp [Valid])
    | cons d ds =>
      obtain ⟨hd, hv'⟩ := hv
      cases i with
      | zero => simp at hi; subst hi; simp; omega
      | succ i => simp at hi ⊢; exact ih i hi ds hv'

/-! ## the integer root -/

theorem iroot_spec (n : Nat) (hn : 0 < n) (v : Nat) : isRoot n v (iroot n v) := by
  induction v with
  | zero =>
    simp only [iroot, isRoot]
    exact ⟨Nat.le_of_eq (Nat.zero_pow hn), by simp⟩
  | succ v ih =>
    obtain ⟨h1, h2⟩ := ih
    simp only [iroot]
    split
    · rename_i hle
      refine ⟨hle, ?_⟩
      have : (iroot n v + 1) ^ n < (iroot n v + 1 + 1) ^ n := Nat.pow_lt_pow_left (by omega) (by omega)
      omega
    · rename_i hnle
      exact ⟨by omega, by omega⟩

theorem iroot_unique {n v k k' : Nat} (h : isRoot n v k) (h' : isRoot n v k') : k = k' := by
  rcases Nat.lt_trichotomy k k' with hlt | heq | hgt
  · have : (k + 1) ^ n ≤ k' ^ n := Nat.pow_le_pow_left hlt n
    exact absurd (Nat.lt_of_lt_of_le h.2 (Nat.le_trans this h'.1)) (Nat.lt_irrefl _)
  · exact heq
  · have : (k' + 1) ^ n ≤ k ^ n := Nat.pow_le_pow_left hgt n
    exact absurd (Nat.lt_of_lt_of_le h'.2 (Nat.le_trans this h.1)) (Nat.lt_irrefl _)

/-- `iroot n v` is the LARGEST integer with `k ^ n ≤ v` -/
theorem iroot_greatest (n : Nat) (hn : 0 < n) (v k : Nat) (h : k ^ n ≤ v) : k ≤ iroot n v := by
  apply Nat.le_of_not_lt
  intro hc
  have h2 := (iroot_spec n hn v).2
  have : (iroot n v + 1) ^ n ≤ k ^ n := Nat.pow_le_pow_left (by omega) n
  omega

theorem down_le (n v f k : Nat) : down n v f k ≤ k := by
  induction f generalizing k with
  | zero => exact Nat.le_refl _
  | succ f ih => simp only [down]; split
                 · exact Nat.le_trans (ih _) (Nat.sub_le _ _)
                 · exact Nat.le_refl _

theorem down_ok (n v : Nat) (hn : 0 < n) (f k : Nat) (hf : k ≤ f) : (down n v f k) ^ n ≤ v := by
  induction f generalizing k with
  | zero => have : k = 0 := by omega
            subst this; simp [down, Nat.zero_pow hn]
  | succ f ih =>
    simp only [down]; split
    · exact ih (k - 1) (by omega)
    · omega

theorem up_ok (n v : Nat) (hn : 0 < n) (f k : Nat) (hk : k ^ n ≤ v) (hf : iroot n v ≤ k + f) :
    isRoot n v (up n v f k) := by
  induction f generalizing k with
  | zero =>
    have hle := iroot_greatest n hn v k hk
    have : k = iroot n v := by omega
    simp only [up]; rw [this]; exact iroot_spec n hn v
  | succ f ih =>
    simp only [up]; split
    · rename_i h; exact ih (k + 1) h (by omega)
    · rename_i h; exact ⟨hk, by omega⟩

theorem iroot_le (n : Nat) (hn : 0 < n) (v : Nat) : iroot n v ≤ v := by
  have h := (iroot_spec n hn v).1
  apply Nat.le_of_not_lt
  intro hc
  have h1 : iroot n v ≤ iroot n v ^ n := by
    calc iroot n v = iroot n v ^ 1 := by simp
      _ ≤ iroot n v ^ n := Nat.pow_le_pow_right (by omega) hn
  omega

/-- the repaired computation returns the exact integer root from ANY floating-point starting guess -/
theorem correctedRoot_eq (n v g : Nat) (hn : 0 < n) : correctedRoot n v g = iroot n v := by
  unfold correctedRoot
  have h1 := down_ok n v hn g g (Nat.le_refl _)
  have h2 := up_ok n v hn v (down n v g g) h1 (by have := iroot_le n hn v; omega)
  exact iroot_unique h2 (iroot_spec n hn v)

/-- with `all variables = v` every input gets `k = max 1 (iroot n v)` values, hence `k ^ n` rows, and for `v ≥ 1`
    `k` is the largest integer with `k ^ n ≤ v` -/
theorem allVariables_rows (n v : Nat) (hn : 0 < n) (hv : 0 < v) :
    total (List.replicate n (resolutionAll n v)) = (iroot n v) ^ n ∧ isRoot n v (iroot n v) := by
  have h1 : 1 ≤ iroot n v := iroot_greatest n hn v 1 (by rw [Nat.one_pow]; exact hv)
  refine ⟨?_, iroot_spec n hn v⟩
  rw [total_replicate, resolutionAll, Nat.max_eq_right h1, Nat.sub_add_cancel h1]

theorem eachVariable_rows (n v : Nat) (hv : 0 < v) :
    total (List.replicate n (resolutionEach v)) = v ^ n := by
  rw [total_replicate, resolutionEach, Nat.sub_add_cancel hv]

/-- the defect of the pinned code: for 3 inputs and v = 64 the exact root is 4 (the float `int(pow(64, 1/3))` is 3) -/
theorem root_example : isRoot 3 64 4 ∧ iroot 3 64 = 4 ∧ iroot 3 1000 = 10 ∧ iroot 2 1024 = 32 := by
  refine ⟨by unfold isRoot; decide, by decide +kernel, by decide +kernel, by decide +kernel⟩

/-! ## non-vacuity -/
example : gridRev [1, 2] = [[0,0],[1,0],[0,1],[1,1],[0,2],[1,2]] := by decide
example : grid [2, 1] = [[0,0],[0,1],[1,0],[1,1],[2,0],[2,1]] := by decide
example : increment [0, 1] [2, 1] = ([1, 0], true) ∧ increment [2, 1] [2, 1] = ([0, 0], false) := by decide

end C18

namespace C18
open Op.Fld

theorem readerLoop_spec (skip i : Nat) (lines : List String) :
    readerLoop skip i lines = ((lines.drop (skip - i)).map strip).filter keep := by
  induction lines generalizing i with
  | nil => simp [readerLoop]
  | cons l ls ih =>
    simp only [readerLoop]
    by_cases h : i < skip
    · have : skip - i = (skip - (i + 1)) + 1 := by omega
      simp only [h, if_true, ih, this, List.drop_succ_cons]
    · have h0 : skip - i = 0 := by omega
      have h1 : skip - (i + 1) = 0 := by omega
      simp only [h, if_false, ih, h0, h1, List.drop_zero, List.map_cons, List.filter_cons]

/-- exporting from a reader keeps exactly the lines after the skipped ones that are neither blank nor comments
    (`keep (strip line)`), stripped, in order -/
theorem reader_filter (skip : Nat) (lines : List String) :
    readerRows skip lines = ((lines.drop skip).map strip).filter keep := by
  have := readerLoop_spec skip 0 lines
  simpa [readerRows] using this

theorem header_switches (i o : List String) :
    header i o true true = i ++ o ∧ header i o true false = i ∧ header i o false true = o ∧ header i o false false = [] := by
  simp [header]

/-! ## Tie A (code → model) for the grid -/

/-- **Tie A.**  `Gen.Code.Op_increment` is regenerated from the source of `Op.increment` on every run
    (`fv/pylean.py`: the recursion with a fuel bound, `x[position] += 1` / `x[position] = minimum[position]` as
    updates of the list that the caller sees).  Called as the exporter calls it (minimum values 0, one maximum per
    digit, no position) it terminates, leaves the list `Op.Fld.increment` computes and returns its flag. -/
theorem code_increment (x : List Nat) (maximum : List Int) (h : maximum.length = x.length) :
    ∃ σ, Gen.Code.Op_increment.run x (List.replicate x.length 0) maximum none {} = .ok σ ∧
      σ.x = (increment x (maximum.map Int.toNat)).1 ∧ σ.ret = some (increment x (maximum.map Int.toNat)).2 :=
  Op.Fld.code_increment x maximum h

/-- **Tie A.**  `Gen.Code.write_from_scope` is regenerated from the source of `FldExporter.write_from_scope`
    (`vars` = what the loop reads of the input variables, `guess` = the floating-point `int(pow(values, 1 / inputs))`,
    any function).  `AllVariables` without input variables is a `ValueError`; otherwise the function terminates, the
    root after the two correcting loops is `correctedRoot` of the guess, the resolution is `resolutionAll`
    (`values - 1` for `EachVariable`), the maxima are `maxValues`, and the collected rows are the rows of `grid`, in
    its order, with the values `Op.Fld.rowOf` (`minimum + index * drange / max(1, resolution)` for an active variable). -/
theorem code_grid (vars : List Py.Fld.Var) (values : Nat) (allVariables : Bool) (guess : Nat → Nat → Nat) :
    if allVariables = true ∧ vars = [] then
      Gen.Code.write_from_scope.run vars values allVariables guess {} = .error .value
    else
      let res := if allVariables then resolutionAll vars.length values else resolutionEach values
      let mx := maxValues (vars.map (·.active)) res
      ∃ σ, Gen.Code.write_from_scope.run vars values allVariables guess {} = .ok σ ∧
        (allVariables = true → σ.root = ((correctedRoot vars.length values (guess values vars.length) : Nat) : Int)) ∧
        σ.resolution = (if allVariables then ((res : Nat) : Int) else (values : Int) - 1) ∧
        σ.max_values.map Int.toNat = mx ∧
        σ.input_values = (grid mx).map (rowOf vars σ.resolution) :=
  Op.Fld.code_grid_of increment_lex_succ rank_lt correctedRoot_eq vars values allVariables guess

/-- **Tie A.**  `Gen.Code.write_from_reader` is regenerated from the source of `FldExporter.write_from_reader`
    (`lines` = `reader.readlines()`, `parseRow` = the floats of a kept line, any function that may raise; the export
    `self.write` is outside).  The rows it collects are the lines `Op.Fld.readerRows` keeps – the first `skip` lines,
    blank lines and `#` lines dropped, the others stripped (`reader_filter`) – parsed in order; the first line that
    does not parse raises its exception. -/
theorem code_readerRows (lines : List String) (skip : Nat) (parseRow : String → Py.M (List (X Rat))) :
    match (readerRows skip lines).mapM parseRow with
    | .error e => Gen.Code.write_from_reader.run lines skip parseRow {} = .error e
    | .ok rows => ∃ σ, Gen.Code.write_from_reader.run lines skip parseRow {} = .ok σ ∧ σ.input_values = rows :=
  Op.Fld.code_readerRows lines skip parseRow

/-- **Tie A.**  `Gen.Code.FldExporter_header` is regenerated from the source of `FldExporter.header` (variables are
    represented by their names): the names `Op.Fld.header` selects, joined by the separator. -/
theorem code_header (inputs outputs : List String) (inputValues outputValues : Bool) (sep : String) :
    ∃ σ, Gen.Code.FldExporter_header.run inputs outputs inputValues outputValues sep {} = .ok σ ∧
      σ.ret = some (sep.intercalate (header inputs outputs inputValues outputValues)) :=
  Op.Fld.code_header inputs outputs inputValues outputValues sep

/-- **Tie A.**  `Gen.Code.FldExporter_write` is regenerated from the source of `FldExporter.write` (`ops` = what the
    function uses of NumPy and of the engine – `np.atleast_2d`, `shape[1]`, a column, `restart`, `variable.value = …`,
    `process`, `input_values`, `output_values`, `np.hstack` – as arbitrary functions on arbitrary types of engines and
    arrays; `np.savetxt` receives `out`).  It raises `ValueError` exactly when the rows have fewer columns than there
    are input variables; otherwise the engine is restarted, the columns are assigned to the input variables in
    order, the engine processes once, and `np.savetxt` is given the selected blocks side by side (inputs, outputs,
    or one empty block) and the header of `code_header` (or `""` when headers are off): `Op.Fld.write`. -/
theorem code_write {E A : Type} [Inhabited E] [Inhabited A] (ops : WriteOps E A) (inputs outputs : List String)
    (inputValues outputValues headers : Bool) (sep : String) (e0 : E) (iv0 : A) :
    match write ops inputs outputs inputValues outputValues headers sep e0 iv0 with
    | none => Gen.Code.FldExporter_write.run ops inputs outputs inputValues outputValues headers sep e0 iv0 {} = .error .value
    | some r => ∃ σ, Gen.Code.FldExporter_write.run ops inputs outputs inputValues outputValues headers sep e0 iv0 {} = .ok σ ∧
        σ.engine = r.1 ∧ σ.out = some r.2 :=
  Op.Fld.code_write ops inputs outputs inputValues outputValues headers sep e0 iv0

end C18
