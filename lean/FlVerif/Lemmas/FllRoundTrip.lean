import FlVerif.Lemmas.FllEngine

/-! The block-splitting loop of `FllImporter.engine` on an exported engine, and re-export of the result. -/

namespace Op.FllIO
open Dec Spec.Fll

/-- a chunk is a header line followed by lines that are not headers -/
def IsChunk (ch : List Line) : Prop :=
  ∃ hd body, ch = hd :: body ∧ isHeader hd.key = true ∧ ∀ l ∈ body, isHeader l.key = false

def processChunk (e : Engine) (ch : List Line) : Except Err Engine :=
  match ch with
  | [] => .ok e
  | l :: _ => processBlock l.key ch e

theorem engineLoop_body (body rest : List Line) (hb : ∀ l ∈ body, isHeader l.key = false)
    (comp : Option Key) (block : List Line) (e : Engine) :
    engineLoop (body ++ rest) comp block e = engineLoop rest comp (block ++ body) e := by
  induction body generalizing block with
  | nil => simp
  | cons l ls ih =>
    have hl := hb l (by simp)
    simp only [List.cons_append, engineLoop, hl, Bool.false_eq_true, if_false]
    rw [ih (fun l' h' => hb l' (by simp [h']))]
    simp

theorem engineLoop_chunks (chunks : List (List Line)) (hc : ∀ ch ∈ chunks, IsChunk ch)
    (k : Key) (block : List Line) (hne : block ≠ []) (e : Engine) :
    engineLoop chunks.flatten (some k) block e = (processBlock k block e >>= fun e' => chunks.foldlM processChunk e') := by
  induction chunks generalizing k block e with
  | nil =>
    simp only [List.flatten_nil, engineLoop, hne, if_false, List.foldlM_nil]
    cases processBlock k block e <;> rfl
  | cons ch rest ih =>
    obtain ⟨hd, body, rfl, hh, hb⟩ := hc ch (by simp)
    simp only [List.flatten_cons, List.cons_append, engineLoop, hh, if_true]
    cases hp : processBlock k block e with
    | error err => rfl
    | ok e1 =>
      simp only [except_bind_ok, List.foldlM_cons, processChunk]
      rw [engineLoop_body body rest.flatten hb, ih (fun c h => hc c (by simp [h])) hd.key _ (by simp)]
      rfl

theorem fllImport_chunks (first : List Line) (chunks : List (List Line)) (hf : IsChunk first)
    (hc : ∀ ch ∈ chunks, IsChunk ch) :
    fllImport (first ++ chunks.flatten) = (first :: chunks).foldlM processChunk {} := by
  obtain ⟨hd, body, rfl, hh, hb⟩ := hf
  unfold fllImport
  simp only [List.cons_append, engineLoop, hh, if_true]
  rw [engineLoop_body body chunks.flatten hb, engineLoop_chunks chunks hc hd.key _ (by simp)]
  simp [processChunk]

section keepsec
variable (keep : Num → Bool) (c : Cfg)

theorem engineHead_chunk (e : Engine) : IsChunk (engineHead e) := by
  unfold engineHead
  by_cases hd : e.description = ""
  · exact ⟨⟨.engine, textToks e.name⟩, [], by simp [hd], rfl, by simp⟩
  · exact ⟨⟨.engine, textToks e.name⟩, [⟨.description, [.w e.description]⟩], by simp [hd], rfl, by simp [isHeader]⟩

theorem varHead_tail_nonheader (hdr : Key) (v : Var) :
    ∃ body, varHead c hdr v = ⟨hdr, textToks v.name⟩ :: body ∧ ∀ l ∈ body, isHeader l.key = false := by
  unfold varHead
  by_cases hd : v.description = ""
  · refine ⟨_, by simp [hd]; rfl, ?_⟩
    intro l hl; simp at hl; rcases hl with rfl | rfl | rfl <;> rfl
  · refine ⟨_, by simp [hd]; rfl, ?_⟩
    intro l hl; simp at hl; rcases hl with rfl | rfl | rfl | rfl <;> rfl

theorem inputLines_chunk (v : Var) : IsChunk (inputLines keep c v) := by
  obtain ⟨body, hb, hn⟩ := varHead_tail_nonheader c .inputVariable v
  refine ⟨⟨.inputVariable, textToks v.name⟩, body ++ v.terms.map (termLine keep c), by simp [inputLines, hb], rfl, ?_⟩
  intro l hl
  rcases List.mem_append.1 hl with h | h
  · exact hn l h
  · obtain ⟨t, _, rfl⟩ := List.mem_map.1 h; rfl

theorem outputLines_chunk (o : OutVar) : IsChunk (outputLines keep c o) := by
  obtain ⟨body, hb, hn⟩ := varHead_tail_nonheader c .outputVariable o.base
  refine ⟨⟨.outputVariable, textToks o.base.name⟩,
    body ++ [⟨.aggregation, [normTok o.aggregation]⟩, ⟨.defuzzifier, defuzzToks o.defuzzifier⟩,
     ⟨.default, [numTok c o.default]⟩, ⟨.lockPrevious, [boolTok o.lockPrevious]⟩] ++ o.base.terms.map (termLine keep c),
    by simp [outputLines, hb], rfl, ?_⟩
  intro l hl
  rcases List.mem_append.1 hl with h | h
  · rcases List.mem_append.1 h with h | h
    · exact hn l h
    · simp at h; rcases h with rfl | rfl | rfl | rfl <;> rfl
  · obtain ⟨t, _, rfl⟩ := List.mem_map.1 h; rfl

theorem blockLines_chunk (b : Block) : IsChunk (blockLines keep c b) := by
  unfold blockLines
  refine ⟨_, _, rfl, rfl, ?_⟩
  intro l hl
  rcases List.mem_append.1 hl with h | h
  · by_cases hd : b.description = ""
    · simp [hd] at h; rcases h with rfl | rfl | rfl | rfl | rfl <;> rfl
    · simp [hd] at h; rcases h with rfl | rfl | rfl | rfl | rfl | rfl <;> rfl
  · obtain ⟨r, _, rfl⟩ := List.mem_map.1 h; rfl

theorem fold_inputs (vs : List Var) (h : ∀ v ∈ vs, VarOK v) (e : Engine) :
    (vs.map (inputLines keep c)).foldlM processChunk e
      = .ok { e with inputs := e.inputs ++ vs.map (canonVar keep c) } := by
  induction vs generalizing e with
  | nil => simp
  | cons v vs ih =>
    have hv := input_roundtrip keep c v (h v (by simp))
    obtain ⟨hd, body, heq, _, _⟩ := inputLines_chunk keep c v
    have hkey : hd.key = .inputVariable := by
      have : (inputLines keep c v).head? = some hd := by rw [heq]; rfl
      obtain ⟨body', hb', _⟩ := varHead_tail_nonheader c .inputVariable v
      simp [inputLines, hb'] at this
      rw [← this]
    simp only [List.map_cons, List.foldlM_cons]
    have : processChunk e (inputLines keep c v) = .ok { e with inputs := e.inputs ++ [canonVar keep c v] } := by
      rw [heq]; simp only [processChunk, hkey, processBlock]; rw [← heq, hv]; rfl
    rw [this, except_bind_ok, ih (fun v' h' => h v' (by simp [h']))]
    simp

theorem fold_outputs (os : List OutVar) (h : ∀ o ∈ os, OutOK o) (e : Engine) :
    (os.map (outputLines keep c)).foldlM processChunk e
      = .ok { e with outputs := e.outputs ++ os.map (canonOut keep c) } := by
  induction os generalizing e with
  | nil => simp
  | cons o os ih =>
    have hv := output_roundtrip keep c o (h o (by simp))
    obtain ⟨hd, body, heq, _, _⟩ := outputLines_chunk keep c o
    have hkey : hd.key = .outputVariable := by
      have : (outputLines keep c o).head? = some hd := by rw [heq]; rfl
      obtain ⟨body', hb', _⟩ := varHead_tail_nonheader c .outputVariable o.base
      simp [outputLines, hb'] at this
      rw [← this]
    simp only [List.map_cons, List.foldlM_cons]
    have : processChunk e (outputLines keep c o) = .ok { e with outputs := e.outputs ++ [canonOut keep c o] } := by
      rw [heq]; simp only [processChunk, hkey, processBlock]; rw [← heq, hv]; rfl
    rw [this, except_bind_ok, ih (fun v' h' => h v' (by simp [h']))]
    simp

theorem fold_blocks (bs : List Block) (h : ∀ b ∈ bs, BlockOK b) (e : Engine) :
    (bs.map (blockLines keep c)).foldlM processChunk e
      = .ok { e with blocks := e.blocks ++ bs.map (canonBlock keep c) } := by
  induction bs generalizing e with
  | nil => simp
  | cons b bs ih =>
    have hv := block_roundtrip keep c b (h b (by simp))
    simp only [List.map_cons, List.foldlM_cons]
    have : processChunk e (blockLines keep c b) = .ok { e with blocks := e.blocks ++ [canonBlock keep c b] } := by
      have : processChunk e (blockLines keep c b) = processBlock .ruleBlock (blockLines keep c b) e := by
        simp [blockLines, processChunk]
      rw [this]; simp only [processBlock, hv]; rfl
    rw [this, except_bind_ok, ih (fun v' h' => h v' (by simp [h']))]
    simp

theorem engineHead_fold (e : Engine) :
    processChunk {} (engineHead e) = .ok { name := e.name, description := e.description } := by
  unfold engineHead
  by_cases hd : e.description = ""
  · simp [hd, processChunk, processBlock, importEngineLine, textOf_textToks]
  · simp [hd, processChunk, processBlock, importEngineLine, textOf_textToks, textOf_w]

/-- importing what was exported gives the canonical image of the engine -/
theorem import_export (e : Engine) (h : WellFormed e) :
    fllImport (exportWith keep c e) = .ok (canonWith keep c e) := by
  obtain ⟨hi, ho, hb⟩ := h
  unfold exportWith
  have hflat : engineHead e ++ (e.inputs.map (inputLines keep c)).flatten ++ (e.outputs.map (outputLines keep c)).flatten
      ++ (e.blocks.map (blockLines keep c)).flatten
      = engineHead e ++ (e.inputs.map (inputLines keep c) ++ e.outputs.map (outputLines keep c)
        ++ e.blocks.map (blockLines keep c)).flatten := by simp [List.append_assoc]
  rw [hflat, fllImport_chunks _ _ (engineHead_chunk e)]
  · simp only [List.foldlM_cons, engineHead_fold, except_bind_ok, List.foldlM_append, fold_inputs keep c _ hi,
      fold_outputs keep c _ ho, fold_blocks keep c _ hb]
    simp [canonWith]
  · intro ch hch
    simp only [List.mem_append, List.mem_map] at hch
    rcases hch with (⟨v, _, rfl⟩ | ⟨o, _, rfl⟩) | ⟨b, _, rfl⟩
    · exact inputLines_chunk keep c v
    · exact outputLines_chunk keep c o
    · exact blockLines_chunk keep c b

/-! ### exporting the canonical image -/

theorem numTok_rnd (x : Num) : numTok c (rnd c.d x) = numTok c x := by simp [numTok, rnd_rnd]

theorem map_numTok_rnd (xs : List Num) : (xs.map (rnd c.d)).map (numTok c) = xs.map (numTok c) := by
  simp [numTok_rnd, Function.comp_def]

/-- the height rule survives one cycle for this height -/
def KeepStable (h : Num) : Prop := keep h = true → keep (rnd c.d h) = true

theorem heightToks_canonH (hone : keep one = false) (h : Num) (hs : KeepStable keep c h) :
    heightToks keep c (canonH keep c h) = heightToks keep c h := by
  unfold heightToks canonH
  by_cases hk : keep h = true
  · simp [hk, hs hk, numTok_rnd]
  · simp [hk, hone]

theorem termLine_canon (hone : keep one = false) (t : Term) (hs : ∀ h ∈ termHeights t, KeepStable keep c h) :
    termLine keep c (canonTerm keep c t) = termLine keep c t := by
  unfold termLine canonTerm
  simp only [asIdent_idem]
  congr 3
  cases hb : t.body with
  | shape ps h =>
    cases h with
    | none => simp [canonBody, termParams, numTok_rnd]
    | some h =>
      have := hs h (by simp [termHeights, hb])
      simp [canonBody, termParams, numTok_rnd, heightToks_canonH keep c hone h this]
  | discrete xy h =>
    have := hs h (by simp [termHeights, hb])
    simp [canonBody, termParams, numTok_rnd, heightToks_canonH keep c hone h this]
  | linear cs => simp [canonBody, termParams, numTok_rnd]
  | function f => simp [canonBody, termParams]

theorem terms_canon (hone : keep one = false) (ts : List Term)
    (hs : ∀ h ∈ ts.flatMap termHeights, KeepStable keep c h) :
    (ts.map (canonTerm keep c)).map (termLine keep c) = ts.map (termLine keep c) := by
  rw [List.map_map]
  apply List.map_congr_left
  intro t ht
  exact termLine_canon keep c hone t (fun h hh => hs h (List.mem_flatMap.2 ⟨t, ht, hh⟩))

theorem varHead_canon (hdr : Key) (v : Var) (hn : IsIdent v.name) :
    varHead c hdr (canonVar keep c v) = varHead c hdr v := by
  unfold varHead canonVar
  simp only [numTok_rnd]
  rw [hn]

theorem inputLines_canon (hone : keep one = false) (v : Var) (hn : IsIdent v.name)
    (hs : ∀ h ∈ v.terms.flatMap termHeights, KeepStable keep c h) :
    inputLines keep c (canonVar keep c v) = inputLines keep c v := by
  unfold inputLines
  rw [varHead_canon keep c _ v hn]
  have : (canonVar keep c v).terms = v.terms.map (canonTerm keep c) := rfl
  rw [this, terms_canon keep c hone _ hs]

theorem outputLines_canon (hone : keep one = false) (o : OutVar) (hn : IsIdent o.base.name)
    (hs : ∀ h ∈ o.base.terms.flatMap termHeights, KeepStable keep c h) :
    outputLines keep c (canonOut keep c o) = outputLines keep c o := by
  unfold outputLines
  have h1 : (canonOut keep c o).base = canonVar keep c o.base := rfl
  have h2 : (canonVar keep c o.base).terms = o.base.terms.map (canonTerm keep c) := rfl
  rw [h1, varHead_canon keep c _ o.base hn, h2, terms_canon keep c hone _ hs]
  simp [canonOut, numTok_rnd]

theorem activToks_canon (a : Option Activ) : activToks c (a.map (canonActiv c)) = activToks c a := by
  cases a with
  | none => rfl
  | some a => cases a <;> simp [canonActiv, activToks, numTok_rnd]

theorem ruleLine_canon (hone : keep one = false) (r : Rule) (hs : KeepStable keep c r.weight) :
    ruleLine keep c (canonRule keep c r) = ruleLine keep c r := by
  unfold ruleLine ruleToks canonRule
  have := heightToks_canonH keep c hone r.weight hs
  unfold heightToks at this
  simp only
  by_cases hk : keep r.weight = true
  · have h2 : keep (canonH keep c r.weight) = true := by simp [canonH, hk, hs hk]
    simp [hk, canonH, numTok_rnd, hs hk]
  · have h2 : keep (canonH keep c r.weight) = false := by simp [canonH, hk, hone]
    simp [hk, h2]

theorem blockLines_canon (hone : keep one = false) (b : Block)
    (hs : ∀ h ∈ b.rules.map (·.weight), KeepStable keep c h) :
    blockLines keep c (canonBlock keep c b) = blockLines keep c b := by
  have hr : (b.rules.map (canonRule keep c)).map (ruleLine keep c) = b.rules.map (ruleLine keep c) := by
    rw [List.map_map]
    apply List.map_congr_left
    intro r hr
    exact ruleLine_canon keep c hone r (hs _ (List.mem_map.2 ⟨r, hr, rfl⟩))
  unfold blockLines canonBlock
  simp only [activToks_canon, hr]

/-- re-exporting the canonical image prints the same lines -/
theorem export_canon (hone : keep one = false) (e : Engine)
    (hin : ∀ v ∈ e.inputs, IsIdent v.name) (hout : ∀ o ∈ e.outputs, IsIdent o.base.name)
    (hs : Stable keep c e) :
    exportWith keep c (canonWith keep c e) = exportWith keep c e := by
  unfold exportWith canonWith
  have hs' : ∀ h ∈ heightsAndWeights e, KeepStable keep c h := hs
  unfold heightsAndWeights at hs'
  simp only [List.map_map, engineHead]
  congr 1
  · congr 1
    · congr 2
      apply List.map_congr_left
      intro v hv
      exact inputLines_canon keep c hone v (hin v hv) (fun h hh =>
        hs' h (by simp only [List.mem_append, List.mem_flatMap]; exact Or.inl (Or.inl ⟨v, hv, List.mem_flatMap.1 hh⟩)))
    · congr 1
      apply List.map_congr_left
      intro o ho
      exact outputLines_canon keep c hone o (hout o ho) (fun h hh =>
        hs' h (by simp only [List.mem_append, List.mem_flatMap]; exact Or.inl (Or.inr ⟨o, ho, List.mem_flatMap.1 hh⟩)))
  · congr 1
    apply List.map_congr_left
    intro b hb
    exact blockLines_canon keep c hone b (fun h hh =>
      hs' h (by simp only [List.mem_append, List.mem_flatMap]; exact Or.inr ⟨b, hb, hh⟩))

end keepsec

end Op.FllIO
