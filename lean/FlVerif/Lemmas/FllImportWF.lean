import FlVerif.Lemmas.FllRoundTrip

/-! Whatever the importer accepts is a printable engine (registered classes with the right number of
parameters, identifier names for variables, well-formed rules). -/

namespace Op.FllIO
open Dec Spec.Fll

theorem foldlM_invariant {σ α : Type} (P : σ → Prop) (f : σ → α → Except Err σ)
    (hf : ∀ s x s', f s x = .ok s' → P s → P s') (l : List α) (s0 s : σ) (h0 : P s0)
    (h : l.foldlM f s0 = .ok s) : P s := by
  induction l generalizing s0 with
  | nil => simp at h; exact h ▸ h0
  | cons x xs ih =>
    simp only [List.foldlM_cons] at h
    cases hx : f s0 x with
    | error e => rw [hx] at h; simp at h
    | ok s1 => rw [hx] at h; exact ih s1 (hf s0 x s1 hx h0) h

theorem map_ok_inv {α β} {f : α → β} {x : Except Err α} {b : β} (h : x.map f = .ok b) : ∃ a, x = .ok a ∧ f a = b := by
  cases x with
  | error e => simp at h
  | ok a => exact ⟨a, rfl, by simpa using h⟩

/-! ### terms -/

theorem parseShape_ok (req : ℕ) (hasH : Bool) (xs : List Num) (b : TermBody) (h : parseShape req hasH xs = .ok b) :
    ∃ ps ho, b = .shape ps ho ∧ ps.length = req ∧ ho.isSome = hasH := by
  unfold parseShape at h
  cases hasH with
  | true =>
    simp only [if_true] at h
    by_cases h1 : xs.length = req
    · simp only [h1, if_true, Except.ok.injEq] at h
      exact ⟨xs, some one, h.symm, h1, rfl⟩
    · by_cases h2 : xs.length = req + 1
      · rw [if_neg h1, if_pos h2] at h
        simp only [Except.ok.injEq] at h
        exact ⟨xs.dropLast, _, h.symm, by simp [h2], rfl⟩
      · simp [h1, h2] at h
  | false =>
    simp only [Bool.false_eq_true, if_false] at h
    by_cases h1 : xs.length = req
    · simp only [h1, if_true, Except.ok.injEq] at h
      exact ⟨xs, none, h.symm, h1, rfl⟩
    · simp [h1] at h

theorem configure_ok (name cls : String) (ps : List Tok) (b : TermBody) (h : configure cls ps = .ok b) :
    TermOK ⟨name, cls, b⟩ := by
  unfold configure at h
  by_cases hk : cls ∈ Gen.Tables.termKeys
  · simp only [hk, not_true_eq_false, if_false] at h
    refine ⟨hk, ?_⟩
    by_cases hf : cls = "Function"
    · simp only [hf, if_true] at h
      match ps, h with
      | [], h => simp at h; subst h; exact hf
      | [.w f], h => simp at h; subst h; exact hf
    · simp only [hf, if_false] at h
      by_cases hl : cls = "Linear"
      · simp only [hl, if_true] at h
        obtain ⟨xs, _, rfl⟩ := map_ok_inv h
        exact hl
      · simp only [hl, if_false] at h
        by_cases hd : cls = "Discrete"
        · simp only [hd, if_true] at h
          obtain ⟨xs, _, hb⟩ := map_ok_inv h
          by_cases he : xs.length % 2 = 0
          · simp only [he, if_true] at hb; subst hb; exact ⟨hd, he⟩
          · simp only [he, if_false] at hb; subst hb
            refine ⟨hd, ?_⟩
            simp only [List.length_dropLast]; omega
        · simp only [hd, if_false] at h
          have hs : isSpecialTerm cls = false := by simp [isSpecialTerm, hf, hl, hd]
          cases ha : termArity cls with
          | none => simp [ha] at h
          | some rh =>
            obtain ⟨req, hasH⟩ := rh
            simp only [ha] at h
            by_cases hp : ps = []
            · simp only [hp, if_true, Except.ok.injEq] at h
              subst h
              refine ⟨hs, ?_⟩
              cases hasH <;> simp
            · simp only [hp, if_false] at h
              cases hn : numsOf ps with
              | error e => rw [hn] at h; simp at h
              | ok xs =>
                rw [hn] at h
                obtain ⟨ps', ho, rfl, hlen, hsome⟩ := parseShape_ok req hasH xs b h
                exact ⟨hs, by rw [hlen, hsome]⟩
  · simp [hk] at h

theorem importTerm_ok (ts : List Tok) (t : Term) (h : importTerm ts = .ok t) : TermOK t := by
  match ts, h with
  | .w name :: .w cls :: ps, h =>
    simp only [importTerm] at h
    obtain ⟨b, hb, rfl⟩ := map_ok_inv h
    exact configure_ok _ cls ps b hb

/-! ### operators, defuzzifiers, activation methods, rules -/

theorem normOf_ok (keys : List String) (ts : List Tok) (o : Option String) (h : normOf keys ts = .ok o) :
    NormOK keys o := by
  match ts, h with
  | [], h => simp [normOf] at h; subst h; intro s hs; cases hs
  | [.w s], h =>
    simp only [normOf] at h
    by_cases h1 : s = "none"
    · simp [h1] at h; subst h; intro s hs; cases hs
    · by_cases h2 : s ∈ keys
      · simp [h1, h2] at h; subst h; intro s' hs'; cases hs'; exact h2
      · simp [h1, h2] at h

theorem importDefuzz_ok (ts : List Tok) (d : Option Defuzz) (h : importDefuzz ts = .ok d) : DefuzzOK d := by
  match ts, h with
  | [], h => simp [importDefuzz] at h; subst h; trivial
  | .w cls :: ps, h =>
    simp only [importDefuzz] at h
    by_cases h1 : cls = "none" ∧ ps = []
    · simp [h1] at h; subst h; trivial
    · simp only [h1, if_false] at h
      cases hk : defuzzKind cls with
      | none => simp [hk] at h
      | some k =>
        simp only [hk] at h
        obtain ⟨x, hx, rfl⟩ := map_ok_inv h
        cases k with
        | integral =>
          match ps, hx with
          | [], hx => simp [defuzzParams] at hx; subst hx; exact hk
          | [.i r], hx => simp [defuzzParams] at hx; subst hx; exact hk
        | weighted =>
          match ps, hx with
          | [], hx => simp [defuzzParams] at hx; subst hx; exact ⟨hk, by decide⟩
          | [.w ty], hx =>
            simp only [defuzzParams] at hx
            by_cases ht : ty ∈ Gen.ExportTables.defuzzifierTypes
            · simp [ht] at hx; subst hx; exact ⟨hk, ht⟩
            · simp [ht] at hx

theorem gt_is_comparator : ">" ∈ comparatorSymbols := by decide

theorem importActiv_ok (ts : List Tok) (a : Option Activ) (h : importActiv ts = .ok a) : ActivOK a := by
  match ts, h with
  | [], h => simp [importActiv] at h; subst h; trivial
  | .w cls :: ps, h =>
    simp only [importActiv] at h
    by_cases h1 : cls = "none" ∧ ps = []
    · simp [h1] at h; subst h; trivial
    · simp only [h1, if_false] at h
      cases hk : activKind cls with
      | none => simp [hk] at h
      | some k =>
        simp only [hk] at h
        obtain ⟨x, hx, rfl⟩ := map_ok_inv h
        cases k with
        | plain => simp [activParams] at hx; subst hx; exact hk
        | nth =>
          match ps, hx with
          | [], hx => simp [activParams] at hx; subst hx; exact hk
          | [.i r, .n t], hx => simp [activParams] at hx; subst hx; exact hk
        | best =>
          match ps, hx with
          | [], hx => simp [activParams] at hx; subst hx; exact hk
          | [.i r], hx => simp [activParams] at hx; subst hx; exact hk
        | threshold =>
          match ps, hx with
          | [], hx => simp [activParams] at hx; subst hx; exact ⟨hk, gt_is_comparator⟩
          | [.w cmp, .n t], hx =>
            simp only [activParams] at hx
            by_cases hc : cmp ∈ comparatorSymbols
            · simp [hc] at hx; subst hx; exact ⟨hk, hc⟩
            · simp [hc] at hx

/-- invariant of the loop of `Rule.parse`: the collected antecedent has no `then`, the consequent no `with`,
    and nothing is collected before the corresponding keyword was seen -/
def RInv (st : RState) (a q : List String) : Prop :=
  "then" ∉ a ∧ "with" ∉ q ∧ (st = .sBegin → a = [] ∧ q = []) ∧ (st = .sIf → q = [])

theorem ruleLoop_inv (ts : List Tok) (st : RState) (a q : List String) (w : Num)
    (st' : RState) (a' q' : List String) (w' : Num) (hinv : RInv st a q)
    (h : ruleLoop ts st a q w = .ok (st', a', q', w')) : RInv st' a' q' := by
  induction ts generalizing st a q w with
  | nil => simp [ruleLoop] at h; obtain ⟨rfl, rfl, rfl, rfl⟩ := h; exact hinv
  | cons t ts ih =>
    obtain ⟨ha, hq, hb, hi⟩ := hinv
    cases st with
    | sBegin =>
      simp only [ruleLoop] at h
      by_cases ht : t = .w "if"
      · simp only [ht, if_true] at h
        obtain ⟨rfl, rfl⟩ := hb rfl
        exact ih .sIf [] [] w ⟨by simp, by simp, by simp, by simp⟩ h
      · simp [ht] at h
    | sIf =>
      simp only [ruleLoop] at h
      cases t with
      | w s =>
        simp only at h
        have hq0 := hi rfl
        by_cases hs : s = "then"
        · simp only [hs, if_true] at h
          exact ih .sThen a q w ⟨ha, hq, by simp, by simp⟩ h
        · simp only [hs, if_false] at h
          refine ih .sIf (a ++ [s]) q w ⟨?_, hq, by simp, fun _ => hq0⟩ h
          simp only [List.mem_append, List.mem_singleton, not_or]
          exact ⟨ha, fun e => hs e.symm⟩
      | n x => simp at h
      | i z => simp at h
    | sThen =>
      simp only [ruleLoop] at h
      cases t with
      | w s =>
        simp only at h
        by_cases hs : s = "with"
        · simp only [hs, if_true] at h
          exact ih .sWith a q w ⟨ha, hq, by simp, by simp⟩ h
        · simp only [hs, if_false] at h
          refine ih .sThen a (q ++ [s]) w ⟨ha, ?_, by simp, by simp⟩ h
          simp only [List.mem_append, List.mem_singleton, not_or]
          exact ⟨hq, fun e => hs e.symm⟩
      | n x => simp at h
      | i z => simp at h
    | sWith =>
      simp only [ruleLoop] at h
      cases t with
      | n x => exact ih .sEnd a q x ⟨ha, hq, by simp, by simp⟩ h
      | w s => simp at h
      | i z => simp at h
    | sEnd => simp [ruleLoop] at h

theorem importRule_ok (ts : List Tok) (r : Rule) (h : importRule ts = .ok r) : RuleOK r := by
  unfold importRule at h
  cases hl : ruleLoop ts .sBegin [] [] one with
  | error e => rw [hl] at h; simp at h
  | ok res =>
    obtain ⟨st, a, q, w⟩ := res
    rw [hl] at h
    simp only at h
    have hinv := ruleLoop_inv ts .sBegin [] [] one st a q w ⟨by simp, by simp, by simp, by simp⟩ hl
    by_cases h1 : st = .sBegin ∨ st = .sIf ∨ st = .sWith
    · simp [h1] at h
    · by_cases h2 : a = [] ∨ q = []
      · simp [h1, h2] at h
      · simp only [h1, h2, if_false, Except.ok.injEq] at h
        subst h
        simp only [not_or] at h2
        exact ⟨h2.1, hinv.1, h2.2, hinv.2.1⟩

/-! ### variables, blocks, engine -/

theorem importVarLine_ok (hdr : Key) (v v' : Var) (l : Line) (h : importVarLine hdr v l = .ok v') (hv : VarOK v) :
    VarOK v' := by
  unfold importVarLine at h
  by_cases hk : l.key = hdr
  · simp only [hk, if_true] at h
    obtain ⟨s, _, rfl⟩ := map_ok_inv h; exact hv
  · simp only [hk, if_false] at h
    split at h
    · obtain ⟨s, _, rfl⟩ := map_ok_inv h; exact hv
    · obtain ⟨s, _, rfl⟩ := map_ok_inv h; exact hv
    · obtain ⟨s, _, rfl⟩ := map_ok_inv h; exact hv
    · obtain ⟨s, _, rfl⟩ := map_ok_inv h; exact hv
    · obtain ⟨t, ht, rfl⟩ := map_ok_inv h
      intro t' ht'
      rcases List.mem_append.1 ht' with h' | h'
      · exact hv t' h'
      · simp at h'; subst h'; exact importTerm_ok _ _ ht
    · simp at h

theorem varOK_empty : VarOK ({} : Var) := by intro t ht; simp at ht

theorem importInput_ok (ls : List Line) (v : Var) (h : importInput ls = .ok v) : VarOK v ∧ IsIdent v.name := by
  unfold importInput at h
  obtain ⟨v0, h0, rfl⟩ := map_ok_inv h
  have := foldlM_invariant VarOK _ (fun s x s' hs => importVarLine_ok .inputVariable s s' x hs) ls {} v0 varOK_empty h0
  exact ⟨this, isIdent_asIdent _⟩

theorem importOutLine_ok (o o' : OutVar) (l : Line) (h : importOutLine o l = .ok o') (ho : OutOK o) : OutOK o' := by
  obtain ⟨hv, ha, hd⟩ := ho
  unfold importOutLine at h
  split at h
  · obtain ⟨s, _, rfl⟩ := map_ok_inv h; exact ⟨hv, ha, hd⟩
  · obtain ⟨s, _, rfl⟩ := map_ok_inv h; exact ⟨hv, ha, hd⟩
  · obtain ⟨s, hs, rfl⟩ := map_ok_inv h; exact ⟨hv, ha, importDefuzz_ok _ _ hs⟩
  · obtain ⟨s, hs, rfl⟩ := map_ok_inv h; exact ⟨hv, normOf_ok _ _ _ hs, hd⟩
  · obtain ⟨s, hs, rfl⟩ := map_ok_inv h; exact ⟨importVarLine_ok _ _ _ _ hs hv, ha, hd⟩

theorem importOutput_ok (ls : List Line) (o : OutVar) (h : importOutput ls = .ok o) : OutOK o ∧ IsIdent o.base.name := by
  unfold importOutput at h
  obtain ⟨o0, h0, rfl⟩ := map_ok_inv h
  have := foldlM_invariant OutOK _ (fun s x s' hs => importOutLine_ok s s' x hs) ls {} o0
    ⟨varOK_empty, (by intro s hs; cases hs), trivial⟩ h0
  exact ⟨⟨this.1, this.2.1, this.2.2⟩, isIdent_asIdent _⟩

theorem importBlockLine_ok (b b' : Block) (l : Line) (h : importBlockLine b l = .ok b') (hb : BlockOK b) :
    BlockOK b' := by
  obtain ⟨hc, hd, hi, ha, hr⟩ := hb
  unfold importBlockLine at h
  split at h
  · obtain ⟨s, _, rfl⟩ := map_ok_inv h; exact ⟨hc, hd, hi, ha, hr⟩
  · obtain ⟨s, _, rfl⟩ := map_ok_inv h; exact ⟨hc, hd, hi, ha, hr⟩
  · obtain ⟨s, _, rfl⟩ := map_ok_inv h; exact ⟨hc, hd, hi, ha, hr⟩
  · obtain ⟨s, hs, rfl⟩ := map_ok_inv h; exact ⟨normOf_ok _ _ _ hs, hd, hi, ha, hr⟩
  · obtain ⟨s, hs, rfl⟩ := map_ok_inv h; exact ⟨hc, normOf_ok _ _ _ hs, hi, ha, hr⟩
  · obtain ⟨s, hs, rfl⟩ := map_ok_inv h; exact ⟨hc, hd, normOf_ok _ _ _ hs, ha, hr⟩
  · obtain ⟨s, hs, rfl⟩ := map_ok_inv h; exact ⟨hc, hd, hi, importActiv_ok _ _ hs, hr⟩
  · obtain ⟨r, hs, rfl⟩ := map_ok_inv h
    refine ⟨hc, hd, hi, ha, ?_⟩
    intro r' hr'
    rcases List.mem_append.1 hr' with h' | h'
    · exact hr r' h'
    · simp at h'; subst h'; exact importRule_ok _ _ hs
  · simp at h

theorem importBlock_ok (ls : List Line) (b : Block) (h : importBlock ls = .ok b) : BlockOK b := by
  unfold importBlock at h
  refine foldlM_invariant BlockOK _ (fun s x s' hs => importBlockLine_ok s s' x hs) ls {} b ?_ h
  exact ⟨(by intro s hs; cases hs), (by intro s hs; cases hs), (by intro s hs; cases hs), trivial, (by intro r hr; simp at hr)⟩

theorem importEngineLine_ok (e e' : Engine) (l : Line) (h : importEngineLine e l = .ok e') (he : Printable e) :
    Printable e' := by
  unfold importEngineLine at h
  split at h
  · obtain ⟨s, _, rfl⟩ := map_ok_inv h; exact he
  · obtain ⟨s, _, rfl⟩ := map_ok_inv h; exact he
  · simp at h

theorem processBlock_ok (k : Key) (block : List Line) (e e' : Engine) (h : processBlock k block e = .ok e')
    (he : Printable e) : Printable e' := by
  obtain ⟨⟨hi, ho, hb⟩, hni, hno⟩ := he
  unfold processBlock at h
  split at h
  · exact foldlM_invariant Printable _ (fun s x s' hs => importEngineLine_ok s s' x hs) block e e'
      ⟨⟨hi, ho, hb⟩, hni, hno⟩ h
  · obtain ⟨v, hv, rfl⟩ := map_ok_inv h
    obtain ⟨h1, h2⟩ := importInput_ok _ _ hv
    refine ⟨⟨?_, ho, hb⟩, ?_, hno⟩
    · intro v' hv'; rcases List.mem_append.1 hv' with h' | h'
      · exact hi v' h'
      · simp at h'; subst h'; exact h1
    · intro v' hv'; rcases List.mem_append.1 hv' with h' | h'
      · exact hni v' h'
      · simp at h'; subst h'; exact h2
  · obtain ⟨v, hv, rfl⟩ := map_ok_inv h
    obtain ⟨h1, h2⟩ := importOutput_ok _ _ hv
    refine ⟨⟨hi, ?_, hb⟩, hni, ?_⟩
    · intro v' hv'; rcases List.mem_append.1 hv' with h' | h'
      · exact ho v' h'
      · simp at h'; subst h'; exact h1
    · intro v' hv'; rcases List.mem_append.1 hv' with h' | h'
      · exact hno v' h'
      · simp at h'; subst h'; exact h2
  · obtain ⟨v, hv, rfl⟩ := map_ok_inv h
    have h1 := importBlock_ok _ _ hv
    refine ⟨⟨hi, ho, ?_⟩, hni, hno⟩
    intro v' hv'; rcases List.mem_append.1 hv' with h' | h'
    · exact hb v' h'
    · simp at h'; subst h'; exact h1
  · simp at h; subst h; exact ⟨⟨hi, ho, hb⟩, hni, hno⟩

theorem engineLoop_ok (ls : List Line) (comp : Option Key) (block : List Line) (e e' : Engine)
    (h : engineLoop ls comp block e = .ok e') (he : Printable e) : Printable e' := by
  induction ls generalizing comp block e with
  | nil =>
    simp only [engineLoop] at h
    cases comp with
    | none => simp at h; subst h; exact he
    | some k =>
      simp only at h
      by_cases hb : block = []
      · simp [hb] at h; subst h; exact he
      · simp only [hb, if_false] at h; exact processBlock_ok k block e e' h he
  | cons l ls ih =>
    simp only [engineLoop] at h
    by_cases hh : isHeader l.key = true
    · simp only [hh, if_true] at h
      cases comp with
      | none => exact ih _ _ e h he
      | some k =>
        simp only at h
        cases hp : processBlock k block e with
        | error err => rw [hp] at h; simp at h
        | ok e1 => rw [hp] at h; exact ih _ _ e1 h (processBlock_ok k block e e1 hp he)
    · simp only [hh] at h
      exact ih _ _ e h he

theorem printable_empty : Printable ({} : Engine) :=
  ⟨⟨(by intro v hv; simp at hv), (by intro v hv; simp at hv), (by intro v hv; simp at hv)⟩,
   (by intro v hv; simp at hv), (by intro v hv; simp at hv)⟩

/-- every accepted text denotes a printable engine -/
theorem fllImport_printable (ls : List Line) (e : Engine) (h : fllImport ls = .ok e) : Printable e :=
  engineLoop_ok ls none [] {} e h printable_empty

end Op.FllIO
