import FlVerif.Gen.CodeFunEval
import FlVerif.Lemmas.CodeFunctionParse
import FlVerif.Lemmas.ParsePostfix

/-! # Tie A for the evaluation of a `Function` term: `Function.Node.evaluate`, `Function.evaluate` and
    `Function.membership` as translated from the current source equal the models `Op.evalTree` / `Op.membershipEnv`

Values are any type `V` (`sem.ap0/ap1/ap2` = the meaning of `element.method(*args)`, `const` = the scalar of a float).
The code works on `Function.Node` trees (`Py.Node`), the model on expression trees; the trees of the code are the
images `Expr.toNode` of the model's trees (`C17.code_parsePostfix`).  Two facts about trees that `Function.parse`
builds are used: the arity of every element is the number of its operands (`Op.Arities`: an element of arity 3 or
more would be *skipped* by `Node.evaluate`, the result being `nan`), and a leaf is a token, hence not the empty
string (`Node.evaluate` takes a node whose variable name is empty for a constant). -/

set_option linter.unusedSimpArgs false

namespace Lang

/-- the leaves of the tree are tokens: not the empty string -/
def Expr.LeavesNonempty : Expr → Prop
  | .leaf s => s ≠ ""
  | .words _ => True
  | .app0 _ => True
  | .app1 _ x => x.LeavesNonempty
  | .app2 _ l r => l.LeavesNonempty ∧ r.LeavesNonempty

end Lang

namespace Py.FunEval

theorem lookupLast_none {β : Type} (d : List (String × β)) (k : String) (h : dictHas d k = false) :
    Op.lookupLast d k = none := by
  unfold Op.lookupLast
  unfold dictHas at h
  simp only [List.any_eq_false] at h
  simp only [Option.map_eq_none_iff, List.find?_eq_none, List.mem_reverse]
  exact h

theorem lookupLast_some {β : Type} (d : List (String × β)) (k : String) (h : dictHas d k = true) :
    ∃ v, Op.lookupLast d k = some v := by
  cases hl : Op.lookupLast d k with
  | some v => exact ⟨v, rfl⟩
  | none =>
    unfold Op.lookupLast at hl
    unfold dictHas at h
    simp only [Option.map_eq_none_iff, List.find?_eq_none, List.mem_reverse] at hl
    simp only [List.any_eq_true] at h
    obtain ⟨x, hx, hk⟩ := h
    exact absurd hk (hl x hx)

end Py.FunEval

namespace CodeFunEval
open Lang Op Gen.Code Py.FunEval

variable {V : Type} [Inhabited V]

/-- what the model's value of a tree and a run of the translated `Node.evaluate` have in common -/
def AgreeV {S : Type} (ret : S → Option V) (r : Option V) (g : Py.M S) : Prop :=
  match r with
  | none => g = .error .value
  | some v => ∃ σ, g = .ok σ ∧ ret σ = some v

theorem height_pos (n : Py.Node) : 0 < height n := by
  cases n; rw [height]; omega

/-- a leaf -/
theorem code_evalLeaf (sem : Sem V) (const : X Rat → V) (lv : Option (List (String × V))) (s : String) (hs : s ≠ "")
    (fuel : Nat) (σ0 : Node_evaluate.S V) :
    AgreeV (·.ret) ((nodeSem sem const lv).leaf s) (Node_evaluate.rec (fuel + 1) sem const (Expr.leaf s).toNode lv σ0) := by
  simp only [nodeSem, Expr.toNode]
  cases hf : parseFloat s with
  | some x =>
    simp only [Node_evaluate.rec, Option.isSome_none, Bool.false_eq_true, if_false, bne_self_eq_false, AgreeV]
    exact ⟨_, rfl, rfl⟩
  | none =>
    have hne : (s != "") = true := by simp [hs]
    simp only [Node_evaluate.rec, Option.isSome_none, Bool.false_eq_true, if_false, hne, if_true]
    cases lv with
    | none => simp [dictTruthy, AgreeV, bind, Except.bind]
    | some d =>
      cases hd : d.isEmpty with
      | true =>
        have : d = [] := List.isEmpty_iff.1 hd
        subst this
        simp [dictTruthy, AgreeV, bind, Except.bind, lookupLast]
      | false =>
        cases hh : dictHas d s with
        | false =>
          simp [dictTruthy, hd, hh, AgreeV, bind, Except.bind, lookupLast_none d s hh]
        | true =>
          obtain ⟨v, hv⟩ := lookupLast_some d s hh
          simp [dictTruthy, hd, hh, AgreeV, bind, Except.bind, hv, dictGet]

/-- **the recursion**: for every tree that `Function.parse` can build and every bound that is at least the height of
    its node tree, the translated `Node.evaluate` raises `ValueError` where the model has no value (a variable without
    substitution) and otherwise returns the model's value; the bound is never exhausted -/
theorem code_evalRec (sem : Sem V) (const : X Rat → V) (lv : Option (List (String × V))) :
    ∀ (e : Expr), Arities e → e.LeavesNonempty → ∀ (fuel : Nat) (σ0 : Node_evaluate.S V), height e.toNode ≤ fuel →
    AgreeV (·.ret) (evalTree (nodeSem sem const lv) e) (Node_evaluate.rec fuel sem const e.toNode lv σ0)
  | .leaf s, _, hl, fuel, σ0, hf => by
    cases fuel with
    | zero => exact absurd hf (by have := height_pos (Expr.leaf s).toNode; omega)
    | succ f => exact code_evalLeaf sem const lv s hl f σ0
  | .words _, ha, _, _, _, _ => ha.elim
  | .app0 f, ha, _, fuel, σ0, hf => by
    cases fuel with
    | zero => exact absurd hf (by have := height_pos (Expr.app0 f).toNode; omega)
    | succ n =>
      have h0 : f.arity = 0 := ha
      simp only [Expr.toNode, Node_evaluate.rec, Option.isSome_some, if_true, Py.deref_some, bind, Except.bind, h0,
        BEq.rfl, evalTree, nodeSem, AgreeV]
      exact ⟨_, rfl, rfl⟩
  | .app1 f x, ha, hl, fuel, σ0, hf => by
    cases fuel with
    | zero => exact absurd hf (by have := height_pos (Expr.app1 f x).toNode; omega)
    | succ n =>
      obtain ⟨h1, hx⟩ := ha
      have hfx : height x.toNode ≤ n := by
        simp only [Expr.toNode, height, heightO] at hf; omega
      have ih := code_evalRec sem const lv x hx hl n {} hfx
      have a0 : (f.arity == 0) = false := by simp [h1]
      have a1 : (f.arity == 1) = true := by simp [h1]
      simp only [Expr.toNode, Node_evaluate.rec, Option.isSome_some, if_true, Py.deref_some, bind, Except.bind, a0, a1,
        Option.none_or, Bool.false_eq_true, if_false, evalTree]
      cases hv : evalTree (nodeSem sem const lv) x with
      | none =>
        rw [hv] at ih
        simp only [AgreeV] at ih
        simp only [ih, AgreeV, Option.map_none]
      | some v =>
        rw [hv] at ih
        obtain ⟨σ', h1', h2'⟩ := ih
        simp only [h1', h2', Py.deref_some, AgreeV, Option.map_some, nodeSem]
        exact ⟨_, rfl, rfl⟩
  | .app2 f l r, ha, hl, fuel, σ0, hf => by
    cases fuel with
    | zero => exact absurd hf (by have := height_pos (Expr.app2 f l r).toNode; omega)
    | succ n =>
      obtain ⟨h2, hal, har⟩ := ha
      have hfl : height l.toNode ≤ n := by
        simp only [Expr.toNode, height, heightO] at hf; omega
      have hfr : height r.toNode ≤ n := by
        simp only [Expr.toNode, height, heightO] at hf; omega
      have ihl := code_evalRec sem const lv l hal hl.1 n {} hfl
      have ihr := code_evalRec sem const lv r har hl.2 n {} hfr
      have a0 : (f.arity == 0) = false := by simp [h2]
      have a1 : (f.arity == 1) = false := by simp [h2]
      have a2 : (f.arity == 2) = true := by simp [h2]
      simp only [Expr.toNode, Node_evaluate.rec, Option.isSome_some, if_true, Py.deref_some, bind, Except.bind, a0, a1, a2,
        Bool.false_eq_true, if_false, evalTree, Bool.not_true]
      cases hvl : evalTree (nodeSem sem const lv) l with
      | none =>
        rw [hvl] at ihl
        simp only [AgreeV] at ihl
        simp only [ihl, AgreeV]
      | some a =>
        rw [hvl] at ihl
        obtain ⟨σl, hl1, hl2⟩ := ihl
        cases hvr : evalTree (nodeSem sem const lv) r with
        | none =>
          rw [hvr] at ihr
          simp only [AgreeV] at ihr
          simp only [hl1, hl2, Py.deref_some, ihr, AgreeV]
        | some b =>
          rw [hvr] at ihr
          obtain ⟨σr, hr1, hr2⟩ := ihr
          simp only [hl1, hl2, hr1, hr2, Py.deref_some, AgreeV, nodeSem]
          exact ⟨_, rfl, rfl⟩

/-- **`Function.Node.evaluate` as translated from the source = the model `Op.evalTree`** (interpretation
    `Op.nodeSem`): `ValueError` where the model has no value, else the model's value -/
theorem code_nodeEvaluate (sem : Sem V) (const : X Rat → V) (lv : Option (List (String × V))) (e : Expr)
    (ha : Arities e) (hl : e.LeavesNonempty) :
    match evalTree (nodeSem sem const lv) e with
    | none => Node_evaluate.run sem const e.toNode lv {} = .error .value
    | some v => ∃ σ, Node_evaluate.run sem const e.toNode lv {} = .ok σ ∧ σ.ret = some v := by
  have h := code_evalRec sem const lv e ha hl (height e.toNode) {} (Nat.le_refl _)
  unfold Node_evaluate.run
  cases hv : evalTree (nodeSem sem const lv) e with
  | none => rw [hv] at h; exact h
  | some v => rw [hv] at h; exact h

/-- **`Function.evaluate` as translated from the source = the model `Op.evaluateOf`**: `RuntimeError` when no tree is
    loaded, else `Node.evaluate` of the root -/
theorem code_functionEvaluate (sem : Sem V) (const : X Rat → V) (lv : Option (List (String × V))) (root : Option Expr)
    (hr : ∀ e, root = some e → Arities e ∧ e.LeavesNonempty) :
    match evaluateOf (nodeSem sem const lv) root with
    | .error k => Function_evaluate.run sem const (root.map Expr.toNode) lv {} = .error k.toPy
    | .ok v => ∃ σ, Function_evaluate.run sem const (root.map Expr.toNode) lv {} = .ok σ ∧ σ.ret = some v := by
  cases root with
  | none => simp [Function_evaluate.run, evaluateOf, ErrKind.toPy]
  | some e =>
    have h := code_nodeEvaluate sem const lv e (hr e rfl).1 (hr e rfl).2
    simp only [Function_evaluate.run, Option.map_some, Option.isSome_some, Bool.not_true, Bool.false_eq_true, if_false,
      Py.deref_some, bind, Except.bind, evaluateOf]
    cases hv : evalTree (nodeSem sem const lv) e with
    | none =>
      rw [hv] at h
      simp only [h, ErrKind.toPy]
    | some v =>
      rw [hv] at h
      obtain ⟨σ, h1, h2⟩ := h
      simp only [h1, h2, Py.deref_some]
      exact ⟨_, rfl, rfl⟩

/-! ## `Function.membership` -/

/-- the loop over the engine's variables: one item assignment per variable -/
theorem code_envLoop (sem : Sem V) (const : X Rat → V) (root : Option Py.Node) (fvars : List (String × V))
    (engine : Option (List (String × V))) (x : V) : ∀ (l : List (String × V)) (σ : Function_membership.S V),
    ∃ σ', Function_membership.loop1 sem const root fvars engine x l σ = .ok σ' ∧
      σ'.engine_variables = σ.engine_variables ++ l
  | [], σ => ⟨σ, rfl, by simp⟩
  | kv :: l, σ => by
    simp only [Function_membership.loop1]
    obtain ⟨σ', h1, h2⟩ := code_envLoop sem const root fvars engine x l
      { σ with variable_ := kv, engine_variables := dictSet σ.engine_variables kv.1 kv.2 }
    exact ⟨σ', h1, by simp [h2, dictSet]⟩

/-- `overrides = self.variables.keys() & engine_variables.keys()` is non-empty iff a key of the one is a key of the other -/
theorem keysInter_isEmpty {β : Type} (a b : List (String × β)) :
    (keysInter a b).isEmpty = !a.any (fun kv => b.any (·.1 == kv.1)) := by
  unfold keysInter dictHas
  induction a with
  | nil => simp
  | cons kv a ih =>
    by_cases h : b.any (·.1 == kv.1) = true
    · simp [List.filter_cons, h]
    · simp only [Bool.not_eq_true] at h
      simp only [List.filter_cons, h, Bool.false_eq_true, if_false, List.any_cons, Bool.false_or]
      exact ih

/-- the translated function from the point where the map of variables is complete -/
theorem code_membershipTail (sem : Sem V) (const : X Rat → V) (root : Option Expr)
    (hr : ∀ e, root = some e → Arities e ∧ e.LeavesNonempty) (env : List (String × V))
    (mk : V → Function_membership.S V) (hmk : ∀ v, (mk v).ret = some v) :
    match evaluateOf (nodeSem sem const (some env)) root with
    | .error k => ((Function_evaluate.run sem const (root.map Expr.toNode) (some env) {} >>= fun r => Py.deref r.ret) >>= fun v =>
        (Except.ok (mk v) : Py.M (Function_membership.S V))) = .error k.toPy
    | .ok v => ∃ σ', ((Function_evaluate.run sem const (root.map Expr.toNode) (some env) {} >>= fun r => Py.deref r.ret) >>= fun v =>
        (Except.ok (mk v) : Py.M (Function_membership.S V))) = .ok σ' ∧ σ'.ret = some v := by
  have h := code_functionEvaluate sem const (some env) root hr
  cases hv : evaluateOf (nodeSem sem const (some env)) root with
  | error k =>
    rw [hv] at h
    simp only [h, bind, Except.bind]
  | ok v =>
    rw [hv] at h
    obtain ⟨σe, h1, h2⟩ := h
    simp only [h1, h2, bind, Except.bind, Py.deref_some]
    exact ⟨_, rfl, hmk v⟩

/-- **`Function.membership` as translated from the source = the model `Op.membershipOf`**: `Op.membershipEnv` (the map
    of variables: the engine's variables in order, then `x`, then the term's own; `ValueError` for a term variable `x`,
    an engine variable `x`, a term variable with the name of an engine variable) followed by `Op.evaluateOf` on the
    loaded tree (`RuntimeError` when the term is not loaded, `ValueError` for a variable without substitution) -/
theorem code_functionMembership (sem : Sem V) (const : X Rat → V) (root : Option Expr)
    (hr : ∀ e, root = some e → Arities e ∧ e.LeavesNonempty) (fvars : List (String × V))
    (engine : Option (List (String × V))) (x : V) :
    match membershipOf sem const root fvars (engine.getD []) x with
    | .error k => Function_membership.run sem const (root.map Expr.toNode) fvars engine x {} = .error k.toPy
    | .ok v => ∃ σ, Function_membership.run sem const (root.map Expr.toNode) fvars engine x {} = .ok σ ∧
        σ.ret = some v := by
  unfold membershipOf membershipEnv Function_membership.run
  by_cases h1 : fvars.any (·.1 == "x") = true
  · simp only [h1, if_true, dictHas, ErrKind.toPy]
  · simp only [Bool.not_eq_true] at h1
    simp only [h1, dictHas, Bool.false_eq_true, if_false]
    cases engine with
    | none =>
      simp only [Option.getD_none, List.any_nil, Bool.false_eq_true, if_false, Option.isSome_none, dictSet, List.nil_append,
        keysInter_isEmpty, Bool.not_not]
      by_cases h3 : fvars.any (fun kv => [("x", x)].any (·.1 == kv.1)) = true
      · simp only [h3, if_true, ErrKind.toPy]
      · simp only [Bool.not_eq_true] at h3
        simp only [h3, Bool.false_eq_true, if_false]
        exact code_membershipTail sem const root hr _ _ (fun _ => rfl)
    | some evars =>
      obtain ⟨σ', hl1, hl2⟩ := code_envLoop sem const (root.map Expr.toNode) fvars (some evars) x evars
        { engine_variables := [] }
      simp only [List.nil_append] at hl2
      simp only [Option.getD_some, Option.isSome_some, if_true, Py.deref_some, bind, Except.bind, hl1, hl2]
      by_cases h2 : evars.any (·.1 == "x") = true
      · simp only [h2, if_true, ErrKind.toPy]
      · simp only [Bool.not_eq_true] at h2
        simp only [h2, Bool.false_eq_true, if_false, dictSet, keysInter_isEmpty, Bool.not_not, hl2]
        by_cases h3 : fvars.any (fun kv => (evars ++ [("x", x)]).any (·.1 == kv.1)) = true
        · simp only [h3, if_true, ErrKind.toPy]
        · simp only [Bool.not_eq_true] at h3
          simp only [h3, Bool.false_eq_true, if_false]
          exact code_membershipTail sem const root hr _ _ (fun _ => rfl)

end CodeFunEval
