import FlVerif.Lemmas.CodeFllImportEngine

/-! # Tie A for the FuzzyLite Language importer, part 4: single malformed lines are rejected by the translated code (C16)

A line that the line function of the token-level model rejects, met after lines that are accepted, makes the
*translated* component method raise the same exception class, whatever the rest of the text is. -/

namespace Op.FllIO
open Gen.Code Py.Fll

theorem foldlM_reject {β : Type} (f : β → Line → Except Err β) (pre post : List String) (x : String) (b0 v : β) (e : Err)
    (hpre : pre.foldlM (stepText f) b0 = .ok v) (hx : stepText f v x = .error e) :
    (pre ++ x :: post).foldlM (stepText f) b0 = .error e := by
  rw [List.foldlM_append, hpre]
  simp only [bind, Except.bind, List.foldlM_cons, hx]

/-- the three component methods with a key dispatch loop -/
inductive Comp where | input | output | block
deriving DecidableEq, Repr

/-- the keys the loop of the component knows -/
def Comp.keys : Comp → List Key
  | .input => [.inputVariable, .description, .enabled, .range, .lockRange, .term]
  | .output => [.outputVariable, .description, .enabled, .range, .default, .lockPrevious, .lockRange, .defuzzifier,
      .aggregation, .term]
  | .block => [.ruleBlock, .description, .enabled, .conjunction, .disjunction, .implication, .activation, .rule]

/-- the keys whose value the loop reads with `self.boolean` -/
def Comp.boolKeys : Comp → List Key
  | .input => [.enabled, .lockRange]
  | .output => [.enabled, .lockPrevious, .lockRange]
  | .block => [.enabled]

/-- the keys whose value the loop reads with `self.range` -/
def Comp.rangeKeys : Comp → List Key
  | .input => [.range]
  | .output => [.range]
  | .block => []

/-- the translated method of the component raises the exception `e` on the text -/
def Comp.Raises (c : Comp) (fll : String) (e : Py.Err) : Prop :=
  match c with
  | .input => FllImporter_input_variable.run fll {} = .error e
  | .output => FllImporter_output_variable.run fll {} = .error e
  | .block => FllImporter_rule_block.run fll {} = .error e

/-- the lines `pre` are accepted by the loop of the component (the model's reading of them is not an error) -/
def Comp.Accepts (c : Comp) (pre : List String) : Prop :=
  match c with
  | .input => ∃ v, pre.foldlM (stepText (importVarLine .inputVariable)) {} = .ok v
  | .output => ∃ v, pre.foldlM (stepText importOutLine) {} = .ok v
  | .block => ∃ v, pre.foldlM (stepText importBlockLine) {} = .ok v

/-- the line function of the component rejects the token line in every state -/
def Comp.LineErr (c : Comp) (l : Line) (e : Err) : Prop :=
  match c with
  | .input => ∀ v, importVarLine .inputVariable v l = .error e
  | .output => ∀ v, importOutLine v l = .error e
  | .block => ∀ v, importBlockLine v l = .error e

/-- a line that the line function rejects, after accepted lines, makes the translated method raise the same exception
    class - whatever follows -/
theorem raises_of_lineErr (c : Comp) (fll : String) (pre post : List String) (x : String) (l : Line) (e : Err)
    (hs : splitLines fll = pre ++ x :: post) (ha : c.Accepts pre) (hx : lexLine x.toList = .ok (some l))
    (h : c.LineErr l e) : c.Raises fll e.toPy := by
  cases c
  · obtain ⟨v, hpre⟩ := ha
    have h1 := code_ivLoop fll (splitLines fll) { iv := {} } {} rfl
    rw [hs, foldlM_reject _ pre post x _ v e hpre (by simp only [stepText, hx]; exact h v)] at h1
    simp only [Agree] at h1
    simp only [Comp.Raises, FllImporter_input_variable.run, hs, h1, bind, Except.bind]
  · obtain ⟨v, hpre⟩ := ha
    have h1 := code_ovLoop fll (splitLines fll) { ov := {} } {} rfl
    rw [hs, foldlM_reject _ pre post x _ v e hpre (by simp only [stepText, hx]; exact h v)] at h1
    simp only [Agree] at h1
    simp only [Comp.Raises, FllImporter_output_variable.run, hs, h1, bind, Except.bind]
  · obtain ⟨v, hpre⟩ := ha
    have h1 := code_rbLoop fll (splitLines fll) { rb := {} } {} rfl
    rw [hs, foldlM_reject _ pre post x _ v e hpre (by simp only [stepText, hx]; exact h v)] at h1
    simp only [Agree] at h1
    simp only [Comp.Raises, FllImporter_rule_block.run, hs, h1, bind, Except.bind]

theorem lineErr_unknown (c : Comp) (l : Line) (hk : l.key ∉ c.keys) : c.LineErr l .syntax := by
  obtain ⟨key, toks⟩ := l
  cases c <;> intro v <;> cases key <;> simp [Comp.keys] at hk <;> rfl

theorem boolOf_error (toks : List Tok) (h1 : toks ≠ [.w "true"]) (h2 : toks ≠ [.w "false"]) :
    boolOf toks = .error .syntax := by
  unfold boolOf
  split
  · exact absurd rfl h1
  · exact absurd rfl h2
  · rfl

theorem lineErr_boolean (c : Comp) (l : Line) (hk : l.key ∈ c.boolKeys) (h1 : l.toks ≠ [.w "true"])
    (h2 : l.toks ≠ [.w "false"]) : c.LineErr l .syntax := by
  obtain ⟨key, toks⟩ := l
  have hb := boolOf_error toks h1 h2
  cases c <;> intro v <;> simp only [Comp.boolKeys, List.mem_cons, List.not_mem_nil, or_false] at hk <;>
    rcases hk with rfl | rfl | rfl <;>
    simp [importVarLine, importOutLine, importBlockLine, hb, Except.map]

theorem rangeOf_syntax (toks : List Tok) (h : toks.length ≠ 2) : rangeOf toks = .error .syntax := by
  match toks, h with
  | [], _ => rfl
  | [_], _ => rfl
  | [_, _], h => exact absurd rfl h
  | _ :: _ :: _ :: _, _ => rfl

theorem rangeOf_value (a b : Tok) (h : ¬ ∃ x y, a = .n x ∧ b = .n y) : rangeOf [a, b] = .error .value := by
  cases a <;> cases b <;> first | rfl | exact absurd ⟨_, _, rfl, rfl⟩ h

theorem lineErr_range (c : Comp) (l : Line) (e : Err) (hk : l.key ∈ c.rangeKeys) (h : rangeOf l.toks = .error e) :
    c.LineErr l e := by
  obtain ⟨key, toks⟩ := l
  cases c <;> simp only [Comp.rangeKeys, List.mem_cons, List.not_mem_nil, or_false] at hk <;> subst hk <;> intro v <;>
    simp [importVarLine, importOutLine, Except.map] <;> simp only [show rangeOf toks = .error e from h]

end Op.FllIO
