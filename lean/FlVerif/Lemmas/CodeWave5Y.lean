import FlVerif.Gen.CodeWave5Y
import FlVerif.Gen.CodeFllExport
import FlVerif.Lemmas.CodeTermParse
import FlVerif.Lemmas.FllLayers

/-! # Tie A for the shape classes of `term.py`: `__init__`, `parameters`, `configure` and the per-class round trip

Nineteen classes are configured through `Term._parse` and share the shape of their three methods; the profiles are the
three parametrised profiles `init_` / `params_` / `conf_` of `fv/profiles/wave5y.py`, the proofs the tactic
`shape_configure` (one script for every `configure`) and the lemma `parseVals_parameters` (one lemma for every round
trip), instantiated per class.  `Triangle.__init__` / `Trapezoid.__init__` compute missing vertices: the models
`triangleVertices` / `trapezoidVertices` (`Op/PyExtWave5Y.lean`). -/

namespace Py.W5Y
open Op.FllIO Dec Gen.Code Py.FllIn

/-- the shared lemma of the round trips: what `self._parse(n, parameters)` returns on the printed parameters of an
    object with the `n` parameters `ps` and the height `h` – the values that were printed, the height 1 when it was
    not printed.  `ReadsBack` is the joint "the printed words are read back as the tokens that were printed". -/
theorem parseVals_parameters (rd : String → Option Num) (c : Cfg) (ps : List Num) (h : Num)
    (hrd : ReadsBack rd c (.shape ps (some h))) :
    parseVals rd ps.length (Py.Fll.termParameters c (.shape ps (some h))) true =
      .ok (ps.map (rnd c.d) ++ [canonH (keepHeight c) c h]) := by
  unfold parseVals
  rw [hrd]
  simp only [termParams]
  rw [params_numeric, numsOf_n, except_bind_ok]
  have := parseShape_height (keepHeight c) c ps h
  rw [this]
  simp [shapeValues]

/-- the shared script of the `configure` methods `self.a1, …, self.an, self.height = self._parse(n, parameters)`:
    the list `_parse` returns is unpacked into `n + 1` attributes (`n ≤ 4`) -/
macro "shape_configure " run:ident : tactic =>
  `(tactic| (
    unfold $run parseVals
    generalize numsOf (toks _ _) = r
    cases r with
    | error e => simp only [except_bind_error]
    | ok xs =>
      rcases xs with _ | ⟨a, _ | ⟨b, _ | ⟨c, _ | ⟨d, _ | ⟨e, _ | ⟨f, r⟩⟩⟩⟩⟩⟩ <;>
        simp [parseShape, shapeValues, lastOr, Err.toPy]))

/-! ## the vertices of `Triangle` / `Trapezoid` -/

/-- all three vertices given: stored as they are -/
theorem triangleVertices_given (left top right : X Rat) (h : X.isnan right = false) :
    triangleVertices left top right = (left, top, right) := by
  simp [triangleVertices, h]

/-- two numbers given (`right` is NaN, the default): they are the ends, the top is `0.5 * (left + top)` -/
theorem triangleVertices_ends (a b : X Rat) :
    triangleVertices a b .nan = (a, X.mul (.fin (1 / 2)) (X.add a b), b) := rfl

/-- … for finite ends: the midpoint -/
theorem triangleVertices_midpoint (a b : Rat) :
    triangleVertices (.fin a) (.fin b) .nan = (.fin a, .fin ((a + b) / 2), .fin b) := by
  simp only [triangleVertices_ends, X.add, X.mul]
  norm_num
  ring

/-- the order of the NaN tests of `Trapezoid.__init__`: the top is computed only when **both** `top_right` and
    `bottom_right` are NaN -/
theorem trapezoidVertices_given (bl tl tr br : X Rat) (h : X.isnan tr = false ∨ X.isnan br = false) :
    trapezoidVertices bl tl tr br = (bl, tl, tr, br) := by
  rcases h with h | h <;> simp [trapezoidVertices, h]

/-- two finite numbers given: the ends; the top runs from 1/5 to 4/5 of the range -/
theorem trapezoidVertices_ends (a b : Rat) :
    trapezoidVertices (.fin a) (.fin b) .nan .nan =
      (.fin a, .fin (a + (b - a) * 1 / 5), .fin (a + (b - a) * 4 / 5), .fin b) := by
  simp only [trapezoidVertices, X.isnan, Bool.and_self, if_true, X.sub, X.neg, X.add, X.mul, X.div]
  norm_num
  ring

theorem code_arcInit (name : String) (start end_ height : X Rat) (σ0 : Arc_init.S) :
    ∃ σ, Arc_init.run name start end_ height σ0 = .ok σ ∧ σ.self_name = name ∧
      σ.self_start = start ∧ σ.self_end = end_ ∧ σ.self_height = height :=
  ⟨_, rfl, rfl, rfl, rfl, rfl⟩

theorem code_arcParameters (c : Cfg) (start end_ h : Num) :
    ∃ σ, Arc_parameters.run c start end_ h {} = .ok σ ∧
      σ.ret = some (Py.Fll.termParameters c (.shape [start, end_] (some h))) :=
  ⟨_, rfl, rfl⟩

theorem code_arcConfigure (rd : String → Option Num) (parameters : String) :
    match numsOf (toks rd parameters) >>= parseShape 2 true with
    | .error e => Arc_configure.run rd parameters {} = .error e.toPy
    | .ok b => ∃ σ, Arc_configure.run rd parameters {} = .ok σ ∧
        b = .shape [σ.self_start, σ.self_end] (some σ.self_height) := by
  shape_configure Arc_configure.run

theorem configure_parameters_arc (rd : String → Option Num) (c : Cfg) (start end_ h : Num)
    (hrd : ReadsBack rd c (.shape [start, end_] (some h))) :
    ∃ σp text σc, Arc_parameters.run c start end_ h {} = .ok σp ∧ σp.ret = some text ∧
      Arc_configure.run rd text {} = .ok σc ∧
      σc.self_start = rnd c.d start ∧ σc.self_end = rnd c.d end_ ∧
      σc.self_height = canonH (keepHeight c) c h := by
  have hv := parseVals_parameters rd c [start, end_] h hrd
  simp only [List.length_cons, List.length_nil] at hv
  have hrun : Arc_configure.run rd (Py.Fll.termParameters c (.shape [start, end_] (some h))) {} =
      .ok { self_start := rnd c.d start, self_end := rnd c.d end_, self_height := canonH (keepHeight c) c h } := by
    unfold Arc_configure.run
    rw [hv]
    rfl
  exact ⟨_, _, _, rfl, rfl, hrun, rfl, rfl, rfl⟩

theorem code_bellInit (name : String) (center width slope height : X Rat) (σ0 : Bell_init.S) :
    ∃ σ, Bell_init.run name center width slope height σ0 = .ok σ ∧ σ.self_name = name ∧
      σ.self_center = center ∧ σ.self_width = width ∧ σ.self_slope = slope ∧ σ.self_height = height :=
  ⟨_, rfl, rfl, rfl, rfl, rfl, rfl⟩

theorem code_bellParameters (c : Cfg) (center width slope h : Num) :
    ∃ σ, Bell_parameters.run c center width slope h {} = .ok σ ∧
      σ.ret = some (Py.Fll.termParameters c (.shape [center, width, slope] (some h))) :=
  ⟨_, rfl, rfl⟩

theorem code_bellConfigure (rd : String → Option Num) (parameters : String) :
    match numsOf (toks rd parameters) >>= parseShape 3 true with
    | .error e => Bell_configure.run rd parameters {} = .error e.toPy
    | .ok b => ∃ σ, Bell_configure.run rd parameters {} = .ok σ ∧
        b = .shape [σ.self_center, σ.self_width, σ.self_slope] (some σ.self_height) := by
  shape_configure Bell_configure.run

theorem configure_parameters_bell (rd : String → Option Num) (c : Cfg) (center width slope h : Num)
    (hrd : ReadsBack rd c (.shape [center, width, slope] (some h))) :
    ∃ σp text σc, Bell_parameters.run c center width slope h {} = .ok σp ∧ σp.ret = some text ∧
      Bell_configure.run rd text {} = .ok σc ∧
      σc.self_center = rnd c.d center ∧ σc.self_width = rnd c.d width ∧ σc.self_slope = rnd c.d slope ∧
      σc.self_height = canonH (keepHeight c) c h := by
  have hv := parseVals_parameters rd c [center, width, slope] h hrd
  simp only [List.length_cons, List.length_nil] at hv
  have hrun : Bell_configure.run rd (Py.Fll.termParameters c (.shape [center, width, slope] (some h))) {} =
      .ok { self_center := rnd c.d center, self_width := rnd c.d width, self_slope := rnd c.d slope, self_height := canonH (keepHeight c) c h } := by
    unfold Bell_configure.run
    rw [hv]
    rfl
  exact ⟨_, _, _, rfl, rfl, hrun, rfl, rfl, rfl, rfl⟩

theorem code_binaryInit (name : String) (start direction height : X Rat) (σ0 : Binary_init.S) :
    ∃ σ, Binary_init.run name start direction height σ0 = .ok σ ∧ σ.self_name = name ∧
      σ.self_start = start ∧ σ.self_direction = direction ∧ σ.self_height = height :=
  ⟨_, rfl, rfl, rfl, rfl, rfl⟩

theorem code_binaryParameters (c : Cfg) (start direction h : Num) :
    ∃ σ, Binary_parameters.run c start direction h {} = .ok σ ∧
      σ.ret = some (Py.Fll.termParameters c (.shape [start, direction] (some h))) :=
  ⟨_, rfl, rfl⟩

theorem code_binaryConfigure (rd : String → Option Num) (parameters : String) :
    match numsOf (toks rd parameters) >>= parseShape 2 true with
    | .error e => Binary_configure.run rd parameters {} = .error e.toPy
    | .ok b => ∃ σ, Binary_configure.run rd parameters {} = .ok σ ∧
        b = .shape [σ.self_start, σ.self_direction] (some σ.self_height) := by
  shape_configure Binary_configure.run

theorem configure_parameters_binary (rd : String → Option Num) (c : Cfg) (start direction h : Num)
    (hrd : ReadsBack rd c (.shape [start, direction] (some h))) :
    ∃ σp text σc, Binary_parameters.run c start direction h {} = .ok σp ∧ σp.ret = some text ∧
      Binary_configure.run rd text {} = .ok σc ∧
      σc.self_start = rnd c.d start ∧ σc.self_direction = rnd c.d direction ∧
      σc.self_height = canonH (keepHeight c) c h := by
  have hv := parseVals_parameters rd c [start, direction] h hrd
  simp only [List.length_cons, List.length_nil] at hv
  have hrun : Binary_configure.run rd (Py.Fll.termParameters c (.shape [start, direction] (some h))) {} =
      .ok { self_start := rnd c.d start, self_direction := rnd c.d direction, self_height := canonH (keepHeight c) c h } := by
    unfold Binary_configure.run
    rw [hv]
    rfl
  exact ⟨_, _, _, rfl, rfl, hrun, rfl, rfl, rfl⟩

theorem code_concaveInit (name : String) (inflection end_ height : X Rat) (σ0 : Concave_init.S) :
    ∃ σ, Concave_init.run name inflection end_ height σ0 = .ok σ ∧ σ.self_name = name ∧
      σ.self_inflection = inflection ∧ σ.self_end = end_ ∧ σ.self_height = height :=
  ⟨_, rfl, rfl, rfl, rfl, rfl⟩

theorem code_concaveParameters (c : Cfg) (inflection end_ h : Num) :
    ∃ σ, Concave_parameters.run c inflection end_ h {} = .ok σ ∧
      σ.ret = some (Py.Fll.termParameters c (.shape [inflection, end_] (some h))) :=
  ⟨_, rfl, rfl⟩

theorem code_concaveConfigure (rd : String → Option Num) (parameters : String) :
    match numsOf (toks rd parameters) >>= parseShape 2 true with
    | .error e => Concave_configure.run rd parameters {} = .error e.toPy
    | .ok b => ∃ σ, Concave_configure.run rd parameters {} = .ok σ ∧
        b = .shape [σ.self_inflection, σ.self_end] (some σ.self_height) := by
  shape_configure Concave_configure.run

theorem configure_parameters_concave (rd : String → Option Num) (c : Cfg) (inflection end_ h : Num)
    (hrd : ReadsBack rd c (.shape [inflection, end_] (some h))) :
    ∃ σp text σc, Concave_parameters.run c inflection end_ h {} = .ok σp ∧ σp.ret = some text ∧
      Concave_configure.run rd text {} = .ok σc ∧
      σc.self_inflection = rnd c.d inflection ∧ σc.self_end = rnd c.d end_ ∧
      σc.self_height = canonH (keepHeight c) c h := by
  have hv := parseVals_parameters rd c [inflection, end_] h hrd
  simp only [List.length_cons, List.length_nil] at hv
  have hrun : Concave_configure.run rd (Py.Fll.termParameters c (.shape [inflection, end_] (some h))) {} =
      .ok { self_inflection := rnd c.d inflection, self_end := rnd c.d end_, self_height := canonH (keepHeight c) c h } := by
    unfold Concave_configure.run
    rw [hv]
    rfl
  exact ⟨_, _, _, rfl, rfl, hrun, rfl, rfl, rfl⟩

theorem code_cosineInit (name : String) (center width height : X Rat) (σ0 : Cosine_init.S) :
    ∃ σ, Cosine_init.run name center width height σ0 = .ok σ ∧ σ.self_name = name ∧
      σ.self_center = center ∧ σ.self_width = width ∧ σ.self_height = height :=
  ⟨_, rfl, rfl, rfl, rfl, rfl⟩

theorem code_cosineParameters (c : Cfg) (center width h : Num) :
    ∃ σ, Cosine_parameters.run c center width h {} = .ok σ ∧
      σ.ret = some (Py.Fll.termParameters c (.shape [center, width] (some h))) :=
  ⟨_, rfl, rfl⟩

theorem code_cosineConfigure (rd : String → Option Num) (parameters : String) :
    match numsOf (toks rd parameters) >>= parseShape 2 true with
    | .error e => Cosine_configure.run rd parameters {} = .error e.toPy
    | .ok b => ∃ σ, Cosine_configure.run rd parameters {} = .ok σ ∧
        b = .shape [σ.self_center, σ.self_width] (some σ.self_height) := by
  shape_configure Cosine_configure.run

theorem configure_parameters_cosine (rd : String → Option Num) (c : Cfg) (center width h : Num)
    (hrd : ReadsBack rd c (.shape [center, width] (some h))) :
    ∃ σp text σc, Cosine_parameters.run c center width h {} = .ok σp ∧ σp.ret = some text ∧
      Cosine_configure.run rd text {} = .ok σc ∧
      σc.self_center = rnd c.d center ∧ σc.self_width = rnd c.d width ∧
      σc.self_height = canonH (keepHeight c) c h := by
  have hv := parseVals_parameters rd c [center, width] h hrd
  simp only [List.length_cons, List.length_nil] at hv
  have hrun : Cosine_configure.run rd (Py.Fll.termParameters c (.shape [center, width] (some h))) {} =
      .ok { self_center := rnd c.d center, self_width := rnd c.d width, self_height := canonH (keepHeight c) c h } := by
    unfold Cosine_configure.run
    rw [hv]
    rfl
  exact ⟨_, _, _, rfl, rfl, hrun, rfl, rfl, rfl⟩

theorem code_gaussianInit (name : String) (mean standard_deviation height : X Rat) (σ0 : Gaussian_init.S) :
    ∃ σ, Gaussian_init.run name mean standard_deviation height σ0 = .ok σ ∧ σ.self_name = name ∧
      σ.self_mean = mean ∧ σ.self_standard_deviation = standard_deviation ∧ σ.self_height = height :=
  ⟨_, rfl, rfl, rfl, rfl, rfl⟩

theorem code_gaussianParameters (c : Cfg) (mean standard_deviation h : Num) :
    ∃ σ, Gaussian_parameters.run c mean standard_deviation h {} = .ok σ ∧
      σ.ret = some (Py.Fll.termParameters c (.shape [mean, standard_deviation] (some h))) :=
  ⟨_, rfl, rfl⟩

theorem code_gaussianConfigure (rd : String → Option Num) (parameters : String) :
    match numsOf (toks rd parameters) >>= parseShape 2 true with
    | .error e => Gaussian_configure.run rd parameters {} = .error e.toPy
    | .ok b => ∃ σ, Gaussian_configure.run rd parameters {} = .ok σ ∧
        b = .shape [σ.self_mean, σ.self_standard_deviation] (some σ.self_height) := by
  shape_configure Gaussian_configure.run

theorem configure_parameters_gaussian (rd : String → Option Num) (c : Cfg) (mean standard_deviation h : Num)
    (hrd : ReadsBack rd c (.shape [mean, standard_deviation] (some h))) :
    ∃ σp text σc, Gaussian_parameters.run c mean standard_deviation h {} = .ok σp ∧ σp.ret = some text ∧
      Gaussian_configure.run rd text {} = .ok σc ∧
      σc.self_mean = rnd c.d mean ∧ σc.self_standard_deviation = rnd c.d standard_deviation ∧
      σc.self_height = canonH (keepHeight c) c h := by
  have hv := parseVals_parameters rd c [mean, standard_deviation] h hrd
  simp only [List.length_cons, List.length_nil] at hv
  have hrun : Gaussian_configure.run rd (Py.Fll.termParameters c (.shape [mean, standard_deviation] (some h))) {} =
      .ok { self_mean := rnd c.d mean, self_standard_deviation := rnd c.d standard_deviation, self_height := canonH (keepHeight c) c h } := by
    unfold Gaussian_configure.run
    rw [hv]
    rfl
  exact ⟨_, _, _, rfl, rfl, hrun, rfl, rfl, rfl⟩

theorem code_gaussianProductInit (name : String) (mean_a standard_deviation_a mean_b standard_deviation_b height : X Rat) (σ0 : GaussianProduct_init.S) :
    ∃ σ, GaussianProduct_init.run name mean_a standard_deviation_a mean_b standard_deviation_b height σ0 = .ok σ ∧ σ.self_name = name ∧
      σ.self_mean_a = mean_a ∧ σ.self_standard_deviation_a = standard_deviation_a ∧ σ.self_mean_b = mean_b ∧ σ.self_standard_deviation_b = standard_deviation_b ∧ σ.self_height = height :=
  ⟨_, rfl, rfl, rfl, rfl, rfl, rfl, rfl⟩

theorem code_gaussianProductParameters (c : Cfg) (mean_a standard_deviation_a mean_b standard_deviation_b h : Num) :
    ∃ σ, GaussianProduct_parameters.run c mean_a standard_deviation_a mean_b standard_deviation_b h {} = .ok σ ∧
      σ.ret = some (Py.Fll.termParameters c (.shape [mean_a, standard_deviation_a, mean_b, standard_deviation_b] (some h))) :=
  ⟨_, rfl, rfl⟩

theorem code_gaussianProductConfigure (rd : String → Option Num) (parameters : String) :
    match numsOf (toks rd parameters) >>= parseShape 4 true with
    | .error e => GaussianProduct_configure.run rd parameters {} = .error e.toPy
    | .ok b => ∃ σ, GaussianProduct_configure.run rd parameters {} = .ok σ ∧
        b = .shape [σ.self_mean_a, σ.self_standard_deviation_a, σ.self_mean_b, σ.self_standard_deviation_b] (some σ.self_height) := by
  shape_configure GaussianProduct_configure.run

theorem configure_parameters_gaussianProduct (rd : String → Option Num) (c : Cfg) (mean_a standard_deviation_a mean_b standard_deviation_b h : Num)
    (hrd : ReadsBack rd c (.shape [mean_a, standard_deviation_a, mean_b, standard_deviation_b] (some h))) :
    ∃ σp text σc, GaussianProduct_parameters.run c mean_a standard_deviation_a mean_b standard_deviation_b h {} = .ok σp ∧ σp.ret = some text ∧
      GaussianProduct_configure.run rd text {} = .ok σc ∧
      σc.self_mean_a = rnd c.d mean_a ∧ σc.self_standard_deviation_a = rnd c.d standard_deviation_a ∧ σc.self_mean_b = rnd c.d mean_b ∧ σc.self_standard_deviation_b = rnd c.d standard_deviation_b ∧
      σc.self_height = canonH (keepHeight c) c h := by
  have hv := parseVals_parameters rd c [mean_a, standard_deviation_a, mean_b, standard_deviation_b] h hrd
  simp only [List.length_cons, List.length_nil] at hv
  have hrun : GaussianProduct_configure.run rd (Py.Fll.termParameters c (.shape [mean_a, standard_deviation_a, mean_b, standard_deviation_b] (some h))) {} =
      .ok { self_mean_a := rnd c.d mean_a, self_standard_deviation_a := rnd c.d standard_deviation_a, self_mean_b := rnd c.d mean_b, self_standard_deviation_b := rnd c.d standard_deviation_b, self_height := canonH (keepHeight c) c h } := by
    unfold GaussianProduct_configure.run
    rw [hv]
    rfl
  exact ⟨_, _, _, rfl, rfl, hrun, rfl, rfl, rfl, rfl, rfl⟩

theorem code_piShapeInit (name : String) (bottom_left top_left top_right bottom_right height : X Rat) (σ0 : PiShape_init.S) :
    ∃ σ, PiShape_init.run name bottom_left top_left top_right bottom_right height σ0 = .ok σ ∧ σ.self_name = name ∧
      σ.self_bottom_left = bottom_left ∧ σ.self_top_left = top_left ∧ σ.self_top_right = top_right ∧ σ.self_bottom_right = bottom_right ∧ σ.self_height = height :=
  ⟨_, rfl, rfl, rfl, rfl, rfl, rfl, rfl⟩

theorem code_piShapeParameters (c : Cfg) (bottom_left top_left top_right bottom_right h : Num) :
    ∃ σ, PiShape_parameters.run c bottom_left top_left top_right bottom_right h {} = .ok σ ∧
      σ.ret = some (Py.Fll.termParameters c (.shape [bottom_left, top_left, top_right, bottom_right] (some h))) :=
  ⟨_, rfl, rfl⟩

theorem code_piShapeConfigure (rd : String → Option Num) (parameters : String) :
    match numsOf (toks rd parameters) >>= parseShape 4 true with
    | .error e => PiShape_configure.run rd parameters {} = .error e.toPy
    | .ok b => ∃ σ, PiShape_configure.run rd parameters {} = .ok σ ∧
        b = .shape [σ.self_bottom_left, σ.self_top_left, σ.self_top_right, σ.self_bottom_right] (some σ.self_height) := by
  shape_configure PiShape_configure.run

theorem configure_parameters_piShape (rd : String → Option Num) (c : Cfg) (bottom_left top_left top_right bottom_right h : Num)
    (hrd : ReadsBack rd c (.shape [bottom_left, top_left, top_right, bottom_right] (some h))) :
    ∃ σp text σc, PiShape_parameters.run c bottom_left top_left top_right bottom_right h {} = .ok σp ∧ σp.ret = some text ∧
      PiShape_configure.run rd text {} = .ok σc ∧
      σc.self_bottom_left = rnd c.d bottom_left ∧ σc.self_top_left = rnd c.d top_left ∧ σc.self_top_right = rnd c.d top_right ∧ σc.self_bottom_right = rnd c.d bottom_right ∧
      σc.self_height = canonH (keepHeight c) c h := by
  have hv := parseVals_parameters rd c [bottom_left, top_left, top_right, bottom_right] h hrd
  simp only [List.length_cons, List.length_nil] at hv
  have hrun : PiShape_configure.run rd (Py.Fll.termParameters c (.shape [bottom_left, top_left, top_right, bottom_right] (some h))) {} =
      .ok { self_bottom_left := rnd c.d bottom_left, self_top_left := rnd c.d top_left, self_top_right := rnd c.d top_right, self_bottom_right := rnd c.d bottom_right, self_height := canonH (keepHeight c) c h } := by
    unfold PiShape_configure.run
    rw [hv]
    rfl
  exact ⟨_, _, _, rfl, rfl, hrun, rfl, rfl, rfl, rfl, rfl⟩

theorem code_rampInit (name : String) (start end_ height : X Rat) (σ0 : Ramp_init.S) :
    ∃ σ, Ramp_init.run name start end_ height σ0 = .ok σ ∧ σ.self_name = name ∧
      σ.self_start = start ∧ σ.self_end = end_ ∧ σ.self_height = height :=
  ⟨_, rfl, rfl, rfl, rfl, rfl⟩

theorem code_rampParameters (c : Cfg) (start end_ h : Num) :
    ∃ σ, Ramp_parameters.run c start end_ h {} = .ok σ ∧
      σ.ret = some (Py.Fll.termParameters c (.shape [start, end_] (some h))) :=
  ⟨_, rfl, rfl⟩

theorem code_rampConfigure (rd : String → Option Num) (parameters : String) :
    match numsOf (toks rd parameters) >>= parseShape 2 true with
    | .error e => Ramp_configure.run rd parameters {} = .error e.toPy
    | .ok b => ∃ σ, Ramp_configure.run rd parameters {} = .ok σ ∧
        b = .shape [σ.self_start, σ.self_end] (some σ.self_height) := by
  shape_configure Ramp_configure.run

theorem configure_parameters_ramp (rd : String → Option Num) (c : Cfg) (start end_ h : Num)
    (hrd : ReadsBack rd c (.shape [start, end_] (some h))) :
    ∃ σp text σc, Ramp_parameters.run c start end_ h {} = .ok σp ∧ σp.ret = some text ∧
      Ramp_configure.run rd text {} = .ok σc ∧
      σc.self_start = rnd c.d start ∧ σc.self_end = rnd c.d end_ ∧
      σc.self_height = canonH (keepHeight c) c h := by
  have hv := parseVals_parameters rd c [start, end_] h hrd
  simp only [List.length_cons, List.length_nil] at hv
  have hrun : Ramp_configure.run rd (Py.Fll.termParameters c (.shape [start, end_] (some h))) {} =
      .ok { self_start := rnd c.d start, self_end := rnd c.d end_, self_height := canonH (keepHeight c) c h } := by
    unfold Ramp_configure.run
    rw [hv]
    rfl
  exact ⟨_, _, _, rfl, rfl, hrun, rfl, rfl, rfl⟩

theorem code_rectangleInit (name : String) (start end_ height : X Rat) (σ0 : Rectangle_init.S) :
    ∃ σ, Rectangle_init.run name start end_ height σ0 = .ok σ ∧ σ.self_name = name ∧
      σ.self_start = start ∧ σ.self_end = end_ ∧ σ.self_height = height :=
  ⟨_, rfl, rfl, rfl, rfl, rfl⟩

theorem code_rectangleParameters (c : Cfg) (start end_ h : Num) :
    ∃ σ, Rectangle_parameters.run c start end_ h {} = .ok σ ∧
      σ.ret = some (Py.Fll.termParameters c (.shape [start, end_] (some h))) :=
  ⟨_, rfl, rfl⟩

theorem code_rectangleConfigure (rd : String → Option Num) (parameters : String) :
    match numsOf (toks rd parameters) >>= parseShape 2 true with
    | .error e => Rectangle_configure.run rd parameters {} = .error e.toPy
    | .ok b => ∃ σ, Rectangle_configure.run rd parameters {} = .ok σ ∧
        b = .shape [σ.self_start, σ.self_end] (some σ.self_height) := by
  shape_configure Rectangle_configure.run

theorem configure_parameters_rectangle (rd : String → Option Num) (c : Cfg) (start end_ h : Num)
    (hrd : ReadsBack rd c (.shape [start, end_] (some h))) :
    ∃ σp text σc, Rectangle_parameters.run c start end_ h {} = .ok σp ∧ σp.ret = some text ∧
      Rectangle_configure.run rd text {} = .ok σc ∧
      σc.self_start = rnd c.d start ∧ σc.self_end = rnd c.d end_ ∧
      σc.self_height = canonH (keepHeight c) c h := by
  have hv := parseVals_parameters rd c [start, end_] h hrd
  simp only [List.length_cons, List.length_nil] at hv
  have hrun : Rectangle_configure.run rd (Py.Fll.termParameters c (.shape [start, end_] (some h))) {} =
      .ok { self_start := rnd c.d start, self_end := rnd c.d end_, self_height := canonH (keepHeight c) c h } := by
    unfold Rectangle_configure.run
    rw [hv]
    rfl
  exact ⟨_, _, _, rfl, rfl, hrun, rfl, rfl, rfl⟩

theorem code_semiEllipseInit (name : String) (start end_ height : X Rat) (σ0 : SemiEllipse_init.S) :
    ∃ σ, SemiEllipse_init.run name start end_ height σ0 = .ok σ ∧ σ.self_name = name ∧
      σ.self_start = start ∧ σ.self_end = end_ ∧ σ.self_height = height :=
  ⟨_, rfl, rfl, rfl, rfl, rfl⟩

theorem code_semiEllipseParameters (c : Cfg) (start end_ h : Num) :
    ∃ σ, SemiEllipse_parameters.run c start end_ h {} = .ok σ ∧
      σ.ret = some (Py.Fll.termParameters c (.shape [start, end_] (some h))) :=
  ⟨_, rfl, rfl⟩

theorem code_semiEllipseConfigure (rd : String → Option Num) (parameters : String) :
    match numsOf (toks rd parameters) >>= parseShape 2 true with
    | .error e => SemiEllipse_configure.run rd parameters {} = .error e.toPy
    | .ok b => ∃ σ, SemiEllipse_configure.run rd parameters {} = .ok σ ∧
        b = .shape [σ.self_start, σ.self_end] (some σ.self_height) := by
  shape_configure SemiEllipse_configure.run

theorem configure_parameters_semiEllipse (rd : String → Option Num) (c : Cfg) (start end_ h : Num)
    (hrd : ReadsBack rd c (.shape [start, end_] (some h))) :
    ∃ σp text σc, SemiEllipse_parameters.run c start end_ h {} = .ok σp ∧ σp.ret = some text ∧
      SemiEllipse_configure.run rd text {} = .ok σc ∧
      σc.self_start = rnd c.d start ∧ σc.self_end = rnd c.d end_ ∧
      σc.self_height = canonH (keepHeight c) c h := by
  have hv := parseVals_parameters rd c [start, end_] h hrd
  simp only [List.length_cons, List.length_nil] at hv
  have hrun : SemiEllipse_configure.run rd (Py.Fll.termParameters c (.shape [start, end_] (some h))) {} =
      .ok { self_start := rnd c.d start, self_end := rnd c.d end_, self_height := canonH (keepHeight c) c h } := by
    unfold SemiEllipse_configure.run
    rw [hv]
    rfl
  exact ⟨_, _, _, rfl, rfl, hrun, rfl, rfl, rfl⟩

theorem code_sigmoidInit (name : String) (inflection slope height : X Rat) (σ0 : Sigmoid_init.S) :
    ∃ σ, Sigmoid_init.run name inflection slope height σ0 = .ok σ ∧ σ.self_name = name ∧
      σ.self_inflection = inflection ∧ σ.self_slope = slope ∧ σ.self_height = height :=
  ⟨_, rfl, rfl, rfl, rfl, rfl⟩

theorem code_sigmoidParameters (c : Cfg) (inflection slope h : Num) :
    ∃ σ, Sigmoid_parameters.run c inflection slope h {} = .ok σ ∧
      σ.ret = some (Py.Fll.termParameters c (.shape [inflection, slope] (some h))) :=
  ⟨_, rfl, rfl⟩

theorem code_sigmoidConfigure (rd : String → Option Num) (parameters : String) :
    match numsOf (toks rd parameters) >>= parseShape 2 true with
    | .error e => Sigmoid_configure.run rd parameters {} = .error e.toPy
    | .ok b => ∃ σ, Sigmoid_configure.run rd parameters {} = .ok σ ∧
        b = .shape [σ.self_inflection, σ.self_slope] (some σ.self_height) := by
  shape_configure Sigmoid_configure.run

theorem configure_parameters_sigmoid (rd : String → Option Num) (c : Cfg) (inflection slope h : Num)
    (hrd : ReadsBack rd c (.shape [inflection, slope] (some h))) :
    ∃ σp text σc, Sigmoid_parameters.run c inflection slope h {} = .ok σp ∧ σp.ret = some text ∧
      Sigmoid_configure.run rd text {} = .ok σc ∧
      σc.self_inflection = rnd c.d inflection ∧ σc.self_slope = rnd c.d slope ∧
      σc.self_height = canonH (keepHeight c) c h := by
  have hv := parseVals_parameters rd c [inflection, slope] h hrd
  simp only [List.length_cons, List.length_nil] at hv
  have hrun : Sigmoid_configure.run rd (Py.Fll.termParameters c (.shape [inflection, slope] (some h))) {} =
      .ok { self_inflection := rnd c.d inflection, self_slope := rnd c.d slope, self_height := canonH (keepHeight c) c h } := by
    unfold Sigmoid_configure.run
    rw [hv]
    rfl
  exact ⟨_, _, _, rfl, rfl, hrun, rfl, rfl, rfl⟩

theorem code_sigmoidDifferenceInit (name : String) (left rising falling right height : X Rat) (σ0 : SigmoidDifference_init.S) :
    ∃ σ, SigmoidDifference_init.run name left rising falling right height σ0 = .ok σ ∧ σ.self_name = name ∧
      σ.self_left = left ∧ σ.self_rising = rising ∧ σ.self_falling = falling ∧ σ.self_right = right ∧ σ.self_height = height :=
  ⟨_, rfl, rfl, rfl, rfl, rfl, rfl, rfl⟩

theorem code_sigmoidDifferenceParameters (c : Cfg) (left rising falling right h : Num) :
    ∃ σ, SigmoidDifference_parameters.run c left rising falling right h {} = .ok σ ∧
      σ.ret = some (Py.Fll.termParameters c (.shape [left, rising, falling, right] (some h))) :=
  ⟨_, rfl, rfl⟩

theorem code_sigmoidDifferenceConfigure (rd : String → Option Num) (parameters : String) :
    match numsOf (toks rd parameters) >>= parseShape 4 true with
    | .error e => SigmoidDifference_configure.run rd parameters {} = .error e.toPy
    | .ok b => ∃ σ, SigmoidDifference_configure.run rd parameters {} = .ok σ ∧
        b = .shape [σ.self_left, σ.self_rising, σ.self_falling, σ.self_right] (some σ.self_height) := by
  shape_configure SigmoidDifference_configure.run

theorem configure_parameters_sigmoidDifference (rd : String → Option Num) (c : Cfg) (left rising falling right h : Num)
    (hrd : ReadsBack rd c (.shape [left, rising, falling, right] (some h))) :
    ∃ σp text σc, SigmoidDifference_parameters.run c left rising falling right h {} = .ok σp ∧ σp.ret = some text ∧
      SigmoidDifference_configure.run rd text {} = .ok σc ∧
      σc.self_left = rnd c.d left ∧ σc.self_rising = rnd c.d rising ∧ σc.self_falling = rnd c.d falling ∧ σc.self_right = rnd c.d right ∧
      σc.self_height = canonH (keepHeight c) c h := by
  have hv := parseVals_parameters rd c [left, rising, falling, right] h hrd
  simp only [List.length_cons, List.length_nil] at hv
  have hrun : SigmoidDifference_configure.run rd (Py.Fll.termParameters c (.shape [left, rising, falling, right] (some h))) {} =
      .ok { self_left := rnd c.d left, self_rising := rnd c.d rising, self_falling := rnd c.d falling, self_right := rnd c.d right, self_height := canonH (keepHeight c) c h } := by
    unfold SigmoidDifference_configure.run
    rw [hv]
    rfl
  exact ⟨_, _, _, rfl, rfl, hrun, rfl, rfl, rfl, rfl, rfl⟩

theorem code_sigmoidProductInit (name : String) (left rising falling right height : X Rat) (σ0 : SigmoidProduct_init.S) :
    ∃ σ, SigmoidProduct_init.run name left rising falling right height σ0 = .ok σ ∧ σ.self_name = name ∧
      σ.self_left = left ∧ σ.self_rising = rising ∧ σ.self_falling = falling ∧ σ.self_right = right ∧ σ.self_height = height :=
  ⟨_, rfl, rfl, rfl, rfl, rfl, rfl, rfl⟩

theorem code_sigmoidProductParameters (c : Cfg) (left rising falling right h : Num) :
    ∃ σ, SigmoidProduct_parameters.run c left rising falling right h {} = .ok σ ∧
      σ.ret = some (Py.Fll.termParameters c (.shape [left, rising, falling, right] (some h))) :=
  ⟨_, rfl, rfl⟩

theorem code_sigmoidProductConfigure (rd : String → Option Num) (parameters : String) :
    match numsOf (toks rd parameters) >>= parseShape 4 true with
    | .error e => SigmoidProduct_configure.run rd parameters {} = .error e.toPy
    | .ok b => ∃ σ, SigmoidProduct_configure.run rd parameters {} = .ok σ ∧
        b = .shape [σ.self_left, σ.self_rising, σ.self_falling, σ.self_right] (some σ.self_height) := by
  shape_configure SigmoidProduct_configure.run

theorem configure_parameters_sigmoidProduct (rd : String → Option Num) (c : Cfg) (left rising falling right h : Num)
    (hrd : ReadsBack rd c (.shape [left, rising, falling, right] (some h))) :
    ∃ σp text σc, SigmoidProduct_parameters.run c left rising falling right h {} = .ok σp ∧ σp.ret = some text ∧
      SigmoidProduct_configure.run rd text {} = .ok σc ∧
      σc.self_left = rnd c.d left ∧ σc.self_rising = rnd c.d rising ∧ σc.self_falling = rnd c.d falling ∧ σc.self_right = rnd c.d right ∧
      σc.self_height = canonH (keepHeight c) c h := by
  have hv := parseVals_parameters rd c [left, rising, falling, right] h hrd
  simp only [List.length_cons, List.length_nil] at hv
  have hrun : SigmoidProduct_configure.run rd (Py.Fll.termParameters c (.shape [left, rising, falling, right] (some h))) {} =
      .ok { self_left := rnd c.d left, self_rising := rnd c.d rising, self_falling := rnd c.d falling, self_right := rnd c.d right, self_height := canonH (keepHeight c) c h } := by
    unfold SigmoidProduct_configure.run
    rw [hv]
    rfl
  exact ⟨_, _, _, rfl, rfl, hrun, rfl, rfl, rfl, rfl, rfl⟩

theorem code_spikeInit (name : String) (center width height : X Rat) (σ0 : Spike_init.S) :
    ∃ σ, Spike_init.run name center width height σ0 = .ok σ ∧ σ.self_name = name ∧
      σ.self_center = center ∧ σ.self_width = width ∧ σ.self_height = height :=
  ⟨_, rfl, rfl, rfl, rfl, rfl⟩

theorem code_spikeParameters (c : Cfg) (center width h : Num) :
    ∃ σ, Spike_parameters.run c center width h {} = .ok σ ∧
      σ.ret = some (Py.Fll.termParameters c (.shape [center, width] (some h))) :=
  ⟨_, rfl, rfl⟩

theorem code_spikeConfigure (rd : String → Option Num) (parameters : String) :
    match numsOf (toks rd parameters) >>= parseShape 2 true with
    | .error e => Spike_configure.run rd parameters {} = .error e.toPy
    | .ok b => ∃ σ, Spike_configure.run rd parameters {} = .ok σ ∧
        b = .shape [σ.self_center, σ.self_width] (some σ.self_height) := by
  shape_configure Spike_configure.run

theorem configure_parameters_spike (rd : String → Option Num) (c : Cfg) (center width h : Num)
    (hrd : ReadsBack rd c (.shape [center, width] (some h))) :
    ∃ σp text σc, Spike_parameters.run c center width h {} = .ok σp ∧ σp.ret = some text ∧
      Spike_configure.run rd text {} = .ok σc ∧
      σc.self_center = rnd c.d center ∧ σc.self_width = rnd c.d width ∧
      σc.self_height = canonH (keepHeight c) c h := by
  have hv := parseVals_parameters rd c [center, width] h hrd
  simp only [List.length_cons, List.length_nil] at hv
  have hrun : Spike_configure.run rd (Py.Fll.termParameters c (.shape [center, width] (some h))) {} =
      .ok { self_center := rnd c.d center, self_width := rnd c.d width, self_height := canonH (keepHeight c) c h } := by
    unfold Spike_configure.run
    rw [hv]
    rfl
  exact ⟨_, _, _, rfl, rfl, hrun, rfl, rfl, rfl⟩

theorem code_sShapeInit (name : String) (start end_ height : X Rat) (σ0 : SShape_init.S) :
    ∃ σ, SShape_init.run name start end_ height σ0 = .ok σ ∧ σ.self_name = name ∧
      σ.self_start = start ∧ σ.self_end = end_ ∧ σ.self_height = height :=
  ⟨_, rfl, rfl, rfl, rfl, rfl⟩

theorem code_sShapeParameters (c : Cfg) (start end_ h : Num) :
    ∃ σ, SShape_parameters.run c start end_ h {} = .ok σ ∧
      σ.ret = some (Py.Fll.termParameters c (.shape [start, end_] (some h))) :=
  ⟨_, rfl, rfl⟩

theorem code_sShapeConfigure (rd : String → Option Num) (parameters : String) :
    match numsOf (toks rd parameters) >>= parseShape 2 true with
    | .error e => SShape_configure.run rd parameters {} = .error e.toPy
    | .ok b => ∃ σ, SShape_configure.run rd parameters {} = .ok σ ∧
        b = .shape [σ.self_start, σ.self_end] (some σ.self_height) := by
  shape_configure SShape_configure.run

theorem configure_parameters_sShape (rd : String → Option Num) (c : Cfg) (start end_ h : Num)
    (hrd : ReadsBack rd c (.shape [start, end_] (some h))) :
    ∃ σp text σc, SShape_parameters.run c start end_ h {} = .ok σp ∧ σp.ret = some text ∧
      SShape_configure.run rd text {} = .ok σc ∧
      σc.self_start = rnd c.d start ∧ σc.self_end = rnd c.d end_ ∧
      σc.self_height = canonH (keepHeight c) c h := by
  have hv := parseVals_parameters rd c [start, end_] h hrd
  simp only [List.length_cons, List.length_nil] at hv
  have hrun : SShape_configure.run rd (Py.Fll.termParameters c (.shape [start, end_] (some h))) {} =
      .ok { self_start := rnd c.d start, self_end := rnd c.d end_, self_height := canonH (keepHeight c) c h } := by
    unfold SShape_configure.run
    rw [hv]
    rfl
  exact ⟨_, _, _, rfl, rfl, hrun, rfl, rfl, rfl⟩

theorem code_trapezoidInit (name : String) (bottom_left top_left top_right bottom_right height : X Rat) (σ0 : Trapezoid_init.S) :
    ∃ σ, Trapezoid_init.run name bottom_left top_left top_right bottom_right height σ0 = .ok σ ∧ σ.self_name = name ∧
      σ.self_height = height ∧
      (σ.self_bottom_left, σ.self_top_left, σ.self_top_right, σ.self_bottom_right) =
        trapezoidVertices bottom_left top_left top_right bottom_right := by
  unfold Trapezoid_init.run trapezoidVertices
  cases h : (X.isnan top_right && X.isnan bottom_right) <;> exact ⟨_, rfl, rfl, rfl, rfl⟩

theorem code_trapezoidParameters (c : Cfg) (bottom_left top_left top_right bottom_right h : Num) :
    ∃ σ, Trapezoid_parameters.run c bottom_left top_left top_right bottom_right h {} = .ok σ ∧
      σ.ret = some (Py.Fll.termParameters c (.shape [bottom_left, top_left, top_right, bottom_right] (some h))) :=
  ⟨_, rfl, rfl⟩

theorem configure_parameters_trapezoid (rd : String → Option Num) (c : Cfg) (bottom_left top_left top_right bottom_right h : Num)
    (hrd : ReadsBack rd c (.shape [bottom_left, top_left, top_right, bottom_right] (some h))) :
    ∃ σp text σc, Trapezoid_parameters.run c bottom_left top_left top_right bottom_right h {} = .ok σp ∧ σp.ret = some text ∧
      Trapezoid_configure.run rd text {} = .ok σc ∧
      σc.self_bottom_left = rnd c.d bottom_left ∧ σc.self_top_left = rnd c.d top_left ∧ σc.self_top_right = rnd c.d top_right ∧ σc.self_bottom_right = rnd c.d bottom_right ∧
      σc.self_height = canonH (keepHeight c) c h := by
  have hv := parseVals_parameters rd c [bottom_left, top_left, top_right, bottom_right] h hrd
  simp only [List.length_cons, List.length_nil] at hv
  have hrun : Trapezoid_configure.run rd (Py.Fll.termParameters c (.shape [bottom_left, top_left, top_right, bottom_right] (some h))) {} =
      .ok { self_bottom_left := rnd c.d bottom_left, self_top_left := rnd c.d top_left, self_top_right := rnd c.d top_right, self_bottom_right := rnd c.d bottom_right, self_height := canonH (keepHeight c) c h } := by
    unfold Trapezoid_configure.run
    rw [hv]
    rfl
  exact ⟨_, _, _, rfl, rfl, hrun, rfl, rfl, rfl, rfl, rfl⟩

theorem code_triangleInit (name : String) (left top right height : X Rat) (σ0 : Triangle_init.S) :
    ∃ σ, Triangle_init.run name left top right height σ0 = .ok σ ∧ σ.self_name = name ∧ σ.self_height = height ∧
      (σ.self_left, σ.self_top, σ.self_right) = triangleVertices left top right := by
  unfold Triangle_init.run triangleVertices
  cases h : X.isnan right <;> exact ⟨_, rfl, rfl, rfl, rfl⟩

theorem configure_parameters_triangle (rd : String → Option Num) (c : Cfg) (left top right h : Num)
    (hrd : ReadsBack rd c (.shape [left, top, right] (some h))) :
    ∃ σp text σc, Triangle_parameters.run c left top right h {} = .ok σp ∧ σp.ret = some text ∧
      Triangle_configure.run rd text {} = .ok σc ∧
      σc.self_left = rnd c.d left ∧ σc.self_top = rnd c.d top ∧ σc.self_right = rnd c.d right ∧
      σc.self_height = canonH (keepHeight c) c h := by
  have hv := parseVals_parameters rd c [left, top, right] h hrd
  simp only [List.length_cons, List.length_nil] at hv
  have hrun : Triangle_configure.run rd (Py.Fll.termParameters c (.shape [left, top, right] (some h))) {} =
      .ok { self_left := rnd c.d left, self_top := rnd c.d top, self_right := rnd c.d right, self_height := canonH (keepHeight c) c h } := by
    unfold Triangle_configure.run
    rw [hv]
    rfl
  exact ⟨_, _, _, rfl, rfl, hrun, rfl, rfl, rfl, rfl⟩

theorem code_zShapeInit (name : String) (start end_ height : X Rat) (σ0 : ZShape_init.S) :
    ∃ σ, ZShape_init.run name start end_ height σ0 = .ok σ ∧ σ.self_name = name ∧
      σ.self_start = start ∧ σ.self_end = end_ ∧ σ.self_height = height :=
  ⟨_, rfl, rfl, rfl, rfl, rfl⟩

theorem code_zShapeParameters (c : Cfg) (start end_ h : Num) :
    ∃ σ, ZShape_parameters.run c start end_ h {} = .ok σ ∧
      σ.ret = some (Py.Fll.termParameters c (.shape [start, end_] (some h))) :=
  ⟨_, rfl, rfl⟩

theorem code_zShapeConfigure (rd : String → Option Num) (parameters : String) :
    match numsOf (toks rd parameters) >>= parseShape 2 true with
    | .error e => ZShape_configure.run rd parameters {} = .error e.toPy
    | .ok b => ∃ σ, ZShape_configure.run rd parameters {} = .ok σ ∧
        b = .shape [σ.self_start, σ.self_end] (some σ.self_height) := by
  shape_configure ZShape_configure.run

theorem configure_parameters_zShape (rd : String → Option Num) (c : Cfg) (start end_ h : Num)
    (hrd : ReadsBack rd c (.shape [start, end_] (some h))) :
    ∃ σp text σc, ZShape_parameters.run c start end_ h {} = .ok σp ∧ σp.ret = some text ∧
      ZShape_configure.run rd text {} = .ok σc ∧
      σc.self_start = rnd c.d start ∧ σc.self_end = rnd c.d end_ ∧
      σc.self_height = canonH (keepHeight c) c h := by
  have hv := parseVals_parameters rd c [start, end_] h hrd
  simp only [List.length_cons, List.length_nil] at hv
  have hrun : ZShape_configure.run rd (Py.Fll.termParameters c (.shape [start, end_] (some h))) {} =
      .ok { self_start := rnd c.d start, self_end := rnd c.d end_, self_height := canonH (keepHeight c) c h } := by
    unfold ZShape_configure.run
    rw [hv]
    rfl
  exact ⟨_, _, _, rfl, rfl, hrun, rfl, rfl, rfl⟩

/-- the defaults of the signatures of the nineteen constructors: the empty name, NaN for every parameter, height 1 (the
    body `configure cls []` of the model: what the factory builds) -/
theorem shape_defaults :
    (Arc_init.dflt_name, Arc_init.dflt_start, Arc_init.dflt_end_, Arc_init.dflt_height) = ("", .nan, .nan, .fin 1) ∧
    (Bell_init.dflt_name, Bell_init.dflt_center, Bell_init.dflt_width, Bell_init.dflt_slope, Bell_init.dflt_height) = ("", .nan, .nan, .nan, .fin 1) ∧
    (Binary_init.dflt_name, Binary_init.dflt_start, Binary_init.dflt_direction, Binary_init.dflt_height) = ("", .nan, .nan, .fin 1) ∧
    (Concave_init.dflt_name, Concave_init.dflt_inflection, Concave_init.dflt_end_, Concave_init.dflt_height) = ("", .nan, .nan, .fin 1) ∧
    (Cosine_init.dflt_name, Cosine_init.dflt_center, Cosine_init.dflt_width, Cosine_init.dflt_height) = ("", .nan, .nan, .fin 1) ∧
    (Gaussian_init.dflt_name, Gaussian_init.dflt_mean, Gaussian_init.dflt_standard_deviation, Gaussian_init.dflt_height) = ("", .nan, .nan, .fin 1) ∧
    (GaussianProduct_init.dflt_name, GaussianProduct_init.dflt_mean_a, GaussianProduct_init.dflt_standard_deviation_a, GaussianProduct_init.dflt_mean_b, GaussianProduct_init.dflt_standard_deviation_b, GaussianProduct_init.dflt_height) = ("", .nan, .nan, .nan, .nan, .fin 1) ∧
    (PiShape_init.dflt_name, PiShape_init.dflt_bottom_left, PiShape_init.dflt_top_left, PiShape_init.dflt_top_right, PiShape_init.dflt_bottom_right, PiShape_init.dflt_height) = ("", .nan, .nan, .nan, .nan, .fin 1) ∧
    (Ramp_init.dflt_name, Ramp_init.dflt_start, Ramp_init.dflt_end_, Ramp_init.dflt_height) = ("", .nan, .nan, .fin 1) ∧
    (Rectangle_init.dflt_name, Rectangle_init.dflt_start, Rectangle_init.dflt_end_, Rectangle_init.dflt_height) = ("", .nan, .nan, .fin 1) ∧
    (SemiEllipse_init.dflt_name, SemiEllipse_init.dflt_start, SemiEllipse_init.dflt_end_, SemiEllipse_init.dflt_height) = ("", .nan, .nan, .fin 1) ∧
    (Sigmoid_init.dflt_name, Sigmoid_init.dflt_inflection, Sigmoid_init.dflt_slope, Sigmoid_init.dflt_height) = ("", .nan, .nan, .fin 1) ∧
    (SigmoidDifference_init.dflt_name, SigmoidDifference_init.dflt_left, SigmoidDifference_init.dflt_rising, SigmoidDifference_init.dflt_falling, SigmoidDifference_init.dflt_right, SigmoidDifference_init.dflt_height) = ("", .nan, .nan, .nan, .nan, .fin 1) ∧
    (SigmoidProduct_init.dflt_name, SigmoidProduct_init.dflt_left, SigmoidProduct_init.dflt_rising, SigmoidProduct_init.dflt_falling, SigmoidProduct_init.dflt_right, SigmoidProduct_init.dflt_height) = ("", .nan, .nan, .nan, .nan, .fin 1) ∧
    (Spike_init.dflt_name, Spike_init.dflt_center, Spike_init.dflt_width, Spike_init.dflt_height) = ("", .nan, .nan, .fin 1) ∧
    (SShape_init.dflt_name, SShape_init.dflt_start, SShape_init.dflt_end_, SShape_init.dflt_height) = ("", .nan, .nan, .fin 1) ∧
    (Trapezoid_init.dflt_name, Trapezoid_init.dflt_bottom_left, Trapezoid_init.dflt_top_left, Trapezoid_init.dflt_top_right, Trapezoid_init.dflt_bottom_right, Trapezoid_init.dflt_height) = ("", .nan, .nan, .nan, .nan, .fin 1) ∧
    (Triangle_init.dflt_name, Triangle_init.dflt_left, Triangle_init.dflt_top, Triangle_init.dflt_right, Triangle_init.dflt_height) = ("", .nan, .nan, .nan, .fin 1) ∧
    (ZShape_init.dflt_name, ZShape_init.dflt_start, ZShape_init.dflt_end_, ZShape_init.dflt_height) = ("", .nan, .nan, .fin 1) := by
  refine ⟨rfl, rfl, rfl, rfl, rfl, rfl, rfl, rfl, rfl, rfl, rfl, rfl, rfl, rfl, rfl, rfl, rfl, rfl, rfl⟩

end Py.W5Y
