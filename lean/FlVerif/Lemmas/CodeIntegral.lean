import FlVerif.Gen.CodeIntegral
import FlVerif.Lemmas.CodeIntegralNp

/-! # Tie A for `Op.midpoints` and the five integral defuzzifiers: the definitions translated from the current
source equal the models `Op.Integral.midpoints / centroid / bisector / som / mom / lom` (batch = list of rows) -/

namespace Op.Integral
open Gen.Code Py.Np Lemmas.Integral

/-! ## `Op.midpoints` -/

/-- **`Op.midpoints` as translated from the source = the model `Op.Integral.midpoints`**; the resolution 0 is Python's
    `ZeroDivisionError` (`float / int`), where the model has the empty list -/
theorem code_midpoints (lo hi : X Rat) (r : Nat) :
    Op_midpoints.run lo hi r {} =
      if r = 0 then .error .internal else .ok { ret := some (midpoints lo hi r) } := by
  unfold Op_midpoints.run divInt
  by_cases h : r = 0
  · simp only [h, if_true, bind, Except.bind]
  · simp only [h, if_false, bind, Except.bind, arange, midpoints, List.map_map]
    rfl

/-- the callee external of the defuzzifiers is the translated function -/
theorem code_midpoints_callee (lo hi : X Rat) (r : Nat) :
    Op_midpoints.run lo hi r {} = (Py.Np.midpoints lo hi r >>= fun v => .ok { ret := some v }) := by
  rw [code_midpoints]
  unfold Py.Np.midpoints
  by_cases h : r = 0 <;> simp [h, bind, Except.bind]

/-! ## the matrix `Y = np.atleast_2d(term.membership(x))` against the row `x` -/

variable {x : Row} {Y : Mat}

theorem mulRow (h : ∀ r ∈ Y, r.length = x.length ∨ r.length = 1) :
    zip2 X.mul [x] Y = .ok (Y.map (fun r => List.zipWith X.mul x (bcastRow x.length r))) := by
  simpa using zip2_row_left X.mul x Y id h

theorem whereRow (mask : List (X Rat) → List Bool) (hm : ∀ r, (mask r).length = r.length)
    (h : ∀ r ∈ Y, r.length = x.length ∨ r.length = 1) :
    Py.Np.whereNan (Y.map mask) [x] = .ok (Y.map (fun r => Op.Integral.whereNan (mask r) x)) := by
  unfold Py.Np.whereNan Op.Integral.whereNan
  exact zip2_row_right _ x Y mask (fun r hr => by rw [hm]; exact h r hr)

theorem whereNan_length (mask : List Bool) (hm : mask.length = x.length ∨ mask.length = 1) :
    (Op.Integral.whereNan mask x).length = x.length := by
  unfold Op.Integral.whereNan
  rcases hm with e | e
  · rw [← e, bcastRow_self]; simp [e]
  · match mask, e with
    | [m], _ => simp

/-! ## `Centroid.defuzzify` -/

theorem code_centroid (mem : Mat → Py.M Nd) (lo hi : X Rat) (r : Nat) :
    if r = 0 then Centroid_defuzzify.run mem lo hi r {} = .error .internal else
    match mem [midpoints lo hi r] with
    | .error e => Centroid_defuzzify.run mem lo hi r {} = .error e
    | .ok y0 => memShape r (atleast2d y0) = true →
        ∃ σ, Centroid_defuzzify.run mem lo hi r {} = .ok σ ∧
          σ.ret = some (squeeze1 (defuzzifyBatch centroid (midpoints lo hi r) (atleast2d y0))) := by
  unfold Centroid_defuzzify.run Py.Np.midpoints
  by_cases h : r = 0
  · simp only [h, if_true, bind, Except.bind]
  · simp only [h, if_false, bind, Except.bind]
    cases hm : mem [midpoints lo hi r] with
    | error e => rfl
    | ok y0 =>
      intro hs
      have hY : ∀ q ∈ atleast2d y0, q.length = (midpoints lo hi r).length ∨ q.length = 1 := by
        simpa using memShape_mem hs
      simp only [mulRow hY, sumAxis1, List.map_map]
      rw [zip1_same _ _ _ (by simp), zipWith_map_same]
      exact ⟨_, rfl, rfl⟩

/-! ## the maxima: `SmallestOfMaximum / MeanOfMaximum / LargestOfMaximum.defuzzify` -/

theorem ne_nil_of_length_eq {l l' : List (X Rat)} (h : l.length = l'.length) (hne : l' ≠ []) : l ≠ [] := by
  intro e; subst e; cases l' <;> simp_all

/-- `y.max(axis=1, keepdims=True)` -/
theorem maxCol (hne : ∀ q ∈ Y, q ≠ []) :
    reduceKeep Py.Err.value npMax Y = .ok (Y.map (fun q => [npMax q])) := by
  simpa using reduceKeep_map .value npMax Y id hne

/-- `y == y.max(axis=1, keepdims=True)` -/
theorem eqMaxCol :
    zip2 X.eq Y (Y.map (fun q => [npMax q])) = .ok (Y.map (fun q => q.map (fun v => X.eq v (npMax q)))) := by
  simpa using zip2_column X.eq Y id (fun q => npMax q)

/-- `(y > 0) & (y == y.max(axis=1, keepdims=True))` is the model's mask on every row -/
theorem andMask :
    zip2 and (map2 (fun v => X.lt (X.fin 0) v) Y) (Y.map (fun q => q.map (fun v => X.eq v (npMax q)))) =
      .ok (Y.map maxMask) := by
  unfold map2
  rw [zip2_same _ _ _ _ (by intro q _; simp)]
  simp only [zipWith_map_same]
  rfl

theorem maxMask_length (q : List (X Rat)) : (maxMask q).length = q.length := by simp [maxMask, maxMaskWith]

theorem whereMax_ne_nil (hx : x ≠ []) (hY : ∀ q ∈ Y, q.length = x.length ∨ q.length = 1) :
    ∀ q ∈ Y, Op.Integral.whereNan (maxMask q) x ≠ [] := by
  intro q hq
  refine ne_nil_of_length_eq (whereNan_length _ ?_) hx
  rw [maxMask_length]; exact hY q hq

theorem midpoints_ne_nil (lo hi : X Rat) {r : Nat} (h : ¬ r = 0) : midpoints lo hi r ≠ [] := by
  intro e
  have := midpoints_length lo hi r
  rw [e] at this
  exact h this.symm

theorem rows_ne_nil (hx : x ≠ []) (hY : ∀ q ∈ Y, q.length = x.length ∨ q.length = 1) : ∀ q ∈ Y, q ≠ [] := by
  intro q hq e
  subst e
  rcases hY _ hq with h | h
  · exact hx (List.length_eq_zero_iff.1 h.symm)
  · simp at h

theorem code_som (mem : Mat → Py.M Nd) (lo hi : X Rat) (r : Nat) :
    if r = 0 then SmallestOfMaximum_defuzzify.run mem lo hi r {} = .error .internal else
    match mem [midpoints lo hi r] with
    | .error e => SmallestOfMaximum_defuzzify.run mem lo hi r {} = .error e
    | .ok y0 => memShape r (atleast2d y0) = true →
        ∃ σ, SmallestOfMaximum_defuzzify.run mem lo hi r {} = .ok σ ∧
          σ.ret = some (squeeze1 (defuzzifyBatch som (midpoints lo hi r) (atleast2d y0))) := by
  unfold SmallestOfMaximum_defuzzify.run Py.Np.midpoints
  by_cases h : r = 0
  · simp only [h, if_true, bind, Except.bind]
  · simp only [h, if_false, bind, Except.bind]
    cases hm : mem [midpoints lo hi r] with
    | error e => rfl
    | ok y0 =>
      intro hs
      have hY : ∀ q ∈ atleast2d y0, q.length = (midpoints lo hi r).length ∨ q.length = 1 := by
        simpa using memShape_mem hs
      have hx := midpoints_ne_nil lo hi h
      simp only [maxCol (rows_ne_nil hx hY), eqMaxCol, andMask, whereRow maxMask maxMask_length hY,
        reduce1_map _ _ _ _ (whereMax_ne_nil hx hY)]
      exact ⟨_, rfl, rfl⟩

theorem code_lom (mem : Mat → Py.M Nd) (lo hi : X Rat) (r : Nat) :
    if r = 0 then LargestOfMaximum_defuzzify.run mem lo hi r {} = .error .internal else
    match mem [midpoints lo hi r] with
    | .error e => LargestOfMaximum_defuzzify.run mem lo hi r {} = .error e
    | .ok y0 => memShape r (atleast2d y0) = true →
        ∃ σ, LargestOfMaximum_defuzzify.run mem lo hi r {} = .ok σ ∧
          σ.ret = some (squeeze1 (defuzzifyBatch lom (midpoints lo hi r) (atleast2d y0))) := by
  unfold LargestOfMaximum_defuzzify.run Py.Np.midpoints
  by_cases h : r = 0
  · simp only [h, if_true, bind, Except.bind]
  · simp only [h, if_false, bind, Except.bind]
    cases hm : mem [midpoints lo hi r] with
    | error e => rfl
    | ok y0 =>
      intro hs
      have hY : ∀ q ∈ atleast2d y0, q.length = (midpoints lo hi r).length ∨ q.length = 1 := by
        simpa using memShape_mem hs
      have hx := midpoints_ne_nil lo hi h
      simp only [maxCol (rows_ne_nil hx hY), eqMaxCol, andMask, whereRow maxMask maxMask_length hY,
        reduce1_map _ _ _ _ (whereMax_ne_nil hx hY)]
      exact ⟨_, rfl, rfl⟩

theorem code_mom (mem : Mat → Py.M Nd) (lo hi : X Rat) (r : Nat) :
    if r = 0 then MeanOfMaximum_defuzzify.run mem lo hi r {} = .error .internal else
    match mem [midpoints lo hi r] with
    | .error e => MeanOfMaximum_defuzzify.run mem lo hi r {} = .error e
    | .ok y0 => memShape r (atleast2d y0) = true →
        ∃ σ, MeanOfMaximum_defuzzify.run mem lo hi r {} = .ok σ ∧
          σ.ret = some (squeeze1 (defuzzifyBatch mom (midpoints lo hi r) (atleast2d y0))) := by
  unfold MeanOfMaximum_defuzzify.run Py.Np.midpoints
  by_cases h : r = 0
  · simp only [h, if_true, bind, Except.bind]
  · simp only [h, if_false, bind, Except.bind]
    cases hm : mem [midpoints lo hi r] with
    | error e => rfl
    | ok y0 =>
      intro hs
      have hY : ∀ q ∈ atleast2d y0, q.length = (midpoints lo hi r).length ∨ q.length = 1 := by
        simpa using memShape_mem hs
      have hx := midpoints_ne_nil lo hi h
      simp only [maxCol (rows_ne_nil hx hY), eqMaxCol, andMask, whereRow maxMask maxMask_length hY, List.map_map]
      exact ⟨_, rfl, rfl⟩

/-! ## `Bisector.defuzzify` -/

/-- `area[:, [-1]]` of the cumulative sums -/
theorem lastColCum (hne : ∀ q ∈ Y, q ≠ []) :
    lastCol (Y.map nancumsum) = .ok (Y.map (fun q => [lastOr (nancumsum q) X.nan])) := by
  unfold lastCol
  exact reduceKeep_map _ _ Y nancumsum (fun q hq => ne_nil_of_length_eq (nancumsum_length q) (hne q hq))

/-- `area / area[:, [-1]]` -/
theorem divLastCol :
    zip2 X.div (Y.map nancumsum) (Y.map (fun q => [lastOr (nancumsum q) X.nan])) =
      .ok (Y.map (fun q => (nancumsum q).map (fun v => X.div v (lastOr (nancumsum q) X.nan)))) :=
  zip2_column X.div Y nancumsum _

/-- `np.abs((area / area[:, [-1]]) - 0.5)` is the model's row of scores -/
theorem scoresMat :
    map2 X.abs (map2 (fun v => X.sub v (X.fin ((1 : Rat) / 2)))
      (Y.map (fun q => (nancumsum q).map (fun v => X.div v (lastOr (nancumsum q) X.nan))))) =
      Y.map bisectorScores := by
  unfold map2
  simp only [List.map_map]
  apply List.map_congr_left
  intro q _
  simp only [Function.comp, List.map_map, bisectorScores, scoresWith]
  rfl

theorem bisectorScores_length (q : List (X Rat)) : (bisectorScores q).length = q.length := by
  simp [bisectorScores, scoresWith]

/-- `area.min(axis=1, keepdims=True)` -/
theorem minCol (hne : ∀ q ∈ Y, q ≠ []) :
    reduceKeep Py.Err.value npMin (Y.map bisectorScores) = .ok (Y.map (fun q => [npMin (bisectorScores q)])) :=
  reduceKeep_map _ _ Y bisectorScores (fun q hq => ne_nil_of_length_eq (bisectorScores_length q) (hne q hq))

/-- `area == area.min(axis=1, keepdims=True)` -/
theorem eqMinCol :
    zip2 X.eq (Y.map bisectorScores) (Y.map (fun q => [npMin (bisectorScores q)])) =
      .ok (Y.map (fun q => maskEq (npMin (bisectorScores q)) (bisectorScores q))) :=
  zip2_column X.eq Y bisectorScores _

theorem code_bisector (mem : Mat → Py.M Nd) (lo hi : X Rat) (r : Nat) :
    if r = 0 then Bisector_defuzzify.run mem lo hi r {} = .error .internal else
    match mem [midpoints lo hi r] with
    | .error e => Bisector_defuzzify.run mem lo hi r {} = .error e
    | .ok y0 => memShape r (atleast2d y0) = true →
        ∃ σ, Bisector_defuzzify.run mem lo hi r {} = .ok σ ∧
          σ.ret = some (squeeze1 (defuzzifyBatch bisector (midpoints lo hi r) (atleast2d y0))) := by
  unfold Bisector_defuzzify.run Py.Np.midpoints
  by_cases h : r = 0
  · simp only [h, if_true, bind, Except.bind]
  · simp only [h, if_false, bind, Except.bind]
    cases hm : mem [midpoints lo hi r] with
    | error e => rfl
    | ok y0 =>
      intro hs
      have hY : ∀ q ∈ atleast2d y0, q.length = (midpoints lo hi r).length ∨ q.length = 1 := by
        simpa using memShape_mem hs
      have hne := rows_ne_nil (midpoints_ne_nil lo hi h) hY
      simp only [lastColCum hne, divLastCol, scoresMat, minCol hne, eqMinCol,
        whereRow (fun q => maskEq (npMin (bisectorScores q)) (bisectorScores q))
          (fun q => by simp [maskEq, bisectorScores_length]) hY, List.map_map]
      exact ⟨_, rfl, rfl⟩

end Op.Integral
