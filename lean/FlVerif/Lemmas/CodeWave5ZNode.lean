import FlVerif.Gen.CodeNodeText
import FlVerif.Op.NodeText
import FlVerif.Lemmas.CodeFunEval

/-! # Tie A: `Function.Node.value / prefix / infix / postfix` (term.py) are `Op.NodeText.*`

For every node tree (no side condition), every text function `str` of floats and both ways to call the method (with
`None`: the tree of `self`; with a node).  The recursion bound is never exhausted. -/

namespace CodeW5Z
open Lang Op Op.NodeText Gen.Code Py.FunEval CodeFunEval

/-- `node.value()` as the externals of the renderings call it -/
theorem value_call (str : X Rat → String) (n : Py.Node) :
    (Node_value.run str n {} >>= fun r => Py.deref r.ret) = .ok (value str n) := by
  unfold Node_value.run value
  cases he : n.element with
  | some e => simp [bind, Except.bind]
  | none =>
    by_cases hv : n.variable_ = ""
    · simp [bind, Except.bind, hv]
    · simp [bind, Except.bind, hv]

theorem code_nodeValue (str : X Rat → String) (n : Py.Node) :
    ∃ σ, Node_value.run str n {} = .ok σ ∧ σ.ret = some (value str n) := by
  have h := value_call str n
  cases hr : Node_value.run str n {} with
  | error e => simp [hr, bind, Except.bind] at h
  | ok σ =>
    refine ⟨σ, rfl, ?_⟩
    simp only [hr, bind, Except.bind] at h
    cases hσ : σ.ret with
    | none => simp [hσ] at h
    | some s => simp [hσ] at h; simp [h]

theorem height_children {el : Option Elem} {v : String} {c : X Rat} {l r : Option Py.Node} {fuel : Nat}
    (h : height ⟨el, v, c, l, r⟩ ≤ fuel + 1) : (∀ x, l = some x → height x ≤ fuel) ∧ (∀ x, r = some x → height x ≤ fuel) := by
  rw [height] at h
  constructor
  · intro x hx; subst hx; simp only [heightO] at h; omega
  · intro x hx; subst hx; simp only [heightO] at h; omega

/-! ## postfix -/

theorem code_postfixRec (str : X Rat → String) (self : Py.Node) : ∀ (fuel : Nat) (n : Py.Node) (σ0 : Node_postfix.S),
    height n ≤ fuel → ∃ σ, Node_postfix.rec fuel str self (some n) σ0 = .ok σ ∧ σ.ret = some (postText str n)
  | 0, n, _, h => absurd h (by have := height_pos n; omega)
  | fuel + 1, ⟨el, v, c, l, r⟩, σ0, h => by
    obtain ⟨hl, hr⟩ := height_children h
    rw [postText]
    simp only [Node_postfix.rec, Option.isSome_some, Bool.not_true, Bool.false_eq_true, if_false, Py.deref_some, bind,
      Except.bind]
    by_cases hc : X.isnan c = true
    · simp only [hc, Bool.not_true, Bool.false_eq_true, if_false]
      by_cases hv : v = ""
      · subst hv
        simp only [bne_self_eq_false, Bool.false_eq_true, if_false]
        have hval := value_call str ⟨el, "", c, l, r⟩
        simp only [bind, Except.bind] at hval
        cases l with
        | none =>
          cases r with
          | none =>
            simp only [Option.isSome_none, Bool.false_eq_true, if_false, hval, postTextO]
            exact ⟨_, rfl, rfl⟩
          | some y =>
            obtain ⟨σr, er, rr⟩ := code_postfixRec str self fuel y {} (hr y rfl)
            simp only [Option.isSome_none, Option.isSome_some, Bool.false_eq_true, if_false, if_true, er, rr,
              Py.deref_some, hval, postTextO]
            exact ⟨_, rfl, rfl⟩
        | some x =>
          obtain ⟨σl, el', rl⟩ := code_postfixRec str self fuel x {} (hl x rfl)
          cases r with
          | none =>
            simp only [Option.isSome_none, Option.isSome_some, Bool.false_eq_true, if_false, if_true, el', rl,
              Py.deref_some, hval, postTextO]
            exact ⟨_, rfl, rfl⟩
          | some y =>
            obtain ⟨σr, er, rr⟩ := code_postfixRec str self fuel y {} (hr y rfl)
            simp only [Option.isSome_some, if_true, el', rl, er, rr, Py.deref_some, hval, postTextO]
            exact ⟨_, rfl, rfl⟩
      · have hv' : (v != "") = true := by simp [hv]
        simp only [hv', if_true]
        exact ⟨_, rfl, rfl⟩
    · have hc' : X.isnan c = false := by simpa using hc
      simp only [hc', Bool.not_false, if_true]
      exact ⟨_, rfl, rfl⟩

theorem code_nodePostfix (str : X Rat → String) (self : Py.Node) (node : Option Py.Node) :
    ∃ σ, Node_postfix.run str self node {} = .ok σ ∧ σ.ret = some (postText str (node.getD self)) := by
  unfold Node_postfix.run
  cases node with
  | some n =>
    exact code_postfixRec str self _ n {} (by simp only [heightO]; omega)
  | none =>
    obtain ⟨σ, e, r⟩ := code_postfixRec str self (heightO none + height self) self {} (by simp only [heightO]; omega)
    simp only [Node_postfix.rec, Option.isSome_none, Bool.not_false, if_true, e, r, Py.deref_some, bind, Except.bind,
      Option.getD_none]
    exact ⟨_, rfl, rfl⟩

/-! ## prefix -/

theorem code_prefixRec (str : X Rat → String) (self : Py.Node) : ∀ (fuel : Nat) (n : Py.Node) (σ0 : Node_prefix.S),
    height n ≤ fuel → ∃ σ, Node_prefix.rec fuel str self (some n) σ0 = .ok σ ∧ σ.ret = some (pfxText str n)
  | 0, n, _, h => absurd h (by have := height_pos n; omega)
  | fuel + 1, ⟨el, v, c, l, r⟩, σ0, h => by
    obtain ⟨hl, hr⟩ := height_children h
    rw [pfxText]
    simp only [Node_prefix.rec, Option.isSome_some, Bool.not_true, Bool.false_eq_true, if_false, Py.deref_some, bind,
      Except.bind]
    by_cases hc : X.isnan c = true
    · simp only [hc, Bool.not_true, Bool.false_eq_true, if_false]
      by_cases hv : v = ""
      · subst hv
        simp only [bne_self_eq_false, Bool.false_eq_true, if_false]
        have hval := value_call str ⟨el, "", c, l, r⟩
        simp only [bind, Except.bind] at hval
        cases l with
        | none =>
          cases r with
          | none =>
            simp only [Option.isSome_none, Bool.false_eq_true, if_false, hval, pfxTextO]
            exact ⟨_, rfl, rfl⟩
          | some y =>
            obtain ⟨σr, er, rr⟩ := code_prefixRec str self fuel y {} (hr y rfl)
            simp only [Option.isSome_none, Option.isSome_some, Bool.false_eq_true, if_false, if_true, er, rr,
              Py.deref_some, hval, pfxTextO]
            exact ⟨_, rfl, rfl⟩
        | some x =>
          obtain ⟨σl, el', rl⟩ := code_prefixRec str self fuel x {} (hl x rfl)
          cases r with
          | none =>
            simp only [Option.isSome_none, Option.isSome_some, Bool.false_eq_true, if_false, if_true, el', rl,
              Py.deref_some, hval, pfxTextO]
            exact ⟨_, rfl, rfl⟩
          | some y =>
            obtain ⟨σr, er, rr⟩ := code_prefixRec str self fuel y {} (hr y rfl)
            simp only [Option.isSome_some, if_true, el', rl, er, rr, Py.deref_some, hval, pfxTextO]
            exact ⟨_, rfl, rfl⟩
      · have hv' : (v != "") = true := by simp [hv]
        simp only [hv', if_true]
        exact ⟨_, rfl, rfl⟩
    · have hc' : X.isnan c = false := by simpa using hc
      simp only [hc', Bool.not_false, if_true]
      exact ⟨_, rfl, rfl⟩

theorem code_nodePrefix (str : X Rat → String) (self : Py.Node) (node : Option Py.Node) :
    ∃ σ, Node_prefix.run str self node {} = .ok σ ∧ σ.ret = some (pfxText str (node.getD self)) := by
  unfold Node_prefix.run
  cases node with
  | some n =>
    exact code_prefixRec str self _ n {} (by simp only [heightO]; omega)
  | none =>
    obtain ⟨σ, e, r⟩ := code_prefixRec str self (heightO none + height self) self {} (by simp only [heightO]; omega)
    simp only [Node_prefix.rec, Option.isSome_none, Bool.not_false, if_true, e, r, Py.deref_some, bind, Except.bind,
      Option.getD_none]
    exact ⟨_, rfl, rfl⟩

/-! ## infix -/

theorem isFunction_call (el : Option Elem) :
    (if el.isSome = true then (Py.deref el >>= fun a0 => (Except.ok (!a0.isOp) : Py.M Bool))
      else (Except.ok false : Py.M Bool)) = .ok (isFunction el) := by
  cases el <;> rfl

theorem code_infixRec (str : X Rat → String) (self : Py.Node) : ∀ (fuel : Nat) (n : Py.Node) (σ0 : Node_infix.S),
    height n ≤ fuel → ∃ σ, Node_infix.rec fuel str self (some n) σ0 = .ok σ ∧ σ.ret = some (infText str n)
  | 0, n, _, h => absurd h (by have := height_pos n; omega)
  | fuel + 1, ⟨el, v, c, l, r⟩, σ0, h => by
    obtain ⟨hl, hr⟩ := height_children h
    rw [infText]
    simp only [Node_infix.rec, Option.isSome_some, Bool.not_true, Bool.false_eq_true, if_false, Py.deref_some, bind,
      Except.bind]
    by_cases hc : X.isnan c = true
    · simp only [hc, Bool.not_true, Bool.false_eq_true, if_false]
      by_cases hv : v = ""
      · subst hv
        simp only [bne_self_eq_false, Bool.false_eq_true, if_false]
        have hval := value_call str ⟨el, "", c, l, r⟩
        simp only [bind, Except.bind] at hval
        have hfun := isFunction_call el
        simp only [bind, Except.bind] at hfun
        cases hf : isFunction el with
        | true =>
          rw [hf] at hfun
          cases l with
          | none =>
            cases r with
            | none =>
              simp only [Option.isSome_none, Bool.false_eq_true, if_false, hval, infTextO, hfun, if_true, infixText]
              exact ⟨_, rfl, rfl⟩
            | some y =>
              obtain ⟨σr, er, rr⟩ := code_infixRec str self fuel y {} (hr y rfl)
              simp only [Option.isSome_none, Option.isSome_some, Bool.false_eq_true, if_false, if_true, er, rr,
                Py.deref_some, hval, infTextO, hfun, infixText]
              exact ⟨_, rfl, rfl⟩
          | some x =>
            obtain ⟨σl, el', rl⟩ := code_infixRec str self fuel x {} (hl x rfl)
            cases r with
            | none =>
              simp only [Option.isSome_none, Option.isSome_some, Bool.false_eq_true, if_false, if_true, el', rl,
                Py.deref_some, hval, infTextO, hfun, infixText]
              exact ⟨_, rfl, rfl⟩
            | some y =>
              obtain ⟨σr, er, rr⟩ := code_infixRec str self fuel y {} (hr y rfl)
              simp only [Option.isSome_some, if_true, el', rl, er, rr, Py.deref_some, hval, infTextO, hfun, infixText]
              exact ⟨_, rfl, rfl⟩
        | false =>
          rw [hf] at hfun
          cases l with
          | none =>
            cases r with
            | none =>
              simp only [Option.isSome_none, Bool.false_eq_true, if_false, hval, infTextO, hfun, infixText]
              exact ⟨_, rfl, rfl⟩
            | some y =>
              obtain ⟨σr, er, rr⟩ := code_infixRec str self fuel y {} (hr y rfl)
              simp only [Option.isSome_none, Option.isSome_some, Bool.false_eq_true, if_false, if_true, er, rr,
                Py.deref_some, hval, infTextO, hfun, infixText]
              exact ⟨_, rfl, rfl⟩
          | some x =>
            obtain ⟨σl, el', rl⟩ := code_infixRec str self fuel x {} (hl x rfl)
            cases r with
            | none =>
              simp only [Option.isSome_none, Option.isSome_some, Bool.false_eq_true, if_false, if_true, el', rl,
                Py.deref_some, hval, infTextO, hfun, infixText]
              exact ⟨_, rfl, rfl⟩
            | some y =>
              obtain ⟨σr, er, rr⟩ := code_infixRec str self fuel y {} (hr y rfl)
              simp only [Option.isSome_some, if_true, el', rl, er, rr, Py.deref_some, hval, infTextO, hfun, infixText]
              exact ⟨_, rfl, rfl⟩
      · have hv' : (v != "") = true := by simp [hv]
        simp only [hv', if_true]
        exact ⟨_, rfl, rfl⟩
    · have hc' : X.isnan c = false := by simpa using hc
      simp only [hc', Bool.not_false, if_true]
      exact ⟨_, rfl, rfl⟩

theorem code_nodeInfix (str : X Rat → String) (self : Py.Node) (node : Option Py.Node) :
    ∃ σ, Node_infix.run str self node {} = .ok σ ∧ σ.ret = some (infText str (node.getD self)) := by
  unfold Node_infix.run
  cases node with
  | some n =>
    exact code_infixRec str self _ n {} (by simp only [heightO]; omega)
  | none =>
    obtain ⟨σ, e, r⟩ := code_infixRec str self (heightO none + height self) self {} (by simp only [heightO]; omega)
    simp only [Node_infix.rec, Option.isSome_none, Bool.not_false, if_true, e, r, Py.deref_some, bind, Except.bind,
      Option.getD_none]
    exact ⟨_, rfl, rfl⟩

end CodeW5Z
