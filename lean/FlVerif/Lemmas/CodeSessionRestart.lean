import FlVerif.Gen.CodeSession

/-! # Tie A for `Engine.restart` and `OutputVariable.clear`

`Engine.restart` as translated from the current source (three loops: input values to NaN, `reload_rules` of every
block, `clear` of every output variable) against the models `Op.Session.restartR` / `Op.Session.restart`; it is
translated with the state at a raise, so the theorem also says where an exception of `reload_rules` leaves the engine:
the input values are NaN already and no output variable has been cleared. -/

namespace Op.Session
open Op.Engine Gen.Code

/-- `OutputVariable.clear` as translated from the source = the model `Op.clear`, and the fuzzy output is emptied -/
theorem code_clear (c : CascadeCfg Rat) (σ0 : OutputVariable_clear.S) :
    ∃ σ, OutputVariable_clear.run c σ0 = .ok σ ∧
      (⟨σ.self_value, σ.self_previous_value⟩ : OutState Rat) = Op.clear c ⟨σ0.self_value, σ0.self_previous_value⟩ ∧
      σ.self_fuzzy = [] :=
  ⟨_, rfl, rfl, rfl⟩

/-- what `reload_rules` does to a block, without the exception class -/
def reloadModel (reload : Block Rat → Except (Py.Err × Block Rat) (Block Rat)) (b : Block Rat) :
    Except (Block Rat) (Block Rat) :=
  match reload b with
  | .ok b' => .ok b'
  | .error (_, b') => .error b'

variable (reload : Block Rat → Except (Py.Err × Block Rat) (Block Rat)) (ins : List (InVar Rat)) (bls : List (Block Rat))
  (ovs : List (OutVar Rat × OutState Rat))

theorem code_restartLoop1 : ∀ (l : List (InVar Rat)) (σ : Engine_restart.S),
    ∃ σ', Engine_restart.loop1 reload ins bls ovs l σ = .ok σ' ∧ σ'.inputs = σ.inputs ++ l.map (·.setValue .nan) ∧
      σ'.blocks = σ.blocks ∧ σ'.outs = σ.outs
  | [], σ => ⟨σ, rfl, by simp, rfl, rfl⟩
  | x :: l, σ => by
    simp only [Engine_restart.loop1]
    obtain ⟨σ', h, h1, h2, h3⟩ := code_restartLoop1 l
      { σ with input_variable := x.setValue .nan, inputs := σ.inputs ++ [x.setValue .nan] }
    exact ⟨σ', h, by simp [h1], h2, h3⟩

theorem code_restartLoop2 : ∀ (l : List (Block Rat)) (σ : Engine_restart.S),
    match reloadBlocks (reloadModel reload) l σ.blocks with
    | .ok bs => ∃ σ', Engine_restart.loop2 reload ins bls ovs l σ = .ok σ' ∧ σ'.blocks = bs ∧ σ'.inputs = σ.inputs ∧
        σ'.outs = σ.outs
    | .error (done, b, _) => ∃ err σ', Engine_restart.loop2 reload ins bls ovs l σ = .error (err, σ') ∧ σ'.blocks = done ∧
        σ'.rule_block = b ∧ σ'.inputs = σ.inputs ∧ σ'.outs = σ.outs
  | [], σ => ⟨σ, rfl, rfl, rfl, rfl⟩
  | x :: l, σ => by
    simp only [Engine_restart.loop2, reloadBlocks, reloadModel]
    cases hr : reload x with
    | error p =>
      obtain ⟨err, b'⟩ := p
      exact ⟨err, _, rfl, rfl, rfl, rfl, rfl⟩
    | ok b' =>
      simp only [Py.R.map_ok, bind, Except.bind]
      exact code_restartLoop2 l { σ with rule_block := b', blocks := σ.blocks ++ [b'] }

theorem code_restartLoop3 : ∀ (l : List (OutVar Rat × OutState Rat)) (σ : Engine_restart.S),
    ∃ σ', Engine_restart.loop3 reload ins bls ovs l σ = .ok σ' ∧
      σ'.outs = σ.outs ++ l.map (fun p => Op.clear (cascadeCfg p.1) p.2) ∧ σ'.inputs = σ.inputs ∧ σ'.blocks = σ.blocks
  | [], σ => ⟨σ, rfl, by simp, rfl, rfl⟩
  | x :: l, σ => by
    simp only [Engine_restart.loop3, OutputVariable_clear.run, bind, Except.bind, Py.inState_ok]
    obtain ⟨σ', h, h1, h2, h3⟩ := code_restartLoop3 l
      { σ with output_variable := (x.1, Op.clear (cascadeCfg x.1) x.2), outs := σ.outs ++ [Op.clear (cascadeCfg x.1) x.2] }
    exact ⟨σ', h, by simp [h1], h2, h3⟩

theorem zip_const_map {β γ δ : Type} (f : β × γ → δ) (c : γ) : ∀ (l : List β),
    (l.zip (l.map (fun _ => c))).map f = l.map (fun x => f (x, c))
  | [] => rfl
  | x :: l => by simp [zip_const_map f c l]

/-- the session the code works on: the engine and the value / previous value of its output variables -/
def sessOf : Sess Rat :=
  { engine := { inputs := ins, outputs := ovs.map (·.1), blocks := bls }, outs := ovs.map (·.2) }

/-- **`Engine.restart` as translated from the source = the model `Op.Session.restartR`**: when every `reload_rules`
    returns, the input values are NaN (through the clipping setter), the blocks are the reloaded ones and every output
    variable is cleared; when one raises, the exception propagates with the input values NaN already, the blocks before
    it reloaded, and no output variable cleared (`σ.outs = []`: the third loop was not reached) -/
theorem code_restart :
    match restartR (reloadModel reload) (sessOf ins bls ovs) with
    | .ok s' => ∃ σ, Engine_restart.run reload ins bls ovs {} = .ok σ ∧ σ.inputs = s'.engine.inputs ∧
        σ.blocks = s'.engine.blocks ∧ σ.outs = s'.outs
    | .error s' => ∃ err σ rest, Engine_restart.run reload ins bls ovs {} = .error (err, σ) ∧ σ.inputs = s'.engine.inputs ∧
        σ.blocks ++ σ.rule_block :: rest = s'.engine.blocks ∧ σ.outs = [] ∧ s'.outs = ovs.map (·.2) := by
  unfold restartR Engine_restart.run sessOf
  obtain ⟨σ1, g1, i1, b1, o1⟩ := code_restartLoop1 reload ins bls ovs ins {}
  have hin : σ1.inputs = (setInputs (α := Rat) ⟨ins, ovs.map (·.1), bls⟩ (ins.map (fun _ => X.nan))).inputs := by
    rw [i1]
    simp only [setInputs]
    rw [zip_const_map (fun (p : InVar Rat × X Rat) => p.1.setValue p.2) X.nan ins]
    exact List.nil_append _
  have hb : (setInputs (α := Rat) ⟨ins, ovs.map (·.1), bls⟩ (ins.map (fun _ => X.nan))).blocks = bls := rfl
  have h2 := code_restartLoop2 reload ins bls ovs bls σ1
  have b1' : σ1.blocks = [] := b1
  rw [b1'] at h2
  simp only [g1, bind, Except.bind, hb]
  cases hm : reloadBlocks (reloadModel reload) bls [] with
  | error t =>
    obtain ⟨done, b, rest⟩ := t
    rw [hm] at h2
    obtain ⟨err, σ2, g2, k1, k2, k3, k4⟩ := h2
    simp only [g2]
    exact ⟨err, σ2, rest, rfl, k3.trans hin, by rw [k1, k2], k4.trans o1, by trivial⟩
  | ok bs =>
    rw [hm] at h2
    obtain ⟨σ2, g2, k1, k3, k4⟩ := h2
    simp only [g2]
    obtain ⟨σ3, g3, m1, m2, m3⟩ := code_restartLoop3 reload ins bls ovs ovs σ2
    simp only [g3]
    refine ⟨σ3, rfl, (m2.trans k3).trans hin, m3.trans k1, ?_⟩
    rw [m1, k4, o1]
    simp only [clearedOuts, List.map_map]
    exact List.nil_append _

/-- `reload_rules` that returns and leaves every block as it is: `restartR` is the total model `restart` -/
theorem reloadBlocks_id {α : Type} (reload : Block α → Except (Block α) (Block α)) : ∀ (l done : List (Block α)),
    (∀ b ∈ l, reload b = .ok b) → reloadBlocks reload l done = .ok (done ++ l)
  | [], done, _ => by simp [reloadBlocks]
  | b :: l, done, h => by
    simp only [reloadBlocks, h b (List.mem_cons_self ..)]
    rw [reloadBlocks_id reload l (done ++ [b]) (fun b' hb' => h b' (List.mem_cons_of_mem _ hb'))]
    simp

end Op.Session
