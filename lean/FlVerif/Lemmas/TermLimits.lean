import FlVerif.Spec.Term
import FlVerif.Base.FnReal
import FlVerif.Lemmas.Interp
import FlVerif.Lemmas.TermRange
import Mathlib.Analysis.SpecialFunctions.Pow.Asymptotics
import Mathlib.Analysis.SpecialFunctions.Exp
import Mathlib.Topology.Algebra.Order.Field
import Mathlib.Topology.Algebra.Field

/-! The values assigned at `±inf` are the limits of the documented closed forms (smooth classes, C03) -/

set_option linter.unusedSectionVars false
set_option linter.unusedVariables false

namespace TermLimits
open Spec Filter Topology
local notation "F" => Fn.real

theorem lin_atTop (a b : ℝ) (ha : 0 < a) : Tendsto (fun x : ℝ => a * (x - b)) atTop atTop :=
  Tendsto.const_mul_atTop ha (tendsto_atTop_add_const_right _ (-b) tendsto_id)
theorem lin_atTop_neg (a b : ℝ) (ha : a < 0) : Tendsto (fun x : ℝ => a * (x - b)) atTop atBot :=
  Tendsto.const_mul_atTop_of_neg ha (tendsto_atTop_add_const_right _ (-b) tendsto_id)
theorem lin_atBot (a b : ℝ) (ha : 0 < a) : Tendsto (fun x : ℝ => a * (x - b)) atBot atBot :=
  Tendsto.const_mul_atBot ha (tendsto_atBot_add_const_right _ (-b) tendsto_id)
theorem lin_atBot_neg (a b : ℝ) (ha : a < 0) : Tendsto (fun x : ℝ => a * (x - b)) atBot atTop :=
  Tendsto.const_mul_atBot_of_neg ha (tendsto_atBot_add_const_right _ (-b) tendsto_id)

/-- `h / (1 + exp (u x))` tends to `h` when `u → −∞` and to `0` when `u → +∞` -/
theorem sig_of_atBot {l : Filter ℝ} (u : ℝ → ℝ) (h : ℝ) (hu : Tendsto u l atBot) :
    Tendsto (fun x => h / (1 + Real.exp (u x))) l (𝓝 h) := by
  have h1 : Tendsto (fun x => 1 + Real.exp (u x)) l (𝓝 (1 + 0)) :=
    tendsto_const_nhds.add (Real.tendsto_exp_atBot.comp hu)
  have := (tendsto_const_nhds (x := h)).div h1 (by norm_num)
  rw [add_zero, div_one] at this
  exact this
theorem sig_of_atTop {l : Filter ℝ} (u : ℝ → ℝ) (h : ℝ) (hu : Tendsto u l atTop) :
    Tendsto (fun x => h / (1 + Real.exp (u x))) l (𝓝 0) := by
  have h1 : Tendsto (fun x => 1 + Real.exp (u x)) l atTop :=
    tendsto_atTop_add_const_left _ 1 (Real.tendsto_exp_atTop.comp hu)
  exact Tendsto.div_atTop tendsto_const_nhds h1

theorem sigmoid_limits (i sl h : ℝ) (hsl : sl ≠ 0) :
    Tendsto (Mu.sigmoid F i sl h) atTop (𝓝 (h * sigLim sl)) ∧
    Tendsto (Mu.sigmoid F i sl h) atBot (𝓝 (h * (1 - sigLim sl))) := by
  unfold Mu.sigmoid sigLim
  simp only [Fn.real]
  rcases lt_or_gt_of_ne hsl with h1 | h1
  · have hn : 0 < -sl := by linarith
    simp only [not_lt.2 h1.le, if_false, mul_zero, sub_zero, mul_one]
    exact ⟨sig_of_atTop _ h (lin_atTop (-sl) i hn), sig_of_atBot _ h (lin_atBot (-sl) i hn)⟩
  · have hn : -sl < 0 := by linarith
    simp only [h1, if_true, mul_one, sub_self, mul_zero]
    exact ⟨sig_of_atBot _ h (lin_atTop_neg (-sl) i hn), sig_of_atTop _ h (lin_atBot_neg (-sl) i hn)⟩

theorem const_atTop (f : ℝ → ℝ) (M c : ℝ) (hf : ∀ x, M < x → f x = c) : Tendsto f atTop (𝓝 c) :=
  tendsto_const_nhds.congr' (by filter_upwards [eventually_gt_atTop M] with x hx using (hf x hx).symm)
theorem const_atBot (f : ℝ → ℝ) (M c : ℝ) (hf : ∀ x, x < M → f x = c) : Tendsto f atBot (𝓝 c) :=
  tendsto_const_nhds.congr' (by filter_upwards [eventually_lt_atBot M] with x hx using (hf x hx).symm)

/-! ### smooth classes -/

theorem sq_atTop (m : ℝ) : Tendsto (fun x : ℝ => (x - m) ^ 2) atTop atTop :=
  (tendsto_pow_atTop two_ne_zero).comp (tendsto_atTop_add_const_right _ (-m) tendsto_id)
theorem sq_atBot (m : ℝ) : Tendsto (fun x : ℝ => (x - m) ^ 2) atBot atTop := by
  have e : (fun x : ℝ => (x - m) ^ 2) = (fun x : ℝ => (-x + m) ^ 2) := by ext x; ring
  rw [e]
  exact (tendsto_pow_atTop two_ne_zero).comp (tendsto_atTop_add_const_right _ m tendsto_neg_atBot_atTop)

theorem gauss_to_zero {l : Filter ℝ} (m sd h : ℝ) (hsd : sd ≠ 0) (hsq : Tendsto (fun x : ℝ => (x - m) ^ 2) l atTop) :
    Tendsto (Mu.gaussian F m sd h) l (𝓝 0) := by
  unfold Mu.gaussian
  simp only [Fn.real]
  have hc : -(1 / (2 * sd ^ 2)) < 0 := by have := sq_pos_of_ne_zero hsd; rw [neg_lt_zero]; positivity
  have hu : Tendsto (fun x : ℝ => -(x - m) ^ 2 / (2 * sd ^ 2)) l atBot := by
    have e : (fun x : ℝ => -(x - m) ^ 2 / (2 * sd ^ 2)) = (fun x : ℝ => -(1 / (2 * sd ^ 2)) * (x - m) ^ 2) := by
      ext x; ring
    rw [e]; exact Tendsto.const_mul_atTop_of_neg hc hsq
  have := (Real.tendsto_exp_atBot.comp hu).const_mul h
  rw [mul_zero] at this
  exact this

theorem gaussian_limits (m sd h : ℝ) (hsd : sd ≠ 0) :
    Tendsto (Mu.gaussian F m sd h) atTop (𝓝 0) ∧ Tendsto (Mu.gaussian F m sd h) atBot (𝓝 0) :=
  ⟨gauss_to_zero m sd h hsd (sq_atTop m), gauss_to_zero m sd h hsd (sq_atBot m)⟩

theorem gaussianProduct_limits (ma sa mb sb h : ℝ) (hsa : sa ≠ 0) (hsb : sb ≠ 0) :
    Tendsto (Mu.gaussianProduct F ma sa mb sb h) atTop (𝓝 0) ∧
    Tendsto (Mu.gaussianProduct F ma sa mb sb h) atBot (𝓝 0) := by
  constructor
  · have h0 := (gaussian_limits mb sb 1 hsb).1.const_mul h
    rw [mul_zero] at h0
    refine h0.congr' ?_
    filter_upwards [eventually_gt_atTop (max ma mb)] with x hx
    have h1 : ¬ x < ma := not_lt.2 (le_trans (le_max_left _ _) hx.le)
    have h2 : mb < x := lt_of_le_of_lt (le_max_right _ _) hx
    simp [Mu.gaussianProduct, h1, h2]
  · have h0 := (gaussian_limits ma sa 1 hsa).2.const_mul h
    rw [mul_zero] at h0
    refine h0.congr' ?_
    filter_upwards [eventually_lt_atBot (min ma mb)] with x hx
    have h1 : x < ma := lt_of_lt_of_le hx (min_le_left _ _)
    have h2 : ¬ mb < x := not_lt.2 (le_trans hx.le (min_le_right _ _))
    simp [Mu.gaussianProduct, h1, h2]

theorem spike_to_zero {l : Filter ℝ} (c w h : ℝ) (hu : Tendsto (fun x : ℝ => |10 / w * (x - c)|) l atTop) :
    Tendsto (Mu.spike F c w h) l (𝓝 0) := by
  unfold Mu.spike
  simp only [Fn.real]
  have := (Real.tendsto_exp_atBot.comp (tendsto_neg_atTop_atBot.comp hu)).const_mul h
  rw [mul_zero] at this
  exact this

theorem spike_limits (c w h : ℝ) (hw : w ≠ 0) :
    Tendsto (Mu.spike F c w h) atTop (𝓝 0) ∧ Tendsto (Mu.spike F c w h) atBot (𝓝 0) := by
  rcases lt_or_gt_of_ne hw with h1 | h1
  · have ha : 10 / w < 0 := div_neg_of_pos_of_neg (by norm_num) h1
    exact ⟨spike_to_zero c w h (tendsto_abs_atBot_atTop.comp (lin_atTop_neg _ c ha)),
      spike_to_zero c w h (tendsto_abs_atTop_atTop.comp (lin_atBot_neg _ c ha))⟩
  · have ha : 0 < 10 / w := div_pos (by norm_num) h1
    exact ⟨spike_to_zero c w h (tendsto_abs_atTop_atTop.comp (lin_atTop _ c ha)),
      spike_to_zero c w h (tendsto_abs_atBot_atTop.comp (lin_atBot _ c ha))⟩

theorem sigmoidDifference_limits (l r f rt h : ℝ) (hr : r ≠ 0) (hf : f ≠ 0) :
    Tendsto (Mu.sigmoidDifference F l r f rt h) atTop (𝓝 (h * |sigLim r - sigLim f|)) ∧
    Tendsto (Mu.sigmoidDifference F l r f rt h) atBot (𝓝 (h * |(1 - sigLim r) - (1 - sigLim f)|)) := by
  have a := sigmoid_limits l r 1 hr
  have b := sigmoid_limits rt f 1 hf
  simp only [one_mul] at a b
  exact ⟨((a.1.sub b.1).abs).const_mul h, ((a.2.sub b.2).abs).const_mul h⟩

theorem sigmoidProduct_limits (l r f rt h : ℝ) (hr : r ≠ 0) (hf : f ≠ 0) :
    Tendsto (Mu.sigmoidProduct F l r f rt h) atTop (𝓝 (h * (sigLim r * sigLim f))) ∧
    Tendsto (Mu.sigmoidProduct F l r f rt h) atBot (𝓝 (h * ((1 - sigLim r) * (1 - sigLim f)))) := by
  have a := sigmoid_limits l r 1 hr
  have b := sigmoid_limits rt f 1 hf
  simp only [one_mul] at a b
  exact ⟨(a.1.mul b.1).const_mul h, (a.2.mul b.2).const_mul h⟩

theorem concave_limits (i e h : ℝ) (hie : i ≠ e) :
    Tendsto (Mu.concave i e h) atTop (𝓝 (if i < e then h else 0)) ∧
    Tendsto (Mu.concave i e h) atBot (𝓝 (if i < e then 0 else h)) := by
  rcases lt_or_gt_of_ne hie with h1 | h1
  · simp only [h1, if_true]
    constructor
    · apply const_atTop _ e
      intro x hx
      simp [Mu.concave, not_lt.2 hx.le, not_lt.2 h1.le]
    · have hd : Tendsto (fun x : ℝ => 2 * e - i - x) atBot atTop := by
        have e1 : (fun x : ℝ => 2 * e - i - x) = (fun x : ℝ => -x + (2 * e - i)) := by ext x; ring
        rw [e1]; exact tendsto_atTop_add_const_right _ _ tendsto_neg_atBot_atTop
      have h0 := ((tendsto_const_nhds (x := e - i)).div_atTop hd).const_mul h
      rw [mul_zero] at h0
      refine h0.congr' ?_
      filter_upwards [eventually_lt_atBot e] with x hx
      simp [Mu.concave, h1.le, hx]
  · simp only [not_lt.2 h1.le, if_false]
    constructor
    · have hd : Tendsto (fun x : ℝ => -2 * e + i + x) atTop atTop := by
        have e1 : (fun x : ℝ => -2 * e + i + x) = (fun x : ℝ => x + (-2 * e + i)) := by ext x; ring
        rw [e1]; exact tendsto_atTop_add_const_right _ _ tendsto_id
      have h0 := ((tendsto_const_nhds (x := i - e)).div_atTop hd).const_mul h
      rw [mul_zero] at h0
      refine h0.congr' ?_
      filter_upwards [eventually_gt_atTop e] with x hx
      simp [Mu.concave, not_le.2 h1, h1, hx]
    · apply const_atBot _ e
      intro x hx
      simp [Mu.concave, not_le.2 h1, not_lt.2 hx.le]

theorem bell_to_zero {l : Filter ℝ} (c w sl h : ℝ) (hw : 0 < w) (hsl : 0 < sl)
    (hu : Tendsto (fun x : ℝ => |x - c| / w) l atTop) : Tendsto (Mu.bell F c w sl h) l (𝓝 0) := by
  have h2 : 0 < 2 * sl := by linarith
  have hp : Tendsto (fun x : ℝ => (|x - c| / w) ^ (2 * sl)) l atTop := (tendsto_rpow_atTop h2).comp hu
  have hden : Tendsto (fun x : ℝ => 1 + (|x - c| / w) ^ (2 * sl)) l atTop := tendsto_atTop_add_const_left _ 1 hp
  have h0 : Tendsto (fun x : ℝ => h / (1 + (|x - c| / w) ^ (2 * sl))) l (𝓝 0) := Tendsto.div_atTop tendsto_const_nhds hden
  refine h0.congr' ?_
  filter_upwards [hu.eventually_gt_atTop 0] with x hx
  simp [Mu.bell, powNN, h2.ne', hx.ne', Fn.real]

theorem bell_limits (c w sl h : ℝ) (hw : 0 < w) (hsl : 0 ≤ sl) :
    Tendsto (Mu.bell F c w sl h) atTop (𝓝 (if sl = 0 then h / 2 else 0)) ∧
    Tendsto (Mu.bell F c w sl h) atBot (𝓝 (if sl = 0 then h / 2 else 0)) := by
  by_cases h0 : sl = 0
  · subst h0
    have : Mu.bell F c w 0 h = fun _ => h / 2 := by
      ext x; simp [Mu.bell, powNN]; norm_num
    simp only [if_true, this]
    exact ⟨tendsto_const_nhds, tendsto_const_nhds⟩
  · have hpos : 0 < sl := lt_of_le_of_ne hsl (Ne.symm h0)
    simp only [h0, if_false]
    have hwi : 0 < 1 / w := by positivity
    have e1 : (fun x : ℝ => |x - c| / w) = (fun x : ℝ => 1 / w * |x - c|) := by ext x; ring
    constructor
    · apply bell_to_zero c w sl h hw hpos
      rw [e1]
      exact Tendsto.const_mul_atTop hwi (tendsto_abs_atTop_atTop.comp (tendsto_atTop_add_const_right _ (-c) tendsto_id))
    · apply bell_to_zero c w sl h hw hpos
      rw [e1]
      exact Tendsto.const_mul_atTop hwi (tendsto_abs_atBot_atTop.comp (tendsto_atBot_add_const_right _ (-c) tendsto_id))

/-! ### classes that are constant beyond their last breakpoint -/

theorem arc_limits (s e h : ℝ) (hse : s ≠ e) :
    Tendsto (Mu.arc F s e h) atTop (𝓝 (if s < e then h else 0)) ∧
    Tendsto (Mu.arc F s e h) atBot (𝓝 (if s < e then 0 else h)) := by
  constructor
  · apply const_atTop _ (max s e)
    intro x hx
    have h1 : s < x := lt_of_le_of_lt (le_max_left _ _) hx
    have h2 : e < x := lt_of_le_of_lt (le_max_right _ _) hx
    simp [Mu.arc, not_le.2 h1, not_le.2 h2, not_lt.2 h2.le, h2]
  · apply const_atBot _ (min s e)
    intro x hx
    have h1 : x < s := lt_of_lt_of_le hx (min_le_left _ _)
    have h2 : x < e := lt_of_lt_of_le hx (min_le_right _ _)
    rcases lt_or_gt_of_ne hse with h3 | h3
    · simp [Mu.arc, not_le.2 h1, not_le.2 h2, not_lt.2 h2.le, h2, h3, not_lt.2 h3.le]
    · simp [Mu.arc, not_le.2 h1, not_le.2 h2, not_lt.2 h2.le, h2, h3, not_lt.2 h3.le]

theorem binary_limits (s : ℝ) (d : X ℝ) (h : ℝ) (hd : d = .pinf ∨ d = .ninf) :
    Tendsto (Mu.binary s d h) atTop (𝓝 (if d = .pinf then h else 0)) ∧
    Tendsto (Mu.binary s d h) atBot (𝓝 (if d = .ninf then h else 0)) := by
  constructor
  · apply const_atTop _ s
    intro x hx
    rcases hd with rfl | rfl <;> simp [Mu.binary, hx.le, not_le.2 hx]
  · apply const_atBot _ s
    intro x hx
    rcases hd with rfl | rfl <;> simp [Mu.binary, hx.le, not_le.2 hx]

theorem cosine_limits (c w h : ℝ) :
    Tendsto (Mu.cosine F c w h) atTop (𝓝 0) ∧ Tendsto (Mu.cosine F c w h) atBot (𝓝 0) := by
  constructor
  · apply const_atTop _ (c + w / 2)
    intro x hx; simp [Mu.cosine, not_le.2 hx]
  · apply const_atBot _ (c - w / 2)
    intro x hx; simp [Mu.cosine, not_le.2 hx]

theorem ramp_limits (s e h : ℝ) (hse : s ≠ e) :
    Tendsto (Mu.ramp s e h) atTop (𝓝 (if s < e then h else 0)) ∧
    Tendsto (Mu.ramp s e h) atBot (𝓝 (if s < e then 0 else h)) := by
  constructor
  · apply const_atTop _ (max s e)
    intro x hx
    have h1 : s < x := lt_of_le_of_lt (le_max_left _ _) hx
    have h2 : e < x := lt_of_le_of_lt (le_max_right _ _) hx
    rcases lt_or_gt_of_ne hse with h3 | h3
    · simp [Mu.ramp, not_lt.2 h1.le, not_lt.2 h2.le, h2.le, h3]
    · simp [Mu.ramp, not_lt.2 h1.le, not_lt.2 h2.le, not_le.2 h2, not_lt.2 h3.le]
  · apply const_atBot _ (min s e)
    intro x hx
    have h1 : x < s := lt_of_lt_of_le hx (min_le_left _ _)
    have h2 : x < e := lt_of_lt_of_le hx (min_le_right _ _)
    rcases lt_or_gt_of_ne hse with h3 | h3
    · simp [Mu.ramp, not_lt.2 h1.le, not_lt.2 h2.le, not_le.2 h2, h3, not_lt.2 h3.le]
    · simp [Mu.ramp, not_lt.2 h1.le, not_lt.2 h2.le, h2.le, h3, not_lt.2 h3.le]

theorem rectangle_limits (s e h : ℝ) :
    Tendsto (Mu.rectangle s e h) atTop (𝓝 0) ∧ Tendsto (Mu.rectangle s e h) atBot (𝓝 0) := by
  constructor
  · apply const_atTop _ (max s e)
    intro x hx; simp [Mu.rectangle, not_le.2 hx]
  · apply const_atBot _ (min s e)
    intro x hx; simp [Mu.rectangle, not_le.2 hx]

theorem semiEllipse_limits (s e h : ℝ) :
    Tendsto (Mu.semiEllipse F s e h) atTop (𝓝 0) ∧ Tendsto (Mu.semiEllipse F s e h) atBot (𝓝 0) := by
  constructor
  · apply const_atTop _ (max s e)
    intro x hx; simp [Mu.semiEllipse, not_le.2 hx]
  · apply const_atBot _ (min s e)
    intro x hx; simp [Mu.semiEllipse, not_le.2 hx]

theorem sShape_limits (s e h : ℝ) (hse : s < e) :
    Tendsto (Mu.sShape s e h) atTop (𝓝 h) ∧ Tendsto (Mu.sShape s e h) atBot (𝓝 0) := by
  constructor
  · apply const_atTop _ e
    intro x hx
    have h1 : ¬ x ≤ s := by intro h; linarith
    have h2 : ¬ x ≤ (s + e) / 2 := by intro h; linarith
    simp [Mu.sShape, h1, h2, not_lt.2 hx.le]
  · apply const_atBot _ s
    intro x hx; simp [Mu.sShape, hx.le]

theorem zShape_limits (s e h : ℝ) (hse : s < e) :
    Tendsto (Mu.zShape s e h) atTop (𝓝 0) ∧ Tendsto (Mu.zShape s e h) atBot (𝓝 h) := by
  constructor
  · apply const_atTop _ e
    intro x hx
    have h1 : ¬ x ≤ s := by intro h; linarith
    have h2 : ¬ x < (s + e) / 2 := by intro h; linarith
    simp [Mu.zShape, h1, h2, not_lt.2 hx.le]
  · apply const_atBot _ s
    intro x hx; simp [Mu.zShape, hx.le]

theorem piShape_limits (a b c d h : ℝ) (hab : a < b) (hcd : c < d) :
    Tendsto (Mu.piShape a b c d h) atTop (𝓝 0) ∧ Tendsto (Mu.piShape a b c d h) atBot (𝓝 0) := by
  constructor
  · apply const_atTop _ d
    intro x hx
    have h1 : ¬ x ≤ c := by intro h; linarith
    have h2 : ¬ x < (c + d) / 2 := by intro h; linarith
    simp [Mu.piShape, Mu.zShape, h1, h2, not_lt.2 hx.le]
  · apply const_atBot _ a
    intro x hx; simp [Mu.piShape, Mu.sShape, hx.le]

theorem triangle_limits (a : X ℝ) (b : ℝ) (c : X ℝ) (h : ℝ) (ha : LeftEnd a b) (hc : RightEnd b c) :
    Tendsto (Mu.triangle a b c h) atTop (𝓝 (if c = .pinf then h else 0)) ∧
    Tendsto (Mu.triangle a b c h) atBot (𝓝 (if a = .ninf then h else 0)) := by
  constructor
  · rcases hc with rfl | ⟨c', rfl, hbc⟩
    · apply const_atTop _ b
      intro x hx
      rcases ha with rfl | ⟨a', rfl, hab⟩
      · simp [Mu.triangle, X.lt, hx]
      · have : ¬ x < a' := by intro h; linarith
        simp [Mu.triangle, X.lt, hx, this]
    · apply const_atTop _ c'
      intro x hx; simp [Mu.triangle, X.lt, hx]
  · rcases ha with rfl | ⟨a', rfl, hab⟩
    · apply const_atBot _ b
      intro x hx
      rcases hc with rfl | ⟨c', rfl, hbc⟩
      · simp [Mu.triangle, X.lt, hx]
      · have : ¬ c' < x := by intro h; linarith
        simp [Mu.triangle, X.lt, hx, this]
    · apply const_atBot _ a'
      intro x hx; simp [Mu.triangle, X.lt, hx]

theorem trapezoid_limits (a : X ℝ) (b c : ℝ) (d : X ℝ) (h : ℝ) (ha : LeftEnd a b) (hbc : b ≤ c) (hd : RightEnd c d) :
    Tendsto (Mu.trapezoid a b c d h) atTop (𝓝 (if d = .pinf then h else 0)) ∧
    Tendsto (Mu.trapezoid a b c d h) atBot (𝓝 (if a = .ninf then h else 0)) := by
  constructor
  · rcases hd with rfl | ⟨d', rfl, hcd⟩
    · apply const_atTop _ c
      intro x hx
      rcases ha with rfl | ⟨a', rfl, hab⟩
      · simp [Mu.trapezoid, X.lt, hx]
      · have : ¬ x < a' := by intro h; linarith
        simp [Mu.trapezoid, X.lt, hx, this]
    · apply const_atTop _ d'
      intro x hx; simp [Mu.trapezoid, X.lt, hx]
  · rcases ha with rfl | ⟨a', rfl, hab⟩
    · apply const_atBot _ b
      intro x hx
      rcases hd with rfl | ⟨d', rfl, hcd⟩
      · simp [Mu.trapezoid, X.lt, hx]
      · have : ¬ d' < x := by intro h; linarith
        simp [Mu.trapezoid, X.lt, hx, this]
    · apply const_atBot _ a'
      intro x hx; simp [Mu.trapezoid, X.lt, hx]

theorem lastY_append (d : ℝ) (l : List (ℝ × ℝ)) (a : ℝ × ℝ) : Op.lastY d (l ++ [a]) = a.2 := by
  induction l generalizing d with
  | nil => rfl
  | cons q l ih => simpa [Op.lastY] using ih q.2

theorem discrete_limits (pts : List (ℝ × ℝ)) (h : ℝ) (hp : DiscreteOk pts) :
    Tendsto (Mu.discrete pts h) atTop (𝓝 (h * Op.lastY 0 pts)) ∧
    Tendsto (Mu.discrete pts h) atBot (𝓝 (h * Op.firstY pts)) := by
  have hinc := (TermRange.discreteOk_incX pts hp).1
  constructor
  · rcases List.eq_nil_or_concat pts with rfl | ⟨l, a, rfl⟩
    · simp [DiscreteOk] at hp
    · rw [List.concat_eq_append] at *
      apply const_atTop _ a.1
      intro x hx
      simp only [Mu.discrete, Op.interp_last l a x hinc hx.le, lastY_append]
  · cases pts with
    | nil => simp [DiscreteOk] at hp
    | cons p l =>
      apply const_atBot _ p.1
      intro x hx
      simp only [Mu.discrete, Op.interp_first p l x hx, Op.firstY]

end TermLimits
