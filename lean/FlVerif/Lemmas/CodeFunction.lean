import FlVerif.Gen.CodeFunction
import FlVerif.Op.ShuntingYard
import FlVerif.Lemmas.Expr
import FlVerif.Lemmas.CodeRule

/-! # Tie A for `Function.infix_to_postfix`: the definition translated from the current source equals the model
    `Op.toPostfix` (the shunting-yard loop on classified tokens)

The generated code works on strings (`stack`, `queue` hold tokens as written), the model on classified tokens
`Lang.Tok`.  The two are related by `Lang.classify tbl`: at every point of the loop the model's queue and stack are the
images of the code's queue and stack under `classify tbl`.  The table hypothesis `Table.NoPunct` ("(", ")" and ","
are not element names) is what the real code relies on when it compares `stack[-1]` with `"("`. -/

namespace Lang

/-- "(", ")" and "," are not names of elements of the table -/
def Table.NoPunct (tbl : Table) : Prop :=
  tbl.lookup "(" = none ∧ tbl.lookup ")" = none ∧ tbl.lookup "," = none

instance (tbl : Table) : Decidable tbl.NoPunct := by unfold Table.NoPunct; infer_instance

end Lang

namespace CodeFn
open Lang Op Gen.Code

theorem classify_str (tbl : Table) (s : String) : (classify tbl s).str = s := by
  unfold classify
  cases h : tbl.lookup s with
  | some e => simp only [Tok.str, Table.lookup_name h]
  | none =>
    by_cases h1 : s = "("
    · simp [h1, Tok.str]
    · by_cases h2 : s = ")"
      · simp [h2, Tok.str]
      · by_cases h3 : s = ","
        · simp [h3, Tok.str]
        · simp [h1, h2, h3, Tok.str]

theorem map_classify_str (tbl : Table) (l : List String) : (l.map (classify tbl)).map Tok.str = l := by
  induction l with
  | nil => rfl
  | cons s l ih => simp only [List.map_cons, classify_str, ih]

theorem classify_of_lookup {tbl : Table} {s : String} {e : Elem} (h : tbl.lookup s = some e) : classify tbl s = .el e := by
  simp only [classify, h]

theorem classify_lp {tbl : Table} (hT : tbl.NoPunct) : classify tbl "(" = .lp := by
  simp [classify, hT.1]

theorem classify_rp {tbl : Table} (hT : tbl.NoPunct) : classify tbl ")" = .rp := by
  simp [classify, hT.2.1]

theorem classify_comma {tbl : Table} (hT : tbl.NoPunct) : classify tbl "," = .comma := by
  simp [classify, hT.2.2]

theorem classify_operand {tbl : Table} {s : String} (h : tbl.lookup s = none) (h1 : s ≠ "(") (h2 : s ≠ ")")
    (h3 : s ≠ ",") : classify tbl s = .operand s := by
  simp [classify, h, h1, h2, h3]

theorem classify_eq_lp {tbl : Table} (hT : tbl.NoPunct) (s : String) : classify tbl s = .lp ↔ s = "(" := by
  constructor
  · intro h
    have := classify_str tbl s
    rw [h] at this
    exact this.symm
  · intro h; subst h; exact classify_lp hT

theorem classify_eq_rp {tbl : Table} (hT : tbl.NoPunct) (s : String) : classify tbl s = .rp ↔ s = ")" := by
  constructor
  · intro h
    have := classify_str tbl s
    rw [h] at this
    exact this.symm
  · intro h; subst h; exact classify_rp hT

/-! ## `while stack and stack[-1] != "(": queue.append(stack.pop())`  (loops 2 and 4) -/

/-- the loop moves the tokens above the first "(" to the queue -/
theorem code_loop2 (tbl : Table) (formula : String) : ∀ (ss : List String) (fuel : Nat) (σ : infix_to_postfix.S),
    σ.stack = ss → ss.length < fuel →
    ∃ σ', infix_to_postfix.loop2 tbl formula fuel σ = .ok σ' ∧ σ'.token = σ.token ∧
      σ'.queue = σ.queue ++ ss.takeWhile (· != "(") ∧ σ'.stack = ss.dropWhile (· != "(")
  | _, 0, _, _, hf => absurd hf (Nat.not_lt_zero _)
  | [], fuel + 1, σ, hs, _ => by
    simp only [infix_to_postfix.loop2, hs, List.isEmpty_nil, Bool.not_true, Bool.false_eq_true, if_false, bind,
      Except.bind]
    exact ⟨σ, rfl, rfl, by simp, by simp [hs]⟩
  | s :: ss, fuel + 1, σ, hs, hf => by
    by_cases h : s = "("
    · simp only [infix_to_postfix.loop2, hs, List.isEmpty_cons, Bool.not_false, if_true, Py.top_cons, bind, Except.bind, h,
        bne_self_eq_false, Bool.false_eq_true, if_false]
      exact ⟨σ, rfl, rfl, by simp, by simp [hs, h]⟩
    · have hb : (s != "(") = true := by simp [h]
      simp only [infix_to_postfix.loop2, hs, List.isEmpty_cons, Bool.not_false, if_true, Py.top_cons, bind, Except.bind,
        hb, Py.popTop_cons]
      obtain ⟨σ', h1, h2, h3, h4⟩ := code_loop2 tbl formula ss fuel
        { σ with stack := ss, queue := σ.queue ++ [s] } rfl (Nat.lt_of_succ_lt_succ hf)
      exact ⟨σ', h1, h2, by simp [h3, hb], by simp [h4, hb]⟩

/-- loop 4 is the same loop (the `)` branch) -/
theorem code_loop4 (tbl : Table) (formula : String) : ∀ (ss : List String) (fuel : Nat) (σ : infix_to_postfix.S),
    σ.stack = ss → ss.length < fuel →
    ∃ σ', infix_to_postfix.loop4 tbl formula fuel σ = .ok σ' ∧ σ'.token = σ.token ∧
      σ'.queue = σ.queue ++ ss.takeWhile (· != "(") ∧ σ'.stack = ss.dropWhile (· != "(")
  | _, 0, _, _, hf => absurd hf (Nat.not_lt_zero _)
  | [], fuel + 1, σ, hs, _ => by
    simp only [infix_to_postfix.loop4, hs, List.isEmpty_nil, Bool.not_true, Bool.false_eq_true, if_false, bind,
      Except.bind]
    exact ⟨σ, rfl, rfl, by simp, by simp [hs]⟩
  | s :: ss, fuel + 1, σ, hs, hf => by
    by_cases h : s = "("
    · simp only [infix_to_postfix.loop4, hs, List.isEmpty_cons, Bool.not_false, if_true, Py.top_cons, bind, Except.bind, h,
        bne_self_eq_false, Bool.false_eq_true, if_false]
      exact ⟨σ, rfl, rfl, by simp, by simp [hs, h]⟩
    · have hb : (s != "(") = true := by simp [h]
      simp only [infix_to_postfix.loop4, hs, List.isEmpty_cons, Bool.not_false, if_true, Py.top_cons, bind, Except.bind,
        hb, Py.popTop_cons]
      obtain ⟨σ', h1, h2, h3, h4⟩ := code_loop4 tbl formula ss fuel
        { σ with stack := ss, queue := σ.queue ++ [s] } rfl (Nat.lt_of_succ_lt_succ hf)
      exact ⟨σ', h1, h2, by simp [h3, hb], by simp [h4, hb]⟩

/-- the model's `popToParen` on the classified stack is the split of the stack of strings at the first "(" -/
theorem popToParen_map {tbl : Table} (hT : tbl.NoPunct) : ∀ (ss : List String),
    popToParen (ss.map (classify tbl)) =
      if ss.dropWhile (· != "(") = [] then none
      else some ((ss.takeWhile (· != "(")).map (classify tbl), (ss.dropWhile (· != "(")).map (classify tbl))
  | [] => by simp [popToParen]
  | s :: ss => by
    by_cases h : s = "("
    · subst h
      simp [popToParen, classify_lp hT]
    · have hb : (s != "(") = true := by simp [h]
      have hne : classify tbl s ≠ .lp := fun hc => h ((classify_eq_lp hT s).1 hc)
      have ih := popToParen_map hT ss
      simp only [List.map_cons, List.dropWhile_cons, List.takeWhile_cons, hb, if_true]
      cases hc : classify tbl s with
      | lp => exact absurd hc hne
      | operand w => simp only [popToParen, ih]; split <;> simp
      | el e => simp only [popToParen, ih]; split <;> simp
      | comma => simp only [popToParen, ih]; split <;> simp
      | rp => simp only [popToParen, ih]; split <;> simp

/-- a non-empty rest of `dropWhile (· != "(")` starts with "(" -/
theorem dropWhile_head : ∀ (ss : List String) (x : String) (r : List String),
    ss.dropWhile (· != "(") = x :: r → x = "("
  | [], _, _, h => by simp at h
  | s :: ss, x, r, h => by
    by_cases hs : s = "("
    · simp [hs] at h; exact h.1.symm
    · have hb : (s != "(") = true := by simp [hs]
      simp only [List.dropWhile_cons, hb, if_true] at h
      exact dropWhile_head ss x r h

/-! ## the operator loop (loop 3) -/

theorem ok_bind {α β : Type} (a : α) (f : α → Py.M β) : ((Except.ok a : Py.M α) >>= f) = f a := rfl
theorem err_bind {α β : Type} (e : Py.Err) (f : α → Py.M β) : ((Except.error e : Py.M α) >>= f) = .error e := rfl

/-- the shape of the compiled condition `(a and b) or (c and d)` followed by the branch on it -/
theorem cond_shape {β : Type} (A B C D : Bool) (P Q : Py.M β) :
    (((if A = true then Except.ok B else Except.ok false : Py.M Bool) >>= fun c =>
        if c = true then Except.ok true else (if C = true then Except.ok D else Except.ok false)) >>= fun c =>
      if c = true then P else Q) = if ((A && B) || (C && D)) = true then P else Q := by
  cases A <;> cases B <;> cases C <;> cases D <;> rfl

theorem popOps_nonel {tbl : Table} {s : String} (h : tbl.lookup s = none) (e : Elem) (st : List Tok) :
    popOps e (classify tbl s :: st) = ([], classify tbl s :: st) := by
  unfold classify; rw [h]; simp only
  by_cases h1 : s = "(" <;> by_cases h2 : s = ")" <;> by_cases h3 : s = "," <;>
    simp [h1, h2, h3, popOps]

theorem code_loop3 (tbl : Table) (formula : String) (e : Elem) : ∀ (ss : List String) (fuel : Nat)
    (σ : infix_to_postfix.S), σ.stack = ss → σ.element = some e → ss.length < fuel →
    ∃ σ', infix_to_postfix.loop3 tbl formula fuel σ = .ok σ' ∧ σ'.token = σ.token ∧
      σ'.queue.map (classify tbl) = σ.queue.map (classify tbl) ++ (popOps e (ss.map (classify tbl))).1 ∧
      σ'.stack.map (classify tbl) = (popOps e (ss.map (classify tbl))).2
  | _, 0, _, _, _, hf => absurd hf (Nat.not_lt_zero _)
  | [], fuel + 1, σ, hs, he, _ => by
    simp only [infix_to_postfix.loop3, hs, List.isEmpty_nil, Bool.not_true, Bool.false_eq_true, if_false, ok_bind]
    exact ⟨σ, rfl, rfl, by simp [popOps], by simp [hs, popOps]⟩
  | s :: ss, fuel + 1, σ, hs, he, hf => by
    cases hl : tbl.lookup s with
    | none =>
      simp only [infix_to_postfix.loop3, hs, List.isEmpty_cons, Bool.not_false, if_true, Py.top_cons, ok_bind,
        hl, Option.isSome_none, Bool.false_eq_true, if_false]
      exact ⟨σ, rfl, rfl, by simp [popOps_nonel hl], by simp [hs, popOps_nonel hl]⟩
    | some top =>
      have hz : ((0 : Nat) : Int) = 0 := rfl
      simp only [infix_to_postfix.loop3, hs, List.isEmpty_cons, Bool.not_false, if_true, Py.top_cons, ok_bind,
        hl, Option.isSome_some, Py.lookupElem, he, Py.deref_some, cond_shape, hz, Py.popTop_cons]
      have hpc : ((decide (e.assoc < 0) && decide (e.prec ≤ top.prec)) || (decide (e.assoc > 0) && decide (e.prec < top.prec)))
          = popCond e top := rfl
      rw [hpc]
      simp only [List.map_cons, classify_of_lookup hl, popOps]
      cases hp : popCond e top with
      | false =>
        simp only [Bool.false_eq_true, if_false]
        exact ⟨_, rfl, rfl, by simp, by simp [classify_of_lookup hl]⟩
      | true =>
        simp only [if_true]
        obtain ⟨σ', h1, h2, h3, h4⟩ := code_loop3 tbl formula e ss fuel
          { σ with top := top, stack := ss, queue := σ.queue ++ [s], element := some e } rfl rfl
          (Nat.lt_of_succ_lt_succ hf)
        refine ⟨σ', ?_, h2, ?_, h4⟩
        · rw [← h1]
        · rw [h3]; simp [classify_of_lookup hl]

/-! ## the final drain (loop 5) -/

theorem not_paren {tbl : Table} (hT : tbl.NoPunct) (s : String) :
    (classify tbl s != .lp && classify tbl s != .rp) = !(["(", ")"].contains s) := by
  by_cases h1 : s = "("
  · subst h1; simp [classify_lp hT]
  · by_cases h2 : s = ")"
    · subst h2; simp [classify_rp hT]
    · have n1 : classify tbl s ≠ .lp := fun h => h1 ((classify_eq_lp hT s).1 h)
      have n2 : classify tbl s ≠ .rp := fun h => h2 ((classify_eq_rp hT s).1 h)
      simp [h1, h2, n1, n2]

theorem code_loop5 {tbl : Table} (hT : tbl.NoPunct) (formula : String) : ∀ (ss : List String) (fuel : Nat)
    (σ : infix_to_postfix.S), σ.stack = ss → ss.length < fuel →
    if (ss.map (classify tbl)).all (fun t => t != .lp && t != .rp) then
      ∃ σ', infix_to_postfix.loop5 tbl formula fuel σ = .ok σ' ∧ σ'.queue = σ.queue ++ ss
    else infix_to_postfix.loop5 tbl formula fuel σ = .error .syntax
  | _, 0, _, _, hf => absurd hf (Nat.not_lt_zero _)
  | [], fuel + 1, σ, hs, _ => by
    simp only [infix_to_postfix.loop5, hs, List.isEmpty_nil, Bool.not_true, Bool.false_eq_true, if_false, List.map_nil,
      List.all_nil, if_true]
    exact ⟨σ, rfl, by simp⟩
  | s :: ss, fuel + 1, σ, hs, hf => by
    simp only [List.map_cons, List.all_cons, not_paren hT s]
    simp only [infix_to_postfix.loop5, hs, List.isEmpty_cons, Bool.not_false, if_true, Py.top_cons, ok_bind, Py.popTop_cons]
    cases hc : ["(", ")"].contains s with
    | true => simp
    | false =>
      simp only [Bool.false_eq_true, if_false, Bool.not_false, Bool.true_and]
      have ih := code_loop5 hT formula ss fuel { σ with stack := ss, queue := σ.queue ++ [s] } rfl
        (Nat.lt_of_succ_lt_succ hf)
      split
      · rename_i hall
        rw [if_pos hall] at ih
        obtain ⟨σ', h1, h2⟩ := ih
        exact ⟨σ', h1, by simp [h2]⟩
      · rename_i hall
        rw [if_neg hall] at ih
        exact ih


/-! ## the steps of the model for "," and ")" once `popToParen` is known -/

theorem sy_comma_none {ts q st : List Tok} (h : popToParen st = none) : sy (.comma :: ts) q st = .error .syntax := by
  simp only [sy, h]

theorem sy_comma_some {ts q st a r : List Tok} (h : popToParen st = some (a, r)) :
    sy (.comma :: ts) q st = sy ts (q ++ a) r := by
  simp only [sy, h]

theorem sy_rp_none {ts q st : List Tok} (h : popToParen st = none) : sy (.rp :: ts) q st = .error .syntax := by
  simp only [sy, h]

theorem sy_rp_nil {ts q st a : List Tok} (h : popToParen st = some (a, [.lp])) :
    sy (.rp :: ts) q st = sy ts (q ++ a) [] := by
  simp only [sy, h]

theorem sy_rp_el {ts q st a r : List Tok} {f : Elem} (h : popToParen st = some (a, .lp :: .el f :: r)) :
    sy (.rp :: ts) q st = if f.isOp then sy ts (q ++ a) (.el f :: r) else sy ts (q ++ a ++ [.el f]) r := by
  simp only [sy, h]

theorem classify_nonel {tbl : Table} {y : String} (hl : tbl.lookup y = none) (f : Elem) :
    classify tbl y ≠ .el f := by
  intro hc
  unfold classify at hc
  rw [hl] at hc
  simp only at hc
  by_cases h1 : y = "(" <;> by_cases h2 : y = ")" <;> by_cases h3 : y = "," <;> simp [h1, h2, h3] at hc

theorem sy_rp_tok {t : Tok} (ht : ∀ f, t ≠ .el f) {ts q st a r : List Tok}
    (h : popToParen st = some (a, .lp :: t :: r)) : sy (.rp :: ts) q st = sy ts (q ++ a) (t :: r) := by
  cases t with
  | el f => exact absurd rfl (ht f)
  | operand w => simp only [sy, h]
  | comma => simp only [sy, h]
  | lp => simp only [sy, h]
  | rp => simp only [sy, h]

theorem sy_rp_nonel {tbl : Table} {y : String} (hl : tbl.lookup y = none) {ts q st a r : List Tok}
    (h : popToParen st = some (a, .lp :: classify tbl y :: r)) :
    sy (.rp :: ts) q st = sy ts (q ++ a) (classify tbl y :: r) :=
  sy_rp_tok (classify_nonel hl) h

/-! ## the token loop (loop 1) followed by the drain -/

/-- what the model's loop and the translated loop have in common: the exception class, or the final queue -/
def Agree (r : Except ErrKind (List Tok)) (g : Py.M infix_to_postfix.S) : Prop :=
  match r with
  | .error e => g = .error e.toPy
  | .ok out => ∃ σ', g = .ok σ' ∧ σ'.queue = out.map Tok.str

theorem code_loop1 {tbl : Table} (hT : tbl.NoPunct) (formula : String) : ∀ (ts : List String)
    (σ : infix_to_postfix.S) (q st : List Tok), q = σ.queue.map (classify tbl) → st = σ.stack.map (classify tbl) →
    Agree (sy (ts.map (classify tbl)) q st)
      (infix_to_postfix.loop1 tbl formula ts σ >>= fun σ => infix_to_postfix.loop5 tbl formula (σ.stack.length + 1) σ)
  | [], σ, q, st, hq, hst => by
    subst hq hst
    simp only [infix_to_postfix.loop1, ok_bind, List.map_nil, sy]
    have h5 := code_loop5 hT formula σ.stack (σ.stack.length + 1) σ rfl (Nat.lt_succ_self _)
    split
    · rename_i hall
      rw [if_pos hall] at h5
      obtain ⟨σ', h1, h2⟩ := h5
      exact ⟨σ', h1, by rw [h2, List.map_append, map_classify_str, map_classify_str]⟩
    · rename_i hall
      rw [if_neg hall] at h5
      exact h5
  | t :: ts, σ, q, st, hq, hst => by
    cases hl : tbl.lookup t with
    | some e =>
      have hcomma : t ≠ "," := fun h => by rw [h, hT.2.2] at hl; cases hl
      simp only [List.map_cons, classify_of_lookup hl, sy]
      simp only [infix_to_postfix.loop1, hl, Option.isSome_some, Bool.not_true, Bool.false_and, Bool.false_eq_true, if_false,
        if_true, Py.deref_some, ok_bind]
      cases hop : e.isOp with
      | false =>
        simp only [Bool.not_false, if_true, Bool.false_eq_true, if_false]
        exact code_loop1 hT formula ts _ _ _ (by simp [hq]) (by simp [hst, classify_of_lookup hl])
      | true =>
        simp only [Bool.not_true, Bool.false_eq_true, if_false, beq_iff_eq, hcomma, if_true]
        obtain ⟨σ', h1, h2, h3, h4⟩ := code_loop3 tbl formula e σ.stack (σ.stack.length + 1)
          { σ with token := t, element := some e, is_operand := false } rfl rfl (Nat.lt_succ_self _)
        rw [h1, ok_bind]
        exact code_loop1 hT formula ts _ _ _ (by simp [hq, h3, hst]) (by simp [hst, h4, h2, classify_of_lookup hl])
    | none =>
      simp only [List.map_cons]
      simp only [infix_to_postfix.loop1, hl, Option.isSome_none, Bool.not_false, Bool.true_and, Bool.false_eq_true, if_false,
        ok_bind]
      by_cases h1 : t = "("
      · subst h1
        have c1 : ["(", ")", ","].contains "(" = true := by decide
        have c2 : ("(" == ",") = false := by decide
        simp only [classify_lp hT, sy, c1, c2, Bool.not_true, Bool.false_eq_true, if_false, beq_self_eq_true, if_true]
        exact code_loop1 hT formula ts _ _ _ (by simp [hq]) (by simp [hst, classify_lp hT])
      · by_cases h2 : t = ")"
        · subst h2
          have c1 : ["(", ")", ","].contains ")" = true := by decide
          have c2 : (")" == ",") = false := by decide
          have c3 : (")" == "(") = false := by decide
          simp only [classify_rp hT, c1, c2, c3, Bool.not_true, Bool.false_eq_true, if_false, beq_self_eq_true, if_true]
          obtain ⟨σ', e1, e2, e3, e4⟩ := code_loop4 tbl formula σ.stack (σ.stack.length + 1)
            { σ with token := ")", element := none, is_operand := false } rfl (Nat.lt_succ_self _)
          rw [e1, ok_bind]
          have hp := popToParen_map hT σ.stack
          rw [← hst] at hp
          simp only at e3
          cases hd : List.dropWhile (fun x => x != "(") σ.stack with
          | nil =>
            rw [hd] at e4 hp
            simp only [if_true] at hp
            rw [sy_rp_none hp]
            simp only [e4, List.isEmpty_nil, Bool.not_true, Bool.not_false, if_true, ok_bind, err_bind, Agree, ErrKind.toPy]
          | cons x r =>
            have hx := dropWhile_head _ _ _ hd
            subst hx
            rw [hd] at e4 hp
            simp only [reduceCtorEq, if_false, List.map_cons, classify_lp hT] at hp
            simp only [e4, List.isEmpty_cons, Bool.not_false, Bool.not_true, Bool.false_eq_true, if_false, Py.top_cons, ok_bind,
              bne_self_eq_false, Py.popTop_cons]
            cases r with
            | nil =>
              rw [sy_rp_nil hp]
              simp only [List.isEmpty_nil, Bool.not_true, Bool.false_eq_true, if_false, ok_bind]
              exact code_loop1 hT formula ts _ _ _ (by simp [hq, e3]) (by simp)
            | cons y r =>
              simp only [List.isEmpty_cons, Bool.not_false, if_true, Py.top_cons, ok_bind]
              cases hy : tbl.lookup y with
              | none =>
                rw [sy_rp_nonel hy hp]
                simp only [Option.isSome_none, Bool.false_eq_true, if_false]
                exact code_loop1 hT formula ts _ _ _ (by simp [hq, e3]) (by simp)
              | some f =>
                simp only [List.map_cons, classify_of_lookup hy] at hp
                rw [sy_rp_el hp]
                simp only [Option.isSome_some, if_true, Py.lookupElem, hy, ok_bind, Py.popTop_cons]
                cases hf : f.isOp with
                | true =>
                  simp only [Bool.not_true, Bool.false_eq_true, if_false, if_true]
                  exact code_loop1 hT formula ts _ _ _ (by simp [hq, e3]) (by simp [classify_of_lookup hy])
                | false =>
                  simp only [Bool.not_false, Bool.false_eq_true, if_false, if_true]
                  exact code_loop1 hT formula ts _ _ _ (by simp [hq, e3, classify_of_lookup hy]) (by simp)
        · by_cases h3 : t = ","
          · subst h3
            have c1 : ["(", ")", ","].contains "," = true := by decide
            simp only [classify_comma hT, c1, Bool.not_true, Bool.false_eq_true, if_false, beq_self_eq_true, if_true]
            obtain ⟨σ', e1, e2, e3, e4⟩ := code_loop2 tbl formula σ.stack (σ.stack.length + 1)
              { σ with token := ",", element := none, is_operand := false } rfl (Nat.lt_succ_self _)
            rw [e1, ok_bind]
            have hp := popToParen_map hT σ.stack
            rw [← hst] at hp
            simp only at e3
            cases hd : List.dropWhile (fun x => x != "(") σ.stack with
            | nil =>
              rw [hd] at e4 hp
              simp only [if_true] at hp
              rw [sy_comma_none hp]
              simp only [e4, List.isEmpty_nil, Bool.not_true, Bool.not_false, if_true, ok_bind, err_bind, Agree, ErrKind.toPy]
            | cons x r =>
              have hx := dropWhile_head _ _ _ hd
              subst hx
              rw [hd] at hp
              simp only [reduceCtorEq, if_false] at hp
              rw [sy_comma_some hp]
              simp only [e4, hd, List.isEmpty_cons, Bool.not_false, Bool.not_true, Bool.false_eq_true, if_false, Py.top_cons,
                ok_bind, bne_self_eq_false]
              exact code_loop1 hT formula ts _ _ _ (by simp [hq, e3]) (by simp [e4, hd])
          · have c1 : ["(", ")", ","].contains t = false := by simp [h1, h2, h3]
            simp only [classify_operand hl h1 h2 h3, sy, c1, Bool.not_false, if_true]
            exact code_loop1 hT formula ts _ _ _ (by simp [hq, classify_operand hl h1 h2 h3]) (by simp [hst])

/-! ## the whole function -/

/-- **`Function.infix_to_postfix` as translated from the source = the model `Op.toPostfix`** on the tokens of
    `format_infix(formula)`: same exception class, and on success the returned text is the model's token list
    joined by single spaces -/
theorem code_toPostfix {tbl : Table} (hT : tbl.NoPunct) (formula : String) :
    match toPostfix tbl (formatInfix tbl formula) with
    | .error e => infix_to_postfix.run tbl formula {} = .error e.toPy
    | .ok r => ∃ σ, infix_to_postfix.run tbl formula {} = .ok σ ∧ σ.ret = some (Py.joinSp r) := by
  unfold toPostfix infix_to_postfix.run
  have hl := code_loop1 hT formula (formatInfix tbl formula)
    { formula1 := formatInfix tbl formula, queue := [], stack := [] } [] [] rfl rfl
  simp only
  cases hs : sy ((formatInfix tbl formula).map (classify tbl)) [] [] with
  | error e =>
    rw [hs] at hl
    simp only [Agree] at hl
    simp only [Except.map]
    rw [← bind_assoc, hl, err_bind]
  | ok out =>
    rw [hs] at hl
    obtain ⟨σ', h1, h2⟩ := hl
    simp only [Except.map]
    rw [← bind_assoc, h1, ok_bind]
    exact ⟨_, rfl, by simp only [h2]⟩

end CodeFn
