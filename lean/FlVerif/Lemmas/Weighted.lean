import FlVerif.Spec.Defuzz
import FlVerif.Op.Weighted
import Mathlib.Tactic.Ring
import Mathlib.Tactic.Linarith
import Mathlib.Tactic.FieldSimp
import Mathlib.Data.List.Perm.Basic

/-! Helper lemmas for C10: `X.add` is a commutative monoid operation, grouping of activations, the accumulation
    loop of the weighted defuzzifiers, the set of inferred types. -/

set_option linter.unusedSectionVars false

namespace Lemmas.Weighted
variable {α : Type} [Field α] [LinearOrder α] [IsStrictOrderedRing α]
open X Op.Weighted

/-! ## `X.add` -/

theorem xadd_comm (a b : X α) : X.add a b = X.add b a := by
  cases a <;> cases b <;> simp [X.add, add_comm]
theorem xadd_assoc (a b c : X α) : X.add (X.add a b) c = X.add a (X.add b c) := by
  cases a <;> cases b <;> cases c <;> simp [X.add, add_assoc]
theorem xadd_zero (a : X α) : X.add a (fin 0) = a := by cases a <;> simp [X.add]
theorem zero_xadd (a : X α) : X.add (fin 0) a = a := by cases a <;> simp [X.add]

/-- sum of a list of extended values -/
def xsum (l : List (X α)) : X α := l.foldr X.add (fin 0)

@[simp] theorem xsum_nil : xsum ([] : List (X α)) = fin 0 := rfl
@[simp] theorem xsum_cons (a : X α) (l : List (X α)) : xsum (a :: l) = X.add a (xsum l) := rfl
theorem xsum_append (l1 l2 : List (X α)) : xsum (l1 ++ l2) = X.add (xsum l1) (xsum l2) := by
  induction l1 with
  | nil => simp [zero_xadd]
  | cons a l ih => simp [ih, xadd_assoc]
theorem xsum_perm {l1 l2 : List (X α)} (h : l1.Perm l2) : xsum l1 = xsum l2 := by
  induction h with
  | nil => rfl
  | cons a _ ih => simp [ih]
  | swap a b l => simp only [xsum_cons]; rw [← xadd_assoc, xadd_comm b a, xadd_assoc]
  | trans _ _ ih1 ih2 => exact ih1.trans ih2
theorem xsum_fin (l : List α) : xsum (l.map fin) = fin l.sum := by
  induction l with
  | nil => rfl
  | cons a l ih => simp [ih]

/-! ## grouping -/

section grouping
variable {ν : Type} [DecidableEq ν]

/-- the combination of a group degree with a further degree, as `insertGroup` performs it -/
def comb (agg : X α → X α → X α) (v d : X α) : X α := setDegree (agg v d)

theorem insertGroup_cons (agg : X α → X α → X α) (a g : Act ν α) (gs : List (Act ν α)) :
    insertGroup agg a (g :: gs) =
      if a.1.name = g.1.name then (g.1, comb agg g.2 a.2) :: gs else g :: insertGroup agg a gs := rfl

theorem foldl_insert (agg : X α → X α → X α) (rest : List (Act ν α)) (g : Act ν α) (gs : List (Act ν α)) :
    rest.foldl (fun gs a => insertGroup agg a gs) (g :: gs) =
      (g.1, ((rest.filter (fun b => b.1.name = g.1.name)).map Prod.snd).foldl (comb agg) g.2)
        :: (rest.filter (fun b => b.1.name ≠ g.1.name)).foldl (fun gs a => insertGroup agg a gs) gs := by
  induction rest generalizing g gs with
  | nil => rfl
  | cons a rest ih =>
    simp only [List.foldl_cons, insertGroup_cons]
    by_cases h : a.1.name = g.1.name
    · rw [if_pos h, ih]
      simp [h]
    · rw [if_neg h, ih]
      simp [h]

/-- `grouped_terms` = the documented grouping -/
theorem groupedTerms_eq (agg : Option (X α → X α → X α)) (acts : List (Act ν α)) :
    groupedTerms agg acts =
      Spec.grouped (fun t : WTerm ν α => t.name) setDegree (comb (aggregationOr agg)) acts := by
  induction h : acts.length using Nat.strong_induction_on generalizing acts with
  | _ n ih =>
    cases acts with
    | nil => simp [groupedTerms, Spec.grouped]
    | cons a rest =>
      have hlen : (rest.filter (fun b => b.1.name ≠ a.1.name)).length < n := by
        subst h
        simp only [List.length_cons]
        exact Nat.lt_succ_of_le (List.length_filter_le _ _)
      have ih' := ih _ hlen (rest.filter (fun b => b.1.name ≠ a.1.name)) rfl
      unfold groupedTerms at ih' ⊢
      rw [Spec.grouped]
      simp only [List.foldl_cons]
      have e : insertGroup (aggregationOr agg) a [] = [(a.1, setDegree a.2)] := rfl
      rw [e, foldl_insert, ih']

end grouping
/-! ## pulling the group of one key out of the grouping (up to the order of the groups) -/

section extract
variable {τ κ δ : Type} [DecidableEq κ] (key : τ → κ) (init : δ → δ) (c : δ → δ → δ)

/-- the group of key `k`, if `k` occurs -/
def groupOf (k : κ) (l : List (τ × δ)) : List (τ × δ) :=
  match l.filter (fun b => key b.1 = k) with
  | [] => []
  | a :: rest => [(a.1, (rest.map Prod.snd).foldl c (init a.2))]

theorem grouped_cons (a : τ × δ) (rest : List (τ × δ)) :
    Spec.grouped key init c (a :: rest) =
      (a.1, ((rest.filter (fun b => key b.1 = key a.1)).map Prod.snd).foldl c (init a.2))
        :: Spec.grouped key init c (rest.filter (fun b => key b.1 ≠ key a.1)) := by
  rw [Spec.grouped]

theorem filter_eq_of_ne (k k' : κ) (h : k' ≠ k) (l : List (τ × δ)) :
    (l.filter (fun b => key b.1 ≠ k')).filter (fun b => key b.1 = k) = l.filter (fun b => key b.1 = k) := by
  rw [List.filter_filter]
  apply List.filter_congr
  intro b _
  by_cases hb : key b.1 = k
  · have : k ≠ k' := h.symm
    simp [hb, this]
  · simp [hb]

theorem filter_ne_comm (k k' : κ) (l : List (τ × δ)) :
    (l.filter (fun b => key b.1 ≠ k)).filter (fun b => key b.1 ≠ k') =
    (l.filter (fun b => key b.1 ≠ k')).filter (fun b => key b.1 ≠ k) := by
  rw [List.filter_filter, List.filter_filter]
  apply List.filter_congr
  intro b _
  exact Bool.and_comm _ _

theorem grouped_extract (k : κ) (l : List (τ × δ)) :
    (Spec.grouped key init c l).Perm
      (groupOf key init c k l ++ Spec.grouped key init c (l.filter (fun b => key b.1 ≠ k))) := by
  induction h : l.length using Nat.strong_induction_on generalizing l with
  | _ n ih =>
    cases l with
    | nil => simp [groupOf, Spec.grouped]
    | cons a rest =>
      by_cases hk : key a.1 = k
      · subst hk
        have e1 : groupOf key init c (key a.1) (a :: rest) =
            [(a.1, ((rest.filter (fun b => key b.1 = key a.1)).map Prod.snd).foldl c (init a.2))] := by
          simp [groupOf]
        have e2 : (a :: rest).filter (fun b => key b.1 ≠ key a.1) = rest.filter (fun b => key b.1 ≠ key a.1) := by
          simp
        rw [e1, e2, grouped_cons]
        exact List.Perm.refl _
      · have hlen : (rest.filter (fun b => key b.1 ≠ key a.1)).length < n := by
          subst h
          simp only [List.length_cons]
          exact Nat.lt_succ_of_le (List.length_filter_le _ _)
        have ih' := ih _ hlen (rest.filter (fun b => key b.1 ≠ key a.1)) rfl
        have e1 : groupOf key init c k (a :: rest) =
            groupOf key init c k (rest.filter (fun b => key b.1 ≠ key a.1)) := by
          unfold groupOf
          rw [filter_eq_of_ne key k (key a.1) hk]
          simp [hk]
        have e2 : (a :: rest).filter (fun b => key b.1 ≠ k) = a :: rest.filter (fun b => key b.1 ≠ k) := by
          simp [hk]
        have hk' : k ≠ key a.1 := fun e => hk e.symm
        rw [e1, e2, grouped_cons, grouped_cons, filter_eq_of_ne key (key a.1) k hk', filter_ne_comm key k (key a.1)]
        exact (List.Perm.cons _ ih').trans List.perm_middle.symm

end extract
/-! ## inserting a zero-degree activation -/

/-- what the zero-degree law needs from the aggregation operator: on a set `P` of degrees that it maps into itself,
    `0` is a two-sided identity (every registered S-norm on `[0,1]`, the unbounded sum everywhere) -/
structure AggOk (agg : X α → X α → X α) (P : α → Prop) : Prop where
  closed : ∀ a b, P a → P b → ∃ c, agg (fin a) (fin b) = fin c ∧ P c
  zero_right : ∀ a, P a → agg (fin a) (fin 0) = fin a
  zero_left : ∀ a, P a → agg (fin 0) (fin a) = fin a

section zero
variable {ν : Type} [DecidableEq ν]

theorem foldl_comb_fin {agg : X α → X α → X α} {P : α → Prop} (h : AggOk agg P) (ds : List (X α))
    (hds : ∀ d ∈ ds, ∃ x, d = fin x ∧ P x) (v : α) (hv : P v) :
    ∃ y, ds.foldl (comb agg) (fin v) = fin y ∧ P y := by
  induction ds generalizing v with
  | nil => exact ⟨v, rfl, hv⟩
  | cons d ds ih =>
    obtain ⟨x, rfl, hx⟩ := hds d (by simp)
    obtain ⟨c, hc, hPc⟩ := h.closed v x hv hx
    simp only [List.foldl_cons, comb, hc, setDegree, nanToNum01_fin]
    exact ih (fun d hd => hds d (by simp [hd])) c hPc

theorem groupOf_insert_zero {agg : X α → X α → X α} {P : α → Prop} (h : AggOk agg P)
    (l1 l2 : List (Act ν α)) (a0 : WTerm ν α)
    (hdeg : ∀ a ∈ l1 ++ l2, ∃ d, a.2 = fin d ∧ P d)
    (hcons : ∀ a ∈ l1 ++ l2, a.1.name = a0.name → a.1 = a0) :
    let G' := groupOf (fun t : WTerm ν α => t.name) setDegree (comb agg) a0.name (l1 ++ (a0, fin 0) :: l2)
    let G := groupOf (fun t : WTerm ν α => t.name) setDegree (comb agg) a0.name (l1 ++ l2)
    G' = G ∨ (G' = [(a0, fin 0)] ∧ G = []) := by
  intro G' G
  have hf' : (l1 ++ (a0, fin 0) :: l2).filter (fun b => b.1.name = a0.name) =
      l1.filter (fun b => b.1.name = a0.name) ++ (a0, fin 0) :: l2.filter (fun b => b.1.name = a0.name) := by
    simp [List.filter_append]
  have hf : (l1 ++ l2).filter (fun b => b.1.name = a0.name) =
      l1.filter (fun b => b.1.name = a0.name) ++ l2.filter (fun b => b.1.name = a0.name) := by
    simp [List.filter_append]
  have hm1 : ∀ b ∈ l1.filter (fun b => b.1.name = a0.name), (∃ d, b.2 = fin d ∧ P d) ∧ b.1 = a0 := by
    intro b hb
    have hb' := List.mem_filter.1 hb
    have hmem : b ∈ l1 ++ l2 := List.mem_append_left _ hb'.1
    exact ⟨hdeg b hmem, hcons b hmem (by simpa using hb'.2)⟩
  have hm2 : ∀ b ∈ l2.filter (fun b => b.1.name = a0.name), (∃ d, b.2 = fin d ∧ P d) ∧ b.1 = a0 := by
    intro b hb
    have hb' := List.mem_filter.1 hb
    have hmem : b ∈ l1 ++ l2 := List.mem_append_right _ hb'.1
    exact ⟨hdeg b hmem, hcons b hmem (by simpa using hb'.2)⟩
  show groupOf _ _ _ _ _ = groupOf _ _ _ _ _ ∨ (groupOf _ _ _ _ _ = _ ∧ groupOf _ _ _ _ _ = _)
  unfold groupOf
  simp only [hf', hf]
  generalize l1.filter (fun b => b.1.name = a0.name) = m1 at hm1
  generalize l2.filter (fun b => b.1.name = a0.name) = m2 at hm2
  cases m1 with
  | cons b m1 =>
    left
    simp only [List.cons_append, List.map_append, List.map_cons, List.foldl_append, List.foldl_cons]
    obtain ⟨⟨d, hd, hPd⟩, _⟩ := hm1 b (by simp)
    obtain ⟨y, hy, hPy⟩ := foldl_comb_fin h (m1.map Prod.snd) (by
      intro d' hd'
      obtain ⟨b', hb', rfl⟩ := List.mem_map.1 hd'
      exact (hm1 b' (by simp [hb'])).1) d hPd
    rw [hd]
    simp only [setDegree, nanToNum01_fin] at hy ⊢
    rw [hy]
    simp only [comb, h.zero_right y hPy, setDegree, nanToNum01_fin]
  | nil =>
    cases m2 with
    | nil => right; simp [setDegree]
    | cons b m2 =>
      left
      obtain ⟨⟨d, hd, hPd⟩, hb⟩ := hm2 b (by simp)
      simp only [List.nil_append, List.map_cons, List.foldl_cons]
      rw [hd, hb]
      simp only [comb, setDegree, nanToNum01_fin, h.zero_left d hPd]

/-- the groups of a fuzzy output with one more zero-degree activation contribute the same total, for every
    contribution that vanishes on zero-degree groups -/
theorem xsum_insert_zero {agg : X α → X α → X α} {P : α → Prop} (h : AggOk agg P)
    (l1 l2 : List (Act ν α)) (a0 : WTerm ν α)
    (hdeg : ∀ a ∈ l1 ++ l2, ∃ d, a.2 = fin d ∧ P d)
    (hcons : ∀ a ∈ l1 ++ l2, a.1.name = a0.name → a.1 = a0)
    (f : Act ν α → X α) (hf0 : ∀ t, f (t, fin 0) = fin 0) :
    xsum ((Spec.grouped (fun t : WTerm ν α => t.name) setDegree (comb agg) (l1 ++ (a0, fin 0) :: l2)).map f) =
    xsum ((Spec.grouped (fun t : WTerm ν α => t.name) setDegree (comb agg) (l1 ++ l2)).map f) := by
  have p' := grouped_extract (fun t : WTerm ν α => t.name) setDegree (comb agg) a0.name (l1 ++ (a0, fin 0) :: l2)
  have p := grouped_extract (fun t : WTerm ν α => t.name) setDegree (comb agg) a0.name (l1 ++ l2)
  have hR : (l1 ++ (a0, fin 0) :: l2).filter (fun b => b.1.name ≠ a0.name) =
      (l1 ++ l2).filter (fun b => b.1.name ≠ a0.name) := by
    simp [List.filter_append]
  rw [xsum_perm (p'.map f), xsum_perm (p.map f), hR, List.map_append, List.map_append, xsum_append, xsum_append]
  congr 1
  rcases groupOf_insert_zero h l1 l2 a0 hdeg hcons with e | ⟨e1, e2⟩
  · rw [e]
  · rw [e1, e2]; simp [hf0, X.add]

end zero
/-! ## the accumulation loop -/

section loop
variable {ν : Type} [DecidableEq ν]

/-- the value of `nan_to_num(·, nan=0, neginf=0, posinf=1)` -/
def degOf : X α → α
  | .fin a => a
  | .pinf => 1
  | _ => 0

theorem setDegree_eq (d : X α) : setDegree d = fin (degOf d) := by cases d <;> rfl

/-- the term offers the function the defuzzifier calls (`tsukamoto` is overridden when the type is Tsukamoto) -/
def Supported (ty : WType) (t : WTerm ν α) : Prop := ty = .tsukamoto → t.tsk.isSome = true

/-- the value `z` the loop reads for a supported term -/
def zTot (ty : WType) (t : WTerm ν α) (w : X α) : X α :=
  if ty = .tsukamoto then (match t.tsk with | some f => f w | none => nan) else t.mu w

theorem zOf_supported {ty : WType} {t : WTerm ν α} (h : Supported ty t) (w : X α) :
    zOf ty t w = .ok (zTot ty t w) := by
  unfold zOf zTot
  by_cases hty : ty = .tsukamoto
  · have := h hty
    cases htsk : t.tsk with
    | none => rw [htsk] at this; cases this
    | some f => simp [hty]
  · simp [hty]

theorem zOf_unsupported {ty : WType} {t : WTerm ν α} (h : ¬ Supported ty t) (w : X α) :
    zOf ty t w = .error .runtimeError := by
  unfold Supported at h
  have hty : ty = .tsukamoto := by by_contra hne; exact h (fun e => absurd e hne)
  have htsk : t.tsk = none := by
    cases ht : t.tsk with
    | none => rfl
    | some f => exact absurd (fun _ => by simp [ht]) h
  simp [zOf, hty, htsk]

theorem loop_ok (P : X α → X α → X α) (ty : WType) (gs : List (Act ν α))
    (hs : ∀ g ∈ gs, Supported ty g.1) (s : X α × X α) :
    loop P ty gs s = .ok (X.add s.1 (xsum (gs.map (fun g => P g.2 (zTot ty g.1 g.2)))),
      X.add s.2 (xsum (gs.map Prod.snd))) := by
  induction gs generalizing s with
  | nil => simp [loop, xadd_zero]
  | cons g gs ih =>
    simp only [loop, zOf_supported (hs g (by simp)), List.map_cons, xsum_cons]
    have := ih (fun q hq => hs q (by simp [hq])) (X.add s.1 (P g.2 (zTot ty g.1 g.2)), X.add s.2 g.2)
    simp only [bind, Except.bind]
    rw [this]
    simp only [xadd_assoc]

theorem loop_error (P : X α → X α → X α) (ty : WType) (gs : List (Act ν α))
    (hs : ∃ g ∈ gs, ¬ Supported ty g.1) (s : X α × X α) :
    loop P ty gs s = .error .runtimeError := by
  induction gs generalizing s with
  | nil => obtain ⟨g, hg, _⟩ := hs; cases hg
  | cons g gs ih =>
    by_cases hg : Supported ty g.1
    · simp only [loop, zOf_supported hg, bind, Except.bind]
      apply ih
      obtain ⟨q, hq, hq'⟩ := hs
      rcases List.mem_cons.1 hq with rfl | hq
      · exact absurd hg hq'
      · exact ⟨q, hq, hq'⟩
    · simp [loop, zOf_unsupported hg, bind, Except.bind]

theorem prod_zero (z : X α) : prod (fin 0) z = fin 0 := by simp [prod]
theorem prod_fin (w z : α) : prod (fin w) (fin z) = fin (w * z) := by
  by_cases h : w = 0 <;> simp [prod, h]

/-- weighted sums of groups with finite degrees whose term value is finite wherever the degree is non-zero -/
theorem xsum_prod_fin (ty : WType) (gs : List (Act ν α)) (ζ : Act ν α → α)
    (hw : ∀ g ∈ gs, g.2 = fin (degOf g.2))
    (hz : ∀ g ∈ gs, degOf g.2 ≠ 0 → zTot ty g.1 g.2 = fin (ζ g)) :
    xsum (gs.map (fun g => prod g.2 (zTot ty g.1 g.2))) = fin ((gs.map (fun g => degOf g.2 * ζ g)).sum) ∧
    xsum (gs.map Prod.snd) = fin ((gs.map (fun g => degOf g.2)).sum) := by
  induction gs with
  | nil => simp
  | cons g gs ih =>
    obtain ⟨i1, i2⟩ := ih (fun q hq => hw q (by simp [hq])) (fun q hq => hz q (by simp [hq]))
    have hg := hw g (by simp)
    have hzg := hz g (by simp)
    simp only [List.map_cons, xsum_cons, i1, i2, List.sum_cons]
    obtain ⟨t, d⟩ := g
    cases d with
    | fin a =>
      simp only [degOf] at hzg ⊢
      constructor
      · by_cases h0 : a = 0
        · subst h0; rw [prod_zero]; simp
        · rw [hzg h0, prod_fin]; simp
      · simp
    | nan => cases hg
    | pinf => cases hg
    | ninf => cases hg

theorem foldl_comb_isFin (agg : X α → X α → X α) (ds : List (X α)) (d : X α) :
    ds.foldl (comb agg) (setDegree d) = fin (degOf (ds.foldl (comb agg) (setDegree d))) := by
  induction ds generalizing d with
  | nil => rw [List.foldl_nil, setDegree_eq]; rfl
  | cons d' ds ih => simp only [List.foldl_cons, comb]; exact ih _

theorem grouped_degrees_fin (agg : X α → X α → X α) (acts : List (Act ν α)) :
    ∀ g ∈ Spec.grouped (fun t : WTerm ν α => t.name) setDegree (comb agg) acts, g.2 = fin (degOf g.2) := by
  induction h : acts.length using Nat.strong_induction_on generalizing acts with
  | _ n ih =>
    cases acts with
    | nil => simp [Spec.grouped]
    | cons a rest =>
      have hlen : (rest.filter (fun b => b.1.name ≠ a.1.name)).length < n := by
        subst h
        simp only [List.length_cons]
        exact Nat.lt_succ_of_le (List.length_filter_le _ _)
      have ih' := ih _ hlen (rest.filter (fun b => b.1.name ≠ a.1.name)) rfl
      rw [grouped_cons]
      intro g hg
      rcases List.mem_cons.1 hg with rfl | hg
      · exact foldl_comb_isFin agg _ _
      · exact ih' g hg

theorem grouped_ne_nil {τ κ δ : Type} [DecidableEq κ] (key : τ → κ) (init : δ → δ) (c : δ → δ → δ)
    (acts : List (τ × δ)) (h : acts ≠ []) : Spec.grouped key init c acts ≠ [] := by
  cases acts with
  | nil => exact absurd rfl h
  | cons a rest => rw [grouped_cons]; simp

theorem grouped_terms_mem (agg : X α → X α → X α) (acts : List (Act ν α)) :
    ∀ g ∈ Spec.grouped (fun t : WTerm ν α => t.name) setDegree (comb agg) acts, ∃ a ∈ acts, a.1 = g.1 := by
  induction h : acts.length using Nat.strong_induction_on generalizing acts with
  | _ n ih =>
    cases acts with
    | nil => simp [Spec.grouped]
    | cons a rest =>
      have hlen : (rest.filter (fun b => b.1.name ≠ a.1.name)).length < n := by
        subst h
        simp only [List.length_cons]
        exact Nat.lt_succ_of_le (List.length_filter_le _ _)
      have ih' := ih _ hlen (rest.filter (fun b => b.1.name ≠ a.1.name)) rfl
      rw [grouped_cons]
      intro g hg
      rcases List.mem_cons.1 hg with rfl | hg
      · exact ⟨a, by simp, rfl⟩
      · obtain ⟨b, hb, e⟩ := ih' g hg
        exact ⟨b, List.mem_cons_of_mem _ (List.mem_filter.1 hb).1, e⟩

theorem sum_mul_eq_zero (l : List (α × α)) (hw : ∀ g ∈ l, 0 ≤ g.1) (h0 : (l.map Prod.fst).sum = 0) :
    (l.map (fun g => g.1 * g.2)).sum = 0 := by
  induction l with
  | nil => rfl
  | cons g l ih =>
    have h1 := hw g (by simp)
    have hl : ∀ q ∈ l, 0 ≤ q.1 := fun q hq => hw q (by simp [hq])
    have h2 : 0 ≤ (l.map Prod.fst).sum := by
      clear ih h0 hw
      induction l with
      | nil => simp
      | cons q l ih2 =>
        have := hl q (by simp)
        have := ih2 (fun r hr => hl r (by simp [hr]))
        simp only [List.map_cons, List.sum_cons]; linarith
    simp only [List.map_cons, List.sum_cons] at h0 ⊢
    have e1 : g.1 = 0 := by linarith
    have e2 : (l.map Prod.fst).sum = 0 := by linarith
    rw [ih hl e2, e1]; simp

end loop

/-! ## the set of inferred types -/

section types
variable {ν : Type} [DecidableEq ν]

theorem mem_insertNew (t t' : WType) (s : List WType) : t' ∈ insertNew t s ↔ t' ∈ s ∨ t' = t := by
  unfold insertNew
  by_cases h : t ∈ s
  · simp only [if_pos h]
    constructor
    · exact Or.inl
    · rintro (h' | rfl)
      · exact h'
      · exact h
  · simp [if_neg h]

theorem nodup_insertNew (t : WType) (s : List WType) (hs : s.Nodup) : (insertNew t s).Nodup := by
  unfold insertNew
  by_cases h : t ∈ s
  · simpa [if_pos h] using hs
  · rw [if_neg h]
    exact List.nodup_append.2 ⟨hs, by simp, by
      intro a ha b hb
      simp at hb
      subst hb
      intro e; subst e; exact h ha⟩

theorem typeSet_aux (acts : List (Act ν α)) (s : List WType) (hs : s.Nodup) :
    (acts.foldl (fun s a => insertNew (inferTerm a.1) s) s).Nodup ∧
    ∀ t, t ∈ acts.foldl (fun s a => insertNew (inferTerm a.1) s) s ↔ t ∈ s ∨ ∃ a ∈ acts, inferTerm a.1 = t := by
  induction acts generalizing s with
  | nil => simp [hs]
  | cons a acts ih =>
    obtain ⟨i1, i2⟩ := ih (insertNew (inferTerm a.1) s) (nodup_insertNew _ _ hs)
    refine ⟨i1, ?_⟩
    intro t
    rw [List.foldl_cons, i2 t, mem_insertNew]
    constructor
    · rintro ((h | h) | ⟨b, hb, e⟩)
      · exact Or.inl h
      · exact Or.inr ⟨a, by simp, h.symm⟩
      · exact Or.inr ⟨b, by simp [hb], e⟩
    · rintro (h | ⟨b, hb, e⟩)
      · exact Or.inl (Or.inl h)
      · rcases List.mem_cons.1 hb with rfl | hb
        · exact Or.inl (Or.inr e.symm)
        · exact Or.inr ⟨b, hb, e⟩

theorem typeSet_spec (acts : List (Act ν α)) :
    (typeSet acts).Nodup ∧ ∀ t, t ∈ typeSet acts ↔ ∃ a ∈ acts, inferTerm a.1 = t := by
  obtain ⟨h1, h2⟩ := typeSet_aux acts [] List.nodup_nil
  exact ⟨h1, fun t => by rw [typeSet, h2 t]; simp⟩

theorem eq_singleton_of_nodup {l : List WType} {t : WType} (hn : l.Nodup) (hall : ∀ x ∈ l, x = t) (hm : t ∈ l) :
    l = [t] := by
  cases l with
  | nil => cases hm
  | cons x xs =>
    have hx := hall x (by simp)
    subst hx
    cases xs with
    | nil => rfl
    | cons y ys =>
      have hy := hall y (by simp)
      subst hy
      simp at hn

theorem inferType_empty : inferType ([] : List (Act ν α)) = .ok .automatic := rfl

theorem inferType_uniform (acts : List (Act ν α)) (hne : acts ≠ []) (t : WType)
    (h : ∀ a ∈ acts, inferTerm a.1 = t) : inferType acts = .ok t := by
  obtain ⟨hn, hm⟩ := typeSet_spec acts
  have : typeSet acts = [t] := by
    apply eq_singleton_of_nodup hn
    · intro x hx
      obtain ⟨a, ha, e⟩ := (hm x).1 hx
      rw [← e]; exact h a ha
    · cases acts with
      | nil => exact absurd rfl hne
      | cons a rest => exact (hm t).2 ⟨a, by simp, h a (by simp)⟩
  unfold inferType
  rw [this]

theorem inferType_mixed (acts : List (Act ν α)) (a b : Act ν α) (ha : a ∈ acts) (hb : b ∈ acts)
    (hne : inferTerm a.1 ≠ inferTerm b.1) : inferType acts = .error .typeError := by
  obtain ⟨_, hm⟩ := typeSet_spec acts
  have h1 := (hm (inferTerm a.1)).2 ⟨a, ha, rfl⟩
  have h2 := (hm (inferTerm b.1)).2 ⟨b, hb, rfl⟩
  unfold inferType
  match hts : typeSet acts with
  | [] => rw [hts] at h1; cases h1
  | [x] =>
    rw [hts] at h1 h2
    simp at h1 h2
    exact absurd (h1.trans h2.symm) hne
  | _ :: _ :: _ => rfl

theorem trichotomy (acts : List (Act ν α)) :
    acts = [] ∨ (acts ≠ [] ∧ ∃ t, ∀ a ∈ acts, inferTerm a.1 = t) ∨
    (∃ a ∈ acts, ∃ b ∈ acts, inferTerm a.1 ≠ inferTerm b.1) := by
  cases acts with
  | nil => exact Or.inl rfl
  | cons a rest =>
    right
    by_cases h : ∀ b ∈ rest, inferTerm b.1 = inferTerm a.1
    · left
      refine ⟨by simp, inferTerm a.1, ?_⟩
      intro b hb
      rcases List.mem_cons.1 hb with rfl | hb
      · rfl
      · exact h b hb
    · right
      simp only [not_forall] at h
      obtain ⟨b, hb, hne⟩ := h
      exact ⟨a, by simp, b, by simp [hb], fun e => hne e.symm⟩

end types
end Lemmas.Weighted
