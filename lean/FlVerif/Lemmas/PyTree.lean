import FlVerif.Lemmas.PyBind
import FlVerif.Lemmas.FllEngine

/-! Tree-level lemmas of the Python representation model: evaluating the constructor call of an object tree
gives its `view`; every prefix in the call tree is the one of the alias setting. -/

namespace Op.PyRepr
open Dec Op.FllIO Spec.Fll

/-! ### rose trees -/

section rose
variable {A K : Type}

mutual
/-- every atom of the tree satisfies `pa`, every node label `pk` -/
def Rose.Forall (pa : A → Prop) (pk : K → List (Rose A K) → Prop) : Rose A K → Prop
  | .atom a => pa a
  | .node k kids => pk k kids ∧ Rose.ForallList pa pk kids
def Rose.ForallList (pa : A → Prop) (pk : K → List (Rose A K) → Prop) : List (Rose A K) → Prop
  | [] => True
  | t :: ts => Rose.Forall pa pk t ∧ Rose.ForallList pa pk ts
end

theorem Rose.forallList_iff (pa : A → Prop) (pk : K → List (Rose A K) → Prop) (l : List (Rose A K)) :
    Rose.ForallList pa pk l ↔ ∀ t ∈ l, Rose.Forall pa pk t := by
  induction l with
  | nil => simp [Rose.ForallList]
  | cons t ts ih => simp [Rose.ForallList, ih]

mutual
theorem Rose.ind {P : Rose A K → Prop} (hatom : ∀ a, P (.atom a))
    (hnode : ∀ k kids, (∀ t ∈ kids, P t) → P (.node k kids)) : ∀ t, P t
  | .atom a => hatom a
  | .node k kids => hnode k kids (Rose.indList hatom hnode kids)
theorem Rose.indList {P : Rose A K → Prop} (hatom : ∀ a, P (.atom a))
    (hnode : ∀ k kids, (∀ t ∈ kids, P t) → P (.node k kids)) : ∀ (l : List (Rose A K)), ∀ t ∈ l, P t
  | [] => by simp
  | x :: xs => by
    intro t ht
    rcases List.mem_cons.1 ht with h | h
    · rw [h]; exact Rose.ind hatom hnode x
    · exact Rose.indList hatom hnode xs t h
end

end rose

/-! ### the list versions are maps -/

theorem asConstructorList_eq (env : Env) (l : List Val) : asConstructorList env l = l.map (asConstructor env) := by
  induction l with
  | nil => simp [asConstructorList]
  | cons v vs ih => simp [asConstructorList, ih]

theorem viewList_eq (env : Env) (l : List Val) : viewList env l = l.map (view env) := by
  induction l with
  | nil => simp [viewList]
  | cons v vs ih => simp [viewList, ih]

theorem evalList_map {α : Type} (l : List α) (f : α → Src) (g : α → Val) (h : ∀ x ∈ l, evalCall (f x) = some (g x)) :
    evalList (l.map f) = some (l.map g) := by
  induction l with
  | nil => simp [evalList]
  | cons x xs ih =>
    simp only [List.map_cons, evalList, h x (by simp), ih (fun y hy => h y (by simp [hy]))]

theorem lookup_zip_map {α β : Type} (f : α → β) (names : List String) (kids : List α) (n : String) :
    (names.zip (kids.map f)).lookup n = ((names.zip kids).lookup n).map f := by
  induction names generalizing kids with
  | nil => simp
  | cons m ms ih =>
    cases kids with
    | nil => simp
    | cons k ks =>
      simp only [List.map_cons, List.zip_cons_cons, List.lookup_cons]
      by_cases h : n == m <;> simp [h, ih]

theorem lookup_zip_mem {α : Type} (names : List String) (kids : List α) (n : String) (v : α)
    (h : (names.zip kids).lookup n = some v) : v ∈ kids := by
  induction names generalizing kids with
  | nil => simp at h
  | cons m ms ih =>
    cases kids with
    | nil => simp at h
    | cons k ks =>
      simp only [List.zip_cons_cons, List.lookup_cons] at h
      by_cases hn : n == m
      · simp [hn] at h; simp [h]
      · simp [hn] at h; exact List.mem_cons_of_mem _ (ih ks h)

/-! ### evaluating the representation -/

/-- the signature tables have no repeated parameter names -/
def TablesDistinct : Prop := ∀ cls ps, paramsOf cls = some ps → Distinct ps

/-- every rule in the object is a well-formed `if … then …` text -/
def RulesOK (v : Val) : Prop := Rose.Forall (fun a => ∀ r, a = Atom.rule r → RuleOK r) (fun _ _ => True) v

/-- `construction_arguments` did not raise anywhere in the tree -/
def NoInvalid (s : Src) : Prop := Rose.Forall (fun a => a ≠ SAtom.invalid) (fun _ _ => True) s

theorem eval_atom (env : Env) (a : Atom) (hr : ∀ r, a = Atom.rule r → RuleOK r) (hv : litSrc env a ≠ .invalid) :
    evalCall (.atom (litSrc env a)) = some (view env (.atom a)) := by
  cases a with
  | rule r =>
    simp only [litSrc, evalCall, view, rule_roundtrip (keepHeight env.cfg) env.cfg r (hr r rfl)]
  | other w => simp [litSrc] at hv
  | num x => simp [litSrc, evalCall, view]
  | int z => simp [litSrc, evalCall, view]
  | str s => simp [litSrc, evalCall, view]
  | bool b => simp [litSrc, evalCall, view]
  | none => simp [litSrc, evalCall, view]
  | enum s => simp [litSrc, evalCall, view]

/-- evaluating the constructor call of an object tree builds its `view`: every stored parameter carries the
    (rebuilt) field that was passed on, and the constructor default where the `__repr__` dropped it -/
theorem eval_asConstructor (env : Env) (ht : TablesDistinct) :
    ∀ v : Val, RulesOK v → NoInvalid (asConstructor env v) → evalCall (asConstructor env v) = some (view env v) := by
  refine Rose.ind ?_ ?_
  · intro a hr hv
    simp only [asConstructor] at hv ⊢
    exact eval_atom env a hr hv
  · intro k kids ih hr hv
    have hrk : ∀ t ∈ kids, RulesOK t := by
      have := hr.2
      exact (Rose.forallList_iff _ _ kids).1 this
    cases k with
    | list =>
      simp only [asConstructor, asConstructorList_eq] at hv ⊢
      have hvk := (Rose.forallList_iff _ _ _).1 hv.2
      have := evalList_map kids (asConstructor env) (view env) (fun x hx =>
        ih x hx (hrk x hx) (hvk _ (List.mem_map.2 ⟨x, hx, rfl⟩)))
      simp [evalCall, this, view, viewList_eq]
    | array =>
      simp only [asConstructor, asConstructorList_eq] at hv ⊢
      have hvk := (Rose.forallList_iff _ _ _).1 hv.2
      have := evalList_map kids (asConstructor env) (view env) (fun x hx =>
        ih x hx (hrk x hx) (hvk _ (List.mem_map.2 ⟨x, hx, rfl⟩)))
      simp [evalCall, this, view, viewList_eq]
    | dict keys =>
      simp only [asConstructor, asConstructorList_eq] at hv ⊢
      have hvk := (Rose.forallList_iff _ _ _).1 hv.2
      have := evalList_map kids (asConstructor env) (view env) (fun x hx =>
        ih x hx (hrk x hx) (hvk _ (List.mem_map.2 ⟨x, hx, rfl⟩)))
      simp [evalCall, this, view, viewList_eq]
    | obj cls names =>
      simp only [asConstructor, asConstructorList_eq] at hv ⊢
      cases hps : paramsOf cls with
      | none => simp [hps, NoInvalid, Rose.Forall] at hv
      | some ps =>
        cases hinfo : reprInfoOf cls with
        | none => simp [hps, hinfo, NoInvalid, Rose.Forall] at hv
        | some info =>
          simp only [hps, hinfo] at hv ⊢
          by_cases hunk : (info.cond.any fun c => c.2 == DropKind.unknown) = true
          · simp [hunk, NoInvalid, Rose.Forall] at hv
          · simp only [hunk, Bool.false_eq_true, if_false] at hv ⊢
            -- the fields that are passed on, as object trees
            generalize hpv : passed env ps info (names.zip kids) = pv at hv ⊢
            have hpv_lookup : ∀ n v, pv n = some v → (names.zip kids).lookup n = some v := by
              intro n v h
              rw [← hpv] at h
              unfold passed at h
              cases hl : (names.zip kids).lookup n with
              | none => simp [hl] at h
              | some w =>
                simp only [hl, Option.bind_some] at h
                by_cases hd : dropped env ps info n w = true
                · simp [hd] at h
                · simp only [hd, Bool.false_eq_true, if_false, Option.some.injEq] at h
                  rw [h]
            have hlookS : (fun n => if (pv n).isSome then (names.zip (kids.map (asConstructor env))).lookup n else none)
                = fun n => (pv n).map (asConstructor env) := by
              funext n
              cases hp : pv n with
              | none => simp
              | some w => simp [lookup_zip_map, hpv_lookup n w hp]
            have hem := emit_map (asConstructor env) pv info.positional ps
            rw [hlookS, hem] at hv ⊢
            cases hargs : emit pv info.positional ps with
            | none => simp [hargs, NoInvalid, Rose.Forall] at hv
            | some argsV =>
              simp only [hargs, Option.map_some, List.map_map] at hv ⊢
              have hvk := (Rose.forallList_iff _ _ _).1 hv.2
              have hmem : ∀ a ∈ argsV, a.2 ∈ kids := by
                intro a ha
                obtain ⟨n, hn⟩ := emit_values pv _ ps argsV hargs a ha
                exact lookup_zip_mem names kids n a.2 (hpv_lookup n a.2 hn)
              have hev : evalList (argsV.map ((fun a => a.2) ∘ fun a => (a.1, asConstructor env a.2)))
                  = some (argsV.map (fun a => view env a.2)) := by
                have := evalList_map argsV (fun a => asConstructor env a.2) (fun a => view env a.2) (fun a ha =>
                  ih a.2 (hmem a ha) (hrk _ (hmem a ha)) (hvk _ (by
                    simp only [List.mem_map, Function.comp_apply]
                    exact ⟨a, ha, rfl⟩)))
                simpa [Function.comp_def] using this
              have hzip : (argsV.map ((fun a => a.1) ∘ fun a => (a.1, asConstructor env a.2))).zip
                  (argsV.map (fun a => view env a.2)) = argsV.map (fun a => (a.1, view env a.2)) := by
                simp [Function.comp_def, List.zip_map']
              have hemV := emit_map (view env) pv info.positional ps
              rw [hargs] at hemV
              simp only [Option.map_some] at hemV
              have hbind := bind_emit_any (fun n => (pv n).map (view env)) (fun p => p.stored) ps (ht cls ps hps)
                info.positional _ hemV
              have hview : (fun n => if (pv n).isSome
                  then (names.zip (kids.map (view env))).lookup n else none) = fun n => (pv n).map (view env) := by
                funext n
                cases hp : pv n with
                | none => simp
                | some w => simp [lookup_zip_map, hpv_lookup n w hp]
              obtain ⟨bound, hbound⟩ := expected_some_of_emit (fun n => (pv n).map (view env)) (fun p => p.stored)
                info.positional ps _ hemV
              simp only [evalCall, hev, hps, hzip, hbind, view, viewList_eq, hinfo, hpv, hview, hbound]

end Op.PyRepr
