import FlVerif.Op.ShuntingYard

/-! Correctness of the shunting-yard loop `Op.sy` for every writing `Lang.Pr a b e ts` of every tree
    (helper lemmas of C17 / C06).  Core Lean. -/

namespace Op
open Lang

/-- stack level of an entry that the operator loop may pop (`stack[-1] in factory.objects`) -/
def stackR : Tok → Option Nat
  | .el o => some o.R
  | _ => none

/-- the operator loop in terms of levels: pop while `l ≤ R(top)` -/
def popWhile (l : Nat) : List Tok → List Tok × List Tok
  | [] => ([], [])
  | t :: st =>
    match stackR t with
    | some r => if l ≤ r then (t :: (popWhile l st).1, (popWhile l st).2) else ([], t :: st)
    | none => ([], t :: st)

/-- the two disjuncts of the pop condition are `L(incoming) ≤ R(top)` -/
theorem popCond_iff (e top : Elem) (h : e.assoc ≠ 0) : popCond e top = true ↔ e.L ≤ top.R := by
  unfold popCond Elem.L Elem.R
  by_cases hp : e.assoc > 0
  · have hn : ¬ e.assoc < 0 := by omega
    simp [hp, hn]; omega
  · have hn : e.assoc < 0 := by omega
    simp [hp, hn]; omega

theorem popOps_eq_popWhile (e : Elem) (h : e.assoc ≠ 0) (st : List Tok) : popOps e st = popWhile e.L st := by
  induction st with
  | nil => rfl
  | cons t st ih =>
    cases t with
    | el top =>
      simp only [popOps, popWhile, stackR, ih]
      by_cases hc : popCond e top = true
      · have := (popCond_iff e top h).1 hc
        simp [hc, this]
      · have : ¬ e.L ≤ top.R := fun hh => hc ((popCond_iff e top h).2 hh)
        simp [hc, this]
    | _ => simp [popOps, popWhile, stackR]

/-- every pending entry is an element with stack level `≥ b` -/
def Pend (b : Nat) (pend : List Tok) : Prop := ∀ t ∈ pend, ∃ r, stackR t = some r ∧ b ≤ r

/-- nothing at the top of `st` is popped by an incoming operator of level `≥ a` -/
def Adm (a : Nat) (st : List Tok) : Prop := ∀ l, a ≤ l → popWhile l st = ([], st)

/-- the entry on top of the stack is not a function (true wherever an operand may start, except right after `f`) -/
def NoFnTop (st : List Tok) : Prop := ∀ f r, st = .el f :: r → f.isOp = true

theorem popWhile_pend (l : Nat) (pend st : List Tok) (h : Pend l pend) (ha : Adm l st) :
    popWhile l (pend ++ st) = (pend, st) := by
  induction pend with
  | nil => simpa using ha l (Nat.le_refl _)
  | cons t pend ih =>
    obtain ⟨r, hr, ho⟩ := h t (by simp)
    have ih' := ih (fun t ht => h t (by simp [ht]))
    simp [popWhile, hr, ho, ih']

theorem popToParen_pend (b : Nat) (pend st : List Tok) (h : Pend b pend) :
    popToParen (pend ++ .lp :: st) = some (pend, .lp :: st) := by
  induction pend with
  | nil => simp [popToParen]
  | cons t pend ih =>
    obtain ⟨r, hr, _⟩ := h t (by simp)
    have ih' := ih (fun t ht => h t (by simp [ht]))
    cases t <;> simp [stackR] at hr <;> simp [popToParen, ih']

theorem adm_mono {a a' : Nat} {st} (h : Adm a st) (hc : a ≤ a') : Adm a' st :=
  fun l h' => h l (Nat.le_trans hc h')

theorem adm_lp (a : Nat) (st : List Tok) : Adm a (.lp :: st) := fun _ _ => by simp [popWhile, stackR]

theorem adm_nil (a : Nat) : Adm a [] := fun _ _ => by simp [popWhile]

theorem adm_push (o : Elem) (st : List Tok) : Adm (o.R + 1) (.el o :: st) := by
  intro l hl
  have : ¬ l ≤ o.R := by omega
  simp [popWhile, stackR, this]

theorem pend_weaken {b b' : Nat} {pend} (h : Pend b pend) (hb : b' ≤ b) : Pend b' pend := by
  intro t ht; obtain ⟨r, hr, ho⟩ := h t ht; exact ⟨r, hr, Nat.le_trans hb ho⟩

theorem pend_nil (b : Nat) : Pend b [] := by intro t ht; cases ht

theorem pend_snoc {b : Nat} {pend} {o : Elem} (h : Pend b pend) (ho : b ≤ o.R) : Pend b (pend ++ [.el o]) := by
  intro t ht
  rcases List.mem_append.1 ht with h' | h'
  · exact h t h'
  · simp at h'; exact ⟨o.R, by simp [h', stackR], ho⟩

theorem noFnTop_lp (st : List Tok) : NoFnTop (.lp :: st) := by intro f r h; cases h
theorem noFnTop_nil : NoFnTop [] := by intro f r h; cases h
theorem noFnTop_op {o : Elem} (ho : o.isOp = true) (st : List Tok) : NoFnTop (.el o :: st) := by
  intro f r h; cases h; exact ho

/-- a group `( body )` where `body` leaves `pend` waiting above the parenthesis and the entry below the parenthesis
    is not a function -/
theorem close_group (ts q pend st : List Tok) (b : Nat) (h : Pend b pend) (hst : NoFnTop st) :
    sy (.rp :: ts) q (pend ++ .lp :: st) = sy ts (q ++ pend) st := by
  cases st with
  | nil => simp only [sy, popToParen_pend b pend [] h]
  | cons t r =>
    cases t with
    | el f =>
      have := hst f r rfl
      simp only [sy, popToParen_pend b pend _ h, this, if_true]
    | _ => simp only [sy, popToParen_pend b pend _ h]

theorem close_call (ts q pend st : List Tok) (b : Nat) (f : Elem) (hf : f.isOp = false) (h : Pend b pend) :
    sy (.rp :: ts) q (pend ++ .lp :: .el f :: st) = sy ts (q ++ pend ++ [.el f]) st := by
  simp [sy, popToParen_pend b pend (.el f :: st) h, hf]

theorem sy_op (o : Elem) (ho : o.isOp = true) (ha : o.assoc ≠ 0) (ts q st : List Tok) :
    sy (.el o :: ts) q st = sy ts (q ++ (popWhile o.L st).1) (.el o :: (popWhile o.L st).2) := by
  simp only [sy, ho, if_true, popOps_eq_popWhile o ha]

theorem sy_fn (f : Elem) (hf : f.isOp = false) (ts q st : List Tok) :
    sy (.el f :: ts) q st = sy ts q (.el f :: st) := by
  simp [sy, hf]

/-- operands go straight to the queue -/
theorem sy_operands (ws : List String) (ts q st : List Tok) :
    sy (ws.map .operand ++ ts) q st = sy ts (q ++ ws.map .operand) st := by
  induction ws generalizing q with
  | nil => simp
  | cons w ws ih => simp only [List.map_cons, List.cons_append, sy]; rw [ih]; simp [List.append_assoc]

/-- the invariant: reading a writing of `e` in context `(a, b)` appends the postfix form of `e` to the queue,
    split between what is already in the queue and what is still waiting on the stack (all with level `≥ b`) -/
theorem sy_main {a b : Nat} {e : Expr} {ts0 : List Tok} (hp : Pr a b e ts0) : e.Shape →
    ∀ (q st ts : List Tok), Adm a st → NoFnTop st →
    ∃ q' pend, Pend b pend ∧ sy (ts0 ++ ts) q st = sy ts q' (pend ++ st) ∧ q' ++ pend = q ++ e.pfx := by
  induction hp with
  | leaf a b s =>
    intro _ q st ts _ _
    exact ⟨q ++ [.operand s], [], pend_nil _, by simp [sy], by simp [Expr.pfx]⟩
  | words a b ws =>
    intro _ q st ts _ _
    refine ⟨q ++ ws.map .operand, [], pend_nil _, ?_, by simp [Expr.pfx]⟩
    exact sy_operands ws ts q st
  | const a b f hf hb =>
    intro _ q st ts _ _
    refine ⟨q, [.el f], ?_, by simp [sy_fn f hf], by simp [Expr.pfx]⟩
    intro t ht; simp at ht; exact ⟨f.R, by simp [ht, stackR], hb⟩
  | un a b u x ts0 hu ha hb _ ih =>
    intro hs q st ts hadm _
    obtain ⟨hassoc, hsx⟩ := hs
    have hpop : popWhile u.L st = ([], st) := hadm u.L ha
    obtain ⟨q1, pe, hpe, hrun, hq1⟩ := ih hsx q (.el u :: st) ts (adm_push u st) (noFnTop_op hu st)
    refine ⟨q1, pe ++ [.el u], pend_snoc hpe hb, ?_, ?_⟩
    · show sy (.el u :: (ts0 ++ ts)) q st = _
      rw [sy_op u hu (hassoc hu), hpop]; simp only [List.append_nil]; rw [hrun]; simp [List.append_assoc]
    · simp only [Expr.pfx, ← List.append_assoc]; rw [hq1]
  | bin a b o l r tl tr ho ha hb _ _ ihl ihr =>
    intro hs q st ts hadm hnf
    obtain ⟨hassoc, hsl, hsr⟩ := hs
    obtain ⟨q1, pl, hpl, hrun1, hq1⟩ := ihl hsl q st (.el o :: tr ++ ts) hadm hnf
    obtain ⟨q3, prr, hpr, hrun3, hq3⟩ :=
      ihr hsr (q1 ++ pl) (.el o :: st) ts (adm_push o st) (noFnTop_op ho st)
    refine ⟨q3, prr ++ [.el o], pend_snoc hpr hb, ?_, ?_⟩
    · have e1 : (tl ++ .el o :: tr) ++ ts = tl ++ (.el o :: tr ++ ts) := by simp [List.append_assoc]
      rw [e1, hrun1]
      show sy (.el o :: (tr ++ ts)) q1 (pl ++ st) = _
      rw [sy_op o ho (hassoc ho), popWhile_pend o.L pl st hpl (adm_mono hadm ha)]
      simp only; rw [hrun3]; simp [List.append_assoc]
    · simp only [Expr.pfx, ← List.append_assoc]; rw [hq3, hq1]
  | call1 a b f x ts0 hf _ ih =>
    intro hs q st ts _ _
    obtain ⟨_, hsx⟩ := hs
    obtain ⟨q1, pe, hpe, hrun, hq1⟩ := ih hsx q (.lp :: .el f :: st) (.rp :: ts) (adm_lp 0 _) (noFnTop_lp _)
    refine ⟨q1 ++ pe ++ [.el f], [], pend_nil _, ?_, ?_⟩
    · have e1 : (.el f :: .lp :: ts0 ++ [.rp]) ++ ts = .el f :: .lp :: (ts0 ++ .rp :: ts) := by
        simp [List.append_assoc]
      rw [e1, sy_fn f hf]; simp only [sy]; rw [hrun, close_call ts q1 pe st 0 f hf hpe]; simp
    · simp only [Expr.pfx, List.append_nil, ← List.append_assoc]; rw [hq1]
  | call2 a b f l r tl tr hf _ _ ih1 ih2 =>
    intro hs q st ts _ _
    obtain ⟨_, hsl, hsr⟩ := hs
    obtain ⟨q1, p1, hp1, hrun1, hq1⟩ := ih1 hsl q (.lp :: .el f :: st) (.comma :: tr ++ .rp :: ts)
      (adm_lp 0 _) (noFnTop_lp _)
    obtain ⟨q2, p2, hp2, hrun2, hq2⟩ := ih2 hsr (q1 ++ p1) (.lp :: .el f :: st) (.rp :: ts)
      (adm_lp 0 _) (noFnTop_lp _)
    refine ⟨q2 ++ p2 ++ [.el f], [], pend_nil _, ?_, ?_⟩
    · have e1 : (.el f :: .lp :: tl ++ .comma :: tr ++ [.rp]) ++ ts
          = .el f :: .lp :: (tl ++ (.comma :: tr ++ .rp :: ts)) := by
        simp [List.append_assoc]
      rw [e1, sy_fn f hf]; simp only [sy]; rw [hrun1]
      show sy (.comma :: (tr ++ .rp :: ts)) q1 (p1 ++ .lp :: .el f :: st) = _
      simp only [sy, popToParen_pend 0 p1 (.el f :: st) hp1]
      rw [hrun2, close_call ts q2 p2 st 0 f hf hp2]; simp
    · simp only [Expr.pfx, List.append_nil, ← List.append_assoc]; rw [hq2, hq1]
  | paren a b e ts0 _ ih =>
    intro hs q st ts _ hnf
    obtain ⟨q', pend, hp, hrun, hq⟩ := ih hs q (.lp :: st) (.rp :: ts) (adm_lp 0 st) (noFnTop_lp _)
    refine ⟨q' ++ pend, [], pend_nil _, ?_, by simpa using hq⟩
    have e1 : (.lp :: ts0 ++ [.rp]) ++ ts = .lp :: (ts0 ++ .rp :: ts) := by simp [List.append_assoc]
    rw [e1]; simp only [sy]; rw [hrun, close_group ts q' pend st 0 hp hnf]; simp

/-- token-level correctness of the loop -/
theorem sy_prints {e : Expr} {ts : List Tok} (hs : e.Shape) (hp : Prints e ts) : sy ts [] [] = .ok e.pfx := by
  obtain ⟨q', pend, hpe, hrun, hq⟩ := sy_main hp hs [] [] [] (adm_nil 0) noFnTop_nil
  have : ts = ts ++ [] := by simp
  rw [this, hrun]
  have hall : (pend ++ []).all (fun t => t != Tok.lp && t != Tok.rp) = true := by
    simp only [List.append_nil, List.all_eq_true]
    intro t ht; obtain ⟨r, hr, _⟩ := hpe t ht
    cases t <;> simp [stackR] at hr <;> simp
  rw [sy, if_pos hall]
  simp only [List.nil_append, List.append_nil] at hq ⊢
  rw [hq]

end Op
