import FlVerif.Gen.CodeFld

/-! # Tie A for the FLD grid: `Op.increment` and the grid loop of `FldExporter.write_from_scope` as translated
from the current source equal the models `Op.Fld.increment` / `Op.Fld.grid` / `correctedRoot` / `resolutionAll` -/

namespace Py

theorem nthInt_mid {α : Type} (a : List α) (d : α) (b : List α) (n : Nat) (h : a.length = n) :
    nthInt (a ++ d :: b) (n : Int) = .ok d := by
  subst h
  rw [nthInt_natCast _ _ (by simp)]
  simp

theorem setInt_mid {α : Type} (a : List α) (d v : α) (b : List α) (n : Nat) (h : a.length = n) :
    setInt (a ++ d :: b) (n : Int) v = .ok (a ++ v :: b) := by
  subst h
  rw [setInt_natCast _ _ _ (by simp)]
  simp

end Py

namespace Op.Fld
open Gen.Code

/-! ## `Op.increment` -/

/-- the recursion at position `ra.length` of `x = ra.reverse ++ d :: b` is `incRev` on the reversed prefix; the
    elements behind the position are untouched -/
theorem code_incRev : ∀ (ra : List Nat) (rm : List Int) (rz : List Nat) (fuel : Nat) (d : Nat) (m : Int)
    (b : List Nat) (bm : List Int) (bz : List Nat) (σ0 : Op_increment.S),
    ra.length = rm.length → ra.length = rz.length → (∀ z ∈ rz, z = 0) → ra.length < fuel →
    ∃ σ', Op_increment.rec fuel (ra.reverse ++ d :: b) (rz.reverse ++ 0 :: bz) (rm.reverse ++ m :: bm)
        (some (ra.length : Int)) σ0 = .ok σ' ∧
      σ'.x = (incRev (d :: ra) ((m :: rm).map Int.toNat)).1.reverse ++ b ∧
      σ'.ret = some (incRev (d :: ra) ((m :: rm).map Int.toNat)).2 := by
  intro ra
  induction ra with
  | nil =>
    intro rm rz fuel d m b bm bz σ0 h1 h2 hz hf
    cases rm with
    | cons _ _ => simp at h1
    | nil =>
    cases rz with
    | cons _ _ => simp at h2
    | nil =>
    cases fuel with
    | zero => simp at hf
    | succ f =>
    have hx : Py.nthInt (d :: b) (0 : Int) = .ok d := Py.nthInt_mid [] d b 0 rfl
    have hm : Py.nthInt (m :: bm) (0 : Int) = .ok m := Py.nthInt_mid [] m bm 0 rfl
    have hn : Py.nthInt (0 :: bz) (0 : Int) = .ok (0 : Nat) := Py.nthInt_mid [] 0 bz 0 rfl
    have hs : ∀ v, Py.setInt (d :: b) (0 : Int) v = .ok (v :: b) := fun v => Py.setInt_mid [] d v b 0 rfl
    by_cases hlt : (d : Int) < m
    · have hlt' : d < m.toNat := by omega
      simp [Op_increment.rec, bind, Except.bind, hx, hm, hs, hlt, hlt', incRev]
    · have hlt' : ¬ d < m.toNat := by omega
      simp [Op_increment.rec, bind, Except.bind, hx, hm, hn, hs, hlt, hlt', incRev]
  | cons e ra ih =>
    intro rm rz fuel d m b bm bz σ0 h1 h2 hz hf
    cases rm with
    | nil => simp at h1
    | cons me rm =>
    cases rz with
    | nil => simp at h2
    | cons ze rz =>
    cases fuel with
    | zero => simp at hf
    | succ f =>
    have hze : ze = 0 := hz ze (by simp)
    subst hze
    have hlen : ((e :: ra).reverse).length = ra.length + 1 := by simp
    have hx : Py.nthInt ((e :: ra).reverse ++ d :: b) ((ra.length + 1 : Nat) : Int) = .ok d :=
      Py.nthInt_mid _ d b _ hlen
    have hm : Py.nthInt ((me :: rm).reverse ++ m :: bm) ((ra.length + 1 : Nat) : Int) = .ok m :=
      Py.nthInt_mid _ m bm _ (by simp at h1 ⊢; omega)
    have hn : Py.nthInt ((0 :: rz).reverse ++ 0 :: bz) ((ra.length + 1 : Nat) : Int) = .ok (0 : Nat) :=
      Py.nthInt_mid _ 0 bz _ (by simp at h2 ⊢; omega)
    have hs : ∀ v, Py.setInt ((e :: ra).reverse ++ d :: b) ((ra.length + 1 : Nat) : Int) v
        = .ok ((e :: ra).reverse ++ v :: b) := fun v => Py.setInt_mid _ d v b _ hlen
    have hpos : ((ra.length + 1 : Nat) : Int) - ((1 : Nat) : Int) = (ra.length : Int) := by omega
    have hne : ¬ ((ra.length + 1 : Nat) : Int) < 0 := by omega
    have hge : (0 : Int) ≤ (ra.length : Int) := by omega
    have hemp : ((e :: ra).reverse ++ d :: b).isEmpty = false := by simp
    obtain ⟨σ', hrun, hx', hret'⟩ := ih rm rz f e me (0 :: b) (m :: bm) (0 :: bz) {} (by simpa using h1) (by simpa using h2)
      (fun z hzm => hz z (by simp [hzm])) (by simp at hf; omega)
    have hrun' : Op_increment.rec f ((e :: ra).reverse ++ 0 :: b) ((0 :: rz).reverse ++ 0 :: bz)
        ((me :: rm).reverse ++ m :: bm) (some (ra.length : Int)) {} = .ok σ' := by
      simpa [List.reverse_cons, List.append_assoc] using hrun
    by_cases hlt : (d : Int) < m
    · have hlt' : d < m.toNat := by omega
      simp only [Op_increment.rec, List.length_cons]
      simp only [bind, Except.bind, hx, hm, hs, hemp, hne, hlt, Py.deref_some, Option.isNone_some, Bool.false_eq_true,
        if_false, if_true, Bool.not_false, Bool.not_true, decide_true, decide_false, id, Int.natCast_zero]
      refine ⟨_, rfl, ?_, ?_⟩
      · simp [incRev, hlt']
      · simp [incRev, hlt']
    · have hlt' : ¬ d < m.toNat := by omega
      simp only [Op_increment.rec, List.length_cons]
      simp only [bind, Except.bind, hx, hm, hn, hs, hemp, hne, hlt, hpos, hge, hrun', Py.deref_some, Option.isNone_some,
        Bool.false_eq_true, if_false, if_true, Bool.not_false, Bool.not_true, decide_true, decide_false, id,
        Int.natCast_zero, ge_iff_le, hret']
      refine ⟨_, rfl, ?_, ?_⟩
      · simp [incRev, hlt', hx']
      · simp [incRev, hlt']

/-- a call without position starts at the last position -/
theorem rec_none (f : Nat) (x mn : List Nat) (mx : List Int) (σ0 : Op_increment.S) :
    Op_increment.rec (f + 1) x mn mx none σ0
      = Op_increment.rec (f + 1) x mn mx (some (((x.length : Nat) : Int) - ((1 : Nat) : Int))) σ0 := by
  simp only [Op_increment.rec, Option.isNone_none, Option.isNone_some, if_true, Bool.false_eq_true, if_false]

/-- **`Op.increment` as translated from the source = the model `Op.Fld.increment`** (minimum values 0, one maximum
    per digit): the list after the call and the returned flag -/
theorem code_increment (x : List Nat) (mx : List Int) (h : mx.length = x.length) :
    ∃ σ, Op_increment.run x (List.replicate x.length 0) mx none {} = .ok σ ∧
      σ.x = (increment x (mx.map Int.toNat)).1 ∧ σ.ret = some (increment x (mx.map Int.toNat)).2 := by
  unfold Op_increment.run increment
  rw [rec_none]
  cases hx : x.reverse with
  | nil =>
    have hx0 : x = [] := by simpa using hx
    subst hx0
    simp [Op_increment.rec, bind, Except.bind, incRev]
  | cons d ra =>
    have hx0 : x = ra.reverse ++ [d] := by
      have := congrArg List.reverse hx; simpa using this
    cases hm : mx.reverse with
    | nil =>
      have : mx = [] := by simpa using hm
      subst this; subst hx0; simp at h
    | cons m rm =>
      have hm0 : mx = rm.reverse ++ [m] := by
        have := congrArg List.reverse hm; simpa using this
      subst hx0; subst hm0
      have hlen : ra.length = rm.length := by simp at h; omega
      have hrep : List.replicate (ra.reverse ++ [d]).length 0 = (List.replicate ra.length 0).reverse ++ [0] := by
        simp [List.replicate_succ']
      have hpos : (((ra.reverse ++ [d]).length : Nat) : Int) - ((1 : Nat) : Int) = (ra.length : Int) := by
        simp
      rw [hrep, hpos]
      obtain ⟨σ', hrun, h1, h2⟩ := code_incRev ra rm (List.replicate ra.length 0) ((ra.reverse ++ [d]).length + 1) d m [] [] [] {}
        hlen (by simp) (fun z hz => (List.mem_replicate.mp hz).2) (by simp; omega)
      refine ⟨σ', hrun, ?_, ?_⟩
      · rw [h1]; simp
      · rw [h2]; simp

/-! ## the root computation of `write_from_scope` -/

/-- `while root**inputs > values: root -= 1` is `down` (the guess bounds the number of steps) -/
theorem code_down (vars : List Py.Fld.Var) (v : Nat) (av : Bool) (guess : Nat → Nat → Nat) (n : Nat) (hn : 0 < n)
    (σ : write_from_scope.S) : ∀ (f k : Nat), k ≤ f →
      write_from_scope.loop3 vars v av guess (f + 1) { σ with inputs := n, root := (k : Int) }
        = .ok { σ with inputs := n, root := ((down n v f k : Nat) : Int) }
  | 0, k, hk => by
    have hk0 : k = 0 := by omega
    subst hk0
    have : ¬ (((0 : Nat) : Int) ^ n > (v : Int)) := by
      rw [Int.natCast_zero, zero_pow (by omega)]; omega
    simp only [write_from_scope.loop3, down, this, decide_false, Bool.false_eq_true, if_false]
  | f + 1, k, hk => by
    have hcast : ((k : Int) ^ n > (v : Int)) ↔ k ^ n > v := by
      rw [gt_iff_lt, gt_iff_lt, ← Int.natCast_pow, Int.ofNat_lt]
    by_cases hc : k ^ n > v
    · have hk1 : 1 ≤ k := by
        rcases Nat.eq_zero_or_pos k with h0 | h0
        · subst h0; rw [zero_pow (by omega)] at hc; omega
        · exact h0
      have hroot : (k : Int) - ((1 : Nat) : Int) = ((k - 1 : Nat) : Int) := by omega
      have ih := code_down vars v av guess n hn σ f (k - 1) (by omega)
      rw [write_from_scope.loop3]
      simp only [hcast.mpr hc, decide_true, if_true, hroot]
      rw [ih]
      simp only [down, hc, if_true]
    · have hc' : ¬ ((k : Int) ^ n > (v : Int)) := fun h => hc (hcast.mp h)
      rw [write_from_scope.loop3]
      simp only [hc', decide_false, Bool.false_eq_true, if_false, down, hc]

/-- `while (root + 1)**inputs <= values: root += 1` is `up` (at most `values` steps) -/
theorem code_up (vars : List Py.Fld.Var) (v : Nat) (av : Bool) (guess : Nat → Nat → Nat) (n : Nat) (hn : 0 < n)
    (σ : write_from_scope.S) : ∀ (f k : Nat), v ≤ k + f →
      write_from_scope.loop4 vars v av guess (f + 1) { σ with inputs := n, root := (k : Int) }
        = .ok { σ with inputs := n, root := ((up n v f k : Nat) : Int) }
  | 0, k, hk => by
    have hcast : (((k : Int) + ((1 : Nat) : Int)) ^ n ≤ (v : Int)) ↔ (k + 1) ^ n ≤ v := by
      rw [← Int.natCast_add, ← Int.natCast_pow, Int.ofNat_le]
    have hc : ¬ (k + 1) ^ n ≤ v := by
      have := Nat.le_self_pow (Nat.pos_iff_ne_zero.mp hn) (k + 1)
      omega
    have hc' : ¬ (((k : Int) + ((1 : Nat) : Int)) ^ n ≤ (v : Int)) := fun h => hc (hcast.mp h)
    rw [write_from_scope.loop4]
    simp only [hc', decide_false, Bool.false_eq_true, if_false, up]
  | f + 1, k, hk => by
    have hcast : (((k : Int) + ((1 : Nat) : Int)) ^ n ≤ (v : Int)) ↔ (k + 1) ^ n ≤ v := by
      rw [← Int.natCast_add, ← Int.natCast_pow, Int.ofNat_le]
    by_cases hc : (k + 1) ^ n ≤ v
    · have ih := code_up vars v av guess n hn σ f (k + 1) (by omega)
      have hroot : (k : Int) + ((1 : Nat) : Int) = ((k + 1 : Nat) : Int) := by omega
      have hc2 : ((k + 1 : Nat) : Int) ^ n ≤ (v : Int) := by rw [← hroot]; exact hcast.mpr hc
      rw [write_from_scope.loop4]
      simp only [hroot, hc2, decide_true, if_true]
      rw [ih]
      simp only [up, hc, if_true]
    · have hc' : ¬ (((k : Int) + ((1 : Nat) : Int)) ^ n ≤ (v : Int)) := fun h => hc (hcast.mp h)
      rw [write_from_scope.loop4]
      simp only [hc', decide_false, Bool.false_eq_true, if_false, up, hc]

/-! ## the rows -/

/-- the value the exporter writes for one input variable: `minimum + index * (drange / max(1.0, resolution))` for an
    active variable, the last element of its current value otherwise -/
def cell (res : Int) (sv : List Nat) (p : Nat × Py.Fld.Var) : X Rat :=
  if p.2.active then
    X.add p.2.minimum (X.mul (X.fin ((sv.getD p.1 0 : Nat) : Rat)) (X.div p.2.drange (X.pymax (.fin 1) (X.fin ((res : Int) : Rat)))))
  else p.2.value

/-- the row of input values for the sample indices `sv` -/
def rowOf (vars : List Py.Fld.Var) (res : Int) (sv : List Nat) : List (X Rat) := (Py.enumerate vars).map (cell res sv)

theorem enumerate_lt {α : Type} (l : List α) : ∀ p ∈ Py.enumerate l, p.1 < l.length := by
  intro p hp
  unfold Py.enumerate at hp
  obtain ⟨q, hq, rfl⟩ := List.mem_map.mp hp
  have := List.mem_zipIdx (x := q.1) (i := q.2) (xs := l) (k := 0) hq
  simp only at this ⊢
  omega

/-- the inner `for` loop appends one cell per variable; it changes nothing else but its own scratch variables -/
theorem code_row (vars : List Py.Fld.Var) (v : Nat) (av : Bool) (guess : Nat → Nat → Nat) :
    ∀ (l : List (Nat × Py.Fld.Var)) (σ : write_from_scope.S), (∀ p ∈ l, p.1 < σ.sample_values.length) →
    ∃ τ : write_from_scope.S, write_from_scope.loop2 vars v av guess l σ
      = .ok { σ with row := σ.row ++ l.map (cell σ.resolution σ.sample_values),
                     index := τ.index, variable_ := τ.variable_, dx := τ.dx, value := τ.value }
  | [], σ, _ => ⟨σ, by simp [write_from_scope.loop2]⟩
  | p :: rest, σ, h => by
    have hp : p.1 < σ.sample_values.length := h p (by simp)
    have hnth : Py.nth σ.sample_values p.1 = .ok (σ.sample_values.getD p.1 0) := by
      simp [Py.nth, List.getD, hp]
    by_cases ha : p.2.active = true
    · obtain ⟨τ, hτ⟩ := code_row vars v av guess rest
        { σ with index := p.1, variable_ := p.2,
                 dx := X.div p.2.drange (X.pymax (.fin 1) (X.fin ((σ.resolution : Int) : Rat))),
                 value := cell σ.resolution σ.sample_values p,
                 row := σ.row ++ [cell σ.resolution σ.sample_values p] } (fun q hq => h q (by simp [hq]))
      refine ⟨τ, ?_⟩
      rw [write_from_scope.loop2]
      simp only [ha, if_true, hnth, bind, Except.bind]
      simp only [cell, ha, if_true] at hτ ⊢
      rw [hτ]
      simp [cell, ha, List.getD]
    · obtain ⟨τ, hτ⟩ := code_row vars v av guess rest
        { σ with index := p.1, variable_ := p.2,
                 row := σ.row ++ [cell σ.resolution σ.sample_values p] } (fun q hq => h q (by simp [hq]))
      refine ⟨τ, ?_⟩
      rw [write_from_scope.loop2]
      simp only [ha, if_false, Bool.false_eq_true]
      simp only [cell, ha, if_false, Bool.false_eq_true] at hτ ⊢
      rw [hτ]
      simp [cell, ha]

/-! ## the `while incremented` loop -/

/-- the model loop with this fuel stops because `increment` reports `false`, not because the fuel is used up -/
def Ends (mx : List Nat) : Nat → List Nat → Prop
  | 0, _ => False
  | f + 1, ds => (incRev ds mx).2 = true → Ends mx f (incRev ds mx).1

theorem incRev_length : ∀ (ds ms : List Nat), (incRev ds ms).1.length = ds.length
  | [], _ => by simp [incRev]
  | d :: ds, [] => by simp [incRev]
  | d :: ds, m :: ms => by
    simp only [incRev]
    split
    · simp
    · simp [incRev_length ds ms]

/-- the grid loop of the translated code emits the rows of the model loop -/
theorem code_loop (vars : List Py.Fld.Var) (v : Nat) (av : Bool) (guess : Nat → Nat → Nat) (mxI : List Int)
    (hmx : mxI.length = vars.length) :
    ∀ (f : Nat) (ds : List Nat) (σ : write_from_scope.S), ds.length = vars.length →
      Ends ((mxI.map Int.toNat).reverse) f ds →
    ∃ τ : write_from_scope.S, write_from_scope.loop1 vars v av guess (f + 1)
        { σ with incremented := true, sample_values := ds.reverse, max_values := mxI,
                 min_values := List.replicate vars.length 0 }
      = .ok { σ with max_values := mxI, min_values := List.replicate vars.length 0,
                     input_values := σ.input_values ++
                       (loop ((mxI.map Int.toNat).reverse) f ds).map (fun r => rowOf vars σ.resolution r.reverse),
                     sample_values := τ.sample_values, incremented := τ.incremented, row := τ.row,
                     index := τ.index, variable_ := τ.variable_, dx := τ.dx, value := τ.value }
  | 0, ds, σ, _, he => absurd he (by simp [Ends])
  | f + 1, ds, σ, hl, he => by
    obtain ⟨τ2, h2⟩ := code_row vars v av guess (Py.enumerate vars)
      { σ with incremented := true, sample_values := ds.reverse, max_values := mxI,
               min_values := List.replicate vars.length 0, row := [] }
      (by intro p hp; have := enumerate_lt vars p hp; simp only [List.length_reverse]; omega)
    dsimp only at h2
    obtain ⟨r, hr, hrx, hrr⟩ := code_increment ds.reverse mxI (by simp [hmx, hl])
    have hrep : List.replicate vars.length (0 : Nat) = List.replicate ds.reverse.length 0 := by simp [hl]
    simp only [increment, List.reverse_reverse, ← List.map_reverse] at hrx hrr
    rw [List.map_reverse] at hrx hrr
    have hr' : Op_increment.run ds.reverse (List.replicate vars.length 0) mxI none {} = .ok r := by
      rw [hrep]; exact hr
    rw [write_from_scope.loop1]
    simp only [if_true, h2, bind, Except.bind]
    simp only [hr', hrr, Py.deref_some, hrx, List.nil_append]
    cases hb : (incRev ds (mxI.map Int.toNat).reverse).2 with
    | false =>
      rw [write_from_scope.loop1]
      simp only [Bool.false_eq_true, if_false, loop, hb, List.map_cons, List.map_nil, rowOf]
      exact ⟨{ σ with sample_values := (incRev ds (mxI.map Int.toNat).reverse).1.reverse, incremented := false,
                      row := (Py.enumerate vars).map (cell σ.resolution ds.reverse),
                      index := τ2.index, variable_ := τ2.variable_, dx := τ2.dx, value := τ2.value }, rfl⟩
    | true =>
      have he' : Ends ((mxI.map Int.toNat).reverse) f (incRev ds (mxI.map Int.toNat).reverse).1 := by
        simp only [Ends] at he; exact he hb
      obtain ⟨τ, hτ⟩ := code_loop vars v av guess mxI hmx f (incRev ds (mxI.map Int.toNat).reverse).1
        { σ with input_values := σ.input_values ++ [rowOf vars σ.resolution ds.reverse],
                 row := (Py.enumerate vars).map (cell σ.resolution ds.reverse),
                 index := τ2.index, variable_ := τ2.variable_, dx := τ2.dx, value := τ2.value }
        (by rw [incRev_length, hl]) he'
      refine ⟨τ, ?_⟩
      simp only [rowOf] at hτ ⊢
      rw [hτ]
      simp [loop, hb]

/-! ## termination of the grid loop and the whole function -/

theorem valid_zeros' : ∀ (ms : List Nat), Valid (ms.map (fun _ => 0)) ms
  | [] => trivial
  | _ :: ms => ⟨Nat.zero_le _, valid_zeros' ms⟩

theorem rank_zeros' : ∀ (ms : List Nat), rank (ms.map (fun _ => 0)) ms = 0
  | [] => rfl
  | _ :: ms => by simp [rank, rank_zeros' ms]

theorem total_append (a : Nat) : ∀ (l : List Nat), total (l ++ [a]) = total l * (a + 1)
  | [] => by simp [total]
  | m :: l => by simp [total, total_append a l, Nat.mul_assoc]

theorem total_reverse : ∀ (l : List Nat), total l.reverse = total l
  | [] => rfl
  | m :: l => by simp [total, total_append, total_reverse l, Nat.mul_comm]

/-- the successor property of `incRev` (theorem `C18.increment_lex_succ`) -/
def SuccProp : Prop := ∀ (ds ms : List Nat), Valid ds ms → ds ≠ [] →
    Valid (incRev ds ms).1 ms ∧
    (if rank ds ms + 1 < total ms
      then (incRev ds ms).2 = true ∧ rank (incRev ds ms).1 ms = rank ds ms + 1
      else (incRev ds ms).2 = false ∧ rank (incRev ds ms).1 ms = 0)

/-- a valid tuple of rank `r` is at most `total - r` steps away from the end of the grid -/
theorem ends_of_succ (hsucc : SuccProp) (hrank : ∀ ds ms, Valid ds ms → rank ds ms < total ms) (mx : List Nat) :
    ∀ (f : Nat) (ds : List Nat), Valid ds mx → total mx ≤ rank ds mx + f → Ends mx f ds
  | 0, ds, hv, h => by have := hrank ds mx hv; omega
  | f + 1, ds, hv, h => by
    intro hb
    by_cases hne : ds = []
    · subst hne; simp [incRev] at hb
    · obtain ⟨hv', hc⟩ := hsucc ds mx hv hne
      by_cases hlt : rank ds mx + 1 < total mx
      · rw [if_pos hlt] at hc
        exact ends_of_succ hsucc hrank mx f _ hv' (by rw [hc.2]; omega)
      · rw [if_neg hlt] at hc
        rw [hc.1] at hb; exact absurd hb (by simp)

theorem maxValues_toNat (vars : List Py.Fld.Var) (res : Int) :
    (vars.map (fun iv => if iv.active then res else ((0 : Nat) : Int))).map Int.toNat
      = maxValues (vars.map (·.active)) res.toNat := by
  simp only [maxValues, List.map_map]
  apply List.map_congr_left
  intro iv _
  cases h : iv.active <;> simp [h]

/-- the part of `write_from_scope` after the resolution is known -/
theorem code_tail (hsucc : SuccProp) (hrank : ∀ ds ms, Valid ds ms → rank ds ms < total ms)
    (vars : List Py.Fld.Var) (v : Nat) (av : Bool) (guess : Nat → Nat → Nat) (σ : write_from_scope.S) :
    ∃ τ : write_from_scope.S,
      write_from_scope.loop1 vars v av guess
          (total ((vars.map (fun iv => if iv.active then σ.resolution else ((0 : Nat) : Int))).map Int.toNat) + 1)
          { σ with sample_values := List.replicate vars.length 0, min_values := List.replicate vars.length 0,
                   max_values := vars.map (fun iv => if iv.active then σ.resolution else ((0 : Nat) : Int)),
                   input_values := [], incremented := true }
        = .ok { σ with max_values := vars.map (fun iv => if iv.active then σ.resolution else ((0 : Nat) : Int)),
                       min_values := List.replicate vars.length 0,
                       input_values := (grid (maxValues (vars.map (·.active)) σ.resolution.toNat)).map (rowOf vars σ.resolution),
                       sample_values := τ.sample_values, incremented := τ.incremented, row := τ.row,
                       index := τ.index, variable_ := τ.variable_, dx := τ.dx, value := τ.value } := by
  have hlenA : (maxValues (vars.map (·.active)) σ.resolution.toNat).length = vars.length := by simp [maxValues]
  have hzero : (maxValues (vars.map (·.active)) σ.resolution.toNat).reverse.map (fun _ => 0)
      = List.replicate vars.length 0 := by
    rw [List.map_const']; simp [hlenA]
  have hends := ends_of_succ hsucc hrank (maxValues (vars.map (·.active)) σ.resolution.toNat).reverse
    (total (maxValues (vars.map (·.active)) σ.resolution.toNat))
    (List.replicate vars.length 0)
    (by rw [← hzero]; exact valid_zeros' _)
    (by rw [← hzero, rank_zeros', total_reverse]; omega)
  obtain ⟨τ, hτ⟩ := code_loop vars v av guess
    (vars.map (fun iv => if iv.active then σ.resolution else ((0 : Nat) : Int))) (by simp)
    (total (maxValues (vars.map (·.active)) σ.resolution.toNat)) (List.replicate vars.length 0)
    { σ with input_values := [] } (by simp) (by rw [maxValues_toNat]; exact hends)
  refine ⟨τ, ?_⟩
  simp only [maxValues_toNat, List.reverse_replicate, List.nil_append] at hτ ⊢
  rw [hτ]
  simp only [grid, gridRev, hzero, total_reverse, List.map_map]
  rfl

/-- **the grid part of `FldExporter.write_from_scope` as translated from the source = the model**: `ValueError` for
    `AllVariables` without input variables; otherwise the root is `correctedRoot` of the floating-point guess, the
    resolution is `resolutionAll` (`values - 1` for `EachVariable`), the maxima are `maxValues` and the rows are the
    rows of `grid` in its order.  `hsucc`, `hrank`, `hroot` are the theorems `increment_lex_succ`, `rank_lt`,
    `correctedRoot_eq` of `Props/C18.lean`. -/
theorem code_grid_of (hsucc : SuccProp) (hrank : ∀ ds ms, Valid ds ms → rank ds ms < total ms)
    (hroot : ∀ n v g, 0 < n → correctedRoot n v g = iroot n v)
    (vars : List Py.Fld.Var) (values : Nat) (allVariables : Bool) (guess : Nat → Nat → Nat) :
    if allVariables = true ∧ vars = [] then
      write_from_scope.run vars values allVariables guess {} = .error .value
    else
      let res := if allVariables then resolutionAll vars.length values else resolutionEach values
      let mx := maxValues (vars.map (·.active)) res
      ∃ σ, write_from_scope.run vars values allVariables guess {} = .ok σ ∧
        (allVariables = true → σ.root = ((correctedRoot vars.length values (guess values vars.length) : Nat) : Int)) ∧
        σ.resolution = (if allVariables then ((res : Nat) : Int) else (values : Int) - 1) ∧
        σ.max_values.map Int.toNat = mx ∧
        σ.input_values = (grid mx).map (rowOf vars σ.resolution) := by
  cases allVariables with
  | false =>
    simp only [Bool.false_eq_true, false_and, if_false]
    obtain ⟨τ, hτ⟩ := code_tail hsucc hrank vars values false guess
      { resolution := ((values : Nat) : Int) - ((1 : Nat) : Int) }
    have hres : (((values : Nat) : Int) - ((1 : Nat) : Int)).toNat = resolutionEach values := by
      unfold resolutionEach; omega
    simp only [hres] at hτ
    unfold write_from_scope.run
    simp only [Bool.false_eq_true, if_false, hτ, bind, Except.bind]
    refine ⟨_, rfl, by simp, by simp, ?_, rfl⟩
    simp only [maxValues_toNat, hres]
  | true =>
    by_cases hv : vars = []
    · subst hv
      simp [write_from_scope.run]
    · have hn : 0 < vars.length := List.length_pos_iff.mpr hv
      have hlen : ¬ (vars.length == 0) = true := by simp; omega
      simp only [hv, and_false, if_false, if_true]
      have hd := code_down vars values true guess vars.length hn {} (guess values vars.length) (guess values vars.length)
        (Nat.le_refl _)
      have hu := code_up vars values true guess vars.length hn {} values
        (down vars.length values (guess values vars.length) (guess values vars.length)) (by omega)
      have hcr : up vars.length values values
          (down vars.length values (guess values vars.length) (guess values vars.length))
          = correctedRoot vars.length values (guess values vars.length) := rfl
      rw [hcr] at hu
      have hres : ((-1 : Int) + max (((1 : Nat) : Int)) ((correctedRoot vars.length values (guess values vars.length) : Nat) : Int))
          = ((resolutionAll vars.length values : Nat) : Int) := by
        unfold resolutionAll; rw [hroot _ _ _ hn]; omega
      obtain ⟨τ, hτ⟩ := code_tail hsucc hrank vars values true guess
        { inputs := vars.length,
          root := ((correctedRoot vars.length values (guess values vars.length) : Nat) : Int),
          resolution := ((resolutionAll vars.length values : Nat) : Int) }
      simp only [Int.toNat_natCast] at hτ
      unfold write_from_scope.run
      simp only [if_true, hlen, Int.toNat_natCast, hd, hu, bind, Except.bind, hres, hτ]
      refine ⟨_, rfl, fun _ => rfl, rfl, ?_, rfl⟩
      simp only [maxValues_toNat, Int.toNat_natCast]

end Op.Fld
