import FlVerif.Gen.CodeFld

/-! # Tie A for the FLD grid: `Op.increment` and the grid loop of `FldExporter.write_from_scope` as translated
from the current source equal the models `Op.Fld.increment` / `Op.Fld.grid` / `correctedRoot` / `resolutionAll` -/

namespace Py

theorem nthInt_mid {α : Type} (a : List α) (d : α) (b : List α) (n : Nat) (h : a.length = n) :
    nthInt (a ++ d :: b) (n : Int) = .ok d := by
  subst h
  rw [nthInt_natCast _ _ (by simp)]
  simp

theorem setInt_mid {α : Type} (a : List α) (d v : α) (b : List α) (n : Nat) (h : a.length = n) :
    setInt (a ++ d :: b) (n : Int) v = .ok (a ++ v :: b) := by
  subst h
  rw [setInt_natCast _ _ _ (by simp)]
  simp

end Py

namespace Op.Fld
open Gen.Code

/-! ## `Op.increment` -/

/-- the recursion at position `ra.length` of `x = ra.reverse ++ d :: b` is `incRev` on the reversed prefix; the
    elements behind the position are untouched -/
theorem code_incRev : ∀ (ra : List Nat) (rm : List Int) (rz : List Nat) (fuel : Nat) (d : Nat) (m : Int)
    (b : List Nat) (bm : List Int) (bz : List Nat) (σ0 : Op_increment.S),
    ra.length = rm.length → ra.length = rz.length → (∀ z ∈ rz, z = 0) → ra.length < fuel →
    ∃ σ', Op_increment.rec fuel (ra.reverse ++ d :: b) (rz.reverse ++ 0 :: bz) (rm.reverse ++ m :: bm)
        (some (ra.length : Int)) σ0 = .ok σ' ∧
      σ'.x = (incRev (d :: ra) ((m :: rm).map Int.toNat)).1.reverse ++ b ∧
      σ'.ret = some (incRev (d :: ra) ((m :: rm).map Int.toNat)).2 := by
  intro ra
  induction ra with
  | nil =>
    intro rm rz fuel d m b bm bz σ0 h1 h2 hz hf
    cases rm with
    | cons _ _ => simp at h1
    | nil =>
    cases rz with
    | cons _ _ => simp at h2
    | nil =>
    cases fuel with
    | zero => simp at hf
    | succ f =>
    have hx : Py.nthInt (d :: b) (0 : Int) = .ok d := Py.nthInt_mid [] d b 0 rfl
    have hm : Py.nthInt (m :: bm) (0 : Int) = .ok m := Py.nthInt_mid [] m bm 0 rfl
    have hn : Py.nthInt (0 :: bz) (0 : Int) = .ok (0 : Nat) := Py.nthInt_mid [] 0 bz 0 rfl
    have hs : ∀ v, Py.setInt (d :: b) (0 : Int) v = .ok (v :: b) := fun v => Py.setInt_mid [] d v b 0 rfl
    by_cases hlt : (d : Int) < m
    · have hlt' : d < m.toNat := by omega
      simp [Op_increment.rec, bind, Except.bind, hx, hm, hn, hs, hlt, hlt', incRev]
    · have hlt' : ¬ d < m.toNat := by omega
      simp [Op_increment.rec, bind, Except.bind, hx, hm, hn, hs, hlt, hlt', incRev]
  | cons e ra ih =>
    intro rm rz fuel d m b bm bz σ0 h1 h2 hz hf
    cases rm with
    | nil => simp at h1
    | cons me rm =>
    cases rz with
    | nil => simp at h2
    | cons ze rz =>
    cases fuel with
    | zero => simp at hf
    | succ f =>
    have hze : ze = 0 := hz ze (by simp)
    subst hze
    have hlen : ((e :: ra).reverse).length = ra.length + 1 := by simp
    have hx : Py.nthInt ((e :: ra).reverse ++ d :: b) ((ra.length + 1 : Nat) : Int) = .ok d :=
      Py.nthInt_mid _ d b _ hlen
    have hm : Py.nthInt ((me :: rm).reverse ++ m :: bm) ((ra.length + 1 : Nat) : Int) = .ok m :=
      Py.nthInt_mid _ m bm _ (by simp at h1 ⊢; omega)
    have hn : Py.nthInt ((0 :: rz).reverse ++ 0 :: bz) ((ra.length + 1 : Nat) : Int) = .ok (0 : Nat) :=
      Py.nthInt_mid _ 0 bz _ (by simp at h2 ⊢; omega)
    have hs : ∀ v, Py.setInt ((e :: ra).reverse ++ d :: b) ((ra.length + 1 : Nat) : Int) v
        = .ok ((e :: ra).reverse ++ v :: b) := fun v => Py.setInt_mid _ d v b _ hlen
    have hpos : ((ra.length + 1 : Nat) : Int) - ((1 : Nat) : Int) = (ra.length : Int) := by omega
    have hne : ¬ ((ra.length + 1 : Nat) : Int) < 0 := by omega
    have hge : (0 : Int) ≤ (ra.length : Int) := by omega
    have hemp : ((e :: ra).reverse ++ d :: b).isEmpty = false := by simp
    obtain ⟨σ', hrun, hx', hret'⟩ := ih rm rz f e me (0 :: b) (m :: bm) (0 :: bz) {} (by simpa using h1) (by simpa using h2)
      (fun z hzm => hz z (by simp [hzm])) (by simp at hf; omega)
    have hrun' : Op_increment.rec f ((e :: ra).reverse ++ 0 :: b) ((0 :: rz).reverse ++ 0 :: bz)
        ((me :: rm).reverse ++ m :: bm) (some (ra.length : Int)) {} = .ok σ' := by
      simpa [List.reverse_cons, List.append_assoc] using hrun
    by_cases hlt : (d : Int) < m
    · have hlt' : d < m.toNat := by omega
      simp only [Op_increment.rec, List.length_cons]
      simp only [bind, Except.bind, hx, hm, hs, hemp, hne, hlt, Py.deref_some, Option.isNone_some, Bool.false_eq_true,
        if_false, if_true, Bool.not_false, Bool.not_true, decide_true, decide_false, id, Int.natCast_zero]
      refine ⟨_, rfl, ?_, ?_⟩
      · simp [incRev, hlt']
      · simp [incRev, hlt']
    · have hlt' : ¬ d < m.toNat := by omega
      simp only [Op_increment.rec, List.length_cons]
      simp only [bind, Except.bind, hx, hm, hn, hs, hemp, hne, hlt, hpos, hge, hrun', Py.deref_some, Option.isNone_some,
        Bool.false_eq_true, if_false, if_true, Bool.not_false, Bool.not_true, decide_true, decide_false, id,
        Int.natCast_zero, ge_iff_le, hret']
      refine ⟨_, rfl, ?_, ?_⟩
      · simp [incRev, hlt', hx']
      · simp [incRev, hlt']

/-- a call without position starts at the last position -/
theorem rec_none (f : Nat) (x mn : List Nat) (mx : List Int) (σ0 : Op_increment.S) :
    Op_increment.rec (f + 1) x mn mx none σ0
      = Op_increment.rec (f + 1) x mn mx (some (((x.length : Nat) : Int) - ((1 : Nat) : Int))) σ0 := by
  simp only [Op_increment.rec, Option.isNone_none, Option.isNone_some, if_true, Bool.false_eq_true, if_false]

/-- **`Op.increment` as translated from the source = the model `Op.Fld.increment`** (minimum values 0, one maximum
    per digit): the list after the call and the returned flag -/
theorem code_increment (x : List Nat) (mx : List Int) (h : mx.length = x.length) :
    ∃ σ, Op_increment.run x (List.replicate x.length 0) mx none {} = .ok σ ∧
      σ.x = (increment x (mx.map Int.toNat)).1 ∧ σ.ret = some (increment x (mx.map Int.toNat)).2 := by
  unfold Op_increment.run increment
  rw [rec_none]
  cases hx : x.reverse with
  | nil =>
    have hx0 : x = [] := by simpa using hx
    subst hx0
    simp [Op_increment.rec, bind, Except.bind, incRev]
  | cons d ra =>
    have hx0 : x = ra.reverse ++ [d] := by
      have := congrArg List.reverse hx; simpa using this
    cases hm : mx.reverse with
    | nil =>
      have : mx = [] := by simpa using hm
      subst this; subst hx0; simp at h
    | cons m rm =>
      have hm0 : mx = rm.reverse ++ [m] := by
        have := congrArg List.reverse hm; simpa using this
      subst hx0; subst hm0
      have hlen : ra.length = rm.length := by simp at h; omega
      have hrep : List.replicate (ra.reverse ++ [d]).length 0 = (List.replicate ra.length 0).reverse ++ [0] := by
        simp [List.replicate_succ']
      have hpos : (((ra.reverse ++ [d]).length : Nat) : Int) - ((1 : Nat) : Int) = (ra.length : Int) := by
        simp
      rw [hrep, hpos]
      obtain ⟨σ', hrun, h1, h2⟩ := code_incRev ra rm (List.replicate ra.length 0) ((ra.reverse ++ [d]).length + 1) d m [] [] [] {}
        hlen (by simp) (fun z hz => (List.mem_replicate.mp hz).2) (by simp; omega)
      refine ⟨σ', hrun, ?_, ?_⟩
      · rw [h1]; simp
      · rw [h2]; simp

end Op.Fld
