import FlVerif.Gen.CodeLoad
import FlVerif.Lemmas.CodeRule
import FlVerif.Lemmas.ConsequentLoad

/-! # Tie A for `Consequent.load`: the definition translated from the current source equals the model
`Op.consequentLoad`

The translated code keeps the variable *object* in a proposition and reaches the proposition under construction through
the alias `proposition` (last element of `conclusions`); the model keeps the variable *name* and looks it up again
(`lastTerms`), and updates the last conclusion with `updLast`.  Python's `if variable:` (a variable without terms is
false, `Variable.__len__`) is `Py.Load.varTruthy` in the code and part of `EngineInfo.findOut` in the model. -/

set_option linter.unusedSimpArgs false

namespace Py

theorem aliasLast_live_snoc {α : Type} (l : List α) (a : α) : aliasLast .live (l ++ [a]) = .ok a := by
  simp only [aliasLast, last, List.getLast?_concat]

theorem setLast_snoc {α : Type} (l : List α) (a b : α) : setLast (l ++ [a]) b = l ++ [b] := by
  simp only [setLast, List.dropLast_concat]

theorem exists_snoc {α : Type} : ∀ (l : List α), l ≠ [] → ∃ ps p, l = ps ++ [p]
  | [], h => absurd rfl h
  | [a], _ => ⟨[], a, rfl⟩
  | a :: b :: l, _ => by
    obtain ⟨ps, p, h⟩ := exists_snoc (b :: l) (by simp)
    exact ⟨a :: ps, p, by rw [h]; rfl⟩

end Py

namespace Op
open Lang Gen.Code Py.Load

/-- the conclusion of the model that a proposition object of the translated code stands for -/
def propConc (p : Proposition) : Conclusion := ⟨p.variable_.name, p.hedges, p.term_⟩

theorem findOut_eq_varGet (e : EngineInfo) (n : String) :
    e.findOut n = (varGet (outputs e) n).filter VarInfo.truthy := rfl

theorem varTruthy_eq (o : Option VarInfo) : varTruthy o = (o.filter VarInfo.truthy).isSome := by
  cases o with
  | none => rfl
  | some v => cases h : v.terms.isEmpty <;> simp [varTruthy, VarInfo.truthy, Option.filter, h]

/-- Python's truth value of `output_variables.get(token)` is "the model finds the name" -/
theorem varTruthy_findOut (e : EngineInfo) (n : String) : varTruthy (varGet (outputs e) n) = (e.findOut n).isSome := by
  rw [varTruthy_eq, findOut_eq_varGet]

theorem varGet_of_findOut {e : EngineInfo} {n : String} {v : VarInfo} (h : e.findOut n = some v) :
    varGet (outputs e) n = some v := by
  rw [findOut_eq_varGet, Option.filter_eq_some_iff] at h
  exact h.1

theorem findOut_name {e : EngineInfo} {n : String} {v : VarInfo} (h : e.findOut n = some v) : v.name = n := by
  have := List.find?_some (varGet_of_findOut h)
  simpa using this

/-- what the state of the translated loop and the configuration of the model's loop have in common -/
structure CRel (e : EngineInfo) (st : CFlags) (cs : List Conclusion) (σ : Consequent_load.S) : Prop where
  concl : σ.conclusions.map propConc = cs
  outs : σ.output_variables = outputs e
  found : ∀ p ∈ σ.conclusions, e.findOut p.variable_.name = some p.variable_
  state : (st = cVariable ∧ σ.state = 1 ∧ (σ.conclusions = [] → σ.proposition = .none)) ∨
    ((st = cIs ∧ σ.state = 2 ∨ st = cHedgeTerm ∧ σ.state = 12 ∨ st = cAndWith ∧ σ.state = 48) ∧ σ.conclusions ≠ [])
  live : σ.conclusions ≠ [] → σ.proposition = .live

/-- agreement of the two loops: the code only raises `SyntaxError`, and then the model's loop fails as well or stops
    in a state that the final check rejects -/
def CAgree (e : EngineInfo) (r : Except ErrKind (CFlags × List Conclusion)) (g : Py.M Consequent_load.S) : Prop :=
  match g with
  | .error err => err = .syntax ∧
      (match r with | .error k => k = .syntax | .ok (st, _) => (st.and_ || st.with_) = false)
  | .ok σ' => ∃ st cs, r = .ok (st, cs) ∧ CRel e st cs σ'

theorem CRel.state_var {e : EngineInfo} {cs : List Conclusion} {σ : Consequent_load.S} (h : CRel e cVariable cs σ) :
    σ.state = 1 ∧ (σ.conclusions = [] → σ.proposition = .none) := by
  rcases h.state with ⟨_, h1, h2⟩ | ⟨(⟨h, _⟩ | ⟨h, _⟩ | ⟨h, _⟩), _⟩
  · exact ⟨h1, h2⟩
  all_goals exact absurd h (by decide)

theorem code_cStep_var (e : EngineInfo) (text t : String) (ts : List String)
    (ih : ∀ st cs σ, CRel e st cs σ → CAgree e (cLoop e ts st cs) (Consequent_load.loop1 e text ts σ))
    (cs : List Conclusion) (σ : Consequent_load.S) (h : CRel e cVariable cs σ) :
    CAgree e (cLoop e (t :: ts) cVariable cs) (Consequent_load.loop1 e text (t :: ts) σ) := by
  obtain ⟨hs1, hn⟩ := h.state_var
  obtain ⟨hc, ho, hf, -, hl⟩ := h
  simp only [Consequent_load.loop1, cLoop, cStep, cVariable, hs1, ho, Nat.reduceAnd, Nat.reduceBNe, ↓reduceIte,
    Bool.true_and, Bool.false_and, varTruthy_findOut, Bool.false_eq_true, if_false]
  cases hv : e.findOut t with
  | none => simp only [Option.isSome_none, Bool.false_eq_true, if_false, CAgree, and_self]
  | some v =>
    have hname : v.name = t := findOut_name hv
    simp only [Option.isSome_some, if_true, varGet_of_findOut hv, Py.deref, bind, Except.bind]
    refine ih cIs _ _ ⟨?_, rfl, ?_, Or.inr ⟨Or.inl ⟨rfl, rfl⟩, by simp⟩, fun _ => rfl⟩
    · simp only [List.map_append, hc, List.map_cons, List.map_nil, propConc, hname]
    · intro p hp
      rcases List.mem_append.mp hp with hp | hp
      · exact hf p hp
      · rw [List.mem_singleton] at hp; subst hp
        show e.findOut v.name = some v
        rw [hname]; exact hv

theorem CRel.state_is {e : EngineInfo} {cs : List Conclusion} {σ : Consequent_load.S} (h : CRel e cIs cs σ) :
    σ.state = 2 ∧ σ.conclusions ≠ [] := by
  rcases h.state with ⟨h, _⟩ | ⟨(⟨_, h1⟩ | ⟨h, _⟩ | ⟨h, _⟩), h2⟩
  · exact absurd h (by decide)
  · exact ⟨h1, h2⟩
  all_goals exact absurd h (by decide)

theorem CRel.state_hedgeTerm {e : EngineInfo} {cs : List Conclusion} {σ : Consequent_load.S}
    (h : CRel e cHedgeTerm cs σ) : σ.state = 12 ∧ σ.conclusions ≠ [] := by
  rcases h.state with ⟨h, _⟩ | ⟨(⟨h, _⟩ | ⟨_, h1⟩ | ⟨h, _⟩), h2⟩
  · exact absurd h (by decide)
  · exact absurd h (by decide)
  · exact ⟨h1, h2⟩
  · exact absurd h (by decide)

theorem CRel.state_andWith {e : EngineInfo} {cs : List Conclusion} {σ : Consequent_load.S}
    (h : CRel e cAndWith cs σ) : σ.state = 48 ∧ σ.conclusions ≠ [] := by
  rcases h.state with ⟨h, _⟩ | ⟨(⟨h, _⟩ | ⟨h, _⟩ | ⟨_, h1⟩), h2⟩
  · exact absurd h (by decide)
  · exact absurd h (by decide)
  · exact absurd h (by decide)
  · exact ⟨h1, h2⟩

theorem code_cStep_is (e : EngineInfo) (text t : String) (ts : List String)
    (ih : ∀ st cs σ, CRel e st cs σ → CAgree e (cLoop e ts st cs) (Consequent_load.loop1 e text ts σ))
    (cs : List Conclusion) (σ : Consequent_load.S) (h : CRel e cIs cs σ) :
    CAgree e (cLoop e (t :: ts) cIs cs) (Consequent_load.loop1 e text (t :: ts) σ) := by
  obtain ⟨hs, hne⟩ := h.state_is
  obtain ⟨hc, ho, hf, -, hl⟩ := h
  simp only [Consequent_load.loop1, cLoop, cStep, cIs, hs, Nat.reduceAnd, Nat.reduceBNe, ↓reduceIte,
    Bool.true_and, Bool.false_and, Bool.false_eq_true, if_false]
  by_cases ht : t = "is"
  · subst ht
    simp only [beq_self_eq_true, if_true]
    exact ih cHedgeTerm _ _ ⟨hc, ho, hf, Or.inr ⟨Or.inr (Or.inl ⟨rfl, rfl⟩), hne⟩, hl⟩
  · have ht' : ¬ "is" = t := fun h => ht h.symm
    simp only [beq_iff_eq, ht, ht', if_false, CAgree, and_self]

theorem code_cStep_andWith (e : EngineInfo) (text t : String) (ts : List String)
    (ih : ∀ st cs σ, CRel e st cs σ → CAgree e (cLoop e ts st cs) (Consequent_load.loop1 e text ts σ))
    (cs : List Conclusion) (σ : Consequent_load.S) (h : CRel e cAndWith cs σ) :
    CAgree e (cLoop e (t :: ts) cAndWith cs) (Consequent_load.loop1 e text (t :: ts) σ) := by
  obtain ⟨hs, hne⟩ := h.state_andWith
  obtain ⟨hc, ho, hf, -, hl⟩ := h
  simp only [Consequent_load.loop1, cLoop, cStep, cAndWith, hs, Nat.reduceAnd, Nat.reduceBNe, ↓reduceIte,
    Bool.true_and, Bool.false_and, Bool.false_eq_true, if_false]
  by_cases ht : t = "and"
  · subst ht
    simp only [beq_self_eq_true, if_true]
    exact ih cVariable _ _ ⟨hc, ho, hf, Or.inl ⟨rfl, rfl, fun h => absurd h hne⟩, hl⟩
  · have ht' : ¬ "and" = t := fun h => ht h.symm
    simp only [beq_iff_eq, ht, ht', if_false, CAgree, and_self]

theorem code_cStep_hedgeTerm (e : EngineInfo) (text t : String) (ts : List String)
    (ih : ∀ st cs σ, CRel e st cs σ → CAgree e (cLoop e ts st cs) (Consequent_load.loop1 e text ts σ))
    (cs : List Conclusion) (σ : Consequent_load.S) (h : CRel e cHedgeTerm cs σ) :
    CAgree e (cLoop e (t :: ts) cHedgeTerm cs) (Consequent_load.loop1 e text (t :: ts) σ) := by
  obtain ⟨hs, hne⟩ := h.state_hedgeTerm
  obtain ⟨hc, ho, hf, -, hl⟩ := h
  obtain ⟨ps, p, hps⟩ := Py.exists_snoc σ.conclusions hne
  have hlive := hl hne
  subst hc
  have hfp : e.findOut p.variable_.name = some p.variable_ := hf p (by rw [hps]; simp)
  have hfps : ∀ q ∈ ps, e.findOut q.variable_.name = some q.variable_ := fun q hq => hf q (by rw [hps]; simp [hq])
  simp only [Consequent_load.loop1, cLoop, cStep, cHedgeTerm, hs, Nat.reduceAnd, Nat.reduceBNe, ↓reduceIte,
    Bool.true_and, Bool.false_and, Bool.false_eq_true, if_false, hps, hlive, Py.aliasLast_live_snoc, Py.setLast_snoc,
    bind, Except.bind, List.map_append, List.map_cons, List.map_nil, updLast_snoc, lastTerms_snoc]
  have hv : (propConc p).v = p.variable_.name := rfl
  simp only [hv, hfp, Option.map_some, Option.getD_some]
  have hmem : ∀ p' : Proposition, p'.variable_ = p.variable_ →
      ∀ q ∈ ps ++ [p'], e.findOut q.variable_.name = some q.variable_ := by
    intro p' hp' q hq
    rcases List.mem_append.mp hq with hq | hq
    · exact hfps q hq
    · rw [List.mem_singleton] at hq; subst hq; rw [hp']; exact hfp
  cases hh : e.hedges.contains t
  · simp only [Bool.false_eq_true, if_false]
    cases hct : p.variable_.terms.contains t
    · simp only [termGet, hct, Bool.false_eq_true, if_false, Option.isSome_none, CAgree, and_self]
    · simp only [termGet, hct, if_true, Option.isSome_some]
      exact ih cAndWith _ _ ⟨by simp [propConc], ho, hmem _ rfl, Or.inr ⟨Or.inr (Or.inr ⟨rfl, rfl⟩), by simp⟩,
        fun _ => rfl⟩
  · simp only [if_true]
    exact ih cHedgeTerm _ _ ⟨by simp [propConc], ho, hmem _ rfl, Or.inr ⟨Or.inr (Or.inl ⟨rfl, rfl⟩), by simp⟩,
      fun _ => rfl⟩

/-- the loop of the translated code follows the loop of the model -/
theorem code_cLoop (e : EngineInfo) (text : String) : ∀ (ts : List String) (st : CFlags) (cs : List Conclusion)
    (σ : Consequent_load.S), CRel e st cs σ → CAgree e (cLoop e ts st cs) (Consequent_load.loop1 e text ts σ)
  | [], st, cs, σ, h => by
    simp only [cLoop, Consequent_load.loop1, CAgree]
    exact ⟨st, cs, rfl, h⟩
  | t :: ts, st, cs, σ, h => by
    have ih := code_cLoop e text ts
    rcases h.state with ⟨rfl, _⟩ | ⟨(⟨rfl, _⟩ | ⟨rfl, _⟩ | ⟨rfl, _⟩), _⟩
    · exact code_cStep_var e text t ts ih cs σ h
    · exact code_cStep_is e text t ts ih cs σ h
    · exact code_cStep_hedgeTerm e text t ts ih cs σ h
    · exact code_cStep_andWith e text t ts ih cs σ h

/-- **`Consequent.load` as translated from the source = the model `Op.consequentLoad`**: the same exception class
    (`SyntaxError`), and on success the propositions assigned to `self.conclusions` are the conclusions of the model,
    each holding the output variable object that the engine has under that name -/
theorem code_consequentLoad (e : EngineInfo) (text : String) :
    match consequentLoad e text with
    | .error k => Consequent_load.run e text {} = .error k.toPy
    | .ok cs => ∃ σ, Consequent_load.run e text {} = .ok σ ∧ σ.self_conclusions.map propConc = cs ∧
        ∀ p ∈ σ.self_conclusions, e.findOut p.variable_.name = some p.variable_ := by
  unfold consequentLoad Consequent_load.run
  by_cases h : text = ""
  · subst h
    simp only [bne_self_eq_false, Bool.not_false, if_true, ErrKind.toPy, String.isEmpty_iff.mpr rfl]
  · have h1 : text.isEmpty = false := by
      rw [Bool.eq_false_iff]; exact fun hh => h (String.isEmpty_iff.mp hh)
    have h2 : (text != "") = true := by simp only [bne_iff_ne, ne_eq, h, not_false_eq_true]
    simp only [h1, h2, Bool.not_true, Bool.false_eq_true, if_false, consequentLoadTokens, Py.split]
    generalize hg : Consequent_load.loop1 e text (splitWords text) _ = g
    have hl : CAgree e (cLoop e (splitWords text) cVariable []) g := by
      rw [← hg]
      exact code_cLoop e text (splitWords text) cVariable [] _
        ⟨rfl, rfl, fun _ hp => absurd hp (by simp), Or.inl ⟨rfl, rfl, fun _ => rfl⟩, fun hh => absurd rfl hh⟩
    clear hg
    revert hl
    generalize cLoop e (splitWords text) cVariable [] = r
    intro hl
    cases g with
    | error err =>
      obtain ⟨rfl, hr⟩ := hl
      cases r with
      | error k => subst hr; simp only [bind, Except.bind, ErrKind.toPy]
      | ok q =>
        obtain ⟨st, cs⟩ := q
        simp only at hr
        simp only [hr, Bool.false_eq_true, if_false, bind, Except.bind, ErrKind.toPy]
    | ok σ' =>
      obtain ⟨st, cs, rfl, hrel⟩ := hl
      simp only [bind, Except.bind]
      rcases hrel.state with ⟨rfl, hs, _⟩ | ⟨(⟨rfl, hs⟩ | ⟨rfl, hs⟩ | ⟨rfl, hs⟩), _⟩
      · simp only [cVariable, hs, Nat.reduceAnd, Nat.reduceBNe, Bool.not_false, Bool.not_true, Bool.or_self,
          Bool.false_eq_true, if_true, if_false, ErrKind.toPy]
      · simp only [cIs, hs, Nat.reduceAnd, Nat.reduceBNe, Bool.not_false, Bool.not_true, Bool.or_self,
          Bool.false_eq_true, if_true, if_false, ErrKind.toPy]
      · simp only [cHedgeTerm, hs, Nat.reduceAnd, Nat.reduceBNe, Bool.not_false, Bool.not_true, Bool.or_self,
          Bool.false_eq_true, if_true, if_false, ErrKind.toPy]
      · simp only [cAndWith, hs, Nat.reduceAnd, Nat.reduceBNe, Bool.not_false, Bool.not_true, Bool.or_self,
          Bool.false_eq_true, if_true, if_false]
        exact ⟨_, rfl, hrel.concl, hrel.found⟩

end Op
