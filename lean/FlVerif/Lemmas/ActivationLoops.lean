import FlVerif.Lemmas.Activation

/-! the loops of `Op.Activation` compute the flags / lists of `Spec.Activation` (C08) -/

namespace Op.Activation
open Spec.Activation
variable {α : Type} [Field α] [LinearOrder α] [IsStrictOrderedRing α]

/-! ## one rule -/

theorem deactivate_unloaded (r : Rule α) (h : r.loaded = false) (b : Bool) (d : X α) : deactivate r = settle b d r := by
  simp [settle, reset, deactivate, h]

theorem pass_loaded (r : Rule α) (h : r.loaded = true) : activateWith (deactivate r) = settle false r.degree r := by
  simp [settle, activateWith, deactivate, h]

theorem trigger_loaded_fst (i : Nat) (r : Rule α) (h : r.loaded = true) :
    (trigger i (activateWith (deactivate r))).1 = settle true r.degree r := by
  rcases Bool.eq_false_or_eq_true r.enabled with he | he <;> simp [trigger, settle, activateWith, deactivate, h, he]

theorem trigger_loaded_snd (i : Nat) (r : Rule α) :
    (trigger i (activateWith (deactivate r))).2 = if r.enabled then [(i, r.degree)] else [] := by
  rcases Bool.eq_false_or_eq_true r.enabled with he | he <;> simp [trigger, activateWith, deactivate, he]

theorem deactivate_loaded (r : Rule α) : (deactivate r).loaded = r.loaded := rfl
theorem activateWith_vector (r : Rule α) : (activateWith (deactivate r)).vector = r.vector := rfl
theorem activateWith_actDegree (r : Rule α) : (activateWith (deactivate r)).actDegree = r.degree := rfl

/-- no loaded rule of the visited list carries a batch degree -/
def ScalarV (ers : List (Visit α)) : Prop := ∀ p ∈ ers, p.2.loaded = true → p.2.vector = false

theorem ScalarV.tail {p : Visit α} {ers : List (Visit α)} (h : ScalarV (p :: ers)) : ScalarV ers :=
  fun q hq => h q (List.mem_cons_of_mem _ hq)

theorem filter_enabled_map_cons (p : Visit α) (S : List (Visit α)) (f : Visit α → Fire α) :
    (if p.2.enabled then [f p] else []) ++ (S.filter (·.2.enabled)).map f = ((p :: S).filter (·.2.enabled)).map f := by
  cases h : p.2.enabled <;> simp [List.filter, h]

/-! ## General -/

theorem generalLoop_spec (ers : List (Visit α)) :
    generalLoop ers = (ers.map (fun p => (p.1, settle p.2.loaded p.2.degree p.2)),
      ((ers.filter (·.2.loaded)).filter (·.2.enabled)).map (fun p => (p.1, p.2.degree))) := by
  induction ers with
  | nil => rfl
  | cons p rest ih =>
    obtain ⟨i, r⟩ := p
    simp only [generalLoop, ih, deactivate_loaded, List.map_cons]
    rcases Bool.eq_false_or_eq_true r.loaded with hl | hl
    swap
    · simp [deactivate_unloaded r hl false r.degree, hl, List.filter_cons]
    · simp only [hl, if_true, trigger_loaded_fst i r hl, trigger_loaded_snd]
      rcases Bool.eq_false_or_eq_true r.enabled with he | he <;> simp [List.filter_cons, he, hl]

/-! ## Threshold -/

theorem thresholdLoop_spec (c : Comparator) (t : X α) (ers : List (Visit α)) (hs : ScalarV ers) :
    thresholdLoop c t ers = .ok (ers.map (fun p =>
        (p.1, settle (p.2.loaded && c.eval p.2.degree t) p.2.degree p.2)),
      ((ers.filter (fun p => p.2.loaded && c.eval p.2.degree t)).filter (·.2.enabled)).map (fun p => (p.1, p.2.degree))) := by
  induction ers with
  | nil => rfl
  | cons p rest ih =>
    obtain ⟨i, r⟩ := p
    have hv := hs (i, r) (by simp)
    simp only [thresholdLoop, ih hs.tail, deactivate_loaded, activateWith_vector, activateWith_actDegree, Except.map,
      List.map_cons]
    rcases Bool.eq_false_or_eq_true r.loaded with hl | hl
    swap
    · simp [deactivate_unloaded r hl false r.degree, hl, List.filter_cons]
    · have hv : r.vector = false := hv hl
      simp only [hl, if_true, hv, Bool.false_eq_true, if_false, Bool.true_and]
      rcases Bool.eq_false_or_eq_true (c.eval r.degree t) with hc | hc
      swap
      · simp [pass_loaded r hl, List.filter_cons, hl, hc]
      · simp only [hc, if_true, trigger_loaded_fst i r hl, trigger_loaded_snd]
        rcases Bool.eq_false_or_eq_true r.enabled with he | he <;> simp [List.filter_cons, he, hl, hc]

/-! ## First / Last -/

theorem isSelected_take_tail {i : Nat} {r : Rule α} {rest : List (Visit α)} (hnd : (((i, r) :: rest).map (·.1)).Nodup)
    (f : Visit α → Bool) (m : Nat) : isSelected ((rest.filter f).take m) i = false := by
  apply isSelected_false
  intro q hq hqi
  have hq' : q ∈ rest := (List.mem_filter.1 (List.mem_of_mem_take hq)).1
  simp only [List.map_cons, List.nodup_cons] at hnd
  exact hnd.1 (List.mem_map.2 ⟨q, hq', hqi⟩)

theorem countLoop_spec (n : Nat) (t : X α) (ers : List (Visit α)) (k : Nat)
    (hnd : (ers.map (·.1)).Nodup) (hs : ScalarV ers) :
    countLoop n t k ers = .ok (ers.map (fun p =>
        (p.1, if isSelected ((ers.filter (eligible t)).take (n - k)) p.1 then settle true p.2.degree p.2
              else settle false p.2.degree p.2)),
      (((ers.filter (eligible t)).take (n - k)).filter (·.2.enabled)).map (fun p => (p.1, p.2.degree))) := by
  induction ers generalizing k with
  | nil => simp [countLoop]
  | cons p rest ih =>
    obtain ⟨i, r⟩ := p
    have hv := hs (i, r) (by simp)
    have hnd' : (rest.map (·.1)).Nodup := by simp only [List.map_cons, List.nodup_cons] at hnd; exact hnd.2
    have hne : ∀ q ∈ rest, (i == q.1) = false := by
      intro q hq
      simp only [List.map_cons, List.nodup_cons] at hnd
      simp only [beq_eq_false_iff_ne]
      intro e; exact hnd.1 (List.mem_map.2 ⟨q, hq, e.symm⟩)
    simp only [countLoop, deactivate_loaded, activateWith_vector, activateWith_actDegree]
    rcases Bool.eq_false_or_eq_true r.loaded with hl | hl
    swap
    · -- an unloaded rule is only deactivated and is never eligible
      have hel : eligible t (i, r) = false := by simp [eligible, hl]
      simp only [hl, Bool.false_eq_true, if_false, ih k hnd' hs.tail, Except.map, List.map_cons, List.filter_cons, hel]
      congr 2
      simp [settle, hl, deactivate, reset]
    · have hv : r.vector = false := hv hl
      simp only [hl, if_true, hv, Bool.false_eq_true, if_false]
      by_cases hc : (decide (k < n) && X.lt (.fin 0) r.degree && X.le t r.degree) = true
      · -- triggered: the head is the first selected rule
        simp only [hc, if_true]
        simp only [Bool.and_eq_true, decide_eq_true_eq] at hc
        have hel : eligible t (i, r) = true := by simp [eligible, hl, hc.1.2, hc.2]
        have hnk : n - k = (n - (k + 1)) + 1 := by omega
        simp only [ih (k + 1) hnd' hs.tail, Except.map, List.map_cons, List.filter_cons, hel, if_true, hnk,
          List.take_succ_cons, trigger_loaded_fst i r hl, trigger_loaded_snd]
        congr 2
        · congr 1
          · simp [isSelected_cons]
          · apply List.map_congr_left
            intro q hq
            simp [isSelected_cons, hne q hq]
        · rcases Bool.eq_false_or_eq_true r.enabled with he | he <;> simp [List.filter_cons, he]
      · -- not triggered: either not eligible, or the counter is exhausted
        simp only [hc, if_false, Bool.false_eq_true]
        have hS : ((((i, r) :: rest).filter (eligible t)).take (n - k)) = ((rest.filter (eligible t)).take (n - k)) := by
          by_cases hel : eligible t (i, r) = true
          · have hk : ¬ k < n := by
              intro hk
              apply hc
              simp only [eligible, hl, Bool.true_and, Bool.and_eq_true] at hel
              simp [hk, hel.1, hel.2]
            have : n - k = 0 := by omega
            simp [this]
          · simp [List.filter_cons, hel]
        rw [hS]
        simp only [ih k hnd' hs.tail, Except.map, List.map_cons]
        congr 2
        congr 1
        rw [isSelected_take_tail hnd]
        simp [pass_loaded r hl]

/-! ## Highest / Lowest / Proportional: first pass -/

theorem pushLoop_spec (key : X α → X α) (ers : List (Visit α)) (heap : List (X α × Nat)) (hs : ScalarV ers) :
    pushLoop key heap ers = .ok (ers.map (fun p => (p.1, settle false p.2.degree p.2)),
      pushAll keyLt ((ers.filter positive).map (fun p => (key p.2.degree, p.1))) heap) := by
  induction ers generalizing heap with
  | nil => simp [pushLoop, pushAll]
  | cons p rest ih =>
    obtain ⟨i, r⟩ := p
    have hv := hs (i, r) (by simp)
    simp only [pushLoop, deactivate_loaded, activateWith_vector, activateWith_actDegree]
    rcases Bool.eq_false_or_eq_true r.loaded with hl | hl
    · have hv : r.vector = false := hv hl
      simp only [hl, if_true, hv, Bool.false_eq_true, if_false]
      rcases Bool.eq_false_or_eq_true (X.lt (.fin 0) r.degree) with hp | hp
      · have hpos : positive (i, r) = true := by simp [positive, hl, hp]
        simp [hp, ih _ hs.tail, Except.map, List.filter_cons, hpos, pass_loaded r hl, pushAll, heappush]
      · have hpos : positive (i, r) = false := by simp [positive, hl, hp]
        simp [hp, ih _ hs.tail, Except.map, List.filter_cons, hpos, pass_loaded r hl]
    · have hpos : positive (i, r) = false := by simp [positive, hl]
      simp [hl, ih _ hs.tail, Except.map, List.filter_cons, hpos, deactivate_unloaded r hl false r.degree]

theorem sumLoop_spec (ers : List (Visit α)) (s : X α) (hs : ScalarV ers) :
    sumLoop s ers = .ok (ers.map (fun p => (p.1, settle false p.2.degree p.2)),
      (ers.filter positive).map (·.1), (ers.filter positive).foldl (fun s p => X.add s p.2.degree) s) := by
  induction ers generalizing s with
  | nil => simp [sumLoop]
  | cons p rest ih =>
    obtain ⟨i, r⟩ := p
    have hv := hs (i, r) (by simp)
    simp only [sumLoop, deactivate_loaded, activateWith_vector, activateWith_actDegree]
    rcases Bool.eq_false_or_eq_true r.loaded with hl | hl
    · have hv : r.vector = false := hv hl
      simp only [hl, if_true, hv, Bool.false_eq_true, if_false]
      rcases Bool.eq_false_or_eq_true (X.lt (.fin 0) r.degree) with hp | hp
      · have hpos : positive (i, r) = true := by simp [positive, hl, hp]
        simp [hp, ih _ hs.tail, Except.map, List.filter_cons, hpos, pass_loaded r hl]
      · have hpos : positive (i, r) = false := by simp [positive, hl, hp]
        simp [hp, ih _ hs.tail, Except.map, List.filter_cons, hpos, pass_loaded r hl]
    · have hpos : positive (i, r) = false := by simp [positive, hl]
      simp [hl, ih _ hs.tail, Except.map, List.filter_cons, hpos, deactivate_unloaded r hl false r.degree]

/-- a loaded rule with a batch degree makes every vector-incapable loop raise -/
theorem countLoop_vector (n : Nat) (t : X α) (ers : List (Visit α)) (k : Nat)
    (h : ∃ p ∈ ers, p.2.loaded = true ∧ p.2.vector = true) : countLoop n t k ers = .error .value := by
  induction ers generalizing k with
  | nil => simp at h
  | cons p rest ih =>
    obtain ⟨i, r⟩ := p
    simp only [countLoop, deactivate_loaded, activateWith_vector, activateWith_actDegree]
    by_cases hh : r.loaded = true ∧ r.vector = true
    · simp [hh.1, hh.2]
    · have hr : ∃ p ∈ rest, p.2.loaded = true ∧ p.2.vector = true := by
        obtain ⟨p, hp, hp2⟩ := h
        rcases List.mem_cons.1 hp with rfl | hp
        · exact absurd hp2 hh
        · exact ⟨p, hp, hp2⟩
      by_cases h1 : r.loaded = true
      · have h2 : r.vector = false := by
          rcases Bool.eq_false_or_eq_true r.vector with hv | hv
          · exact absurd ⟨h1, hv⟩ hh
          · exact hv
        simp only [h1, h2, if_true, Bool.false_eq_true, if_false]
        by_cases h3 : (decide (k < n) && X.lt (.fin 0) r.degree && X.le t r.degree) = true <;> simp [h3, ih _ hr, Except.map]
      · simp [h1, ih _ hr, Except.map]

theorem thresholdLoop_vector (c : Comparator) (t : X α) (ers : List (Visit α))
    (h : ∃ p ∈ ers, p.2.loaded = true ∧ p.2.vector = true) : thresholdLoop c t ers = .error .value := by
  induction ers with
  | nil => simp at h
  | cons p rest ih =>
    obtain ⟨i, r⟩ := p
    simp only [thresholdLoop, deactivate_loaded, activateWith_vector, activateWith_actDegree]
    by_cases hh : r.loaded = true ∧ r.vector = true
    · simp [hh.1, hh.2]
    · have hr : ∃ p ∈ rest, p.2.loaded = true ∧ p.2.vector = true := by
        obtain ⟨p, hp, hp2⟩ := h
        rcases List.mem_cons.1 hp with rfl | hp
        · exact absurd hp2 hh
        · exact ⟨p, hp, hp2⟩
      by_cases h1 : r.loaded = true
      · have h2 : r.vector = false := by
          rcases Bool.eq_false_or_eq_true r.vector with hv | hv
          · exact absurd ⟨h1, hv⟩ hh
          · exact hv
        simp only [h1, h2, if_true, Bool.false_eq_true, if_false]
        simp [ih hr, Except.map]
      · simp [h1, ih hr, Except.map]

theorem pushLoop_vector (key : X α → X α) (ers : List (Visit α)) (heap : List (X α × Nat))
    (h : ∃ p ∈ ers, p.2.loaded = true ∧ p.2.vector = true) : pushLoop key heap ers = .error .value := by
  induction ers generalizing heap with
  | nil => simp at h
  | cons p rest ih =>
    obtain ⟨i, r⟩ := p
    simp only [pushLoop, deactivate_loaded, activateWith_vector, activateWith_actDegree]
    by_cases hh : r.loaded = true ∧ r.vector = true
    · simp [hh.1, hh.2]
    · have hr : ∃ p ∈ rest, p.2.loaded = true ∧ p.2.vector = true := by
        obtain ⟨p, hp, hp2⟩ := h
        rcases List.mem_cons.1 hp with rfl | hp
        · exact absurd hp2 hh
        · exact ⟨p, hp, hp2⟩
      by_cases h1 : r.loaded = true
      · have h2 : r.vector = false := by
          rcases Bool.eq_false_or_eq_true r.vector with hv | hv
          · exact absurd ⟨h1, hv⟩ hh
          · exact hv
        simp only [h1, h2, if_true, Bool.false_eq_true, if_false]
        by_cases h3 : X.lt (.fin 0) r.degree = true <;> simp [h3, ih _ hr, Except.map]
      · simp [h1, ih _ hr, Except.map]

theorem sumLoop_vector (ers : List (Visit α)) (s : X α)
    (h : ∃ p ∈ ers, p.2.loaded = true ∧ p.2.vector = true) : sumLoop s ers = .error .value := by
  induction ers generalizing s with
  | nil => simp at h
  | cons p rest ih =>
    obtain ⟨i, r⟩ := p
    simp only [sumLoop, deactivate_loaded, activateWith_vector, activateWith_actDegree]
    by_cases hh : r.loaded = true ∧ r.vector = true
    · simp [hh.1, hh.2]
    · have hr : ∃ p ∈ rest, p.2.loaded = true ∧ p.2.vector = true := by
        obtain ⟨p, hp, hp2⟩ := h
        rcases List.mem_cons.1 hp with rfl | hp
        · exact absurd hp2 hh
        · exact ⟨p, hp, hp2⟩
      by_cases h1 : r.loaded = true
      · have h2 : r.vector = false := by
          rcases Bool.eq_false_or_eq_true r.vector with hv | hv
          · exact absurd ⟨h1, hv⟩ hh
          · exact hv
        simp only [h1, h2, if_true, Bool.false_eq_true, if_false]
        by_cases h3 : X.lt (.fin 0) r.degree = true <;> simp [h3, ih _ hr, Except.map]
      · simp [h1, ih _ hr, Except.map]

/-! ## second pass: triggering the rules at a list of indices -/

/-- `for index in indices: rules[index].activation_degree = g(…); rules[index].trigger(…)` -/
def trigAll (g : X α → X α) : List Nat → List (Rule α) → List (Rule α) × List (Fire α)
  | [], rules => (rules, [])
  | i :: is, rules =>
    let p := triggerAt g i rules
    let q := trigAll g is p.1
    (q.1, p.2 ++ q.2)

theorem divLoop_eq (s : X α) (idxs : List Nat) (rules : List (Rule α)) :
    divLoop s idxs rules = trigAll (fun d => X.div d s) idxs rules := by
  induction idxs generalizing rules with
  | nil => rfl
  | cons i is ih => simp only [divLoop, trigAll, ih]

theorem popLoop_eq (n k : Nat) (heap : List (X α × Nat)) (rules : List (Rule α)) :
    popLoop n k heap rules = trigAll id ((heap.take (n - k)).map (·.2)) rules := by
  induction heap generalizing k rules with
  | nil => simp [popLoop, trigAll]
  | cons x heap ih =>
    simp only [popLoop]
    by_cases hk : k < n
    · have : n - k = (n - (k + 1)) + 1 := by omega
      simp only [hk, if_true, this, List.take_succ_cons, List.map_cons, trigAll, ih]
    · have : n - k = 0 := by omega
      simp [hk, this, trigAll]

/-- new state / contribution of the rule at a triggered index -/
def trigState (g : X α → X α) (j : Nat) (r : Rule α) : Rule α := (trigger j { r with actDegree := g r.actDegree }).1
def trigFire (g : X α → X α) (j : Nat) (r : Rule α) : List (Fire α) := (trigger j { r with actDegree := g r.actDegree }).2

theorem triggerAt_getElem (g : X α → X α) (i : Nat) (rules : List (Rule α)) (j : Nat) :
    (triggerAt g i rules).1[j]? = if j = i then (rules[i]?).map (trigState g i) else rules[j]? := by
  simp only [triggerAt]
  cases h : rules[i]? with
  | none =>
    by_cases hj : j = i
    · subst hj; simp [h]
    · simp [hj]
  | some r =>
    have hi : i < rules.length := by
      by_contra hn
      have := List.getElem?_eq_none (Nat.le_of_not_lt hn)
      rw [h] at this; exact absurd this (by simp)
    by_cases hj : j = i
    · subst hj; simp [List.getElem?_set, hi, trigState]
    · have hj' : i ≠ j := fun e => hj e.symm
      simp [List.getElem?_set, hj, hj']

theorem triggerAt_fires (g : X α → X α) (i : Nat) (rules : List (Rule α)) :
    (triggerAt g i rules).2 = match rules[i]? with | some r => trigFire g i r | none => [] := by
  simp only [triggerAt]
  cases rules[i]? <;> rfl

theorem trigAll_getElem (g : X α → X α) (idxs : List Nat) (rules : List (Rule α)) (hnd : idxs.Nodup) (j : Nat) :
    (trigAll g idxs rules).1[j]? = (rules[j]?).map (fun r => if j ∈ idxs then trigState g j r else r) := by
  induction idxs generalizing rules with
  | nil => simp [trigAll]
  | cons i is ih =>
    rcases List.nodup_cons.1 hnd with ⟨hi, hnd'⟩
    simp only [trigAll, ih _ hnd', triggerAt_getElem]
    by_cases hj : j = i
    · subst hj
      simp only [if_true, hi, if_false, List.mem_cons, true_or]
      cases rules[j]? <;> simp
    · simp only [hj, if_false, List.mem_cons, false_or]

theorem flatMap_congr' {β γ : Type} {l : List β} {f g : β → List γ} (h : ∀ x ∈ l, f x = g x) :
    l.flatMap f = l.flatMap g := by
  induction l with
  | nil => rfl
  | cons x xs ih =>
    simp only [List.flatMap_cons, h x (by simp), ih (fun y hy => h y (by simp [hy]))]

theorem trigAll_fires (g : X α → X α) (idxs : List Nat) (rules : List (Rule α)) (hnd : idxs.Nodup) :
    (trigAll g idxs rules).2 = idxs.flatMap (fun i => match rules[i]? with | some r => trigFire g i r | none => []) := by
  induction idxs generalizing rules with
  | nil => simp [trigAll]
  | cons i is ih =>
    rcases List.nodup_cons.1 hnd with ⟨hi, hnd'⟩
    simp only [trigAll, ih _ hnd', triggerAt_fires, List.flatMap_cons]
    congr 1
    apply flatMap_congr'
    intro j hj
    have hji : j ≠ i := fun e => hi (e ▸ hj)
    rw [triggerAt_getElem]
    simp [hji]

theorem trigState_settle (g : X α → X α) (j : Nat) (r : Rule α) (hl : r.loaded = true) (d : X α) :
    trigState g j (settle false d r) = settle true (g d) r := by
  rcases Bool.eq_false_or_eq_true r.enabled with he | he <;> simp [trigState, trigger, settle, hl, he]

theorem trigFire_settle (g : X α → X α) (j : Nat) (r : Rule α) (hl : r.loaded = true) (d : X α) :
    trigFire g j (settle false d r) = if r.enabled then [(j, g d)] else [] := by
  rcases Bool.eq_false_or_eq_true r.enabled with he | he <;> simp [trigFire, trigger, settle, hl, he]

theorem flatMap_if {β γ : Type} (l : List β) (c : β → Bool) (f : β → γ) :
    l.flatMap (fun p => if c p then [f p] else []) = (l.filter c).map f := by
  induction l with
  | nil => rfl
  | cons x xs ih =>
    rcases Bool.eq_false_or_eq_true (c x) with h | h <;> simp [List.flatMap_cons, List.filter_cons, h, ih]

theorem enum_getElem_of_mem {rs : List (Rule α)} {p : Visit α} (h : p ∈ enum 0 rs) : rs[p.1]? = some p.2 := by
  obtain ⟨i, r⟩ := p
  simpa using (mem_enum h).2

/-- the second pass over the rules left by the first pass: the selected rules are settled as triggered with the
    (possibly rescaled) degree, and every selected enabled rule contributes once -/
theorem trigAll_spec (g : X α → X α) (rs : List (Rule α)) (sel : List (Visit α))
    (hsub : ∀ p ∈ sel, p ∈ enum 0 rs) (hnd : (sel.map (·.1)).Nodup) (hl : ∀ p ∈ sel, p.2.loaded = true) :
    trigAll g (sel.map (·.1)) ((enum 0 rs).map (fun p => settle false p.2.degree p.2)) =
      ((enum 0 rs).map (fun p => if isSelected sel p.1 then settle true (g p.2.degree) p.2 else settle false p.2.degree p.2),
       (sel.filter (·.2.enabled)).map (fun p => (p.1, g p.2.degree))) := by
  have hr1 : ∀ j : Nat, ((enum 0 rs).map (fun p => settle false p.2.degree p.2))[j]? = (rs[j]?).map (fun r => settle false r.degree r) := by
    intro j; simp [getElem?_enum]; cases rs[j]? <;> rfl
  refine Prod.ext ?_ ?_
  · apply List.ext_getElem?
    intro j
    rw [trigAll_getElem g _ _ hnd, hr1]
    simp only [List.getElem?_map, getElem?_enum, Option.map_map]
    cases hj : rs[j]? with
    | none => rfl
    | some r =>
      simp only [Option.map_some, Function.comp, Nat.zero_add]
      congr 1
      by_cases hm : j ∈ sel.map (·.1)
      · have hs : isSelected sel j = true := isSelected_iff.2 hm
        obtain ⟨p, hp, hpj⟩ := List.mem_map.1 hm
        have hpr := enum_getElem_of_mem (hsub p hp)
        have hpj' : p.1 = j := hpj
        rw [hpj', hj] at hpr
        have hlr : r.loaded = true := by
          have := hl p hp
          rw [Option.some.inj hpr]; exact this
        simp only [hm, if_true, hs, trigState_settle g j r hlr]
      · have hs : isSelected sel j = false := by
          cases h : isSelected sel j
          · rfl
          · exact absurd (isSelected_iff.1 h) hm
        simp [hm, hs]
  · rw [trigAll_fires g _ _ hnd, List.flatMap_map]
    rw [← flatMap_if sel (·.2.enabled) (fun p => (p.1, g p.2.degree))]
    apply flatMap_congr'
    intro p hp
    rw [hr1, enum_getElem_of_mem (hsub p hp)]
    simp only [Option.map_some]
    exact trigFire_settle g p.1 p.2 (hl p hp) p.2.degree

end Op.Activation
