import FlVerif.Gen.CodeFldReader
import FlVerif.Gen.CodeFldWrite

/-! # Tie A for the reader loop, the header and `write` of `FldExporter` (exporter.py): the functions translated from the
    current source equal the models `Op.Fld.readerRows` / `readerLoop` / `keep` / `strip` / `header` / `write`

`write_from_reader` keeps the lines `Op.Fld.readerRows skip lines` (skipped lines, blank lines and `#` lines dropped,
the others stripped) and turns each of them into a row of floats (`parseRow`: any function that may raise); the first
row that cannot be parsed raises its exception.  `header` joins the names `Op.Fld.header` selects. -/

namespace Op.Fld
open Gen.Code

/-- the compiled test `not line or line[0] == "#"` is the negation of `keep` (and `line[0]` is never reached on an
    empty line) -/
theorem drop_test (t : String) :
    ((if (!(t != "")) then (.ok true : Py.M Bool) else Py.Fld.startsHash t)) = .ok (!keep t) := by
  by_cases h : t = ""
  · subst h
    simp [keep]
  · have he : t.isEmpty = false := by
      cases hb : t.isEmpty with
      | false => rfl
      | true => exact absurd (String.isEmpty_iff.1 hb) h
    simp [h, keep, Py.Fld.startsHash, he]

/-- what the model's kept lines, parsed in order, and the translated loop have in common -/
def AgreeR (r : Py.M (List (List (X Rat)))) (acc : List (List (X Rat))) (g : Py.M write_from_reader.S) : Prop :=
  match r with
  | .error e => g = .error e
  | .ok rows => ∃ σ', g = .ok σ' ∧ σ'.input_values = acc ++ rows

theorem code_readerLoop (lines : List String) (skip : Nat) (parseRow : String → Py.M (List (X Rat))) :
    ∀ (ls : List String) (i : Nat) (σ : write_from_reader.S),
    AgreeR ((readerLoop skip i ls).mapM parseRow) σ.input_values
      (write_from_reader.loop1 lines skip parseRow ((ls.zipIdx i).map (fun p => (p.2, p.1))) σ)
  | [], i, σ => by
    simp only [readerLoop, List.mapM_nil, List.zipIdx_nil, List.map_nil, write_from_reader.loop1, AgreeR, pure, Except.pure]
    exact ⟨σ, rfl, by simp⟩
  | l :: ls, i, σ => by
    simp only [readerLoop, List.zipIdx_cons, List.map_cons, write_from_reader.loop1]
    by_cases hs : i < skip
    · simp only [hs, decide_true, if_true]
      exact code_readerLoop lines skip parseRow ls (i + 1) _
    · simp only [hs, decide_false, Bool.false_eq_true, if_false, drop_test, bind, Except.bind]
      cases hk : keep (strip l) with
      | false =>
        simp only [Bool.not_false, if_true, Bool.false_eq_true, if_false]
        exact code_readerLoop lines skip parseRow ls (i + 1) _
      | true =>
        simp only [Bool.not_true, Bool.false_eq_true, if_false, if_true, List.mapM_cons, bind, Except.bind]
        cases hp : parseRow (strip l) with
        | error e => simp only [AgreeR]
        | ok row =>
          have ih := code_readerLoop lines skip parseRow ls (i + 1)
            { σ with i := i, line := strip l, input_values := σ.input_values ++ [row] }
          simp only
          cases hr : (readerLoop skip (i + 1) ls).mapM parseRow with
          | error e =>
            rw [hr] at ih
            simpa only [AgreeR] using ih
          | ok rows =>
            rw [hr] at ih
            obtain ⟨σ', h1, h2⟩ := ih
            exact ⟨σ', h1, by simp [h2]⟩

/-- **`FldExporter.write_from_reader` as translated from the source = the model `Op.Fld.readerRows`** followed by the
    parsing of the kept lines in order: the exception of the first line that does not parse, else the rows -/
theorem code_readerRows (lines : List String) (skip : Nat) (parseRow : String → Py.M (List (X Rat))) :
    match (readerRows skip lines).mapM parseRow with
    | .error e => write_from_reader.run lines skip parseRow {} = .error e
    | .ok rows => ∃ σ, write_from_reader.run lines skip parseRow {} = .ok σ ∧ σ.input_values = rows := by
  have h := code_readerLoop lines skip parseRow lines 0 { input_values := [] }
  unfold write_from_reader.run Py.enumerate readerRows
  cases hr : (readerLoop skip 0 lines).mapM parseRow with
  | error e =>
    rw [hr] at h
    simp only [AgreeR] at h
    simp only [h, bind, Except.bind]
  | ok rows =>
    rw [hr] at h
    obtain ⟨σ', h1, h2⟩ := h
    simp only [h1, bind, Except.bind]
    exact ⟨σ', rfl, by simpa using h2⟩

/-- **`FldExporter.header` as translated from the source = the model `Op.Fld.header`**, joined by the separator -/
theorem code_header (inputs outputs : List String) (inputValues outputValues : Bool) (sep : String) :
    ∃ σ, FldExporter_header.run inputs outputs inputValues outputValues sep {} = .ok σ ∧
      σ.ret = some (sep.intercalate (header inputs outputs inputValues outputValues)) := by
  cases inputValues <;> cases outputValues <;> simp [FldExporter_header.run, header]

/-! ## `FldExporter.write` -/

section
variable {E A : Type} [Inhabited E] [Inhabited A]

/-- the loop that hands the columns to the input variables -/
theorem code_setInputs (ops : WriteOps E A) (inputs outputs : List String) (inputValues outputValues headers : Bool)
    (sep : String) (e0 : E) (iv0 : A) : ∀ (vs : List String) (i : Nat) (σ : FldExporter_write.S E A),
    ∃ σ', FldExporter_write.loop1 ops inputs outputs inputValues outputValues headers sep e0 iv0
        ((vs.zipIdx i).map (fun p => (p.2, p.1))) σ = .ok σ' ∧
      σ'.engine = setInputs ops σ.input_values i vs σ.engine ∧ σ'.input_values = σ.input_values ∧ σ'.values = σ.values ∧
      σ'.out = σ.out
  | [], i, σ => ⟨σ, rfl, rfl, rfl, rfl, rfl⟩
  | v :: vs, i, σ => by
    simp only [List.zipIdx_cons, List.map_cons, FldExporter_write.loop1, setInputs]
    exact code_setInputs ops inputs outputs inputValues outputValues headers sep e0 iv0 vs (i + 1) _

/-- **`FldExporter.write` as translated from the source = the model `Op.Fld.write`**: `ValueError` when the rows have
    fewer columns than there are input variables; otherwise the engine after restart, the assignment of the columns
    in order and processing, and the arguments of `np.savetxt` (the selected blocks stacked; the header or `""`) -/
theorem code_write (ops : WriteOps E A) (inputs outputs : List String) (inputValues outputValues headers : Bool)
    (sep : String) (e0 : E) (iv0 : A) :
    match write ops inputs outputs inputValues outputValues headers sep e0 iv0 with
    | none => FldExporter_write.run ops inputs outputs inputValues outputValues headers sep e0 iv0 {} = .error .value
    | some r => ∃ σ, FldExporter_write.run ops inputs outputs inputValues outputValues headers sep e0 iv0 {} = .ok σ ∧
        σ.engine = r.1 ∧ σ.out = some r.2 := by
  unfold write FldExporter_write.run
  by_cases hc : ops.ncols (ops.atleast2d iv0) < inputs.length
  · simp only [hc, decide_true, if_true]
  · obtain ⟨σ', h1, h2, h3, h4, h5⟩ := code_setInputs ops inputs outputs inputValues outputValues headers sep e0 iv0 inputs 0
      { input_values := ops.atleast2d iv0, engine := ops.restart e0 }
    obtain ⟨σh, hh1, hh2⟩ := code_header inputs outputs inputValues outputValues sep
    simp only [hc, decide_false, Bool.false_eq_true, if_false, Py.enumerate, h1, bind, Except.bind]
    cases inputValues <;> cases outputValues <;> cases headers <;>
      simp [writeBlocks, h2, hh1, hh2]

end

end Op.Fld
