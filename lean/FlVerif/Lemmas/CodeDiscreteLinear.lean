import FlVerif.Gen.CodeDiscrete
import FlVerif.Lemmas.CodeIntegralNp

/-! # Tie A for `Linear.membership`: the definition translated from the current source equals the model
`Op.Weighted.linear`, row by row of `engine.input_values` -/

set_option linter.unusedSimpArgs false

namespace Py.Disc
open Gen.Code Py.Np Op.Weighted

/-- `l[-1]` of a list with `n + 1` entries is its entry `n` -/
theorem last_getD (l : List (X Rat)) (n : Nat) (h : l.length = n + 1) : Py.last l = .ok (l.getD n (.fin 0)) := by
  have hne : l ≠ [] := by intro e; simp [e] at h
  have h1 : l.getLast? = some (l.getD n (.fin 0)) := by
    rw [List.getLast?_eq_getLast_of_ne_nil hne, List.getLast_eq_getElem]
    simp [List.getD, h]
  simp [Py.last, h1]

/-- the constant: the last coefficient when there is one more than input variables, else `0.0` -/
theorem linear_constant (cs : List (X Rat)) (n : Nat) (h : cs.length = n ∨ cs.length = n + 1) :
    (if decide (cs.length > n) = true then Py.last cs else .ok (.fin 0)) =
      .ok (if cs.length > n then cs.getD n (.fin 0) else .fin 0) := by
  rcases h with h | h
  · simp [h]
  · simp [h, last_getD cs n h]

/-- the product `coefficients * inputs`, summed along the rows -/
theorem linear_rows (cs : List (X Rat)) (n : Nat) (rows : List Row) (hrows : ∀ r ∈ rows, r.length = n)
    (hc : (cs.take n).length = n) :
    zip2 X.mul [cs.take n] rows = .ok (rows.map (fun r => List.zipWith X.mul (cs.take r.length) r)) := by
  have h := zip2_row_left X.mul (cs.take n) rows id (by
    intro r hr
    left
    simp only [id, hc]
    exact hrows r hr)
  rw [List.map_id] at h
  rw [h]
  congr 1
  apply List.map_congr_left
  intro r hr
  rw [hc, id, ← hrows r hr, bcastRow_self]

/-- **`Linear.membership` as translated from the source = the model `Op.Weighted.linear`** on every row of
    `engine.input_values`; `ValueError` without an engine and for a number of coefficients other than the number of
    input variables (+1).  An engine without input variables has the empty vector as input values: one row without
    entries. -/
theorem code_linearMembership (cs : List (X Rat)) (n : Nat) (rows : List Row) (hrows : ∀ r ∈ rows, r.length = n) :
    Linear_membership.run cs none {} = .error .value ∧
    (cs.length ≠ n → cs.length ≠ n + 1 →
      Linear_membership.run cs (some (Engine.ofRows n rows)) {} = .error .value) ∧
    (cs.length = n ∨ cs.length = n + 1 →
      ∃ σ, Linear_membership.run cs (some (Engine.ofRows n rows)) {} = .ok σ ∧
        σ.ret = some (.vec ((if n = 0 then [[]] else rows).map (linear cs)))) := by
  refine ⟨rfl, ?_, ?_⟩
  · intro h1 h2
    simp [Linear_membership.run, bind, Except.bind, Engine.ofRows, h1, h2]
  · intro hlen
    have hnot : (!([n, n + 1].contains cs.length)) = false := by
      rcases hlen with h | h <;> simp [h]
    have hc : (cs.take n).length = n := by
      rcases hlen with h | h <;> simp [h]
    unfold Linear_membership.run
    simp only [Option.isSome_some, Bool.not_true, Bool.false_eq_true, if_false, Py.deref_some, bind, Except.bind,
      hnot, Engine.ofRows, linear_constant cs n hlen]
    by_cases hn : n = 0
    · subst hn
      refine ⟨_, rfl, ?_⟩
      simp [zipNd, zip2, zipRows, compat, Op.Integral.bcastRow, bind, Except.bind, sumAxis1, Py.Np.sumAxis1, Op.Integral.sum,
        addScalar, linear]
    · simp only [hn, if_false, zipNd, linear_rows cs n rows hrows hc, bind, Except.bind, sumAxis1]
      refine ⟨_, rfl, ?_⟩
      simp only [addScalar, Py.Np.sumAxis1, List.map_map, Option.some.injEq, Nd.vec.injEq]
      apply List.map_congr_left
      intro r hr
      simp only [Function.comp, linear, Op.Integral.sum, hrows r hr]

end Py.Disc
