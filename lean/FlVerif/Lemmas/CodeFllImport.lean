import FlVerif.Gen.CodeFllImport

/-! # Tie A for the FuzzyLite Language importer, part 1: strings, `extract_key_value`, `extract_value`, `boolean`,
`range`, `tnorm`, `snorm`

The definitions `Gen.Code.FllImporter_*` are regenerated from `fuzzylite/importer.py` on every run.  This file proves
the facts about the text primitives that the ties need (stripping is idempotent, a stripped line has no `#`) and ties
the small methods to the token-level model `Op/FllIO.lean` applied to the lexer `Op/FllText.lean`. -/

namespace Op.FllIO

/-! ## white space -/

theorem dropWhile_idem {α : Type} (p : α → Bool) : ∀ l : List α, (l.dropWhile p).dropWhile p = l.dropWhile p
  | [] => rfl
  | a :: l => by
    by_cases h : p a = true
    · simp only [List.dropWhile_cons, h, if_true]; exact dropWhile_idem p l
    · rw [List.dropWhile_cons_of_neg h, List.dropWhile_cons_of_neg h]

/-- the first element that `dropWhile` leaves does not satisfy the predicate -/
theorem dropWhile_head {α : Type} (p : α → Bool) : ∀ (l : List α) (c : α) (r : List α), l.dropWhile p = c :: r → p c = false
  | [], c, r, h => by simp at h
  | a :: l, c, r, h => by
    by_cases ha : p a = true
    · simp only [List.dropWhile_cons, ha, if_true] at h; exact dropWhile_head p l c r h
    · rw [List.dropWhile_cons_of_neg ha] at h
      simp only [List.cons.injEq] at h
      rw [← h.1]; simpa using ha

theorem dropWhile_of_head {α : Type} (p : α → Bool) (c : α) (r : List α) (h : p c = false) : (c :: r).dropWhile p = c :: r :=
  List.dropWhile_cons_of_neg (by simp [h])

/-- dropping at the end -/
def rdrop (l : List Char) : List Char := (l.reverse.dropWhile isWs).reverse

theorem trimChars_eq (l : List Char) : trimChars l = rdrop (l.dropWhile isWs) := rfl

theorem rdrop_idem (l : List Char) : rdrop (rdrop l) = rdrop l := by
  simp only [rdrop, List.reverse_reverse, dropWhile_idem]

theorem rdrop_prefix (l : List Char) : rdrop l <+: l := by
  have h : l.reverse.dropWhile isWs <:+ l.reverse := List.dropWhile_suffix _
  rw [← List.reverse_reverse (l.reverse.dropWhile isWs)] at h
  exact List.reverse_suffix.1 h

/-- a list that does not begin with white space keeps this after dropping at the end -/
theorem dropWhile_rdrop (l : List Char) (h : l.dropWhile isWs = l) : (rdrop l).dropWhile isWs = rdrop l := by
  obtain ⟨t, ht⟩ := rdrop_prefix l
  cases hr : rdrop l with
  | nil => rfl
  | cons c r =>
    rw [hr] at ht
    have : isWs c = false := dropWhile_head isWs l c (r ++ t) (by rw [h, ← ht]; rfl)
    exact dropWhile_of_head isWs c r this

theorem trimChars_idem (l : List Char) : trimChars (trimChars l) = trimChars l := by
  rw [trimChars_eq, trimChars_eq, dropWhile_rdrop _ (dropWhile_idem _ _), rdrop_idem]

theorem mem_of_mem_trimChars {l : List Char} {c : Char} (h : c ∈ trimChars l) : c ∈ l := by
  have h1 : c ∈ l.dropWhile isWs := (rdrop_prefix _).sublist.mem h
  exact (List.dropWhile_sublist _).mem h1

theorem takeWhile_eq_self {α : Type} (p : α → Bool) : ∀ l : List α, (∀ c ∈ l, p c = true) → l.takeWhile p = l
  | [], _ => rfl
  | a :: l, h => by
    simp only [List.takeWhile_cons, h a (by simp), if_true, List.cons.injEq, true_and]
    exact takeWhile_eq_self p l (fun c hc => h c (by simp [hc]))

theorem mem_takeWhile {α : Type} (p : α → Bool) : ∀ (l : List α) (c : α), c ∈ l.takeWhile p → p c = true
  | [], c, h => by simp at h
  | a :: l, c, h => by
    by_cases ha : p a = true
    · simp only [List.takeWhile_cons, ha, if_true, List.mem_cons] at h
      rcases h with rfl | h
      · exact ha
      · exact mem_takeWhile p l c h
    · simp [List.takeWhile_cons, ha] at h

/-- the body of a line: cut at `#`, stripped -/
def lineBody (s : List Char) : List Char := trimChars (s.takeWhile (· ≠ '#'))

theorem lineBody_idem (s : List Char) : lineBody (lineBody s) = lineBody s := by
  unfold lineBody
  rw [takeWhile_eq_self _ (trimChars _) (fun c hc => mem_takeWhile _ _ c (mem_of_mem_trimChars hc)), trimChars_idem]

end Op.FllIO

namespace Op.FllIO
open Gen.Code Py.Fll

/-! ## `extract_key_value`, `extract_value` -/


theorem splitColon_cases (s : String) : Py.Fll.splitColon s = [s] ∨ ∃ k v, Py.Fll.splitColon s = [k, v] := by
  unfold Py.Fll.splitColon
  split
  · exact Or.inl rfl
  · exact Or.inr ⟨_, _, rfl⟩

theorem code_keyValue (fll : String) (component : Option String) :
    FllImporter_extract_key_value.run fll component {} =
      (Py.Fll.keyValue fll component).map
        (fun kv => { parts := Py.Fll.splitColon (Py.Fll.stripComments fll), ret := some kv }) := by
  unfold FllImporter_extract_key_value.run Py.Fll.keyValue
  rcases splitColon_cases (Py.Fll.stripComments fll) with h | ⟨k, v, h⟩
  · simp [h, bind, Except.bind, Except.map]
  · cases hc : Py.Fll.truthyOptStr component <;>
      simp [h, hc, bind, Except.bind, Except.map, Py.nth]
    by_cases hk : some k = component <;> simp [hk]

theorem code_extractValue (fll : String) (component : Option String) :
    FllImporter_extract_value.run fll component {} =
      (Py.Fll.keyValue fll component).map (fun kv => { ret := some kv.2 }) := by
  unfold FllImporter_extract_value.run
  rw [code_keyValue]
  cases Py.Fll.keyValue fll component <;> rfl

/-! ## words -/

theorem wordsAux_wsfree : ∀ (l cur : List Char) (acc : List (List Char)), (∀ c ∈ l, isWs c = false) →
    wordsAux l cur acc = (if (cur.reverse ++ l).isEmpty then acc else (cur.reverse ++ l) :: acc).reverse
  | [], cur, acc, _ => by simp [wordsAux]
  | c :: r, cur, acc, h => by
    have hc : isWs c = false := h c (by simp)
    rw [wordsAux, if_neg (by simp [hc]), wordsAux_wsfree r (c :: cur) acc (fun d hd => h d (by simp [hd]))]
    simp

/-- a word: not empty, no white space -/
def GoodWord (w : List Char) : Prop := w ≠ [] ∧ ∀ c ∈ w, isWs c = false

theorem wordsAux_good : ∀ (l cur : List Char) (acc : List (List Char)), (∀ c ∈ cur, isWs c = false) →
    (∀ w ∈ acc, GoodWord w) → ∀ w ∈ wordsAux l cur acc, GoodWord w
  | [], cur, acc, hc, ha, w, hw => by
    simp only [wordsAux] at hw
    by_cases he : cur.isEmpty
    · simp only [he, if_true, List.mem_reverse] at hw; exact ha w hw
    · simp only [he, Bool.false_eq_true, if_false, List.mem_reverse, List.mem_cons] at hw
      rcases hw with rfl | hw
      · exact ⟨by simpa using he, fun c hcm => hc c (by simpa using hcm)⟩
      · exact ha w hw
  | c :: r, cur, acc, hc, ha, w, hw => by
    rw [wordsAux] at hw
    by_cases hw' : isWs c = true
    · rw [if_pos hw'] at hw
      refine wordsAux_good r [] _ (by simp) ?_ w hw
      intro w' hw''
      by_cases he : cur.isEmpty
      · simp only [he, if_true] at hw''; exact ha w' hw''
      · simp only [he, Bool.false_eq_true, if_false, List.mem_cons] at hw''
        rcases hw'' with rfl | hw''
        · exact ⟨by simpa using he, fun c hcm => hc c (by simpa using hcm)⟩
        · exact ha w' hw''
    · rw [if_neg hw'] at hw
      refine wordsAux_good r (c :: cur) acc ?_ ha w hw
      intro d hd
      simp only [List.mem_cons] at hd
      rcases hd with rfl | hd
      · simpa using hw'
      · exact hc d hd

/-- a word of `split()` is split into itself -/
theorem words_word (l : List Char) (w : String) (h : w ∈ words l) : words w.toList = [w] := by
  simp only [words, List.mem_map] at h
  obtain ⟨w', hw', rfl⟩ := h
  have g := wordsAux_good l [] [] (by simp) (by simp) w' hw'
  simp only [words, String.toList_ofList]
  rw [wordsAux_wsfree w' [] [] g.2]
  simp [g.1]

/-! ## `boolean`, `range`, `tnorm`, `snorm` -/


theorem toList_eq_nil_iff (s : String) : s.toList = [] ↔ s = "" := by
  rw [← String.toList_inj]; rfl

theorem textTok_toList (s : String) : textTok s.toList = if s = "" then [] else [.w s] := by
  unfold textTok
  by_cases h : s = ""
  · subst h; rfl
  · have : s.toList ≠ [] := fun e => h ((toList_eq_nil_iff s).1 e)
    simp [h, this, String.ofList_toList]

theorem code_boolean (fll : String) :
    FllImporter_boolean.run fll {} =
      (lift (boolOf (textTok (trimChars fll.toList)))).map (fun b => { ret := some b }) := by
  have e : trimChars fll.toList = (Py.Fll.strip fll).toList := by simp [Py.Fll.strip, String.toList_ofList]
  rw [e, textTok_toList]
  unfold FllImporter_boolean.run
  generalize Py.Fll.strip fll = s
  by_cases h1 : s = "true"
  · subst h1; rfl
  · by_cases h2 : s = "false"
    · subst h2; rfl
    · by_cases h0 : s = ""
      · subst h0; rfl
      · simp [h1, h2, h0, boolOf, lift, Except.map, Err.toPy]

theorem code_range (fll : String) :
    FllImporter_range.run fll {} =
      (lift (rangeOf ((Op.FllIO.words fll.toList).map numTokOf))).map
        (fun r => { values := Py.Fll.words fll, ret := some r }) := by
  unfold FllImporter_range.run Py.Fll.words
  rcases h : Op.FllIO.words fll.toList with _ | ⟨a, _ | ⟨b, _ | ⟨c, r⟩⟩⟩
  · rfl
  · rfl
  · have wa := words_word fll.toList a (by simp [h])
    have wb := words_word fll.toList b (by simp [h])
    simp only [List.length_cons, List.length_nil, List.map_cons, List.map_nil, rangeOf, numTokOf, Py.Fll.toFloat, Py.nth, wa, wb]
    cases ha : parseNum a <;> cases hb : parseNum b <;>
      simp [ha, hb, wa, wb, bind, Except.bind, lift, Except.map, Err.toPy]
  · rfl


theorem code_tnorm (fll : String) :
    FllImporter_tnorm.run fll {} =
      (lift (normOf Gen.Tables.tnormKeys (textTok fll.toList))).map (fun o => { ret := some o }) := by
  unfold FllImporter_tnorm.run
  rw [textTok_toList]
  by_cases h0 : fll = ""
  · subst h0; rfl
  · by_cases h1 : fll = "none"
    · subst h1; rfl
    · by_cases hk : fll ∈ Gen.Tables.tnormKeys <;>
        simp [h0, h1, hk, normOf, Py.Fll.constructNorm, lift, Except.map, bind, Except.bind, Err.toPy]

theorem code_snorm (fll : String) :
    FllImporter_snorm.run fll {} =
      (lift (normOf Gen.Tables.snormKeys (textTok fll.toList))).map (fun o => { ret := some o }) := by
  unfold FllImporter_snorm.run
  rw [textTok_toList]
  by_cases h0 : fll = ""
  · subst h0; rfl
  · by_cases h1 : fll = "none"
    · subst h1; rfl
    · by_cases hk : fll ∈ Gen.Tables.snormKeys <;>
        simp [h0, h1, hk, normOf, Py.Fll.constructNorm, lift, Except.map, bind, Except.bind, Err.toPy]

/-! ## one raw line: the lexer `lexLine` and `extract_key_value` -/

theorem stripComments_toList (x : String) : (stripComments x).toList = lineBody x.toList := by
  simp [stripComments, lineBody, String.toList_ofList]

theorem stripComments_idem (x : String) : stripComments (stripComments x) = stripComments x := by
  rw [← String.toList_inj, stripComments_toList, stripComments_toList, lineBody_idem]

theorem strip_toList (x : String) : (strip x).toList = trimChars x.toList := by
  simp [strip, String.toList_ofList]

theorem strip_idem (x : String) : strip (strip x) = strip x := by
  rw [← String.toList_inj, strip_toList, strip_toList, trimChars_idem]

/-- what the lexer and `extract_key_value` make of one raw line -/
inductive LineCase (x : String) : Prop where
  | empty (hb : stripComments x = "") (hl : lexLine x.toList = .ok none)
  | noColon (hb : stripComments x ≠ "") (hk : ∀ c, keyValue (stripComments x) c = .error .syntax)
      (hl : lexLine x.toList = .error .syntax)
  | pair (k v : String) (hb : stripComments x ≠ "") (hs : splitColon (stripComments x) = [k, v])
      (hl : lexLine x.toList =
        if (Key.ofText (strip k) = .term ∨ Key.ofText (strip k) = .rule) ∧ k ≠ strip k
        then .ok (some ⟨.other k, textTok (strip v).toList⟩)
        else .ok (some ⟨Key.ofText (strip k), lexValue (Key.ofText (strip k)) (strip v).toList⟩))

theorem lineCase (x : String) : LineCase x := by
  by_cases hb : stripComments x = ""
  · refine .empty hb ?_
    have : lineBody x.toList = [] := by rw [← stripComments_toList, hb]; rfl
    unfold lexLine
    show (if (lineBody x.toList).isEmpty = true then _ else _) = _
    rw [if_pos (by simp [this])]
  · have hne : lineBody x.toList ≠ [] := by
      intro e; apply hb; rw [← String.toList_inj, stripComments_toList, e]; rfl
    have hl0 : lexLine x.toList = match (lineBody x.toList).span (· ≠ ':') with
        | (_, []) => .error .syntax
        | (k, _ :: v) =>
          if (Key.ofText (String.ofList (trimChars k)) = .term ∨ Key.ofText (String.ofList (trimChars k)) = .rule) ∧ k ≠ trimChars k
          then .ok (some ⟨.other (String.ofList k), textTok (trimChars v)⟩)
          else .ok (some ⟨Key.ofText (String.ofList (trimChars k)), lexValue (Key.ofText (String.ofList (trimChars k))) (trimChars v)⟩) := by
      unfold lexLine
      show (if (lineBody x.toList).isEmpty = true then _ else _) = _
      rw [if_neg (by simpa using hne)]
      rfl
    rcases hsp : (lineBody x.toList).span (· ≠ ':') with ⟨k, _ | ⟨c, v⟩⟩
    · refine .noColon hb (fun c => ?_) (by rw [hl0, hsp])
      simp only [keyValue, stripComments_idem, splitColon, stripComments_toList, hsp]
    · refine .pair (String.ofList k) (String.ofList v) hb ?_ ?_
      · simp only [splitColon, stripComments_toList, hsp]
      · rw [hl0, hsp]
        simp only [strip, String.toList_ofList]
        have : (String.ofList k ≠ String.ofList (trimChars k)) ↔ k ≠ trimChars k := by
          rw [ne_eq, ne_eq, ← String.toList_inj, String.toList_ofList, String.toList_ofList]
        simp only [this]

theorem keyValue_pair (x k v : String) (hs : splitColon (stripComments x) = [k, v]) (c : Option String) :
    keyValue (stripComments x) c =
      if truthyOptStr c && (some k != c) then .error .syntax else .ok (strip k, strip v) := by
  simp only [keyValue, stripComments_idem, hs]

/-- one raw line in the text-level reading of a component: strip comments, skip an empty line, cut at the colon,
    lex the value, then the line function of the token-level model -/
def stepText {β : Type} (f : β → Line → Except Err β) (b : β) (raw : String) : Except Err β :=
  match lexLine raw.toList with
  | .error e => .error e
  | .ok none => .ok b
  | .ok (some l) => f b l

end Op.FllIO
