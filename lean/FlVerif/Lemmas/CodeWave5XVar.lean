import FlVerif.Gen.CodeWave5XVar
import FlVerif.Lemmas.CodeEngineIOLookup

/-! # Tie A for `Variable.term`: the look-up by name or index translated from `variable.py` equals `Op.Engine.lookup`
    (the model of the look-ups of `Engine`, `Op/EngineIO.lean`) on the terms of the variable -/

namespace Op.Engine
open Lang Gen.Code

theorem code_variableTermLoop {V : Type} [Inhabited V] (nameOf : V → String) (terms : List V) (s : String) :
    ∀ (l : List V) (σ : Variable_term.S V),
      ∃ σ', Variable_term.loop1 nameOf terms (.name s) l σ = .ok σ' ∧
        σ'.ret = (match l.find? (fun x => nameOf x == s) with | some x => some x | none => σ.ret)
  | [], σ => ⟨σ, rfl, rfl⟩
  | x :: l, σ => by
    simp only [Variable_term.loop1, Key.isName]
    by_cases h : (nameOf x == s) = true
    · simp only [h, if_true, List.find?_cons_of_pos]
      exact ⟨_, rfl, rfl⟩
    · have hf : (nameOf x == s) = false := Bool.eq_false_iff.mpr h
      rw [List.find?_cons_of_neg (p := fun x => nameOf x == s) h]
      simp only [hf, Bool.false_eq_true, if_false]
      exact code_variableTermLoop nameOf terms s l { σ with term_ := x }

/-- **`Variable.term` as translated from the source = `Op.Engine.lookup`** -/
theorem code_variableTerm {V : Type} [Inhabited V] (nameOf : V → String) (terms : List V) (k : Key) :
    match lookup nameOf terms k with
    | .error e => Variable_term.run nameOf terms k {} = .error e.toPy
    | .ok x => ∃ σ, Variable_term.run nameOf terms k {} = .ok σ ∧ σ.ret = some x := by
  cases k with
  | index i =>
    simp only [lookup, Variable_term.run, Key.isInt, if_true, atKey_index]
    cases atIndex terms i with
    | none => simp only [bind, Except.bind, ErrKind.toPy]
    | some x => exact ⟨_, rfl, rfl⟩
  | name s =>
    simp only [lookup, Variable_term.run, Key.isInt, Bool.false_eq_true, if_false, bind, Except.bind]
    obtain ⟨σ', h, hr⟩ := code_variableTermLoop nameOf terms s terms {}
    simp only [h]
    cases hf : terms.find? (fun x => nameOf x == s) with
    | none =>
      rw [hf] at hr
      have : σ'.ret = none := hr
      simp only [this, Option.isSome_none, Bool.false_eq_true, if_false, ErrKind.toPy]
    | some x =>
      rw [hf] at hr
      simp only [hr, Option.isSome_some, if_true]
      exact ⟨σ', rfl, hr⟩

end Op.Engine
