import FlVerif.Lemmas.CodeFllImport

/-! # Tie A for the FuzzyLite Language importer, part 2: the key dispatch loops of `input_variable`,
`output_variable`, `rule_block`

Each loop of the translated code reads the raw lines of a component: `Op.strip_comments`, skip an empty line,
`extract_key_value`, dispatch on the key.  The model reads the same raw lines with the lexer (`lexLine`) and applies
the line function of the token-level importer (`importVarLine`, `importOutLine`, `importBlockLine`): `stepText`. -/

namespace Op.FllIO
open Gen.Code Py.Fll


theorem textOf_textTok (s : String) : textOf (textTok s.toList) = .ok s := by
  rw [textTok_toList]; by_cases h : s = ""
  · subst h; rfl
  · simp [h, textOf]

theorem strip_strip_toList (v : String) : trimChars (strip v).toList = (strip v).toList := by
  rw [strip_toList, trimChars_idem]

/-- the result of a model and the result of the translated code agree: same exception class, or the same object in
    the field `proj` of the final record -/
def Agree {S β : Type} (proj : S → β) (r : Except Err β) (g : Py.M S) : Prop :=
  match r with
  | .error e => g = .error e.toPy
  | .ok v => ∃ σ', g = .ok σ' ∧ proj σ' = v

/-- a line whose key is not `term` / `rule`: the token line -/
theorem stepText_plain {β : Type} (f : β → Line → Except Err β) (b : β) (x k v : String) (K : Key)
    (hl : lexLine x.toList =
        if (Key.ofText (strip k) = .term ∨ Key.ofText (strip k) = .rule) ∧ k ≠ strip k
        then .ok (some ⟨.other k, textTok (strip v).toList⟩)
        else .ok (some ⟨Key.ofText (strip k), lexValue (Key.ofText (strip k)) (strip v).toList⟩))
    (hK : Key.ofText (strip k) = K) (h1 : K ≠ .term) (h2 : K ≠ .rule) :
    stepText f b x = f b ⟨K, lexValue K (strip v).toList⟩ := by
  rw [hK] at hl
  simp only [stepText, hl, h1, h2, or_self, false_and, if_false]

/-- a `term` / `rule` line: the text before the colon must be the key itself -/
theorem stepText_strict {β : Type} (f : β → Line → Except Err β) (b : β) (x k v : String) (K : Key)
    (hl : lexLine x.toList =
        if (Key.ofText (strip k) = .term ∨ Key.ofText (strip k) = .rule) ∧ k ≠ strip k
        then .ok (some ⟨.other k, textTok (strip v).toList⟩)
        else .ok (some ⟨Key.ofText (strip k), lexValue (Key.ofText (strip k)) (strip v).toList⟩))
    (hK : Key.ofText (strip k) = K) (h : K = .term ∨ K = .rule)
    (hf : ∀ s toks, f b ⟨.other s, toks⟩ = .error .syntax) :
    stepText f b x = if k ≠ strip k then .error .syntax else f b ⟨K, lexValue K (strip v).toList⟩ := by
  rw [hK] at hl
  by_cases hk : k = strip k
  · rw [if_neg (fun hn : k ≠ strip k => hn hk), stepText, hl, if_neg (fun hn => hn.2 hk)]
  · rw [if_pos hk, stepText, hl, if_pos ⟨h, hk⟩]
    exact hf _ _

/-- `FllImporter.term(line)` on the stripped line of a `term` line -/
theorem termOf_line (x k v : String) (hs : splitColon (stripComments x) = [k, v]) (hk : strip k = "term") :
    termOf (stripComments x) =
      if k ≠ strip k then .error .syntax else lift (importTerm (lexValue .term (strip v).toList)) := by
  unfold termOf
  rw [keyValue_pair x k v hs, hk]
  by_cases h : k = "term"
  · subst h; simp [truthyOptStr, bind, Except.bind]
  · have : (some k != some "term") = true := by simp [h]
    simp [truthyOptStr, this, h, bind, Except.bind]

theorem ruleOf_line (x k v : String) (hs : splitColon (stripComments x) = [k, v]) (hk : strip k = "rule") :
    ruleOf (stripComments x) =
      if k ≠ strip k then .error .syntax else lift (importRule (lexValue .rule (strip v).toList)) := by
  unfold ruleOf
  rw [keyValue_pair x k v hs, hk]
  by_cases h : k = "rule"
  · subst h; simp [truthyOptStr, bind, Except.bind]
  · have : (some k != some "rule") = true := by simp [h]
    simp [truthyOptStr, this, h, bind, Except.bind]



/-! ## keys -/

theorem ofText_spec (s : String) : Key.ofText s =
    if s = "Engine" then .engine else if s = "InputVariable" then .inputVariable else if s = "OutputVariable" then .outputVariable
    else if s = "RuleBlock" then .ruleBlock else if s = "description" then .description else if s = "enabled" then .enabled
    else if s = "range" then .range else if s = "lock-range" then .lockRange else if s = "term" then .term
    else if s = "aggregation" then .aggregation else if s = "defuzzifier" then .defuzzifier else if s = "default" then .default
    else if s = "lock-previous" then .lockPrevious else if s = "conjunction" then .conjunction
    else if s = "disjunction" then .disjunction else if s = "implication" then .implication else if s = "activation" then .activation
    else if s = "rule" then .rule else .other s := by
  unfold Key.ofText
  split <;> simp_all

/-- the key of a line determines the text before the colon -/
theorem text_ofText (s : String) : (Key.ofText s).text = s := by
  unfold Key.ofText
  split <;> rfl

theorem ofText_ne (s : String) (K : Key) (h : s ≠ K.text) : Key.ofText s ≠ K := by
  intro e; apply h; rw [← e, text_ofText]

/-- a line of an unknown key after the lexer: `SyntaxError` whatever the line function does with known keys -/
theorem stepText_unknown {β : Type} (f : β → Line → Except Err β) (b : β) (x k v : String)
    (hl : lexLine x.toList =
        if (Key.ofText (strip k) = .term ∨ Key.ofText (strip k) = .rule) ∧ k ≠ strip k
        then .ok (some ⟨.other k, textTok (strip v).toList⟩)
        else .ok (some ⟨Key.ofText (strip k), lexValue (Key.ofText (strip k)) (strip v).toList⟩))
    (hf : ∀ toks, f b ⟨Key.ofText (strip k), toks⟩ = .error .syntax)
    (hf' : ∀ s toks, f b ⟨.other s, toks⟩ = .error .syntax) :
    stepText f b x = .error .syntax := by
  unfold stepText
  rw [hl]
  split_ifs
  · exact hf' _ _
  · exact hf _

/-! ## `input_variable` -/

theorem code_ivLoop (fll : String) : ∀ (lines : List String) (σ : FllImporter_input_variable.S) (v0 : Var), σ.iv = v0 →
    Agree (·.iv) (lines.foldlM (stepText (importVarLine .inputVariable)) v0) (FllImporter_input_variable.loop1 fll lines σ)
  | [], σ, v0, h0 => ⟨σ, rfl, h0⟩
  | x :: rest, σ, v0, h0 => by
    have ih := code_ivLoop fll rest
    subst h0
    rw [List.foldlM_cons]
    rcases lineCase x with ⟨hb, hl⟩ | ⟨hb, hk, hl⟩ | ⟨k, v, hb, hs, hl⟩
    · simp only [FllImporter_input_variable.loop1, stepText, hl, hb, bind, Except.bind]
      exact ih _ _ rfl
    · have hb' : (stripComments x != "") = true := by simpa using hb
      simp only [FllImporter_input_variable.loop1, stepText, hl, hb', bind, Except.bind,
        code_keyValue, hk, Except.map, Bool.not_true, Bool.false_eq_true, if_false]
      rfl
    · have hkv := keyValue_pair x k v hs none
      simp only [truthyOptStr, Bool.false_and] at hkv
      have hb' : (stripComments x != "") = true := by simpa using hb
      simp only [FllImporter_input_variable.loop1, hb', bind, Except.bind,
        code_keyValue, hkv, Except.map, Bool.not_true, Bool.false_eq_true, if_false, Py.deref_some]
      by_cases h1 : strip k = "InputVariable"
      · rw [stepText_plain _ _ x k v .inputVariable hl (by rw [h1]; rfl) (by decide) (by decide), h1, if_pos (beq_self_eq_true _)]
        simp only [importVarLine, lexValue, textOf_textTok, Except.map, if_true]
        exact ih _ _ rfl
      rw [if_neg (by simpa using h1)]
      by_cases h2 : strip k = "description"
      · rw [stepText_plain _ _ x k v .description hl (by rw [h2]; rfl) (by decide) (by decide), h2, if_pos (beq_self_eq_true _)]
        simp only [importVarLine, lexValue, textOf_textTok, Except.map, reduceCtorEq, if_false]
        exact ih _ _ rfl
      rw [if_neg (by simpa using h2)]
      by_cases h3 : strip k = "enabled"
      · rw [stepText_plain _ _ x k v .enabled hl (by rw [h3]; rfl) (by decide) (by decide), h3, if_pos (beq_self_eq_true _)]
        simp only [importVarLine, lexValue, Except.map, reduceCtorEq, if_false, code_boolean, strip_strip_toList]
        cases boolOf (textTok (strip v).toList) with
        | error e => rfl
        | ok b => exact ih _ _ rfl
      rw [if_neg (by simpa using h3)]
      by_cases h4 : strip k = "range"
      · rw [stepText_plain _ _ x k v .range hl (by rw [h4]; rfl) (by decide) (by decide), h4, if_pos (beq_self_eq_true _)]
        simp only [importVarLine, lexValue, Except.map, reduceCtorEq, if_false, code_range]
        cases rangeOf (List.map numTokOf (Op.FllIO.words (strip v).toList)) with
        | error e => rfl
        | ok b => exact ih _ _ rfl
      rw [if_neg (by simpa using h4)]
      by_cases h5 : strip k = "lock-range"
      · rw [stepText_plain _ _ x k v .lockRange hl (by rw [h5]; rfl) (by decide) (by decide), h5, if_pos (beq_self_eq_true _)]
        simp only [importVarLine, lexValue, Except.map, reduceCtorEq, if_false, code_boolean, strip_strip_toList]
        cases boolOf (textTok (strip v).toList) with
        | error e => rfl
        | ok b => exact ih _ _ rfl
      rw [if_neg (by simpa using h5)]
      by_cases h6 : strip k = "term"
      · rw [stepText_strict _ _ x k v .term hl (by rw [h6]; rfl) (Or.inl rfl) (fun _ _ => rfl), termOf_line x k v hs h6, h6, if_pos (beq_self_eq_true _)]
        by_cases hk : k = "term"
        · simp only [hk, ne_eq, not_true_eq_false, if_false, importVarLine, reduceCtorEq, Except.map]
          cases importTerm (lexValue Key.term (strip v).toList) with
          | error e => rfl
          | ok b => exact ih _ _ rfl
        · simp only [ne_eq, hk, not_false_eq_true, if_true]
          rfl
      rw [if_neg (by simpa using h6)]
      rw [stepText_unknown _ _ x k v hl (fun toks => by
        have e1 := ofText_ne (strip k) .inputVariable h1
        have e2 := ofText_ne (strip k) .description h2
        have e3 := ofText_ne (strip k) .enabled h3
        have e4 := ofText_ne (strip k) .range h4
        have e5 := ofText_ne (strip k) .lockRange h5
        have e6 := ofText_ne (strip k) .term h6
        generalize Key.ofText (strip k) = K at *
        cases K <;> simp_all [importVarLine]) (fun _ _ => rfl)]
      rfl

/-! ## `output_variable` -/

theorem numOf_default (v : String) :
    Py.Fll.toFloat v = lift (numOf (lexValue .default v.toList)) := by
  unfold Py.Fll.toFloat
  simp only [lexValue]
  rcases h : Op.FllIO.words v.toList with _ | ⟨a, _ | ⟨b, r⟩⟩
  · rfl
  · simp only [List.map_cons, List.map_nil, numTokOf]
    cases parseNum a <;> rfl
  · simp [numOf, lift, Err.toPy]

theorem code_ovLoop (fll : String) : ∀ (lines : List String) (σ : FllImporter_output_variable.S) (v0 : OutVar), σ.ov = v0 →
    Agree (·.ov) (lines.foldlM (stepText importOutLine) v0) (FllImporter_output_variable.loop1 fll lines σ)
  | [], σ, v0, h0 => ⟨σ, rfl, h0⟩
  | x :: rest, σ, v0, h0 => by
    have ih := code_ovLoop fll rest
    subst h0
    rw [List.foldlM_cons]
    rcases lineCase x with ⟨hb, hl⟩ | ⟨hb, hk, hl⟩ | ⟨k, v, hb, hs, hl⟩
    · simp only [FllImporter_output_variable.loop1, stepText, hl, hb, bind, Except.bind]
      exact ih _ _ rfl
    · have hb' : (stripComments x != "") = true := by simpa using hb
      simp only [FllImporter_output_variable.loop1, stepText, hl, hb', bind, Except.bind,
        code_keyValue, hk, Except.map, Bool.not_true, Bool.false_eq_true, if_false]
      rfl
    · have hkv := keyValue_pair x k v hs none
      simp only [truthyOptStr, Bool.false_and] at hkv
      have hb' : (stripComments x != "") = true := by simpa using hb
      simp only [FllImporter_output_variable.loop1, hb', bind, Except.bind,
        code_keyValue, hkv, Except.map, Bool.not_true, Bool.false_eq_true, if_false, Py.deref_some]
      by_cases h1 : strip k = "OutputVariable"
      · rw [stepText_plain _ _ x k v .outputVariable hl (by rw [h1]; rfl) (by decide) (by decide), h1, if_pos (beq_self_eq_true _)]
        simp only [importOutLine, importVarLine, lexValue, textOf_textTok, Except.map, if_true]
        exact ih _ _ rfl
      rw [if_neg (by simpa using h1)]
      by_cases h2 : strip k = "description"
      · rw [stepText_plain _ _ x k v .description hl (by rw [h2]; rfl) (by decide) (by decide), h2, if_pos (beq_self_eq_true _)]
        simp only [importOutLine, importVarLine, lexValue, textOf_textTok, Except.map, reduceCtorEq, if_false]
        exact ih _ _ rfl
      rw [if_neg (by simpa using h2)]
      by_cases h3 : strip k = "enabled"
      · rw [stepText_plain _ _ x k v .enabled hl (by rw [h3]; rfl) (by decide) (by decide), h3, if_pos (beq_self_eq_true _)]
        simp only [importOutLine, importVarLine, lexValue, Except.map, reduceCtorEq, if_false, code_boolean, strip_strip_toList]
        cases boolOf (textTok (strip v).toList) with
        | error e => rfl
        | ok b => exact ih _ _ rfl
      rw [if_neg (by simpa using h3)]
      by_cases h4 : strip k = "range"
      · rw [stepText_plain _ _ x k v .range hl (by rw [h4]; rfl) (by decide) (by decide), h4, if_pos (beq_self_eq_true _)]
        simp only [importOutLine, importVarLine, lexValue, Except.map, reduceCtorEq, if_false, code_range]
        cases rangeOf (List.map numTokOf (Op.FllIO.words (strip v).toList)) with
        | error e => rfl
        | ok b => exact ih _ _ rfl
      rw [if_neg (by simpa using h4)]
      by_cases h5 : strip k = "default"
      · rw [stepText_plain _ _ x k v .default hl (by rw [h5]; rfl) (by decide) (by decide), h5, if_pos (beq_self_eq_true _)]
        simp only [importOutLine, Except.map, numOf_default]
        cases numOf (lexValue Key.default (strip v).toList) with
        | error e => rfl
        | ok b => exact ih _ _ rfl
      rw [if_neg (by simpa using h5)]
      by_cases h6 : strip k = "lock-previous"
      · rw [stepText_plain _ _ x k v .lockPrevious hl (by rw [h6]; rfl) (by decide) (by decide), h6, if_pos (beq_self_eq_true _)]
        simp only [importOutLine, lexValue, Except.map, code_boolean, strip_strip_toList]
        cases boolOf (textTok (strip v).toList) with
        | error e => rfl
        | ok b => exact ih _ _ rfl
      rw [if_neg (by simpa using h6)]
      by_cases h7 : strip k = "lock-range"
      · rw [stepText_plain _ _ x k v .lockRange hl (by rw [h7]; rfl) (by decide) (by decide), h7, if_pos (beq_self_eq_true _)]
        simp only [importOutLine, importVarLine, lexValue, Except.map, reduceCtorEq, if_false, code_boolean, strip_strip_toList]
        cases boolOf (textTok (strip v).toList) with
        | error e => rfl
        | ok b => exact ih _ _ rfl
      rw [if_neg (by simpa using h7)]
      by_cases h8 : strip k = "defuzzifier"
      · rw [stepText_plain _ _ x k v .defuzzifier hl (by rw [h8]; rfl) (by decide) (by decide), h8, if_pos (beq_self_eq_true _)]
        simp only [importOutLine, Except.map, defuzzOf]
        cases importDefuzz (lexValue Key.defuzzifier (strip v).toList) with
        | error e => rfl
        | ok b => exact ih _ _ rfl
      rw [if_neg (by simpa using h8)]
      by_cases h9 : strip k = "aggregation"
      · rw [stepText_plain _ _ x k v .aggregation hl (by rw [h9]; rfl) (by decide) (by decide), h9, if_pos (beq_self_eq_true _)]
        simp only [importOutLine, lexValue, Except.map, code_snorm]
        cases normOf Gen.Tables.snormKeys (textTok (strip v).toList) with
        | error e => rfl
        | ok b => exact ih _ _ rfl
      rw [if_neg (by simpa using h9)]
      by_cases h10 : strip k = "term"
      · rw [stepText_strict _ _ x k v .term hl (by rw [h10]; rfl) (Or.inl rfl) (fun _ _ => rfl), termOf_line x k v hs h10, h10, if_pos (beq_self_eq_true _)]
        by_cases hk : k = "term"
        · simp only [hk, ne_eq, not_true_eq_false, if_false, importOutLine, importVarLine, reduceCtorEq, Except.map]
          cases importTerm (lexValue Key.term (strip v).toList) with
          | error e => rfl
          | ok b => exact ih _ _ rfl
        · simp only [ne_eq, hk, not_false_eq_true, if_true]
          rfl
      rw [if_neg (by simpa using h10)]
      rw [stepText_unknown _ _ x k v hl (fun toks => by
        have e1 := ofText_ne (strip k) .outputVariable h1
        have e2 := ofText_ne (strip k) .description h2
        have e3 := ofText_ne (strip k) .enabled h3
        have e4 := ofText_ne (strip k) .range h4
        have e5 := ofText_ne (strip k) .default h5
        have e6 := ofText_ne (strip k) .lockPrevious h6
        have e7 := ofText_ne (strip k) .lockRange h7
        have e8 := ofText_ne (strip k) .defuzzifier h8
        have e9 := ofText_ne (strip k) .aggregation h9
        have e10 := ofText_ne (strip k) .term h10
        generalize Key.ofText (strip k) = K at *
        cases K <;> simp_all [importOutLine, importVarLine, Except.map]) (fun _ _ => rfl)]
      rfl

/-! ## `rule_block` -/

theorem code_rbLoop (fll : String) : ∀ (lines : List String) (σ : FllImporter_rule_block.S) (v0 : Block), σ.rb = v0 →
    Agree (·.rb) (lines.foldlM (stepText importBlockLine) v0) (FllImporter_rule_block.loop1 fll lines σ)
  | [], σ, v0, h0 => ⟨σ, rfl, h0⟩
  | x :: rest, σ, v0, h0 => by
    have ih := code_rbLoop fll rest
    subst h0
    rw [List.foldlM_cons]
    rcases lineCase x with ⟨hb, hl⟩ | ⟨hb, hk, hl⟩ | ⟨k, v, hb, hs, hl⟩
    · simp only [FllImporter_rule_block.loop1, stepText, hl, hb, bind, Except.bind]
      exact ih _ _ rfl
    · have hb' : (stripComments x != "") = true := by simpa using hb
      simp only [FllImporter_rule_block.loop1, stepText, hl, hb', bind, Except.bind,
        code_keyValue, hk, Except.map, Bool.not_true, Bool.false_eq_true, if_false]
      rfl
    · have hkv := keyValue_pair x k v hs none
      simp only [truthyOptStr, Bool.false_and] at hkv
      have hb' : (stripComments x != "") = true := by simpa using hb
      simp only [FllImporter_rule_block.loop1, hb', bind, Except.bind,
        code_keyValue, hkv, Except.map, Bool.not_true, Bool.false_eq_true, if_false, Py.deref_some, if_true]
      by_cases h1 : strip k = "RuleBlock"
      · rw [stepText_plain _ _ x k v .ruleBlock hl (by rw [h1]; rfl) (by decide) (by decide), h1, if_pos (beq_self_eq_true _)]
        simp only [importBlockLine, lexValue, textOf_textTok, Except.map]
        exact ih _ _ rfl
      rw [if_neg (by simpa using h1)]
      by_cases h2 : strip k = "description"
      · rw [stepText_plain _ _ x k v .description hl (by rw [h2]; rfl) (by decide) (by decide), h2, if_pos (beq_self_eq_true _)]
        simp only [importBlockLine, lexValue, textOf_textTok, Except.map]
        exact ih _ _ rfl
      rw [if_neg (by simpa using h2)]
      by_cases h3 : strip k = "enabled"
      · rw [stepText_plain _ _ x k v .enabled hl (by rw [h3]; rfl) (by decide) (by decide), h3, if_pos (beq_self_eq_true _)]
        simp only [importBlockLine, lexValue, Except.map, code_boolean, strip_strip_toList]
        cases boolOf (textTok (strip v).toList) with
        | error e => rfl
        | ok b => exact ih _ _ rfl
      rw [if_neg (by simpa using h3)]
      by_cases h4 : strip k = "conjunction"
      · rw [stepText_plain _ _ x k v .conjunction hl (by rw [h4]; rfl) (by decide) (by decide), h4, if_pos (beq_self_eq_true _)]
        simp only [importBlockLine, lexValue, Except.map, code_tnorm]
        cases normOf Gen.Tables.tnormKeys (textTok (strip v).toList) with
        | error e => rfl
        | ok b => exact ih _ _ rfl
      rw [if_neg (by simpa using h4)]
      by_cases h5 : strip k = "disjunction"
      · rw [stepText_plain _ _ x k v .disjunction hl (by rw [h5]; rfl) (by decide) (by decide), h5, if_pos (beq_self_eq_true _)]
        simp only [importBlockLine, lexValue, Except.map, code_snorm]
        cases normOf Gen.Tables.snormKeys (textTok (strip v).toList) with
        | error e => rfl
        | ok b => exact ih _ _ rfl
      rw [if_neg (by simpa using h5)]
      by_cases h6 : strip k = "implication"
      · rw [stepText_plain _ _ x k v .implication hl (by rw [h6]; rfl) (by decide) (by decide), h6, if_pos (beq_self_eq_true _)]
        simp only [importBlockLine, lexValue, Except.map, code_tnorm]
        cases normOf Gen.Tables.tnormKeys (textTok (strip v).toList) with
        | error e => rfl
        | ok b => exact ih _ _ rfl
      rw [if_neg (by simpa using h6)]
      by_cases h7 : strip k = "activation"
      · rw [stepText_plain _ _ x k v .activation hl (by rw [h7]; rfl) (by decide) (by decide), h7, if_pos (beq_self_eq_true _)]
        simp only [importBlockLine, Except.map, activOf]
        cases importActiv (lexValue Key.activation (strip v).toList) with
        | error e => rfl
        | ok b => exact ih _ _ rfl
      rw [if_neg (by simpa using h7)]
      by_cases h8 : strip k = "rule"
      · rw [stepText_strict _ _ x k v .rule hl (by rw [h8]; rfl) (Or.inr rfl) (fun _ _ => rfl), ruleOf_line x k v hs h8, h8, if_pos (beq_self_eq_true _)]
        by_cases hk : k = "rule"
        · simp only [hk, ne_eq, not_true_eq_false, if_false, importBlockLine, Except.map]
          cases importRule (lexValue Key.rule (strip v).toList) with
          | error e => rfl
          | ok b => exact ih _ _ rfl
        · simp only [ne_eq, hk, not_false_eq_true, if_true]
          rfl
      rw [if_neg (by simpa using h8)]
      rw [stepText_unknown _ _ x k v hl (fun toks => by
        have e1 := ofText_ne (strip k) .ruleBlock h1
        have e2 := ofText_ne (strip k) .description h2
        have e3 := ofText_ne (strip k) .enabled h3
        have e4 := ofText_ne (strip k) .conjunction h4
        have e5 := ofText_ne (strip k) .disjunction h5
        have e6 := ofText_ne (strip k) .implication h6
        have e7 := ofText_ne (strip k) .activation h7
        have e8 := ofText_ne (strip k) .rule h8
        generalize Key.ofText (strip k) = K at *
        cases K <;> simp_all [importBlockLine]) (fun _ _ => rfl)]
      rfl

end Op.FllIO
