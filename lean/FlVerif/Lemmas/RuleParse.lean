import FlVerif.Op.RuleLoad

/-! `Rule.parse` accepts exactly `if A… then C… [with w]`. -/

namespace Op
open Lang

theorem parseLoop_sIf_noThen (a0 c : List String) (w : X Rat) : ∀ (ts : List String), "then" ∉ ts →
    parseLoop .sIf a0 c w ts = .ok (.sIf, a0 ++ ts, c, w)
  | [], _ => by simp [parseLoop]
  | t :: ts, h => by
    have ht : t ≠ "then" := fun e => h (by simp [e])
    have := parseLoop_sIf_noThen (a0 ++ [t]) c w ts (fun hm => h (by simp [hm]))
    simp only [parseLoop, ht, if_false, this, List.append_assoc, List.singleton_append]

theorem parseLoop_sIf_then (c : List String) (w : X Rat) (rest : List String) : ∀ (a a0 : List String), "then" ∉ a →
    parseLoop .sIf a0 c w (a ++ "then" :: rest) = parseLoop .sThen (a0 ++ a) c w rest
  | [], a0, _ => by simp [parseLoop]
  | t :: a, a0, h => by
    have ht : t ≠ "then" := fun e => h (by simp [e])
    have := parseLoop_sIf_then c w rest a (a0 ++ [t]) (fun hm => h (by simp [hm]))
    simp only [List.cons_append, parseLoop, ht, if_false, this, List.append_assoc, List.nil_append]

theorem parseLoop_sThen_noWith (a c0 : List String) (w : X Rat) : ∀ (ts : List String), "with" ∉ ts →
    parseLoop .sThen a c0 w ts = .ok (.sThen, a, c0 ++ ts, w)
  | [], _ => by simp [parseLoop]
  | t :: ts, h => by
    have ht : t ≠ "with" := fun e => h (by simp [e])
    have := parseLoop_sThen_noWith a (c0 ++ [t]) w ts (fun hm => h (by simp [hm]))
    simp only [parseLoop, ht, if_false, this, List.append_assoc, List.singleton_append]

theorem parseLoop_sThen_with (a : List String) (w : X Rat) (rest : List String) : ∀ (c c0 : List String), "with" ∉ c →
    parseLoop .sThen a c0 w (c ++ "with" :: rest) = parseLoop .sWith a (c0 ++ c) w rest
  | [], c0, _ => by simp [parseLoop]
  | t :: c, c0, h => by
    have ht : t ≠ "with" := fun e => h (by simp [e])
    have := parseLoop_sThen_with a w rest c (c0 ++ [t]) (fun hm => h (by simp [hm]))
    simp only [List.cons_append, parseLoop, ht, if_false, this, List.append_assoc, List.nil_append]

/-- the texts `Rule.parse` is documented to accept, with what it returns -/
def RuleForm (ts : List String) (p : ParsedRule) : Prop :=
  p.ante ≠ [] ∧ p.cons ≠ [] ∧ "then" ∉ p.ante ∧ "with" ∉ p.cons ∧
  ((ts = "if" :: (p.ante ++ "then" :: p.cons) ∧ p.weight = .fin 1) ∨
   (∃ s, parseFloat s = some p.weight ∧ ts = "if" :: (p.ante ++ "then" :: (p.cons ++ ["with", s]))))

theorem ruleParse_of_form {ts : List String} {p : ParsedRule} (h : RuleForm ts p) : ruleParseTokens ts = .ok p := by
  obtain ⟨ha, hc, hat, hcw, hts⟩ := h
  obtain ⟨a, c, w⟩ := p
  simp only at ha hc hat hcw hts
  rcases hts with ⟨rfl, rfl⟩ | ⟨s, hs, rfl⟩
  · simp only [ruleParseTokens, parseLoop, if_true]
    rw [parseLoop_sIf_then _ _ _ a [] hat, parseLoop_sThen_noWith _ _ _ c hcw]
    simp [ha, hc]
  · simp only [ruleParseTokens, parseLoop, if_true]
    rw [parseLoop_sIf_then _ _ _ a [] hat, parseLoop_sThen_with _ _ _ c [] hcw]
    simp [parseLoop, hs, ha, hc]

theorem form_of_ruleParse {ts : List String} {p : ParsedRule} (h : ruleParseTokens ts = .ok p) : RuleForm ts p := by
  cases ts with
  | nil => simp [ruleParseTokens, parseLoop] at h
  | cons t rest =>
    by_cases ht : t = "if"
    · subst ht
      simp only [ruleParseTokens, parseLoop, if_true] at h
      by_cases hth : "then" ∈ rest
      · obtain ⟨a, r2, rfl, hat⟩ := List.eq_append_cons_of_mem hth
        rw [parseLoop_sIf_then _ _ _ a [] hat] at h
        simp only [List.nil_append] at h
        by_cases hw : "with" ∈ r2
        · obtain ⟨c, r3, rfl, hcw⟩ := List.eq_append_cons_of_mem hw
          rw [parseLoop_sThen_with _ _ _ c [] hcw] at h
          simp only [List.nil_append] at h
          cases r3 with
          | nil => simp [parseLoop] at h
          | cons s r4 =>
            cases hs : parseFloat s with
            | none => simp [parseLoop, hs] at h
            | some v =>
              cases r4 with
              | nil =>
                simp only [parseLoop, hs] at h
                by_cases hac : a = [] ∨ c = []
                · simp [hac] at h
                · simp only [hac, if_false] at h
                  simp only [reduceCtorEq, or_self, if_false, Except.ok.injEq] at h
                  subst h
                  simp only [not_or] at hac
                  exact ⟨hac.1, hac.2, hat, hcw, Or.inr ⟨s, hs, rfl⟩⟩
              | cons u r5 => simp [parseLoop, hs] at h
        · rw [parseLoop_sThen_noWith _ _ _ r2 hw] at h
          simp only [List.nil_append] at h
          by_cases hac : a = [] ∨ r2 = []
          · simp [hac] at h
          · simp only [hac, if_false] at h
            simp only [reduceCtorEq, or_self, if_false, Except.ok.injEq] at h
            subst h
            simp only [not_or] at hac
            exact ⟨hac.1, hac.2, hat, hw, Or.inl ⟨rfl, rfl⟩⟩
      · rw [parseLoop_sIf_noThen _ _ _ rest hth] at h
        simp at h
    · simp [ruleParseTokens, parseLoop, ht] at h

end Op
