import FlVerif.Base.X

/-! order facts of the NumPy comparisons on `X α` (used by the activation methods) -/

namespace X
variable {α : Type} [Field α] [LinearOrder α] [IsStrictOrderedRing α]

theorem lt_trans' {x y z : X α} (h₁ : lt x y = true) (h₂ : lt y z = true) : lt x z = true := by
  cases x <;> cases y <;> cases z <;> simp_all [lt]
  exact _root_.lt_trans h₁ h₂

theorem lt_asymm' {x y : X α} (h : lt x y = true) : lt y x = false := by
  cases x <;> cases y <;> simp_all [lt]
  exact le_of_lt h

theorem lt_irrefl' (x : X α) : lt x x = false := by
  cases x <;> simp [lt]

theorem eq_true_imp {x y : X α} (h : eq x y = true) : x = y := by
  cases x <;> cases y <;> simp_all [eq]

theorem eq_self_of_ne_nan {x : X α} (h : x ≠ nan) : eq x x = true := by
  cases x <;> simp_all [eq]

theorem trichotomy {x y : X α} (hx : x ≠ nan) (hy : y ≠ nan) : lt x y = true ∨ eq x y = true ∨ lt y x = true := by
  cases x <;> cases y <;> simp_all [lt, eq]
  exact lt_trichotomy _ _

theorem ne_nan_of_pos {x : X α} (h : lt (fin 0) x = true) : x ≠ nan := by
  intro e; subst e; simp [lt] at h

theorem lt_neg_neg (x y : X α) : lt (neg x) (neg y) = lt y x := by
  cases x <;> cases y <;> simp [lt, neg]

theorem eq_neg_neg (x y : X α) : eq (neg x) (neg y) = eq x y := by
  cases x <;> cases y <;> simp [eq, neg]

theorem eq_comm' (x y : X α) : eq x y = eq y x := by
  cases x <;> cases y <;> simp [eq, eq_comm]

end X
