import FlVerif.Lemmas.CodeFllImport

/-! # Tie A for the FuzzyLite Language importer, part 5: `rule`, `term` (and `activation`, `defuzzifier`)

The line loops call these methods through their text-level models `Py.Fll.ruleOf`, `termOf`, `activOf`, `defuzzOf`
(`Op/PyExtFllImport.lean`); here the translations of the methods themselves are proved equal to those models. -/

namespace Op.FllIO
open Gen.Code Py.Fll


theorem code_rule (fll : String) :
    FllImporter_rule.run fll {} = (ruleOf fll).map (fun r => { ret := some r }) := by
  unfold FllImporter_rule.run ruleOf ruleCreate
  rw [code_extractValue]
  cases Py.Fll.keyValue fll (some "rule") with
  | error e => rfl
  | ok kv =>
    simp only [Except.map, bind, Except.bind, Py.deref_some]
    cases lift (importRule (lexValue Key.rule kv.2.toList)) <;> rfl

/-- the default construction fails only where every configuration fails, with the same class -/
theorem configure_nil_error (cls : String) (ps : List Tok) (e : Err) (h : configure cls [] = .error e) :
    configure cls ps = .error e := by
  unfold configure at h ⊢
  by_cases h1 : cls ∉ Gen.Tables.termKeys
  · rw [if_pos h1] at h ⊢; exact h
  rw [if_neg h1] at h ⊢
  by_cases h2 : cls = "Function"
  · rw [if_pos h2] at h; simp at h
  rw [if_neg h2] at h ⊢
  by_cases h3 : cls = "Linear"
  · rw [if_pos h3] at h; simp [numsOf, Except.map] at h
  rw [if_neg h3] at h ⊢
  by_cases h4 : cls = "Discrete"
  · rw [if_pos h4] at h; simp [numsOf, Except.map] at h
  rw [if_neg h4] at h ⊢
  cases ha : termArity cls with
  | none => rw [ha] at h; exact h
  | some p => rw [ha] at h; simp at h

theorem code_term (fll : String) :
    (FllImporter_term.run fll {} >>= fun r => Py.deref r.ret) = termOf fll := by
  unfold FllImporter_term.run termOf
  rw [code_extractValue]
  cases Py.Fll.keyValue fll (some "term") with
  | error e => rfl
  | ok kv =>
    obtain ⟨k, v⟩ := kv
    simp only [Except.map, bind, Except.bind, Py.deref_some, lexValue, split2]
    generalize (splitFirst v.toList).1 = name
    generalize (splitFirst v.toList).2 = r1
    by_cases hn : name = ""
    · simp only [hn, if_true]; rfl
    simp only [hn, if_false]
    generalize (splitFirst r1).1 = cls
    generalize (splitFirst r1).2 = r2
    by_cases hc : cls = ""
    · simp only [hc, if_true]; rfl
    simp only [hc, if_false]
    by_cases hr : r2.isEmpty = true
    · have hr' : r2 = [] := by simpa using hr
      subst hr'
      simp only [List.isEmpty_nil, if_true, List.length_cons, List.length_nil, Py.nth, constructTerm, importTerm]
      have hp : (if cls = "Function" then textTok [] else List.map numTokOf (Op.FllIO.words [])) = [] := by
        split_ifs <;> rfl
      rw [hp]
      cases h0 : configure cls [] <;> simp [h0, lift, Except.map, Err.toPy]
    · simp only [hr, Bool.false_eq_true, if_false, List.length_cons, List.length_nil, Py.nth, constructTerm, configureTerm,
        importTerm, termParamToks]
      cases h0 : configure cls [] with
      | error e =>
        rw [configure_nil_error cls _ e h0]
        simp [h0, lift, Except.map, Err.toPy]
      | ok b0 =>
        cases h1 : configure cls (if cls = "Function" then textTok r2 else List.map numTokOf (Op.FllIO.words r2)) <;>
          simp [h0, h1, lift, Except.map, Err.toPy]

end Op.FllIO
