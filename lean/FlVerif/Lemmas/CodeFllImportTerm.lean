import FlVerif.Lemmas.CodeFllImport

/-! # Tie A for the FuzzyLite Language importer, part 5: `rule`, `term` (and `activation`, `defuzzifier`)

The line loops call these methods through their text-level models `Py.Fll.ruleOf`, `termOf`, `activOf`, `defuzzOf`
(`Op/PyExtFllImport.lean`); here the translations of the methods themselves are proved equal to those models. -/

namespace Op.FllIO
open Gen.Code Py.Fll


theorem code_rule (fll : String) :
    FllImporter_rule.run fll {} = (ruleOf fll).map (fun r => { ret := some r }) := by
  unfold FllImporter_rule.run ruleOf ruleCreate
  rw [code_extractValue]
  cases Py.Fll.keyValue fll (some "rule") with
  | error e => rfl
  | ok kv =>
    simp only [Except.map, bind, Except.bind, Py.deref_some]
    cases lift (importRule (lexValue Key.rule kv.2.toList)) <;> rfl

/-- the default construction fails only where every configuration fails, with the same class -/
theorem configure_nil_error (cls : String) (ps : List Tok) (e : Err) (h : configure cls [] = .error e) :
    configure cls ps = .error e := by
  unfold configure at h ⊢
  by_cases h1 : cls ∉ Gen.Tables.termKeys
  · rw [if_pos h1] at h ⊢; exact h
  rw [if_neg h1] at h ⊢
  by_cases h2 : cls = "Function"
  · rw [if_pos h2] at h; simp at h
  rw [if_neg h2] at h ⊢
  by_cases h3 : cls = "Linear"
  · rw [if_pos h3] at h; simp [numsOf, Except.map] at h
  rw [if_neg h3] at h ⊢
  by_cases h4 : cls = "Discrete"
  · rw [if_pos h4] at h; simp [numsOf, Except.map] at h
  rw [if_neg h4] at h ⊢
  cases ha : termArity cls with
  | none => rw [ha] at h; exact h
  | some p => rw [ha] at h; simp at h

theorem code_term (fll : String) :
    (FllImporter_term.run fll {} >>= fun r => Py.deref r.ret) = termOf fll := by
  unfold FllImporter_term.run termOf
  rw [code_extractValue]
  cases Py.Fll.keyValue fll (some "term") with
  | error e => rfl
  | ok kv =>
    obtain ⟨k, v⟩ := kv
    simp only [Except.map, bind, Except.bind, Py.deref_some, lexValue, split2]
    generalize (splitFirst v.toList).1 = name
    generalize (splitFirst v.toList).2 = r1
    by_cases hn : name = ""
    · simp only [hn, if_true]; rfl
    simp only [hn, if_false]
    generalize (splitFirst r1).1 = cls
    generalize (splitFirst r1).2 = r2
    by_cases hc : cls = ""
    · simp only [hc, if_true]; rfl
    simp only [hc, if_false]
    by_cases hr : r2.isEmpty = true
    · have hr' : r2 = [] := by simpa using hr
      subst hr'
      simp only [List.isEmpty_nil, if_true, List.length_cons, List.length_nil, Py.nth, constructTerm, importTerm]
      have hp : (if cls = "Function" then textTok [] else List.map numTokOf (Op.FllIO.words [])) = [] := by
        split_ifs <;> rfl
      rw [hp]
      cases h0 : configure cls [] <;> simp [h0, lift, Except.map, Err.toPy]
    · simp only [hr, Bool.false_eq_true, if_false, List.length_cons, List.length_nil, Py.nth, constructTerm, configureTerm,
        importTerm, termParamToks]
      cases h0 : configure cls [] with
      | error e =>
        rw [configure_nil_error cls _ e h0]
        simp [h0, lift, Except.map, Err.toPy]
      | ok b0 =>
        cases h1 : configure cls (if cls = "Function" then textTok r2 else List.map numTokOf (Op.FllIO.words r2)) <;>
          simp [h0, h1, lift, Except.map, Err.toPy]

/-! ## the first word of a stripped text -/

theorem dropWhile_eq_nil {α : Type} (p : α → Bool) : ∀ l : List α, l.dropWhile p = [] → ∀ c ∈ l, p c = true
  | [], _, c, hc => by simp at hc
  | a :: l, h, c, hc => by
    by_cases ha : p a = true
    · simp only [List.dropWhile_cons, ha, if_true] at h
      simp only [List.mem_cons] at hc
      rcases hc with rfl | hc
      · exact ha
      · exact dropWhile_eq_nil p l h c hc
    · rw [List.dropWhile_cons_of_neg ha] at h; cases h

theorem length_dropWhile_le {α : Type} (p : α → Bool) (l : List α) : (l.dropWhile p).length ≤ l.length :=
  (List.dropWhile_sublist p).length_le

/-- a text that is all white space strips to nothing -/
theorem trimChars_eq_nil (r : List Char) (h : trimChars r = []) : ∀ c ∈ r, isWs c = true := by
  rw [trimChars_eq, rdrop] at h
  have h1 : (r.dropWhile isWs).reverse.dropWhile isWs = [] := by simpa using h
  have h2 := dropWhile_eq_nil isWs _ h1
  cases hw : r.dropWhile isWs with
  | nil => exact dropWhile_eq_nil isWs r hw
  | cons c t =>
    have := dropWhile_head isWs r c t hw
    have h3 := h2 c (by rw [hw]; simp)
    rw [this] at h3; cases h3

/-- a stripped text does not end in white space: a suffix of white space is empty -/
theorem stripped_suffix (v a r : List Char) (h : trimChars v = a ++ r) (hr : ∀ c ∈ r, isWs c = true) : r = [] := by
  have hl : rdrop (a ++ r) = a ++ r := by rw [← h, trimChars_eq, rdrop_idem]
  cases hrr : r.reverse with
  | nil => simpa using hrr
  | cons c t =>
    exfalso
    have hc : isWs c = true := hr c (by rw [← List.mem_reverse, hrr]; simp)
    have e : (a ++ r).reverse = c :: (t ++ a.reverse) := by simp [hrr]
    have h1 : ((a ++ r).reverse.dropWhile isWs).length = (a ++ r).reverse.length := by
      rw [rdrop] at hl
      have := congrArg List.length hl
      simp only [List.length_reverse] at this ⊢
      exact this
    rw [e, List.dropWhile_cons, if_pos hc] at h1
    have := length_dropWhile_le isWs (t ++ a.reverse)
    simp only [List.length_cons] at h1
    omega

theorem trimChars_dropWhile (v : List Char) : (trimChars v).dropWhile isWs = trimChars v := by
  rw [trimChars_eq]; exact dropWhile_rdrop _ (dropWhile_idem _ _)

/-- the first word of a stripped, non-empty text is not empty; when nothing follows it, it is the text -/
theorem splitFirst_stripped (v : String) (hne : strip v ≠ "") :
    (splitFirst (strip v).toList).1 ≠ "" ∧
    ((splitFirst (strip v).toList).2 = [] → strip v = (splitFirst (strip v).toList).1) := by
  have hl : (strip v).toList = trimChars v.toList := strip_toList v
  have hne' : trimChars v.toList ≠ [] := by
    intro e; apply hne; rw [← String.toList_inj, hl, e]; rfl
  simp only [splitFirst, hl, trimChars_dropWhile, List.span_eq_takeWhile_dropWhile]
  constructor
  · cases ht : trimChars v.toList with
    | nil => exact absurd ht hne'
    | cons c t =>
      have hc : isWs c = false := dropWhile_head isWs _ c t (by rw [trimChars_dropWhile, ht])
      intro e
      have := congrArg String.toList e
      simp [String.toList_ofList, hc] at this
  · intro h2
    have hall := trimChars_eq_nil _ h2
    have happ : trimChars v.toList =
        (trimChars v.toList).takeWhile (fun c => !isWs c) ++ (trimChars v.toList).dropWhile (fun c => !isWs c) :=
      List.takeWhile_append_dropWhile.symm
    have hnil := stripped_suffix v.toList _ _ happ hall
    rw [← String.toList_inj, hl, String.toList_ofList]
    conv_lhs => rw [happ, hnil, List.append_nil]

/-! ## `activation`, `defuzzifier` (called on stripped values) -/

theorem accStep_ne (cur : List Char) (acc : List (List Char)) (h : cur ≠ [] ∨ acc ≠ []) :
    (if cur.isEmpty then acc else cur.reverse :: acc) ≠ [] := by
  cases cur with
  | nil => simpa using h
  | cons a t => simp

theorem wordsAux_ne_nil : ∀ (l cur : List Char) (acc : List (List Char)), (cur ≠ [] ∨ acc ≠ []) → wordsAux l cur acc ≠ []
  | [], cur, acc, h => by
    simp only [wordsAux, ne_eq, List.reverse_eq_nil_iff]
    exact accStep_ne cur acc h
  | c :: r, cur, acc, h => by
    by_cases hc : isWs c = true
    · rw [wordsAux, if_pos hc]
      exact wordsAux_ne_nil r [] _ (Or.inr (accStep_ne cur acc h))
    · rw [wordsAux, if_neg hc]
      exact wordsAux_ne_nil r (c :: cur) acc (Or.inl (by simp))

/-- a stripped non-empty text has a word -/
theorem words_trimChars_ne_nil (r0 : List Char) (h : trimChars r0 ≠ []) : words (trimChars r0) ≠ [] := by
  cases ht : trimChars r0 with
  | nil => exact absurd ht h
  | cons c t =>
    have hc : isWs c = false := dropWhile_head isWs _ c t (by rw [trimChars_dropWhile, ht])
    simp only [words, ne_eq, List.map_eq_nil_iff, wordsAux, hc, Bool.false_eq_true, if_false]
    exact wordsAux_ne_nil t [c] [] (Or.inl (by simp))

theorem splitFirst_snd (l : List Char) : ∃ r0, (splitFirst l).2 = trimChars r0 := ⟨_, rfl⟩

theorem activParams_nil (cls : String) (k : ActivKind) : ∃ a, activParams cls k [] = .ok a ∧ a.cls = cls := by
  cases k <;> exact ⟨_, rfl, rfl⟩

theorem activKind_none : activKind "none" = none := by decide +kernel

theorem code_activation (v : String) :
    (FllImporter_activation.run (strip v) {} >>= fun r => Py.deref r.ret) = activOf (strip v) := by
  by_cases h0 : strip v = ""
  · rw [h0]; rfl
  by_cases h1 : strip v = "none"
  · rw [h1]; decide +kernel
  obtain ⟨hs1, hs2⟩ := splitFirst_stripped v h0
  obtain ⟨r0, hr0⟩ := splitFirst_snd (strip v).toList
  have hcond : ((!(strip v != "")) || (strip v == "none")) = false := by simp [h0, h1]
  unfold FllImporter_activation.run activOf
  simp only [hcond, Bool.false_eq_true, if_false, split1, lexValue, hs1]
  generalize (splitFirst (strip v).toList).1 = cls at *
  generalize (splitFirst (strip v).toList).2 = r at *
  by_cases hr : r = []
  · subst hr
    have hc : cls ≠ "none" := fun e => h1 (by rw [hs2 rfl, e])
    simp only [List.isEmpty_nil, if_true, Py.nth, List.length_cons, List.length_nil, bind, Except.bind, constructActiv,
      importActiv, words, wordsAux, List.map_nil, hc, false_and, if_false]
    cases hk : activKind cls with
    | none => simp [hk, lift, Err.toPy]
    | some k =>
      obtain ⟨a, ha, _⟩ := activParams_nil cls k
      simp [hk, ha, lift, Except.map, truthyOptStr]
  · have hre : r.isEmpty = false := by simpa using hr
    have hw : words r ≠ [] := by rw [hr0]; exact words_trimChars_ne_nil r0 (by rw [← hr0]; exact hr)
    have hsn : (String.ofList r != "") = true := by
      simp only [bne_iff_ne, ne_eq]
      intro e; apply hr
      have := congrArg String.toList e
      simpa [String.toList_ofList] using this
    simp only [hre, Bool.false_eq_true, if_false, Py.nth, List.length_cons, List.length_nil, bind, Except.bind, constructActiv,
      importActiv, configureActiv, activParamToks, String.toList_ofList]
    have hps : (match words r with
        | [] => ([] : List Tok)
        | x :: xs => intTokOf x :: xs.map numTokOf) ≠ [] := by
      cases hwr : words r with
      | nil => exact absurd hwr hw
      | cons x xs => simp
    cases hk : activKind cls with
    | none =>
      simp [hk, lift, Err.toPy]
      rw [if_neg (fun h => hps h.2)]
    | some k =>
      obtain ⟨a, ha, hac⟩ := activParams_nil cls k
      have hcn : cls ≠ "none" := fun e => by rw [e, activKind_none] at hk; cases hk
      simp [ha, lift, Except.map, truthyOptStr, hsn, hac, hk, hcn]
      cases activParams cls k (match words r with
        | [] => ([] : List Tok)
        | x :: xs => intTokOf x :: xs.map numTokOf) <;> rfl

theorem defuzzParams_nil (cls : String) (k : DefuzzKind) : ∃ a, defuzzParams cls k [] = .ok a ∧ a.cls = cls := by
  cases k <;> exact ⟨_, rfl, rfl⟩

theorem defuzzKind_none : defuzzKind "none" = none := by decide +kernel

theorem code_defuzzifier (v : String) :
    (FllImporter_defuzzifier.run (strip v) {} >>= fun r => Py.deref r.ret) = defuzzOf (strip v) := by
  by_cases h0 : strip v = ""
  · rw [h0]; rfl
  by_cases h1 : strip v = "none"
  · rw [h1]; decide +kernel
  obtain ⟨hs1, hs2⟩ := splitFirst_stripped v h0
  obtain ⟨r0, hr0⟩ := splitFirst_snd (strip v).toList
  have hcond : ((!(strip v != "")) || (strip v == "none")) = false := by simp [h0, h1]
  unfold FllImporter_defuzzifier.run defuzzOf
  simp only [hcond, Bool.false_eq_true, if_false, split1, lexValue, hs1]
  generalize (splitFirst (strip v).toList).1 = cls at *
  generalize (splitFirst (strip v).toList).2 = r at *
  by_cases hr : r = []
  · subst hr
    have hc : cls ≠ "none" := fun e => h1 (by rw [hs2 rfl, e])
    simp only [List.isEmpty_nil, if_true, Py.nth, List.length_cons, List.length_nil, bind, Except.bind, constructDefuzz,
      importDefuzz, words, wordsAux, hc, false_and, if_false]
    cases hk : defuzzKind cls with
    | none => simp [hk, lift, Err.toPy]
    | some k =>
      obtain ⟨a, ha, _⟩ := defuzzParams_nil cls k
      simp [hk, ha, lift, Except.map, truthyOptStr]
  · have hre : r.isEmpty = false := by simpa using hr
    have hw : words r ≠ [] := by rw [hr0]; exact words_trimChars_ne_nil r0 (by rw [← hr0]; exact hr)
    have hsn : (String.ofList r != "") = true := by
      simp only [bne_iff_ne, ne_eq]
      intro e; apply hr
      have := congrArg String.toList e
      simpa [String.toList_ofList] using this
    simp only [hre, Bool.false_eq_true, if_false, Py.nth, List.length_cons, List.length_nil, bind, Except.bind, constructDefuzz,
      importDefuzz, configureDefuzz, defuzzParamToks]
    have hps : (match words r with
        | [] => ([] : List Tok)
        | [x] => (match parseInt x with | some z => [.i z] | none => [.w x])
        | _ => [.w (String.ofList r)]) ≠ [] := by
      rcases hwr : words r with _ | ⟨x, _ | ⟨y, ys⟩⟩
      · exact absurd hwr hw
      · simp only; cases parseInt x <;> simp
      · simp
    cases hk : defuzzKind cls with
    | none =>
      simp [hk, lift, Err.toPy]
      rw [if_neg (fun h => hps h.2)]
    | some k =>
      obtain ⟨a, ha, hac⟩ := defuzzParams_nil cls k
      have hcn : cls ≠ "none" := fun e => by rw [e, defuzzKind_none] at hk; cases hk
      simp [ha, lift, Except.map, truthyOptStr, hsn, hac, hk, hcn]
      cases defuzzParams cls k (match words r with
        | [] => ([] : List Tok)
        | [x] => (match parseInt x with | some z => [.i z] | none => [.w x])
        | _ => [.w (String.ofList r)]) <;> rfl

end Op.FllIO
