import FlVerif.Lemmas.TermRange
import Mathlib.Order.Monotone.Basic

/-! Monotonicity of the six classes that declare themselves monotonic (C03), both directions -/

set_option linter.unusedSectionVars false
set_option linter.unusedVariables false
set_option linter.unusedSimpArgs false

namespace TermMono
open Spec TermRange

section generic
variable {α : Type} [Field α] [LinearOrder α] [IsStrictOrderedRing α]

/-- `max 0 (min 1 t)` -/
def clamp01 (t : α) : α := max 0 (min 1 t)
theorem clamp01_mono {t u : α} (h : t ≤ u) : clamp01 t ≤ clamp01 u := max_le_max (le_refl _) (min_le_min (le_refl _) h)

theorem ramp_inc_eq (s e h x : α) (hse : s < e) : Mu.ramp s e h x = h * clamp01 ((x - s) / (e - s)) := by
  have hd : 0 < e - s := by linarith
  have n1 : ¬ e < s := not_lt.2 hse.le
  unfold Mu.ramp clamp01
  by_cases h1 : s < x
  · by_cases h2 : x < e
    · have t0 : 0 ≤ (x - s) / (e - s) := div_nonneg (by linarith) hd.le
      have t1 : (x - s) / (e - s) ≤ 1 := (div_le_one hd).2 (by linarith)
      simp [h1, h2, min_eq_right t1, max_eq_right t0]
    · have t1 : 1 ≤ (x - s) / (e - s) := (one_le_div hd).2 (by linarith)
      have h3 : ¬ x < s := by intro h; linarith
      simp [h1, h2, h3, n1, hse, not_lt.1 h2, min_eq_left t1]
  · have t0 : (x - s) / (e - s) ≤ 0 := div_nonpos_of_nonpos_of_nonneg (by linarith) hd.le
    have h3 : ¬ e ≤ x := by intro h; linarith
    have h4 : ¬ e < x := by intro h; linarith
    have : min 1 ((x - s) / (e - s)) ≤ 0 := le_trans (min_le_right _ _) t0
    simp [h1, h3, h4, n1, hse, max_eq_left this]

theorem ramp_dec_eq (s e h x : α) (hse : e < s) : Mu.ramp s e h x = h * clamp01 ((s - x) / (s - e)) := by
  have hd : 0 < s - e := by linarith
  have n1 : ¬ s < e := not_lt.2 hse.le
  unfold Mu.ramp clamp01
  by_cases h1 : x < s
  · by_cases h2 : e < x
    · have t0 : 0 ≤ (s - x) / (s - e) := div_nonneg (by linarith) hd.le
      have t1 : (s - x) / (s - e) ≤ 1 := (div_le_one hd).2 (by linarith)
      have h3 : ¬ s < x := by intro h; linarith
      simp [h1, h2, h3, min_eq_right t1, max_eq_right t0]
    · have t1 : 1 ≤ (s - x) / (s - e) := (one_le_div hd).2 (by linarith)
      have h3 : ¬ s < x := by intro h; linarith
      simp [h1, h2, h3, n1, hse, not_lt.1 h2, min_eq_left t1]
  · have t0 : (s - x) / (s - e) ≤ 0 := div_nonpos_of_nonpos_of_nonneg (by linarith) hd.le
    have h3 : ¬ x ≤ e := by intro h; linarith
    have h4 : ¬ x < e := by intro h; linarith
    have : min 1 ((s - x) / (s - e)) ≤ 0 := le_trans (min_le_right _ _) t0
    simp [h1, h3, h4, n1, hse, max_eq_left this]

theorem ramp_mono (s e h : α) (hse : s < e) (hh : 0 ≤ h) : Monotone (Mu.ramp s e h) := by
  intro x y hxy
  have hd : 0 < e - s := by linarith
  rw [ramp_inc_eq s e h x hse, ramp_inc_eq s e h y hse]
  exact mul_le_mul_of_nonneg_left (clamp01_mono (div_le_div_of_nonneg_right (by linarith) hd.le)) hh

theorem ramp_anti (s e h : α) (hse : e < s) (hh : 0 ≤ h) : Antitone (Mu.ramp s e h) := by
  intro x y hxy
  have hd : 0 < s - e := by linarith
  rw [ramp_dec_eq s e h x hse, ramp_dec_eq s e h y hse]
  exact mul_le_mul_of_nonneg_left (clamp01_mono (div_le_div_of_nonneg_right (by linarith) hd.le)) hh

theorem concave_mono (i e h : α) (hie : i < e) (hh : 0 ≤ h) : Monotone (Mu.concave i e h) := by
  intro x y hxy
  have n1 : ¬ e < i := not_lt.2 hie.le
  unfold Mu.concave
  by_cases hy : y < e
  · have hx : x < e := lt_of_le_of_lt hxy hy
    have dx : 0 < 2 * e - i - x := by linarith
    have dy : 0 < 2 * e - i - y := by linarith
    simp only [hie.le, hx, hy, and_self, if_true]
    exact mul_le_mul_of_nonneg_left (div_le_div_of_nonneg_left (by linarith) dy (by linarith)) hh
  · by_cases hx : x < e
    · have dx : 0 < 2 * e - i - x := by linarith
      have : (e - i) / (2 * e - i - x) ≤ 1 := (div_le_one dx).2 (by linarith)
      simp only [hie.le, hx, hy, n1, and_self, and_false, false_and, if_true, if_false]
      nlinarith
    · simp [hx, hy, n1]

theorem concave_anti (i e h : α) (hie : e < i) (hh : 0 ≤ h) : Antitone (Mu.concave i e h) := by
  intro x y hxy
  have n1 : ¬ i ≤ e := not_le.2 hie
  unfold Mu.concave
  by_cases hx : e < x
  · have hy : e < y := lt_of_lt_of_le hx hxy
    have dx : 0 < -2 * e + i + x := by linarith
    have dy : 0 < -2 * e + i + y := by linarith
    simp only [n1, hie, hx, hy, and_self, false_and, if_true, if_false]
    exact mul_le_mul_of_nonneg_left (div_le_div_of_nonneg_left (by linarith) dx (by linarith)) hh
  · by_cases hy : e < y
    · have dy : 0 < -2 * e + i + y := by linarith
      have : (i - e) / (-2 * e + i + y) ≤ 1 := (div_le_one dy).2 (by linarith)
      simp only [n1, hie, hx, hy, and_self, and_false, false_and, if_true, if_false]
      nlinarith
    · simp [hx, hy, n1]

theorem sShape_mono (s e h : α) (hse : s < e) (hh : 0 ≤ h) : Monotone (Mu.sShape s e h) := by
  intro x y hxy
  have hd : 0 < e - s := by linarith
  rw [sShape_eq s e h x hse, sShape_eq s e h y hse]
  exact mul_le_mul_of_nonneg_left (sUnit_mono (div_le_div_of_nonneg_right (by linarith) hd.le)) hh

theorem zShape_anti (s e h : α) (hse : s < e) (hh : 0 ≤ h) : Antitone (Mu.zShape s e h) := by
  intro x y hxy
  rw [zShape_eq s e h x hse, zShape_eq s e h y hse]
  have := sShape_mono s e h hse hh hxy
  linarith

end generic

section real
open Real
local notation "F" => Fn.real

theorem arc_inc_eq (s e h x : ℝ) (hse : s < e) :
    Mu.arc F s e h x = if x < s then 0 else if x ≤ e then h * (√((e - s) ^ 2 - (x - e) ^ 2) / |e - s|) else h := by
  unfold Mu.arc
  have n1 : ¬ e < s := not_lt.2 hse.le
  by_cases h1 : x < s
  · have a : ¬ s ≤ x := not_le.2 h1
    have b : ¬ e ≤ x := by intro h; linarith
    have c : ¬ e < x := by intro h; linarith
    simp [h1, a, b, c, n1]
  · by_cases h2 : x ≤ e
    · simp [h1, h2, not_lt.1 h1, Fn.real]
    · have b : ¬ x ≤ s := by intro h; linarith
      simp [h1, h2, b, hse, not_le.1 h2]

theorem arc_dec_eq (s e h x : ℝ) (hse : e < s) :
    Mu.arc F s e h x = if s < x then 0 else if e ≤ x then h * (√((e - s) ^ 2 - (x - e) ^ 2) / |e - s|) else h := by
  unfold Mu.arc
  have n1 : ¬ s < e := not_lt.2 hse.le
  by_cases h1 : s < x
  · have a : ¬ x ≤ s := not_le.2 h1
    have b : ¬ x ≤ e := by intro h; linarith
    have c : ¬ x < e := by intro h; linarith
    simp [h1, a, b, c, n1]
  · by_cases h2 : e ≤ x
    · simp [h1, h2, not_lt.1 h1, Fn.real]
    · have b : ¬ s ≤ x := by intro h; linarith
      simp [h1, h2, b, hse, not_le.1 h2]

theorem arc_piece (s e h u : ℝ) (hse : s ≠ e) (hh : 0 ≤ h) :
    0 ≤ h * (√((e - s) ^ 2 - (u - e) ^ 2) / |e - s|) ∧ h * (√((e - s) ^ 2 - (u - e) ^ 2) / |e - s|) ≤ h := by
  have hr : 0 < |e - s| := abs_pos.2 (sub_ne_zero.2 (Ne.symm hse))
  have hle : √((e - s) ^ 2 - (u - e) ^ 2) ≤ |e - s| := by
    rw [Real.sqrt_le_left hr.le, sq_abs]; nlinarith [sq_nonneg (u - e)]
  exact in_mul hh (div_nonneg (Real.sqrt_nonneg _) hr.le) ((div_le_one hr).2 hle)

theorem arc_mono (s e h : ℝ) (hse : s < e) (hh : 0 ≤ h) : Monotone (Mu.arc F s e h) := by
  intro x y hxy
  have hr : 0 < |e - s| := abs_pos.2 (by linarith)
  simp only [arc_inc_eq s e h _ hse]
  by_cases hx1 : x < s
  · simp only [hx1, if_true]
    split_ifs
    · exact le_refl _
    · exact (arc_piece s e h y hse.ne hh).1
    · exact hh
  · have hy1 : ¬ y < s := by intro h'; exact hx1 (lt_of_le_of_lt hxy h')
    simp only [hx1, hy1, if_false]
    by_cases hy2 : y ≤ e
    · have hx2 : x ≤ e := le_trans hxy hy2
      simp only [hx2, hy2, if_true]
      apply mul_le_mul_of_nonneg_left _ hh
      apply div_le_div_of_nonneg_right _ hr.le
      apply Real.sqrt_le_sqrt
      have : (y - e) ^ 2 ≤ (x - e) ^ 2 := by nlinarith
      linarith
    · simp only [hy2, if_false]
      split_ifs
      · exact (arc_piece s e h x hse.ne hh).2
      · exact le_refl _

theorem arc_anti (s e h : ℝ) (hse : e < s) (hh : 0 ≤ h) : Antitone (Mu.arc F s e h) := by
  intro x y hxy
  have hr : 0 < |e - s| := abs_pos.2 (by linarith)
  simp only [arc_dec_eq s e h _ hse]
  by_cases hy1 : s < y
  · simp only [hy1, if_true]
    split_ifs
    · exact le_refl _
    · exact (arc_piece s e h x hse.ne' hh).1
    · exact hh
  · have hx1 : ¬ s < x := by intro h'; exact hy1 (lt_of_lt_of_le h' hxy)
    simp only [hx1, hy1, if_false]
    by_cases hx2 : e ≤ x
    · have hy2 : e ≤ y := le_trans hx2 hxy
      simp only [hx2, hy2, if_true]
      apply mul_le_mul_of_nonneg_left _ hh
      apply div_le_div_of_nonneg_right _ hr.le
      apply Real.sqrt_le_sqrt
      have : (x - e) ^ 2 ≤ (y - e) ^ 2 := by nlinarith
      linarith
    · simp only [hx2, if_false]
      split_ifs
      · exact (arc_piece s e h y hse.ne' hh).2
      · exact le_refl _

theorem sigmoid_mono (i sl h : ℝ) (hsl : 0 < sl) (hh : 0 ≤ h) : Monotone (Mu.sigmoid F i sl h) := by
  intro x y hxy
  unfold Mu.sigmoid
  simp only [Fn.real]
  have hy := Real.exp_pos (-sl * (y - i))
  apply div_le_div_of_nonneg_left hh (by linarith)
  have : Real.exp (-sl * (y - i)) ≤ Real.exp (-sl * (x - i)) := Real.exp_le_exp.2 (by nlinarith)
  linarith

theorem sigmoid_anti (i sl h : ℝ) (hsl : sl < 0) (hh : 0 ≤ h) : Antitone (Mu.sigmoid F i sl h) := by
  intro x y hxy
  unfold Mu.sigmoid
  simp only [Fn.real]
  have hx := Real.exp_pos (-sl * (x - i))
  apply div_le_div_of_nonneg_left hh (by linarith)
  have : Real.exp (-sl * (x - i)) ≤ Real.exp (-sl * (y - i)) := Real.exp_le_exp.2 (by nlinarith)
  linarith

end real
end TermMono
