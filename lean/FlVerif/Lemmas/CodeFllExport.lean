import FlVerif.Gen.CodeFllExport
import FlVerif.Lemmas.CodeFllExportStr

/-! # Tie A for the FLL exporter, part 1: `Term._parameters`, `parameters()` of three classes, `Rule.text`,
`FllExporter.term / norm / activation / defuzzifier / rule`

Each theorem says that the regenerated function returns the text of the tokens the model `Op.FllIO` produces. -/

namespace Py.Fll
open Op.FllIO Dec Gen.Code

@[simp] theorem render_w (d : ℕ) (s : String) : Tok.render d (.w s) = s := rfl
@[simp] theorem render_i (d : ℕ) (z : Int) : Tok.render d (.i z) = toString z := rfl

/-! ### `format` on the value shapes the exporter passes -/

theorem joinSp_pieces_str (d : ℕ) (s : String) : Py.joinSp (pieces d (.str s)) = s := by
  by_cases h : s = ""
  · subst h; simp [pieces, joinSp_eq, join_nil]
  · simp [pieces, h, joinSp_eq, join_singleton]

theorem piecesL_nil (d : ℕ) : piecesL d [] = [] := by simp [piecesL]

theorem piecesL_str (d : ℕ) (s : String) (r : List Val) :
    piecesL d (.str s :: r) = (if s = "" then [] else [s]) ++ piecesL d r := by
  rw [piecesL, joinSp_pieces_str]

theorem piecesL_num (d : ℕ) (x : Num) (r : List Val) : piecesL d (.num x :: r) = numText d x :: piecesL d r := by
  rw [piecesL]
  simp [pieces, joinSp_eq, join_singleton, numText_ne]

theorem format_key (d : ℕ) (key : String) (v : Val) (h : key ≠ "") :
    format d key v = join " " ((key ++ ":") :: pieces d v) := by
  simp [format, h, joinSp_eq]

theorem format_nokey (d : ℕ) (v : Val) : format d "" v = join " " (pieces d v) := by
  simp [format, joinSp_eq]

/-- a joined token text at the end of a tuple: dropped when empty, else one piece -/
theorem join_tail (K T : List String) (hT : ∀ t ∈ T, t ≠ "") :
    join " " (K ++ (if join " " T = "" then [] else [join " " T])) = join " " (K ++ T) := by
  cases T with
  | nil => simp [join_nil]
  | cons x r =>
    have hx : x ≠ "" := hT x (by simp)
    have hne := join_cons_ne " " x r hx
    simp only [hne, if_false]
    have := join_group " " K (x :: r) [] (by simp)
    simpa using this

/-! ### tokens print as non-empty strings -/

theorem termParams_ne (keep : Num → Bool) (c : Cfg) (b : TermBody) :
    ∀ s ∈ (termParams keep c b).map (Tok.render c.d), s ≠ "" := by
  intro s hs
  simp only [List.mem_map] at hs
  obtain ⟨t, ht, rfl⟩ := hs
  have hnum : ∀ x, Tok.render c.d (numTok c x) ≠ "" := fun x => by rw [render_numTok]; exact numText_ne _ _
  have hH : ∀ h, t ∈ heightToks keep c h → Tok.render c.d t ≠ "" := by
    intro h hh
    unfold heightToks at hh
    split at hh
    · simp only [List.mem_singleton] at hh; subst hh; exact hnum _
    · simp at hh
  cases b with
  | shape ps h =>
    cases h with
    | none =>
      simp only [termParams, List.mem_map] at ht
      obtain ⟨x, _, rfl⟩ := ht; exact hnum x
    | some h =>
      simp only [termParams, List.mem_append, List.mem_map] at ht
      rcases ht with ⟨x, _, rfl⟩ | hh
      · exact hnum x
      · exact hH h hh
  | discrete xy h =>
    simp only [termParams, List.mem_append, List.mem_map] at ht
    rcases ht with ⟨x, _, rfl⟩ | hh
    · exact hnum x
    · exact hH h hh
  | linear cs =>
    simp only [termParams, List.mem_map] at ht
    obtain ⟨x, _, rfl⟩ := ht; exact hnum x
  | function f =>
    simp only [termParams] at ht
    split at ht
    · simp at ht
    · simp only [List.mem_singleton] at ht; subst ht; simpa

/-! ### `Term._parameters` -/

theorem map_render_numTok (c : Cfg) (l : List Num) :
    (l.map (numTok c)).map (Tok.render c.d) = l.map (numText c.d) := by
  simp [List.map_map, Function.comp_def, render_numTok]

theorem heightToks_render (c : Cfg) (h : Num) :
    (heightToks (keepHeight c) c h).map (Tok.render c.d) =
      if (!(isClose1 c.tol h || isClose1 c.tol (Dec.val c.d (Dec.fmt c.d h)))) then [Dec.render c.d (Dec.fmt c.d h)] else [] := by
  unfold heightToks keepHeight
  have : rnd c.d h = Dec.val c.d (Dec.fmt c.d h) := rfl
  rw [this]
  split <;> simp [render_numTok, numText]

theorem code_termParameters (c : Cfg) (args : List Num) (h : Num) :
    ∃ σ, Term_parameters.run c args h {} = .ok σ ∧
      σ.ret = some (Py.joinSp ((termParams (keepHeight c) c (.shape args (some h))).map (Tok.render c.d))) := by
  simp only [termParams, List.map_append, map_render_numTok, heightToks_render]
  unfold Term_parameters.run
  cases args with
  | nil =>
    cases h1 : isClose1 c.tol h <;> cases h2 : isClose1 c.tol (Dec.val c.d (Dec.fmt c.d h)) <;> simp [h1, h2]
  | cons a r =>
    cases h1 : isClose1 c.tol h <;> cases h2 : isClose1 c.tol (Dec.val c.d (Dec.fmt c.d h)) <;> simp [h1, h2]

theorem code_triangleParameters (c : Cfg) (left top right h : Num) :
    ∃ σ, Triangle_parameters.run c left top right h {} = .ok σ ∧
      σ.ret = some (termParameters c (.shape [left, top, right] (some h))) := ⟨_, rfl, rfl⟩

theorem code_constantParameters (c : Cfg) (value h : Num) :
    ∃ σ, Constant_parameters.run c value h {} = .ok σ ∧
      σ.ret = some (termParameters c (.shape [value] (some h))) := ⟨_, rfl, rfl⟩

theorem code_linearParameters (c : Cfg) (coefficients : List Num) (h : Num) :
    ∃ σ, Linear_parameters.run c coefficients h {} = .ok σ ∧
      σ.ret = some (termParameters c (.shape coefficients (some h))) := ⟨_, rfl, rfl⟩

/-- a term class without a height of its own prints like the model's `.shape ps none` / `.linear cs` exactly when
    the inherited attribute `height` is not printed -/
theorem parameters_no_height (c : Cfg) (ps : List Num) (h : Num) (hk : keepHeight c h = false) :
    termParameters c (.shape ps (some h)) = termParameters c (.shape ps none) ∧
    termParameters c (.shape ps (some h)) = termParameters c (.linear ps) := by
  simp [termParameters, termParams, heightToks, hk]

/-! ### `Rule.text` -/

theorem code_ruleText (c : Cfg) (r : Rule) (hr : ruleNamed r) :
    ∃ σ, Rule_text.run c r {} = .ok σ ∧ σ.ret = some (ruleText c r) := by
  obtain ⟨ha, hq⟩ := hr
  have hw : (if keepHeight c r.weight then [Tok.w "with", numTok c r.weight] else []).map (Tok.render c.d) =
      if (!(isClose1 c.tol r.weight || isClose1 c.tol (Dec.val c.d (Dec.fmt c.d r.weight)))) then
        ["with", Dec.render c.d (Dec.fmt c.d r.weight)] else [] := by
    unfold keepHeight
    have : rnd c.d r.weight = Dec.val c.d (Dec.fmt c.d r.weight) := rfl
    rw [this]
    split <;> simp [render_numTok, numText]
  have hA : (r.antecedent.map Tok.w).map (Tok.render c.d) = r.antecedent := by
    simp [List.map_map, Function.comp_def]
  have hQ : (r.consequent.map Tok.w).map (Tok.render c.d) = r.consequent := by
    simp [List.map_map, Function.comp_def]
  -- the text of the model tokens, with the two joined groups
  have key : ∀ W : List String,
      join " " (["if", join " " r.antecedent, "then", join " " r.consequent] ++ W) =
      join " " ("if" :: r.antecedent ++ "then" :: r.consequent ++ W) := by
    intro W
    have h1 := join_group " " ["if"] r.antecedent ("then" :: join " " r.consequent :: W) ha
    have h2 := join_group " " ("if" :: r.antecedent ++ ["then"]) r.consequent W hq
    simp only [List.cons_append, List.nil_append, List.append_assoc, List.singleton_append] at h1 h2 ⊢
    rw [h1, h2]
  unfold Rule_text.run ruleText ruleToks
  simp only [List.map_cons, List.map_append, hw, hA, hQ, render_w]
  by_cases hk : (!(isClose1 c.tol r.weight || isClose1 c.tol (Dec.val c.d (Dec.fmt c.d r.weight)))) = true
  · simp only [hk, if_true]
    refine ⟨_, rfl, ?_⟩
    simp only [joinSp_eq]
    rw [key]
    try simp
  · simp only [hk]
    refine ⟨_, rfl, ?_⟩
    simp only [joinSp_eq]
    have := key []
    simp only [List.append_nil] at this
    rw [this]
    try simp

/-! ### `FllExporter.term` -/

theorem asIdent_ne (s : String) : asIdent s ≠ "" := by
  unfold asIdent asIdentChars
  intro h
  have := congrArg String.toList h
  simp only [String.toList_ofList] at this
  split at this
  · simp at this
  · split at this <;> simp at this

theorem code_fllExportTerm (c : Cfg) (indent sep : String) (t : Term) (ht : termNamed t) :
    ∃ σ, FllExporter_term.run c indent sep t {} = .ok σ ∧ σ.ret = some (termText c t) := by
  refine ⟨_, rfl, ?_⟩
  have hc : t.cls ≠ "" := ht
  simp only [termText, Line.body, termLine, Key.text, List.map_cons, render_w, joinSp_eq]
  rw [format_key _ _ _ (by decide)]
  simp only [pieces, piecesL_str, piecesL_nil, asIdent_ne, hc, if_false, List.append_nil, termParameters, joinSp_eq]
  have := join_tail ["term" ++ ":", asIdent t.name, t.cls] _ (termParams_ne (keepHeight c) c t.body)
  simpa using this

/-! ### `FllExporter.norm`, `activation`, `defuzzifier`, `rule` -/

theorem code_fllExportNorm (c : Cfg) (indent sep : String) (o : Option String) :
    ∃ σ, FllExporter_norm.run c indent sep o {} = .ok σ ∧ σ.ret = some (normText o) := by
  cases o with
  | none => exact ⟨_, rfl, rfl⟩
  | some s => exact ⟨_, rfl, rfl⟩

theorem activToks_some (c : Cfg) (a : Activ) : activToks c (some a) = .w (Activ.cls a) :: activParamToks c a := by
  cases a <;> rfl

theorem activParams_ne (c : Cfg) (a : Activ) (h : activNamed (some a)) :
    ∀ s ∈ (activParamToks c a).map (Tok.render c.d), s ≠ "" := by
  intro s hs
  cases a with
  | plain cls => simp [activParamToks] at hs
  | nth cls r t =>
    simp only [activParamToks, List.map_cons, List.map_nil, List.mem_cons, List.not_mem_nil, or_false] at hs
    rcases hs with rfl | rfl
    · exact int_toString_ne r
    · rw [render_numTok]; exact numText_ne _ _
  | best cls r =>
    simp only [activParamToks, List.map_cons, List.map_nil, List.mem_cons, List.not_mem_nil, or_false] at hs
    subst hs; exact int_toString_ne r
  | threshold cls cmp t =>
    simp only [activParamToks, List.map_cons, List.map_nil, List.mem_cons, List.not_mem_nil, or_false] at hs
    rcases hs with rfl | rfl
    · exact h.2
    · rw [render_numTok]; exact numText_ne _ _

theorem activCls_ne (a : Activ) (h : activNamed (some a)) : Activ.cls a ≠ "" := by
  cases a with
  | threshold cls cmp t => exact h.1
  | plain cls => exact h
  | nth cls r t => exact h
  | best cls r => exact h

theorem code_fllExportActivation (c : Cfg) (indent sep : String) (a : Option Activ) (h : activNamed a) :
    ∃ σ, FllExporter_activation.run c indent sep a {} = .ok σ ∧ σ.ret = some (activText c a) := by
  cases a with
  | none => exact ⟨_, rfl, by simp [activText, activToks, joinSp_eq, join_singleton]⟩
  | some a =>
    refine ⟨_, rfl, ?_⟩
    simp only [activText, activToks_some, List.map_cons, render_w, joinSp_eq, format_nokey, pieces, piecesL_str,
      piecesL_nil, activCls_ne a h, if_false, List.append_nil, activParameters]
    have := join_tail [Activ.cls a] _ (activParams_ne c a h)
    simpa using this

theorem defuzzToks_some (x : Defuzz) : defuzzToks (some x) = .w (Defuzz.cls x) :: defuzzParamToks x := by
  cases x <;> rfl

theorem defuzzParams_ne (d : ℕ) (x : Defuzz) (h : defuzzNamed (some x)) :
    ∀ s ∈ (defuzzParamToks x).map (Tok.render d), s ≠ "" := by
  intro s hs
  cases x with
  | integral cls r =>
    simp only [defuzzParamToks] at hs
    split at hs
    · simp at hs
    · simp only [List.map_cons, List.map_nil, List.mem_singleton] at hs
      subst hs; exact int_toString_ne r
  | weighted cls ty =>
    simp only [defuzzParamToks] at hs
    split at hs
    · simp at hs
    · simp only [List.map_cons, List.map_nil, List.mem_singleton] at hs
      subst hs; exact h.2

theorem defuzzCls_ne (x : Defuzz) (h : defuzzNamed (some x)) : Defuzz.cls x ≠ "" := by
  cases x with
  | integral cls r => exact h
  | weighted cls ty => exact h.1

theorem code_fllExportDefuzzifier (c : Cfg) (indent sep : String) (x : Option Defuzz) (h : defuzzNamed x) :
    ∃ σ, FllExporter_defuzzifier.run c indent sep x {} = .ok σ ∧ σ.ret = some (defuzzText c.d x) := by
  cases x with
  | none => exact ⟨_, rfl, by simp [defuzzText, defuzzToks, joinSp_eq, join_singleton]⟩
  | some x =>
    refine ⟨_, rfl, ?_⟩
    simp only [defuzzText, defuzzToks_some, List.map_cons, render_w, joinSp_eq, format_nokey, pieces, piecesL_str,
      piecesL_nil, defuzzCls_ne x h, if_false, List.append_nil, defuzzParameters]
    have := join_tail [Defuzz.cls x] _ (defuzzParams_ne c.d x h)
    simpa using this

theorem ruleText_ne (c : Cfg) (r : Rule) : ruleText c r ≠ "" := by
  unfold ruleText ruleToks
  simp only [List.map_cons, render_w, joinSp_eq]
  exact join_cons_ne " " "if" _ (by decide)

theorem code_fllExportRule (c : Cfg) (indent sep : String) (r : Rule) :
    ∃ σ, FllExporter_rule.run c indent sep r {} = .ok σ ∧ σ.ret = some (ruleLineText c r) := by
  refine ⟨_, rfl, ?_⟩
  simp only [ruleLineText, Line.body, ruleLine, Key.text, joinSp_eq]
  rw [format_key _ _ _ (by decide)]
  simp only [pieces, ruleText_ne, if_false]
  have := join_group " " ["rule" ++ ":"] ((ruleToks (keepHeight c) c r).map (Tok.render c.d)) []
    (by simp [ruleToks])
  simpa [ruleText, joinSp_eq] using this

end Py.Fll
