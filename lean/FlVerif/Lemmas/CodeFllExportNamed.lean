import FlVerif.Lemmas.CodeFllExportBlocks
import FlVerif.Spec.Fll

/-! # The side conditions of the exporter ties hold for well-formed engines

The string-level ties need "class names are not the empty string".  For the engines of the round-trip theorems
(`Spec.Fll.WellFormed`: every class is registered) this follows from the regenerated tables by `decide`. -/

namespace Py.Fll
open Op.FllIO Spec.Fll

theorem tables_named :
    "" ∉ Gen.Tables.termKeys ∧ "" ∉ Gen.Tables.tnormKeys ∧ "" ∉ Gen.Tables.snormKeys ∧
    "" ∉ Gen.Tables.defuzzifierKeys ∧ "" ∉ Gen.Tables.activationKeys ∧
    "" ∉ Gen.ExportTables.defuzzifierTypes ∧ "" ∉ comparatorSymbols := by decide +kernel

theorem ne_of_mem {l : List String} (h : "" ∉ l) {s : String} (hs : s ∈ l) : s ≠ "" := by
  rintro rfl; exact h hs

theorem termOK_named (t : Term) (h : TermOK t) : termNamed t := ne_of_mem tables_named.1 h.1

theorem normOK_named {keys : List String} (hk : "" ∉ keys) (o : Option String) (h : NormOK keys o) : normNamed o := by
  intro e; exact hk (h "" e)

theorem defuzzKind_mem {cls : String} {k : DefuzzKind} (h : defuzzKind cls = some k) : cls ∈ Gen.Tables.defuzzifierKeys := by
  unfold defuzzKind at h
  split at h
  · assumption
  · simp at h

theorem activKind_mem {cls : String} {k : ActivKind} (h : activKind cls = some k) : cls ∈ Gen.Tables.activationKeys := by
  unfold activKind at h
  split at h
  · assumption
  · simp at h

theorem defuzzOK_named (x : Option Defuzz) (h : DefuzzOK x) : defuzzNamed x := by
  cases x with
  | none => trivial
  | some x =>
    cases x with
    | integral cls r => exact ne_of_mem tables_named.2.2.2.1 (defuzzKind_mem h)
    | weighted cls ty => exact ⟨ne_of_mem tables_named.2.2.2.1 (defuzzKind_mem h.1), ne_of_mem tables_named.2.2.2.2.2.1 h.2⟩

theorem activOK_named (a : Option Activ) (h : ActivOK a) : activNamed a := by
  cases a with
  | none => trivial
  | some a =>
    cases a with
    | plain cls => exact ne_of_mem tables_named.2.2.2.2.1 (activKind_mem h)
    | nth cls r t => exact ne_of_mem tables_named.2.2.2.2.1 (activKind_mem h)
    | best cls r => exact ne_of_mem tables_named.2.2.2.2.1 (activKind_mem h)
    | threshold cls cmp t =>
      exact ⟨ne_of_mem tables_named.2.2.2.2.1 (activKind_mem h.1), ne_of_mem tables_named.2.2.2.2.2.2 h.2⟩

theorem wellFormed_named (e : Engine) (h : WellFormed e) : engineNamed e := by
  obtain ⟨hi, ho, hb⟩ := h
  refine ⟨fun v hv t ht => termOK_named t (hi v hv t ht), fun o hoo => ?_, fun b hbb => ?_⟩
  · obtain ⟨h1, h2, h3⟩ := ho o hoo
    exact ⟨fun t ht => termOK_named t (h1 t ht), normOK_named tables_named.2.2.1 _ h2, defuzzOK_named _ h3⟩
  · obtain ⟨h1, h2, h3, h4, _⟩ := hb b hbb
    exact ⟨normOK_named tables_named.2.1 _ h1, normOK_named tables_named.2.2.1 _ h2,
      normOK_named tables_named.2.1 _ h3, activOK_named _ h4⟩

theorem ruleOK_named (r : Rule) (h : RuleOK r) : ruleNamed r := ⟨h.1, h.2.2.1⟩

end Py.Fll
