import FlVerif.Gen.CodeBlockAct
import FlVerif.Lemmas.CodeActivation

/-! # Tie A for `RuleBlock.activate`, `Activation.assert_is_not_vector` and `Threshold.Comparator.operator`

The seven activation loops are tied in `Lemmas/CodeActivation.lean`; there the two helper calls are externals
(`self.assert_is_not_vector(d)` ↦ `if rule.vector then ValueError`, `self.comparator.operator(d, t)` ↦ `cmp.eval d t`).
Here the helpers themselves and the caller of the loops are translated from the current source and proved equal to
exactly those meanings:

* `assert_is_not_vector` raises `ValueError` iff `np.size(degree) > 1` - the flag `vector` of `Spec.Activation.Rule`;
* `Comparator.operator` looks the member's symbol up in the table `__operator__` (read from the live class at
  translation time): the function found is `Spec.Activation.Comparator.eval` of the comparator with that symbol, and a
  string that is not one of the six symbols is a `KeyError`;
* `RuleBlock.activate` raises `ValueError` when the block has no activation method and otherwise is the translated
  `activate` of the class of the method - hence `Op.Activation.activate` (`code_activate`). -/

namespace Op.Activation
open Spec.Activation Gen.Code

/-! ## `Activation.assert_is_not_vector` -/

/-- the flag `vector` of a rule whose activation degree has `np.size = n` -/
def vectorOfSize (n : Nat) : Bool := decide (1 < n)

/-- the method raises `ValueError` exactly for a degree with more than one element, and is otherwise without effect
    on anything but its local `size` -/
theorem code_assertNotVector (n : Nat) :
    (Activation_assert_is_not_vector.run n {}).map (fun _ => ()) =
      if vectorOfSize n then .error Err.value.toPy else .ok () := by
  unfold Activation_assert_is_not_vector.run vectorOfSize
  by_cases h : 1 < n
  · simp [h, Err.toPy, Except.map]
  · simp [h, Except.map]

/-- in the form the activation loops use it (`ACT_STMT` of the profiles): on a rule whose flag says what `np.size` says,
    the call is `if rule.vector then raise ValueError`, the record of the caller unchanged -/
theorem code_assertNotVector_external {S : Type} (n : Nat) (r : Rule Rat) (hr : r.vector = vectorOfSize n) (σ : S) :
    (Activation_assert_is_not_vector.run n {} >>= fun _ => (.ok σ : Py.M S)) =
      (if r.vector then .error .value else .ok σ) := by
  have h := code_assertNotVector n
  rw [hr]
  cases hv : vectorOfSize n <;> rw [hv] at h
  · cases hrun : Activation_assert_is_not_vector.run n {} with
    | error e => rw [hrun] at h; simp [Except.map] at h
    | ok s => rfl
  · cases hrun : Activation_assert_is_not_vector.run n {} with
    | error e => rw [hrun] at h; simp [Except.map, Err.toPy] at h; subst h; rfl
    | ok s => rw [hrun] at h; simp [Except.map] at h

/-! ## `Threshold.Comparator.operator` -/

/-- the value of the enumeration member (inverse of `Comparator.ofSymbol`) -/
def symbolOf : Comparator → String
  | .lt => "<" | .le => "<=" | .eq => "==" | .ne => "!=" | .ge => ">=" | .gt => ">"

theorem ofSymbol_symbolOf (c : Comparator) : Comparator.ofSymbol (symbolOf c) = some c := by
  cases c <;> rfl

theorem symbolOf_of_ofSymbol {s : String} {c : Comparator} (h : Comparator.ofSymbol s = some c) : s = symbolOf c := by
  unfold Comparator.ofSymbol at h
  split at h <;> simp at h <;> subst h <;> rfl

/-- the look-up of a member's symbol succeeds and the function it returns is `Comparator.eval` -/
theorem code_comparator_member (c : Comparator) :
    ∃ σ f, Comparator_operator.run (symbolOf c) {} = .ok σ ∧ σ.ret = some f ∧
      ∀ d t : X Rat, f d t = c.eval d t := by
  cases c
  · exact ⟨_, Py.BlockAct.opLt, rfl, rfl, fun _ _ => rfl⟩
  · exact ⟨_, Py.BlockAct.opLe, rfl, rfl, fun _ _ => rfl⟩
  · exact ⟨_, Py.BlockAct.opEq, rfl, rfl, fun _ _ => rfl⟩
  · exact ⟨_, Py.BlockAct.opNe, rfl, rfl, fun _ _ => rfl⟩
  · exact ⟨_, Py.BlockAct.opGe, rfl, rfl, fun _ _ => rfl⟩
  · exact ⟨_, Py.BlockAct.opGt, rfl, rfl, fun _ _ => rfl⟩

/-- **`Threshold.Comparator.operator`**, for every string in the place of `self.value`: a symbol of the enumeration
    gives the function `Comparator.eval` of that comparator; any other string is a `KeyError` of the table -/
theorem code_comparator (s : String) :
    match Comparator.ofSymbol s with
    | none => Comparator_operator.run s {} = .error .lookup
    | some c => ∃ σ f, Comparator_operator.run s {} = .ok σ ∧ σ.ret = some f ∧ ∀ d t : X Rat, f d t = c.eval d t := by
  cases h : Comparator.ofSymbol s with
  | some c =>
    have hs := symbolOf_of_ofSymbol h
    subst hs
    exact code_comparator_member c
  | none =>
    have h1 : ("<" == s) = false := beq_eq_false_iff_ne.mpr (fun e => by rw [← e] at h; exact absurd h (by decide))
    have h2 : ("<=" == s) = false := beq_eq_false_iff_ne.mpr (fun e => by rw [← e] at h; exact absurd h (by decide))
    have h3 : ("==" == s) = false := beq_eq_false_iff_ne.mpr (fun e => by rw [← e] at h; exact absurd h (by decide))
    have h4 : ("!=" == s) = false := beq_eq_false_iff_ne.mpr (fun e => by rw [← e] at h; exact absurd h (by decide))
    have h5 : (">=" == s) = false := beq_eq_false_iff_ne.mpr (fun e => by rw [← e] at h; exact absurd h (by decide))
    have h6 : (">" == s) = false := beq_eq_false_iff_ne.mpr (fun e => by rw [← e] at h; exact absurd h (by decide))
    simp [Comparator_operator.run, Py.Dict.get, List.find?, h1, h2, h3, h4, h5, h6, bind, Except.bind]

/-! ## `RuleBlock.activate` -/

/-- **`RuleBlock.activate`**: `ValueError` without an activation method; otherwise the translated `activate` of the
    method's class, i.e. (`code_activate`) the rule states and contributions of `Op.Activation.activate`, or its
    `ValueError` -/
theorem code_blockActivate (a : Option (Method Rat)) (rs : List (Rule Rat)) :
    match a with
    | none => RuleBlock_activate.run none rs {} = .error Err.value.toPy
    | some m =>
      match activate m rs with
      | .error e => RuleBlock_activate.run (some m) rs {} = .error e.toPy
      | .ok o => ∃ σ, RuleBlock_activate.run (some m) rs {} = .ok σ ∧ σ.ret = some (o.rules, o.fires) := by
  cases a with
  | none => rfl
  | some m =>
    have h := code_activate m rs
    cases m <;>
    · simp only [RuleBlock_activate.run, Option.isSome_some, Bool.not_true, Bool.false_eq_true, if_false, Py.deref_some,
        bind, Except.bind]
      simp only at h
      rw [h]
      generalize activate _ rs = x
      cases x with
      | error e => rfl
      | ok o => exact ⟨_, rfl, rfl⟩

end Op.Activation
