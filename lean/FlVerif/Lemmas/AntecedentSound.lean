import FlVerif.Op.AntecedentLoad

/-! Soundness of the state machine of `Antecedent.load`: whatever it accepts is the postfix form of the tree it
    returns, and that tree only uses the engine's variables, registered hedges and the terms of its variables. -/

namespace Op
open Lang

/-- a loaded tree over the engine (every variable is found by `findVar`: it exists and has at least one term) -/
def ANode.WF (e : EngineInfo) : ANode → Prop
  | .prop v hs t => (e.findVar v).isSome = true ∧ (∀ h ∈ hs, e.hedges.contains h = true) ∧
      ((∃ t', t = some t' ∧ (((e.findVar v).map (·.terms)).getD []).contains t' = true) ∨
       (t = none ∧ ∃ hs0, hs = hs0 ++ ["any"]))
  | .op n l r => (n = "and" ∨ n = "or") ∧ l.WF e ∧ r.WF e

/-- the words read to build a stack (top at the head) -/
def flat : List ANode → List String
  | [] => []
  | a :: rest => flat rest ++ a.pfx

inductive AInv (e : EngineInfo) : AFlags → List ANode → List String → Prop where
  | ready (st : AFlags) (stack : List ANode) : st.var_ = true → st.is_ = false → st.hedge = false → st.term = false →
      (∀ a ∈ stack, a.WF e) → AInv e st stack (flat stack)
  | var (rest : List ANode) (v : String) : (∀ a ∈ rest, a.WF e) → (e.findVar v).isSome = true →
      AInv e fIs (.prop v [] none :: rest) (flat rest ++ [v])
  | hedges (rest : List ANode) (v : String) (hs : List String) : (∀ a ∈ rest, a.WF e) → (e.findVar v).isSome = true →
      (∀ h ∈ hs, e.hedges.contains h = true) →
      AInv e fHedgeTerm (.prop v hs none :: rest) (flat rest ++ [v, "is"] ++ hs)

theorem aStep_inv (e : EngineInfo) {st st' : AFlags} {stack stack' : List ANode} {pre : List String} {t : String}
    (hi : AInv e st stack pre) (h : aStep e st stack t = .ok (st', stack')) : AInv e st' stack' (pre ++ [t]) := by
  cases hi with
  | ready st stack h1 h2 h3 h4 hwf =>
    by_cases hf : (e.findVar t).isSome = true
    · simp only [aStep, h1, hf, Bool.true_and, if_true, Except.ok.injEq, Prod.mk.injEq] at h
      obtain ⟨rfl, rfl⟩ := h
      exact AInv.var stack t hwf hf
    · simp only [aStep, h1, hf, h2, h3, h4, Bool.true_and, Bool.false_and, Bool.false_eq_true, if_false] at h
      by_cases hop : (st.andOr && (t == "and" || t == "or")) = true
      · simp only [hop, if_true] at h
        match stack, hwf, h with
        | r :: l :: rest, hwf, h =>
          simp only [Except.ok.injEq, Prod.mk.injEq] at h
          obtain ⟨rfl, rfl⟩ := h
          have hn : t = "and" ∨ t = "or" := by
            simp only [Bool.and_eq_true, Bool.or_eq_true, beq_iff_eq] at hop; exact hop.2
          have hw : ∀ a ∈ ANode.op t l r :: rest, a.WF e := by
            intro a ha
            rcases List.mem_cons.1 ha with ha | ha
            · subst ha; exact ⟨hn, hwf l (by simp), hwf r (by simp)⟩
            · exact hwf a (by simp [ha])
          have := AInv.ready (e := e) fVariableAndOr (ANode.op t l r :: rest) rfl rfl rfl rfl hw
          simpa [flat, ANode.pfx, List.append_assoc] using this
      · simp [hop] at h
  | var rest v hwf hf =>
    by_cases ht : t = "is"
    · subst ht
      simp only [aStep, fIs, Bool.false_and, Bool.false_eq_true, if_false, beq_self_eq_true, Bool.true_and, if_true,
        Except.ok.injEq, Prod.mk.injEq] at h
      obtain ⟨rfl, rfl⟩ := h
      have := AInv.hedges rest v [] hwf hf (by simp)
      simpa [List.append_assoc] using this
    · simp [aStep, fIs, ht] at h
  | hedges rest v hs hwf hf hh =>
    by_cases hc : e.hedges.contains t = true
    · simp only [aStep, fHedgeTerm, Bool.false_and, Bool.false_eq_true, if_false, Bool.true_and, hc, if_true,
        Except.ok.injEq, Prod.mk.injEq] at h
      obtain ⟨rfl, rfl⟩ := h
      have hh' : ∀ x ∈ hs ++ [t], e.hedges.contains x = true := by
        intro x hx; rcases List.mem_append.1 hx with hx | hx
        · exact hh x hx
        · simp at hx; subst hx; exact hc
      by_cases hany : t = "any"
      · subst hany
        have hw : ∀ a ∈ ANode.prop v (hs ++ ["any"]) none :: rest, a.WF e := by
          intro a ha
          rcases List.mem_cons.1 ha with ha | ha
          · subst ha; exact ⟨hf, hh', Or.inr ⟨rfl, hs, rfl⟩⟩
          · exact hwf a ha
        have := AInv.ready (e := e) fVariableAndOr _ rfl rfl rfl rfl hw
        simpa [flat, ANode.pfx, List.append_assoc] using this
      · have hb : (t == "any") = false := by simpa using hany
        simp only [hb, Bool.false_eq_true, if_false]
        have := AInv.hedges rest v (hs ++ [t]) hwf hf hh'
        show AInv e fHedgeTerm _ _
        simpa [List.append_assoc] using this
    · have hc' : e.hedges.contains t = false := by simpa using hc
      by_cases htm : (topTerms e (.prop v hs none :: rest)).contains t = true
      · simp only [aStep, fHedgeTerm, Bool.false_and, Bool.false_eq_true, if_false, Bool.true_and, hc', htm, if_true,
          Except.ok.injEq, Prod.mk.injEq] at h
        obtain ⟨rfl, rfl⟩ := h
        have hw : ∀ a ∈ ANode.prop v hs (some t) :: rest, a.WF e := by
          intro a ha
          rcases List.mem_cons.1 ha with ha | ha
          · subst ha; exact ⟨hf, hh, Or.inl ⟨t, rfl, by simpa [topTerms] using htm⟩⟩
          · exact hwf a ha
        have := AInv.ready (e := e) fVariableAndOr _ rfl rfl rfl rfl hw
        simpa [flat, ANode.pfx, List.append_assoc] using this
      · have hc'' : t ∉ e.hedges := by simpa using hc
        have htm' : t ∉ topTerms e (.prop v hs none :: rest) := by simpa using htm
        simp [aStep, fHedgeTerm, hc'', htm'] at h

theorem aLoop_inv (e : EngineInfo) : ∀ (ts : List String) {st st' : AFlags} {stack stack' : List ANode}
    {pre : List String}, AInv e st stack pre → aLoop e ts st stack = .ok (st', stack') → AInv e st' stack' (pre ++ ts)
  | [], _, _, _, _, _, hi, h => by
    simp only [aLoop, Except.ok.injEq, Prod.mk.injEq] at h
    obtain ⟨rfl, rfl⟩ := h
    simpa using hi
  | t :: ts, st, st', stack, stack', pre, hi, h => by
    simp only [aLoop] at h
    cases hs : aStep e st stack t with
    | error k => rw [hs] at h; cases h
    | ok r =>
      obtain ⟨st1, stack1⟩ := r
      rw [hs] at h
      have := aLoop_inv e ts (aStep_inv e hi hs) h
      simpa [List.append_assoc] using this

/-- **soundness of `Antecedent.load`** on the postfix tokens -/
theorem antecedentLoadPostfix_sound (e : EngineInfo) (pf : List String) (a : ANode)
    (h : antecedentLoadPostfix e pf = .ok a) : pf = a.pfx ∧ a.WF e := by
  unfold antecedentLoadPostfix at h
  cases hl : aLoop e pf fVariable [] with
  | error k => rw [hl] at h; cases h
  | ok r =>
    obtain ⟨st, stack⟩ := r
    rw [hl] at h
    have hi := aLoop_inv e pf (AInv.ready (e := e) fVariable [] rfl rfl rfl rfl (by simp)) hl
    simp only [flat, List.nil_append] at hi
    by_cases hfin : (st.var_ || st.andOr) = true
    · simp only [hfin, Bool.not_true, Bool.false_eq_true, if_false] at h
      match stack, h, hi with
      | [b], h, hi =>
        simp only [Except.ok.injEq] at h
        subst h
        cases hi with
        | ready st stack _ _ _ _ hwf => exact ⟨by simp [flat], hwf _ (by simp)⟩
        | var rest v _ _ => simp [fIs] at hfin
        | hedges rest v hs _ _ _ => simp [fHedgeTerm] at hfin
    · simp [hfin] at h

/-- an accepted antecedent only fails with a `SyntaxError` (or the unreachable `runtime` guard) -/
theorem ANode.pfx_words (a : ANode) : a.pfx ≠ [] := by
  cases a <;> simp [ANode.pfx]

end Op
