import FlVerif.Op.ParsePostfix

/-! The stack machine rebuilds every tree from its postfix form; tree value = reverse-Polish value. -/

namespace Op
open Lang

/-- arities of the elements agree with the node kinds (part of `Expr.Over`) -/
def Arities : Expr → Prop
  | .leaf _ => True
  | .words _ => False
  | .app0 f => f.arity = 0
  | .app1 f x => f.arity = 1 ∧ Arities x
  | .app2 f l r => f.arity = 2 ∧ Arities l ∧ Arities r

theorem arities_of_over {tbl : Table} : ∀ {e : Expr}, e.Over tbl → Arities e
  | .leaf _, _ => trivial
  | .words _, h => h
  | .app0 _, h => h.2
  | .app1 _ _, h => ⟨h.2.1, arities_of_over h.2.2⟩
  | .app2 _ _ _, h => ⟨h.2.1, arities_of_over h.2.2.1, arities_of_over h.2.2.2⟩

theorem build_pfx : ∀ (e : Expr), Arities e → ∀ (rest : List Tok) (stk : List Expr),
    build (e.pfx ++ rest) stk = build rest (e :: stk)
  | .leaf s, _, rest, stk => by simp [Expr.pfx, build]
  | .words _, h, _, _ => h.elim
  | .app0 f, h, rest, stk => by
    have h0 : f.arity = 0 := h
    simp [Expr.pfx, build, h0]
  | .app1 f x, h, rest, stk => by
    obtain ⟨h1, hx⟩ := h
    simp only [Expr.pfx, List.append_assoc, build_pfx x hx]
    simp [build, h1]
  | .app2 f l r, h, rest, stk => by
    obtain ⟨h2, hl, hr⟩ := h
    simp only [Expr.pfx, List.append_assoc, build_pfx l hl, build_pfx r hr]
    simp [build, h2]; omega

theorem parsePostfixTok_pfx (e : Expr) (h : Arities e) : parsePostfixTok e.pfx = .ok e := by
  have := build_pfx e h [] []
  simp only [List.append_nil] at this
  simp [parsePostfixTok, this, build]

theorem rpn_pfx {V : Type} (S : Sem V) : ∀ (e : Expr), Arities e → ∀ (rest : List Tok) (stk : List V),
    rpn S (e.pfx ++ rest) stk = (evalTree S e).bind (fun v => rpn S rest (v :: stk))
  | .leaf s, _, rest, stk => by
    simp only [Expr.pfx, List.cons_append, List.nil_append, rpn, evalTree]
    cases S.leaf s <;> rfl
  | .words _, h, _, _ => h.elim
  | .app0 f, h, rest, stk => by
    have h0 : f.arity = 0 := h
    simp [Expr.pfx, rpn, evalTree, h0]
  | .app1 f x, h, rest, stk => by
    obtain ⟨h1, hx⟩ := h
    simp only [Expr.pfx, List.append_assoc, rpn_pfx S x hx, evalTree]
    cases evalTree S x with
    | none => rfl
    | some v => simp [rpn, h1]
  | .app2 f l r, h, rest, stk => by
    obtain ⟨h2, hl, hr⟩ := h
    simp only [Expr.pfx, List.append_assoc, rpn_pfx S l hl, evalTree]
    cases evalTree S l with
    | none => rfl
    | some a =>
      simp only [Option.bind_some, rpn_pfx S r hr]
      cases evalTree S r with
      | none => rfl
      | some b => simp [rpn, h2]; omega

end Op
