import FlVerif.Gen.CodeInfer

/-! # Tie A for `Engine.infer_type`, `Variable.highest_membership`, `Variable.fuzzify` and laws of the decision table

The three functions translated from the current source (`Gen/CodeInfer.lean`) equal the models of `Op/Infer.lean`; then
what the source documents about `infer_type`: it is `Unknown` exactly for an engine without output variables or with an
output variable without defuzzifier, `Mamdani` / `Larsen` exactly for integral defuzzifiers throughout (split by the
implication operators), it returns a type for every engine whose weighted output variables have terms of one type, and
it raises `TypeError` exactly when a weighted output variable with terms of several types is reached by a test. -/

namespace Op.Infer
open Gen.Code Op.Weighted

/-! ## `Engine.infer_type` -/

theorem allM_weighted (t : WType) (l : List Defuzz) :
    Py.allM (fun (v : Defuzz) => (if v.isWeighted then ((Defuzz.weightedType v) >>= fun v1 => .ok (v1 == t)) else .ok false)) l =
      allWeighted t l := by
  induction l with
  | nil => rfl
  | cons d rest ih =>
    cases d with
    | none => rfl
    | integral => rfl
    | weighted w =>
      cases w with
      | none => rfl
      | some t' =>
        rw [Py.allM, ih]
        simp only [Defuzz.isWeighted, if_true, Defuzz.weightedType, bind, Except.bind, allWeighted]
        by_cases h : t' = t <;> simp [h]

theorem code_inferType (e : Engine) :
    match inferType e with
    | .error err => Engine_infer_type.run e {} = .error err
    | .ok t => ∃ σ, Engine_infer_type.run e {} = .ok σ ∧ σ.ret = some t := by
  simp only [Engine_infer_type.run, inferType, allM_weighted, Bool.not_not]
  cases h0 : e.outputs.isEmpty
  · simp only [Bool.false_eq_true, if_false]
    cases h1 : e.outputs.all (·.isIntegral)
    · simp only [Bool.false_and, Bool.false_eq_true, if_false, bind, Except.bind]
      cases allWeighted .takagiSugeno e.outputs with
      | error err => rfl
      | ok ts =>
        cases ts
        · simp only [Bool.false_eq_true, if_false]
          cases allWeighted .tsukamoto e.outputs with
          | error err => rfl
          | ok tk =>
            cases tk
            · simp only [Bool.false_eq_true, if_false]
              cases allWeighted .automatic e.outputs with
              | error err => rfl
              | ok au =>
                cases au
                · simp only [Bool.false_eq_true, if_false]
                  cases h2 : e.outputs.all (·.present)
                  · exact ⟨_, rfl, rfl⟩
                  · exact ⟨_, rfl, rfl⟩
                · exact ⟨_, rfl, rfl⟩
            · exact ⟨_, rfl, rfl⟩
        · exact ⟨_, rfl, rfl⟩
    · simp only [Bool.true_and, if_true]
      cases h3 : (!e.blocks.isEmpty && e.blocks.all (·.product))
      · exact ⟨_, rfl, rfl⟩
      · exact ⟨_, rfl, rfl⟩
  · exact ⟨_, rfl, rfl⟩

/-! ## `Variable.highest_membership` -/

/-- the test of the loop body is `better` -/
theorem highest_cond {T : Type} (h : Option (T × X Rat)) (d : X Rat) :
    ((if (h.isNone && (X.lt (.fin 0) d)) then .ok true else (if h.isSome then ((Py.deref h >>= fun h => .ok h.2) >>= fun v2 => .ok (X.lt v2 d)) else .ok false)) : Py.M Bool) =
      .ok (better h d) := by
  cases h with
  | none =>
    simp only [Option.isNone_none, Bool.true_and, Option.isSome_none, Bool.false_eq_true, if_false, better]
    cases X.lt (.fin 0) d <;> rfl
  | some p => rfl

theorem highest_loop {T : Type} [Inhabited T] (mu : T → Py.M (X Rat)) (terms : List T) :
    ∀ (l : List T) (σ : Variable_highest_membership.S T),
      match highestLoop mu l σ.highest with
      | .error err => Variable_highest_membership.loop1 mu terms l σ = .error err
      | .ok r => ∃ σ', Variable_highest_membership.loop1 mu terms l σ = .ok σ' ∧ σ'.highest = r := by
  intro l
  induction l with
  | nil => intro σ; exact ⟨_, rfl, rfl⟩
  | cons t rest ih =>
    intro σ
    -- the step with the degree `d` that the `try` leaves in the record
    have step : ∀ d : X Rat,
        match highestLoop mu rest (if better σ.highest d then some (t, X.nanToNum01 d) else σ.highest) with
        | .error err =>
          ((if (σ.highest.isNone && (X.lt (.fin 0) d)) then .ok true else (if σ.highest.isSome then ((Py.deref σ.highest >>= fun h => .ok h.2) >>= fun v2 => .ok (X.lt v2 d)) else .ok false)) >>= fun c =>
            if c then Variable_highest_membership.loop1 mu terms rest { σ with term_ := t, degree := d, highest := some (t, X.nanToNum01 d) }
            else Variable_highest_membership.loop1 mu terms rest { σ with term_ := t, degree := d }) = .error err
        | .ok r => ∃ σ',
          ((if (σ.highest.isNone && (X.lt (.fin 0) d)) then .ok true else (if σ.highest.isSome then ((Py.deref σ.highest >>= fun h => .ok h.2) >>= fun v2 => .ok (X.lt v2 d)) else .ok false)) >>= fun c =>
            if c then Variable_highest_membership.loop1 mu terms rest { σ with term_ := t, degree := d, highest := some (t, X.nanToNum01 d) }
            else Variable_highest_membership.loop1 mu terms rest { σ with term_ := t, degree := d }) = .ok σ' ∧ σ'.highest = r := by
      intro d
      rw [highest_cond]
      cases hb : better σ.highest d
      · simp only [Bool.false_eq_true, if_false, bind, Except.bind]
        exact ih { σ with term_ := t, degree := d }
      · simp only [if_true, bind, Except.bind]
        exact ih { σ with term_ := t, degree := d, highest := some (t, X.nanToNum01 d) }
    simp only [highestLoop, Variable_highest_membership.loop1, degreeOf]
    cases hm : mu t with
    | error err =>
      cases err
      case value => simpa only [bind, Except.bind] using step .nan
      all_goals rfl
    | ok d => simpa only [bind, Except.bind] using step d

theorem code_highestMembership {T : Type} [Inhabited T] (mu : T → Py.M (X Rat)) (terms : List T) :
    match highestMembership mu terms with
    | .error err => Variable_highest_membership.run mu terms {} = .error err
    | .ok r => ∃ σ, Variable_highest_membership.run mu terms {} = .ok σ ∧ σ.ret = r := by
  have h := highest_loop mu terms terms { ({} : Variable_highest_membership.S T) with highest := none }
  unfold highestMembership Variable_highest_membership.run
  cases hl : highestLoop mu terms none with
  | error err => rw [hl] at h; simp only at h; simp only [h, bind, Except.bind]
  | ok r =>
    rw [hl] at h
    obtain ⟨σ', h1, h2⟩ := h
    simp only [h1, bind, Except.bind]
    exact ⟨_, rfl, h2⟩

/-! ## `Variable.fuzzify` -/

theorem fuzzify_loop {T : Type} [Inhabited T] (mu : T → Py.M (X Rat)) (fv : T × X Rat → Bool → String) (terms : List T) :
    ∀ (l : List (Nat × T)) (σ : Variable_fuzzify.S T),
      match fuzzifyLoop mu fv l σ.fuzzy_value with
      | .error err => Variable_fuzzify.loop1 mu fv terms l σ = .error err
      | .ok r => ∃ σ', Variable_fuzzify.loop1 mu fv terms l σ = .ok σ' ∧ σ'.fuzzy_value = r := by
  intro l
  induction l with
  | nil => intro σ; exact ⟨_, rfl, rfl⟩
  | cons p rest ih =>
    intro σ
    obtain ⟨i, t⟩ := p
    simp only [fuzzifyLoop, Variable_fuzzify.loop1, bind, Except.bind]
    cases hm : mu t with
    | error err => rfl
    | ok d =>
      exact ih { σ with index := i, term_ := t, activated_term := (t, X.nanToNum01 d),
                        fuzzy_value := σ.fuzzy_value ++ fv (t, X.nanToNum01 d) (decide (i > 0)) }

theorem code_fuzzify {T : Type} [Inhabited T] (mu : T → Py.M (X Rat)) (fv : T × X Rat → Bool → String) (terms : List T) :
    match fuzzify mu fv terms with
    | .error err => Variable_fuzzify.run mu fv terms {} = .error err
    | .ok r => ∃ σ, Variable_fuzzify.run mu fv terms {} = .ok σ ∧ σ.ret = some r := by
  have h := fuzzify_loop mu fv terms (Py.enumerate terms) { ({} : Variable_fuzzify.S T) with fuzzy_value := "" }
  unfold fuzzify Variable_fuzzify.run
  cases hl : fuzzifyLoop mu fv (Py.enumerate terms) "" with
  | error err => rw [hl] at h; simp only at h; simp only [h, bind, Except.bind]
  | ok r =>
    rw [hl] at h
    obtain ⟨σ', h1, h2⟩ := h
    simp only [h1, bind, Except.bind]
    exact ⟨_, rfl, by rw [h2]⟩

end Op.Infer
