import FlVerif.Op.Infer
import FlVerif.Lemmas.XOrder

/-! # Laws of the decision table `Op.Infer.inferType` (`Engine.infer_type`) and of `highestMembership`

What the source documents, for every engine:
* `Unknown` exactly for an engine without output variables or with an output variable without defuzzifier;
* `Mamdani` / `Larsen` exactly when every output variable has an integral defuzzifier - `Larsen` when moreover there
  is a rule block and every rule block has the AlgebraicProduct as implication;
* a type is returned for every engine whose weighted output variables have terms of one type each (`WellTyped`); a
  weighted output variable with terms of several types makes the function raise `TypeError` when a test reaches it,
  which depends on the order of the output variables (`inferType_order_dependent`). -/

namespace Op.Infer
open Op.Weighted

/-- no weighted output variable has terms of several types (`defuzzifier.infer_type(variable)` never raises) -/
def WellTyped (e : Engine) : Prop := Defuzz.weighted none ∉ e.outputs

theorem allWeighted_total (t : WType) (l : List Defuzz) (h : Defuzz.weighted none ∉ l) : ∃ b, allWeighted t l = .ok b := by
  induction l with
  | nil => exact ⟨true, rfl⟩
  | cons d rest ih =>
    have hr : Defuzz.weighted none ∉ rest := fun hm => h (List.mem_cons_of_mem _ hm)
    cases d with
    | none => exact ⟨false, rfl⟩
    | integral => exact ⟨false, rfl⟩
    | weighted w =>
      cases w with
      | none => exact absurd List.mem_cons_self h
      | some t' =>
        simp only [allWeighted]
        by_cases ht : t' = t
        · simp only [ht, if_true]; exact ih hr
        · simp only [ht, if_false]; exact ⟨false, rfl⟩

theorem allWeighted_true (t : WType) (l : List Defuzz) (h : allWeighted t l = .ok true) :
    ∀ d ∈ l, d = Defuzz.weighted (some t) := by
  induction l with
  | nil => intro d hd; cases hd
  | cons d rest ih =>
    cases d with
    | none => simp [allWeighted] at h
    | integral => simp [allWeighted] at h
    | weighted w =>
      cases w with
      | none => simp [allWeighted] at h
      | some t' =>
        simp only [allWeighted] at h
        by_cases ht : t' = t
        · simp only [ht, if_true] at h
          intro d hd
          rcases List.mem_cons.mp hd with rfl | hd
          · rw [ht]
          · exact ih h d hd
        · simp [ht] at h

/-- the branch of the weighted / hybrid tests returns none of the integral types, and `Unknown` only if some output
    variable has no defuzzifier -/
theorem weighted_branch (e : Engine) (r : EType)
    (h : (allWeighted .takagiSugeno e.outputs >>= fun ts =>
      if ts then .ok .takagiSugeno
      else
        allWeighted .tsukamoto e.outputs >>= fun tk =>
        if tk then .ok .tsukamoto
        else
          allWeighted .automatic e.outputs >>= fun au =>
          if au then .ok .inverseTsukamoto
          else if e.outputs.all (·.present) then .ok .hybrid
          else .ok .unknown : Py.M EType) = .ok r) :
    r ≠ .mamdani ∧ r ≠ .larsen ∧ (r = .unknown → e.outputs.all (·.present) = false) := by
  simp only [bind, Except.bind] at h
  cases h1 : allWeighted .takagiSugeno e.outputs with
  | error err => rw [h1] at h; cases h
  | ok ts =>
    rw [h1] at h
    cases ts
    · simp only [Bool.false_eq_true, if_false] at h
      cases h2 : allWeighted .tsukamoto e.outputs with
      | error err => rw [h2] at h; cases h
      | ok tk =>
        rw [h2] at h
        cases tk
        · simp only [Bool.false_eq_true, if_false] at h
          cases h3 : allWeighted .automatic e.outputs with
          | error err => rw [h3] at h; cases h
          | ok au =>
            rw [h3] at h
            cases au
            · simp only [Bool.false_eq_true, if_false] at h
              cases h4 : e.outputs.all (·.present)
              · rw [h4] at h; simp only [Bool.false_eq_true, if_false, Except.ok.injEq] at h
                subst h; exact ⟨by decide, by decide, fun _ => rfl⟩
              · rw [h4] at h; simp only [if_true, Except.ok.injEq] at h
                subst h; exact ⟨by decide, by decide, fun hc => by cases hc⟩
            · simp only [if_true, Except.ok.injEq] at h
              subst h; exact ⟨by decide, by decide, fun hc => by cases hc⟩
        · simp only [if_true, Except.ok.injEq] at h
          subst h; exact ⟨by decide, by decide, fun hc => by cases hc⟩
    · simp only [if_true, Except.ok.injEq] at h
      subst h; exact ⟨by decide, by decide, fun hc => by cases hc⟩

theorem not_present_mem (l : List Defuzz) (h : l.all (·.present) = false) : Defuzz.none ∈ l := by
  induction l with
  | nil => cases h
  | cons d rest ih =>
    cases d with
    | none => exact List.mem_cons_self
    | integral => exact List.mem_cons_of_mem _ (ih (by simpa [Defuzz.present] using h))
    | weighted w => exact List.mem_cons_of_mem _ (ih (by simpa [Defuzz.present] using h))

/-- `Unknown` is returned only for an engine without output variables or with an output variable without defuzzifier -/
theorem inferType_unknown_only (e : Engine) (h : inferType e = .ok .unknown) :
    e.outputs = [] ∨ Defuzz.none ∈ e.outputs := by
  unfold inferType at h
  cases h0 : e.outputs.isEmpty
  · rw [h0] at h
    simp only [Bool.false_eq_true, if_false] at h
    cases h1 : e.outputs.all (·.isIntegral)
    · rw [h1] at h
      simp only [Bool.false_eq_true, if_false] at h
      exact Or.inr (not_present_mem _ ((weighted_branch e .unknown h).2.2 rfl))
    · rw [h1] at h
      simp only [if_true] at h
      split at h <;> cases h
  · exact Or.inl (List.isEmpty_iff.mp h0)

/-- for an engine whose weighted variables have terms of one type each the function returns a type -/
theorem inferType_total (e : Engine) (h : WellTyped e) : ∃ t, inferType e = .ok t := by
  unfold inferType
  obtain ⟨b1, h1⟩ := allWeighted_total .takagiSugeno e.outputs h
  obtain ⟨b2, h2⟩ := allWeighted_total .tsukamoto e.outputs h
  obtain ⟨b3, h3⟩ := allWeighted_total .automatic e.outputs h
  simp only [h1, h2, h3, bind, Except.bind]
  split
  · exact ⟨_, rfl⟩
  · split
    · split <;> exact ⟨_, rfl⟩
    · cases b1 <;> cases b2 <;> cases b3 <;> simp only [Bool.false_eq_true, if_false, if_true] <;>
        first | exact ⟨_, rfl⟩ | (split <;> exact ⟨_, rfl⟩)

/-- **`Unknown` iff no output variable, or an output variable without defuzzifier** (well-typed engines) -/
theorem inferType_unknown_iff (e : Engine) (hw : WellTyped e) :
    inferType e = .ok .unknown ↔ e.outputs = [] ∨ Defuzz.none ∈ e.outputs := by
  refine ⟨inferType_unknown_only e, ?_⟩
  intro h
  rcases h with h | h
  · unfold inferType; rw [h]; rfl
  · have hne : e.outputs.isEmpty = false := by
      cases ho : e.outputs with
      | nil => rw [ho] at h; cases h
      | cons d r => rfl
    have hint : e.outputs.all (·.isIntegral) = false := by
      rw [List.all_eq_false]; exact ⟨_, h, by simp [Defuzz.isIntegral]⟩
    have hpres : e.outputs.all (·.present) = false := by
      rw [List.all_eq_false]; exact ⟨_, h, by simp [Defuzz.present]⟩
    have hf : ∀ t, allWeighted t e.outputs = .ok false := by
      intro t
      obtain ⟨b, hb⟩ := allWeighted_total t e.outputs hw
      cases b
      · exact hb
      · have := allWeighted_true t e.outputs hb _ h
        cases this
    unfold inferType
    simp only [hne, hint, hpres, hf, Bool.false_eq_true, if_false, bind, Except.bind]

/-- **`Mamdani` / `Larsen` iff every output variable has an integral defuzzifier**, split by the implications -/
theorem inferType_integral_iff (e : Engine) :
    (inferType e = .ok .mamdani ∨ inferType e = .ok .larsen) ↔
      (e.outputs ≠ [] ∧ ∀ d ∈ e.outputs, d = Defuzz.integral) := by
  constructor
  · intro h
    unfold inferType at h
    cases h0 : e.outputs.isEmpty
    · rw [h0] at h
      simp only [Bool.false_eq_true, if_false] at h
      cases h1 : e.outputs.all (·.isIntegral)
      · rw [h1] at h
        simp only [Bool.false_eq_true, if_false] at h
        rcases h with h | h
        · exact absurd rfl (weighted_branch e _ h).1
        · exact absurd rfl (weighted_branch e _ h).2.1
      · refine ⟨fun hn => (by rw [hn] at h0; cases h0), ?_⟩
        intro d hd
        have := (List.all_eq_true.mp h1) d hd
        cases d <;> simp [Defuzz.isIntegral] at this ⊢
    · rw [h0] at h
      simp only [if_true] at h
      rcases h with h | h <;> cases h
  · rintro ⟨hne, hall⟩
    have h0 : e.outputs.isEmpty = false := by
      cases ho : e.outputs with
      | nil => exact absurd ho hne
      | cons d r => rfl
    have h1 : e.outputs.all (·.isIntegral) = true := by
      rw [List.all_eq_true]; intro d hd; rw [hall d hd]; rfl
    unfold inferType
    simp only [h0, h1, Bool.false_eq_true, if_false, if_true]
    split
    · exact Or.inr rfl
    · exact Or.inl rfl

/-- with integral defuzzifiers throughout: `Larsen` iff there is a rule block and every block's implication is the
    AlgebraicProduct -/
theorem inferType_larsen_iff (e : Engine) (hne : e.outputs ≠ []) (hall : ∀ d ∈ e.outputs, d = Defuzz.integral) :
    inferType e = .ok .larsen ↔ (e.blocks ≠ [] ∧ ∀ b ∈ e.blocks, b.product = true) := by
  have h0 : e.outputs.isEmpty = false := by
    cases ho : e.outputs with
    | nil => exact absurd ho hne
    | cons d r => rfl
  have h1 : e.outputs.all (·.isIntegral) = true := by
    rw [List.all_eq_true]; intro d hd; rw [hall d hd]; rfl
  unfold inferType
  simp only [h0, h1, Bool.false_eq_true, if_false, if_true]
  cases hb : (!e.blocks.isEmpty && e.blocks.all (·.product))
  · simp only [Bool.false_eq_true, if_false]
    constructor
    · intro h; cases h
    · rintro ⟨hn, hp⟩
      have : (!e.blocks.isEmpty && e.blocks.all (·.product)) = true := by
        have h2 : e.blocks.isEmpty = false := by
          cases hbk : e.blocks with
          | nil => exact absurd hbk hn
          | cons d r => rfl
        simp only [h2, Bool.not_false, Bool.true_and, List.all_eq_true]
        exact hp
      rw [this] at hb; cases hb
  · simp only [if_true, true_iff]
    simp only [Bool.and_eq_true, Bool.not_eq_eq_eq_not, Bool.not_true, List.all_eq_true] at hb
    refine ⟨fun hn => ?_, hb.2⟩
    rw [hn] at hb; simp at hb

/-- a weighted output variable with terms of several types: `TypeError` if a test reaches it - here it is first - and
    no exception if an earlier variable decides every test (the same two variables in the other order) -/
theorem inferType_order_dependent :
    inferType ⟨[.weighted none, .none], []⟩ = .error .internal ∧
    inferType ⟨[.none, .weighted none], []⟩ = .ok .unknown ∧
    inferType ⟨[.integral, .weighted none], []⟩ = .ok .hybrid := ⟨rfl, rfl, rfl⟩

/-! ## `highestMembership`: the result is a term of maximal positive degree -/

/-- what the loop maintains: `h` is a seen term with a positive degree that no seen term exceeds - or no seen term has
    a positive degree -/
def HighestOf {τ : Type} (f : τ → X Rat) (seen : List τ) : Option (τ × X Rat) → Prop
  | none => ∀ t ∈ seen, X.lt (.fin 0) (f t) = false
  | some (t, d) => t ∈ seen ∧ d = f t ∧ X.lt (.fin 0) d = true ∧ ∀ t' ∈ seen, X.lt d (f t') = false

/-- a positive degree other than `+inf` is stored as it is -/
theorem nanToNum01_of_pos (d : X Rat) (hpos : X.lt (.fin 0) d = true) (hinf : d ≠ .pinf) : X.nanToNum01 d = d := by
  cases d with
  | nan => cases hpos
  | ninf => cases hpos
  | pinf => exact absurd rfl hinf
  | fin a => rfl

theorem highestLoop_spec {τ : Type} (f : τ → X Rat) :
    ∀ (l seen : List τ) (h : Option (τ × X Rat)), (∀ t ∈ l, f t ≠ .pinf) → HighestOf f seen h →
      ∃ r, highestLoop (fun t => .ok (f t)) l h = .ok r ∧ HighestOf f (seen ++ l) r := by
  intro l
  induction l with
  | nil => intro seen h _ inv; exact ⟨h, rfl, by simpa using inv⟩
  | cons t rest ih =>
    intro seen h hfin inv
    simp only [highestLoop, degreeOf, bind, Except.bind]
    have hft : f t ≠ .pinf := hfin t (by simp)
    have hnext : HighestOf f (seen ++ [t]) (if better h (f t) then some (t, X.nanToNum01 (f t)) else h) := by
      cases h with
      | none =>
        rw [show better (none : Option (τ × X Rat)) (f t) = X.lt (.fin 0) (f t) from rfl]
        by_cases hb' : X.lt (.fin 0) (f t) = true
        case neg =>
          have hb : X.lt (.fin 0) (f t) = false := by simpa using hb'
          rw [if_neg hb']; simp only [HighestOf]
          intro t' ht'
          rcases List.mem_append.mp ht' with h1 | h1
          · exact inv t' h1
          · rw [List.mem_singleton.mp h1]; exact hb
        case pos =>
          have hb := hb'
          rw [if_pos hb', nanToNum01_of_pos _ hb hft]; simp only [HighestOf]
          refine ⟨by simp, trivial, hb, ?_⟩
          intro t' ht'
          rcases List.mem_append.mp ht' with h1 | h1
          · cases hc : X.lt (f t) (f t')
            · rfl
            · have := X.lt_trans' hb hc; rw [inv t' h1] at this; cases this
          · rw [List.mem_singleton.mp h1]; exact X.lt_irrefl' _
      | some p =>
        obtain ⟨t0, d0⟩ := p
        obtain ⟨hm, hd, hpos, hmax⟩ := inv
        rw [show better (some (t0, d0)) (f t) = X.lt d0 (f t) from rfl]
        by_cases hb' : X.lt d0 (f t) = true
        case neg =>
          have hb : X.lt d0 (f t) = false := by simpa using hb'
          rw [if_neg hb']; simp only [HighestOf]
          refine ⟨List.mem_append_left _ hm, hd, hpos, ?_⟩
          intro t' ht'
          rcases List.mem_append.mp ht' with h1 | h1
          · exact hmax t' h1
          · rw [List.mem_singleton.mp h1]; exact hb
        case pos =>
          have hb := hb'
          rw [if_pos hb', nanToNum01_of_pos _ (X.lt_trans' hpos hb) hft]; simp only [HighestOf]
          refine ⟨by simp, trivial, X.lt_trans' hpos hb, ?_⟩
          intro t' ht'
          rcases List.mem_append.mp ht' with h1 | h1
          · cases hc : X.lt (f t) (f t')
            · rfl
            · have := X.lt_trans' hb hc; rw [hmax t' h1] at this; cases this
          · rw [List.mem_singleton.mp h1]; exact X.lt_irrefl' _
    obtain ⟨r, hr, hinv⟩ := ih (seen ++ [t]) _ (fun t' ht' => hfin t' (by simp [ht'])) hnext
    exact ⟨r, hr, by simpa using hinv⟩

/-- **`highest_membership`** (membership functions that do not raise and do not return `+inf`): `None` iff no term has
    a positive degree; otherwise a term of the variable with its degree, which is positive and which no term of the
    variable exceeds -/
theorem highestMembership_spec {τ : Type} (f : τ → X Rat) (terms : List τ) (hfin : ∀ t ∈ terms, f t ≠ .pinf) :
    ∃ r, highestMembership (fun t => .ok (f t)) terms = .ok r ∧ HighestOf f terms r := by
  obtain ⟨r, h1, h2⟩ := highestLoop_spec f terms [] none hfin (by intro t ht; cases ht)
  exact ⟨r, h1, by simpa using h2⟩

/-- a membership value of `+inf` is held as 1 (the setter of `Activated.degree`): the later term of degree 5 replaces
    it, and a single term of degree `+inf` is returned with degree 1 (observed on the implementation:
    `[Constant(inf), Constant(5.0)]` gives the second term, `[Constant(inf)]` gives degree 1.0) -/
theorem highestMembership_inf :
    highestMembership (fun (t : Nat) => .ok (if t = 0 then X.pinf else X.fin 5)) [0, 1] = .ok (some (1, X.fin 5)) ∧
    highestMembership (fun (_ : Nat) => .ok X.pinf) [0] = .ok (some (0, X.fin 1)) := by
  constructor <;> decide +kernel

end Op.Infer
