import FlVerif.Lemmas.CodeFunEval
import FlVerif.Lemmas.Expr
import FlVerif.Lemmas.Reject

/-! # The trees `Function.parse` builds satisfy the two side conditions of the tie of `Node.evaluate`

`Op.Arities` (the arity of every element is the number of its operands: the table has no element of arity 3 or more)
and `Expr.LeavesNonempty` (a leaf is a token of `format_infix(formula).split()`, hence not the empty string), for
every formula that `Op.parseFormula` accepts over a well-formed table. -/

namespace Op
open Lang

/-! ## the tokens of `format_infix(formula).split()` are not empty -/

theorem ofList_ne_empty {l : List Char} (h : l ≠ []) : String.ofList l ≠ "" := by
  intro he
  have := congrArg String.toList he
  simp at this
  exact h this

theorem flush_nonempty (cur : List Char) : ∀ s ∈ flush cur, s ≠ "" := by
  intro s hs
  unfold flush at hs
  by_cases hc : cur.isEmpty = true
  · simp [hc] at hs
  · simp only [hc, Bool.false_eq_true, if_false, List.mem_singleton] at hs
    subst hs
    exact ofList_ne_empty (by intro h; simp [h] at hc)

theorem firstMatch_nonempty {ops : List (List Char)} {cs o : List Char} (h : firstMatch ops cs = some o) : o ≠ [] := by
  unfold firstMatch at h
  have := List.find?_some h
  intro ho
  simp [ho] at this

theorem scan_nonempty (ops : List (List Char)) : ∀ (cs : List Char) (skip : Nat) (cur : List Char),
    ∀ s ∈ scan ops cs skip cur, s ≠ ""
  | [], _, cur => by simpa only [scan] using flush_nonempty cur
  | _ :: cs, skip + 1, cur => by simpa only [scan] using scan_nonempty ops cs skip cur
  | c :: cs, 0, cur => by
    intro s hs
    simp only [scan] at hs
    cases hm : firstMatch ops (c :: cs) with
    | some o =>
      simp only [hm, List.mem_append, List.mem_cons] at hs
      rcases hs with hs | hs | hs
      · exact flush_nonempty cur s hs
      · subst hs; exact ofList_ne_empty (firstMatch_nonempty hm)
      · exact scan_nonempty ops cs _ _ s hs
    | none =>
      simp only [hm] at hs
      by_cases hsp : isSpace c = true
      · simp only [hsp, if_true, List.mem_append] at hs
        rcases hs with hs | hs
        · exact flush_nonempty cur s hs
        · exact scan_nonempty ops cs _ _ s hs
      · simp only [hsp, Bool.false_eq_true, if_false] at hs
        exact scan_nonempty ops cs _ _ s hs

theorem formatInfix_nonempty (tbl : Table) (formula : String) : ∀ s ∈ formatInfix tbl formula, s ≠ "" :=
  scan_nonempty _ _ _ _

/-! ## the shunting-yard loop only moves tokens (`Op.sy_mem`, Lemmas/Reject.lean) -/

theorem classify_str (tbl : Table) (s : String) : (classify tbl s).str = s := by
  unfold classify
  cases h : tbl.lookup s with
  | some e => simpa [Tok.str] using Table.lookup_name h
  | none =>
    by_cases h1 : s = "("
    · subst h1; simp [Tok.str]
    · by_cases h2 : s = ")"
      · subst h2; simp [Tok.str]
      · by_cases h3 : s = ","
        · subst h3; simp [Tok.str]
        · simp [h1, h2, h3, Tok.str]

/-! ## the stack machine -/

/-- a tree `Node.evaluate` treats as the model does -/
def Built (e : Expr) : Prop := Arities e ∧ e.LeavesNonempty

theorem build_built : ∀ (ts : List Tok) (stk out : List Expr),
    (∀ f, Tok.el f ∈ ts → f.arity ≤ 2) → (∀ s, Tok.operand s ∈ ts → s ≠ "") → (∀ e ∈ stk, Built e) →
    build ts stk = .ok out → ∀ e ∈ out, Built e
  | [], stk, out, _, _, hs, h => by
    simp only [build, Except.ok.injEq] at h
    subst h; exact hs
  | .operand s :: ts, stk, out, ha, hn, hs, h => by
    simp only [build] at h
    refine build_built ts _ out (fun f hf => ha f (by simp [hf])) (fun s' hs' => hn s' (by simp [hs'])) ?_ h
    intro e he
    simp only [List.mem_cons] at he
    rcases he with rfl | he
    · exact ⟨trivial, hn s (by simp)⟩
    · exact hs e he
  | .el f :: ts, stk, out, ha, hn, hs, h => by
    have hts := build_built ts
    have ha' : ∀ g, Tok.el g ∈ ts → g.arity ≤ 2 := fun g hg => ha g (by simp [hg])
    have hn' : ∀ s, Tok.operand s ∈ ts → s ≠ "" := fun s' hs' => hn s' (by simp [hs'])
    have hf2 : f.arity ≤ 2 := ha f (by simp)
    simp only [build] at h
    by_cases hlt : stk.length < f.arity
    · simp [hlt] at h
    · simp only [hlt, if_false] at h
      by_cases h0 : f.arity = 0
      · simp only [h0, if_true] at h
        refine hts _ out ha' hn' ?_ h
        intro e he
        simp only [List.mem_cons] at he
        rcases he with rfl | he
        · exact ⟨h0, trivial⟩
        · exact hs e he
      · simp only [h0, if_false] at h
        by_cases h2 : f.arity = 2
        · simp only [h2, if_true] at h
          match stk, hs, h with
          | [], _, h => cases h
          | [_], _, h => cases h
          | r :: l :: s, hs, h =>
            simp only at h
            refine hts _ out ha' hn' ?_ h
            intro e he
            simp only [List.mem_cons] at he
            have hr := hs r (by simp)
            have hl := hs l (by simp)
            rcases he with rfl | he
            · exact ⟨⟨h2, hl.1, hr.1⟩, hl.2, hr.2⟩
            · exact hs e (by simp [he])
        · simp only [h2, if_false] at h
          have h1 : f.arity = 1 := by omega
          match stk, hs, h with
          | [], _, h => cases h
          | r :: s, hs, h =>
            simp only at h
            refine hts _ out ha' hn' ?_ h
            intro e he
            simp only [List.mem_cons] at he
            have hr := hs r (by simp)
            rcases he with rfl | he
            · exact ⟨⟨h1, hr.1⟩, hr.2⟩
            · exact hs e (by simp [he])
  | .comma :: ts, stk, out, ha, hn, hs, h => by
    simp only [build] at h
    exact build_built ts _ out (fun f hf => ha f (by simp [hf])) (fun s' hs' => hn s' (by simp [hs'])) hs h
  | .lp :: ts, stk, out, ha, hn, hs, h => by
    simp only [build] at h
    exact build_built ts _ out (fun f hf => ha f (by simp [hf])) (fun s' hs' => hn s' (by simp [hs'])) hs h
  | .rp :: ts, stk, out, ha, hn, hs, h => by
    simp only [build] at h
    exact build_built ts _ out (fun f hf => ha f (by simp [hf])) (fun s' hs' => hn s' (by simp [hs'])) hs h

/-- **every tree `Function.parse` builds** (over a table without elements of arity 3 or more) **is one on which the
    tie of `Node.evaluate` holds** -/
theorem parseFormula_built (tbl : Table) (hT : tbl.WellFormed) (formula : String) (e : Expr)
    (h : parseFormula tbl (formatInfix tbl formula) = .ok e) : Arities e ∧ e.LeavesNonempty := by
  unfold parseFormula toPostfix at h
  cases hsy : sy ((formatInfix tbl formula).map (classify tbl)) [] [] with
  | error k => simp [hsy, Except.map] at h
  | ok out =>
    rw [hsy] at h
    replace h : parsePostfix tbl (out.map Tok.str) = .ok e := h
    unfold parsePostfix parsePostfixTok at h
    -- the strings of the postfix form are tokens of the formula
    have hout : ∀ s ∈ out.map Tok.str, s ≠ "" := by
      intro s hs
      obtain ⟨t, ht, rfl⟩ := List.mem_map.1 hs
      refine sy_mem _ _ _ out hsy (fun t => t.str ≠ "") ?_ (by simp) (by simp) t ht
      intro t' ht'
      obtain ⟨s', hs', rfl⟩ := List.mem_map.1 ht'
      rw [classify_str]
      exact formatInfix_nonempty tbl formula s' hs'
    cases hb : build ((out.map Tok.str).map (classify tbl)) [] with
    | error k => rw [hb] at h; cases h
    | ok stk =>
      have hall := build_built _ [] stk
        (by
          intro f hf
          obtain ⟨s, _, hs⟩ := List.mem_map.1 hf
          obtain ⟨r, hr, rfl⟩ := classify_el hs
          exact hT.2.2.2.2.2 r hr)
        (by
          intro s hs
          obtain ⟨s', hs', hc⟩ := List.mem_map.1 hs
          have := classify_str tbl s'
          rw [hc] at this
          simp only [Tok.str] at this
          subst this
          exact hout _ hs')
        (by simp) hb
      rw [hb] at h
      match stk, hall, h with
      | [e'], hall, h =>
        simp only [Except.ok.injEq] at h
        subst h
        exact hall _ (by simp)
      | [], _, h => cases h
      | _ :: _ :: _, _, h => cases h

/-! ## the model the property theorems use (`Op.functionMembership`, values `Val α`) is `parseFormula` followed by
    `membershipOf` -/

section
variable {α : Type} [Field α] [LinearOrder α] [IsStrictOrderedRing α] [FloorRing α]

instance instInhabitedVal : Inhabited (Val α) := ⟨.unk⟩

/-- the scalar of a float literal -/
def numConst : X Rat → Val α := fun q => .num (castX q)

/-- a map of variables with number values as a map with values of the formula language -/
def liftEnv (d : List (String × X α)) : List (String × Val α) := d.map (fun kv => (kv.1, Val.num kv.2))

theorem lookupLast_lift (d : List (String × X α)) (k : String) :
    lookupLast (liftEnv d) k = (lookupLast d k).map Val.num := by
  unfold lookupLast liftEnv
  rw [← List.map_reverse, List.find?_map]
  cases h : List.find? ((fun x => x.1 == k) ∘ fun kv : String × X α => (kv.1, Val.num kv.2)) d.reverse with
  | none =>
    have : List.find? (fun x => x.1 == k) d.reverse = none := by
      simpa [Function.comp_def] using h
    simp [this]
  | some kv =>
    have : List.find? (fun x => x.1 == k) d.reverse = some kv := by
      simpa [Function.comp_def] using h
    simp [this]

theorem nodeSem_valSem (F : Fn α) (env : List (String × X α)) :
    nodeSem (valSem F (fun _ => none)) numConst (some (liftEnv env)) = valSem F (lookupLast env) := by
  unfold nodeSem valSem
  congr 1
  funext s
  unfold semLeaf numConst
  cases parseFloat s with
  | some x => rfl
  | none => simp [lookupLast_lift]

theorem membershipEnv_lift (fvars evars : List (String × X α)) (x : X α) :
    membershipEnv (liftEnv fvars) (liftEnv evars) (Val.num x) = (membershipEnv fvars evars x).map liftEnv := by
  unfold membershipEnv liftEnv
  simp only [List.any_map, Function.comp_def]
  have hx : List.map (fun kv : String × X α => (kv.1, Val.num kv.2)) evars ++ [("x", Val.num x)]
      = List.map (fun kv : String × X α => (kv.1, Val.num kv.2)) (evars ++ [("x", x)]) := by simp
  rw [hx]
  simp only [List.any_map, Function.comp_def]
  by_cases h1 : fvars.any (fun kv => kv.1 == "x") = true
  · simp [h1, Except.map]
  · by_cases h2 : evars.any (fun kv => kv.1 == "x") = true
    · simp [h1, h2, Except.map]
    · by_cases h3 : fvars.any (fun kv => (evars ++ [("x", x)]).any (fun kv' => kv'.1 == kv.1)) = true
      · simp only [h1, h2, Bool.false_eq_true, if_false]
        rw [if_pos h3, if_pos h3]; rfl
      · simp only [h1, h2, Bool.false_eq_true, if_false]
        rw [if_neg h3, if_neg h3]; simp [Except.map]

/-- `Op.functionMembership` is `Op.parseFormula` followed by `Op.membershipOf` with the documented meaning of the
    elements -/
theorem functionMembership_eq (F : Fn α) (tbl : Table) (formula : String) (fvars evars : List (String × X α)) (x : X α) :
    functionMembership F tbl formula fvars evars x =
      match parseFormula tbl (formatInfix tbl formula) with
      | .error k => .error k
      | .ok e => (membershipOf (valSem F (fun _ => none)) numConst (some e) (liftEnv fvars) (liftEnv evars) (Val.num x)).map
          (fun v => (e, v)) := by
  unfold functionMembership
  cases parseFormula tbl (formatInfix tbl formula) with
  | error k => rfl
  | ok e =>
    simp only [membershipOf, membershipEnv_lift]
    cases membershipEnv fvars evars x with
    | error k => rfl
    | ok env =>
      simp only [Except.map, evaluateOf, nodeSem_valSem]
      cases evalTree (valSem F (lookupLast env)) e <;> rfl

end

end Op

namespace CodeFunEval
open Lang Op Gen.Code

section
variable {α : Type} [Field α] [LinearOrder α] [IsStrictOrderedRing α] [FloorRing α]

/-- **`Function.create(name, formula, engine)` followed by `.membership(x)`, both as translated from the source, =
    the model `Op.functionMembership`** the property theorems and the driver use: the translated `Function.parse`,
    then the translated `Function.membership` on the node it returns -/
theorem code_createMembership (F : Fn α) (tbl : Table) (hT : tbl.WellFormed) (formula : String)
    (fvars : List (String × X α)) (engine : Option (List (String × X α))) (x : X α) :
    match functionMembership F tbl formula fvars (engine.getD []) x with
    | .error k => (Function_parse.run tbl formula {} >>= fun p =>
        Function_membership.run (valSem F (fun _ => none)) numConst p.ret (liftEnv fvars) (engine.map liftEnv) (Val.num x) {})
          = .error k.toPy
    | .ok r => ∃ p σ, Function_parse.run tbl formula {} = .ok p ∧ p.ret = some r.1.toNode ∧
        Function_membership.run (valSem F (fun _ => none)) numConst p.ret (liftEnv fvars) (engine.map liftEnv) (Val.num x) {}
          = .ok σ ∧ σ.ret = some r.2 := by
  rw [functionMembership_eq]
  have hp := CodeFn.code_parsePostfix tbl formula
  cases hpf : parseFormula tbl (formatInfix tbl formula) with
  | error k =>
    rw [hpf] at hp
    simp only [hp, bind, Except.bind]
  | ok e =>
    rw [hpf] at hp
    obtain ⟨p, hp1, hp2⟩ := hp
    dsimp only
    have hb := parseFormula_built tbl hT formula e hpf
    have hm := code_functionMembership (valSem F (fun _ => none)) numConst (some e)
      (by intro e' he; cases he; exact hb) (liftEnv fvars) (engine.map liftEnv) (Val.num x)
    have hg : (engine.map liftEnv).getD [] = liftEnv (engine.getD []) := by cases engine <;> rfl
    rw [hg] at hm
    simp only [Option.map_some] at hm
    generalize hv : membershipOf (valSem F (fun _ => none)) numConst (some e) (liftEnv fvars) (liftEnv (engine.getD []))
      (Val.num x) = mv at hm ⊢
    cases mv with
    | error k =>
      simp only at hm
      simp only [Except.map, hp1, hp2, bind, Except.bind, hm]
    | ok v =>
      obtain ⟨σ, h1, h2⟩ := hm
      simp only [Except.map]
      exact ⟨p, σ, hp1, hp2, by rw [hp2]; exact h1, h2⟩

end

end CodeFunEval
