import FlVerif.Gen.CodeSession
import FlVerif.Lemmas.CodeRule

/-! # Tie A for the setter of `Engine.input_values`: the shape dispatch translated from the current source equals the
    model `Op.Engine.setInputValues` -/

namespace Op.Engine
open Lang Gen.Code

theorem range_map_getD {β : Type} (d : β) : ∀ (v : List β), (List.range v.length).map (fun j => v.getD j d) = v
  | [] => rfl
  | x :: v => by
    rw [List.length_cons, List.range_succ_eq_map, List.map_cons, List.map_map]
    simp only [List.getD_cons_zero, Function.comp_def, List.getD_cons_succ, List.cons.injEq, true_and]
    exact range_map_getD d v

/-- the transpose of a vector taken as one row is the vector as one column -/
theorem transpose_row (v : List (X Rat)) :
    (List.range v.length).map (column [v]) = v.map (fun x => [x]) := by
  have : (List.range v.length).map (column [v]) = ((List.range v.length).map (fun j => v.getD j .nan)).map (fun x => [x]) := by
    rw [List.map_map]; rfl
  rw [this, range_map_getD]

theorem code_inputsLoop (ins : List (InVar Rat)) (a : NdArr Rat) : ∀ (l : List (InVar Rat × Nat)) (σ : Engine_set_input_values.S),
    ∃ σ', Engine_set_input_values.loop1 ins a (l.map (fun p => (p.2, p.1))) σ = .ok σ' ∧
      σ'.cols = σ.cols ++ l.map (fun p => (σ.values.col p.2).map (fun x => (p.1.setValue x).value))
  | [], σ => ⟨σ, rfl, by simp⟩
  | p :: l, σ => by
    simp only [List.map_cons, Engine_set_input_values.loop1]
    obtain ⟨σ', h, hc⟩ := code_inputsLoop ins a l
      { σ with i := p.2, v := p.1, cols := σ.cols ++ [(σ.values.col p.2).map (fun x => (p.1.setValue x).value)] }
    exact ⟨σ', h, by simp [hc]⟩

/-- the part of the setter after the dispatch: the check of the number of columns and the loop -/
def inputsTail (ins : List (InVar Rat)) (a : NdArr Rat) (σ : Engine_set_input_values.S) : Py.M Engine_set_input_values.S :=
  ((Py.Sess.orIndexError σ.values.shape1) >>= fun v1 => .ok (v1 != ins.length)) >>= fun c =>
  if c then
    .error .value
  else
    Engine_set_input_values.loop1 ins a (Py.enumerate ins) σ >>= fun σ =>
    Except.ok σ

theorem code_inputsTail (ins : List (InVar Rat)) (a : NdArr Rat) (c : Nat) (rows : List (List (X Rat)))
    (σ : Engine_set_input_values.S) (hv : σ.values = .matrix c rows) (hc : σ.cols = []) :
    match (if c ≠ ins.length then (.error .value : Except ErrKind (List (List (X Rat))))
           else .ok (ins.zipIdx.map (fun p => (column rows p.2).map (fun x => (p.1.setValue x).value)))) with
    | .error k => inputsTail ins a σ = .error k.toPy
    | .ok cols => ∃ σ', inputsTail ins a σ = .ok σ' ∧ σ'.cols = cols := by
  unfold inputsTail
  rw [hv]
  simp only [NdArr.shape1, Py.Sess.orIndexError, bind, Except.bind]
  by_cases h : c = ins.length
  · simp only [h, bne_self_eq_false, Bool.false_eq_true, if_false, ne_eq, not_true_eq_false]
    obtain ⟨σ', g, gc⟩ := code_inputsLoop ins a ins.zipIdx σ
    unfold Py.enumerate
    simp only [g]
    exact ⟨σ', rfl, by rw [gc, hc, hv]; rfl⟩
  · have : (c != ins.length) = true := by simpa using h
    simp only [this, if_true, ne_eq, h, not_false_eq_true, ErrKind.toPy]

/-- **the setter of `Engine.input_values` as translated from the source = the model `Op.Engine.setInputValues`**:
    the same exception class, and otherwise every input variable has received the batch of the model -/
theorem code_setInputValues (ins : List (InVar Rat)) (a : NdArr Rat) :
    match setInputValues ins a with
    | .error k => Engine_set_input_values.run ins a {} = .error k.toPy
    | .ok cols => ∃ σ, Engine_set_input_values.run ins a {} = .ok σ ∧ σ.cols = cols := by
  unfold setInputValues Engine_set_input_values.run
  cases hi : ins.isEmpty
  case true => simp [ErrKind.toPy]
  case false =>
  simp only [Bool.not_false, Bool.not_true, Bool.false_eq_true, if_false]
  cases a with
  | scalar x =>
    simp only [NdArr.ndim, beq_self_eq_true, if_true, inputMatrix]
    exact code_inputsTail ins _ ins.length [List.replicate ins.length x] { values := NdArr.fullRow ins.length x } rfl rfl
  | vector v =>
    simp only [NdArr.ndim, Nat.reduceBEq, Bool.false_eq_true, if_false, beq_self_eq_true, if_true, inputMatrix]
    by_cases h1 : ins.length = 1
    · have hb : (ins.length == 1) = true := by simpa using h1
      simp only [hb, if_true, if_pos h1]
      exact code_inputsTail ins (.vector v) 1 (v.map (fun x => [x])) { values := (NdArr.vector v).atleast2d.transpose }
        (by simp [NdArr.atleast2d, NdArr.transpose, transpose_row]) rfl
    · have hb : (ins.length == 1) = false := by simpa using h1
      simp only [hb, Bool.false_eq_true, if_false, h1]
      exact code_inputsTail ins _ v.length [v] { values := (NdArr.vector v).atleast2d } rfl rfl
  | matrix c rows =>
    simp only [NdArr.ndim, Nat.reduceBEq, Bool.false_eq_true, if_false, beq_self_eq_true, if_true, inputMatrix]
    exact code_inputsTail ins _ c rows { values := .matrix c rows } rfl rfl
  | higher s h =>
    have h0 : (s.length == 0) = false := by rw [beq_eq_false_iff_ne]; omega
    have h1 : (s.length == 1) = false := by rw [beq_eq_false_iff_ne]; omega
    have h2 : (s.length == 2) = false := by rw [beq_eq_false_iff_ne]; omega
    simp only [NdArr.ndim, h0, h1, h2, Bool.false_eq_true, if_false, inputMatrix, ErrKind.toPy]

/-! ## the batch the setter distributes, row by row: the inputs of `Op.Engine.batchRows` -/

theorem zipIdx_getD {β γ δ : Type} (g : β → γ → δ) (d : γ) : ∀ (l : List β) (row : List γ) (k : Nat),
    row.length = k + l.length →
    (l.zipIdx k).map (fun p => g p.1 (row.getD p.2 d)) = (l.zip (row.drop k)).map (fun q => g q.1 q.2)
  | [], row, k, _ => by simp
  | x :: l, row, k, h => by
    have hk : k < row.length := by simp only [List.length_cons] at h; omega
    rw [List.zipIdx_cons, List.map_cons, List.drop_eq_getElem_cons hk, List.zip_cons_cons, List.map_cons]
    congr 1
    · simp [List.getD_eq_getElem?_getD, hk]
    · exact zipIdx_getD g d l row (k + 1) (by simp only [List.length_cons] at h; omega)

/-- **a 2-D array with one column per input variable**: the setter accepts it, and row `j` of what the input variables
    receive is the input vector of the scalar model on row `j` (`setInputs e rows[j]`, the rows `Op.Engine.batchRows`
    processes) -/
theorem setInputValues_rows (e : EngineD Rat) (rows : List (List (X Rat))) (hne : e.inputs ≠ [])
    (hwf : ∀ r ∈ rows, r.length = e.inputs.length) :
    ∃ cols, setInputValues e.inputs (.matrix e.inputs.length rows) = .ok cols ∧
      ∀ (j : Nat) (hj : j < rows.length),
        cols.map (fun col => col.getD j .nan) = (setInputs e rows[j]).inputs.map (·.value) := by
  have he : e.inputs.isEmpty = false := by
    cases h : e.inputs with
    | nil => exact absurd h hne
    | cons _ _ => rfl
  refine ⟨e.inputs.zipIdx.map (fun p => (column rows p.2).map (fun x => (p.1.setValue x).value)),
    by simp only [setInputValues, he, inputMatrix, ne_eq, not_true_eq_false, if_false, Bool.false_eq_true], ?_⟩
  intro j hj
  simp only [setInputs, List.map_map, column]
  have hr := hwf rows[j] (List.getElem_mem hj)
  have := zipIdx_getD (fun (iv : InVar Rat) (x : X Rat) => (iv.setValue x).value) X.nan e.inputs rows[j] 0 (by simpa using hr)
  simp only [List.drop_zero] at this
  refine Eq.trans ?_ (this.trans ?_)
  · apply List.map_congr_left
    intro p _
    simp [List.getD_eq_getElem?_getD, hj]
  · apply List.map_congr_left
    intro q _
    rfl

end Op.Engine
