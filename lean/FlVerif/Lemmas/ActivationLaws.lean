import FlVerif.Lemmas.Activation
import FlVerif.Lemmas.ActivationLoops

/-! helper lemmas for the laws of C08: the heap loops as a sort, membership in `take n ∘ filter`, the generic
    "n best" statement, sums of finite degrees, invariance under `reset` -/

namespace C08
open Spec.Activation Op.Activation

variable {α : Type} [Field α] [LinearOrder α] [IsStrictOrderedRing α]

theorem scalarV_enum {rs : List (Rule α)} (h : Scalar rs) : ScalarV (enum 0 rs) := by
  intro p hp hl
  obtain ⟨i, r⟩ := p
  exact h r (List.mem_of_getElem? (mem_enum hp).2) hl

theorem snds_map (l : List (Visit α)) (f : Visit α → Rule α) : snds (l.map (fun p => (p.1, f p))) = l.map f := by
  simp [snds, List.map_map, Function.comp_def]

theorem keyLt_neg (a b : Visit α) :
    keyLt (X.neg a.2.degree, a.1) (X.neg b.2.degree, b.1) = betterHigh a b := by
  simp only [keyLt, betterHigh, X.eq_neg_neg, X.lt_neg_neg]
  rcases Bool.eq_false_or_eq_true (X.eq a.2.degree b.2.degree) with he | he
  · have := X.eq_true_imp he
    simp [he, this, X.lt_irrefl']
  · simp [he]

theorem keyLt_id (a b : Visit α) :
    keyLt (id a.2.degree, a.1) (id b.2.degree, b.1) = betterLow a b := by
  simp only [keyLt, betterLow, id]
  rcases Bool.eq_false_or_eq_true (X.eq a.2.degree b.2.degree) with he | he
  · have := X.eq_true_imp he
    simp [he, this, X.lt_irrefl']
  · simp [he]

/-- the heap loop + `n` pops = `take n` of the stable sort (`key = neg` with `betterHigh`, `key = id` with `betterLow`) -/
theorem heap_spec (key : X α → X α) (better : Visit α → Visit α → Bool)
    (hk : ∀ a b : Visit α, keyLt (key a.2.degree, a.1) (key b.2.degree, b.1) = better a b)
    (hst : ∀ l : List (Visit α), (l.map (·.1)).Nodup → (∀ p ∈ l, positive p = true) → StrictOn better l)
    (n : Nat) (rs : List (Rule α)) (h : Scalar rs) :
    (pushLoop key [] (enum 0 rs)).map (fun q => let z := popLoop n 0 q.2 (snds q.1); (⟨z.1, z.2⟩ : Outcome α)) =
      .ok (outcome ((sortBy better ((enum 0 rs).filter positive)).take n) (fun r => r.degree) rs) := by
  have hE := filter_nodup_fst (enum_nodup 0 rs) positive
  have hpos : ∀ p ∈ (enum 0 rs).filter positive, positive p = true := fun p hp => (List.mem_filter.1 hp).2
  have hstE := hst _ hE hpos
  have hperm := sortBy_perm better ((enum 0 rs).filter positive)
  -- the heap after the first loop
  have hheap : pushAll keyLt (((enum 0 rs).filter positive).map (fun p => (key p.2.degree, p.1))) [] =
      (sortBy better ((enum 0 rs).filter positive)).map (fun p => (key p.2.degree, p.1)) := by
    rw [pushAll_eq_sortBy (hstE.map hk), sortBy_map better keyLt _ hk]
  simp only [pushLoop_spec key _ _ (scalarV_enum h), Except.map, snds_map, popLoop_eq, Nat.sub_zero, hheap]
  rw [← List.map_take, List.map_map]
  have hsel_sub : ∀ p ∈ (sortBy better ((enum 0 rs).filter positive)).take n, p ∈ (enum 0 rs).filter positive :=
    fun p hp => hperm.subset (List.mem_of_mem_take hp)
  have := trigAll_spec id rs ((sortBy better ((enum 0 rs).filter positive)).take n)
    (fun p hp => (List.mem_filter.1 (hsel_sub p hp)).1)
    (((hperm.map _).nodup_iff.2 hE).sublist ((List.take_sublist _ _).map _))
    (fun p hp => by
      have := (List.mem_filter.1 (hsel_sub p hp)).2
      simp only [positive, Bool.and_eq_true] at this; exact this.1)
  simp only [Function.comp_def, id] at this ⊢
  rw [this]
  rfl

theorem exists_enum {β : Type} (k : Nat) {x : β} {l : List β} (h : x ∈ l) : ∃ i, (i, x) ∈ enum k l := by
  induction l generalizing k with
  | nil => simp at h
  | cons y ys ih =>
    rcases List.mem_cons.1 h with rfl | h
    · exact ⟨k, by simp [enum]⟩
    · obtain ⟨i, hi⟩ := ih (k + 1) h
      exact ⟨i, by simp [enum, hi]⟩

/-- membership in `take n` of a filtered list with distinct members: the element passes the filter and fewer
    than `n` elements before it do -/
theorem mem_take_filter {β : Type} (f : β → Bool) (n : Nat) (A B : List β) (p : β) (hnd : (A ++ p :: B).Nodup) :
    p ∈ ((A ++ p :: B).filter f).take n ↔ f p = true ∧ (A.filter f).length < n := by
  have hpA : p ∉ A := by
    intro h
    have := (List.nodup_append.1 hnd).2.2 p h p (by simp)
    exact this rfl
  constructor
  · intro h
    have hf : f p = true := (List.mem_filter.1 (List.mem_of_mem_take h)).2
    refine ⟨hf, ?_⟩
    by_contra hlt
    have hle : n ≤ (A.filter f).length := Nat.le_of_not_lt hlt
    rw [List.filter_append, List.take_append_of_le_length hle] at h
    exact hpA (List.mem_filter.1 (List.mem_of_mem_take h)).1
  · rintro ⟨hf, hlt⟩
    rw [List.filter_append, List.filter_cons, if_pos hf]
    apply List.mem_of_getElem? (i := (A.filter f).length)
    rw [List.getElem?_take, if_pos hlt, List.getElem?_append_right (Nat.le_refl _)]
    simp

theorem split_at {β : Type} {l : List β} {i : Nat} {x : β} (h : l[i]? = some x) :
    l = l.take i ++ x :: l.drop (i + 1) := by
  induction l generalizing i with
  | nil => simp at h
  | cons y ys ih =>
    cases i with
    | zero => simp at h; simp [h]
    | succ i => simp only [List.getElem?_cons_succ] at h; simp [← ih h]

theorem enum_at {rs : List (Rule α)} {p : Visit α} (h : p ∈ enum 0 rs) : (enum 0 rs)[p.1]? = some p := by
  obtain ⟨i, r⟩ := p
  have := (mem_enum h).2
  simp only [Nat.sub_zero] at this
  simp [getElem?_enum, this]

theorem nodup_of_fst {l : List (Visit α)} (h : (l.map (·.1)).Nodup) : l.Nodup := by
  induction l with
  | nil => exact List.nodup_nil
  | cons x xs ih =>
    simp only [List.map_cons, List.nodup_cons] at h ⊢
    exact ⟨fun hx => h.1 (List.mem_map.2 ⟨x, hx, rfl⟩), ih h.2⟩

theorem sorted_strict {β : Type} {lt : β → β → Bool} {l : List β} (hst : StrictOn lt l) (hs : Sorted lt l) (hnd : l.Nodup) :
    l.Pairwise (fun a b => lt a b = true) := by
  have h2 : l.Pairwise (fun a b => a ≠ b ∧ lt b a = false) := hnd.and hs
  refine h2.imp_of_mem ?_
  intro a b ha hb hab
  rcases hst.total a ha b hb hab.1 with h | h
  · exact h
  · rw [hab.2] at h; exact absurd h (by simp)

/-- the selection of Highest(n) (`better = betterHigh`) / Lowest(n) (`betterLow`): nothing but rules with a positive
    degree, nothing lost; triggered best first; every selected rule beats every positive rule left out; exactly
    `min n (number of positive rules)` are selected -/
theorem nbest (better : Visit α → Visit α → Bool)
    (hst : ∀ l : List (Visit α), (l.map (·.1)).Nodup → (∀ p ∈ l, positive p = true) → StrictOn better l)
    (n : Nat) (rs : List (Rule α)) :
    let E := (enum 0 rs).filter positive
    let sel := (sortBy better E).take n
    let rest := (sortBy better E).drop n
    (sel ++ rest).Perm E ∧ sel.Pairwise (fun a b => better a b = true) ∧
    (∀ a ∈ sel, ∀ b ∈ rest, better a b = true) ∧ sel.length = min n E.length := by
  intro E sel rest
  have hE : (E.map (·.1)).Nodup := filter_nodup_fst (enum_nodup 0 rs) positive
  have hpos : ∀ p ∈ E, positive p = true := fun p hp => (List.mem_filter.1 hp).2
  have hperm := sortBy_perm better E
  have hstL : StrictOn better (sortBy better E) := (hst E hE hpos).subset (fun x hx => hperm.subset hx)
  have hsorted := sortBy_sorted (hst E hE hpos)
  have hndL : (sortBy better E).Nodup := hperm.nodup_iff.2 (nodup_of_fst hE)
  refine ⟨?_, ?_, sorted_take_drop hstL hsorted hndL n, ?_⟩
  · show ((sortBy better E).take n ++ (sortBy better E).drop n).Perm E
    rw [List.take_append_drop]; exact hperm
  · exact (sorted_strict hstL hsorted hndL).sublist (List.take_sublist _ _)
  · show ((sortBy better E).take n).length = min n E.length
    rw [List.length_take, hperm.length_eq]

theorem foldl_add_fin (l : List (Visit α)) (val : Visit α → α) (h : ∀ p ∈ l, p.2.degree = .fin (val p)) (s : α) :
    l.foldl (fun s p => X.add s p.2.degree) (.fin s) = .fin (s + (l.map val).sum) := by
  induction l generalizing s with
  | nil => simp
  | cons p ps ih =>
    simp only [List.foldl_cons, h p (by simp), X.add_fin, List.map_cons, List.sum_cons]
    rw [ih (fun q hq => h q (by simp [hq]))]
    congr 1; exact add_assoc _ _ _

theorem sum_pos_of_pos (l : List α) (h : ∀ a ∈ l, 0 < a) (hne : l ≠ []) : 0 < l.sum := by
  induction l with
  | nil => exact absurd rfl hne
  | cons a as ih =>
    rw [List.sum_cons]
    cases as with
    | nil => simpa using h a (by simp)
    | cons b bs =>
      have := ih (fun x hx => h x (by simp [hx])) (by simp)
      exact add_pos (h a (by simp)) this

theorem sum_div (l : List α) (S : α) : (l.map (fun a => a / S)).sum = l.sum / S := by
  induction l with
  | nil => simp
  | cons a as ih => simp [List.sum_cons, ih, add_div]

theorem enum_map {β γ : Type} (f : β → γ) (k : Nat) (l : List β) :
    enum k (l.map f) = (enum k l).map (fun p => (p.1, f p.2)) := by
  induction l generalizing k with
  | nil => rfl
  | cons x xs ih => simp [enum, ih]

theorem settle_reset (b : Bool) (d : X α) (r : Rule α) : settle b d (reset r) = settle b d r := by
  rcases Bool.eq_false_or_eq_true r.loaded with h | h <;> simp [settle, reset, h]

theorem selected_reset (m : Method α) (rs : List (Rule α)) :
    selected m (rs.map reset) = (selected m rs).map (fun p => (p.1, reset p.2)) := by
  have hf : ∀ (P : Visit α → Bool), (∀ p : Visit α, P (p.1, reset p.2) = P p) → ∀ l : List (Visit α),
      (l.map (fun p => (p.1, reset p.2))).filter P = (l.filter P).map (fun p => (p.1, reset p.2)) := by
    intro P hP l
    rw [List.filter_map]
    congr 1
    apply List.filter_congr
    intro p _; exact hP p
  cases m with
  | general => simp only [selected, enum_map]; exact hf _ (fun _ => rfl) _
  | first n t => simp only [selected, enum_map]; rw [hf _ (fun _ => rfl), List.map_take]
  | last n t => simp only [selected, enum_map]; rw [← List.map_reverse, hf _ (fun _ => rfl), List.map_take]
  | highest n =>
    simp only [selected, enum_map]
    rw [hf _ (fun _ => rfl), sortBy_map betterHigh betterHigh (fun p : Visit α => (p.1, reset p.2)) (fun _ _ => rfl), List.map_take]
  | lowest n =>
    simp only [selected, enum_map]
    rw [hf _ (fun _ => rfl), sortBy_map betterLow betterLow (fun p : Visit α => (p.1, reset p.2)) (fun _ _ => rfl), List.map_take]
  | proportional => simp only [selected, enum_map]; exact hf _ (fun _ => rfl) _
  | threshold c t => simp only [selected, enum_map]; exact hf _ (fun _ => rfl) _

theorem stored_reset (m : Method α) (rs : List (Rule α)) (r : Rule α) :
    stored m (rs.map reset) (reset r) = stored m rs r := by
  cases m with
  | proportional =>
    have := selected_reset (.proportional : Method α) rs
    simp only [selected] at this
    simp only [stored, this, degreeSum, List.foldl_map]
    rfl
  | _ => rfl

end C08
