import FlVerif.Spec.Activation

/-! Ordered insertion (`insertBy`, `sortBy`, repeated `heappush`) under a boolean "comes before" relation that is
    a strict total order on the elements of the list at hand (degrees that are not NaN, distinct indices). -/

namespace Spec.Activation
variable {β : Type}

/-- nobody stands before somebody that comes before them -/
def Sorted (lt : β → β → Bool) (l : List β) : Prop := l.Pairwise (fun a b => lt b a = false)

/-- `lt` is a strict total order on the members of `l` -/
structure StrictOn (lt : β → β → Bool) (l : List β) : Prop where
  trans : ∀ a ∈ l, ∀ b ∈ l, ∀ c ∈ l, lt a b = true → lt b c = true → lt a c = true
  asymm : ∀ a ∈ l, ∀ b ∈ l, lt a b = true → lt b a = false
  total : ∀ a ∈ l, ∀ b ∈ l, a ≠ b → lt a b = true ∨ lt b a = true

theorem StrictOn.subset {lt : β → β → Bool} {l l' : List β} (h : StrictOn lt l) (hs : ∀ x ∈ l', x ∈ l) : StrictOn lt l' :=
  ⟨fun a ha b hb c hc => h.trans a (hs a ha) b (hs b hb) c (hs c hc),
   fun a ha b hb => h.asymm a (hs a ha) b (hs b hb),
   fun a ha b hb => h.total a (hs a ha) b (hs b hb)⟩

theorem insertBy_perm (lt : β → β → Bool) (x : β) (l : List β) : (insertBy lt x l).Perm (x :: l) := by
  induction l with
  | nil => exact List.Perm.refl _
  | cons y ys ih =>
    simp only [insertBy]
    split
    · exact List.Perm.refl _
    · exact ((List.Perm.cons y ih).trans (List.Perm.swap x y ys))

theorem sortBy_perm (lt : β → β → Bool) (l : List β) : (sortBy lt l).Perm l := by
  induction l with
  | nil => exact List.Perm.refl _
  | cons x xs ih => exact (insertBy_perm lt x _).trans (List.Perm.cons x ih)

/-- repeated push, as the loops of Highest / Lowest do it -/
def pushAll (lt : β → β → Bool) (l : List β) (h : List β) : List β := l.foldl (fun h x => insertBy lt x h) h

theorem pushAll_perm (lt : β → β → Bool) (l h : List β) : (pushAll lt l h).Perm (l ++ h) := by
  induction l generalizing h with
  | nil => exact List.Perm.refl _
  | cons x xs ih =>
    simp only [pushAll, List.foldl_cons]
    refine (ih (insertBy lt x h)).trans ?_
    refine (List.Perm.append_left xs (insertBy_perm lt x h)).trans ?_
    simpa using (List.perm_middle (a := x) (l₁ := xs) (l₂ := h))

theorem insertBy_sorted {lt : β → β → Bool} {x : β} {l : List β} (h : StrictOn lt (x :: l)) (hs : Sorted lt l) :
    Sorted lt (insertBy lt x l) := by
  induction l with
  | nil => simp [insertBy, Sorted]
  | cons y ys ih =>
    have hx : x ∈ x :: y :: ys := by simp
    have hy : y ∈ x :: y :: ys := by simp
    simp only [insertBy]
    rcases List.pairwise_cons.1 hs with ⟨hy1, hys⟩
    split
    · rename_i hlt
      refine List.pairwise_cons.2 ⟨?_, hs⟩
      intro z hz
      rcases List.mem_cons.1 hz with rfl | hz
      · exact h.asymm x hx z hy hlt
      · have hzm : z ∈ x :: y :: ys := by simp [hz]
        cases hzx : lt z x
        · rfl
        · have := h.trans z hzm x hx y hy hzx hlt
          rw [hy1 z hz] at this; exact absurd this (by simp)
    · rename_i hnlt
      have hsub : StrictOn lt (x :: ys) := h.subset (by intro a ha; rcases List.mem_cons.1 ha with rfl | ha <;> simp [*])
      refine List.pairwise_cons.2 ⟨?_, ih hsub hys⟩
      intro z hz
      have hz' := (insertBy_perm lt x ys).subset hz
      rcases List.mem_cons.1 hz' with rfl | hz'
      · simpa using hnlt
      · exact hy1 z hz'

theorem sortBy_sorted {lt : β → β → Bool} {l : List β} (h : StrictOn lt l) : Sorted lt (sortBy lt l) := by
  induction l with
  | nil => simp [sortBy, Sorted]
  | cons x xs ih =>
    have hxs : StrictOn lt xs := h.subset (by intro a ha; simp [ha])
    have hp := sortBy_perm lt xs
    refine insertBy_sorted (h.subset ?_) (ih hxs)
    intro a ha
    rcases List.mem_cons.1 ha with rfl | ha
    · simp
    · exact List.mem_cons_of_mem _ (hp.subset ha)

theorem pushAll_sorted {lt : β → β → Bool} {l h : List β} (hst : StrictOn lt (l ++ h)) (hs : Sorted lt h) :
    Sorted lt (pushAll lt l h) := by
  induction l generalizing h with
  | nil => exact hs
  | cons x xs ih =>
    simp only [pushAll, List.foldl_cons]
    have hp := insertBy_perm lt x h
    refine ih (hst.subset ?_) (insertBy_sorted (hst.subset ?_) hs)
    · intro a ha
      rcases List.mem_append.1 ha with ha | ha
      · simp [ha]
      · rcases List.mem_cons.1 (hp.subset ha) with rfl | ha <;> simp [*]
    · intro a ha
      rcases List.mem_cons.1 ha with rfl | ha <;> simp [*]

/-- a strictly ordered arrangement of given elements is unique -/
theorem sorted_perm_eq {lt : β → β → Bool} {l₁ l₂ : List β} (hst : StrictOn lt l₁) (hp : l₁.Perm l₂)
    (h₁ : Sorted lt l₁) (h₂ : Sorted lt l₂) : l₁ = l₂ := by
  induction l₁ generalizing l₂ with
  | nil => exact (List.Perm.nil_eq hp)
  | cons a t₁ ih =>
    cases l₂ with
    | nil => exact absurd hp.eq_nil (List.cons_ne_nil _ _)
    | cons b t₂ =>
      rcases List.pairwise_cons.1 h₁ with ⟨ha, ht₁⟩
      rcases List.pairwise_cons.1 h₂ with ⟨hb, ht₂⟩
      have hab : a = b := by
        by_contra hne
        have hbm : b ∈ a :: t₁ := hp.symm.subset (by simp)
        have ham : a ∈ b :: t₂ := hp.subset (by simp)
        have hb1 : b ∈ t₁ := by
          rcases List.mem_cons.1 hbm with h | h
          · exact absurd h.symm hne
          · exact h
        have ha2 : a ∈ t₂ := by
          rcases List.mem_cons.1 ham with h | h
          · exact absurd h hne
          · exact h
        rcases hst.total a (by simp) b hbm hne with h | h
        · rw [hb a ha2] at h; exact absurd h (by simp)
        · rw [ha b hb1] at h; exact absurd h (by simp)
      subst hab
      have hpt : t₁.Perm t₂ := (List.perm_cons a).1 hp
      rw [ih (hst.subset (by intro x hx; simp [hx])) hpt ht₁ ht₂]

/-- pushing one by one and the stable insertion sort arrange the elements identically -/
theorem pushAll_eq_sortBy {lt : β → β → Bool} {l : List β} (hst : StrictOn lt l) : pushAll lt l [] = sortBy lt l := by
  have hp : (pushAll lt l []).Perm (sortBy lt l) := by
    have := pushAll_perm lt l []
    simp only [List.append_nil] at this
    exact this.trans (sortBy_perm lt l).symm
  have hst' : StrictOn lt (pushAll lt l []) := hst.subset (by
    intro x hx
    have := (pushAll_perm lt l []).subset hx
    simpa using this)
  exact sorted_perm_eq hst' hp (pushAll_sorted (by simpa using hst) (by simp [Sorted])) (sortBy_sorted hst)

/-- ordered insertion commutes with a map that preserves the relation -/
theorem insertBy_map {γ : Type} (lt : β → β → Bool) (lt' : γ → γ → Bool) (f : β → γ)
    (hf : ∀ a b, lt' (f a) (f b) = lt a b) (x : β) (l : List β) :
    insertBy lt' (f x) (l.map f) = (insertBy lt x l).map f := by
  induction l with
  | nil => rfl
  | cons y ys ih =>
    simp only [List.map_cons, insertBy, hf]
    split
    · rfl
    · simp [ih]

theorem sortBy_map {γ : Type} (lt : β → β → Bool) (lt' : γ → γ → Bool) (f : β → γ)
    (hf : ∀ a b, lt' (f a) (f b) = lt a b) (l : List β) : sortBy lt' (l.map f) = (sortBy lt l).map f := by
  induction l with
  | nil => rfl
  | cons x xs ih =>
    simp only [List.map_cons, sortBy, List.foldr_cons] at ih ⊢
    rw [ih, insertBy_map lt lt' f hf]

theorem StrictOn.map {γ : Type} {lt : β → β → Bool} {lt' : γ → γ → Bool} {f : β → γ} {l : List β}
    (hf : ∀ a b, lt' (f a) (f b) = lt a b) (h : StrictOn lt l) : StrictOn lt' (l.map f) := by
  refine ⟨?_, ?_, ?_⟩
  · intro a ha b hb c hc
    obtain ⟨a', ha', rfl⟩ := List.mem_map.1 ha
    obtain ⟨b', hb', rfl⟩ := List.mem_map.1 hb
    obtain ⟨c', hc', rfl⟩ := List.mem_map.1 hc
    simp only [hf]; exact h.trans a' ha' b' hb' c' hc'
  · intro a ha b hb
    obtain ⟨a', ha', rfl⟩ := List.mem_map.1 ha
    obtain ⟨b', hb', rfl⟩ := List.mem_map.1 hb
    simp only [hf]; exact h.asymm a' ha' b' hb'
  · intro a ha b hb hne
    obtain ⟨a', ha', rfl⟩ := List.mem_map.1 ha
    obtain ⟨b', hb', rfl⟩ := List.mem_map.1 hb
    simp only [hf]; exact h.total a' ha' b' hb' (fun e => hne (by rw [e]))

/-- in a sorted arrangement of a strictly ordered list, every element of a prefix comes before every element of
    the rest -/
theorem sorted_take_drop {lt : β → β → Bool} {l : List β} (hst : StrictOn lt l) (hs : Sorted lt l) (hnd : l.Nodup) (n : Nat) :
    ∀ a ∈ l.take n, ∀ b ∈ l.drop n, lt a b = true := by
  intro a ha b hb
  have hsplit := List.take_append_drop n l
  have hs' : Sorted lt (l.take n ++ l.drop n) := by rw [hsplit]; exact hs
  have hnd' : (l.take n ++ l.drop n).Nodup := by rw [hsplit]; exact hnd
  have hba : lt b a = false := (List.pairwise_append.1 hs').2.2 a ha b hb
  have hne : a ≠ b := by
    intro e; subst e
    exact (List.nodup_append.1 hnd').2.2 a ha a hb rfl
  rcases hst.total a (List.mem_of_mem_take ha) b (List.mem_of_mem_drop hb) hne with h | h
  · exact h
  · rw [hba] at h; exact absurd h (by simp)

end Spec.Activation
