import FlVerif.Lemmas.FllLayers

/-! Round trip of the remaining layers (operators, defuzzifiers, activation methods, rules, variables, rule
blocks) and of the block-splitting loop of `FllImporter.engine`. -/

namespace Op.FllIO
open Dec Spec.Fll

/-! ### operators, defuzzifiers, activation methods -/

theorem none_not_tnorm : "none" ∉ Gen.Tables.tnormKeys := by decide
theorem none_not_snorm : "none" ∉ Gen.Tables.snormKeys := by decide
theorem defuzzKind_none : defuzzKind "none" = none := by decide
theorem activKind_none : activKind "none" = none := by decide

theorem norm_roundtrip (keys : List String) (hn : "none" ∉ keys) (o : Option String) (h : NormOK keys o) :
    normOf keys [normTok o] = .ok o := by
  cases o with
  | none => simp [normTok, normOf]
  | some s =>
    have hs : s ∈ keys := h s rfl
    have hne : s ≠ "none" := fun e => hn (e ▸ hs)
    simp [normTok, normOf, hs, hne]

theorem defuzz_roundtrip (d : Option Defuzz) (h : DefuzzOK d) : importDefuzz (defuzzToks d) = .ok d := by
  cases d with
  | none => simp [defuzzToks, importDefuzz]
  | some d =>
    cases d with
    | integral cls r =>
      have hk : defuzzKind cls = some .integral := h
      have hne : cls ≠ "none" := fun e => by rw [e, defuzzKind_none] at hk; cases hk
      by_cases hr : r = (Gen.ExportTables.defaultResolution : Int)
      · simp [defuzzToks, importDefuzz, defuzzParams, hk, hne, hr]
      · simp [defuzzToks, importDefuzz, defuzzParams, hk, hne, hr]
    | weighted cls ty =>
      obtain ⟨hk, hty⟩ : defuzzKind cls = some .weighted ∧ ty ∈ Gen.ExportTables.defuzzifierTypes := h
      have hne : cls ≠ "none" := fun e => by rw [e, defuzzKind_none] at hk; cases hk
      by_cases ha : ty = "Automatic"
      · simp [defuzzToks, importDefuzz, defuzzParams, hk, hne, ha]
      · simp [defuzzToks, importDefuzz, defuzzParams, hk, hne, ha, hty]

theorem activ_roundtrip (c : Cfg) (a : Option Activ) (h : ActivOK a) :
    importActiv (activToks c a) = .ok (a.map (canonActiv c)) := by
  cases a with
  | none => simp [activToks, importActiv]
  | some a =>
    cases a with
    | plain cls =>
      have hk : activKind cls = some .plain := h
      have hne : cls ≠ "none" := fun e => by rw [e, activKind_none] at hk; cases hk
      simp [activToks, importActiv, activParams, hk, hne, canonActiv]
    | nth cls r t =>
      have hk : activKind cls = some .nth := h
      have hne : cls ≠ "none" := fun e => by rw [e, activKind_none] at hk; cases hk
      simp [activToks, importActiv, activParams, hk, hne, canonActiv, numTok]
    | best cls r =>
      have hk : activKind cls = some .best := h
      have hne : cls ≠ "none" := fun e => by rw [e, activKind_none] at hk; cases hk
      simp [activToks, importActiv, activParams, hk, hne, canonActiv]
    | threshold cls cmp t =>
      obtain ⟨hk, hc⟩ : activKind cls = some .threshold ∧ cmp ∈ comparatorSymbols := h
      have hne : cls ≠ "none" := fun e => by rw [e, activKind_none] at hk; cases hk
      simp [activToks, importActiv, activParams, hk, hne, canonActiv, numTok, hc]

/-! ### rules -/

theorem ruleLoop_if (as : List String) (h : "then" ∉ as) (rest : List Tok) (a q : List String) (w : Num) :
    ruleLoop (as.map .w ++ rest) .sIf a q w = ruleLoop rest .sIf (a ++ as) q w := by
  induction as generalizing a with
  | nil => simp
  | cons x xs ih =>
    have hx : x ≠ "then" := fun e => h (by simp [e])
    have hxs : "then" ∉ xs := fun e => h (by simp [e])
    simp only [List.map_cons, List.cons_append, ruleLoop, hx, if_false]
    rw [ih hxs]; simp

theorem ruleLoop_then (qs : List String) (h : "with" ∉ qs) (rest : List Tok) (a q : List String) (w : Num) :
    ruleLoop (qs.map .w ++ rest) .sThen a q w = ruleLoop rest .sThen a (q ++ qs) w := by
  induction qs generalizing q with
  | nil => simp
  | cons x xs ih =>
    have hx : x ≠ "with" := fun e => h (by simp [e])
    have hxs : "with" ∉ xs := fun e => h (by simp [e])
    simp only [List.map_cons, List.cons_append, ruleLoop, hx, if_false]
    rw [ih hxs]; simp

theorem rule_roundtrip (keep : Num → Bool) (c : Cfg) (r : Rule) (h : RuleOK r) :
    importRule (ruleToks keep c r) = .ok (canonRule keep c r) := by
  obtain ⟨ha, hat, hq, hqw⟩ := h
  unfold importRule ruleToks
  have e1 : ruleLoop (.w "if" :: (r.antecedent.map .w ++ .w "then" :: (r.consequent.map .w ++
      (if keep r.weight then [.w "with", numTok c r.weight] else [])))) .sBegin [] [] one
      = ruleLoop (if keep r.weight then [.w "with", numTok c r.weight] else []) .sThen r.antecedent r.consequent one := by
    simp only [ruleLoop, if_true]
    rw [ruleLoop_if _ hat]
    simp only [ruleLoop, if_true, List.nil_append]
    rw [ruleLoop_then _ hqw]
    simp
  have e0 : (.w "if" :: List.map Tok.w r.antecedent ++ .w "then" :: List.map Tok.w r.consequent ++
      (if keep r.weight = true then [Tok.w "with", numTok c r.weight] else []))
      = (.w "if" :: (r.antecedent.map .w ++ .w "then" :: (r.consequent.map .w ++
      (if keep r.weight then [.w "with", numTok c r.weight] else [])))) := by simp
  rw [e0, e1]
  by_cases hk : keep r.weight = true
  · simp [hk, ruleLoop, numTok, ha, hq, canonRule, canonH]
  · simp [hk, ruleLoop, ha, hq, canonRule, canonH]

/-! ### variables -/

section keepsec
variable (keep : Num → Bool) (c : Cfg)

theorem foldl_terms (hdr : Key) (hh : hdr ≠ .term) (ts : List Term) (hts : ∀ t ∈ ts, TermOK t) (v : Var) :
    (ts.map (termLine keep c)).foldlM (importVarLine hdr) v
      = .ok { v with terms := v.terms ++ ts.map (canonTerm keep c) } := by
  induction ts generalizing v with
  | nil => simp
  | cons t ts ih =>
    have ht := term_roundtrip keep c t (hts t (by simp))
    have hne : ¬ (Key.term = hdr) := fun e => hh e.symm
    have hkey : (termLine keep c t).key = .term := rfl
    simp only [List.map_cons, List.foldlM_cons, importVarLine, hkey, hne, if_false, ht, except_map_ok,
      except_bind_ok]
    rw [ih (fun t' h' => hts t' (by simp [h']))]
    simp

theorem varHead_fold (hdr : Key) (hh1 : hdr ≠ .description) (hh2 : hdr ≠ .enabled) (hh3 : hdr ≠ .range)
    (hh4 : hdr ≠ .lockRange) (v v0 : Var) :
    (varHead c hdr v).foldlM (importVarLine hdr) v0
      = .ok { v0 with name := v.name,
                      description := if v.description = "" then v0.description else v.description,
                      enabled := v.enabled, lo := rnd c.d v.lo, hi := rnd c.d v.hi, lockRange := v.lockRange } := by
  unfold varHead
  by_cases hd : v.description = ""
  · simp [hd, importVarLine, textOf_textToks, boolOf_boolTok, rangeOf, numTok, hh2.symm, hh3.symm, hh4.symm]
  · simp [hd, importVarLine, textOf_textToks, textOf_w, boolOf_boolTok, rangeOf, numTok, hh1.symm, hh2.symm, hh3.symm,
      hh4.symm]

theorem varHead_keys (hdr : Key) (v : Var) :
    ∀ l ∈ varHead c hdr v, l.key ∈ [hdr, .description, .enabled, .range, .lockRange] := by
  intro l hl
  unfold varHead at hl
  by_cases hd : v.description = ""
  · simp [hd] at hl
    rcases hl with rfl | rfl | rfl | rfl <;> simp
  · simp [hd] at hl
    rcases hl with rfl | rfl | rfl | rfl | rfl <;> simp

theorem input_roundtrip (v : Var) (h : VarOK v) :
    importInput (inputLines keep c v) = .ok (canonVar keep c v) := by
  unfold importInput inputLines
  rw [List.foldlM_append, varHead_fold c .inputVariable (by decide) (by decide) (by decide) (by decide)]
  simp only [except_bind_ok]
  rw [foldl_terms keep c .inputVariable (by decide) v.terms h]
  by_cases hd : v.description = "" <;> simp [hd, finishVar, canonVar]

theorem outLine_base (o : OutVar) (l : Line) (h1 : l.key ≠ .default) (h2 : l.key ≠ .lockPrevious)
    (h3 : l.key ≠ .defuzzifier) (h4 : l.key ≠ .aggregation) :
    importOutLine o l = (importVarLine .outputVariable o.base l).map (fun b => { o with base := b }) := by
  unfold importOutLine
  split <;> simp_all

theorem out_fold_base (ls : List Line)
    (hls : ∀ l ∈ ls, l.key ≠ .default ∧ l.key ≠ .lockPrevious ∧ l.key ≠ .defuzzifier ∧ l.key ≠ .aggregation)
    (o : OutVar) (b : Var) (hb : ls.foldlM (importVarLine .outputVariable) o.base = .ok b) :
    ls.foldlM importOutLine o = .ok { o with base := b } := by
  induction ls generalizing o with
  | nil => simp at hb; simp [← hb]
  | cons l ls ih =>
    obtain ⟨h1, h2, h3, h4⟩ := hls l (by simp)
    simp only [List.foldlM_cons] at hb ⊢
    rw [outLine_base o l h1 h2 h3 h4]
    cases hl : importVarLine .outputVariable o.base l with
    | error e => rw [hl] at hb; simp at hb
    | ok b1 =>
      rw [hl] at hb
      simp only [except_map_ok, except_bind_ok] at hb ⊢
      have := ih (fun l' h' => hls l' (by simp [h'])) { o with base := b1 } hb
      simpa using this

theorem output_roundtrip (o : OutVar) (h : OutOK o) :
    importOutput (outputLines keep c o) = .ok (canonOut keep c o) := by
  obtain ⟨hv, hagg, hdf⟩ := h
  unfold importOutput outputLines
  rw [List.foldlM_append, List.foldlM_append]
  have hhead := varHead_fold c .outputVariable (by decide) (by decide) (by decide) (by decide) o.base ({} : Var)
  have h1 := out_fold_base (varHead c .outputVariable o.base) (by
      intro l hl
      have := varHead_keys c .outputVariable o.base l hl
      simp only [List.mem_cons, List.mem_nil_iff, or_false] at this
      rcases this with h | h | h | h | h <;> simp [h]) ({} : OutVar) _ hhead
  rw [h1]
  simp only [except_bind_ok, List.foldlM_cons, List.foldlM_nil, importOutLine,
    norm_roundtrip _ none_not_snorm _ hagg, defuzz_roundtrip _ hdf, numOf, numTok, boolOf_boolTok, except_map_ok,
    except_pure]
  have h2 := out_fold_base (o.base.terms.map (termLine keep c)) (by
      intro l hl
      obtain ⟨t, _, rfl⟩ := List.mem_map.1 hl
      simp [termLine])
  rw [h2 _ _ (foldl_terms keep c .outputVariable (by decide) o.base.terms hv _)]
  by_cases hd : o.base.description = "" <;> simp [hd, finishVar, canonOut, canonVar]

/-! ### rule blocks -/

theorem foldl_rules (rs : List Rule) (hrs : ∀ r ∈ rs, RuleOK r) (b : Block) :
    (rs.map (ruleLine keep c)).foldlM importBlockLine b
      = .ok { b with rules := b.rules ++ rs.map (canonRule keep c) } := by
  induction rs generalizing b with
  | nil => simp
  | cons r rs ih =>
    have hr := rule_roundtrip keep c r (hrs r (by simp))
    simp only [List.map_cons, List.foldlM_cons, importBlockLine, ruleLine, hr, except_map_ok, except_bind_ok]
    rw [ih (fun r' h' => hrs r' (by simp [h']))]
    simp

theorem block_roundtrip (b : Block) (h : BlockOK b) :
    importBlock (blockLines keep c b) = .ok (canonBlock keep c b) := by
  obtain ⟨hc, hd, hi, ha, hr⟩ := h
  unfold importBlock blockLines
  simp only [List.cons_append, List.foldlM_cons, List.foldlM_append]
  by_cases hdesc : b.description = ""
  · simp only [hdesc, if_true, List.foldlM_nil, importBlockLine, textOf_textToks, except_map_ok, except_bind_ok,
      boolOf_boolTok, norm_roundtrip _ none_not_tnorm _ hc, norm_roundtrip _ none_not_snorm _ hd,
      norm_roundtrip _ none_not_tnorm _ hi, activ_roundtrip c _ ha, except_pure]
    rw [foldl_rules keep c b.rules hr]
    simp [canonBlock, hdesc]
  · simp only [hdesc, if_false, List.foldlM_nil, importBlockLine, textOf_textToks, textOf_w, except_map_ok, except_bind_ok,
      List.foldlM_cons, boolOf_boolTok, norm_roundtrip _ none_not_tnorm _ hc, norm_roundtrip _ none_not_snorm _ hd,
      norm_roundtrip _ none_not_tnorm _ hi, activ_roundtrip c _ ha, except_pure]
    rw [foldl_rules keep c b.rules hr]
    simp [canonBlock]

end keepsec

end Op.FllIO
