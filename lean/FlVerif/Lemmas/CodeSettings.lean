import FlVerif.Gen.CodeSettings

/-! # Tie A for `Settings.context`: the statements before the `yield` and the `finally` block as translated from the
current source equal `Op.Settings.contextSettings` / `setAll` / `restore` -/

namespace Op.Settings
open Gen.Code

/-- a store of the model as the attribute map of the translated code (no attribute is `None`) -/
def lift (s : Store) : Nat → Option Nat := fun k => some (s k)

/-- the named settings as the dictionary of the translated code -/
def liftKV (kvs : List (Key × Val)) : List (Nat × Option Nat) := kvs.map (fun kv => (kv.1, some kv.2))

theorem setattr_lift (s : Store) (k : Key) (v : Val) :
    Py.Settings.setattr (lift s) k (some v) = lift (upd s k v) := by
  funext k'
  simp only [Py.Settings.setattr, lift, upd]
  split <;> rfl

/-- the dictionary comprehension keeps the arguments that are not `None` -/
theorem code_contextSettings : ∀ (kwargs : List (Key × Option Val)),
    List.map (fun (p : Nat × Option Nat) => (p.1, p.2))
      (List.filter (fun (p : Nat × Option Nat) => (!(false || (p.2).isNone))) kwargs)
      = liftKV (contextSettings kwargs)
  | [] => rfl
  | (k, none) :: rest => by
    have ih := code_contextSettings rest
    simp only [liftKV, contextSettings] at ih ⊢
    simpa using ih
  | (k, some v) :: rest => by
    have ih := code_contextSettings rest
    simp only [liftKV, contextSettings] at ih ⊢
    simpa using ih

/-- the loop before the `yield` is `setAll` -/
theorem code_setAll (kwargs : List (Nat × Option Nat)) (store0 : Nat → Option Nat) :
    ∀ (kvs : List (Key × Val)) (s : Store) (σ : Settings_context_enter.S), σ.store = lift s →
    ∃ σ', Settings_context_enter.loop1 kwargs store0 (liftKV kvs) σ = .ok σ' ∧ σ'.store = lift (setAll s kvs) ∧
      σ'.rollback_settings = σ.rollback_settings ∧ σ'.context_settings = σ.context_settings
  | [], s, σ, h => ⟨σ, rfl, h, rfl, rfl⟩
  | (k, v) :: kvs, s, σ, h => by
    simp only [liftKV, List.map_cons, Settings_context_enter.loop1, h, setattr_lift, setAll]
    exact code_setAll kwargs store0 kvs (upd s k v) { σ with key := k, value := some v, store := lift (upd s k v) } rfl

/-- the loop of the `finally` block is `restore` -/
theorem code_restore (snap : Store) :
    ∀ (kvs : List (Key × Val)) (s : Store) (σ : Settings_context_exit.S), σ.store = lift s →
      σ.rollback_settings = lift snap →
    ∃ σ', Settings_context_exit.loop1 (liftKV kvs) σ = .ok σ' ∧ σ'.store = lift (restore s snap kvs)
  | [], s, σ, h, _ => ⟨σ, rfl, h⟩
  | (k, v) :: kvs, s, σ, h, hr => by
    have hs : σ.rollback_settings k = some (snap k) := by rw [hr]; rfl
    simp only [liftKV, List.map_cons, Settings_context_exit.loop1, h, hs, setattr_lift, restore]
    exact code_restore snap kvs (upd s k (snap k))
      { σ with key := k, value := some v, store := lift (upd s k (snap k)) } rfl hr

/-- **`Settings.context` as translated from the source = the model**: entering the context from the store `s`
    leaves `setAll s (contextSettings kwargs)`; when the body of the `with` block ends (normally or not) with the
    store `s'`, the `finally` block leaves `restore s' s (contextSettings kwargs)` -/
theorem code_context (kwargs : List (Key × Option Val)) (s s' : Store) :
    ∃ σ, Settings_context_enter.run kwargs (lift s) {} = .ok σ ∧
      σ.store = lift (setAll s (contextSettings kwargs)) ∧
      ∃ τ, Settings_context_exit.run
          { context_settings := σ.context_settings, rollback_settings := σ.rollback_settings,
            key := σ.key, value := σ.value, store := lift s' } = .ok τ ∧
        τ.store = lift (restore s' s (contextSettings kwargs)) := by
  unfold Settings_context_enter.run
  simp only [code_contextSettings]
  obtain ⟨σ, h1, h2, h3, h4⟩ := code_setAll kwargs (lift s) (contextSettings kwargs) s
    { context_settings := liftKV (contextSettings kwargs), rollback_settings := lift s, store := lift s } rfl
  simp only [h1, bind, Except.bind]
  refine ⟨σ, rfl, h2, ?_⟩
  unfold Settings_context_exit.run
  obtain ⟨τ, g1, g2⟩ := code_restore s (contextSettings kwargs) s'
    { context_settings := σ.context_settings, rollback_settings := σ.rollback_settings,
      key := σ.key, value := σ.value, store := lift s' } rfl h3
  simp only [h4] at g1 ⊢
  simp only [g1, bind, Except.bind]
  exact ⟨τ, rfl, g2⟩

end Op.Settings
