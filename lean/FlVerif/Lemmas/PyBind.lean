import FlVerif.Op.PyRepr

/-! `construction_arguments` against Python's call binding: emitted argument lists have the shape
`positional* keyword*`; binding them against the signature gives, for every stored parameter, the field if it
was emitted and the constructor default otherwise. -/

namespace Op.PyRepr

variable {β γ : Type}

def Distinct : List Param → Prop
  | [] => True
  | p :: ps => (∀ q ∈ ps, q.name ≠ p.name) ∧ Distinct ps

theorem distinct_of_nodup : ∀ (ps : List Param), (ps.map (·.name)).Nodup → Distinct ps
  | [], _ => trivial
  | p :: ps, h => by
    simp only [List.map_cons, List.nodup_cons, List.mem_map, not_exists, not_and] at h
    exact ⟨fun q hq e => h.1 q hq e, distinct_of_nodup ps h.2⟩

/-- an argument that is a keyword for one of the parameters `ps` -/
def KwOf (ps : List Param) (a : Option String × β) : Prop := ∃ n, a.1 = some n ∧ ∃ p ∈ ps, p.name = n

theorem emit_false_kw (fields : String → Option β) (ps : List Param) (as : List (Option String × β))
    (h : emit fields false ps = some as) : ∀ a ∈ as, KwOf ps a := by
  induction ps generalizing as with
  | nil => simp [emit] at h; subst h; simp
  | cons p ps ih =>
    simp only [emit] at h
    cases hf : fields p.name with
    | some v =>
      simp only [hf, Option.map_eq_some_iff] at h
      obtain ⟨as', has', rfl⟩ := h
      intro a ha
      rcases List.mem_cons.1 ha with rfl | ha
      · exact ⟨p.name, by simp, p, by simp, rfl⟩
      · obtain ⟨n, e, q, hq, hn⟩ := ih as' has' a ha
        exact ⟨n, e, q, by simp [hq], hn⟩
    | none =>
      simp only [hf] at h
      by_cases hd : p.hasDefault = true
      · simp only [hd, if_true] at h
        intro a ha
        obtain ⟨n, e, q, hq, hn⟩ := ih as h a ha
        exact ⟨n, e, q, by simp [hq], hn⟩
      · simp [hd] at h

theorem lookupKw_append (n : String) (pre as : List (Option String × β))
    (h : ∀ a ∈ pre, ∃ m, a.1 = some m ∧ m ≠ n) : lookupKw n (pre ++ as) = lookupKw n as := by
  induction pre with
  | nil => rfl
  | cons a pre ih =>
    obtain ⟨m, hm1, hm⟩ := h a (by simp)
    obtain ⟨k, v⟩ := a
    simp only at hm1
    subst hm1
    simp [lookupKw, hm, ih (fun b hb => h b (by simp [hb]))]

theorem lookupKw_none (n : String) (as : List (Option String × β)) (h : ∀ a ∈ as, ∃ m, a.1 = some m ∧ m ≠ n) :
    lookupKw n as = none := by
  have := lookupKw_append n as [] h
  simpa [lookupKw] using this

theorem bindKw_emit_false (fields : String → Option β) (dflt : Param → Option β) (ps : List Param) (hd : Distinct ps)
    (as pre : List (Option String × β)) (h : emit fields false ps = some as)
    (hpre : ∀ a ∈ pre, ∃ m, a.1 = some m ∧ ∀ p ∈ ps, p.name ≠ m) :
    bindKw dflt (pre ++ as) ps = expected fields dflt ps := by
  induction ps generalizing as pre with
  | nil => rfl
  | cons p ps ih =>
    obtain ⟨hne, hd'⟩ := hd
    have hpre_p : ∀ a ∈ pre, ∃ m, a.1 = some m ∧ m ≠ p.name := by
      intro a ha; obtain ⟨m, e, hm⟩ := hpre a ha
      exact ⟨m, e, fun e' => hm p (by simp) e'.symm⟩
    simp only [emit] at h
    cases hf : fields p.name with
    | some v =>
      simp only [hf, Option.map_eq_some_iff, Bool.false_eq_true, if_false] at h
      obtain ⟨as', has', rfl⟩ := h
      have hl : lookupKw p.name (pre ++ (some p.name, v) :: as') = some v := by
        rw [lookupKw_append _ _ _ hpre_p]; simp [lookupKw]
      have ih' := ih hd' as' (pre ++ [(some p.name, v)]) has' (by
        intro a ha
        rcases List.mem_append.1 ha with ha | ha
        · obtain ⟨m, e, hm⟩ := hpre a ha
          exact ⟨m, e, fun q hq => hm q (by simp [hq])⟩
        · simp at ha; exact ⟨p.name, by simp [ha], fun q hq => hne q hq⟩)
      simp only [List.append_assoc, List.singleton_append] at ih'
      simp only [bindKw, expected, hl, hf, ih']
    | none =>
      simp only [hf] at h
      by_cases hdf : p.hasDefault = true
      · simp only [hdf, if_true] at h
        have hkw := emit_false_kw fields ps as h
        have hl : lookupKw p.name (pre ++ as) = none := by
          rw [lookupKw_append _ _ _ hpre_p]
          apply lookupKw_none
          intro a ha
          obtain ⟨n, e, q, hq, hn⟩ := hkw a ha
          exact ⟨n, e, fun e' => hne q hq (hn.trans e')⟩
        have ih' := ih hd' as pre h (fun a ha => by
          obtain ⟨m, e, hm⟩ := hpre a ha
          exact ⟨m, e, fun q hq => hm q (by simp [hq])⟩)
        simp only [bindKw, expected, hl, hf, hdf, ih']
      · simp [hdf] at h

theorem bind_kw_only (dflt : Param → Option β) (ps : List Param) (as : List (Option String × β))
    (h : ∀ a ∈ as, ∃ n, a.1 = some n) : bindArgs dflt ps as = bindKw dflt as ps := by
  cases as with
  | nil => cases ps <;> rfl
  | cons a as =>
    obtain ⟨n, hn⟩ := h a (by simp)
    obtain ⟨k, v⟩ := a
    simp only at hn
    subst hn
    cases ps <;> rfl

/-- binding the emitted arguments rebuilds exactly the expected fields -/
theorem bind_emit (fields : String → Option β) (dflt : Param → Option β) (ps : List Param) (hd : Distinct ps)
    (as : List (Option String × β)) (h : emit fields true ps = some as) :
    bindArgs dflt ps as = expected fields dflt ps := by
  induction ps generalizing as with
  | nil => simp [emit] at h; subst h; rfl
  | cons p ps ih =>
    obtain ⟨hne, hd'⟩ := hd
    simp only [emit] at h
    cases hf : fields p.name with
    | some v =>
      simp only [hf, Option.map_eq_some_iff, if_true] at h
      obtain ⟨as', has', rfl⟩ := h
      simp only [bindArgs, expected, hf, ih hd' as' has']
    | none =>
      simp only [hf] at h
      by_cases hdf : p.hasDefault = true
      · simp only [hdf, if_true] at h
        have hkw := emit_false_kw fields ps as h
        rw [bind_kw_only _ _ _ (fun a ha => by obtain ⟨n, e, _⟩ := hkw a ha; exact ⟨n, e⟩)]
        have hl : lookupKw p.name as = none := by
          apply lookupKw_none
          intro a ha
          obtain ⟨n, e, q, hq, hn⟩ := hkw a ha
          exact ⟨n, e, fun e' => hne q hq (hn.trans e')⟩
        have := bindKw_emit_false fields dflt ps hd' as [] h (by simp)
        simp only [List.nil_append] at this
        simp only [bindKw, expected, hl, hf, hdf, this]
      · simp [hdf] at h

/-- the same for a call that starts in keyword mode (`positional=False`, the default of `as_constructor`) -/
theorem bind_emit_kw (fields : String → Option β) (dflt : Param → Option β) (ps : List Param) (hd : Distinct ps)
    (as : List (Option String × β)) (h : emit fields false ps = some as) :
    bindArgs dflt ps as = expected fields dflt ps := by
  have hkw := emit_false_kw fields ps as h
  rw [bind_kw_only _ _ _ (fun a ha => by obtain ⟨n, e, _⟩ := hkw a ha; exact ⟨n, e⟩)]
  have := bindKw_emit_false fields dflt ps hd as [] h (by simp)
  simpa using this

theorem bind_emit_any (fields : String → Option β) (dflt : Param → Option β) (ps : List Param) (hd : Distinct ps)
    (b : Bool) (as : List (Option String × β)) (h : emit fields b ps = some as) :
    bindArgs dflt ps as = expected fields dflt ps := by
  cases b
  · exact bind_emit_kw fields dflt ps hd as h
  · exact bind_emit fields dflt ps hd as h

/-- `emit` fails exactly when a parameter without default is missing from the fields -/
theorem emit_none_iff (fields : String → Option β) (b : Bool) (ps : List Param) :
    emit fields b ps = none ↔ ∃ p ∈ ps, fields p.name = none ∧ p.hasDefault = false := by
  induction ps generalizing b with
  | nil => simp [emit]
  | cons p ps ih =>
    simp only [emit]
    cases hf : fields p.name with
    | some v => simp [ih, hf]
    | none =>
      by_cases hdf : p.hasDefault = true
      · simp [ih, hf, hdf]
      · simp [hf, hdf]

/-- the control flow of `emit` depends on which fields are present, not on their values -/
theorem emit_map (f : β → γ) (fields : String → Option β) (b : Bool) (ps : List Param) :
    emit (fun n => (fields n).map f) b ps = (emit fields b ps).map (List.map (fun a => (a.1, f a.2))) := by
  induction ps generalizing b with
  | nil => simp [emit]
  | cons p ps ih =>
    simp only [emit]
    cases hf : fields p.name with
    | some v =>
      simp only [Option.map_some, ih]
      cases emit fields b ps <;> simp
    | none =>
      simp only [Option.map_none]
      by_cases hdf : p.hasDefault = true
      · simp [hdf, ih]
      · simp [hdf]

theorem expected_map (f : β → γ) (fields : String → Option β) (dflt : Param → Option β) (ps : List Param) :
    expected (fun n => (fields n).map f) (fun p => (dflt p).map f) ps
      = (expected fields dflt ps).map (List.map (fun a => (a.1, f a.2))) := by
  induction ps with
  | nil => simp [expected]
  | cons p ps ih =>
    simp only [expected]
    cases hf : fields p.name with
    | some v =>
      simp only [Option.map_some, ih]
      cases expected fields dflt ps <;> simp
    | none =>
      simp only [Option.map_none]
      cases hd : dflt p with
      | some d =>
        simp only [Option.map_some, ih]
        cases expected fields dflt ps <;> simp
      | none =>
        simp only [Option.map_none]
        by_cases hdf : p.hasDefault = true
        · simp [hdf, ih]
        · simp [hdf]

/-- when `construction_arguments` succeeds every stored parameter gets a value -/
theorem expected_some_of_emit (fields : String → Option β) (dflt : Param → Option β) (b : Bool) (ps : List Param)
    (as : List (Option String × β)) (h : emit fields b ps = some as) : ∃ bound, expected fields dflt ps = some bound := by
  induction ps generalizing b as with
  | nil => exact ⟨[], rfl⟩
  | cons p ps ih =>
    simp only [emit] at h
    simp only [expected]
    cases hf : fields p.name with
    | some v =>
      simp only [hf, Option.map_eq_some_iff] at h
      obtain ⟨as', has', _⟩ := h
      obtain ⟨bound, hb⟩ := ih _ as' has'
      exact ⟨(p.name, v) :: bound, by simp [hb]⟩
    | none =>
      simp only [hf] at h
      by_cases hdf : p.hasDefault = true
      · simp only [hdf, if_true] at h
        obtain ⟨bound, hb⟩ := ih _ as h
        cases hd : dflt p with
        | some d => exact ⟨(p.name, d) :: bound, by simp [hb]⟩
        | none => exact ⟨bound, by simp [hdf, hb]⟩
      · simp [hdf] at h

/-- every emitted value is one of the looked-up fields -/
theorem emit_values (fields : String → Option β) (b : Bool) (ps : List Param) (as : List (Option String × β))
    (h : emit fields b ps = some as) : ∀ a ∈ as, ∃ n, fields n = some a.2 := by
  induction ps generalizing b as with
  | nil => simp [emit] at h; subst h; simp
  | cons p ps ih =>
    simp only [emit] at h
    cases hf : fields p.name with
    | some v =>
      simp only [hf, Option.map_eq_some_iff] at h
      obtain ⟨as', has', rfl⟩ := h
      intro a ha
      rcases List.mem_cons.1 ha with rfl | ha
      · exact ⟨p.name, hf⟩
      · exact ih _ as' has' a ha
    | none =>
      simp only [hf] at h
      by_cases hdf : p.hasDefault = true
      · simp only [hdf, if_true] at h; exact ih _ as h
      · simp [hdf] at h

/-! ### shape of the emitted argument list -/

/-- all arguments are keywords for distinct parameters among `ps` -/
def KwOnly (ps : List Param) (as : List (Option String × β)) : Prop :=
  (∀ a ∈ as, KwOf ps a) ∧ (as.map (·.1)).Nodup

/-- a valid Python call for the signature `ps`: positional arguments bind the leading parameters, then keywords
    for distinct remaining parameters -/
def ValidCall : List Param → List (Option String × β) → Prop
  | _ :: ps, (none, _) :: as => ValidCall ps as
  | ps, as => KwOnly ps as

theorem emit_false_kwOnly (fields : String → Option β) (ps : List Param) (hd : Distinct ps)
    (as : List (Option String × β)) (h : emit fields false ps = some as) : KwOnly ps as := by
  refine ⟨emit_false_kw fields ps as h, ?_⟩
  induction ps generalizing as with
  | nil => simp [emit] at h; subst h; simp
  | cons p ps ih =>
    obtain ⟨hne, hd'⟩ := hd
    simp only [emit] at h
    cases hf : fields p.name with
    | some v =>
      simp only [hf, Option.map_eq_some_iff, Bool.false_eq_true, if_false] at h
      obtain ⟨as', has', rfl⟩ := h
      simp only [List.map_cons, List.nodup_cons]
      refine ⟨?_, ih hd' as' has'⟩
      intro hmem
      obtain ⟨a, ha, e⟩ := List.mem_map.1 hmem
      obtain ⟨n, hn, q, hq, hqn⟩ := emit_false_kw fields ps as' has' a ha
      rw [hn] at e
      simp only [Option.some.injEq] at e
      exact hne q hq (hqn.trans e)
    | none =>
      simp only [hf] at h
      by_cases hdf : p.hasDefault = true
      · simp only [hdf, if_true] at h; exact ih hd' as h
      · simp [hdf] at h

theorem kwOnly_cons (p : Param) (ps : List Param) (as : List (Option String × β)) (h : KwOnly ps as) :
    KwOnly (p :: ps) as :=
  ⟨fun a ha => by obtain ⟨n, e, q, hq, hn⟩ := h.1 a ha; exact ⟨n, e, q, by simp [hq], hn⟩, h.2⟩

theorem validCall_of_kwOnly (ps : List Param) (as : List (Option String × β)) (h : KwOnly ps as) : ValidCall ps as := by
  cases ps with
  | nil => cases as <;> exact h
  | cons p ps =>
    cases as with
    | nil => exact h
    | cons a as =>
      obtain ⟨k, v⟩ := a
      cases k with
      | some n => exact h
      | none =>
        obtain ⟨n, hn, _⟩ := h.1 (none, v) (by simp)
        simp at hn

theorem emit_validCall (fields : String → Option β) (b : Bool) (ps : List Param) (hd : Distinct ps)
    (as : List (Option String × β)) (h : emit fields b ps = some as) : ValidCall ps as := by
  cases b with
  | false => exact validCall_of_kwOnly ps as (emit_false_kwOnly fields ps hd as h)
  | true =>
    induction ps generalizing as with
    | nil => simp [emit] at h; subst h; exact ⟨by simp, by simp⟩
    | cons p ps ih =>
      obtain ⟨hne, hd'⟩ := hd
      simp only [emit] at h
      cases hf : fields p.name with
      | some v =>
        simp only [hf, Option.map_eq_some_iff, if_true] at h
        obtain ⟨as', has', rfl⟩ := h
        exact ih hd' as' has'
      | none =>
        simp only [hf] at h
        by_cases hdf : p.hasDefault = true
        · simp only [hdf, if_true] at h
          exact validCall_of_kwOnly _ as (kwOnly_cons p ps as (emit_false_kwOnly fields ps hd' as h))
        · simp [hdf] at h

end Op.PyRepr
