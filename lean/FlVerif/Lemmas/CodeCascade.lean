import FlVerif.Gen.CodeCascade

/-! # Tie A for `OutputVariable.defuzzify`: the definition translated from the current source equals the model
    `Op.defuzzify` / `Op.commit` of the value cascade -/

namespace Op
open Gen.Code

/-- the in-place `np.nditer` loop of the translated code is `fill` (rows written) and `carry` (value carried) -/
theorem code_fillLoop (c : CascadeCfg Rat) (hd : Bool) (raw : Py.M (List (X Rat))) (s : OutState Rat) :
    ∀ (vs : List (X Rat)) (σ : OutputVariable_defuzzify.S),
    ∃ σ', OutputVariable_defuzzify.loop1 c hd raw s vs σ = .ok σ' ∧
      σ'.value = σ.value ++ fill σ.previous_value vs ∧ σ'.previous_value = carry σ.previous_value vs ∧
      σ'.self_value = σ.self_value ∧ σ'.self_previous_value = σ.self_previous_value
  | [], σ => ⟨σ, rfl, by simp [fill], rfl, rfl, rfl⟩
  | v :: vs, σ => by
    simp only [OutputVariable_defuzzify.loop1, fill, carry]
    cases hv : X.isnan v
    · simp only [Bool.false_eq_true, if_false]
      obtain ⟨σ', h, h1, h2, h3, h4⟩ := code_fillLoop c hd raw s vs
        { σ with value_i := v, previous_value := v, value := σ.value ++ [v] }
      exact ⟨σ', h, by simpa using h1, h2, h3, h4⟩
    · simp only [if_true]
      obtain ⟨σ', h, h1, h2, h3, h4⟩ := code_fillLoop c hd raw s vs
        { σ with value_i := σ.previous_value, value := σ.value ++ [σ.previous_value] }
      exact ⟨σ', h, by simpa using h1, h2, h3, h4⟩

/-- masked assignment of the default (guarded by "the default is not NaN") followed by the clipping setter is `post`
    on every row -/
theorem setValue_mask (c : CascadeCfg Rat) (l : List (X Rat)) :
    Py.Cascade.setValue c (if !X.isnan c.dflt then Py.Cascade.maskNan l c.dflt else l) = l.map (post c) := by
  unfold Py.Cascade.setValue Py.Cascade.maskNan post substDefault
  cases X.isnan c.dflt <;> simp

/-- **`OutputVariable.defuzzify` as translated from the source = the model `Op.defuzzify`.**  `r` is what the
    defuzzifier step yields: the batch of raw values, the exception of the defuzzifier, or `ValueError` when the variable
    has no defuzzifier. -/
theorem code_defuzzify (c : CascadeCfg Rat) (hasDefuzzifier : Bool) (raw : Py.M (List (X Rat))) (s : OutState Rat) :
    let r : Py.M (List (X Rat)) := if hasDefuzzifier then raw else .error .value
    match defuzzify c r.toOption s with
    | (_, true) => ∃ err, r = .error err ∧ OutputVariable_defuzzify.run c hasDefuzzifier raw s {} = .error err
    | (s', false) => ∃ σ, OutputVariable_defuzzify.run c hasDefuzzifier raw s {} = .ok σ ∧
        σ.self_value = s'.value ∧ σ.self_previous_value = s'.previous := by
  intro r
  unfold defuzzify OutputVariable_defuzzify.run
  cases he : c.enabled
  · exact ⟨_, rfl, rfl, rfl⟩
  · cases hasDefuzzifier
    · exact ⟨.value, rfl, rfl⟩
    · cases raw with
      | error err => exact ⟨err, rfl, rfl⟩
      | ok v =>
        simp only [r, if_true, Except.toOption, Bool.not_true, Bool.false_eq_true, if_false, bind, Except.bind, commit]
        cases hl : c.lockPrev
        · simp only [Bool.false_eq_true, if_false]
          have := setValue_mask c v
          cases hn : X.isnan c.dflt <;> simp only [hn, Bool.not_true, Bool.not_false, Bool.false_eq_true, if_false, if_true] at this ⊢ <;>
            exact ⟨_, rfl, this, rfl⟩
        · simp only [if_true]
          obtain ⟨σ', h, h1, h2, h3, h4⟩ := code_fillLoop c true (.ok v) s v
            { value := [], previous_value := lastOr X.nan s.value, self_value := s.value,
              self_previous_value := lastOr X.nan s.value }
          simp only [List.nil_append] at h1
          simp only [h]
          have := setValue_mask c (fill (lastOr X.nan s.value) v)
          cases hn : X.isnan c.dflt <;> simp only [hn, Bool.not_true, Bool.not_false, Bool.false_eq_true, if_false, if_true] at this ⊢ <;>
            exact ⟨_, rfl, by simpa [h1] using this, h4⟩

end Op
