import FlVerif.Gen.CodeWave5YCtor
import FlVerif.Lemmas.FllLayers

/-! # Tie A for the plain constructors (record builders): `Variable`, `InputVariable`, `OutputVariable`, `Aggregated`,
`Activated`, `Proposition`, `Operator`, `Antecedent`, `Consequent`, `Rule`, `Rule.create`, `RuleBlock`, `Engine`

Every argument is stored in the attribute of the same name; a list argument is stored as a **new** list with the same
items (`Stored.isNew`: `list(x or [])` / a list literal that is extended – never the caller's object); what a
constructor computes besides is stated field by field (`value = nan` through the clipping setter, `previous_value = nan`,
the fuzzy output of an output variable, the degree of an activated term through `nan_to_num`, `Antecedent()` /
`Consequent()` for a missing part of a rule).  The defaults of the signatures are the regenerated definitions `*.dflt_*`
(`*_defaults`). -/

namespace Py.W5Y
open Gen.Code
open Op.FllIO (except_bind_ok except_bind_error)

/-- `np.clip(nan, lo, hi)` is NaN: the value of a new variable is NaN whatever the range and `lock_range` -/
theorem setter_nan (c : Op.CascadeCfg Rat) : Op.setter c .nan = .nan := by
  unfold Op.setter
  cases c.lockRange <;> rfl

theorem set_value_nan (c : Op.CascadeCfg Rat) :
    Variable_set_value.run c .nan {} = .ok { self__value := .nan } := by
  unfold Variable_set_value.run
  cases c.lockRange <;> rfl

/-! ## variables -/

theorem code_variableInit {T : Type} [Inhabited T] (name description : String) (enabled : Bool) (minimum maximum : X Rat)
    (lock_range : Bool) (terms : Option (List T)) (σ0 : Variable_init.S T) :
    ∃ σ, Variable_init.run name description enabled minimum maximum lock_range terms σ0 = .ok σ ∧
      σ.self_name = name ∧ σ.self_description = description ∧ σ.self_enabled = enabled ∧ σ.self_minimum = minimum ∧
      σ.self_maximum = maximum ∧ σ.self_lock_range = lock_range ∧ σ.self_terms = ⟨terms.getD [], true⟩ ∧
      σ.self__value = .nan := by
  unfold Variable_init.run
  simp only [set_value_nan]
  exact ⟨_, rfl, rfl, rfl, rfl, rfl, rfl, rfl, rfl, rfl⟩

theorem code_inputVariableInit {T : Type} [Inhabited T] (name description : String) (enabled : Bool) (minimum maximum : X Rat)
    (lock_range : Bool) (terms : Option (List T)) (σ0 : InputVariable_init.S T) :
    ∃ σ, InputVariable_init.run name description enabled minimum maximum lock_range terms σ0 = .ok σ ∧
      σ.self_name = name ∧ σ.self_description = description ∧ σ.self_enabled = enabled ∧ σ.self_minimum = minimum ∧
      σ.self_maximum = maximum ∧ σ.self_lock_range = lock_range ∧ σ.self_terms = ⟨terms.getD [], true⟩ ∧
      σ.self__value = .nan := by
  unfold InputVariable_init.run Variable_init.run
  simp only [set_value_nan]
  exact ⟨_, rfl, rfl, rfl, rfl, rfl, rfl, rfl, rfl, rfl⟩

theorem code_aggregatedInit {N A : Type} [Inhabited N] [Inhabited A] (name : String) (minimum maximum : X Rat)
    (aggregation : Option N) (terms : Option (List A)) (σ0 : Aggregated_init.S N A) :
    ∃ σ, Aggregated_init.run name minimum maximum aggregation terms σ0 = .ok σ ∧
      σ.self_name = name ∧ σ.self_height = .fin 1 ∧ σ.self_minimum = minimum ∧ σ.self_maximum = maximum ∧
      σ.self_aggregation = aggregation ∧ σ.self_terms = ⟨terms.getD [], true⟩ :=
  ⟨_, rfl, rfl, rfl, rfl, rfl, rfl, rfl⟩

theorem code_outputVariableInit {T D : Type} [Inhabited T] [Inhabited D] (name description : String) (enabled : Bool)
    (minimum maximum : X Rat) (lock_range lock_previous : Bool) (default_value : X Rat) (aggregation : Option String)
    (defuzzifier : Option D) (terms : Option (List T)) (σ0 : OutputVariable_init.S T D) :
    ∃ σ, OutputVariable_init.run name description enabled minimum maximum lock_range lock_previous default_value
        aggregation defuzzifier terms σ0 = .ok σ ∧
      σ.self_name = name ∧ σ.self_description = description ∧ σ.self_enabled = enabled ∧
      σ.self_lock_range = lock_range ∧ σ.self_lock_previous = lock_previous ∧ σ.self_default_value = default_value ∧
      σ.self_defuzzifier = defuzzifier ∧ σ.self_terms = ⟨terms.getD [], true⟩ ∧
      σ.self__value = .nan ∧ σ.self_previous_value = .nan ∧
      σ.self_fuzzy = { self_name := name, self_height := .fin 1, self_minimum := minimum, self_maximum := maximum,
                       self_aggregation := aggregation, self_terms := ⟨[], true⟩ } := by
  unfold OutputVariable_init.run Variable_init.run
  simp only [set_value_nan]
  exact ⟨_, rfl, rfl, rfl, rfl, rfl, rfl, rfl, rfl, rfl, rfl, rfl, rfl⟩

/-! ## terms -/

theorem code_termInit5 (name : String) (height : X Rat) (σ0 : Term_init5.S) :
    ∃ σ, Term_init5.run name height σ0 = .ok σ ∧ σ.self_name = name ∧ σ.self_height = height :=
  ⟨_, rfl, rfl, rfl⟩

theorem code_activatedSetDegree (value : X Rat) (σ0 : Activated_set_degree.S) :
    ∃ σ, Activated_set_degree.run value σ0 = .ok σ ∧ σ.self__degree = X.nanToNum01 value :=
  ⟨_, rfl, X.nanToNum_01 value⟩

theorem code_activatedInit {T N : Type} [Inhabited T] [Inhabited N] (tm : T) (degree : X Rat) (implication : Option N)
    (σ0 : Activated_init.S T N) :
    ∃ σ, Activated_init.run tm degree implication σ0 = .ok σ ∧ σ.self_name = "_" ∧ σ.self_height = .fin 1 ∧
      σ.self_term = tm ∧ σ.self__degree = X.nanToNum01 degree ∧ σ.self_implication = implication :=
  ⟨_, rfl, rfl, rfl, rfl, X.nanToNum_01 degree, rfl⟩

/-! ## rule.py -/

theorem code_propositionInit {V H T : Type} [Inhabited V] [Inhabited H] [Inhabited T] (var : Option V)
    (hedges : Option (List H)) (tm : Option T) (σ0 : Proposition_init.S V H T) :
    ∃ σ, Proposition_init.run var hedges tm σ0 = .ok σ ∧ σ.self_variable = var ∧
      σ.self_hedges = ⟨hedges.getD [], true⟩ ∧ σ.self_term = tm := by
  unfold Proposition_init.run
  rcases hedges with _ | _ | ⟨h, r⟩ <;> exact ⟨_, rfl, rfl, rfl, rfl⟩

theorem code_operatorInit {E : Type} [Inhabited E] (name : String) (right left : Option E) (σ0 : Operator_init.S E) :
    ∃ σ, Operator_init.run name right left σ0 = .ok σ ∧ σ.self_name = name ∧ σ.self_right = right ∧ σ.self_left = left :=
  ⟨_, rfl, rfl, rfl, rfl⟩

theorem code_antecedentInit {E : Type} [Inhabited E] (text : String) (σ0 : Antecedent_init.S E) :
    ∃ σ, Antecedent_init.run text σ0 = .ok σ ∧ σ.self_text = text ∧ σ.self_expression = none :=
  ⟨_, rfl, rfl, rfl⟩

theorem code_consequentInit {P : Type} [Inhabited P] (text : String) (σ0 : Consequent_init.S P) :
    ∃ σ, Consequent_init.run text σ0 = .ok σ ∧ σ.self_text = text ∧ σ.self_conclusions = ⟨[], true⟩ :=
  ⟨_, rfl, rfl, rfl⟩

theorem code_ruleInit {E P : Type} [Inhabited E] [Inhabited P] (enabled : Bool) (weight : X Rat)
    (antecedent : Option (Antecedent_init.S E)) (consequent : Option (Consequent_init.S P)) (σ0 : Rule_init.S E P) :
    ∃ σ, Rule_init.run enabled weight antecedent consequent σ0 = .ok σ ∧ σ.self_enabled = enabled ∧
      σ.self_weight = weight ∧ σ.self_activation_degree = .fin 0 ∧ σ.self_triggered = false ∧
      σ.self_antecedent = antecedent.getD { self_text := "", self_expression := none } ∧
      σ.self_consequent = consequent.getD { self_text := "", self_conclusions := ⟨[], true⟩ } := by
  unfold Rule_init.run
  cases antecedent <;> cases consequent <;> exact ⟨_, rfl, rfl, rfl, rfl, rfl, rfl, rfl⟩

/-- the rule `Rule()` builds: enabled, weight 1, not activated, empty unloaded antecedent and consequent -/
def freshRule (E P : Type) [Inhabited E] [Inhabited P] : Rule_init.S E P :=
  { self_enabled := true, self_weight := .fin 1, self_activation_degree := .fin 0, self_triggered := false,
    self_antecedent := { self_text := "", self_expression := none },
    self_consequent := { self_text := "", self_conclusions := ⟨[], true⟩ } }

theorem code_ruleCreate {E P G : Type} [Inhabited E] [Inhabited P] [Inhabited G]
    (parse : String → Rule_init.S E P → Py.M (Rule_init.S E P)) (load : G → Rule_init.S E P → Py.M (Rule_init.S E P))
    (text : String) (engine : Option G) :
    match parse text (freshRule E P) >>= fun r => (match engine with | some g => load g r | none => .ok r) with
    | .error e => Rule_create.run parse load text engine {} = .error e
    | .ok r => ∃ σ, Rule_create.run parse load text engine {} = .ok σ ∧ σ.ret = some r := by
  have hnew : Rule_init.run (E := E) (P := P) Rule_init.dflt_enabled Rule_init.dflt_weight Rule_init.dflt_antecedent
      Rule_init.dflt_consequent {} = .ok (freshRule E P) := rfl
  unfold Rule_create.run
  rw [hnew]
  simp only [except_bind_ok]
  cases hp : parse text (freshRule E P) with
  | error e => rfl
  | ok r =>
    cases engine with
    | none => exact ⟨_, rfl, rfl⟩
    | some g =>
      simp only [except_bind_ok, Option.isSome_some, if_true, Py.deref]
      cases hl : load g r with
      | error e => rfl
      | ok r' => exact ⟨_, rfl, rfl⟩

theorem code_ruleBlockInit {N M A R : Type} [Inhabited N] [Inhabited M] [Inhabited A] [Inhabited R]
    (name description : String) (enabled : Bool) (conjunction : Option N) (disjunction : Option M) (implication : Option N)
    (activation : Option A) (rules : Option (List R)) (σ0 : RuleBlock_init.S N M A R) :
    ∃ σ, RuleBlock_init.run name description enabled conjunction disjunction implication activation rules σ0 = .ok σ ∧
      σ.self_name = name ∧ σ.self_description = description ∧ σ.self_enabled = enabled ∧
      σ.self_conjunction = conjunction ∧ σ.self_disjunction = disjunction ∧ σ.self_implication = implication ∧
      σ.self_activation = activation ∧ σ.self_rules = ⟨rules.getD [], true⟩ :=
  ⟨_, rfl, rfl, rfl, rfl, rfl, rfl, rfl, rfl, rfl⟩

/-! ## `Engine.__init__` -/

section engine
variable {V T B : Type} [Inhabited V] [Inhabited T] [Inhabited B]
variable (termsOf : V → List T) (loadRules : B → Py.M B) (name description : String)
  (ivs ovs : Option (List V)) (rbs : Option (List B)) (load : Bool)

/-- the attributes the loops of the constructor do not touch -/
def EngFrame (σ σ' : Engine_init.S V T B) : Prop :=
  σ'.self_name = σ.self_name ∧ σ'.self_description = σ.self_description ∧
  σ'.self_input_variables = σ.self_input_variables ∧ σ'.self_output_variables = σ.self_output_variables ∧
  σ'.self_rule_blocks = σ.self_rule_blocks

theorem EngFrame.refl (σ : Engine_init.S V T B) : EngFrame σ σ := ⟨rfl, rfl, rfl, rfl, rfl⟩

theorem EngFrame.trans {a b c : Engine_init.S V T B} (h1 : EngFrame a b) (h2 : EngFrame b c) : EngFrame a c :=
  ⟨h2.1.trans h1.1, h2.2.1.trans h1.2.1, h2.2.2.1.trans h1.2.2.1, h2.2.2.2.1.trans h1.2.2.2.1, h2.2.2.2.2.trans h1.2.2.2.2⟩

theorem engine_loop2 (l : List T) (σ : Engine_init.S V T B) :
    ∃ σ', Engine_init.loop2 termsOf loadRules name description ivs ovs rbs load l σ = .ok σ' ∧ EngFrame σ σ' ∧
      σ'.updated = σ.updated ++ l ∧ σ'.loaded = σ.loaded := by
  induction l generalizing σ with
  | nil => exact ⟨σ, rfl, EngFrame.refl σ, by simp, rfl⟩
  | cons x rest ih =>
    obtain ⟨σ', h1, h2, h3, h4⟩ := ih { σ with term_ := x, updated := σ.updated ++ [x] }
    refine ⟨σ', ?_, ?_, ?_, h4⟩
    · simp only [Engine_init.loop2]; exact h1
    · exact h2
    · rw [h3]; simp

theorem engine_loop1 (vs : List V) (σ : Engine_init.S V T B) :
    ∃ σ', Engine_init.loop1 termsOf loadRules name description ivs ovs rbs load vs σ = .ok σ' ∧ EngFrame σ σ' ∧
      σ'.updated = σ.updated ++ vs.flatMap termsOf ∧ σ'.loaded = σ.loaded := by
  induction vs generalizing σ with
  | nil => exact ⟨σ, rfl, EngFrame.refl σ, by simp, rfl⟩
  | cons v rest ih =>
    obtain ⟨σ1, a1, a2, a3, a4⟩ := engine_loop2 termsOf loadRules name description ivs ovs rbs load (termsOf v) { σ with variable_ := v }
    obtain ⟨σ2, b1, b2, b3, b4⟩ := ih σ1
    refine ⟨σ2, ?_, EngFrame.trans (a := σ) a2 b2, ?_, b4.trans a4⟩
    · simp only [Engine_init.loop1]
      rw [a1]
      exact b1
    · rw [b3, a3]; simp

theorem engine_loop3 (bs : List B) (σ : Engine_init.S V T B) :
    match bs.mapM loadRules with
    | .error e => Engine_init.loop3 termsOf loadRules name description ivs ovs rbs load bs σ = .error e
    | .ok bs' => ∃ σ', Engine_init.loop3 termsOf loadRules name description ivs ovs rbs load bs σ = .ok σ' ∧ EngFrame σ σ' ∧
        σ'.updated = σ.updated ∧ σ'.loaded = σ.loaded ++ bs' := by
  induction bs generalizing σ with
  | nil => exact ⟨σ, rfl, EngFrame.refl σ, rfl, by simp⟩
  | cons b rest ih =>
    rw [List.mapM_cons]
    simp only [Engine_init.loop3]
    cases hb : loadRules b with
    | error e => rfl
    | ok b' =>
      have := ih { σ with rb := b, loaded := σ.loaded ++ [b'] }
      simp only [except_bind_ok, bind, Except.bind] at this ⊢
      cases hr : rest.mapM loadRules with
      | error e => rw [hr] at this; exact this
      | ok bs' =>
        rw [hr] at this
        obtain ⟨σ', h1, h2, h3, h4⟩ := this
        exact ⟨σ', h1, h2, h3, by rw [h4]; simp [pure, Except.pure]⟩

/-- `Engine.__init__`: name, description and new lists of the three kinds of components; with `load` the references of
    all terms are updated (input variables first, then output variables, each in order) and the rule blocks are loaded
    in order – the first block that does not load ends the construction with its exception; without `load` nothing
    else happens -/
theorem code_engineInit :
    match (if load then (rbs.getD []).mapM loadRules else .ok []) with
    | .error e => Engine_init.run termsOf loadRules name description ivs ovs rbs load {} = .error e
    | .ok bs' => ∃ σ, Engine_init.run termsOf loadRules name description ivs ovs rbs load {} = .ok σ ∧
        σ.self_name = name ∧ σ.self_description = description ∧
        σ.self_input_variables = ⟨ivs.getD [], true⟩ ∧ σ.self_output_variables = ⟨ovs.getD [], true⟩ ∧
        σ.self_rule_blocks = ⟨rbs.getD [], true⟩ ∧
        σ.updated = (if load then (ivs.getD [] ++ ovs.getD []).flatMap termsOf else []) ∧ σ.loaded = bs' := by
  cases load with
  | false => exact ⟨_, rfl, rfl, rfl, rfl, rfl, rfl, rfl, rfl⟩
  | true =>
    simp only [if_true]
    let σi : Engine_init.S V T B :=
      { self_name := name, self_description := description, self_input_variables := Stored.copyOf ivs,
        self_output_variables := Stored.copyOf ovs, self_rule_blocks := Stored.copyOf rbs }
    have hrun : Engine_init.run termsOf loadRules name description ivs ovs rbs true {} =
        (Engine_init.loop1 termsOf loadRules name description ivs ovs rbs true (ivs.getD [] ++ ovs.getD []) σi >>= fun σ =>
         Engine_init.loop3 termsOf loadRules name description ivs ovs rbs true σ.self_rule_blocks.items σ >>= fun σ =>
         Except.ok σ) := rfl
    obtain ⟨σ1, a1, a2, a3, a4⟩ := engine_loop1 termsOf loadRules name description ivs ovs rbs true
      (ivs.getD [] ++ ovs.getD []) σi
    have hrb : σ1.self_rule_blocks.items = rbs.getD [] := by rw [a2.2.2.2.2]; rfl
    have h3 := engine_loop3 termsOf loadRules name description ivs ovs rbs true (rbs.getD []) σ1
    rw [hrun, a1, except_bind_ok, hrb]
    cases hm : (rbs.getD []).mapM loadRules with
    | error e => rw [hm] at h3; rw [h3]; rfl
    | ok bs' =>
      rw [hm] at h3
      obtain ⟨σ2, b1, b2, b3, b4⟩ := h3
      refine ⟨σ2, by rw [b1]; rfl, b2.1.trans a2.1, b2.2.1.trans a2.2.1, b2.2.2.1.trans a2.2.2.1,
        b2.2.2.2.1.trans a2.2.2.2.1, b2.2.2.2.2.trans a2.2.2.2.2, ?_, ?_⟩
      · rw [b3, a3]; exact List.nil_append _
      · rw [b4, a4]; exact List.nil_append _

end engine

/-! ## the defaults of the signatures -/

theorem variable_defaults :
    Variable_init.dflt_name = "" ∧ Variable_init.dflt_description = "" ∧ Variable_init.dflt_enabled = true ∧
    Variable_init.dflt_minimum = .ninf ∧ Variable_init.dflt_maximum = .pinf ∧ Variable_init.dflt_lock_range = false ∧
    (Variable_init.dflt_terms : Option (List Unit)) = none ∧
    InputVariable_init.dflt_name = "" ∧ InputVariable_init.dflt_description = "" ∧ InputVariable_init.dflt_enabled = true ∧
    InputVariable_init.dflt_minimum = .ninf ∧ InputVariable_init.dflt_maximum = .pinf ∧
    InputVariable_init.dflt_lock_range = false ∧ (InputVariable_init.dflt_terms : Option (List Unit)) = none :=
  ⟨rfl, rfl, rfl, rfl, rfl, rfl, rfl, rfl, rfl, rfl, rfl, rfl, rfl, rfl⟩

theorem outputVariable_defaults :
    OutputVariable_init.dflt_name = "" ∧ OutputVariable_init.dflt_description = "" ∧ OutputVariable_init.dflt_enabled = true ∧
    OutputVariable_init.dflt_minimum = .ninf ∧ OutputVariable_init.dflt_maximum = .pinf ∧
    OutputVariable_init.dflt_lock_range = false ∧ OutputVariable_init.dflt_lock_previous = false ∧
    OutputVariable_init.dflt_default_value = .nan ∧ OutputVariable_init.dflt_aggregation = none ∧
    (OutputVariable_init.dflt_defuzzifier : Option Unit) = none ∧ (OutputVariable_init.dflt_terms : Option (List Unit)) = none :=
  ⟨rfl, rfl, rfl, rfl, rfl, rfl, rfl, rfl, rfl, rfl, rfl⟩

theorem rule_defaults :
    Rule_init.dflt_enabled = true ∧ Rule_init.dflt_weight = .fin 1 ∧
    (Rule_init.dflt_antecedent : Option (Antecedent_init.S Unit)) = none ∧
    (Rule_init.dflt_consequent : Option (Consequent_init.S Unit)) = none ∧
    Antecedent_init.dflt_text = "" ∧ Consequent_init.dflt_text = "" ∧ (Rule_create.dflt_engine : Option Unit) = none ∧
    RuleBlock_init.dflt_name = "" ∧ RuleBlock_init.dflt_description = "" ∧ RuleBlock_init.dflt_enabled = true ∧
    (RuleBlock_init.dflt_conjunction : Option Unit) = none ∧ (RuleBlock_init.dflt_disjunction : Option Unit) = none ∧
    (RuleBlock_init.dflt_implication : Option Unit) = none ∧ (RuleBlock_init.dflt_activation : Option Unit) = none ∧
    (RuleBlock_init.dflt_rules : Option (List Unit)) = none :=
  ⟨rfl, rfl, rfl, rfl, rfl, rfl, rfl, rfl, rfl, rfl, rfl, rfl, rfl, rfl, rfl⟩

theorem engine_defaults :
    Engine_init.dflt_name = "" ∧ Engine_init.dflt_description = "" ∧
    (Engine_init.dflt_input_variables : Option (List Unit)) = none ∧
    (Engine_init.dflt_output_variables : Option (List Unit)) = none ∧
    (Engine_init.dflt_rule_blocks : Option (List Unit)) = none ∧ Engine_init.dflt_load = true :=
  ⟨rfl, rfl, rfl, rfl, rfl, rfl⟩

theorem term_defaults :
    Term_init5.dflt_name = "" ∧ Term_init5.dflt_height = .fin 1 ∧ Activated_init.dflt_degree = .fin 1 ∧
    (Activated_init.dflt_implication : Option Unit) = none ∧ Aggregated_init.dflt_name = "" ∧
    Aggregated_init.dflt_minimum = .nan ∧ Aggregated_init.dflt_maximum = .nan ∧
    (Aggregated_init.dflt_aggregation : Option Unit) = none ∧ (Aggregated_init.dflt_terms : Option (List Unit)) = none ∧
    (Proposition_init.dflt_variable_ : Option Unit) = none ∧ (Proposition_init.dflt_hedges : Option (List Unit)) = none ∧
    (Proposition_init.dflt_term_ : Option Unit) = none ∧ Operator_init.dflt_name = "" ∧
    (Operator_init.dflt_right : Option Unit) = none ∧ (Operator_init.dflt_left : Option Unit) = none :=
  ⟨rfl, rfl, rfl, rfl, rfl, rfl, rfl, rfl, rfl, rfl, rfl, rfl, rfl, rfl, rfl⟩

end Py.W5Y
