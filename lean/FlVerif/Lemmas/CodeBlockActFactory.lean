import FlVerif.Gen.CodeFactory
import FlVerif.Op.PyExtFunction
import FlVerif.Gen.Tables

/-! # Tie A for the factories (`fuzzylite/factory.py`)

`ConstructionFactory.construct`, `CloningFactory.copy`, `FunctionFactory.operators` / `functions` / `_precedence`,
translated from the current source, against the look-ups the models use:

* `construct(key)` on a dictionary of constructors is "the first item with that key, else `ValueError`"; for a factory
  that registers every class under its own name - the key lists `Gen.Tables.*Keys` - this is the test
  `if key ∈ keys then … else ValueError` of `Op.FllIO` (`defuzzKind`, `activKind`, `configure`, `normOf`);
* `copy(key)` on the element table is `Py.copyElem` (= `Lang.Table.lookup`, `ValueError` for an unregistered name), the
  external of the translated `Function.parse`;
* `operators()` / `functions()` are the rows of the table with / without the operator flag, in table order: their keys are
  `Lang.Table.operators` / `Lang.Table.functions` (what `Op.formatInfix` reads). -/

namespace Py.BlockAct
open Gen.Code Lang

/-! ## dictionaries as lists of items -/

theorem dict_find_none {β : Type} (d : List (String × β)) (k : String) (h : d.find? (fun p => p.1 == k) = none) :
    Py.Dict.mem d k = false := by
  induction d with
  | nil => rfl
  | cons p rest ih =>
    simp only [List.find?] at h
    cases hp : (p.1 == k) with
    | true => rw [hp] at h; cases h
    | false => rw [hp] at h; simp only [Py.Dict.mem, List.any, hp, Bool.false_or]; exact ih h

theorem dict_find_some {β : Type} (d : List (String × β)) (k : String) (q : String × β)
    (h : d.find? (fun p => p.1 == k) = some q) : Py.Dict.mem d k = true ∧ Py.Dict.get d k = .ok q.2 := by
  refine ⟨?_, by simp only [Py.Dict.get, h]⟩
  induction d with
  | nil => cases h
  | cons p rest ih =>
    simp only [List.find?] at h
    cases hp : (p.1 == k) with
    | true => simp only [Py.Dict.mem, List.any, hp, Bool.true_or]
    | false => rw [hp] at h; simp only [Py.Dict.mem, List.any, hp, Bool.false_or]; exact ih h

/-! ## `ConstructionFactory.construct` -/

/-- the model: the constructor registered first under the key is called; an unregistered key is a `ValueError` -/
def construct {C T : Type} (cs : List (String × C)) (call : C → Py.M T) (key : String) : Py.M T :=
  match cs.find? (fun p => p.1 == key) with
  | none => .error .value
  | some p => call p.2

theorem code_factoryConstruct {C T : Type} [Inhabited C] [Inhabited T] (cs : List (String × C)) (call : C → Py.M T)
    (key : String) :
    match construct cs call key with
    | .error e => ConstructionFactory_construct.run cs call key {} = .error e
    | .ok v => ∃ σ, ConstructionFactory_construct.run cs call key {} = .ok σ ∧ σ.ret = some v := by
  unfold construct
  cases h : cs.find? (fun p => p.1 == key) with
  | none =>
    simp only [ConstructionFactory_construct.run, dict_find_none cs key h, Bool.false_eq_true, if_false]
  | some p =>
    obtain ⟨hm, hg⟩ := dict_find_some cs key p h
    simp only [ConstructionFactory_construct.run, hm, if_true, hg, bind, Except.bind]
    cases call p.2 with
    | error e => rfl
    | ok v => exact ⟨_, rfl, rfl⟩

theorem registered_find (keys : List String) (key : String) :
    (registered keys).find? (fun p => p.1 == key) = if key ∈ keys then some (key, key) else none := by
  induction keys with
  | nil => rfl
  | cons k rest ih =>
    simp only [registered, List.map_cons, List.find?, List.mem_cons]
    by_cases hk : k = key
    · subst hk; simp
    · have : (k == key) = false := beq_eq_false_iff_ne.mpr hk
      simp only [this]
      have hk' : ¬ key = k := fun e => hk e.symm
      simp only [hk', false_or]
      exact ih

/-- a factory whose classes are registered under their own names (`Gen.Tables.tnormKeys`, …): the membership test of
    the importer model -/
theorem construct_registered {T : Type} (keys : List String) (call : String → Py.M T) (key : String) :
    construct (registered keys) call key = if key ∈ keys then call key else .error .value := by
  unfold construct
  rw [registered_find]
  by_cases h : key ∈ keys <;> simp [h]

/-! ## `CloningFactory.copy` -/

theorem code_factoryCopy (tbl : Table) (key : String) :
    match Py.copyElem tbl key with
    | .error e => CloningFactory_copy.run tbl key {} = .error e
    | .ok v => ∃ σ, CloningFactory_copy.run tbl key {} = .ok σ ∧ σ.ret = some v := by
  unfold Py.copyElem
  cases h : tbl.lookup key with
  | none => simp only [CloningFactory_copy.run, h, Option.isSome_none, Bool.false_eq_true, if_false]
  | some e =>
    simp only [CloningFactory_copy.run, h, Option.isSome_some, if_true, Py.lookupElem, bind, Except.bind]
    exact ⟨_, rfl, rfl⟩

/-! ## `FunctionFactory.operators` / `functions` -/

theorem code_operators (tbl : Table) :
    ∃ σ r, FunctionFactory_operators.run tbl {} = .ok σ ∧ σ.ret = some r ∧
      r = (tbl.filter (·.2.1)).map (fun row => (row.1, Elem.ofRow row)) ∧ r.map (·.1) = tbl.operators := by
  refine ⟨_, _, rfl, rfl, ?_, ?_⟩
  · simp [objects, List.filter_map, Function.comp_def, Elem.ofRow]
  · simp [objects, List.filter_map, Function.comp_def, Elem.ofRow, Table.operators]

theorem code_functions (tbl : Table) :
    ∃ σ r, FunctionFactory_functions.run tbl {} = .ok σ ∧ σ.ret = some r ∧
      r = (tbl.filter (!·.2.1)).map (fun row => (row.1, Elem.ofRow row)) ∧ r.map (·.1) = tbl.functions := by
  refine ⟨_, _, rfl, rfl, ?_, ?_⟩
  · simp [objects, List.filter_map, Function.comp_def, Elem.ofRow]
  · simp [objects, List.filter_map, Function.comp_def, Elem.ofRow, Table.functions]

/-! ## `FunctionFactory._precedence` -/

theorem code_precedence (importance : Nat) :
    ∃ σ, FunctionFactory_precedence.run importance {} = .ok σ ∧ σ.ret = some (100 - 10 * (importance : Int)) := by
  refine ⟨_, rfl, ?_⟩
  simp only [Option.some.injEq]
  omega

/-- every precedence of the regenerated element table is a value of `_precedence` (importance 0 … 10) -/
def precedencesFromHelper (tbl : Table) : Bool :=
  tbl.all (fun r => (List.range 11).any (fun k => ((r.2.2.2.1 : Nat) : Int) == 100 - 10 * (k : Int)))

theorem table_precedences : precedencesFromHelper Gen.Tables.elements = true := by decide

end Py.BlockAct
