import FlVerif.Lemmas.TermTie

/-! Values of the traced membership functions at NaN and at ±inf (C03) -/

set_option linter.unusedSectionVars false
set_option linter.unusedVariables false
set_option linter.unusedSimpArgs false

namespace TermSpecial
open X Spec
variable {α : Type} [Field α] [LinearOrder α] [IsStrictOrderedRing α]

/-! ### NaN in, NaN out: for arbitrary (even special) parameters and height -/

theorem arc_nan (F : Fn α) (s e h : X α) : Gen.Term.Arc.membership F s e h nan = nan := by
  simp [Gen.Term.Arc.membership]
theorem bell_nan (F : Fn α) (c w sl h : X α) : Gen.Term.Bell.membership F c w sl h nan = nan := by
  simp [Gen.Term.Bell.membership]
theorem binary_nan (F : Fn α) (s d h : X α) : Gen.Term.Binary.membership F s d h nan = nan := by
  simp [Gen.Term.Binary.membership]
theorem concave_nan (F : Fn α) (i e h : X α) : Gen.Term.Concave.membership F i e h nan = nan := by
  simp [Gen.Term.Concave.membership]
theorem cosine_nan (F : Fn α) (c w h : X α) : Gen.Term.Cosine.membership F c w h nan = nan := by
  simp [Gen.Term.Cosine.membership]
theorem gaussian_nan (F : Fn α) (m sd h : X α) : Gen.Term.Gaussian.membership F m sd h nan = nan := by
  simp [Gen.Term.Gaussian.membership]
theorem gaussianProduct_nan (F : Fn α) (ma sa mb sb h : X α) :
    Gen.Term.GaussianProduct.membership F ma sa mb sb h nan = nan := by
  simp [Gen.Term.GaussianProduct.membership]
theorem piShape_nan (F : Fn α) (a b c d h : X α) : Gen.Term.PiShape.membership F a b c d h nan = nan := by
  simp [Gen.Term.PiShape.membership]
theorem ramp_nan (F : Fn α) (s e h : X α) : Gen.Term.Ramp.membership F s e h nan = nan := by
  simp [Gen.Term.Ramp.membership]
theorem rectangle_nan (F : Fn α) (s e h : X α) : Gen.Term.Rectangle.membership F s e h nan = nan := by
  unfold Gen.Term.Rectangle.membership; split_ifs <;> simp
theorem semiEllipse_nan (F : Fn α) (s e h : X α) : Gen.Term.SemiEllipse.membership F s e h nan = nan := by
  unfold Gen.Term.SemiEllipse.membership; split_ifs <;> simp
theorem sigmoid_nan (F : Fn α) (i sl h : X α) : Gen.Term.Sigmoid.membership F i sl h nan = nan := by
  simp [Gen.Term.Sigmoid.membership]
theorem sigmoidDifference_nan (F : Fn α) (l r f rt h : X α) :
    Gen.Term.SigmoidDifference.membership F l r f rt h nan = nan := by
  simp [Gen.Term.SigmoidDifference.membership]
theorem sigmoidProduct_nan (F : Fn α) (l r f rt h : X α) :
    Gen.Term.SigmoidProduct.membership F l r f rt h nan = nan := by
  simp [Gen.Term.SigmoidProduct.membership]
theorem spike_nan (F : Fn α) (c w h : X α) : Gen.Term.Spike.membership F c w h nan = nan := by
  simp [Gen.Term.Spike.membership]
theorem sShape_nan (F : Fn α) (s e h : X α) : Gen.Term.SShape.membership F s e h nan = nan := by
  simp [Gen.Term.SShape.membership]
theorem trapezoid_nan (F : Fn α) (a b c d h : X α) : Gen.Term.Trapezoid.membership F a b c d h nan = nan := by
  simp [Gen.Term.Trapezoid.membership]
theorem triangle_nan (F : Fn α) (a b c h : X α) : Gen.Term.Triangle.membership F a b c h nan = nan := by
  simp [Gen.Term.Triangle.membership]
theorem zShape_nan (F : Fn α) (s e h : X α) : Gen.Term.ZShape.membership F s e h nan = nan := by
  simp [Gen.Term.ZShape.membership]

/-! ### values at `+inf` / `-inf` (finite parameters and height) -/

theorem arc_pinf (F : Fn α) (s e h : α) (hse : s ≠ e) :
    Gen.Term.Arc.membership F (fin s) (fin e) (fin h) pinf = fin (if s < e then h else 0) := by
  rcases lt_or_gt_of_ne hse with h1 | h1
  · simp [Gen.Term.Arc.membership, h1, not_lt.2 h1.le, ofBool]
  · simp [Gen.Term.Arc.membership, h1, not_lt.2 h1.le, ofBool]
theorem arc_ninf (F : Fn α) (s e h : α) (hse : s ≠ e) :
    Gen.Term.Arc.membership F (fin s) (fin e) (fin h) ninf = fin (if s < e then 0 else h) := by
  rcases lt_or_gt_of_ne hse with h1 | h1
  · simp [Gen.Term.Arc.membership, h1, not_lt.2 h1.le, ofBool]
  · simp [Gen.Term.Arc.membership, h1, not_lt.2 h1.le, ofBool]

theorem binary_pinf (F : Fn α) (s : α) (d : X α) (h : α) (hd : d = pinf ∨ d = ninf) :
    Gen.Term.Binary.membership F (fin s) d (fin h) pinf = fin (if d = pinf then h else 0) := by
  rcases hd with rfl | rfl <;> simp [Gen.Term.Binary.membership]
theorem binary_ninf (F : Fn α) (s : α) (d : X α) (h : α) (hd : d = pinf ∨ d = ninf) :
    Gen.Term.Binary.membership F (fin s) d (fin h) ninf = fin (if d = ninf then h else 0) := by
  rcases hd with rfl | rfl <;> simp [Gen.Term.Binary.membership]

theorem concave_pinf (F : Fn α) (i e h : α) (hie : i ≠ e) :
    Gen.Term.Concave.membership F (fin i) (fin e) (fin h) pinf = fin (if i < e then h else 0) := by
  rcases lt_or_gt_of_ne hie with h1 | h1
  · simp [Gen.Term.Concave.membership, h1, h1.le, not_le.2 h1]
  · simp [Gen.Term.Concave.membership, h1, h1.le, not_le.2 h1, not_lt.2 h1.le, add_fin_pinf]
theorem concave_ninf (F : Fn α) (i e h : α) (hie : i ≠ e) :
    Gen.Term.Concave.membership F (fin i) (fin e) (fin h) ninf = fin (if i < e then 0 else h) := by
  rcases lt_or_gt_of_ne hie with h1 | h1
  · simp [Gen.Term.Concave.membership, h1, h1.le, not_le.2 h1]
  · simp [Gen.Term.Concave.membership, h1, h1.le, not_le.2 h1, not_lt.2 h1.le]

theorem cosine_pinf (F : Fn α) (c w h : α) : Gen.Term.Cosine.membership F (fin c) (fin w) (fin h) pinf = fin 0 := by
  simp [Gen.Term.Cosine.membership]
theorem cosine_ninf (F : Fn α) (c w h : α) : Gen.Term.Cosine.membership F (fin c) (fin w) (fin h) ninf = fin 0 := by
  simp [Gen.Term.Cosine.membership]

theorem gaussian_pinf (F : Fn α) (m sd h : α) (hsd : sd ≠ 0) :
    Gen.Term.Gaussian.membership F (fin m) (fin sd) (fin h) pinf = fin 0 := by
  have hden : 0 < 2 * (sd * sd) := by have := mul_self_pos.2 hsd; linarith
  simp [Gen.Term.Gaussian.membership, div_ninf_fin _ hden]
theorem gaussian_ninf (F : Fn α) (m sd h : α) (hsd : sd ≠ 0) :
    Gen.Term.Gaussian.membership F (fin m) (fin sd) (fin h) ninf = fin 0 := by
  have hden : 0 < 2 * (sd * sd) := by have := mul_self_pos.2 hsd; linarith
  simp [Gen.Term.Gaussian.membership, div_ninf_fin _ hden]

theorem gaussianProduct_pinf (F : Fn α) (ma sa mb sb h : α) (hsb : sb ≠ 0) :
    Gen.Term.GaussianProduct.membership F (fin ma) (fin sa) (fin mb) (fin sb) (fin h) pinf = fin 0 := by
  have hden : 0 < 2 * (sb * sb) := by have := mul_self_pos.2 hsb; linarith
  simp [Gen.Term.GaussianProduct.membership, div_ninf_fin _ hden]
theorem gaussianProduct_ninf (F : Fn α) (ma sa mb sb h : α) (hsa : sa ≠ 0) :
    Gen.Term.GaussianProduct.membership F (fin ma) (fin sa) (fin mb) (fin sb) (fin h) ninf = fin 0 := by
  have hden : 0 < 2 * (sa * sa) := by have := mul_self_pos.2 hsa; linarith
  simp [Gen.Term.GaussianProduct.membership, div_ninf_fin _ hden]

theorem piShape_pinf (F : Fn α) (a b c d h : α) :
    Gen.Term.PiShape.membership F (fin a) (fin b) (fin c) (fin d) (fin h) pinf = fin 0 := by
  simp [Gen.Term.PiShape.membership]
theorem piShape_ninf (F : Fn α) (a b c d h : α) :
    Gen.Term.PiShape.membership F (fin a) (fin b) (fin c) (fin d) (fin h) ninf = fin 0 := by
  simp [Gen.Term.PiShape.membership]

theorem ramp_pinf (F : Fn α) (s e h : α) (hse : s ≠ e) :
    Gen.Term.Ramp.membership F (fin s) (fin e) (fin h) pinf = fin (if s < e then h else 0) := by
  rcases lt_or_gt_of_ne hse with h1 | h1
  · simp [Gen.Term.Ramp.membership, h1, not_lt.2 h1.le, ofBool]
  · simp [Gen.Term.Ramp.membership, h1, not_lt.2 h1.le, ofBool]
theorem ramp_ninf (F : Fn α) (s e h : α) (hse : s ≠ e) :
    Gen.Term.Ramp.membership F (fin s) (fin e) (fin h) ninf = fin (if s < e then 0 else h) := by
  rcases lt_or_gt_of_ne hse with h1 | h1
  · simp [Gen.Term.Ramp.membership, h1, not_lt.2 h1.le, ofBool]
  · simp [Gen.Term.Ramp.membership, h1, not_lt.2 h1.le, ofBool]

theorem rectangle_pinf (F : Fn α) (s e h : α) :
    Gen.Term.Rectangle.membership F (fin s) (fin e) (fin h) pinf = fin 0 := by
  unfold Gen.Term.Rectangle.membership; split_ifs <;> simp [ofBool]
theorem rectangle_ninf (F : Fn α) (s e h : α) :
    Gen.Term.Rectangle.membership F (fin s) (fin e) (fin h) ninf = fin 0 := by
  unfold Gen.Term.Rectangle.membership; split_ifs <;> simp [ofBool]

theorem semiEllipse_pinf (F : Fn α) (s e h : α) :
    Gen.Term.SemiEllipse.membership F (fin s) (fin e) (fin h) pinf = fin 0 := by
  unfold Gen.Term.SemiEllipse.membership; split_ifs <;> simp
theorem semiEllipse_ninf (F : Fn α) (s e h : α) :
    Gen.Term.SemiEllipse.membership F (fin s) (fin e) (fin h) ninf = fin 0 := by
  unfold Gen.Term.SemiEllipse.membership; split_ifs <;> simp

theorem spike_pinf (F : Fn α) (c w h : α) (hw : w ≠ 0) :
    Gen.Term.Spike.membership F (fin c) (fin w) (fin h) pinf = fin 0 := by
  rcases lt_or_gt_of_ne hw with h1 | h1
  · have : 10 / w < 0 := div_neg_of_pos_of_neg (by norm_num) h1
    simp [Gen.Term.Spike.membership, div_fin _ _ hw, mul_neg_pinf _ this]
  · have : 0 < 10 / w := div_pos (by norm_num) h1
    simp [Gen.Term.Spike.membership, div_fin _ _ hw, mul_fin_pinf _ this]
theorem spike_ninf (F : Fn α) (c w h : α) (hw : w ≠ 0) :
    Gen.Term.Spike.membership F (fin c) (fin w) (fin h) ninf = fin 0 := by
  rcases lt_or_gt_of_ne hw with h1 | h1
  · have : 10 / w < 0 := div_neg_of_pos_of_neg (by norm_num) h1
    simp [Gen.Term.Spike.membership, div_fin _ _ hw, mul_neg_ninf _ this]
  · have : 0 < 10 / w := div_pos (by norm_num) h1
    simp [Gen.Term.Spike.membership, div_fin _ _ hw, mul_fin_ninf _ this]

theorem sShape_pinf (F : Fn α) (s e h : α) : Gen.Term.SShape.membership F (fin s) (fin e) (fin h) pinf = fin h := by
  simp [Gen.Term.SShape.membership]
theorem sShape_ninf (F : Fn α) (s e h : α) : Gen.Term.SShape.membership F (fin s) (fin e) (fin h) ninf = fin 0 := by
  simp [Gen.Term.SShape.membership]
theorem zShape_pinf (F : Fn α) (s e h : α) : Gen.Term.ZShape.membership F (fin s) (fin e) (fin h) pinf = fin 0 := by
  simp [Gen.Term.ZShape.membership]
theorem zShape_ninf (F : Fn α) (s e h : α) : Gen.Term.ZShape.membership F (fin s) (fin e) (fin h) ninf = fin h := by
  simp [Gen.Term.ZShape.membership]

theorem triangle_pinf (F : Fn α) (a : X α) (b : α) (c : X α) (h : α) (ha : LeftEnd a b) (hc : RightEnd b c) :
    Gen.Term.Triangle.membership F a (fin b) c (fin h) pinf = fin (if c = pinf then h else 0) := by
  rcases ha with rfl | ⟨a', rfl, hab⟩ <;> rcases hc with rfl | ⟨c', rfl, hbc⟩ <;>
    simp [Gen.Term.Triangle.membership, X.lt, X.eq]
theorem triangle_ninf (F : Fn α) (a : X α) (b : α) (c : X α) (h : α) (ha : LeftEnd a b) (hc : RightEnd b c) :
    Gen.Term.Triangle.membership F a (fin b) c (fin h) ninf = fin (if a = ninf then h else 0) := by
  rcases ha with rfl | ⟨a', rfl, hab⟩ <;> rcases hc with rfl | ⟨c', rfl, hbc⟩ <;>
    simp [Gen.Term.Triangle.membership, X.lt, X.eq]
theorem trapezoid_pinf (F : Fn α) (a : X α) (b c : α) (d : X α) (h : α) (ha : LeftEnd a b) (hd : RightEnd c d) :
    Gen.Term.Trapezoid.membership F a (fin b) (fin c) d (fin h) pinf = fin (if d = pinf then h else 0) := by
  rcases ha with rfl | ⟨a', rfl, hab⟩ <;> rcases hd with rfl | ⟨d', rfl, hcd⟩ <;>
    simp [Gen.Term.Trapezoid.membership, X.lt, X.eq, X.le]
theorem trapezoid_ninf (F : Fn α) (a : X α) (b c : α) (d : X α) (h : α) (ha : LeftEnd a b) (hd : RightEnd c d) :
    Gen.Term.Trapezoid.membership F a (fin b) (fin c) d (fin h) ninf = fin (if a = ninf then h else 0) := by
  rcases ha with rfl | ⟨a', rfl, hab⟩ <;> rcases hd with rfl | ⟨d', rfl, hcd⟩ <;>
    simp [Gen.Term.Trapezoid.membership, X.lt, X.eq, X.le]

theorem bell_pinf (F : Fn α) (c w sl h : α) (hw : 0 < w) (hsl : 0 ≤ sl) :
    Gen.Term.Bell.membership F (fin c) (fin w) (fin sl) (fin h) pinf = fin (if sl = 0 then h / 2 else 0) := by
  by_cases h0 : sl = 0
  · subst h0
    have : (1 : α) + 1 ≠ 0 := by norm_num
    simp [Gen.Term.Bell.membership, div_pinf_fin _ hw, powNonneg, div_fin _ _ this]
    ring
  · have hpos : 0 < sl := lt_of_le_of_ne hsl (Ne.symm h0)
    simp [Gen.Term.Bell.membership, div_pinf_fin _ hw, powNonneg, h0, hpos]
theorem bell_ninf (F : Fn α) (c w sl h : α) (hw : 0 < w) (hsl : 0 ≤ sl) :
    Gen.Term.Bell.membership F (fin c) (fin w) (fin sl) (fin h) ninf = fin (if sl = 0 then h / 2 else 0) := by
  by_cases h0 : sl = 0
  · subst h0
    have : (1 : α) + 1 ≠ 0 := by norm_num
    simp [Gen.Term.Bell.membership, div_ninf_fin _ hw, powNonneg, div_fin _ _ this]
    ring
  · have hpos : 0 < sl := lt_of_le_of_ne hsl (Ne.symm h0)
    simp [Gen.Term.Bell.membership, div_ninf_fin _ hw, powNonneg, h0, hpos]

/-- the unit sigmoid factor `1 / (1 + exp(−sl (x − i)))` as it is traced, at `+inf` -/
theorem sigUnit_pinf (F : Fn α) (i sl k : α) (hsl : sl ≠ 0) :
    X.div (fin k) (X.add (fin 1) (X.exp F (X.mul (X.neg (fin sl)) (X.sub pinf (fin i))))) = fin (k * sigLim sl) := by
  rcases lt_or_gt_of_ne hsl with h1 | h1
  · have : 0 < -sl := by linarith
    simp [mul_fin_pinf _ this, sigLim, not_lt.2 h1.le]
  · have : -sl < 0 := by linarith
    have h1' : (1 : α) ≠ 0 := one_ne_zero
    simp [mul_neg_pinf _ this, sigLim, h1, div_fin _ _ h1']
theorem sigUnit_ninf (F : Fn α) (i sl k : α) (hsl : sl ≠ 0) :
    X.div (fin k) (X.add (fin 1) (X.exp F (X.mul (X.neg (fin sl)) (X.sub ninf (fin i))))) =
      fin (k * (1 - sigLim sl)) := by
  rcases lt_or_gt_of_ne hsl with h1 | h1
  · have : 0 < -sl := by linarith
    have h1' : (1 : α) ≠ 0 := one_ne_zero
    simp [mul_fin_ninf _ this, sigLim, not_lt.2 h1.le, div_fin _ _ h1']
  · have : -sl < 0 := by linarith
    simp [mul_neg_ninf _ this, sigLim, h1]

theorem sigmoid_pinf (F : Fn α) (i sl h : α) (hsl : sl ≠ 0) :
    Gen.Term.Sigmoid.membership F (fin i) (fin sl) (fin h) pinf = fin (h * sigLim sl) := by
  unfold Gen.Term.Sigmoid.membership
  simp only [isnan_pinf, sel_false, mul_fin, mul_one, sigUnit_pinf F i sl h hsl]
theorem sigmoid_ninf (F : Fn α) (i sl h : α) (hsl : sl ≠ 0) :
    Gen.Term.Sigmoid.membership F (fin i) (fin sl) (fin h) ninf = fin (h * (1 - sigLim sl)) := by
  unfold Gen.Term.Sigmoid.membership
  simp only [isnan_ninf, sel_false, mul_fin, mul_one, sigUnit_ninf F i sl h hsl]

theorem sigmoidDifference_pinf (F : Fn α) (l r f rt h : α) (hr : r ≠ 0) (hf : f ≠ 0) :
    Gen.Term.SigmoidDifference.membership F (fin l) (fin r) (fin f) (fin rt) (fin h) pinf =
      fin (h * |sigLim r - sigLim f|) := by
  unfold Gen.Term.SigmoidDifference.membership
  simp only [isnan_pinf, sel_false, mul_fin, mul_one, sigUnit_pinf F _ _ _ hr, sigUnit_pinf F _ _ _ hf, sub_fin,
    abs_fin, one_mul]
theorem sigmoidDifference_ninf (F : Fn α) (l r f rt h : α) (hr : r ≠ 0) (hf : f ≠ 0) :
    Gen.Term.SigmoidDifference.membership F (fin l) (fin r) (fin f) (fin rt) (fin h) ninf =
      fin (h * |(1 - sigLim r) - (1 - sigLim f)|) := by
  unfold Gen.Term.SigmoidDifference.membership
  simp only [isnan_ninf, sel_false, mul_fin, mul_one, sigUnit_ninf F _ _ _ hr, sigUnit_ninf F _ _ _ hf, sub_fin,
    abs_fin, one_mul]
theorem sigmoidProduct_pinf (F : Fn α) (l r f rt h : α) (hr : r ≠ 0) (hf : f ≠ 0) :
    Gen.Term.SigmoidProduct.membership F (fin l) (fin r) (fin f) (fin rt) (fin h) pinf =
      fin (h * (sigLim r * sigLim f)) := by
  unfold Gen.Term.SigmoidProduct.membership
  simp only [isnan_pinf, sel_false, mul_fin, mul_one, sigUnit_pinf F _ _ _ hr, sigUnit_pinf F _ _ _ hf, one_mul]
theorem sigmoidProduct_ninf (F : Fn α) (l r f rt h : α) (hr : r ≠ 0) (hf : f ≠ 0) :
    Gen.Term.SigmoidProduct.membership F (fin l) (fin r) (fin f) (fin rt) (fin h) ninf =
      fin (h * ((1 - sigLim r) * (1 - sigLim f))) := by
  unfold Gen.Term.SigmoidProduct.membership
  simp only [isnan_ninf, sel_false, mul_fin, mul_one, sigUnit_ninf F _ _ _ hr, sigUnit_ninf F _ _ _ hf, one_mul]

end TermSpecial
