import FlVerif.Lemmas.CodeDiscrete

/-! # Tie A for `Discrete.create` and `Term.discretize`: the definitions translated from the current sources equal
the code-shaped models `Py.Disc.create` / `Py.Disc.discretize`; for a flat list of numbers `create` pairs them up
like `Op.pairs` -/

set_option linter.unusedSimpArgs false

namespace Py.Disc
open Gen.Code Py.Np

/-- the callee `Discrete.to_xy` (its own translation) returns what the model says -/
theorem to_xy_call (x y : Coord) : (Discrete_to_xy.run x y {} >>= fun r => Py.deref r.ret) = toXy x y := by
  have h := code_toXy x y
  cases ht : toXy x y with
  | error e =>
    rw [ht] at h
    simp only at h
    simp [h, bind, Except.bind]
  | ok v =>
    rw [ht] at h
    obtain ⟨σ, h1, h2⟩ := h
    simp [h1, h2, bind, Except.bind]

/-- **`Discrete.create` as translated from the source = the model `Py.Disc.create`** (same exception, same term) -/
theorem code_discreteCreate (parse : String → Py.M (X Rat)) (name : String) (xy : XY) (height : X Rat) :
    match create parse name xy height with
    | .error e => Discrete_create.run parse name xy height {} = .error e
    | .ok d => ∃ σ, Discrete_create.run parse name xy height {} = .ok σ ∧ σ.ret = some d := by
  unfold Discrete_create.run create
  simp only [to_xy_call]
  cases xy with
  | str s =>
    simp only [XY.isStr, XY.split, XY.isSequence, XY.isTuple, XY.isDict, XY.slice0, XY.slice1, createCoords, if_true,
      Bool.false_eq_true, if_false, bind, Except.bind]
    cases scalarOf parse (.items (evens ((Py.split s).map Item.str))) with
    | error e => simp
    | ok x =>
      cases scalarOf parse (.items (odds ((Py.split s).map Item.str))) with
      | error e => simp
      | ok y => cases ht : toXy x y <;> simp [ht]
  | seq t l =>
    cases t with
    | false =>
      simp only [XY.isStr, XY.isSequence, XY.isTuple, XY.isDict, XY.slice0, XY.slice1, createCoords, if_true,
        Bool.false_eq_true, if_false, bind, Except.bind]
      cases scalarOf parse (.items (evens l)) with
      | error e => simp
      | ok x =>
        cases scalarOf parse (.items (odds l)) with
        | error e => simp
        | ok y => cases ht : toXy x y <;> simp [ht]
    | true =>
      simp only [XY.isStr, XY.isSequence, XY.isTuple, XY.isDict, XY.slice0, XY.slice1, createCoords, if_true,
        Bool.false_eq_true, if_false, bind, Except.bind]
      cases h1 : scalarOf parse (.items (evens l)) with
      | error e => simp [h1]
      | ok x0 =>
        cases h2 : scalarOf parse (.items (odds l)) with
        | error e => simp [h1, h2]
        | ok y0 =>
          cases h3 : (XY.seq true l).index 0 with
          | error e => simp [h1, h2, h3]
          | ok a =>
            cases h4 : scalarOf parse a with
            | error e => simp [h1, h2, h3, h4]
            | ok x =>
              cases h5 : (XY.seq true l).index 1 with
              | error e => simp [h1, h2, h3, h4, h5]
              | ok b =>
                cases h6 : scalarOf parse b with
                | error e => simp [h1, h2, h3, h4, h5, h6]
                | ok y => cases ht : toXy x y <;> simp [h1, h2, h3, h4, h5, h6, ht]
  | pair xs ys =>
    simp only [XY.isStr, XY.isSequence, XY.isTuple, XY.isDict, XY.slice0, XY.slice1, XY.index, createCoords, if_true,
      Bool.false_eq_true, if_false, bind, Except.bind, one_ne_zero]
    cases scalarOf parse (.nested xs) with
    | error e => simp
    | ok x0 =>
      cases scalarOf parse (.nested ys) with
      | error e => simp
      | ok y0 =>
        cases scalarOf parse (.items xs) with
        | error e => simp
        | ok x =>
          cases scalarOf parse (.items ys) with
          | error e => simp
          | ok y => cases ht : toXy x y <;> simp [ht]
  | dict l =>
    simp only [XY.isStr, XY.isSequence, XY.isTuple, XY.isDict, XY.keys, XY.vals, createCoords, if_true,
      Bool.false_eq_true, if_false, bind, Except.bind]
    cases scalarOf parse (.items (l.map (·.1))) with
    | error e => simp
    | ok x =>
      cases scalarOf parse (.items (l.map (·.2))) with
      | error e => simp
      | ok y => cases ht : toXy x y <;> simp [ht]
  | other =>
    simp only [XY.isStr, XY.isSequence, XY.isTuple, XY.isDict, createCoords, Bool.false_eq_true, if_false, bind,
      Except.bind]
    cases ht : toXy (Coord.scalar (.fin 0)) (Coord.scalar (.fin 0)) <;> simp [ht]

/-! ## a flat list of numbers: the pairs of `Op.pairs` -/

theorem mapM_num (parse : String → Py.M (X Rat)) : ∀ l : List (X Rat),
    (l.map Item.num).mapM (toX parse) = .ok l
  | [] => rfl
  | v :: l => by
    rw [List.map_cons, List.mapM_cons, mapM_num parse l]
    rfl

theorem evens_map {β γ : Type} (f : β → γ) : ∀ l : List β, evens (l.map f) = (evens l).map f
  | [] => rfl
  | [_] => rfl
  | a :: b :: r => by simp [evens, evens_map f r]

theorem odds_map {β γ : Type} (f : β → γ) : ∀ l : List β, odds (l.map f) = (odds l).map f
  | [] => rfl
  | [_] => rfl
  | a :: b :: r => by simp [odds, odds_map f r]

theorem zip_self_map {β γ : Type} (f : β × β → γ) : ∀ l : List β, (l.zip l).map f = l.map (fun p => f (p, p))
  | [] => rfl
  | a :: l => by simp [zip_self_map f l]

/-- the entries at the even / odd positions of a list of even length are the two components of its pairs; a list of
    odd length has one more entry at the even positions -/
theorem pairs_evens_odds : ∀ l : List Rat,
    match Op.pairs l with
    | some pts => evens l = pts.map (·.1) ∧ odds l = pts.map (·.2)
    | none => (evens l).length ≠ (odds l).length
  | [] => ⟨rfl, rfl⟩
  | [_] => by simp [Op.pairs, evens, odds]
  | a :: b :: r => by
    have ih := pairs_evens_odds r
    simp only [Op.pairs]
    cases h : Op.pairs r with
    | none => simpa [h, evens, odds] using ih
    | some pts =>
      rw [h] at ih
      simp [evens, odds, ih.1, ih.2]

/-- **a flat list of finite numbers**: the term holds the array of the pairs `Op.pairs l`; an odd number of entries
    is a `ValueError` (the shapes of `x` and `y` differ) -/
theorem create_flat (parse : String → Py.M (X Rat)) (name : String) (l : List Rat) (height : X Rat) :
    create parse name (.seq false (l.map (fun v => Item.num (X.fin v)))) height =
      match Op.pairs l with
      | some pts => .ok ⟨name, Values.ofPts pts, height⟩
      | none => .error .value := by
  have hm : (fun v : Rat => Item.num (X.fin v)) = Item.num ∘ X.fin := rfl
  have hp := pairs_evens_odds l
  simp only [create, createCoords, scalarOf, hm, ← List.map_map, evens_map, odds_map, mapM_num, bind, Except.bind,
    toXy_vec, List.length_map]
  cases h : Op.pairs l with
  | none =>
    rw [h] at hp
    simp [hp]
  | some pts =>
    rw [h] at hp
    simp only [hp.1, hp.2, List.length_map, if_true]
    simp [Values.ofPairs, Values.ofPts, List.zip_map, List.map_map, Function.comp_def, zip_self_map]

/-- a flat *tuple* of two or more numbers is taken for a pair of coordinate sequences: the term holds the 1-D array
    of its first two entries (and no exception for an odd number of entries) -/
theorem create_flat_tuple (parse : String → Py.M (X Rat)) (name : String) (a b : X Rat) (l : List (X Rat))
    (height : X Rat) :
    create parse name (.seq true ((a :: b :: l).map Item.num)) height = .ok ⟨name, .vec [a, b], height⟩ := by
  simp only [create, createCoords, scalarOf, evens_map, odds_map, mapM_num, bind, Except.bind, XY.index]
  simp [toX, toXy, Coord.shape, stackT]

/-- **`Term.discretize` as translated from the source = the model `Py.Disc.discretize`** -/
theorem code_discretize (mem : Row → Py.M Coord) (name : String) (lo hi : X Rat) (resolution : Nat) (mid : Bool) :
    match discretize mem name lo hi resolution mid with
    | .error e => Term_discretize.run mem name lo hi resolution mid {} = .error e
    | .ok d => ∃ σ, Term_discretize.run mem name lo hi resolution mid {} = .ok σ ∧ σ.ret = some d := by
  unfold Term_discretize.run discretize
  simp only [to_xy_call]
  cases mid with
  | true =>
    simp only [if_true, bind, Except.bind]
    cases Py.Np.midpoints lo hi resolution with
    | error e => simp
    | ok x =>
      simp only
      cases mem x with
      | error e => simp
      | ok y => cases ht : toXy (.vec x) y <;> simp [ht]
  | false =>
    simp only [Bool.false_eq_true, if_false, bind, Except.bind]
    cases mem (linspace lo hi resolution) with
    | error e => simp
    | ok y => cases ht : toXy (.vec (linspace lo hi resolution)) y <;> simp [ht]

end Py.Disc
