import FlVerif.Op.Engine

/-! # The `Linear` / `Discrete` branches of the engine model `Op.Engine.membership` are the component models that
`C03.code_linearMembership` / `C03.code_discreteMembership` tie to the code (`Op.Weighted.linear`, `Op.discrete`) -/

namespace Op.Engine
variable {α : Type} [Field α] [LinearOrder α] [IsStrictOrderedRing α]

/-- the dot product of the engine model is the sum of the elementwise products -/
theorem dot_eq_foldr : ∀ cs vs : List (X α), dot cs vs = (List.zipWith X.mul cs vs).foldr X.add (.fin 0)
  | [], _ => by simp [dot]
  | _ :: _, [] => by simp [dot]
  | c :: cs, v :: vs => by simp [dot, dot_eq_foldr cs vs]

/-- `Linear`: with `n` input values, `n` or `n + 1` coefficients give `Op.Weighted.linear`, any other number fails -/
theorem membership_linear (F : Fn α) (inputs : List (X α)) (name : String) (cs : List (X α)) (x : X α) :
    membership F inputs (.linear name cs) x =
      if cs.length = inputs.length ∨ cs.length = inputs.length + 1 then some (Op.Weighted.linear cs inputs) else none := by
  simp only [membership, Op.Weighted.linear, dot_eq_foldr]
  by_cases h1 : cs.length = inputs.length
  · have ht : cs.take inputs.length = cs := by rw [← h1]; exact List.take_length
    simp [h1, ht]
  · by_cases h2 : cs.length = inputs.length + 1
    · simp [h2]
    · simp [h1, h2]

/-- `Discrete`: on finite coordinate pairs (at least one) the engine model is `Op.discrete` -/
theorem membership_discrete (F : Fn α) (inputs : List (X α)) (name : String) (pts : List (α × α)) (hne : pts ≠ [])
    (h x : X α) :
    membership F inputs (.discrete name (pts.map (fun p => X.fin p.1)) (pts.map (fun p => X.fin p.2)) h) x =
      some (Op.discrete pts h x) := by
  have hm : ∀ l : List (α × α), ((l.map (fun p => X.fin p.1)).zip (l.map (fun p => X.fin p.2))).mapM
      (fun (p : X α × X α) => do pure ((← p.1.toFin?), (← p.2.toFin?))) = some l := by
    intro l
    induction l with
    | nil => rfl
    | cons p l ih =>
      simp only [List.map_cons, List.zip_cons_cons, List.mapM_cons, ih]
      rfl
  simp only [membership, hm]
  cases pts with
  | nil => exact absurd rfl hne
  | cons p r => rfl

end Op.Engine
