import FlVerif.Op.IsReady

/-! helper lemmas for C19 -/

namespace Op.Ready

theorem mem_enumFrom {β : Type} {k i : Nat} {x : β} {l : List β} (h : (i, x) ∈ enumFrom k l) :
    k ≤ i ∧ l[i - k]? = some x := by
  induction l generalizing k with
  | nil => simp [enumFrom] at h
  | cons y ys ih =>
    simp only [enumFrom, List.mem_cons, Prod.mk.injEq] at h
    rcases h with ⟨rfl, rfl⟩ | h
    · simp
    · obtain ⟨h1, h2⟩ := ih h
      refine ⟨by omega, ?_⟩
      have : i - k = (i - (k + 1)) + 1 := by omega
      rw [this, List.getElem?_cons_succ]; exact h2

theorem mem_enumFrom_zero {β : Type} {i : Nat} {x : β} {l : List β} (h : (i, x) ∈ enumFrom 0 l) :
    l[i]? = some x := by simpa using (mem_enumFrom h).2

theorem mem_enumFrom_snd {β : Type} {k i : Nat} {x : β} {l : List β} (h : (i, x) ∈ enumFrom k l) : x ∈ l := by
  have := (mem_enumFrom h).2
  exact List.mem_of_getElem? this

theorem exists_enumFrom {β : Type} (k : Nat) {x : β} {l : List β} (h : x ∈ l) : ∃ i, (i, x) ∈ enumFrom k l := by
  induction l generalizing k with
  | nil => simp at h
  | cons y ys ih =>
    simp only [List.mem_cons] at h
    rcases h with rfl | h
    · exact ⟨k, by simp [enumFrom]⟩
    · obtain ⟨i, hi⟩ := ih (k + 1) h
      exact ⟨i, by simp [enumFrom, hi]⟩

end Op.Ready
