import FlVerif.Gen.CodeDegree
import FlVerif.Lemmas.CodeWeighted

/-! # Tie A for `Aggregated.activation_degree`: the definition translated from the current source equals the model
`Op.aggregatedDegree`

The translated function calls the translation of `grouped_terms` (tied to `Op.Weighted.groupedTerms` by
`Op.Weighted.code_groupedTerms`), looks the name of the term up in the dictionary and returns the degree of the group,
or 0.  The model `Op.aggregatedDegree` works on the *raw* degrees the activated terms were constructed with
(`Activated(term, degree, implication)`: the `degree` setter stores `nan_to_num(degree)`), the translated code on the
stored ones; the theorem is stated for the list of `Activated` objects built from raw degrees. -/

namespace Op.Weighted
open Gen.Code Py.W

/-- the degree of the group of a name -/
def degOf (gs : List (Act String Rat)) (n : String) : Option (X Rat) :=
  (gs.find? (fun g => g.1.name == n)).map (·.2)

/-- one step of `grouped_terms` seen from one name -/
def degStep (f : X Rat → X Rat → X Rat) (o : Option (X Rat)) (a : Act String Rat) : Option (X Rat) :=
  match o with
  | none => some (setDegree a.2)
  | some d => some (setDegree (f d a.2))

theorem degOf_insertGroup (f : X Rat → X Rat → X Rat) (a : Act String Rat) (n : String) :
    ∀ gs : List (Act String Rat),
      degOf (insertGroup f a gs) n = if a.1.name = n then degStep f (degOf gs n) a else degOf gs n
  | [] => by
    by_cases h : a.1.name = n <;> simp [insertGroup, degOf, degStep, h]
  | g :: gs => by
    have ih := degOf_insertGroup f a n gs
    by_cases hag : a.1.name = g.1.name
    · by_cases hgn : g.1.name = n
      · simp [insertGroup, degOf, degStep, hag, hgn]
      · simp [insertGroup, degOf, hag, hgn]
    · by_cases hgn : g.1.name = n
      · have han : ¬ a.1.name = n := by rw [← hgn]; exact hag
        simp [insertGroup, degOf, hgn, han]
      · have hb : (g.1.name == n) = false := by simpa using hgn
        simp only [insertGroup, hag, if_false, degOf, List.find?_cons, hb]
        exact ih

theorem degOf_foldl (f : X Rat → X Rat → X Rat) (n : String) :
    ∀ (acts gs : List (Act String Rat)),
      degOf (acts.foldl (fun gs a => insertGroup f a gs) gs) n =
        (acts.filter (fun a => a.1.name == n)).foldl (degStep f) (degOf gs n)
  | [], gs => rfl
  | a :: acts, gs => by
    rw [List.foldl_cons, degOf_foldl f n acts, degOf_insertGroup]
    by_cases h : a.1.name = n <;> simp [h]

theorem nanToNum01_idem (x : X Rat) : X.nanToNum01 (X.nanToNum01 x) = X.nanToNum01 x := by
  cases x <;> rfl

/-- the fold of `grouped_terms` over `Activated` objects built from raw degrees is the fold of the model -/
theorem degStep_foldl (f : X Rat → X Rat → X Rat) (n : String) :
    ∀ (raw : List (Act String Rat)) (o : Option (X Rat)),
      ((raw.map (fun a => (a.1, setDegree a.2))).filter (fun a => a.1.name == n)).foldl (degStep f) o =
        match o with
        | some d => some (((raw.map (fun a => (a.1.name, a.2))).filter (·.1 == n)).foldl
            (fun acc kv => X.nanToNum01 (f acc (X.nanToNum01 kv.2))) d)
        | none =>
          match (raw.map (fun a => (a.1.name, a.2))).filter (·.1 == n) with
          | [] => none
          | (_, d) :: rest =>
            some (rest.foldl (fun acc kv => X.nanToNum01 (f acc (X.nanToNum01 kv.2))) (X.nanToNum01 d))
  | [], o => by cases o <;> rfl
  | a :: raw, o => by
    have ih := degStep_foldl f n raw
    by_cases h : a.1.name = n
    · have hb : (a.1.name == n) = true := by simpa using h
      cases o with
      | none =>
        simp only [List.map_cons, List.filter_cons, hb, if_true, List.foldl_cons, ih, degStep]
        simp [setDegree, nanToNum01_idem]
      | some d =>
        simp only [List.map_cons, List.filter_cons, hb, if_true, List.foldl_cons, ih, degStep]
        simp [setDegree]
    · cases o with
      | none => simpa [List.filter_cons, h] using ih none
      | some d => simpa [List.filter_cons, h] using ih (some d)

/-- `d.get(name)` on the dictionary of the groups -/
theorem dictGet_groups (gs : List (Act String Rat)) (n : String) :
    (dictGet (gs.map (fun g => (g.1.name, g))) n).map (·.2) = degOf gs n := by
  induction gs with
  | nil => rfl
  | cons g gs ih =>
    by_cases h : g.1.name = n
    · simp [dictGet, degOf, h]
    · simpa [dictGet, degOf, h] using ih

end Op.Weighted

namespace Op
open Gen.Code Py.W Op.Weighted

/-- `Aggregated.activation_degree(term)` on the activated terms `Activated(tᵢ, dᵢ, …)`: the aggregated degree of the
    model -/
theorem code_aggregatedDegree (agg : Option (X Rat → X Rat → X Rat)) (raw : List (Act String Rat))
    (t : WTerm String Rat) :
    ∃ σ, Aggregated_activation_degree.run agg (raw.map (fun a => (a.1, setDegree a.2))) t {} = .ok σ ∧
      σ.ret = some (aggregatedDegree (aggregationOr agg) (raw.map (fun a => (a.1.name, a.2))) t.name) := by
  obtain ⟨σg, hg, hret⟩ := Op.Weighted.code_groupedTerms agg (raw.map (fun a => (a.1, setDegree a.2)))
  have hdeg : (dictGet ((groupedTerms agg (raw.map (fun a => (a.1, setDegree a.2)))).map (fun g => (g.1.name, g)))
      t.name).map (·.2) =
      match (raw.map (fun a => (a.1.name, a.2))).filter (·.1 == t.name) with
      | [] => none
      | (_, d) :: rest =>
        some (rest.foldl (fun acc kv => X.nanToNum01 (aggregationOr agg acc (X.nanToNum01 kv.2))) (X.nanToNum01 d)) := by
    rw [dictGet_groups]
    unfold groupedTerms
    rw [degOf_foldl, degStep_foldl]
    rfl
  simp only [Aggregated_activation_degree.run, hg, hret, bind, Except.bind, Py.deref]
  unfold aggregatedDegree
  cases hf : (raw.map (fun a => (a.1.name, a.2))).filter (·.1 == t.name) with
  | nil =>
    rw [hf] at hdeg
    cases hd : dictGet ((groupedTerms agg (raw.map (fun a => (a.1, setDegree a.2)))).map (fun g => (g.1.name, g))) t.name with
    | none => simp
    | some g => rw [hd] at hdeg; simp at hdeg
  | cons kv rest =>
    rw [hf] at hdeg
    cases hd : dictGet ((groupedTerms agg (raw.map (fun a => (a.1, setDegree a.2)))).map (fun g => (g.1.name, g))) t.name with
    | none => rw [hd] at hdeg; simp at hdeg
    | some g =>
      rw [hd] at hdeg
      simp only [Option.map_some, Option.some.injEq] at hdeg
      simp [hdeg]

end Op
