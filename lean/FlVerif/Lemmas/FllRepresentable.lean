import FlVerif.Lemmas.FllImportWF

/-! Helper lemmas for C14: stability of the current height rule, and `canon e = e` on representable engines. -/

namespace Op.FllIO
open Dec Spec.Fll

/-- the current printing rule is stable under the cycle for every number -/
theorem keepHeight_stable (c : Cfg) (h0 : 0 ≤ c.tol) :
    keepHeight c one = false ∧ ∀ h, keepHeight c h = true → keepHeight c (rnd c.d h) = true := by
  constructor
  · simp [keepHeight, isClose1_one c.tol h0]
  · intro h hk
    simp only [keepHeight, Bool.not_eq_true', Bool.or_eq_false_iff] at hk ⊢
    rw [rnd_rnd]; exact ⟨hk.2, hk.2⟩


theorem canonH_rep (c : Cfg) (h0 : 0 ≤ c.tol) (h : Num) (hr : HeightRep c h) : canonH (keepHeight c) c h = h := by
  obtain ⟨hg, he⟩ := hr
  have hg' : rnd c.d h = h := hg
  unfold canonH keepHeight
  rcases he with rfl | hc
  · simp [isClose1_one c.tol h0]
  · simp [hg', hc]

theorem map_eq_self {α} (f : α → α) (l : List α) (h : ∀ a ∈ l, f a = a) : l.map f = l := by
  induction l with
  | nil => rfl
  | cons a l ih => simp [h a (by simp), ih (fun b hb => h b (by simp [hb]))]

theorem canonTerm_rep (c : Cfg) (h0 : 0 ≤ c.tol) (t : Term) (hr : TermRep c t) : canonTerm (keepHeight c) c t = t := by
  obtain ⟨hn, hx, hh⟩ := hr
  have hn' : asIdent t.name = t.name := hn
  cases t with
  | mk name cls body =>
    simp only [canonTerm, Term.mk.injEq, true_and] at hn' ⊢
    refine ⟨hn', ?_⟩
    cases body with
    | shape ps h =>
      cases h with
      | none => simp [canonBody, map_eq_self _ ps (fun a ha => hx a (by simpa [bodyNums] using ha))]
      | some h =>
        simp [canonBody, map_eq_self _ ps (fun a ha => hx a (by simpa [bodyNums] using ha)),
          canonH_rep c h0 h (hh h (by simp [termHeights]))]
    | discrete xy h =>
      simp [canonBody, map_eq_self _ xy (fun a ha => hx a (by simpa [bodyNums] using ha)),
        canonH_rep c h0 h (hh h (by simp [termHeights]))]
    | linear cs => simp [canonBody, map_eq_self _ cs (fun a ha => hx a (by simpa [bodyNums] using ha))]
    | function f => simp [canonBody]

theorem canonVar_rep (c : Cfg) (h0 : 0 ≤ c.tol) (v : Var) (hr : VarRep c v) : canonVar (keepHeight c) c v = v := by
  obtain ⟨hn, hlo, hhi, ht⟩ := hr
  have hn' : asIdent v.name = v.name := hn
  have hlo' : rnd c.d v.lo = v.lo := hlo
  have hhi' : rnd c.d v.hi = v.hi := hhi
  simp [canonVar, hn', hlo', hhi', map_eq_self _ v.terms (fun t h => canonTerm_rep c h0 t (ht t h))]

theorem canonBlock_rep (c : Cfg) (h0 : 0 ≤ c.tol) (b : Block) (hr : BlockRep c b) :
    canonBlock (keepHeight c) c b = b := by
  obtain ⟨ha, hrs⟩ := hr
  have h1 : b.activation.map (canonActiv c) = b.activation := by
    cases hact : b.activation with
    | none => rfl
    | some a =>
      rw [hact] at ha
      cases a with
      | plain cls => rfl
      | best cls r => rfl
      | nth cls r t =>
        have : rnd c.d t = t := ha t (by simp [activNums])
        simp [canonActiv, this]
      | threshold cls cmp t =>
        have : rnd c.d t = t := ha t (by simp [activNums])
        simp [canonActiv, this]
  have h2 : b.rules.map (canonRule (keepHeight c) c) = b.rules :=
    map_eq_self _ _ (fun r hr => by
      have := canonH_rep c h0 r.weight (hrs r hr)
      simp [canonRule, this])
  simp [canonBlock, h1, h2]


end Op.FllIO
