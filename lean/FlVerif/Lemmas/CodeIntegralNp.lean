import FlVerif.Op.PyExtIntegral
import FlVerif.Lemmas.Integral

/-! # Facts about the NumPy vocabulary `Py.Np` (`Op/PyExtIntegral.lean`) used by the ties of the integral
defuzzifiers: on matrices whose rows are computed row by row from one matrix `Y` (`Y.map a`), broadcasting succeeds
and acts row by row. -/

namespace Py.Np
open Op.Integral Lemmas.Integral

variable {β γ δ ι : Type}

@[simp] theorem compat_self (n : Nat) : compat n n = true := by simp [compat]
@[simp] theorem compat_one_right (n : Nat) : compat n 1 = true := by simp [compat]
@[simp] theorem compat_one_left (n : Nat) : compat 1 n = true := by simp [compat]

theorem bcastRow_one (l : List β) : bcastRow 1 l = l := by
  match l with
  | [] => rfl
  | [v] => rfl
  | _ :: _ :: _ => rfl

@[simp] theorem bcastRow_self (l : List β) : bcastRow l.length l = l := bcastRow_len _ l rfl

@[simp] theorem bcastRow_singleton (n : Nat) (v : β) : bcastRow n [v] = List.replicate n v := rfl

theorem zipWith_replicate_right (f : β → γ → δ) (l : List β) (t : γ) :
    List.zipWith f l (List.replicate l.length t) = l.map (fun v => f v t) := by
  induction l with
  | nil => rfl
  | cons a l ih =>
    simp only [List.length_cons, List.replicate_succ, List.zipWith_cons_cons, List.map_cons, ih]

theorem zip_map_map (Y : List ι) (a : ι → β) (b : ι → γ) :
    List.zip (Y.map a) (Y.map b) = Y.map (fun r => (a r, b r)) := by
  induction Y with
  | nil => rfl
  | cons r Y ih => simp only [List.map_cons, List.zip_cons_cons, ih]

theorem replicate_eq_map (Y : List ι) (x : β) : List.replicate Y.length x = Y.map (fun _ => x) := by
  induction Y with
  | nil => rfl
  | cons a l ih => simp only [List.length_cons, List.replicate_succ, List.map_cons, ih]

/-- rows that are computed from the rows of one matrix -/
theorem zipRows_map (f : β → γ → δ) (Y : List ι) (a : ι → List β) (b : ι → List γ)
    (h : ∀ r ∈ Y, compat (a r).length (b r).length = true) :
    zipRows f (Y.map a) (Y.map b) =
      .ok (Y.map (fun r => List.zipWith f (bcastRow (b r).length (a r)) (bcastRow (a r).length (b r)))) := by
  unfold zipRows
  simp only [zip_map_map, List.all_map, List.map_map]
  rw [if_pos]
  · rfl
  · rw [List.all_eq_true]
    intro r hr
    exact h r hr

theorem zip2_map (f : β → γ → δ) (Y : List ι) (a : ι → List β) (b : ι → List γ)
    (h : ∀ r ∈ Y, compat (a r).length (b r).length = true) :
    zip2 f (Y.map a) (Y.map b) =
      .ok (Y.map (fun r => List.zipWith f (bcastRow (b r).length (a r)) (bcastRow (a r).length (b r)))) := by
  unfold zip2
  simp only [List.length_map, compat_self, if_true]
  have e1 : bcastRow Y.length (Y.map a) = Y.map a := bcastRow_len _ _ (by simp)
  have e2 : bcastRow Y.length (Y.map b) = Y.map b := bcastRow_len _ _ (by simp)
  rw [e1, e2]
  exact zipRows_map f Y a b h

/-- rows of equal lengths -/
theorem zip2_same (f : β → γ → δ) (Y : List ι) (a : ι → List β) (b : ι → List γ)
    (h : ∀ r ∈ Y, (a r).length = (b r).length) :
    zip2 f (Y.map a) (Y.map b) = .ok (Y.map (fun r => List.zipWith f (a r) (b r))) := by
  rw [zip2_map f Y a b (fun r hr => by rw [h r hr]; exact compat_self _)]
  congr 1
  apply List.map_congr_left
  intro r hr
  rw [h r hr, bcastRow_self, ← h r hr, bcastRow_self]

/-- a matrix against a column computed from it (`keepdims=True`) -/
theorem zip2_column (f : β → γ → δ) (Y : List ι) (a : ι → List β) (c : ι → γ) :
    zip2 f (Y.map a) (Y.map (fun r => [c r])) = .ok (Y.map (fun r => (a r).map (fun v => f v (c r)))) := by
  rw [zip2_map f Y a _ (fun r _ => compat_one_right _)]
  congr 1
  apply List.map_congr_left
  intro r _
  simp only [List.length_singleton, bcastRow_one, bcastRow_singleton, zipWith_replicate_right]

/-- the single row `x` (shape `(1, n)`) against a matrix whose rows have `n` entries or one -/
theorem zip2_row_left (f : β → γ → δ) (x : List β) (Y : List ι) (b : ι → List γ)
    (h : ∀ r ∈ Y, (b r).length = x.length ∨ (b r).length = 1) :
    zip2 f [x] (Y.map b) = .ok (Y.map (fun r => List.zipWith f x (bcastRow x.length (b r)))) := by
  unfold zip2
  simp only [List.length_singleton, List.length_map, compat_one_left, if_true, bcastRow_singleton, bcastRow_one,
    replicate_eq_map]
  rw [zipRows_map f Y (fun _ => x) b]
  · congr 1
    apply List.map_congr_left
    intro r hr
    rcases h r hr with e | e
    · rw [e, bcastRow_self]
    · rw [e, bcastRow_one]
  · intro r hr
    rcases h r hr with e | e <;> simp [e]

theorem zip2_row_right (f : β → γ → δ) (x : List γ) (Y : List ι) (a : ι → List β)
    (h : ∀ r ∈ Y, (a r).length = x.length ∨ (a r).length = 1) :
    zip2 f (Y.map a) [x] = .ok (Y.map (fun r => List.zipWith f (bcastRow x.length (a r)) x)) := by
  unfold zip2
  simp only [List.length_singleton, List.length_map, compat_one_right, if_true, bcastRow_singleton, bcastRow_one,
    replicate_eq_map]
  rw [zipRows_map f Y a (fun _ => x)]
  · congr 1
    apply List.map_congr_left
    intro r hr
    rcases h r hr with e | e
    · rw [e, bcastRow_self]
    · rw [e, bcastRow_one]
  · intro r hr
    rcases h r hr with e | e <;> simp [e]

theorem zip1_same (f : β → γ → δ) (a : List β) (b : List γ) (h : a.length = b.length) :
    zip1 f a b = .ok (List.zipWith f a b) := by
  unfold zip1
  rw [h, compat_self, if_pos rfl, bcastRow_self, ← h, bcastRow_self]

theorem reduceKeep_map (err : Py.Err) (g : Row → X Rat) (Y : List ι) (a : ι → Row) (h : ∀ r ∈ Y, a r ≠ []) :
    reduceKeep err g (Y.map a) = .ok (Y.map (fun r => [g (a r)])) := by
  unfold reduceKeep
  rw [if_pos]
  · rw [List.map_map]; rfl
  · rw [List.all_eq_true]
    intro r hr
    obtain ⟨q, hq, rfl⟩ := List.mem_map.1 hr
    have := h q hq
    cases hq' : a q <;> simp_all

theorem reduce1_map (err : Py.Err) (g : Row → X Rat) (Y : List ι) (a : ι → Row) (h : ∀ r ∈ Y, a r ≠ []) :
    reduce1 err g (Y.map a) = .ok (Y.map (fun r => g (a r))) := by
  unfold reduce1
  rw [if_pos]
  · rw [List.map_map]; rfl
  · rw [List.all_eq_true]
    intro r hr
    obtain ⟨q, hq, rfl⟩ := List.mem_map.1 hr
    have := h q hq
    cases hq' : a q <;> simp_all

theorem memShape_mem {n : Nat} {Y : Mat} (h : memShape n Y = true) : ∀ r ∈ Y, r.length = n ∨ r.length = 1 := by
  intro r hr
  unfold memShape at h
  simp only [Bool.or_eq_true] at h
  rcases h with h | h
  · exact Or.inl (by simpa using List.all_eq_true.1 h r hr)
  · exact Or.inr (by simpa using List.all_eq_true.1 h r hr)

theorem ne_nil_of_length {l : List β} {n : Nat} (hn : 1 ≤ n) (h : l.length = n ∨ l.length = 1) : l ≠ [] := by
  intro e; subst e; rcases h with h | h <;> simp at h; omega

theorem nancumsumFrom_length (acc : X Rat) (l : List (X Rat)) : (nancumsumFrom acc l).length = l.length := by
  induction l generalizing acc with
  | nil => rfl
  | cons y ys ih => simp [nancumsumFrom, ih]

@[simp] theorem nancumsum_length (l : List (X Rat)) : (nancumsum l).length = l.length := nancumsumFrom_length _ l

@[simp] theorem midpoints_length (lo hi : X Rat) (r : Nat) : (Op.Integral.midpoints lo hi r).length = r := by
  simp [Op.Integral.midpoints]

end Py.Np
