import FlVerif.Lemmas.CodePyExport

/-! # Tie A for the `__repr__` overrides `RuleBlock.__repr__`, `Variable.__repr__`, `OutputVariable.__repr__`: the fields
the translated code hands to `as_constructor` are the fields `Op.PyRepr.passed` keeps for the class, where the
positional flag, the fields never passed and the conditional drops come from the probed table `reprProbe` and the
defaults from `ctorParams` (both regenerated): the probe of two instances is hereby extended to every state of the
object (`description` a string, `enabled` a truth value). -/

namespace Op.PyRepr
open Gen.Code Py.PyExport

theorem lookup_filter_ne {β : Type} (k n : String) :
    ∀ d : List (String × β), (d.filter (fun p => p.1 != k)).lookup n = if n = k then none else d.lookup n
  | [] => by simp
  | (a, b) :: t => by
    have ih := lookup_filter_ne k n t
    rw [List.filter_cons, List.lookup_cons]
    by_cases hak : a = k
    · have h1 : (a != k) = false := by simp [hak]
      simp only [h1, Bool.false_eq_true, if_false, ih]
      by_cases hn : n = k
      · simp only [hn, if_true]
      · have h2 : (n == a) = false := by simp [hak, hn]
        simp only [hn, if_false, h2]
    · have h1 : (a != k) = true := by simp [hak]
      simp only [h1, if_true, List.lookup_cons, ih]
      by_cases hn : n = k
      · subst hn
        have h2 : (n == a) = false := by simpa using fun h => hak h.symm
        simp only [if_true, h2]
      · simp only [hn, if_false]

theorem dictPop_ok {β : Type} (d : List (String × β)) (k : String) (v : β) (h : d.lookup k = some v) :
    dictPop d k = .ok (d.filter (fun p => p.1 != k)) := by
  simp only [dictPop, h]

theorem lookup_dictSet {β : Type} (d : List (String × β)) (k n : String) (v : β) :
    (dictSet d k v).lookup n = if n = k then some v else d.lookup n := by
  rw [dictSet, List.lookup_cons]
  by_cases hn : n = k
  · simp [hn]
  · have h2 : (n == k) = false := by simp [hn]
    simp only [h2, lookup_filter_ne, hn, if_false]

/-- what the tables say about a `__repr__`: positional flag, fields never passed, conditional drops -/
def reprShape (cls : String) : Option (Bool × List String × List (String × DropKind)) :=
  (reprInfoOf cls).map (fun i => (i.positional, i.always, i.cond))

/-- the atom a default-constructed object stores under a constructor parameter -/
def defaultAtom (cls n : String) : Option Atom :=
  (paramsOf cls).bind (fun ps => match defaultOf ps n with
    | some (.atom a) => some a
    | _ => none)

theorem defaultOf_of_atom (cls n : String) (a : Atom) (ps : List Param) (h : defaultAtom cls n = some a)
    (hp : paramsOf cls = some ps) : defaultOf ps n = some (.atom a) := by
  simp only [defaultAtom, hp, Option.bind_some] at h
  split at h
  · next b hb => simp only [Option.some.injEq] at h; rw [hb, h]
  · simp at h

theorem ruleBlock_shape : reprShape "RuleBlock" = some (false, [], [("description", .eqDefault), ("enabled", .eqDefault)]) := by
  decide +kernel
theorem ruleBlock_description : defaultAtom "RuleBlock" "description" = some (.str "") := by decide +kernel
theorem ruleBlock_enabled : defaultAtom "RuleBlock" "enabled" = some (.bool true) := by decide +kernel

/-- the fields a `__repr__` of the common shape passes on: never those of `always`; `description` unless it is
    empty; `enabled` unless it is true -/
theorem passed_shape (env : Env) (ps : List Param) (info : ReprInfo) (vars : List (String × Val)) (always : List String)
    (d : String) (e : Bool) (hal : info.always = always)
    (hc : info.cond = [("description", .eqDefault), ("enabled", .eqDefault)])
    (hdd : defaultOf ps "description" = some (.atom (.str ""))) (hde : defaultOf ps "enabled" = some (.atom (.bool true)))
    (hd : vars.lookup "description" = some (.atom (.str d))) (he : vars.lookup "enabled" = some (.atom (.bool e))) (n : String) :
    passed env ps info vars n =
      if always.contains n then none
      else if n = "description" then (if d = "" then none else some (.atom (.str d)))
      else if n = "enabled" then (if e then none else some (.atom (.bool e)))
      else vars.lookup n := by
  unfold passed dropped
  rw [hal, hc]
  by_cases hA : always.contains n = true
  · simp only [hA, Bool.true_or, if_true]
    cases vars.lookup n <;> rfl
  · simp only [hA, Bool.false_or, Bool.false_eq_true, if_false]
    by_cases h1 : n = "description"
    · subst h1
      simp only [hd, Option.bind_some, List.lookup_cons, beq_self_eq_true, dropHolds, hdd, eqDefaultVal, if_true]
      by_cases h : d = "" <;> simp [h]
    · have h1' : (n == "description") = false := by simp [h1]
      by_cases h2 : n = "enabled"
      · subst h2
        simp only [he, Option.bind_some, List.lookup_cons, h1', beq_self_eq_true, dropHolds, hde, eqDefaultVal, h1, if_false]
        cases e <;> simp
      · have h2' : (n == "enabled") = false := by simp [h2]
        simp only [List.lookup_cons, h1', h2', List.lookup_nil, h1, h2, if_false]
        cases vars.lookup n <;> rfl

theorem shape_of_info (cls : String) (info : ReprInfo) (p : Bool) (al : List String) (cd : List (String × DropKind))
    (hs : reprShape cls = some (p, al, cd)) (hi : reprInfoOf cls = some info) :
    info.positional = p ∧ info.always = al ∧ info.cond = cd := by
  simp only [reprShape, hi, Option.map_some, Option.some.injEq, Prod.mk.injEq] at hs
  exact hs

/-- `if c: fields.pop(k)` on a dictionary that has the key -/
def popIf {β : Type} (c : Bool) (k : String) (l : List (String × β)) : List (String × β) :=
  if c then l.filter (fun p => p.1 != k) else l

theorem lookup_popIf {β : Type} (c : Bool) (k n : String) (l : List (String × β)) :
    (popIf c k l).lookup n = if c ∧ n = k then none else l.lookup n := by
  cases c
  · simp [popIf]
  · simp [popIf, lookup_filter_ne]

theorem variable_shape : reprShape "Variable" = some (false, ["_value"], [("description", .eqDefault), ("enabled", .eqDefault)]) := by
  decide +kernel
theorem variable_description : defaultAtom "Variable" "description" = some (.str "") := by decide +kernel
theorem variable_enabled : defaultAtom "Variable" "enabled" = some (.bool true) := by decide +kernel
theorem outputVariable_shape : reprShape "OutputVariable" =
    some (false, ["_value", "fuzzy", "previous_value"], [("description", .eqDefault), ("enabled", .eqDefault)]) := by
  decide +kernel
theorem outputVariable_description : defaultAtom "OutputVariable" "description" = some (.str "") := by decide +kernel
theorem outputVariable_enabled : defaultAtom "OutputVariable" "enabled" = some (.bool true) := by decide +kernel

/-- the dictionary after the unconditional pops (`base`) and the two conditional ones, against `passed_shape` -/
theorem lookup_fields (base vars : List (String × Val)) (always : List String) (d : String) (e : Bool)
    (hbase : ∀ n, base.lookup n = if always.contains n then none else vars.lookup n)
    (hd : vars.lookup "description" = some (.atom (.str d))) (he : vars.lookup "enabled" = some (.atom (.bool e)))
    (n : String) :
    (popIf e "enabled" (popIf (d == "") "description" base)).lookup n =
      if always.contains n then none
      else if n = "description" then (if d = "" then none else some (.atom (.str d)))
      else if n = "enabled" then (if e then none else some (.atom (.bool e)))
      else vars.lookup n := by
  rw [lookup_popIf, lookup_popIf, hbase]
  by_cases hn : n = "description"
  · subst hn
    by_cases hd' : d = "" <;> simp [hd', hd]
  · by_cases hn2 : n = "enabled"
    · subst hn2
      cases e <;> simp [he]
    · simp [hn, hn2]

theorem lookup_enabled_filter {β : Type} (l : List (String × β)) (x : β) (h : l.lookup "enabled" = some x) :
    (l.filter (fun p => p.1 != "description")).lookup "enabled" = some x := by
  rw [lookup_filter_ne]; simpa using h

/-- the part that the overrides share: `if not self.description: fields.pop("description")`,
    `if self.enabled: fields.pop("enabled")`, then the call; `hd2`, `he2` = the two fields are in the dictionary at
    that point -/
macro "repr_tail " asC:term:max d:ident e:ident hd2:ident he2:ident : tactic => `(tactic| (
  by_cases h1 : $d = ""
  · have h1' : (!($d != "")) = true := by simp [h1]
    have h1'' : ($d == "") = true := by simp [h1]
    simp only [h1', h1'', if_true, dictPop_ok _ _ _ $hd2, bind, Except.bind, popIf]
    cases $e:ident
    · simp only [Bool.false_eq_true, if_false]
      cases $asC _ false <;> rfl
    · simp only [if_true, dictPop_ok _ _ _ (lookup_enabled_filter _ _ $he2)]
      cases $asC _ false <;> rfl
  · have h1' : (!($d != "")) = false := by simp [h1]
    have h1'' : ($d == "") = false := by simp [h1]
    simp only [h1', h1'', Bool.false_eq_true, if_false, bind, Except.bind, popIf]
    cases $e:ident
    · simp only [Bool.false_eq_true, if_false]
      cases $asC _ false <;> rfl
    · simp only [if_true, dictPop_ok _ _ _ $he2]
      cases $asC _ false <;> rfl))

theorem code_reprRuleBlock (env : Env) (asCtor : List (String × Val) → Bool → Py.M String) (vars : List (String × Val))
    (d : String) (e : Bool)
    (hd : vars.lookup "description" = some (.atom (.str d))) (he : vars.lookup "enabled" = some (.atom (.bool e)))
    (ps : List Param) (info : ReprInfo) (hp : paramsOf "RuleBlock" = some ps) (hi : reprInfoOf "RuleBlock" = some info) :
    ∃ fields, RuleBlock_repr.run asCtor vars d e {} =
        (asCtor fields info.positional >>= fun s => .ok { fields := fields, ret := some s }) ∧
      ∀ n, fields.lookup n = passed env ps info vars n := by
  obtain ⟨hpos, hal, hc⟩ := shape_of_info _ info _ _ _ ruleBlock_shape hi
  have hP := passed_shape env ps info vars [] d e hal hc
    (defaultOf_of_atom _ _ _ ps ruleBlock_description hp) (defaultOf_of_atom _ _ _ ps ruleBlock_enabled hp) hd he
  refine ⟨popIf e "enabled" (popIf (d == "") "description" vars), ?_, ?_⟩
  · unfold RuleBlock_repr.run
    rw [hpos]
    repr_tail asCtor d e hd he
  · intro n
    rw [hP n]
    exact lookup_fields _ vars [] d e (fun n => by simp) hd he n

theorem code_reprVariable (env : Env) (asCtor : List (String × Val) → Bool → Py.M String) (vars : List (String × Val))
    (d : String) (e : Bool) (v : Val)
    (hd : vars.lookup "description" = some (.atom (.str d))) (he : vars.lookup "enabled" = some (.atom (.bool e)))
    (hv : vars.lookup "_value" = some v)
    (ps : List Param) (info : ReprInfo) (hp : paramsOf "Variable" = some ps) (hi : reprInfoOf "Variable" = some info) :
    ∃ fields, Variable_repr.run asCtor vars d e {} =
        (asCtor fields info.positional >>= fun s => .ok { fields := fields, ret := some s }) ∧
      ∀ n, fields.lookup n = passed env ps info vars n := by
  obtain ⟨hpos, hal, hc⟩ := shape_of_info _ info _ _ _ variable_shape hi
  have hP := passed_shape env ps info vars _ d e hal hc
    (defaultOf_of_atom _ _ _ ps variable_description hp) (defaultOf_of_atom _ _ _ ps variable_enabled hp) hd he
  have hbase : ∀ n, (vars.filter (fun p => p.1 != "_value")).lookup n = if ["_value"].contains n then none else vars.lookup n := by
    intro n; rw [lookup_filter_ne]; simp
  refine ⟨popIf e "enabled" (popIf (d == "") "description" (vars.filter (fun p => p.1 != "_value"))), ?_, ?_⟩
  · have hd2 : (vars.filter (fun p => p.1 != "_value")).lookup "description" = some (.atom (.str d)) := by
      rw [hbase]; simpa using hd
    have he2 : (vars.filter (fun p => p.1 != "_value")).lookup "enabled" = some (.atom (.bool e)) := by
      rw [hbase]; simpa using he
    unfold Variable_repr.run
    rw [hpos]
    simp only [dictPop_ok _ _ _ hv, bind, Except.bind]
    repr_tail asCtor d e hd2 he2
  · intro n
    rw [hP n]
    exact lookup_fields _ vars _ d e hbase hd he n

/-- the state of an output variable as the model sees it: the attributes, with what the properties `minimum`,
    `maximum`, `aggregation` return under these names -/
def withProperties (vars : List (String × Val)) (mn mx ag : Val) : List (String × Val) :=
  dictSet (dictSet (dictSet vars "minimum" mn) "maximum" mx) "aggregation" ag

theorem lookup_withProperties (vars : List (String × Val)) (mn mx ag : Val) (n : String)
    (h1 : n ≠ "minimum") (h2 : n ≠ "maximum") (h3 : n ≠ "aggregation") :
    (withProperties vars mn mx ag).lookup n = vars.lookup n := by
  simp only [withProperties, lookup_dictSet, h1, h2, h3, if_false]

theorem code_reprOutputVariable (env : Env) (asCtor : List (String × Val) → Bool → Py.M String) (vars : List (String × Val))
    (d : String) (e : Bool) (mn mx ag v1 v2 v3 : Val)
    (hd : vars.lookup "description" = some (.atom (.str d))) (he : vars.lookup "enabled" = some (.atom (.bool e)))
    (hf : vars.lookup "fuzzy" = some v1) (hv : vars.lookup "_value" = some v2) (hpv : vars.lookup "previous_value" = some v3)
    (ps : List Param) (info : ReprInfo) (hp : paramsOf "OutputVariable" = some ps) (hi : reprInfoOf "OutputVariable" = some info) :
    ∃ fields, OutputVariable_repr.run asCtor vars d e mn mx ag {} =
        (asCtor fields info.positional >>= fun s => .ok { fields := fields, ret := some s }) ∧
      ∀ n, fields.lookup n = passed env ps info (withProperties vars mn mx ag) n := by
  obtain ⟨hpos, hal, hc⟩ := shape_of_info _ info _ _ _ outputVariable_shape hi
  have hd' : (withProperties vars mn mx ag).lookup "description" = some (.atom (.str d)) := by
    rw [lookup_withProperties _ _ _ _ _ (by decide) (by decide) (by decide), hd]
  have he' : (withProperties vars mn mx ag).lookup "enabled" = some (.atom (.bool e)) := by
    rw [lookup_withProperties _ _ _ _ _ (by decide) (by decide) (by decide), he]
  have hP := passed_shape env ps info (withProperties vars mn mx ag) _ d e hal hc
    (defaultOf_of_atom _ _ _ ps outputVariable_description hp) (defaultOf_of_atom _ _ _ ps outputVariable_enabled hp) hd' he'
  have hf' : (withProperties vars mn mx ag).lookup "fuzzy" = some v1 := by
    rw [lookup_withProperties _ _ _ _ _ (by decide) (by decide) (by decide), hf]
  have hv' : ((withProperties vars mn mx ag).filter (fun p => p.1 != "fuzzy")).lookup "_value" = some v2 := by
    rw [lookup_filter_ne, lookup_withProperties _ _ _ _ _ (by decide) (by decide) (by decide), hv]; simp
  have hpv' : (((withProperties vars mn mx ag).filter (fun p => p.1 != "fuzzy")).filter (fun p => p.1 != "_value")).lookup "previous_value" = some v3 := by
    rw [lookup_filter_ne, lookup_filter_ne, lookup_withProperties _ _ _ _ _ (by decide) (by decide) (by decide), hpv]; simp
  have hbase : ∀ n, ((((withProperties vars mn mx ag).filter (fun p => p.1 != "fuzzy")).filter (fun p => p.1 != "_value")).filter
      (fun p => p.1 != "previous_value")).lookup n =
      if ["_value", "fuzzy", "previous_value"].contains n then none else (withProperties vars mn mx ag).lookup n := by
    intro n
    rw [lookup_filter_ne, lookup_filter_ne, lookup_filter_ne]
    by_cases h1 : n = "previous_value"
    · simp [h1]
    · by_cases h2 : n = "_value"
      · simp [h2]
      · by_cases h3 : n = "fuzzy"
        · simp [h3]
        · simp [h1, h2, h3]
  refine ⟨popIf e "enabled" (popIf (d == "") "description" ((((withProperties vars mn mx ag).filter (fun p => p.1 != "fuzzy")).filter
      (fun p => p.1 != "_value")).filter (fun p => p.1 != "previous_value"))), ?_, ?_⟩
  · have hd2 := (hbase "description").trans (by simpa using hd')
    have he2 := (hbase "enabled").trans (by simpa using he')
    unfold OutputVariable_repr.run
    rw [hpos]
    have hw : dictSet (dictSet (dictSet vars "minimum" mn) "maximum" mx) "aggregation" ag = withProperties vars mn mx ag := rfl
    simp only [hw, dictPop_ok _ _ _ hf', dictPop_ok _ _ _ hv', dictPop_ok _ _ _ hpv', bind, Except.bind]
    repr_tail asCtor d e hd2 he2
  · intro n
    rw [hP n]
    exact lookup_fields _ _ _ d e hbase hd' he' n

end Op.PyRepr
