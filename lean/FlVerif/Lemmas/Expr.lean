import FlVerif.Spec.Expr

/-! Helper lemmas about the writings of expression trees: the two concrete printers are writings; the tokens of a
    writing of a tree over a table classify back to themselves. -/

namespace Lang

theorem Table.lookup_name {tbl : Table} {s : String} {e : Elem} (h : tbl.lookup s = some e) : e.name = s := by
  induction tbl with
  | nil => simp [Table.lookup] at h
  | cons r rest ih =>
    simp only [Table.lookup] at h
    by_cases hr : r.1 = s
    · simp only [hr, if_true, Option.some.injEq] at h; subst h; simpa [Elem.ofRow] using hr
    · simp only [hr, if_false] at h; exact ih h

theorem Table.lookup_mem {tbl : Table} {s : String} {e : Elem} (h : tbl.lookup s = some e) :
    ∃ r ∈ tbl, Elem.ofRow r = e := by
  induction tbl with
  | nil => simp [Table.lookup] at h
  | cons r rest ih =>
    simp only [Table.lookup] at h
    by_cases hr : r.1 = s
    · simp only [hr, if_true, Option.some.injEq] at h; exact ⟨r, by simp, h⟩
    · simp only [hr, if_false] at h
      obtain ⟨r', hm, he⟩ := ih h
      exact ⟨r', by simp [hm], he⟩

/-- over a well-formed table every tree made of table elements has consistent node kinds -/
theorem Expr.shape_of_over {tbl : Table} (hT : tbl.WellFormed) : ∀ {e : Expr}, e.OverW tbl → e.Shape
  | .leaf _, _ => trivial
  | .words _, _ => trivial
  | .app0 f, h => by
    obtain ⟨hl, ha⟩ := h
    obtain ⟨r, hm, he⟩ := Table.lookup_mem hl
    have := hT.2.1 r hm (by rw [← he] at ha; exact ha)
    rw [← he]; exact this
  | .app1 f x, h => by
    obtain ⟨hl, _, hx⟩ := h
    obtain ⟨r, hm, he⟩ := Table.lookup_mem hl
    refine ⟨fun ho => ?_, Expr.shape_of_over hT hx⟩
    rw [← he] at ho ⊢; exact hT.1 r hm ho
  | .app2 f l r, h => by
    obtain ⟨hl, _, hxl, hxr⟩ := h
    obtain ⟨r', hm, he⟩ := Table.lookup_mem hl
    refine ⟨fun ho => ?_, Expr.shape_of_over hT hxl, Expr.shape_of_over hT hxr⟩
    rw [← he] at ho ⊢; exact hT.1 r' hm ho

/-- the minimal printer produces a writing -/
theorem Expr.prMin_pr : ∀ (e : Expr), e.Shape → ∀ a b, Pr a b e (e.prMin a b)
  | .leaf s, _, a, b => Pr.leaf a b s
  | .words ws, _, a, b => Pr.words a b ws
  | .app0 f, h, a, b => by
    simp only [Expr.prMin]
    split
    · exact Pr.paren a b _ [.el f] (Pr.const 0 0 f h (Nat.zero_le _))
    · exact Pr.const a b f h (by omega)
  | .app1 f x, h, a, b => by
    obtain ⟨_, hx⟩ := h
    simp only [Expr.prMin]
    by_cases hf : f.isOp = true
    · simp only [hf, if_true]
      split
      · exact Pr.paren a b _ _ (Pr.un 0 0 f x _ hf (Nat.zero_le _) (Nat.zero_le _) (Expr.prMin_pr x hx _ _))
      · exact Pr.un a b f x _ hf (by omega) (by omega) (Expr.prMin_pr x hx _ _)
    · have hf' : f.isOp = false := by simpa using hf
      simp only [hf', Bool.false_eq_true, if_false]
      exact Pr.call1 a b f x _ hf' (Expr.prMin_pr x hx _ _)
  | .app2 f l r, h, a, b => by
    obtain ⟨_, hl, hr⟩ := h
    simp only [Expr.prMin]
    by_cases hf : f.isOp = true
    · simp only [hf, if_true]
      split
      · exact Pr.paren a b _ _ (Pr.bin 0 0 f l r _ _ hf (Nat.zero_le _) (Nat.zero_le _)
          (Expr.prMin_pr l hl _ _) (Expr.prMin_pr r hr _ _))
      · exact Pr.bin a b f l r _ _ hf (by omega) (by omega) (Expr.prMin_pr l hl _ _) (Expr.prMin_pr r hr _ _)
    · have hf' : f.isOp = false := by simpa using hf
      simp only [hf', Bool.false_eq_true, if_false]
      exact Pr.call2 a b f l r _ _ hf' (Expr.prMin_pr l hl _ _) (Expr.prMin_pr r hr _ _)

/-- the fully parenthesised printer produces a writing (in every context) -/
theorem Expr.prFull_pr : ∀ (e : Expr), e.Shape → ∀ a b, Pr a b e e.prFull
  | .leaf s, _, a, b => Pr.leaf a b s
  | .words ws, _, a, b => Pr.words a b ws
  | .app0 f, h, a, b => Pr.paren a b _ [.el f] (Pr.const 0 0 f h (Nat.zero_le _))
  | .app1 f x, h, a, b => by
    obtain ⟨_, hx⟩ := h
    simp only [Expr.prFull]
    by_cases hf : f.isOp = true
    · simp only [hf, if_true]
      exact Pr.paren a b _ _ (Pr.un 0 0 f x _ hf (Nat.zero_le _) (Nat.zero_le _) (Expr.prFull_pr x hx _ _))
    · have hf' : f.isOp = false := by simpa using hf
      simp only [hf', Bool.false_eq_true, if_false]
      exact Pr.call1 a b f x _ hf' (Expr.prFull_pr x hx _ _)
  | .app2 f l r, h, a, b => by
    obtain ⟨_, hl, hr⟩ := h
    simp only [Expr.prFull]
    by_cases hf : f.isOp = true
    · simp only [hf, if_true]
      exact Pr.paren a b _ _ (Pr.bin 0 0 f l r _ _ hf (Nat.zero_le _) (Nat.zero_le _)
        (Expr.prFull_pr l hl _ _) (Expr.prFull_pr r hr _ _))
    · have hf' : f.isOp = false := by simpa using hf
      simp only [hf', Bool.false_eq_true, if_false]
      exact Pr.call2 a b f l r _ _ hf' (Expr.prFull_pr l hl _ _) (Expr.prFull_pr r hr _ _)

/-- a token that is its own classification -/
def Tok.Fix (tbl : Table) (t : Tok) : Prop := classify tbl t.str = t

theorem fix_el {tbl : Table} {f : Elem} (h : tbl.lookup f.name = some f) : Tok.Fix tbl (.el f) := by
  simp [Tok.Fix, Tok.str, classify, h]

theorem fix_punct {tbl : Table} (hT : tbl.WellFormed) :
    Tok.Fix tbl .lp ∧ Tok.Fix tbl .rp ∧ Tok.Fix tbl .comma := by
  obtain ⟨_, _, h1, h2, h3, _⟩ := hT
  refine ⟨?_, ?_, ?_⟩ <;> simp [Tok.Fix, Tok.str, classify, h1, h2, h3]

theorem map_fix {tbl : Table} {ts : List Tok} (h : ∀ t ∈ ts, Tok.Fix tbl t) :
    (ts.map Tok.str).map (classify tbl) = ts := by
  induction ts with
  | nil => rfl
  | cons t ts ih =>
    simp only [List.map_cons]
    rw [ih (fun t ht => h t (by simp [ht]))]
    have := h t (by simp)
    simp only [Tok.Fix] at this
    rw [this]

/-- the classification of a string is a fixed point -/
theorem classify_fix (tbl : Table) (s : String) : Tok.Fix tbl (classify tbl s) := by
  unfold Tok.Fix classify
  cases h : tbl.lookup s with
  | some e =>
    have hn := Table.lookup_name h
    simp only [Tok.str, hn, h]
  | none =>
    by_cases h1 : s = "("
    · subst h1; simp [Tok.str, h]
    · by_cases h2 : s = ")"
      · subst h2; simp [Tok.str, h]
      · by_cases h3 : s = ","
        · subst h3; simp [Tok.str, h]
        · simp [h1, h2, h3, Tok.str, h]

/-- elements produced by the classification are rows of the table -/
theorem classify_el {tbl : Table} {s : String} {f : Elem} (h : classify tbl s = .el f) :
    ∃ r ∈ tbl, Elem.ofRow r = f := by
  unfold classify at h
  cases hl : tbl.lookup s with
  | some e => rw [hl] at h; simp only [Tok.el.injEq] at h; subst h; exact Table.lookup_mem hl
  | none =>
    rw [hl] at h; simp only at h
    by_cases h1 : s = "(" <;> by_cases h2 : s = ")" <;> by_cases h3 : s = "," <;> simp [h1, h2, h3] at h

/-- all tokens of a writing of a tree over the table are classified as themselves -/
theorem Pr.fix {tbl : Table} (hT : tbl.WellFormed) {a b : Nat} {e : Expr} {ts : List Tok} (hp : Pr a b e ts) :
    e.OverW tbl → ∀ t ∈ ts, Tok.Fix tbl t := by
  obtain ⟨flp, frp, fcm⟩ := fix_punct hT
  induction hp with
  | leaf a b s => intro ho t ht; simp at ht; subst ht; exact ho
  | words a b ws =>
    intro ho t ht
    obtain ⟨w, hw, rfl⟩ := List.mem_map.1 ht
    exact ho w hw
  | const a b f _ _ => intro ho t ht; simp at ht; subst ht; exact fix_el ho.1
  | un a b u x ts _ _ _ _ ih =>
    intro ho t ht
    rcases List.mem_cons.1 ht with h | h
    · subst h; exact fix_el ho.1
    · exact ih ho.2.2 t h
  | bin a b o l r tl tr _ _ _ _ _ ihl ihr =>
    intro ho t ht
    rcases List.mem_append.1 ht with h | h
    · exact ihl ho.2.2.1 t h
    · rcases List.mem_cons.1 h with h | h
      · subst h; exact fix_el ho.1
      · exact ihr ho.2.2.2 t h
  | call1 a b f x ts _ _ ih =>
    intro ho t ht
    simp only [List.mem_cons, List.mem_append, List.not_mem_nil, or_false] at ht
    rcases ht with (h | h | h) | h
    · subst h; exact fix_el ho.1
    · subst h; exact flp
    · exact ih ho.2.2 t h
    · subst h; exact frp
  | call2 a b f l r tl tr _ _ _ ihl ihr =>
    intro ho t ht
    simp only [List.mem_cons, List.mem_append, List.not_mem_nil, or_false] at ht
    rcases ht with ((h | h | h) | h | h) | h
    · subst h; exact fix_el ho.1
    · subst h; exact flp
    · exact ihl ho.2.2.1 t h
    · subst h; exact fcm
    · exact ihr ho.2.2.2 t h
    · subst h; exact frp
  | paren a b e ts _ ih =>
    intro ho t ht
    simp only [List.mem_cons, List.mem_append, List.not_mem_nil, or_false] at ht
    rcases ht with (h | h) | h
    · subst h; exact flp
    · exact ih ho t h
    · subst h; exact frp

/-- the postfix tokens of a tree over the table classify as themselves -/
theorem Expr.pfx_fix {tbl : Table} : ∀ {e : Expr}, e.OverW tbl → ∀ t ∈ e.pfx, Tok.Fix tbl t
  | .leaf s, ho, t, ht => by simp [Expr.pfx] at ht; subst ht; exact ho
  | .words ws, ho, t, ht => by
    obtain ⟨w, hw, rfl⟩ := List.mem_map.1 ht
    exact ho w hw
  | .app0 f, ho, t, ht => by simp [Expr.pfx] at ht; subst ht; exact fix_el ho.1
  | .app1 f x, ho, t, ht => by
    simp only [Expr.pfx, List.mem_append, List.mem_cons, List.not_mem_nil, or_false] at ht
    rcases ht with h | h
    · exact Expr.pfx_fix ho.2.2 t h
    · subst h; exact fix_el ho.1
  | .app2 f l r, ho, t, ht => by
    simp only [Expr.pfx, List.mem_append, List.mem_cons, List.not_mem_nil, or_false] at ht
    rcases ht with (h | h) | h
    · exact Expr.pfx_fix ho.2.2.1 t h
    · exact Expr.pfx_fix ho.2.2.2 t h
    · subst h; exact fix_el ho.1

end Lang
