import FlVerif.Gen.CodeEngineIO
import FlVerif.Lemmas.CodeRule

/-! # Tie A for the look-ups of `Engine`: `variables`, `variable`, `input_variable`, `output_variable`, `rule_block`,
    `__getitem__` as translated from the current source equal the models of `Op/EngineIO.lean` -/

namespace Op.Engine
open Lang Gen.Code

/-- Python's `l[i]` for an `int` (the run-time primitive of the translation) is the model's `atIndex` -/
theorem atKey_index {β : Type} (l : List β) (i : Int) :
    Py.EIO.atKey l (.index i) = (match atIndex l i with | some x => .ok x | none => .error .lookup) := by
  unfold Py.EIO.atKey Py.nthInt Py.normIndex atIndex Py.nth
  by_cases h0 : 0 ≤ i
  · simp only [h0, if_true]
    by_cases h1 : i.toNat < l.length
    · simp only [h1, if_true]; rfl
    · simp only [h1, if_false]
      have : l[i.toNat]? = none := by simp; omega
      simp only [this]
  · simp only [h0, if_false]
    by_cases h1 : -i ≤ (l.length : Int)
    · have h2 : (-i).toNat ≤ l.length := by omega
      simp only [h1, h2, if_true]; rfl
    · have h2 : ¬ (-i).toNat ≤ l.length := by omega
      simp only [h1, h2, if_false]

theorem toPy_isPython (e : ErrKind) : Py.Err.isPython e.toPy = true := by cases e <;> rfl

/-! ## `Engine.variables`, `Engine.variable` -/

theorem code_variables {V : Type} [Inhabited V] (ins outs : List V) :
    ∃ σ, Engine_variables.run ins outs {} = .ok σ ∧ σ.ret = some (ins ++ outs) := ⟨_, rfl, rfl⟩

theorem code_variableLoop {V : Type} [Inhabited V] (nameOf : V → String) (ins outs : List V) (s : String) :
    ∀ (l : List V) (σ : Engine_variable.S V),
      ∃ σ', Engine_variable.loop1 nameOf ins outs s l σ = .ok σ' ∧
        σ'.ret = (match l.find? (fun x => nameOf x == s) with | some x => some x | none => σ.ret)
  | [], σ => ⟨σ, rfl, rfl⟩
  | x :: l, σ => by
    simp only [Engine_variable.loop1, List.find?_cons]
    cases h : (nameOf x == s)
    · simp only [Bool.false_eq_true, if_false]
      exact code_variableLoop nameOf ins outs s l { σ with variable_ := x }
    · simp only [if_true]
      exact ⟨_, rfl, rfl⟩

/-- **`Engine.variable` as translated from the source = `Op.Engine.lookupVariable`** -/
theorem code_variable {V : Type} [Inhabited V] (nameOf : V → String) (ins outs : List V) (name : String) :
    match lookupVariable nameOf ins outs name with
    | .error e => Engine_variable.run nameOf ins outs name {} = .error e.toPy
    | .ok x => ∃ σ, Engine_variable.run nameOf ins outs name {} = .ok σ ∧ σ.ret = some x := by
  unfold lookupVariable lookup Engine_variable.run Engine_variables.run
  simp only [bind, Except.bind, Py.deref_some]
  obtain ⟨σ', h, hr⟩ := code_variableLoop nameOf ins outs name (ins ++ outs) {}
  simp only [h]
  cases hf : (ins ++ outs).find? (fun x => nameOf x == name) with
  | none =>
    rw [hf] at hr
    have : σ'.ret = none := hr
    simp only [this, Option.isSome_none, Bool.false_eq_true, if_false, ErrKind.toPy]
  | some x =>
    rw [hf] at hr
    simp only [hr, Option.isSome_some, if_true]
    exact ⟨σ', rfl, hr⟩

/-! ## `Engine.input_variable`, `Engine.output_variable`, `Engine.rule_block`: three times the same function -/

theorem code_inputVariableLoop {V : Type} [Inhabited V] (nameOf : V → String) (comps : List V) (s : String) :
    ∀ (l : List V) (σ : Engine_input_variable.S V),
      ∃ σ', Engine_input_variable.loop1 nameOf comps (.name s) l σ = .ok σ' ∧
        σ'.ret = (match l.find? (fun x => nameOf x == s) with | some x => some x | none => σ.ret)
  | [], σ => ⟨σ, rfl, rfl⟩
  | x :: l, σ => by
    simp only [Engine_input_variable.loop1, Key.isName]
    by_cases h : (nameOf x == s) = true
    · simp only [h, if_true, List.find?_cons_of_pos]
      exact ⟨_, rfl, rfl⟩
    · have hf : (nameOf x == s) = false := Bool.eq_false_iff.mpr h
      rw [List.find?_cons_of_neg (p := fun x => nameOf x == s) h]
      simp only [hf, Bool.false_eq_true, if_false]
      exact code_inputVariableLoop nameOf comps s l { σ with variable_ := x }

/-- **`Engine.input_variable` as translated from the source = `Op.Engine.lookup`** -/
theorem code_inputVariable {V : Type} [Inhabited V] (nameOf : V → String) (comps : List V) (k : Key) :
    match lookup nameOf comps k with
    | .error e => Engine_input_variable.run nameOf comps k {} = .error e.toPy
    | .ok x => ∃ σ, Engine_input_variable.run nameOf comps k {} = .ok σ ∧ σ.ret = some x := by
  cases k with
  | index i =>
    simp only [lookup, Engine_input_variable.run, Key.isInt, if_true, atKey_index]
    cases atIndex comps i with
    | none => simp only [bind, Except.bind, ErrKind.toPy]
    | some x => exact ⟨_, rfl, rfl⟩
  | name s =>
    simp only [lookup, Engine_input_variable.run, Key.isInt, Bool.false_eq_true, if_false, bind, Except.bind]
    obtain ⟨σ', h, hr⟩ := code_inputVariableLoop nameOf comps s comps {}
    simp only [h]
    cases hf : comps.find? (fun x => nameOf x == s) with
    | none =>
      rw [hf] at hr
      have : σ'.ret = none := hr
      simp only [this, Option.isSome_none, Bool.false_eq_true, if_false, ErrKind.toPy]
    | some x =>
      rw [hf] at hr
      simp only [hr, Option.isSome_some, if_true]
      exact ⟨σ', rfl, hr⟩

theorem code_outputVariableLoop {V : Type} [Inhabited V] (nameOf : V → String) (comps : List V) (s : String) :
    ∀ (l : List V) (σ : Engine_output_variable.S V),
      ∃ σ', Engine_output_variable.loop1 nameOf comps (.name s) l σ = .ok σ' ∧
        σ'.ret = (match l.find? (fun x => nameOf x == s) with | some x => some x | none => σ.ret)
  | [], σ => ⟨σ, rfl, rfl⟩
  | x :: l, σ => by
    simp only [Engine_output_variable.loop1, Key.isName]
    by_cases h : (nameOf x == s) = true
    · simp only [h, if_true, List.find?_cons_of_pos]
      exact ⟨_, rfl, rfl⟩
    · have hf : (nameOf x == s) = false := Bool.eq_false_iff.mpr h
      rw [List.find?_cons_of_neg (p := fun x => nameOf x == s) h]
      simp only [hf, Bool.false_eq_true, if_false]
      exact code_outputVariableLoop nameOf comps s l { σ with variable_ := x }

/-- **`Engine.output_variable` as translated from the source = `Op.Engine.lookup`** -/
theorem code_outputVariable {V : Type} [Inhabited V] (nameOf : V → String) (comps : List V) (k : Key) :
    match lookup nameOf comps k with
    | .error e => Engine_output_variable.run nameOf comps k {} = .error e.toPy
    | .ok x => ∃ σ, Engine_output_variable.run nameOf comps k {} = .ok σ ∧ σ.ret = some x := by
  cases k with
  | index i =>
    simp only [lookup, Engine_output_variable.run, Key.isInt, if_true, atKey_index]
    cases atIndex comps i with
    | none => simp only [bind, Except.bind, ErrKind.toPy]
    | some x => exact ⟨_, rfl, rfl⟩
  | name s =>
    simp only [lookup, Engine_output_variable.run, Key.isInt, Bool.false_eq_true, if_false, bind, Except.bind]
    obtain ⟨σ', h, hr⟩ := code_outputVariableLoop nameOf comps s comps {}
    simp only [h]
    cases hf : comps.find? (fun x => nameOf x == s) with
    | none =>
      rw [hf] at hr
      have : σ'.ret = none := hr
      simp only [this, Option.isSome_none, Bool.false_eq_true, if_false, ErrKind.toPy]
    | some x =>
      rw [hf] at hr
      simp only [hr, Option.isSome_some, if_true]
      exact ⟨σ', rfl, hr⟩

theorem code_ruleBlockLoop {V : Type} [Inhabited V] (nameOf : V → String) (comps : List V) (s : String) :
    ∀ (l : List V) (σ : Engine_rule_block.S V),
      ∃ σ', Engine_rule_block.loop1 nameOf comps (.name s) l σ = .ok σ' ∧
        σ'.ret = (match l.find? (fun x => nameOf x == s) with | some x => some x | none => σ.ret)
  | [], σ => ⟨σ, rfl, rfl⟩
  | x :: l, σ => by
    simp only [Engine_rule_block.loop1, Key.isName]
    by_cases h : (nameOf x == s) = true
    · simp only [h, if_true, List.find?_cons_of_pos]
      exact ⟨_, rfl, rfl⟩
    · have hf : (nameOf x == s) = false := Bool.eq_false_iff.mpr h
      rw [List.find?_cons_of_neg (p := fun x => nameOf x == s) h]
      simp only [hf, Bool.false_eq_true, if_false]
      exact code_ruleBlockLoop nameOf comps s l { σ with block := x }

/-- **`Engine.rule_block` as translated from the source = `Op.Engine.lookup`** -/
theorem code_ruleBlock {V : Type} [Inhabited V] (nameOf : V → String) (comps : List V) (k : Key) :
    match lookup nameOf comps k with
    | .error e => Engine_rule_block.run nameOf comps k {} = .error e.toPy
    | .ok x => ∃ σ, Engine_rule_block.run nameOf comps k {} = .ok σ ∧ σ.ret = some x := by
  cases k with
  | index i =>
    simp only [lookup, Engine_rule_block.run, Key.isInt, if_true, atKey_index]
    cases atIndex comps i with
    | none => simp only [bind, Except.bind, ErrKind.toPy]
    | some x => exact ⟨_, rfl, rfl⟩
  | name s =>
    simp only [lookup, Engine_rule_block.run, Key.isInt, Bool.false_eq_true, if_false, bind, Except.bind]
    obtain ⟨σ', h, hr⟩ := code_ruleBlockLoop nameOf comps s comps {}
    simp only [h]
    cases hf : comps.find? (fun x => nameOf x == s) with
    | none =>
      rw [hf] at hr
      have : σ'.ret = none := hr
      simp only [this, Option.isSome_none, Bool.false_eq_true, if_false, ErrKind.toPy]
    | some x =>
      rw [hf] at hr
      simp only [hr, Option.isSome_some, if_true]
      exact ⟨σ', rfl, hr⟩

/-! ## `Engine.__getitem__` -/

/-- **`Engine.__getitem__` as translated from the source = `Op.Engine.getItem`**: the three generated look-ups in the
    order input variables, output variables, rule blocks; whatever a look-up raises is swallowed -/
theorem code_getItem (ins : List (InVar Rat)) (outs : List (OutVar Rat)) (bls : List (String × Block Rat)) (k : Key) :
    match getItem ins outs bls k with
    | .error e => Engine_getitem.run ins outs bls k {} = .error e.toPy
    | .ok c => ∃ σ, Engine_getitem.run ins outs bls k {} = .ok σ ∧ σ.ret = some c := by
  unfold getItem Engine_getitem.run
  simp only [Engine_getitem.loop1]
  have H1 := code_inputVariable (fun v : InVar Rat => v.name) ins k
  cases h1 : lookup (fun v : InVar Rat => v.name) ins k with
  | ok v =>
    rw [h1] at H1; obtain ⟨σ1, e1, r1⟩ := H1
    simp only [e1, bind, Except.bind, r1, Py.deref_some]
    exact ⟨_, rfl, rfl⟩
  | error e1 =>
    rw [h1] at H1; simp only at H1
    simp only [H1, bind, Except.bind, toPy_isPython, if_true]
    have H2 := code_outputVariable (fun v : OutVar Rat => v.name) outs k
    cases h2 : lookup (fun v : OutVar Rat => v.name) outs k with
    | ok v =>
      rw [h2] at H2; obtain ⟨σ2, e2, r2⟩ := H2
      simp only [e2, r2, Py.deref_some]
      exact ⟨_, rfl, rfl⟩
    | error e2 =>
      rw [h2] at H2; simp only at H2
      simp only [H2, toPy_isPython, if_true]
      have H3 := code_ruleBlock (fun b : String × Block Rat => b.1) bls k
      cases h3 : lookup (fun b : String × Block Rat => b.1) bls k with
      | ok v =>
        rw [h3] at H3; obtain ⟨σ3, e3, r3⟩ := H3
        simp only [e3, r3, Py.deref_some]
        exact ⟨_, rfl, rfl⟩
      | error e3 =>
        rw [h3] at H3; simp only at H3
        simp only [H3, toPy_isPython, if_true]
        rfl

end Op.Engine
