import FlVerif.Spec.Defuzz
import FlVerif.Op.Integral
import Mathlib.Tactic.Ring
import Mathlib.Tactic.Linarith
import Mathlib.Tactic.FieldSimp
import Mathlib.Tactic.Positivity

/-! Helper lemmas for C09: the NumPy-shaped reductions of `Op.Integral` on rows of finite values, and list
    facts about sums, extrema and cumulative sums. -/

set_option linter.unusedSectionVars false

namespace Lemmas.Integral
variable {α : Type} [Field α] [LinearOrder α] [IsStrictOrderedRing α]
open X Spec Op.Integral

/-- the row of sample points / memberships as NumPy sees them -/
def fx (ps : List (α × α)) : List (X α) := ps.map (fun p => fin p.1)
def fy (ps : List (α × α)) : List (X α) := ps.map (fun p => fin p.2)

@[simp] theorem fx_nil : fx ([] : List (α × α)) = [] := rfl
@[simp] theorem fy_nil : fy ([] : List (α × α)) = [] := rfl
@[simp] theorem fx_cons (p : α × α) (ps) : fx (p :: ps) = fin p.1 :: fx ps := rfl
@[simp] theorem fy_cons (p : α × α) (ps) : fy (p :: ps) = fin p.2 :: fy ps := rfl
@[simp] theorem fx_length (ps : List (α × α)) : (fx ps).length = ps.length := by simp [fx]
@[simp] theorem fy_length (ps : List (α × α)) : (fy ps).length = ps.length := by simp [fy]

/-! ## sums -/

theorem sum_fin (l : List α) : Op.Integral.sum (l.map fin) = fin l.sum := by
  induction l with
  | nil => rfl
  | cons a l ih => simp only [Op.Integral.sum, List.map, List.foldr, List.sum_cons] at *; rw [ih]; rfl

theorem bcastRow_len {β : Type} (n : Nat) (y : List β) (h : y.length = n) : bcastRow n y = y := by
  match y, h with
  | [], _ => rfl
  | [v], h => simp at h; subst h; rfl
  | _ :: _ :: _, _ => rfl

theorem zipWith_mul_fx_fy (ps : List (α × α)) :
    List.zipWith mul (fx ps) (fy ps) = (ps.map (fun p => p.1 * p.2)).map fin := by
  induction ps with
  | nil => rfl
  | cons p ps ih => simp [ih]

theorem sumY_nonneg (ps : List (α × α)) (h : ∀ p ∈ ps, 0 ≤ p.2) : 0 ≤ sumY ps := by
  induction ps with
  | nil => simp [sumY]
  | cons p ps ih =>
    have h1 := h p (by simp)
    have h2 := ih (fun q hq => h q (by simp [hq]))
    simp only [sumY, List.map, List.sum_cons] at *
    linarith

theorem sumY_eq_zero_iff (ps : List (α × α)) (h : ∀ p ∈ ps, 0 ≤ p.2) :
    sumY ps = 0 ↔ ∀ p ∈ ps, p.2 = 0 := by
  induction ps with
  | nil => simp [sumY]
  | cons p ps ih =>
    have h1 := h p (by simp)
    have hps : ∀ q ∈ ps, 0 ≤ q.2 := fun q hq => h q (by simp [hq])
    have h2 := sumY_nonneg ps hps
    have ih' := ih hps
    simp only [sumY, List.map, List.sum_cons] at *
    constructor
    · intro h0 q hq
      have e1 : p.2 = 0 := by linarith
      have e2 : (List.map Prod.snd ps).sum = 0 := by linarith
      rcases List.mem_cons.1 hq with rfl | hq
      · exact e1
      · exact ih'.1 e2 q hq
    · intro h0
      have e1 := h0 p (by simp)
      have e2 := ih'.2 (fun q hq => h0 q (by simp [hq]))
      rw [e1, e2]; simp

theorem sumXY_eq_zero (ps : List (α × α)) (h : ∀ p ∈ ps, p.2 = 0) : sumXY ps = 0 := by
  induction ps with
  | nil => simp [sumXY]
  | cons p ps ih =>
    have e1 := h p (by simp)
    have e2 := ih (fun q hq => h q (by simp [hq]))
    simp only [sumXY, List.map, List.sum_cons] at *
    rw [e1, e2]; simp

theorem sumXY_bounds (lo hi : α) (ps : List (α × α)) (hy : ∀ p ∈ ps, 0 ≤ p.2)
    (hx : ∀ p ∈ ps, lo ≤ p.1 ∧ p.1 ≤ hi) : lo * sumY ps ≤ sumXY ps ∧ sumXY ps ≤ hi * sumY ps := by
  induction ps with
  | nil => simp [sumY, sumXY]
  | cons p ps ih =>
    have h1 := hy p (by simp)
    have h2 := hx p (by simp)
    have ih' := ih (fun q hq => hy q (by simp [hq])) (fun q hq => hx q (by simp [hq]))
    simp only [sumY, sumXY, List.map, List.sum_cons] at *
    constructor
    · nlinarith [mul_nonneg (sub_nonneg.2 h2.1) h1]
    · nlinarith [mul_nonneg (sub_nonneg.2 h2.2) h1]

theorem div_zero_zero : div (fin (0 : α)) (fin 0) = nan := by simp [div, mulInf]

theorem centroid_eq (ps : List (α × α)) (hy : ∀ p ∈ ps, 0 ≤ p.2) :
    Op.Integral.centroid (fx ps) (fy ps) = Spec.centroid ps := by
  unfold Op.Integral.centroid Spec.centroid
  rw [bcastRow_len _ _ (by simp), zipWith_mul_fx_fy, sum_fin]
  have : fy ps = (ps.map Prod.snd).map fin := by simp [fy]
  rw [this, sum_fin]
  change div (fin (sumXY ps)) (fin (sumY ps)) = _
  by_cases h0 : sumY ps = 0
  · rw [if_pos h0, h0, sumXY_eq_zero ps ((sumY_eq_zero_iff ps hy).1 h0)]; exact div_zero_zero
  · rw [if_neg h0, div_fin _ _ h0]

/-! ## means, smallest, largest -/

theorem natCast_ne_zero {n : Nat} (h : n ≠ 0) : (n : α) ≠ 0 := Nat.cast_ne_zero.2 h

theorem mean_fin (l : List α) : div (Op.Integral.sum (l.map fin)) (fin (l.length : α)) = Spec.mean l := by
  unfold Spec.mean
  rw [sum_fin]
  by_cases h : l.length = 0
  · rw [if_pos h]
    have : l = [] := List.length_eq_zero_iff.1 h
    subst this; simpa using (div_zero_zero (α := α))
  · rw [if_neg h, div_fin _ _ (natCast_ne_zero h)]

theorem foldl_npmin_fin (l : List α) (a : α) : (l.map fin).foldl npmin (fin a) = fin (l.foldl min a) := by
  induction l generalizing a with
  | nil => rfl
  | cons b l ih => simp only [List.map, List.foldl, npmin_fin]; exact ih _
theorem foldl_npmax_fin (l : List α) (a : α) : (l.map fin).foldl npmax (fin a) = fin (l.foldl max a) := by
  induction l generalizing a with
  | nil => rfl
  | cons b l ih => simp only [List.map, List.foldl, npmax_fin]; exact ih _

theorem npMin_fin (l : List α) : npMin (l.map fin) = Spec.smallest l := by
  cases l with
  | nil => rfl
  | cons a l => simp only [List.map, npMin, Spec.smallest]; exact foldl_npmin_fin l a
theorem npMax_fin (l : List α) : npMax (l.map fin) = Spec.largest l := by
  cases l with
  | nil => rfl
  | cons a l => simp only [List.map, npMax, Spec.largest]; exact foldl_npmax_fin l a

theorem foldl_min_le (xs : List α) (a : α) : xs.foldl min a ≤ a ∧ ∀ x ∈ xs, xs.foldl min a ≤ x := by
  induction xs generalizing a with
  | nil => simp
  | cons y ys ih =>
    simp only [List.foldl]
    obtain ⟨h1, h2⟩ := ih (min a y)
    refine ⟨le_trans h1 (min_le_left _ _), ?_⟩
    intro x hx
    rcases List.mem_cons.1 hx with rfl | hx
    · exact le_trans h1 (min_le_right _ _)
    · exact h2 x hx

theorem le_foldl_max (xs : List α) (a : α) : a ≤ xs.foldl max a ∧ ∀ x ∈ xs, x ≤ xs.foldl max a := by
  induction xs generalizing a with
  | nil => simp
  | cons y ys ih =>
    simp only [List.foldl]
    obtain ⟨h1, h2⟩ := ih (max a y)
    refine ⟨le_trans (le_max_left _ _) h1, ?_⟩
    intro x hx
    rcases List.mem_cons.1 hx with rfl | hx
    · exact le_trans (le_max_right _ _) h1
    · exact h2 x hx

theorem foldl_min_mem (xs : List α) (a : α) : xs.foldl min a = a ∨ xs.foldl min a ∈ xs := by
  induction xs generalizing a with
  | nil => simp
  | cons y ys ih =>
    simp only [List.foldl]
    rcases ih (min a y) with h | h
    · rcases min_choice a y with e | e
      · left; rw [h, e]
      · right; rw [h, e]; simp
    · right; simp [h]

theorem foldl_max_mem (xs : List α) (a : α) : xs.foldl max a = a ∨ xs.foldl max a ∈ xs := by
  induction xs generalizing a with
  | nil => simp
  | cons y ys ih =>
    simp only [List.foldl]
    rcases ih (max a y) with h | h
    · rcases max_choice a y with e | e
      · left; rw [h, e]
      · right; rw [h, e]; simp
    · right; simp [h]

/-- an element equals the maximum of the list iff it dominates every element -/
theorem eq_foldl_max_iff (a : α) (xs : List α) {y : α} (hy : y ∈ a :: xs) :
    y = xs.foldl max a ↔ ∀ q ∈ a :: xs, q ≤ y := by
  obtain ⟨h1, h2⟩ := le_foldl_max xs a
  constructor
  · intro e q hq
    rw [e]
    rcases List.mem_cons.1 hq with rfl | hq
    · exact h1
    · exact h2 q hq
  · intro h
    apply le_antisymm
    · rcases List.mem_cons.1 hy with rfl | hy
      · exact h1
      · exact h2 y hy
    · rcases foldl_max_mem xs a with e | e
      · rw [e]; exact h a (by simp)
      · exact h _ (by simp [e])

theorem eq_foldl_min_iff (a : α) (xs : List α) {y : α} (hy : y ∈ a :: xs) :
    y = xs.foldl min a ↔ ∀ q ∈ a :: xs, y ≤ q := by
  obtain ⟨h1, h2⟩ := foldl_min_le xs a
  constructor
  · intro e q hq
    rw [e]
    rcases List.mem_cons.1 hq with rfl | hq
    · exact h1
    · exact h2 q hq
  · intro h
    apply le_antisymm
    · rcases foldl_min_mem xs a with e | e
      · rw [e]; exact h a (by simp)
      · exact h _ (by simp [e])
    · rcases List.mem_cons.1 hy with rfl | hy
      · exact h1
      · exact h2 y hy

theorem sum_bounds (xs : List α) (lo hi : α) (h : ∀ x ∈ xs, lo ≤ x ∧ x ≤ hi) :
    lo * xs.length ≤ xs.sum ∧ xs.sum ≤ hi * xs.length := by
  induction xs with
  | nil => simp
  | cons x xs ih =>
    have hx := h x (by simp)
    have ih' := ih (fun y hy => h y (by simp [hy]))
    simp only [List.sum_cons, List.length_cons, Nat.cast_add, Nat.cast_one]
    constructor <;> nlinarith

/-- the mean of points of `[lo, hi]` lies in `[lo, hi]` -/
theorem mean_in_range (xs : List α) (lo hi : α) (h : ∀ x ∈ xs, lo ≤ x ∧ x ≤ hi) (z : α)
    (hz : Spec.mean xs = fin z) : lo ≤ z ∧ z ≤ hi := by
  unfold Spec.mean at hz
  split_ifs at hz with h0
  cases hz
  have hpos : (0 : α) < (xs.length : α) := by
    have : 0 < xs.length := Nat.pos_of_ne_zero h0
    exact_mod_cast this
  obtain ⟨b1, b2⟩ := sum_bounds xs lo hi h
  exact ⟨by rw [le_div_iff₀ hpos]; exact b1, by rw [div_le_iff₀ hpos]; exact b2⟩

theorem smallest_mem (xs : List α) (z : α) (hz : Spec.smallest xs = fin z) : z ∈ xs := by
  cases xs with
  | nil => cases hz
  | cons a xs =>
    simp only [Spec.smallest, fin.injEq] at hz
    subst hz
    rcases foldl_min_mem xs a with e | e
    · rw [e]; simp
    · simp [e]
theorem largest_mem (xs : List α) (z : α) (hz : Spec.largest xs = fin z) : z ∈ xs := by
  cases xs with
  | nil => cases hz
  | cons a xs =>
    simp only [Spec.largest, fin.injEq] at hz
    subst hz
    rcases foldl_max_mem xs a with e | e
    · rw [e]; simp
    · simp [e]

/-! ## masks: `np.where(mask, x, nan)` followed by a NaN-ignoring reduction -/

theorem filter_notNan_sel (c : α × α → Bool) (zs : List (α × α)) :
    (zs.map (fun z => sel (c z) (fin z.1) (nan : X α))).filter notNan = (zs.filter c).map (fun z => fin z.1) := by
  induction zs with
  | nil => rfl
  | cons z zs ih =>
    simp only [List.map, List.filter]
    cases hc : c z <;> simp [notNan, ih]

theorem whereNan_zip (g : α → Bool) (xs sc : List α) (h : sc.length = xs.length) :
    whereNan (sc.map g) (xs.map fin) = (xs.zip sc).map (fun z => sel (g z.2) (fin z.1) (nan : X α)) := by
  unfold whereNan
  rw [bcastRow_len _ _ (by simp [h])]
  induction xs generalizing sc with
  | nil => cases sc <;> rfl
  | cons x xs ih =>
    cases sc with
    | nil => simp at h
    | cons s sc =>
      simp only [List.map, List.zipWith, List.zip_cons_cons]
      rw [ih sc (by simpa using h)]

theorem zip_fst_snd (ps : List (α × α)) : (ps.map Prod.fst).zip (ps.map Prod.snd) = ps := by
  induction ps with
  | nil => rfl
  | cons p ps ih => simp [ih]

theorem fx_eq (ps : List (α × α)) : fx ps = (ps.map Prod.fst).map fin := by simp [fx]
theorem fy_eq (ps : List (α × α)) : fy ps = (ps.map Prod.snd).map fin := by simp [fy]

/-- all-NaN selection has no mean / smallest / largest -/
theorem reductions_filter (c : α × α → Bool) (zs : List (α × α)) :
    nanmean (zs.map (fun z => sel (c z) (fin z.1) (nan : X α))) = Spec.mean ((zs.filter c).map Prod.fst) ∧
    nanmin (zs.map (fun z => sel (c z) (fin z.1) (nan : X α))) = Spec.smallest ((zs.filter c).map Prod.fst) ∧
    nanmax (zs.map (fun z => sel (c z) (fin z.1) (nan : X α))) = Spec.largest ((zs.filter c).map Prod.fst) := by
  have e : (zs.filter c).map (fun z => (fin z.1 : X α)) = ((zs.filter c).map Prod.fst).map fin := by simp
  refine ⟨?_, ?_, ?_⟩
  · unfold nanmean
    simp only [filter_notNan_sel, e]
    have := mean_fin ((zs.filter c).map Prod.fst)
    simpa using this
  · unfold nanmin; rw [filter_notNan_sel, e, npMin_fin]
  · unfold nanmax; rw [filter_notNan_sel, e, npMax_fin]

/-! ## maxima family -/

/-- the NumPy mask `(y > 0) & (y == y.max())` selects exactly the points of positive maximum -/
theorem maxMask_eq (ps : List (α × α)) :
    maxMask (fy ps) = (ps.map Prod.snd).map
      (fun y => decide (0 < y) && (ps.map Prod.snd).all (fun q => decide (q ≤ y))) := by
  unfold maxMask maxMaskWith
  rw [fy_eq, npMax_fin]
  cases hps : ps.map Prod.snd with
  | nil => rfl
  | cons a ys =>
    simp only [Spec.largest, List.map_map]
    apply List.map_congr_left
    intro y hy
    simp only [Function.comp, lt_fin, eq_fin]
    congr 1
    have := eq_foldl_max_iff a ys hy
    by_cases h : y = ys.foldl max a
    · have h' := this.1 h
      rw [decide_eq_true h]; symm
      rw [List.all_eq_true]; intro q hq; exact decide_eq_true (h' q hq)
    · rw [decide_eq_false h]; symm
      rw [Bool.eq_false_iff]; intro hall
      apply h; apply this.2
      intro q hq
      exact of_decide_eq_true (List.all_eq_true.1 hall q hq)

theorem maxPoints_eq (ps : List (α × α)) :
    maxPoints ps = (((ps.map Prod.fst).zip (ps.map Prod.snd)).filter
      (fun z => decide (0 < z.2) && (ps.map Prod.snd).all (fun q => decide (q ≤ z.2)))).map Prod.fst := by
  unfold maxPoints
  rw [zip_fst_snd]
  congr 1
  apply List.filter_congr
  intro p _
  congr 1
  simp only [List.all_map]; rfl

theorem maxima_eq (ps : List (α × α)) :
    Op.Integral.mom (fx ps) (fy ps) = Spec.mom ps ∧ Op.Integral.som (fx ps) (fy ps) = Spec.som ps ∧
    Op.Integral.lom (fx ps) (fy ps) = Spec.lom ps := by
  unfold Op.Integral.mom Op.Integral.som Op.Integral.lom Spec.mom Spec.som Spec.lom
  rw [maxMask_eq, fx_eq, whereNan_zip _ _ _ (by simp), maxPoints_eq]
  exact reductions_filter _ _

/-! ## cumulative sums and the bisector -/

theorem cums_length (ys : List α) : (cums ys).length = ys.length := by
  induction ys with
  | nil => rfl
  | cons y ys ih => simp [cums, ih]

theorem nancumsumFrom_fin (acc : α) (ys : List α) :
    nancumsumFrom (fin acc) (ys.map fin) = ((cums ys).map (acc + ·)).map fin := by
  induction ys generalizing acc with
  | nil => rfl
  | cons y ys ih =>
    simp only [List.map, nancumsumFrom, isnan_fin, Bool.false_eq_true, if_false, add_fin, cums, List.map_map]
    rw [ih]
    congr 1
    simp only [List.map_map]
    apply List.map_congr_left
    intro c _
    simp [Function.comp, add_assoc]

theorem nancumsum_fin (ys : List α) : nancumsum (ys.map fin) = (cums ys).map fin := by
  unfold nancumsum
  rw [nancumsumFrom_fin]
  congr 1
  simp

theorem lastOr_map {β γ : Type} (f : β → γ) (l : List β) (d : β) : lastOr (l.map f) (f d) = f (lastOr l d) := by
  induction l generalizing d with
  | nil => rfl
  | cons x xs ih => simp only [List.map, lastOr]; exact ih x

theorem lastOr_cums (y : α) (ys : List α) (d : α) : lastOr (cums (y :: ys)) d = (y :: ys).sum := by
  induction ys generalizing y d with
  | nil => simp [cums, lastOr]
  | cons y' ys ih =>
    have ih' := ih y' 0
    have h1 : lastOr (cums (y' :: ys)) 0 = lastOr ((cums ys).map (y' + ·)) y' := rfl
    have h2 : lastOr (cums (y :: y' :: ys)) d = lastOr (((cums ys).map (y' + ·)).map (y + ·)) (y + y') := rfl
    have h3 : lastOr (((cums ys).map (y' + ·)).map (y + ·)) (y + y') = y + lastOr ((cums ys).map (y' + ·)) y' :=
      lastOr_map (y + ·) _ y'
    rw [h2, h3, ← h1, ih']; simp [List.sum_cons]

theorem lastOr_map_cums {γ : Type} (f : α → γ) (y : α) (ys : List α) (d : γ) :
    lastOr ((cums (y :: ys)).map f) d = f (y :: ys).sum := by
  have h1 : lastOr ((cums (y :: ys)).map f) d = lastOr (((cums ys).map (y + ·)).map f) (f y) := rfl
  rw [h1, lastOr_map f _ y]
  have h2 : lastOr ((cums ys).map (y + ·)) y = lastOr (cums (y :: ys)) 0 := rfl
  rw [h2, lastOr_cums]

theorem nancumsumFrom_length (acc : X α) (y : List (X α)) : (nancumsumFrom acc y).length = y.length := by
  induction y generalizing acc with
  | nil => rfl
  | cons v y ih => simp [nancumsumFrom, ih]

theorem bisectorScores_length (y : List (X α)) : (bisectorScores y).length = y.length := by
  simp [bisectorScores, scoresWith, nancumsum, nancumsumFrom_length]

theorem cums_zero (ys : List α) (h : ∀ y ∈ ys, y = 0) : ∀ c ∈ cums ys, c = 0 := by
  induction ys with
  | nil => simp [cums]
  | cons y ys ih =>
    have e1 := h y (by simp)
    have ih' := ih (fun q hq => h q (by simp [hq]))
    intro c hc
    simp only [cums, List.mem_cons, List.mem_map] at hc
    rcases hc with rfl | ⟨c', hc', rfl⟩
    · exact e1
    · rw [e1, ih' c' hc']; simp

/-- the scores computed by the array code are the documented ones (total membership non-zero) -/
theorem bisectorScores_eq (ps : List (α × α)) (h0 : sumY ps ≠ 0) :
    bisectorScores (fy ps) = (scores ps).map fin := by
  unfold bisectorScores scoresWith scores
  rw [fy_eq, nancumsum_fin]
  cases hys : ps.map Prod.snd with
  | nil => rfl
  | cons y ys =>
    have hl : lastOr ((cums (y :: ys)).map fin) (nan : X α) = fin (sumY ps) := by
      rw [lastOr_map_cums, sumY, hys]
    rw [hl]
    simp only [List.map_map]
    apply List.map_congr_left
    intro c _
    simp only [Function.comp, div_fin _ _ h0, sub_fin, abs_fin]

/-- with zero total membership every score is NaN -/
theorem bisectorScores_nan (ps : List (α × α)) (hz : ∀ p ∈ ps, p.2 = 0) :
    ∀ s ∈ bisectorScores (fy ps), s = (nan : X α) := by
  unfold bisectorScores scoresWith
  rw [fy_eq, nancumsum_fin]
  have hc := cums_zero (ps.map Prod.snd) (by
    intro y hy; obtain ⟨p, hp, rfl⟩ := List.mem_map.1 hy; exact hz p hp)
  cases hys : ps.map Prod.snd with
  | nil => simp [cums]
  | cons y ys =>
    rw [hys] at hc
    have hl : lastOr ((cums (y :: ys)).map fin) (nan : X α) = fin 0 := by
      rw [lastOr_map_cums]
      have : sumY ps = 0 := (sumY_eq_zero_iff ps (fun p hp => le_of_eq (hz p hp).symm)).2 hz
      rw [sumY, hys] at this
      rw [this]
    rw [hl]
    intro s hs
    simp only [List.map_map, List.mem_map, Function.comp] at hs
    obtain ⟨c, hc', rfl⟩ := hs
    rw [hc c hc']
    simp [div, mulInf, sub, X.add, X.abs]

theorem bisector_eq (ps : List (α × α)) (hy : ∀ p ∈ ps, 0 ≤ p.2) :
    Op.Integral.bisector (fx ps) (fy ps) = Spec.bisector ps := by
  unfold Op.Integral.bisector maskEq Spec.bisector
  by_cases h0 : sumY ps = 0
  · rw [if_pos h0]
    have hn := bisectorScores_nan ps ((sumY_eq_zero_iff ps hy).1 h0)
    -- every comparison with NaN is false: the mask is all-false
    have hmask : (bisectorScores (fy ps)).map (fun a => X.eq a (npMin (bisectorScores (fy ps)))) =
        (bisectorScores (fy ps)).map (fun _ => false) := by
      apply List.map_congr_left
      intro a ha
      rw [hn a ha]; simp
    simp only [hmask]
    have hlen : (bisectorScores (fy ps)).length = ps.length := by
      rw [bisectorScores_length]; simp
    have e : (bisectorScores (fy ps)).map (fun _ => false) = (ps.map Prod.snd).map (fun _ => false) := by
      apply List.ext_getElem <;> simp [hlen]
    rw [e, fx_eq, whereNan_zip _ _ _ (by simp)]
    rw [(reductions_filter (fun _ => false) _).1]
    simp [Spec.mean]
  · rw [if_neg h0, bisectorScores_eq ps h0]
    have hlen : (scores ps).length = ps.length := by simp [scores, cums_length]
    rw [npMin_fin]
    cases hsc : scores ps with
    | nil =>
      have : ps = [] := by
        rw [hsc] at hlen; exact List.length_eq_zero_iff.1 hlen.symm
      subst this
      simp [Spec.bisectorPoints, whereNan, bcastRow, nanmean, Spec.mean, Op.Integral.sum, div, mulInf, scores, cums]
    | cons s0 ss =>
      simp only [Spec.smallest, List.map_map]
      have hmask : ((s0 :: ss).map ((fun a => X.eq a (fin (ss.foldl min s0))) ∘ fin)) =
          (s0 :: ss).map (fun s => decide (s = ss.foldl min s0)) := by
        apply List.map_congr_left; intro s _; simp [Function.comp]
      rw [hmask, fx_eq, whereNan_zip _ _ _ (by rw [← hsc]; simp [hlen])]
      rw [(reductions_filter (fun z => decide (z.2 = ss.foldl min s0)) _).1]
      unfold Spec.bisectorPoints
      rw [hsc]
      congr 2
      apply List.filter_congr
      intro z hz
      have hz2 : z.2 ∈ s0 :: ss := (List.of_mem_zip hz).2
      have := eq_foldl_min_iff s0 ss hz2
      by_cases h : z.2 = ss.foldl min s0
      · rw [decide_eq_true h]; symm
        rw [List.all_eq_true]; intro q hq; exact decide_eq_true (this.1 h q hq)
      · rw [decide_eq_false h]; symm
        rw [Bool.eq_false_iff]; intro hall
        apply h; apply this.2
        intro q hq
        exact of_decide_eq_true (List.all_eq_true.1 hall q hq)

/-! ## midpoints -/

theorem midpoints_fin (lo hi : α) (r : Nat) :
    Op.Integral.midpoints (fin lo) (fin hi) r = (Spec.midpoints lo hi r).map fin := by
  unfold Op.Integral.midpoints Spec.midpoints
  rw [List.map_map]
  apply List.map_congr_left
  intro i hi'
  have hr : (r : α) ≠ 0 := by
    have : i < r := List.mem_range.1 hi'
    exact natCast_ne_zero (by omega)
  simp only [Function.comp, sub_fin, add_fin, div_fin _ _ hr, mul_fin]

theorem midpoint_bounds (lo hi : α) (h : lo < hi) (r i : Nat) (hi' : i < r) :
    lo < lo + ((i : α) + 1 / 2) * ((hi - lo) / r) ∧ lo + ((i : α) + 1 / 2) * ((hi - lo) / r) < hi := by
  have hr : (0 : α) < (r : α) := by exact_mod_cast (by omega : 0 < r)
  have hd : 0 < (hi - lo) / (r : α) := div_pos (sub_pos.2 h) hr
  have hi0 : (0 : α) ≤ (i : α) := Nat.cast_nonneg i
  have hlt : (i : α) + 1 ≤ (r : α) := by exact_mod_cast hi'
  constructor
  · have : 0 < ((i : α) + 1 / 2) * ((hi - lo) / r) := mul_pos (by linarith) hd
    linarith
  · have e : (hi - lo) = (r : α) * ((hi - lo) / r) := by field_simp
    have : ((i : α) + 1 / 2) * ((hi - lo) / r) < (r : α) * ((hi - lo) / r) :=
      mul_lt_mul_of_pos_right (by linarith) hd
    linarith

/-! ## batches: a matrix of memberships is the list of the per-row fuzzy sets -/

theorem zipWith_map_same {ι β γ δ : Type} (f : β → γ → δ) (g : ι → β) (h : ι → γ) (l : List ι) :
    List.zipWith f (l.map g) (l.map h) = l.map (fun b => f (g b) (h b)) := by
  induction l with
  | nil => rfl
  | cons a l ih => simp [ih]

theorem map_eq_range_getD {β γ : Type} (f : β → γ) (l : List β) (B : Nat) (d : β) (h : l.length = B) :
    l.map f = (List.range B).map (fun b => f (l.getD b d)) := by
  subst h
  apply List.ext_getElem
  · simp
  · intro i h1 h2
    simp at h1
    simp [h1]

theorem column_length (a : Activated α) (B : Nat) (h : a.degrees.length = 1 ∨ a.degrees.length = B) :
    (a.column B).length = B := by
  unfold Activated.column bcastRow
  rcases h with h | h
  · match hd : a.degrees, h with
    | [v], _ => simp
  · match hd : a.degrees, h with
    | [], h => simpa using h
    | [v], h => simp
    | _ :: _ :: _, h => simpa using h

theorem foldl_rows (agg : X α → X α → X α) (x : List (X α)) (B : Nat) (acts : List (Activated α))
    (hU : ∀ a ∈ acts, a.degrees.length = 1 ∨ a.degrees.length = B) (g : Nat → List (X α)) :
    acts.foldl (fun Y a => List.zipWith (List.zipWith agg) Y (activatedMat a B x)) ((List.range B).map g) =
    (List.range B).map (fun b => acts.foldl
      (fun y a => List.zipWith agg y (activatedRow a ((a.column B).getD b nan) (x.map a.mu))) (g b)) := by
  induction acts generalizing g with
  | nil => rfl
  | cons a acts ih =>
    simp only [List.foldl]
    have hc := column_length a B (hU a (by simp))
    have e : activatedMat a B x = (List.range B).map (fun b => activatedRow a ((a.column B).getD b nan) (x.map a.mu)) := by
      unfold activatedMat
      exact map_eq_range_getD _ _ B nan hc
    rw [e, zipWith_map_same]
    exact ih (fun q hq => hU q (by simp [hq])) _

/-! ## existence of extremal elements, emptiness of the selected sets -/

theorem exists_max_elem (ps : List (α × α)) (h : ps ≠ []) : ∃ m ∈ ps, ∀ q ∈ ps, q.2 ≤ m.2 := by
  induction ps with
  | nil => exact absurd rfl h
  | cons p ps ih =>
    by_cases hps : ps = []
    · subst hps; exact ⟨p, by simp, by simp⟩
    · obtain ⟨m, hm, hmax⟩ := ih hps
      rcases le_total p.2 m.2 with hle | hle
      · refine ⟨m, by simp [hm], ?_⟩
        intro q hq
        rcases List.mem_cons.1 hq with rfl | hq
        · exact hle
        · exact hmax q hq
      · refine ⟨p, by simp, ?_⟩
        intro q hq
        rcases List.mem_cons.1 hq with rfl | hq
        · exact le_refl _
        · exact le_trans (hmax q hq) hle

theorem maxPoints_eq_nil_iff (ps : List (α × α)) (hy : ∀ p ∈ ps, 0 ≤ p.2) :
    maxPoints ps = [] ↔ ∀ p ∈ ps, p.2 = 0 := by
  unfold maxPoints
  rw [List.map_eq_nil_iff, List.filter_eq_nil_iff]
  constructor
  · intro h p hp
    by_contra hne
    have hpos : 0 < p.2 := lt_of_le_of_ne (hy p hp) (Ne.symm hne)
    obtain ⟨m, hm, hmax⟩ := exists_max_elem ps (List.ne_nil_of_mem hp)
    apply h m hm
    simp only [Bool.and_eq_true, decide_eq_true_eq, List.all_eq_true]
    exact ⟨lt_of_lt_of_le hpos (hmax p hp), hmax⟩
  · intro h p hp
    simp [h p hp]

theorem mem_maxPoints (ps : List (α × α)) {x : α} (hx : x ∈ maxPoints ps) : ∃ p ∈ ps, p.1 = x := by
  unfold maxPoints at hx
  obtain ⟨p, hp, rfl⟩ := List.mem_map.1 hx
  exact ⟨p, (List.mem_filter.1 hp).1, rfl⟩

theorem mem_bisectorPoints (ps : List (α × α)) {x : α} (hx : x ∈ bisectorPoints ps) : ∃ p ∈ ps, p.1 = x := by
  unfold bisectorPoints at hx
  obtain ⟨z, hz, rfl⟩ := List.mem_map.1 hx
  have := (List.of_mem_zip (List.mem_filter.1 hz).1).1
  obtain ⟨p, hp, e⟩ := List.mem_map.1 this
  exact ⟨p, hp, e⟩

theorem exists_zip_of_mem_right {β : Type} (xs : List β) (sc : List α) (h : xs.length = sc.length) {s : α}
    (hs : s ∈ sc) : ∃ x, (x, s) ∈ xs.zip sc := by
  induction sc generalizing xs with
  | nil => cases hs
  | cons t sc ih =>
    cases xs with
    | nil => simp at h
    | cons x xs =>
      rcases List.mem_cons.1 hs with rfl | hs
      · exact ⟨x, by simp⟩
      · obtain ⟨x', hx'⟩ := ih xs (by simpa using h) hs
        exact ⟨x', by simp [hx']⟩

theorem scores_length (ps : List (α × α)) : (scores ps).length = ps.length := by
  simp [scores, cums_length]

theorem bisectorPoints_ne_nil (ps : List (α × α)) (h : ps ≠ []) : bisectorPoints ps ≠ [] := by
  unfold bisectorPoints
  cases hsc : scores ps with
  | nil =>
    have := scores_length ps
    rw [hsc] at this
    exact absurd (List.length_eq_zero_iff.1 this.symm) h
  | cons s0 ss =>
    have hmem : ss.foldl min s0 ∈ s0 :: ss := by
      rcases foldl_min_mem ss s0 with e | e
      · rw [e]; simp
      · simp [e]
    obtain ⟨x, hx⟩ := exists_zip_of_mem_right (ps.map Prod.fst) (s0 :: ss)
      (by rw [← hsc, scores_length]; simp) hmem
    intro hnil
    rw [List.map_eq_nil_iff, List.filter_eq_nil_iff] at hnil
    apply hnil _ hx
    rw [List.all_eq_true]
    intro q hq
    apply decide_eq_true
    exact ((eq_foldl_min_iff s0 ss hmem).1 rfl) q hq

theorem mean_eq_nan_iff (l : List α) : Spec.mean l = nan ↔ l = [] := by
  unfold Spec.mean
  by_cases h : l.length = 0
  · simp [List.length_eq_zero_iff.1 h]
  · simp only [if_neg h, reduceCtorEq, false_iff]
    intro e; subst e; simp at h
theorem smallest_eq_nan_iff (l : List α) : Spec.smallest l = nan ↔ l = [] := by
  cases l <;> simp [Spec.smallest]
theorem largest_eq_nan_iff (l : List α) : Spec.largest l = nan ↔ l = [] := by
  cases l <;> simp [Spec.largest]

theorem cums_getElem? (ys : List α) (i : Nat) :
    (cums ys)[i]? = if i < ys.length then some ((ys.take (i + 1)).sum) else none := by
  induction ys generalizing i with
  | nil => simp [cums]
  | cons y ys ih =>
    cases i with
    | zero => simp [cums]
    | succ i =>
      simp only [cums, List.getElem?_cons_succ, List.getElem?_map, ih, List.length_cons,
        Nat.add_lt_add_iff_right, List.take_succ_cons, List.sum_cons]
      split_ifs <;> simp

/-! ## the `(1,1)` membership array of a set without activations -/

theorem whereNan_false (x : List (X α)) : whereNan [false] x = List.replicate x.length (nan : X α) := by
  unfold whereNan bcastRow
  induction x with
  | nil => rfl
  | cons v x ih =>
    simp only [List.length_cons, List.replicate_succ, List.zipWith_cons_cons, sel_false]
    congr 1

theorem filter_notNan_replicate (n : Nat) : (List.replicate n (nan : X α)).filter notNan = [] := by
  induction n with
  | zero => rfl
  | succ n ih => simp [List.replicate_succ, notNan]

theorem sum_mul_zero (x : List (X α)) :
    Op.Integral.sum (List.zipWith mul x (List.replicate x.length (fin (0 : α)))) = fin 0 ∨
    Op.Integral.sum (List.zipWith mul x (List.replicate x.length (fin (0 : α)))) = nan := by
  induction x with
  | nil => left; rfl
  | cons v x ih =>
    simp only [List.length_cons, List.replicate_succ, List.zipWith_cons_cons, Op.Integral.sum, List.foldr_cons]
    unfold Op.Integral.sum at ih
    rcases ih with e | e <;> rw [e] <;> cases v <;> simp [X.mul, X.add, mulInf]

theorem no_activation (x : List (X α)) :
    Op.Integral.centroid x [fin 0] = nan ∧ Op.Integral.bisector x [fin 0] = nan ∧ Op.Integral.som x [fin 0] = nan ∧
    Op.Integral.mom x [fin 0] = nan ∧ Op.Integral.lom x [fin 0] = nan := by
  have hmask : maxMask [(fin 0 : X α)] = [false] := by simp [maxMask, maxMaskWith, npMax]
  have hmean : nanmean (List.replicate x.length (nan : X α)) = nan := by
    unfold nanmean; rw [filter_notNan_replicate]; simp [Op.Integral.sum, div, mulInf]
  refine ⟨?_, ?_, ?_, ?_, ?_⟩
  · unfold Op.Integral.centroid
    have : bcastRow x.length [(fin 0 : X α)] = List.replicate x.length (fin 0) := rfl
    rw [this]
    rcases sum_mul_zero x with e | e <;> rw [e] <;> simp [Op.Integral.sum, div, mulInf]
  · unfold Op.Integral.bisector maskEq
    have : (bisectorScores [(fin 0 : X α)]).map
        (fun a => X.eq a (npMin (bisectorScores [(fin 0 : X α)]))) = [false] := by
      simp [bisectorScores, scoresWith, nancumsum, nancumsumFrom, lastOr, div, mulInf, X.sub, X.add, X.abs]
    rw [this, whereNan_false, hmean]
  · unfold Op.Integral.som nanmin; rw [hmask, whereNan_false, filter_notNan_replicate]; rfl
  · unfold Op.Integral.mom; rw [hmask, whereNan_false, hmean]
  · unfold Op.Integral.lom nanmax; rw [hmask, whereNan_false, filter_notNan_replicate]; rfl

end Lemmas.Integral
